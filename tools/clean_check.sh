#!/bin/sh
# Run the quick checks of the given properties (default: all) against the UNCHANGED scratch copy of
# the repository inside a `vp run --with-repo` snapshot; never touches /repo.
# usage: tools/clean_check.sh [seed] [Cxx ...]
set -u
R=$VP_RUN_REPO
S=${1:-1}; shift 2>/dev/null || true
P=${*:-C01 C02 C03 C04 C05 C06 C07 C08 C09 C10 C11 C12 C13 C14 C15 C16 C17 C18 C19 C20}
sed -i "s#/repo#$R#g" harness/Cargo.toml check
./setup.sh >/dev/null 2>&1 || { echo "setup failed"; exit 1; }
for p in $P; do
  ./check "$p" --tier quick --seed "$S" 2>&1 | grep -E "^VIOLATION|^OK" | cut -c1-200
done

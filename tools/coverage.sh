#!/bin/sh
# Development aid (not a registered check): which lines of /repo/src do the harness streams of
# all twenty properties execute? Builds the harness with -C instrument-coverage on the nightly
# toolchain into a scratch directory OUTSIDE /verif and /repo, runs every property's quick
# stream, merges the profiles and prints llvm-cov's per-file report plus every line with count 0.
# usage: tools/coverage.sh [scratch-dir]   (default /root/scratch/cov; removed afterwards)
set -eu
S=${1:-/root/scratch/cov}
B=$(dirname "$(rustc +nightly --print target-libdir)")/bin
mkdir -p "$S"
( cd /verif/harness && RUSTFLAGS="--cfg fuzzing -C instrument-coverage" cargo +nightly build --release --offline --target-dir "$S/target" >/dev/null 2>&1 )
for i in 01 02 03 04 05 06 07 08 09 10 11 12 13 14 15 16 17 18 19 20; do
  LLVM_PROFILE_FILE="$S/C$i.profraw" "$S/target/release/twharness" run --prop C$i --tier quick --seed 1 \
    --driver /verif/lean/.lake/build/bin/twdriver --out "$S/C$i.json" --known /verif/known-findings.txt >/dev/null 2>&1 || true
done
"$B/llvm-profdata" merge -sparse "$S"/*.profraw -o "$S/all.profdata"
"$B/llvm-cov" report "$S/target/release/twharness" -instr-profile="$S/all.profdata" /repo/src
"$B/llvm-cov" show "$S/target/release/twharness" -instr-profile="$S/all.profdata" /repo/src --show-line-counts-or-regions 2>/dev/null \
  | grep -E '^\s+[0-9]+\|\s+0\||^/repo' || true
rm -rf "$S"

#!/usr/bin/env python3
"""Regenerate MANIFEST.json from tools/claims.json (the per-property claim texts)."""
import json, os
ROOT = os.path.dirname(os.path.dirname(os.path.abspath(__file__)))
props = [json.loads(l) for l in open(os.path.join(ROOT, "properties.jsonl"))]
claims = json.load(open(os.path.join(ROOT, "tools", "claims.json")))
checks, na = [], []
for p in props:
    pid = p["id"]
    c = claims.get(pid)
    if not c or c.get("not_applicable"):
        na.append(dict(property_id=pid, reason=(c or {}).get("not_applicable", "check under construction (framework exists, theorems for this property not yet written); will be claimed")))
        continue
    checks.append(dict(
        property_id=pid,
        quick_cmd=f"./check {pid} --tier quick",
        thorough_cmd=f"./check {pid} --tier thorough",
        evidence_file=f"/verif/evidence/{pid}.json",
        replay_cmd_template=f"./check {pid} --replay {{path}}",
        engine="lean4-proof+correspondence",
        level_claimed=dict(category="proof", text=c["text"], design_ref=c.get("design_ref", f"DESIGN.md §7 {pid}")),
        level_note=c["note"],
        technique=c.get("technique", "Lean 4 theorems over an executable model + differential correspondence with the real crate + regenerated tables"),
    ))
m = dict(
    version=1,
    setup_cmd="./setup.sh",
    hooks=dict(
        guard="--cfg fuzzing",
        enable="RUSTFLAGS='--cfg fuzzing' via /verif/harness/.cargo/config.toml (the crate's own upstream guard; exposes src/fuzzing.rs and src/verif_hooks.rs)",
        baseline_off_cmd="cd /repo && cargo test --workspace --no-fail-fast --offline",
        source_commits=["87400fe"],
        add_only=True,
    ),
    engines=[dict(name="lean4-proof+correspondence", path="/verif/check", serves_properties=[c["property_id"] for c in checks],
                  kind_free_text="Lean 4.33 theorems about a hand-written executable model (lean/), tied to /repo on every run by a Rust differential harness (harness/) and regenerated width/char-class tables; property predicates evaluated on the real outputs as failing-input search")],
    checks=checks,
    notes="See DESIGN.md. known-findings.txt lists recorded findings (KNOWN-FINDING lines) and repaired defects (fixed: lines).",
    not_applicable=na,
)
json.dump(m, open(os.path.join(ROOT, "MANIFEST.json"), "w"), indent=1)
print("claimed:", [c["property_id"] for c in checks])

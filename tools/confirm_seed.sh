#!/bin/sh
# confirm a seeded change in a scratch worktree: builds, whole suite passes, demo fails with / passes without
# usage: confirm_seed.sh <worktree> <seed-dir>
set -u
WT=$1; SD=$2
cd "$WT" || exit 2
git checkout -q -- . 2>/dev/null; git stash list >/dev/null
git apply "$SD/patch.diff" || { echo "PATCH DOES NOT APPLY"; exit 2; }
echo "== build (both feature sets)"; cargo build --offline 2>&1 | tail -1; cargo build --offline --no-default-features 2>&1 | tail -1
echo "== suite with change"; cargo test --offline 2>&1 | grep "test result" 
cp "$SD/demo.rs" tests/seed_demo.rs
echo "== demo with change (expect FAIL)"; cargo test --offline --test seed_demo 2>&1 | grep -E "^test result"
git checkout -q -- src
echo "== demo without change (expect PASS)"; cargo test --offline --test seed_demo 2>&1 | grep "test result"
rm -f tests/seed_demo.rs

#!/bin/sh
# apply a seeded change to /repo, run the given checks, undo it straight afterwards
# usage: try_seed.sh <patch> <Cxx> [<Cyy> ...]
set -u
P=$1; shift
cd /verif
# evidence files must describe runs on the unchanged tree: keep them aside while the seed is applied
rm -rf .work/evidence.keep && mkdir -p .work && cp -r evidence .work/evidence.keep
git -C /repo apply "$P" || { echo "PATCH DOES NOT APPLY TO /repo"; exit 2; }
for c in "$@"; do
  echo "--- ./check $c"
  ./check $c 2>&1 | grep -E "^VIOLATION|^OK|failing input|^  \[" | cut -c1-400
done
git -C /repo checkout -- .
rm -rf evidence && mv .work/evidence.keep evidence
git -C /repo status --short | head -3

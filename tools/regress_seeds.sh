#!/bin/sh
# Regression of the detection capability: apply every seeded change in turn to a scratch copy of
# the repository ($1, default $VP_RUN_REPO), run the check of the property it breaks, and print one
# line per seed. Meant for `vp run --with-repo` (the snapshot's harness and check are pointed at
# the copy first); never touches /repo.
# usage (inside a vp run snapshot): tools/regress_seeds.sh <i> <k> [pattern]   (every k-th seed starting at i of seeded/<pattern>; default all of S*)
# Runs without the x8 escalation (VERIF_NO_ESCALATE): a change caught at the base counts is caught at 8x.
set -u
R=$VP_RUN_REPO
I=${1:-0}; K=${2:-1}; PAT=${3:-S*}; N=0
export VERIF_NO_ESCALATE=1
sed -i "s#/repo#$R#g" harness/Cargo.toml check
./setup.sh >/dev/null 2>&1 || { echo "setup failed"; exit 1; }
for d in seeded/$PAT; do
  N=$((N+1)); [ $(( (N - 1) % K )) -eq "$I" ] || continue
  p=$(python3 -c "import json,sys; print(json.load(open('$d/meta.json'))['breaks_property'])")
  git -C "$R" apply "$PWD/$d/patch.diff" 2>/dev/null || { echo "$d $p PATCH-DOES-NOT-APPLY"; continue; }
  out=$(./check "$p" 2>&1 | grep -E "^VIOLATION|^OK" | head -1 | cut -c1-120)
  echo "$d $p :: $out"
  git -C "$R" checkout -q -- .
done

//! Long inputs, judged by self-contained linear-time predicates only (no model): limits, block
//! sizes and fall-backs inside the crate that lie beyond the size horizon of the differential
//! streams show only here. One size ladder for every property: just above 64, 1024, 2083, 10 000
//! and 40 000 words / lines (thorough: also 100 000).
use crate::ctx::Ctx;
use crate::ops::*;
use crate::opt::Opt;
use textwrap::core::display_width as dw;

fn sizes(ctx: &Ctx) -> Vec<usize> {
    // … and just above the limits of the narrow integer types (u8, u16): a count kept in one of
    // them, or a block size of `u16::MAX`, is nowhere in the source as a number
    let mut v = if ctx.thorough { vec![70, 258, 1_100, 2_100, 10_100, 41_000, 65_540, 100_000] } else { vec![70, 258, 1_100, 10_100, 65_540] };
    // sizes just above the numbers the code under test mentions (`gen::dict`): limits, block sizes
    // and fall-back thresholds — at most ten (quick) / twenty-four (thorough), spread over the range
    let cap = if ctx.thorough { 120_000 } else { 20_000 };
    let cand: Vec<usize> = crate::gen::dict().numbers.iter().copied().filter(|n| *n >= 60 && *n <= cap).collect();
    let want = if ctx.thorough { 24 } else { 10 };
    let step = (cand.len() + want - 1) / want.max(1);
    for (i, n) in cand.iter().rev().enumerate() {
        if step <= 1 || i % step == 0 {
            let m = n + 1 + (n / 64); // beyond the number itself and beyond an off-by-a-few
            if !v.iter().any(|x| *x >= m && *x <= m + m / 10) {
                v.push(m);
            }
        }
    }
    // numbers beyond the ladder (byte limits such as `1 << 20`): once each as a text of more than
    // that many BYTES (plain words average a little over four bytes), not on the dense draws
    if !ctx.dense {
        let big: Vec<usize> = crate::gen::dict().numbers.iter().copied().filter(|n| *n > cap && *n <= 5_000_000).collect();
        for n in big.iter().rev().take(if ctx.thorough { 4 } else { 2 }) {
            v.push(n / 3 + 1_000);
        }
    }
    v.sort();
    v.dedup();
    v
}

const WORDS: &[&str] = &["a", "to", "the", "that", "being", "x-y", "wrapped", "question", "é", "Ｈi", "well-known"];
/// words of multi-byte characters only (2, 3 and 4 bytes each, mixed lengths): in a text made of
/// them almost every fixed byte offset lies inside a character, so code that cuts at a constant
/// offset (`&s[..N]`) or counts bytes where it should count chars shows on long inputs
const DENSE: &[&str] = &["字", "日本語", "éé", "😂", "ΩΩΩ", "한글", "ß", "字字字字", "👉é"];

fn pick_word(ctx: &mut Ctx) -> &'static str {
    if ctx.dense { *ctx.rng.pick(DENSE) } else { *ctx.rng.pick(WORDS) }
}

fn long_para(ctx: &mut Ctx, n: usize) -> String {
    let mut s = String::new();
    for i in 0..n {
        if i > 0 {
            s.push(' ');
        }
        s.push_str(pick_word(ctx));
    }
    s
}

fn long_text(ctx: &mut Ctx, n: usize) -> String {
    // paragraphs of 1..40 words
    let mut s = String::new();
    let mut left = n;
    while left > 0 {
        let k = (1 + ctx.rng.below(40)).min(left);
        s.push_str(&long_para(ctx, k));
        left -= k;
        if left > 0 {
            s.push('\n');
        }
    }
    s
}

fn opts(ctx: &mut Ctx, w: usize) -> Opt {
    let mut o = Opt::crate_default(w);
    if ctx.rng.chance(1, 2) {
        o.alg = 'f';
    }
    if ctx.rng.chance(1, 2) {
        o.sep = 'a';
    }
    o
}

fn squeeze(s: &str) -> String {
    s.chars().filter(|c| *c != ' ' && *c != '\n').collect()
}

pub fn long_cases(ctx: &mut Ctx) {
    ctx.dense = false;
    long_cases_inner(ctx);
    // the same ladder on dense multi-byte text (three draws each)
    for _ in 0..3 {
        ctx.dense = true;
        long_cases_inner(ctx);
    }
    ctx.dense = false;
    let p = ctx.prop.clone();
    ctx.canary_check(&format!("the last long-input case for {}", p));
}

fn long_cases_inner(ctx: &mut Ctx) {
    let prop = ctx.prop.clone();
    for (step, n) in sizes(ctx).into_iter().enumerate() {
        // what a long input leaves behind on this thread (scratch buffers, caches with a size cap)
        if step > 0 {
            ctx.canary_check(&format!("the long-input case of the previous step for {}", prop));
        }
        let desc_n = format!("{} words", n);
        ctx.count("long_input_cases");
        let w = 5 + ctx.rng.below(30);
        match prop.as_str() {
            "C01" | "C09" | "C08" | "C02" => {
                // one time in three a single paragraph at a width of 1..3 columns (as many lines as
                // words), otherwise paragraphs of up to forty words
                let single = n <= 70_000 && step % 3 == 1;
                let t = if single { long_para(ctx, n) } else { long_text(ctx, n) };
                let w = if single { 1 + ctx.rng.below(3) } else { w };
                let mut o = opts(ctx, w);
                if prop == "C08" {
                    o.ii = "> ".into();
                    o.si = "| ".into();
                }
                if prop == "C02" {
                    o.alg = 'f';
                }
                if prop == "C09" && n > 100_000 {
                    // beyond a byte limit named in the source: with the crate's default algorithm
                    o.alg = Opt::crate_default(w).alg;
                }
                let d = format!("wrap(text of {}, {})", desc_n, o.show());
                ctx.risky(&d);
                let (lines, _) = real_wrap(&t, &o);
                let f = quiet(|| textwrap::fill(&t, o.to_options()));
                ctx.risky_done();
                let (Some(ls), Some(f)) = (lines, f) else { ctx.fail("returns normally", d, None); continue };
                let cat: String = ls.iter().enumerate().map(|(k, l)| l.s.strip_prefix(if k == 0 { o.ii.as_str() } else { o.si.as_str() }).unwrap_or("\u{0}").to_string()).collect::<Vec<_>>().join("");
                if squeeze(&cat) != squeeze(&t) {
                    ctx.fail(if prop == "C08" { "every line carries its indent" } else { "lines are in-order slices of the input" }, format!("{}: the lines (without indents) do not spell the text", d), None);
                    continue;
                }
                if o.ii.is_empty() {
                    let mut last = 0usize;
                    let mut ordered = true;
                    for l in &ls {
                        if let Some(st) = l.start {
                            if st < last { ordered = false; }
                            last = st + l.s.len();
                        }
                    }
                    if !ordered || ls.iter().any(|l| !l.s.is_empty() && !l.borrowed) {
                        ctx.fail("lines are in-order slices of the input", format!("{}: lines are not ordered borrowed slices", d), None);
                        continue;
                    }
                }
                if ls.iter().map(|l| l.s.as_str()).collect::<Vec<_>>().join("\n") != f {
                    ctx.fail("fill = wrap's lines joined by the line ending", d, None);
                    continue;
                }
                if ls.len() < t.split('\n').count() {
                    ctx.fail("never fewer lines than the input", d, None);
                    continue;
                }
                // paragraphs wrap independently: with empty indents the lines of the whole text are
                // the lines of its paragraphs, one after the other
                if prop == "C09" && o.ii.is_empty() && o.si.is_empty() {
                    let mut per: Vec<String> = Vec::new();
                    let mut okp = true;
                    for para in t.split('\n') {
                        match real_wrap(para, &o).0 {
                            Some(pl) => per.extend(pl.into_iter().map(|l| l.s)),
                            None => { okp = false; break; }
                        }
                    }
                    if !okp || per.len() != ls.len() || per.iter().zip(ls.iter()).any(|(a, b)| *a != b.s) {
                        ctx.fail("the lines of a text are the lines of its paragraphs (paragraphs wrap independently)", d, None);
                        continue;
                    }
                }
                if prop == "C02" && ls.iter().any(|l| dw(&l.s) > o.width && l.s.contains(' ')) {
                    ctx.fail("line fits the width unless it is one unbreakable fragment", d, None);
                    continue;
                }
                ctx.oracle_ok();
            }
            "C05" => {
                let p = long_para(ctx, n);
                for width in [dw(&p), dw(&p) + 1, p.len(), p.len() + 1, usize::MAX] {
                    let o = opts(ctx, width);
                    let d = format!("wrap(paragraph of {} fitting width {}, {})", desc_n, width, o.show());
                    let (lines, _) = real_wrap(&p, &o);
                    match lines {
                        Some(ls) if ls.len() == 1 && ls[0].s == p => ctx.oracle_ok(),
                        _ => ctx.fail("a paragraph that fits comes back as one unchanged line", d, None),
                    }
                }
            }
            "C06" | "C07" => {
                let frs: Vec<F> = (0..n).map(|_| F(1.0 + ctx.rng.below(7) as f64, 1.0, 0.0)).collect();
                let lw = vec![w as f64, (w / 2) as f64 + 3.0];
                // optimal-fit on the same fragments: at the drawn widths and at width 1 (one
                // fragment per line: as many LINES as fragments — a line count kept in a narrow
                // integer shows only there)
                #[cfg(feature = "full")]
                if prop == "C06" {
                    for lwo in [lw.clone(), vec![1.0]] {
                        let d = format!("wrap_optimal_fit({} fragments, {:?}, default penalties)", n, lwo);
                        ctx.risky(&d);
                        let r = quiet(|| textwrap::wrap_algorithms::wrap_optimal_fit(&frs, &lwo, &textwrap::wrap_algorithms::Penalties::new()).map(|ls| ls.iter().map(|l| l.len()).collect::<Vec<_>>()));
                        ctx.risky_done();
                        match r {
                            None => ctx.fail("returns normally", d, None),
                            Some(Err(_)) => ctx.fail("no overflow error on small integers", d, None),
                            Some(Ok(lens)) => {
                                if !crate::props_a::is_partition(&lens, n) {
                                    ctx.fail("ordered partition", format!("{}: {} lines holding {} fragments", d, lens.len(), lens.iter().sum::<usize>()), None);
                                } else {
                                    ctx.oracle_ok();
                                }
                            }
                        }
                    }
                }
                let d = format!("wrap_first_fit({} fragments, {:?})", n, lw);
                let r = quiet(|| textwrap::wrap_algorithms::wrap_first_fit(&frs, &lw).iter().map(|l| l.len()).collect::<Vec<_>>());
                let Some(lens) = r else { ctx.fail("returns normally", d, None); continue };
                if !crate::props_a::is_partition(&lens, n) {
                    ctx.fail("ordered partition", d, None);
                } else if let Err(e) = crate::props_a::greedy_ok(&frs, &lw, &lens) {
                    ctx.fail("greedy-maximal", format!("{}: {}", d, e), None);
                } else {
                    ctx.oracle_ok();
                }
            }
            "C10" => {
                let a = "é\x1b[31mＨ\x1b[0m".repeat(n);
                let b = long_para(ctx, n);
                if dw(&a) != 3 * n || dw(&format!("{}{}", b, b)) != 2 * dw(&b) || dw(&b) > b.len() {
                    ctx.fail("sum of char widths outside sequences", format!("display_width of {} repetitions of a coloured pair / of a paragraph of {}", n, desc_n), None);
                } else {
                    ctx.oracle_ok();
                }
            }
            "C11" => {
                let line = long_para(ctx, n);
                for sep in ['a', 'u'] {
                    if sep == 'u' && !cfg!(feature = "full") { continue; }
                    let d = format!("find_words[{}](line of {})", sep, desc_n);
                    let Some(ws) = real_words(sep, &line) else { ctx.fail("returns normally", d, None); continue };
                    let cat: String = ws.iter().map(|w| format!("{}{}", w.word, w.whitespace)).collect();
                    let starts_ok = sep != 'a' || ws.len() == n;
                    if cat != line || !starts_ok || ws.iter().any(|w| w.width != dw(w.word)) {
                        ctx.fail("lossless", d, None);
                    } else {
                        ctx.oracle_ok();
                    }
                }
            }
            "C12" => {
                let word: String = (0..n).map(|i| if i % 7 == 3 { '-' } else if i % 11 == 0 { 'Ｈ' } else { 'a' }).collect();
                let limit = 1 + ctx.rng.below(20);
                let d = format!("break_apart / split_words(word of {} chars, limit {})", n, limit);
                let wd = textwrap::core::Word::from(word.as_str());
                let pieces: Option<Vec<String>> = quiet(|| wd.break_apart(limit).map(|p| p.word.to_string()).collect());
                let sp: Option<Vec<(String, String)>> = quiet(|| textwrap::word_splitters::split_words(vec![textwrap::core::Word::from(word.as_str())], &textwrap::WordSplitter::HyphenSplitter).map(|p| (p.word.to_string(), p.penalty.to_string())).collect());
                let (Some(pieces), Some(sp)) = (pieces, sp) else { ctx.fail("returns normally", d, None); continue };
                let nhy = word.char_indices().filter(|(i, c)| *c == '-' && *i > 0 && word[..*i].chars().next_back().map_or(false, |p| p.is_alphanumeric()) && word[*i + 1..].chars().next().map_or(false, |q| q.is_alphanumeric())).count();
                if pieces.concat() != word || pieces.iter().any(|p| dw(p) > limit.max(2)) || sp.iter().map(|p| p.0.as_str()).collect::<String>() != word || sp.len() != nhy + 1 {
                    ctx.fail("pieces concatenate to the word", d, None);
                } else {
                    ctx.oracle_ok();
                }
            }
            "C13" => {
                let t = long_text(ctx, n);
                let col: String = t.split(' ').map(|w| if w.len() % 3 == 0 { format!("\x1b[1m{}\x1b[0m", w) } else { w.to_string() }).collect::<Vec<_>>().join(" ");
                // sequences directly around '\n' would not be attached to a word: keep them inside
                let col = col.replace("\x1b[1m\n", "\n").replace("\n\x1b[0m", "\n");
                let mut o = opts(ctx, w);
                o.splitter = "n";
                let d = format!("wrap(coloured text of {}, {})", desc_n, o.show());
                let vis = crate::oracle::visible_text(&col);
                let (lc, _) = real_wrap(&col, &o);
                let (lv, _) = real_wrap(&vis, &o);
                match (lc, lv) {
                    (Some(lc), Some(lv)) => {
                        let a: Vec<String> = lc.iter().map(|l| crate::oracle::visible_text(&l.s)).collect();
                        let b: Vec<String> = lv.iter().map(|l| l.s.clone()).collect();
                        if a != b { ctx.fail("stripping the sequences from wrap's lines = wrap of the stripped text", d, None); } else { ctx.oracle_ok(); }
                    }
                    _ => ctx.fail("returns normally", d, None),
                }
            }
            "C14" => {
                let t = long_text(ctx, n);
                let mut o = opts(ctx, w);
                o.alg = 'f';
                o.sep = 'a';
                let d = format!("fill(fill(text of {}), {})", desc_n, o.show());
                let f1 = quiet(|| textwrap::fill(&t, o.to_options()));
                let f2 = f1.as_ref().and_then(|f| quiet(|| textwrap::fill(f, o.to_options())));
                if f1.is_none() || f1 != f2 { ctx.fail("fill(fill(t)) = fill(t)", d, None); } else { ctx.oracle_ok(); }
            }
            "C15" | "C16" => {
                let p: String = (0..n).map(|_| *ctx.rng.pick(&["foo", "bar", "a", "é", "quux", "w0rd"])).collect::<Vec<_>>().join(" ");
                let mut o1 = Opt::new(8 + ctx.rng.below(30));
                o1.bw = false;
                o1.ii = "> ".into();
                o1.si = "  * ".into();
                o1.alg = if cfg!(feature = "full") && ctx.rng.chance(1, 2) { 'o' } else { 'f' };
                let d = format!("unfill / refill of fill(paragraph of {}, {})", desc_n, o1.show());
                ctx.risky(&d);
                let f1 = quiet(|| textwrap::fill(&p, o1.to_options()));
                ctx.risky_done();
                let Some(f1) = f1 else { ctx.fail("returns normally", d, None); continue };
                let u = quiet(|| { let (t, o) = textwrap::unfill(&f1); (t, o.initial_indent.to_string(), o.subsequent_indent.to_string(), o.width) });
                let wmax = f1.split('\n').map(dw).max().unwrap_or(0);
                match u {
                    Some((t, ii, si, uw)) if t == p && ii == o1.ii && si == o1.si && uw == wmax => ctx.oracle_ok(),
                    _ => { ctx.fail("unfill returns the original paragraph", d.clone(), None); }
                }
                let mut o2 = o1.clone();
                o2.width = 5 + ctx.rng.below(40);
                let mut o2p = o2.clone();
                o2p.ii = "@@".into();
                o2p.si = "%%".into();
                let r = quiet(|| textwrap::refill(&f1, o2p.to_options()));
                let e = quiet(|| textwrap::fill(&p, o2.to_options()));
                if r.is_none() || r != e { ctx.fail("refill(fill(t,o1),o2) = fill(t, o2 with o1's indents)", d, None); } else { ctx.oracle_ok(); }
            }
            "C17" => {
                let t = long_text(ctx, n);
                let d = format!("fill_inplace(text of {}, {})", desc_n, w);
                let mut s = t.clone();
                let ok = quiet(|| textwrap::fill_inplace(&mut s, w)).is_some();
                let o = { let mut o = Opt::new(w); o.bw = false; o };
                let (lw, _) = real_wrap(&t, &o);
                let same_len = s.len() == t.len() && s.chars().zip(t.chars()).all(|(a, b)| a == b || (a == '\n' && b == ' '));
                let agree = lw.map(|lw| s.split('\n').map(|l| l.trim_end_matches(' ').to_string()).collect::<Vec<_>>() == lw.iter().map(|l| l.s.clone()).collect::<Vec<_>>()).unwrap_or(false);
                if !ok || !same_len || !agree { ctx.fail("split at newlines and trimmed = wrap(original) with the documented options", d, None); } else { ctx.oracle_ok(); }
            }
            "C18" | "C19" => {
                let mut t = String::new();
                for i in 0..n {
                    t.push_str(match i % 5 { 0 => "    ", 1 => "      ", 2 => "    \t", 3 => "", _ => "     " });
                    if i % 5 != 3 { t.push_str(pick_word(ctx)); }
                    t.push('\n');
                }
                let d = format!("dedent / indent(text of {} lines)", n);
                let de = quiet(|| textwrap::dedent(&t));
                let ind = quiet(|| textwrap::indent(&t, "> "));
                let (Some(de), Some(ind)) = (de, ind) else { ctx.fail("returns normally", d, None); continue };
                let ok18 = de == crate::props_a::c18_expected(&t) && quiet(|| textwrap::dedent(&de)).as_deref() == Some(&de[..]);
                let ok19 = ind.lines().count() == n && ind.lines().zip(t.lines()).all(|(a, b)| if b.trim().is_empty() { a == format!(">{}", b) } else { a == format!("> {}", b) }) && quiet(|| textwrap::indent(&t, "")).as_deref() == Some(&t[..]);
                if prop == "C18" && !ok18 { ctx.fail("margin / line structure", d, None); }
                else if prop == "C19" && !ok19 { ctx.fail("indent spec", d, None); }
                else { ctx.oracle_ok(); }
            }
            "C20" => {
                let t = long_text(ctx, n.min(20_000));
                let o = opts(ctx, 60);
                let d = format!("wrap_columns(text of {}, 3, {})", n.min(20_000), o.show());
                let rows = quiet(|| textwrap::wrap_columns(&t, 3, o.to_options(), "| ", " | ", " |"));
                let Some(rows) = rows else { ctx.fail("never fails for columns >= 1", d, None); continue };
                let mut oc = o.clone();
                oc.width = (60 - 2 - 2 - 6) / 3;
                let (wl, _) = real_wrap(&t, &oc);
                let nl = wl.map(|w| w.len()).unwrap_or(0);
                if rows.len() != (nl + 2) / 3 || rows.iter().any(|r| dw(r) != 60) { ctx.fail("all rows have the same display width when every line fits", d, None); } else { ctx.oracle_ok(); }
            }
            _ => {}
        }
    }
}

//! Generators. Every choice comes from the one `Rng`.
use crate::opt::{Opt, DEFAULT_PEN};
use crate::rng::Rng;

pub const PLAIN: &[&str] = &["a", "b", "c", "ab", "abc", "abcd", " ", " ", "  ", "-", "x-y", "--", "a-b-c", "1", "."];
pub const WIDE: &[&str] = &["é", "Ｈ", "😂", "\u{301}", "\u{200b}", "\u{a0}", "\u{2060}", "\u{ad}", "\u{17d8}", "\t", "字", "a\u{301}", " ", "b", ")", "("];
/// characters whose UTF-8 bytes or truncated code points collide with the ASCII / Latin-1
/// characters the crate looks for ('-' 0x2D, SHY 0xAD, NBSP 0xA0, ' ' 0x20, LF, CR, ESC, '[', BEL):
/// they separate code that inspects chars from code that inspects bytes
pub const ALIAS: &[&str] = &["中", "キ", "😭", "Ġ", "ě", "Ċ", "č", "ś", "à", "丠", "ć", "中-", "-中", "中 "];
/// sequences of code points that form ONE grapheme cluster / ligature (emoji + skin tone, ZWJ
/// sequences, variation selectors, flags, Hangul jamo, lam-alef, conjuncts, keycaps, stacked
/// marks): a width taken from a string-level routine differs from the sum of the characters'
/// widths exactly on these
pub const CLUSTERS: &[&str] = &["👍🏽", "👨\u{200d}🦰", "👩\u{200d}👩\u{200d}👧", "❤\u{fe0f}", "☺\u{fe0e}", "🇩🇪", "🇩🇪🇫", "ᄀ\u{1161}\u{11a8}", "لا", "ﻻ", "क्ष", "1\u{fe0f}\u{20e3}", "e\u{301}\u{302}", "א\u{200d}ל", "ꓡꓹ"];
pub const LINES: &[&str] = &["\n", "\r", "\r\n", "\n\n", " \n", "\n "];
pub const ANSI_OK: &[&str] = &["\x1b[0m", "\x1b[31m", "\x1b[1;32m", "\x1b]8;;http://x\x1b\\", "\x1b]8;;\x1b\\", "\x1b]0;t\x07", "\x1b[m", "\x1b]8;;file:///é/字\x1b\\"];
pub const ANSI_BAD: &[&str] = &["\x1b", "\x1b[", "\x1b]", "\\", "\x07", "m", "@", "~", "0", ";", "[", "]", "\x1b ", "\x1b[1 q", "\x1b]0; \x07", "\x1b]8;;http://a-b\x1b\\", "\x1b\x1b"];
pub const PREFIX: &[&str] = &[" ", "-", "+", "*", ">", "#", "/", "  ", "> ", "- "];
pub const WS: &[&str] = &[" ", "\t", "\u{a0}", "\u{2003}", "  ", "\u{c}", "\r",
    // the rest of `char::is_whitespace` (VT is whitespace for `char` but not for `u8::is_ascii_whitespace`)
    "\u{b}", "\u{85}", "\u{1680}", "\u{2000}", "\u{2002}", "\u{2005}", "\u{200a}", "\u{2028}", "\u{2029}", "\u{202f}", "\u{205f}", "\u{3000}",
    // look-alikes that are NOT whitespace
    "\u{1c}", "\u{1f}", "\u{200b}", "\u{180e}", "\u{feff}", "\u{2800}"];
/// ASCII characters at the boundaries of the byte-class predicates a fast path is likely to be
/// keyed on (`is_ascii`, `is_ascii_graphic`, `is_ascii_control`, `is_ascii_whitespace`,
/// `is_ascii_alphanumeric`, `b >= b' '`, `b < 0x7f`): C0 controls, DEL, the first and last
/// printable characters, the neighbours of the digit and letter ranges, and the first
/// non-ASCII code points
pub const ASCII_EDGE: &[&str] = &["\u{0}", "\u{1}", "\u{7}", "\u{8}", "\u{b}", "\u{c}", "\u{e}", "\u{1a}", "\u{1c}", "\u{1f}", "\u{7f}", "\u{7f}", "~", "!", "/", ":", "@", "[", "`", "{", "0", "9", "A", "Z", "z", "\u{80}", "\u{9c}", "\u{9f}"];

/// **Dictionary from the code under test.** Every run reads the crate's current sources
/// (`VERIF_REPO_SRC`, default `/repo/src`) and collects (a) every non-ASCII character, every
/// `\u{…}` / `\x..` escape, every ASCII char literal and every hexadecimal literal that is a
/// scalar value above U+007F — characters the code treats specially enter the alphabets without
/// anyone having to guess them — and (b) every decimal or hexadecimal number between 10 and
/// 1 000 000: limits, block sizes and fall-back thresholds become input sizes and widths (±1).
/// A change that adds a special case brings its own trigger into the dictionary.
pub struct Dict {
    pub chars: Vec<char>,
    pub numbers: Vec<usize>,
}

pub fn dict() -> &'static Dict {
    static D: std::sync::OnceLock<Dict> = std::sync::OnceLock::new();
    D.get_or_init(|| {
        let dir = std::env::var("VERIF_REPO_SRC").unwrap_or_else(|_| "/repo/src".to_string());
        let mut files = Vec::new();
        let mut stack = vec![std::path::PathBuf::from(dir)];
        while let Some(d) = stack.pop() {
            if let Ok(rd) = std::fs::read_dir(&d) {
                for e in rd.flatten() {
                    let p = e.path();
                    if p.is_dir() {
                        stack.push(p);
                    } else if p.extension().map(|x| x == "rs").unwrap_or(false) {
                        files.push(p);
                    }
                }
            }
        }
        files.sort();
        let mut chars: Vec<char> = Vec::new();
        let mut numbers: Vec<usize> = Vec::new();
        let mut add_c = |c: char, v: &mut Vec<char>| {
            if !v.contains(&c) {
                v.push(c);
            }
        };
        for f in files {
            // verification hooks are ours, not the crate's
            if f.file_name().map(|n| n == "verif_hooks.rs").unwrap_or(false) {
                continue;
            }
            let Ok(text) = std::fs::read_to_string(&f) else { continue };
            // limits spelled as constants of the narrow integer types
            for (name, v) in [("u8::MAX", 255usize), ("i8::MAX", 127), ("u16::MAX", 65_535), ("i16::MAX", 32_767), ("u8::BITS", 8), ("u32::BITS", 32), ("usize::BITS", 64), ("u64::BITS", 64)] {
                if text.contains(name) && !numbers.contains(&v) {
                    numbers.push(v);
                }
            }
            let b: Vec<char> = text.chars().collect();
            let mut i = 0;
            while i < b.len() {
                let c = b[i];
                if !c.is_ascii() {
                    add_c(c, &mut chars);
                    i += 1;
                } else if c == '\\' && i + 2 < b.len() && b[i + 1] == 'u' && b[i + 2] == '{' {
                    let mut j = i + 3;
                    let mut h = String::new();
                    while j < b.len() && b[j] != '}' && h.len() < 8 {
                        h.push(b[j]);
                        j += 1;
                    }
                    if let Some(ch) = u32::from_str_radix(&h, 16).ok().and_then(char::from_u32) {
                        add_c(ch, &mut chars);
                    }
                    i = j;
                } else if c == '\\' && i + 3 < b.len() && b[i + 1] == 'x' {
                    let h: String = b[i + 2..i + 4].iter().collect();
                    if let Some(ch) = u32::from_str_radix(&h, 16).ok().and_then(char::from_u32) {
                        add_c(ch, &mut chars);
                    }
                    i += 4;
                } else if c == '\'' && i + 2 < b.len() && b[i + 2] == '\'' && b[i + 1] != '\\' {
                    add_c(b[i + 1], &mut chars);
                    i += 3;
                } else if c.is_ascii_digit() && (i == 0 || !(b[i - 1].is_ascii_alphanumeric() || b[i - 1] == '_' || b[i - 1] == '.')) {
                    let mut j = i;
                    let mut lit = String::new();
                    while j < b.len() && (b[j].is_ascii_alphanumeric() || b[j] == '_') {
                        if b[j] != '_' {
                            lit.push(b[j]);
                        }
                        j += 1;
                    }
                    let lit = lit.trim_end_matches("usize").trim_end_matches("u32").trim_end_matches("u64").trim_end_matches("u16").trim_end_matches("u8").to_string();
                    let n = if let Some(h) = lit.strip_prefix("0x") { u64::from_str_radix(h, 16).ok() } else { lit.parse::<u64>().ok() };
                    if let Some(n) = n {
                        if lit.starts_with("0x") && n > 0x7f {
                            if let Some(ch) = u32::try_from(n).ok().and_then(char::from_u32) {
                                add_c(ch, &mut chars);
                            }
                        }
                        // `1 << 20`, `1usize << 12`: the value of the shift is the limit
                        let mut k = j;
                        while k < b.len() && b[k] == ' ' {
                            k += 1;
                        }
                        let mut val = n;
                        if k + 1 < b.len() && b[k] == '<' && b[k + 1] == '<' {
                            let mut m = k + 2;
                            while m < b.len() && b[m] == ' ' {
                                m += 1;
                            }
                            let mut sh = String::new();
                            while m < b.len() && b[m].is_ascii_digit() {
                                sh.push(b[m]);
                                m += 1;
                            }
                            if let Ok(shn) = sh.parse::<u32>() {
                                if shn < 40 {
                                    val = n << shn;
                                }
                            }
                        }
                        for v in [n, val] {
                            if (10..=5_000_000).contains(&v) && !numbers.contains(&(v as usize)) {
                                numbers.push(v as usize);
                            }
                        }
                    }
                    i = j.max(i + 1);
                } else {
                    i += 1;
                }
            }
        }
        numbers.sort();
        Dict { chars, numbers }
    })
}

/// a character from the dictionary that may stand inside a paragraph of flavour `fl`
fn dict_char(rng: &mut Rng, fl: Flavor) -> Option<char> {
    let d = dict();
    if d.chars.is_empty() {
        return None;
    }
    let c = *rng.pick(&d.chars);
    let ok = match c {
        '\n' | '\r' => fl == Flavor::Mixed,
        '\x1b' => matches!(fl, Flavor::AnsiBad | Flavor::Mixed),
        _ => true,
    };
    if ok { Some(c) } else { None }
}

/// a size taken from the numbers in the code (±1)
pub fn dict_number(rng: &mut Rng, max: usize) -> Option<usize> {
    let v: Vec<usize> = dict().numbers.iter().copied().filter(|n| *n <= max).collect();
    if v.is_empty() {
        return None;
    }
    let n = *rng.pick(&v);
    Some(match rng.below(3) { 0 => n - 1, 1 => n, _ => n + 1 })
}

#[derive(Clone, Copy, Debug, PartialEq, Eq, Hash)]
pub enum Flavor {
    Plain,
    Wide,
    AnsiOk,
    AnsiBad,
    Mixed,
}

pub const FLAVORS: &[Flavor] = &[Flavor::Plain, Flavor::Wide, Flavor::AnsiOk, Flavor::AnsiBad, Flavor::Mixed];

/// long escape sequences: CSI with 60..3000 parameter characters, OSC payloads of 2000..5000
/// characters (length limits inside the escape skipper show only here). Leaked on purpose: the
/// token interface hands out `&'static str`.
fn long_sequence(rng: &mut Rng) -> &'static str {
    let n = [60usize, 63, 64, 65, 66, 127, 128, 129, 255, 256, 257, 1000, 3000][rng.below(13)];
    let s = if rng.chance(1, 2) {
        format!("\x1b[{}m", "1;".repeat(n / 2))
    } else {
        let m = [100usize, 2000, 2080, 2083, 2084, 2090, 4096, 5000][rng.below(8)];
        format!("\x1b]8;;http://example.com/{}\x1b\\", "a".repeat(m))
    };
    Box::leak(s.into_boxed_str())
}

/// a character whose code point has the low byte `b` (what `ch as u8` truncates it to), from one
/// of several planes
pub fn alias_char(rng: &mut Rng, b: u8) -> char {
    for _ in 0..8 {
        let base = [0x100u32, 0x200, 0x400, 0x1e00, 0x2100, 0x3000, 0xff00, 0x1f600, 0x1d400][rng.below(9)];
        if let Some(c) = char::from_u32(base + b as u32) {
            if !c.is_control() {
                return c;
            }
        }
    }
    '\u{11b}'
}

/// one of the byte sequences the crate looks for (`ESC \`, `ESC [`, `ESC ]`, BEL, a CSI, CR LF,
/// space, hyphen, SHY), with each character independently replaced — one time in two — by a
/// character that only shares its low byte: code that compares truncated code points, or keeps a
/// window of "the last two bytes", takes the impostors for the real thing
pub fn alias_seq(rng: &mut Rng) -> String {
    let pat: &[u8] = *rng.pick(&[&b"\x1b\\"[..], b"\x1b[", b"\x1b]", b"\x07", b"\x1b[0m", b"\r\n", b" ", b"-", b"\xad", b"\x1b\\ab", b"m", b"@~"]);
    let mut s = String::new();
    let mut any = false;
    for &b in pat {
        if rng.chance(1, 2) {
            s.push(alias_char(rng, b));
            any = true;
        } else if b < 0x80 && b != 0x1b && b != 0x07 && b != b'\r' && b != b'\n' {
            s.push(b as char);
        } else {
            s.push(alias_char(rng, b));
            any = true;
        }
    }
    if !any {
        s.push(alias_char(rng, 0x1b));
    }
    s
}

/// a well-formed OSC / CSI whose payload holds such impostors followed by visible payload
fn sequence_with_aliases(rng: &mut Rng) -> &'static str {
    let a = alias_seq(rng);
    let b = alias_seq(rng);
    let s = match rng.below(4) {
        0 => format!("\x1b]0;{}xy{}z\x07", a, b),
        1 => format!("\x1b]8;;http://{}/{}\x1b\\", a, b),
        2 => format!("\x1b]{}{}\x07", a, b),
        _ => format!("\x1b[{}", "1;31m"),
    };
    Box::leak(s.into_boxed_str())
}

/// escape sequences as real terminals define them — palette, clipboard, hyperlink with id, shell
/// integration, true-colour and private-mode CSIs — each, one time in two, with further payload
/// before the terminator: a special case for one command family ("`ESC ] P nrrggbb` has no
/// terminator") is wrong exactly when the command is followed by more payload
pub fn real_sequence(rng: &mut Rng) -> &'static str {
    const OSC: &[&str] = &["P1c2d3e4", "Pf0a1b2c", "R", "4;1;rgb:ff/00/00", "52;c;aGVsbG8=", "8;id=a1;http://x.y", "0;title", "2;t", "10;?", "104", "1337;File=name=YQ==:", "777;notify;a;b", "133;A", "9;4;1;50", "7;file://h/p", "1;icon", "112", "L label"];
    const CSI: &[&str] = &["?25h", "?1049l", "38;2;1;2;3m", "38:5:1m", "2J", "1;1H", ">0c", "!p", "?2004h", "6n", "1;2;3;4;5;6;7;8m", "=1c", "0K"];
    let s = if rng.chance(2, 3) {
        let head = *rng.pick(OSC);
        let more = if rng.chance(1, 2) { *rng.pick(&[";some more payload", "zz", "0123456789abcdef", " x", "字"]) } else { "" };
        let more = more.replace(' ', "_"); // no space inside a sequence (that is the KF-1a class)
        let head = head.replace(' ', "_");
        format!("\x1b]{}{}{}", head, more, if rng.chance(1, 2) { "\x07" } else { "\x1b\\" })
    } else {
        format!("\x1b[{}", *rng.pick(CSI))
    };
    Box::leak(s.into_boxed_str())
}

/// a run of one repeated blank, as long as or longer than a machine word / SIMD lane (8, 16, 32,
/// 64 bytes ± 1): word-at-a-time fast paths (`chunks_exact`, SWAR) go wrong in the tail after
/// whole blocks, which a run of one to three blanks never reaches
pub fn blank_run(rng: &mut Rng) -> String {
    let k = [7usize, 8, 9, 10, 12, 15, 16, 17, 23, 24, 25, 31, 32, 33, 63, 64, 65][rng.below(17)];
    let c = *rng.pick(&[" ", " ", " ", "\t", "\u{a0}"]);
    c.repeat(k)
}

/// a block of comment- or quote-shaped lines: optional spaces, a marker, a blank (ASCII or
/// multi-byte), then content that one time in three starts with an arbitrary ASCII punctuation
/// character; some lines are the bare marker followed by a blank only. What `unfill`/`refill`
/// read as indentation is decided on exactly such lines.
pub fn comment_block(rng: &mut Rng) -> String {
    let marker = *rng.pick(&[">", "//", "#", "*", "-", "///", "--", "+", ">>", "/*", "", ""]);
    let lead = *rng.pick(&["", "", " ", "  ", "    "]);
    let n = 2 + rng.below(5);
    let e = if rng.chance(1, 4) { "\r\n" } else { "\n" };
    let mut t = String::new();
    for i in 0..n {
        t.push_str(lead);
        // now and then a line with another marker or none
        t.push_str(if rng.chance(1, 8) { *rng.pick(&["", ">", "/", "-", "#"]) } else { marker });
        let blank = *rng.pick(&[" ", " ", " ", "", "\u{a0}", "\u{3000}", "\t", "  ", "\u{2003}"]);
        t.push_str(blank);
        if !rng.chance(1, 5) {
            for k in 0..1 + rng.below(3) {
                if k > 0 {
                    t.push(' ');
                }
                if rng.chance(1, 3) {
                    t.push((0x21u8 + rng.below(15) as u8) as char); // ! " # $ % & ' ( ) * + , - . /
                }
                t.push_str(*rng.pick(&["a", "word", "é", "x-y", "b,", "w0rd", "字"]));
            }
        }
        if i + 1 < n || rng.chance(1, 2) {
            t.push_str(e);
        }
    }
    t
}

fn token(rng: &mut Rng, fl: Flavor) -> &'static str {
    if matches!(fl, Flavor::AnsiOk | Flavor::Mixed) && rng.chance(1, 15) {
        return real_sequence(rng);
    }
    if rng.chance(1, 60) {
        return Box::leak(blank_run(rng).into_boxed_str());
    }
    if matches!(fl, Flavor::AnsiOk | Flavor::Mixed) && rng.chance(1, 120) {
        return long_sequence(rng);
    }
    if matches!(fl, Flavor::AnsiOk | Flavor::AnsiBad | Flavor::Mixed) && rng.chance(1, 20) {
        return sequence_with_aliases(rng);
    }
    if matches!(fl, Flavor::Wide | Flavor::Mixed) && rng.chance(1, 30) {
        return Box::leak(alias_seq(rng).into_boxed_str());
    }
    match fl {
        Flavor::Plain => *rng.pick(PLAIN),
        Flavor::Wide => if rng.chance(1, 5) { *rng.pick(ALIAS) } else if rng.chance(1, 8) { *rng.pick(CLUSTERS) } else if rng.chance(1, 2) { *rng.pick(WIDE) } else { *rng.pick(PLAIN) },
        Flavor::AnsiOk => if rng.chance(1, 3) { *rng.pick(ANSI_OK) } else if rng.chance(1, 4) { *rng.pick(WIDE) } else { *rng.pick(PLAIN) },
        Flavor::AnsiBad => if rng.chance(1, 2) { *rng.pick(ANSI_BAD) } else if rng.chance(1, 3) { *rng.pick(ANSI_OK) } else { *rng.pick(PLAIN) },
        Flavor::Mixed => match rng.below(6) {
            0 => if rng.chance(1, 4) { *rng.pick(ALIAS) } else if rng.chance(1, 5) { *rng.pick(CLUSTERS) } else { *rng.pick(WIDE) },
            1 => *rng.pick(ANSI_OK),
            2 => *rng.pick(ANSI_BAD),
            3 => *rng.pick(LINES),
            _ => *rng.pick(PLAIN),
        },
    }
}

/// a character from outside the fixed alphabets: punctuation and dash blocks (look-alikes of the
/// ASCII characters the crate searches for: U+2010 HYPHEN, U+2011, U+2212, U+FF0D, U+2028, NEL, …),
/// Latin-1, CJK punctuation, full-width forms, and uniformly random scalar values
pub fn exotic(rng: &mut Rng) -> char {
    if rng.chance(1, 5) && !dict().chars.is_empty() {
        let c = *rng.pick(&dict().chars);
        if c != '\n' && c != '\r' && c != '\x1b' {
            return c;
        }
    }
    let cp = match rng.below(8) {
        0 | 1 => 0x2000 + rng.below(0x70) as u32,          // General Punctuation
        2 => 0x80 + rng.below(0x80) as u32,                // Latin-1 supplement (NEL, NBSP, SHY, …)
        3 => [0x2010, 0x2011, 0x2012, 0x2013, 0x2014, 0x2015, 0x2212, 0xfe58, 0xfe63, 0xff0d, 0x058a, 0x1806][rng.below(12)],
        4 => 0x3000 + rng.below(0x40) as u32,              // CJK symbols and punctuation
        5 => 0xff00 + rng.below(0xf0) as u32,              // half-/full-width forms
        6 => rng.below(0x10000) as u32,                    // BMP
        _ => 0x10000 + rng.below(0x100000) as u32,         // astral
    };
    char::from_u32(cp).unwrap_or('\u{2010}')
}

/// one paragraph (no line breaks unless the flavour is Mixed)
pub fn para(rng: &mut Rng, fl: Flavor, max_tokens: usize) -> String {
    let n = rng.below(max_tokens + 1);
    let mut s = String::new();
    for _ in 0..n {
        // every flavour, the plain one included: an ASCII character from the edge of a byte class,
        // alone or inside an otherwise plain word (the word stays all-ASCII)
        if rng.chance(1, 16) {
            if rng.chance(1, 2) {
                s.push_str(*rng.pick(PLAIN));
            }
            s.push_str(*rng.pick(ASCII_EDGE));
            if rng.chance(1, 2) {
                s.push_str(*rng.pick(PLAIN));
            }
            continue;
        }
        // a character the code under test mentions (see `dict`)
        if rng.chance(1, 14) {
            if let Some(c) = dict_char(rng, fl) {
                if rng.chance(1, 2) {
                    s.push_str(*rng.pick(PLAIN));
                }
                s.push(c);
                continue;
            }
        }
        if fl != Flavor::Plain && rng.chance(1, 12) {
            let c = exotic(rng);
            if c != '\n' {
                s.push(c);
                continue;
            }
        }
        s.push_str(token(rng, fl));
    }
    s
}

/// a text of 1..=max_paras paragraphs joined by LF / CRLF / stray CR mixtures
pub fn text(rng: &mut Rng, fl: Flavor, max_paras: usize, max_tokens: usize) -> String {
    // now and then many short paragraphs: state carried from paragraph to paragraph (line
    // counts, offsets) only shows after a number of them
    let many = max_paras >= 2 && rng.chance(1, 40);
    let (max_paras, max_tokens) = if many { (10 + rng.below(30), 3) } else { (max_paras, max_tokens) };
    let n = if many { max_paras } else { 1 + rng.below(max_paras) };
    let mut s = String::new();
    for i in 0..n {
        if i > 0 {
            s.push_str(match rng.below(8) { 0 => "\r\n", 1 => "\r", 2 => "\n\r", _ => "\n" });
        }
        if !rng.chance(1, 6) {
            s.push_str(&para(rng, fl, max_tokens));
        }
    }
    s
}

pub fn flavor(rng: &mut Rng) -> Flavor {
    *rng.pick(FLAVORS)
}

pub fn any_text(rng: &mut Rng) -> String {
    let fl = flavor(rng);
    let paras = if rng.chance(1, 2) { 1 } else { 3 };
    text(rng, fl, paras, 8)
}

pub const INDENTS: &[&str] = &["", "", " ", "> ", "👉", "    ", "\x1b[1m>\x1b[0m", "-", "ＨＨ", "          ", "\x1b[34m", "\u{200b}", "\u{301}", "\t"];

pub fn indent(rng: &mut Rng) -> String {
    rng.pick(INDENTS).to_string()
}

/// widths biased to the interesting boundaries of `text`
pub fn width_for(rng: &mut Rng, text: &str) -> usize {
    let dw = textwrap::core::display_width(text);
    let bl = text.len();
    match rng.below(12) {
        0 => 0,
        1 => 1,
        2 => 2,
        3 => dw,
        4 => dw + 1,
        5 => dw.saturating_sub(1),
        6 => bl,
        7 => bl + 1,
        8 => bl.saturating_sub(1),
        9 => if rng.chance(1, 2) { usize::MAX } else { usize::MAX - 1 },
        10 => if rng.chance(1, 4) { machine_boundary(rng) } else if rng.chance(1, 3) { dict_number(rng, 1_000_000).unwrap_or(7) } else { rng.range(0, 12) },
        _ => rng.range(0, 12),
    }
}

/// widths around the limits of the narrower integer types (a width converted to u8/u16/u32/f32,
/// or handed to a formatter, changes behaviour here)
pub fn machine_boundary(rng: &mut Rng) -> usize {
    let b: usize = [1usize << 8, 1 << 16, 1 << 24, 1 << 31, 1 << 32, 1 << 53][rng.below(6)];
    match rng.below(3) {
        0 => b - 1,
        1 => b,
        _ => b + 1,
    }
}

pub fn small_width(rng: &mut Rng) -> usize {
    rng.range(0, 11)
}

/// a penalty around the limits of the narrower integer types (kept below 2^35 so that costs of
/// short paragraphs stay exactly representable)
#[cfg(target_pointer_width = "64")]
pub fn big_penalty(rng: &mut Rng) -> usize {
    [0usize, 1, 255, 256, 65535, 65536, (1 << 31) - 1, 1 << 31, (1 << 32) - 1, 1 << 32, (1 << 32) + 1, 5_000_000_000, 6_000_000_000, 1 << 33, 1 << 34][rng.below(15)]
}
#[cfg(not(target_pointer_width = "64"))]
pub fn big_penalty(rng: &mut Rng) -> usize {
    [0usize, 1, 255, 256, 65535, 65536][rng.below(6)]
}

pub fn penalties(rng: &mut Rng) -> [usize; 5] {
    match rng.below(6) {
        3 => [big_penalty(rng), big_penalty(rng), rng.below(8), big_penalty(rng), big_penalty(rng)],
        0 => [0, 0, 0, 0, 0],
        1 => [rng.below(5), rng.below(5), rng.below(5), rng.below(5), rng.below(5)],
        2 => [rng.below(2000), rng.below(5000), if rng.chance(1, 2) { rng.below(8) } else { rng.below(130) }, rng.below(50), rng.below(50)],
        _ => DEFAULT_PEN,
    }
}

/// built-in option combinations (no custom splitters)
pub fn options(rng: &mut Rng, width: usize) -> Opt {
    let full = cfg!(feature = "full");
    let mut o = Opt::new(width);
    o.bw = rng.chance(1, 2);
    o.sep = if full && rng.chance(1, 2) { 'u' } else { 'a' };
    o.splitter = if rng.chance(1, 2) { "h" } else { "n" };
    o.alg = if full && rng.chance(1, 2) { 'o' } else { 'f' };
    if o.alg == 'o' {
        o.pen = penalties(rng);
    }
    o.crlf = rng.chance(1, 4);
    if rng.chance(1, 2) {
        o.ii = indent(rng);
        o.si = indent(rng);
    }
    o
}

/// all strings over `alpha` of length `0..=max_len`, in order
pub fn enumerate_strings(alpha: &[&str], max_len: usize, mut f: impl FnMut(&str)) {
    let mut idx: Vec<usize> = Vec::new();
    loop {
        let s: String = idx.iter().map(|&i| alpha[i]).collect();
        f(&s);
        // next
        let mut k = idx.len();
        loop {
            if k == 0 {
                if idx.len() == max_len {
                    return;
                }
                idx = vec![0; idx.len() + 1];
                break;
            }
            k -= 1;
            if idx[k] + 1 < alpha.len() {
                idx[k] += 1;
                for j in k + 1..idx.len() {
                    idx[j] = 0;
                }
                break;
            }
        }
    }
}

//! Property streams, part B: text-level functions.
use crate::ctx::Ctx;
use crate::gen::{self, Flavor};
use crate::ops::*;
use crate::opt::{Opt, DEFAULT_PEN};
use crate::oracle::*;
use crate::proto::show;
use crate::rng::Rng;
use textwrap::core::display_width as dw;

fn call(name: &str, text: &str, o: &Opt) -> String {
    format!("{}({}, {})", name, show(text), o.show())
}

/// turn most line feeds into CRLF; a few stay bare — with the CRLF option a lone '\n' is ordinary
/// paragraph content (and a lone '\r' too), which a splitter keyed on '\n' alone gets wrong
fn crlf_mostly(rng: &mut Rng, t: &str) -> String {
    let mut out = String::new();
    for c in t.chars() {
        if c == '\n' && !rng.chance(1, 6) {
            out.push('\r');
        }
        out.push(c);
    }
    out
}

fn kf_class(text: &str, o: &Opt) -> Option<&'static str> {
    // a known-finding class can only explain a failure on a paragraph outside the hypothesis of
    // the Lean theorems `*_safe` (C02/C05): if every paragraph is `SeqSafe` for the configured
    // splitter the theorems say the property holds, and the failure is reported as a violation
    let hy = o.splitter == "h";
    if text.split(o.ending()).all(|p| seq_safe(hy, p)) {
        return None;
    }
    // the classes are properties of a paragraph (every paragraph is scanned from skipper state
    // `normal`), not of the whole text: a sequence left open by one paragraph does not continue
    // into the next
    let mut parts: Vec<&str> = text.split(o.ending()).collect();
    parts.push(&o.ii);
    parts.push(&o.si);
    if o.sep == 'a' && parts.iter().any(|p| kf1a(p)) {
        Some("KF-1a")
    } else if o.splitter == "h" && parts.iter().any(|p| kf1b(p)) {
        Some("KF-1b")
    } else if parts.iter().any(|p| kf2(p)) {
        Some("KF-2")
    } else {
        None
    }
}

/// texts for the wrap-level streams: (text, options)
fn wrap_input(rng: &mut Rng, allow_custom: bool) -> (String, Opt) {
    let fl = gen::flavor(rng);
    let paras = if rng.chance(2, 3) { 1 } else { 3 };
    let mut t = gen::text(rng, fl, paras, 7);
    let w = if rng.chance(1, 2) { gen::width_for(rng, &t) } else { gen::small_width(rng) };
    let mut o = gen::options(rng, w);
    if o.crlf {
        t = crlf_mostly(rng, &t);
    }
    if allow_custom && rng.chance(1, 6) {
        o.splitter = *rng.pick(&["c1", "c1", "c2", "c3", "c4", "c5"]);
    }
    (t, o)
}

fn wrap_nontrivial(ctx: &mut Ctx, t: &str, o: &Opt, lines: &Option<Vec<LineOut>>) {
    if let Some(ls) = lines {
        if ls.len() > t.split(o.ending()).count() {
            ctx.nontrivial(&(t.to_string(), o.enc(), o.ii.clone(), o.si.clone()));
        }
    }
}

// ---------------------------------------------------------------------------------------------
// C01
// ---------------------------------------------------------------------------------------------

fn gap_ok(gap: &str, ending: &str) -> bool {
    let mut g = gap;
    loop {
        if g.is_empty() {
            return true;
        }
        if let Some(r) = g.strip_prefix(' ') {
            g = r;
        } else if let Some(r) = g.strip_prefix(ending) {
            g = r;
        } else {
            return false;
        }
    }
}

/// search a decomposition of the lines into `indent ++ text[a..b] ++ pen` with ordered,
/// disjoint slices and gaps made of spaces / line endings; returns an error description
fn c01_match(text: &str, o: &Opt, lines: &[LineOut], check_trailing_space: bool) -> Result<(), String> {
    fn go(text: &str, o: &Opt, lines: &[LineOut], k: usize, pos: usize, cts: bool, depth: &mut usize) -> bool {
        *depth += 1;
        if *depth > 200_000 {
            return true; // give up (never observed); do not raise a false alarm
        }
        if k == lines.len() {
            return gap_ok(&text[pos..], o.ending());
        }
        let l = &lines[k];
        let indent: &str = if k == 0 { &o.ii } else { &o.si };
        let Some(content) = l.s.strip_prefix(indent) else { return false };
        let mut pens: Vec<&str> = vec![""];
        if content.ends_with('-') {
            pens.push("-");
        }
        for pen in pens {
            let slice = &content[..content.len() - pen.len()];
            if cts && slice.ends_with(' ') {
                continue;
            }
            let want_borrowed = indent.is_empty() && pen.is_empty();
            if l.borrowed != want_borrowed {
                continue;
            }
            let mut start = pos;
            loop {
                if gap_ok(&text[pos..start], o.ending()) && text[start..].starts_with(slice) && (l.start.is_none() || l.start == Some(start) || slice.is_empty()) {
                    if go(text, o, lines, k + 1, start + slice.len(), cts, depth) {
                        return true;
                    }
                }
                // advance to the next char boundary
                match text[start..].chars().next() {
                    Some(c) => start += c.len_utf8(),
                    None => break,
                }
            }
        }
        false
    }
    let mut depth = 0;
    if go(text, o, lines, 0, 0, check_trailing_space, &mut depth) {
        Ok(())
    } else {
        Err("no decomposition into indent + ordered disjoint input slices (+ hyphen) with space/line-ending gaps and matching Cow variants".into())
    }
}

pub fn c01_oracle(ctx: &mut Ctx, name: &str, t: &str, o: &Opt, lines: &Option<Vec<LineOut>>) {
    let valid_points = matches!(o.splitter, "n" | "h" | "c1");
    match lines {
        None => {
            if valid_points {
                ctx.fail("returns normally", format!("{} panicked", call(name, t, o)), None);
            }
        }
        Some(ls) => {
            if !valid_points {
                return;
            }
            // trailing-space clause: a custom splitter may itself cut right after a space inside a
            // Unicode-separator word (DESIGN §9(k)); that is the splitter's choice, not a loss
            let cts = o.sep == 'a' || (!o.bw && matches!(o.splitter, "n" | "h"));
            match c01_match(t, o, ls, cts) {
                Ok(()) => ctx.oracle_ok(),
                Err(e) => ctx.fail("lines are in-order slices of the input", format!("{} = {:?}: {}", call(name, t, o), ls.iter().map(|l| (&l.s, l.borrowed, l.start)).collect::<Vec<_>>(), e), None),
            }
        }
    }
}

pub fn c01(ctx: &mut Ctx) {
    // custom wrap algorithms / word separators: no model counterpart, the slice predicate decides
    for _ in 0..ctx.n(5000, 100_000) {
        let (t, o) = custom_alg_input(&mut ctx.rng);
        let (lines, _) = real_wrap(&t, &o);
        ctx.count("custom_algorithm_or_separator_cases");
        c01_oracle(ctx, "wrap", &t, &o, &lines);
    }
    small_scope_wrap(ctx, |ctx, t, o| {
        let (op, lines) = op_wrap(t, o);
        ctx.case(op, call("wrap", t, o));
        c01_oracle(ctx, "wrap", t, o, &lines);
        wrap_nontrivial(ctx, t, o, &lines);
    });
    for _ in 0..ctx.n(30000, 600_000) {
        let (t, o) = wrap_input(&mut ctx.rng, true);
        let (op, lines) = op_wrap(&t, &o);
        ctx.case(op, call("wrap", &t, &o));
        c01_oracle(ctx, "wrap", &t, &o, &lines);
        wrap_nontrivial(ctx, &t, &o, &lines);
        ctx.count(&format!("sep_{}_split_{}_alg_{}_bw_{}", o.sep, o.splitter, o.alg, o.bw as u8));
        if ctx.rng.chance(1, 4) {
            let (op, filled) = op_fill(&t, &o);
            ctx.case(op, call("fill", &t, &o));
            // every line of fill's result: same decomposition, via split on the ending
            if let (Some(f), Some(ls)) = (&filled, &lines) {
                let joined = ls.iter().map(|l| l.s.as_str()).collect::<Vec<_>>().join(o.ending());
                if &joined != f {
                    ctx.fail("fill = wrap joined by the line ending", format!("{} = {}", call("fill", &t, &o), show(f)), None);
                }
            }
        }
    }
}

/// bounded-exhaustive small scope shared by the wrap-level properties
pub fn small_scope_wrap(ctx: &mut Ctx, mut f: impl FnMut(&mut Ctx, &str, &Opt)) {
    let alphas: &[&[&str]] = &[&["a", " ", "-", "\n", "é", "bc"], &["a", " ", "\x1b[1m", "Ｈ", "\u{301}", "\n"]];
    let maxlen = if ctx.thorough { 5 } else { 4 };
    let full = cfg!(feature = "full");
    let mut n = 0u64;
    for alpha in alphas {
        let mut all: Vec<String> = Vec::new();
        gen::enumerate_strings(alpha, maxlen, |s| all.push(s.to_string()));
        for (i, s) in all.iter().enumerate() {
            // rotate through widths and the option cross product deterministically
            let seps: &[char] = if full { &['a', 'u'] } else { &['a'] };
            let algs: &[char] = if full { &['f', 'o'] } else { &['f'] };
            let combos = seps.len() * algs.len() * 2 * 2 * 3;
            let reps = if ctx.thorough { combos } else { 3 };
            for r in 0..reps {
                let c = (i * 7 + r * 11) % combos;
                let mut o = Opt::new((i + r) % 7);
                o.sep = seps[c % seps.len()];
                o.alg = algs[(c / seps.len()) % algs.len()];
                o.bw = (c / (seps.len() * algs.len())) % 2 == 0;
                o.splitter = if (c / (seps.len() * algs.len() * 2)) % 2 == 0 { "h" } else { "n" };
                match (c / (seps.len() * algs.len() * 4)) % 3 {
                    1 => { o.ii = "> ".into(); o.si = "  ".into(); }
                    2 => { o.si = "    ".into(); }
                    _ => {}
                }
                // every 5th case: a non-empty indent of display width 0 (escape-only / zero-width)
                if (i + r) % 5 == 0 {
                    o.ii = "\x1b[34m".into();
                    o.si = "\u{200b}".into();
                }
                f(ctx, s, &o);
                n += 1;
            }
        }
    }
    ctx.count_n("small_scope_cases", n);
}

// ---------------------------------------------------------------------------------------------
// C02
// ---------------------------------------------------------------------------------------------

/// fragments (`word ++ penalty`) of every paragraph, as the real pipeline produces them
fn real_fragments(t: &str, o: &Opt) -> Option<Vec<String>> {
    quiet(|| {
        let sp = crate::opt::splitter_of(o.splitter);
        let sub_w = o.width.saturating_sub(dw(&o.si));
        let mut out = Vec::new();
        for p in t.split(o.ending()) {
            let words: Vec<_> = crate::opt::sep_of(o.sep).find_words(p).collect();
            let split: Vec<_> = textwrap::word_splitters::split_words(words, &sp).collect();
            let frs = if o.bw { textwrap::core::break_words(split, sub_w) } else { split };
            for f in frs {
                out.push(format!("{}{}", f.word, f.penalty));
            }
        }
        out
    })
}

fn nonzero_visible(s: &str) -> usize {
    let sc = scan(s);
    s.chars().zip(sc.visible.iter()).filter(|(c, v)| **v && textwrap::verif_hooks::ch_width(*c) > 0).count()
}

pub fn c02_oracle(ctx: &mut Ctx, t: &str, o: &Opt, lines: &Option<Vec<LineOut>>) {
    if o.alg != 'f' || !wellformed(t) || !wellformed(&o.ii) || !wellformed(&o.si) {
        return;
    }
    let Some(ls) = lines else { return };
    let frags = real_fragments(t, o);
    for (k, l) in ls.iter().enumerate() {
        let indent: &str = if k == 0 { &o.ii } else { &o.si };
        let content = l.s.strip_prefix(indent).unwrap_or(&l.s);
        if dw(&l.s) <= o.width || dw(content) == 0 {
            continue;
        }
        let single = frags.as_ref().map(|f| f.iter().any(|x| x == content)).unwrap_or(false);
        if single && (!o.bw || nonzero_visible(content) <= 1) {
            // with break_words off the exception is stated about the text, not about what the
            // crate happened to produce: no break opportunity of the separator and no split
            // point of the splitter inside the overlong part (decided independently of the crate)
            if !o.bw && independently_breakable(content, o) {
                ctx.fail(
                    "line fits the width unless it is one unbreakable fragment",
                    format!("{}: line {} = {} has display width {} > {} although it contains a break opportunity or split point", call("wrap", t, o), k, show(&l.s), dw(&l.s), o.width),
                    kf_class(t, o),
                );
                return;
            }
            ctx.count("overflow_single_fragment");
            continue;
        }
        ctx.fail(
            "line fits the width unless it is one unbreakable fragment",
            format!("{}: line {} = {} has display width {} > {}", call("wrap", t, o), k, show(&l.s), dw(&l.s), o.width),
            kf_class(t, o),
        );
        return;
    }
    ctx.oracle_ok();
}

/// does `content` (a line without its indent) contain a break opportunity of the configured
/// separator or a split point of the configured built-in splitter? — computed from the property's
/// wording, without calling the crate's word finding / splitting
fn independently_breakable(content: &str, o: &Opt) -> bool {
    let cs: Vec<char> = content.chars().collect();
    let sep_break = match o.sep {
        'a' => cs.windows(2).any(|w| w[0] == ' ' && w[1] != ' '),
        _ => {
            #[cfg(feature = "full")]
            {
                let vis = visible_text(content);
                let r = unicode_linebreak::linebreaks(&vis).any(|(i, _)| i < vis.len() && !matches!(vis[..i].chars().next_back(), Some('-') | Some('\u{ad}')));
                r
            }
            #[cfg(not(feature = "full"))]
            {
                false
            }
        }
    };
    let split_point = o.splitter == "h" && (1..cs.len().saturating_sub(1)).any(|i| cs[i] == '-' && cs[i - 1].is_alphanumeric() && cs[i + 1].is_alphanumeric());
    sep_break || split_point
}

fn c02_input(rng: &mut Rng) -> (String, Opt) {
    let fl = *rng.pick(&[Flavor::Plain, Flavor::Wide, Flavor::AnsiOk, Flavor::AnsiOk]);
    let paras = if rng.chance(1, 2) { 1 } else { 3 };
    let mut t = gen::text(rng, fl, paras, 7);
    if rng.chance(1, 12) {
        // the known-finding classes, in their own stream
        t.push_str(*rng.pick(&["\x1b]0; \x1b[\x07äöüäöüX", " \x1b]8;;http://a-b\x1b\\link\x1b]8;;\x1b\\", "ab\x1b[1 qcd ef"]));
    }
    let w = gen::small_width(rng);
    let mut o = gen::options(rng, w);
    o.alg = 'f';
    if o.crlf {
        t = crlf_mostly(rng, &t);
    }
    (t, o)
}

pub fn c02(ctx: &mut Ctx) {
    small_scope_wrap(ctx, |ctx, t, o| {
        let mut o = o.clone();
        o.alg = 'f';
        let (op, lines) = op_wrap(t, &o);
        ctx.case(op, call("wrap", t, &o));
        c02_oracle(ctx, t, &o, &lines);
        wrap_nontrivial(ctx, t, &o, &lines);
    });
    for _ in 0..ctx.n(40000, 800_000) {
        let (t, o) = c02_input(&mut ctx.rng);
        let (op, lines) = op_wrap(&t, &o);
        ctx.case(op, call("wrap", &t, &o));
        c02_oracle(ctx, &t, &o, &lines);
        wrap_nontrivial(ctx, &t, &o, &lines);
        ctx.count(&format!("paras_{}", t.split(o.ending()).count().min(3)));
        ctx.count(&format!("indents_{}", (!o.ii.is_empty()) as u8 + 2 * (!o.si.is_empty()) as u8));
    }
}

// ---------------------------------------------------------------------------------------------
// C05
// ---------------------------------------------------------------------------------------------

fn c05_opts(rng: &mut Rng, width: usize) -> Opt {
    let mut o = gen::options(rng, width);
    o.pen = DEFAULT_PEN;
    o
}

pub fn c05(ctx: &mut Ctx) {
    for _ in 0..ctx.n(40000, 800_000) {
        let fl = gen::flavor(&mut ctx.rng);
        let line = gen::para(&mut ctx.rng, fl, 8).replace('\n', "").replace('\r', "");
        let d = dw(&line);
        let mut o = c05_opts(&mut ctx.rng, 0);
        let nprev = ctx.rng.below(2);
        let indent = if nprev == 0 { o.ii.clone() } else { o.si.clone() };
        // widths from the display width upward, around the byte length
        let base = d + dw(&indent);
        o.width = match ctx.rng.below(8) {
            0 => base,
            1 => base + 1,
            2 => line.len(),
            3 => line.len() + 1,
            4 => line.len().saturating_sub(1).max(base),
            5 => usize::MAX,
            _ => base + ctx.rng.below(6),
        };
        ctx.count(&format!("flavor_{:?}", fl));
        let (op_s, slow) = op_wrapline("slow", nprev, &line, &o);
        ctx.case(op_s, format!("wrap_single_line_slow_path[nprev={}]({}, {})", nprev, show(&line), o.show()));
        let (op_f, fast) = op_wrapline("fast", nprev, &line, &o);
        ctx.case(op_f, format!("wrap_single_line[nprev={}]({}, {})", nprev, show(&line), o.show()));
        // the hypothesis of the `*_safe` theorems, model vs the independent scanner
        let hy = o.splitter == "h";
        ctx.case(op_seqsafe(hy, &line), format!("seq_safe[hyphen={}]({})", hy, show(&line)));
        ctx.count(if seq_safe(hy, &line) { "seq_safe_lines" } else { "unsafe_lines" });
        let fits = base <= o.width;
        if fits && wellformed(&indent) {
            let exp = format!("{}{}", indent, line.trim_end_matches(' '));
            for (name, r) in [("slow path", &slow), ("wrap_single_line", &fast)] {
                match r {
                    Some(ls) if ls.len() == 1 && ls[0].s == exp => ctx.oracle_ok(),
                    other => ctx.fail(
                        "a paragraph that fits comes back as one unchanged line",
                        format!("{} [nprev={}] ({}, {}): display width {} + indent {} <= {}, got {:?}", name, nprev, show(&line), o.show(), d, dw(&indent), o.width, other.as_ref().map(|v| v.iter().map(|l| l.s.clone()).collect::<Vec<_>>())),
                        kf_class(&line, &o),
                    ),
                }
            }
            if line.len() >= o.width || !indent.is_empty() {
                ctx.nontrivial(&(line.clone(), o.enc(), nprev));
            }
        }
        // the shortcut is unobservable: both entry points agree whenever the shortcut is taken
        if line.len() < o.width && indent.is_empty() {
            let a = slow.as_ref().map(|v| v.iter().map(|l| l.s.clone()).collect::<Vec<_>>());
            let b = fast.as_ref().map(|v| v.iter().map(|l| l.s.clone()).collect::<Vec<_>>());
            if a != b {
                ctx.fail("shortcut path = general path", format!("({}, {}): fast {:?} vs slow {:?}", show(&line), o.show(), b, a), kf_class(&line, &o));
            } else {
                ctx.oracle_ok();
            }
            ctx.count("shortcut_taken");
        }
    }
    // fill vs fill_slow_path on all texts and widths on both sides of the shortcut condition
    for _ in 0..ctx.n(20000, 400_000) {
        let (t, mut o) = wrap_input(&mut ctx.rng, false);
        o.pen = DEFAULT_PEN;
        if ctx.rng.chance(1, 2) {
            o.width = t.len() + ctx.rng.below(3);
        }
        let (op1, a) = op_fill(&t, &o);
        ctx.case(op1, call("fill", &t, &o));
        let (op2, b) = op_fillslow(&t, &o);
        ctx.case(op2, call("fill_slow_path", &t, &o));
        if a != b {
            ctx.fail("fill shortcut = general path", format!("{}: {:?} vs slow {:?}", call("fill", &t, &o), a, b), kf_class(&t, &o));
        } else {
            ctx.oracle_ok();
        }
        // whole texts whose every paragraph fits
        let paras: Vec<&str> = t.split(o.ending()).collect();
        if wellformed(&o.ii) && wellformed(&o.si) && paras.iter().enumerate().all(|(i, p)| dw(p) + dw(if i == 0 { &o.ii } else { &o.si }) <= o.width) {
            let exp: Vec<String> = paras.iter().enumerate().map(|(i, p)| format!("{}{}", if i == 0 { &o.ii } else { &o.si }, p.trim_end_matches(' '))).collect();
            let (r, _) = real_wrap(&t, &o);
            let got = r.map(|v| v.iter().map(|l| l.s.clone()).collect::<Vec<_>>());
            if got.as_ref() != Some(&exp) {
                ctx.fail("every fitting paragraph comes back as one unchanged line", format!("{} = {:?}, expected {:?}", call("wrap", &t, &o), got, exp), kf_class(&t, &o));
            } else {
                ctx.oracle_ok();
                if paras.len() > 1 {
                    ctx.nontrivial(&(t.clone(), o.enc()));
                }
            }
        }
    }
}

// ---------------------------------------------------------------------------------------------
// C08
// ---------------------------------------------------------------------------------------------

fn alt_indent(s: &str) -> String {
    let d = dw(s);
    if s.is_empty() { String::new() } else if d == 0 { "\u{1b}[1m".to_string() /* width 0 under both feature sets */ } else { "#".repeat(d) }
}

pub fn c08_oracle(ctx: &mut Ctx, t: &str, o: &Opt, lines: &Option<Vec<LineOut>>) {
    let Some(ls) = lines else { return };
    if ls.is_empty() {
        // a custom algorithm that returns no line for no words ('E') may leave nothing at all
        if o.alg != 'E' {
            ctx.fail("at least one line", call("wrap", t, o), None);
        }
        return;
    }
    for (k, l) in ls.iter().enumerate() {
        let indent: &str = if k == 0 { &o.ii } else { &o.si };
        if !l.s.starts_with(indent) {
            ctx.fail("every line carries its indent", format!("{}: line {} = {} lacks indent {}", call("wrap", t, o), k, show(&l.s), show(indent)), None);
            return;
        }
    }
    ctx.oracle_ok();
    // what follows the indent depends only on the indents' display widths and emptiness
    if wellformed(&o.ii) && wellformed(&o.si) {
        let mut o2 = o.clone();
        o2.ii = alt_indent(&o.ii);
        o2.si = alt_indent(&o.si);
        let (r2, _) = real_wrap(t, &o2);
        if let Some(ls2) = r2 {
            let a: Vec<&str> = ls.iter().enumerate().map(|(k, l)| &l.s[(if k == 0 { o.ii.len() } else { o.si.len() })..]).collect();
            let ok = ls2.len() == ls.len() && ls2.iter().enumerate().all(|(k, l)| l.s.get((if k == 0 { o2.ii.len() } else { o2.si.len() })..) == Some(a[k]));
            if !ok {
                ctx.fail("body depends only on indent widths and emptiness", format!("{} vs indents {:?}/{:?}", call("wrap", t, o), o2.ii, o2.si), None);
            } else {
                ctx.oracle_ok();
            }
        }
    }
}

/// options with a `WrapAlgorithm::Custom` function: no model counterpart, the property predicates
/// decide (the crate's own code around the algorithm — indents, line loop, shortcut paths — is
/// what is exercised)
fn custom_alg_input(rng: &mut Rng) -> (String, Opt) {
    let (t, mut o) = wrap_input(rng, false);
    // a custom algorithm, a custom separator, or both ('E' returns no line for an empty paragraph:
    // "at least one line" is then the algorithm's choice, the indent rule is not)
    let algs = &crate::opt::CUSTOM_ALGS[..];
    match rng.below(3) {
        0 => o.alg = *rng.pick(algs),
        1 => o.sep = 'x',
        _ => { o.alg = *rng.pick(algs); o.sep = 'x'; }
    }
    if o.sep == 'x' {
        // give the custom separator something to do
        let t2: String = t.chars().map(|c| if c == 'b' { ',' } else if c == '1' { ';' } else { c }).collect();
        return finish_custom(rng, t2, o);
    }
    finish_custom(rng, t, o)
}

fn finish_custom(rng: &mut Rng, t: String, mut o: Opt) -> (String, Opt) {
    // one time in four the text starts with one or two line endings (empty leading paragraphs)
    let t = if rng.chance(1, 4) { format!("{}{}", o.ending().repeat(1 + rng.below(2)), t) } else { t };
    o.ii = gen::indent(rng);
    o.si = gen::indent(rng);
    if rng.chance(1, 3) {
        o.width = t.len() + rng.below(2);
    }
    (t, o)
}

pub fn c08(ctx: &mut Ctx) {
    for _ in 0..ctx.n(6000, 120_000) {
        let (t, o) = custom_alg_input(&mut ctx.rng);
        let (lines, _) = real_wrap(&t, &o);
        ctx.count("custom_algorithm_cases");
        if lines.is_none() {
            ctx.fail("returns normally", format!("{} panicked", call("wrap", &t, &o)), None);
            continue;
        }
        c08_oracle(ctx, &t, &o, &lines);
    }
    small_scope_wrap(ctx, |ctx, t, o| {
        let (op, lines) = op_wrap(t, o);
        ctx.case(op, call("wrap", t, o));
        c08_oracle(ctx, t, o, &lines);
        if t.split('\n').any(|p| p.trim_matches(' ').is_empty()) && (!o.ii.is_empty() || !o.si.is_empty()) {
            ctx.nontrivial(&(t.to_string(), o.enc(), o.ii.clone(), o.si.clone()));
        }
    });
    for _ in 0..ctx.n(30000, 600_000) {
        let (mut t, mut o) = wrap_input(&mut ctx.rng, false);
        o.ii = gen::indent(&mut ctx.rng);
        o.si = gen::indent(&mut ctx.rng);
        if ctx.rng.chance(1, 3) {
            // empty and whitespace-only paragraphs
            let e = o.ending();
            t = format!("{}{}{}{}{}", t, e, *ctx.rng.pick(&["", " ", "   "]), e, gen::para(&mut ctx.rng, Flavor::Plain, 4));
        }
        let (op, lines) = op_wrap(&t, &o);
        ctx.case(op, call("wrap", &t, &o));
        c08_oracle(ctx, &t, &o, &lines);
        if t.split(o.ending()).any(|p| p.trim_matches(' ').is_empty()) && (!o.ii.is_empty() || !o.si.is_empty()) {
            ctx.nontrivial(&(t.clone(), o.enc(), o.ii.clone(), o.si.clone()));
        }
    }
}

// ---------------------------------------------------------------------------------------------
// C09
// ---------------------------------------------------------------------------------------------

fn strs(v: &Option<Vec<LineOut>>) -> Option<Vec<String>> {
    v.as_ref().map(|v| v.iter().map(|l| l.s.clone()).collect())
}

pub fn c09(ctx: &mut Ctx) {
    // fill = wrap's lines joined, also around a custom wrap algorithm
    for _ in 0..ctx.n(6000, 120_000) {
        let (t, mut o) = custom_alg_input(&mut ctx.rng);
        if ctx.rng.chance(1, 2) {
            o.ii.clear();
        }
        let (lines, _) = real_wrap(&t, &o);
        let f = quiet(|| textwrap::fill(&t, o.to_options()));
        ctx.count("custom_algorithm_cases");
        match (strs(&lines), f) {
            (Some(ls), Some(f)) => {
                if ls.join(o.ending()) != f {
                    ctx.fail("fill = wrap's lines joined by the line ending", format!("{} = {}, wrap gives {:?}", call("fill", &t, &o), show(&f), ls), None);
                } else {
                    ctx.oracle_ok();
                }
            }
            _ => ctx.fail("returns normally", format!("{} panicked", call("fill", &t, &o)), None),
        }
    }
    for _ in 0..ctx.n(25000, 500_000) {
        let (a, o) = wrap_input(&mut ctx.rng, false);
        let fl = gen::flavor(&mut ctx.rng);
        let mut b = gen::text(&mut ctx.rng, fl, 2, 6);
        let mut a2 = gen::text(&mut ctx.rng, fl, 2, 4);
        if o.crlf {
            b = crlf_mostly(&mut ctx.rng, &b);
            a2 = crlf_mostly(&mut ctx.rng, &a2);
        }
        let e = o.ending();
        let ab = format!("{}{}{}", a, e, b);
        let (op, r_ab) = op_wrap(&ab, &o);
        ctx.case(op, call("wrap", &ab, &o));
        let (r_a, _) = real_wrap(&a, &o);
        let (la, lab) = (strs(&r_a), strs(&r_ab));
        let (Some(la), Some(lab)) = (la, lab) else {
            ctx.fail("returns normally", call("wrap", &ab, &o), None);
            continue;
        };
        let d = || format!("a = {}, b = {}, {}", show(&a), show(&b), o.show());
        if lab.len() < la.len() || lab[..la.len()] != la[..] {
            ctx.fail("wrap(a+ending+b) begins with exactly the lines of wrap(a)", format!("{}: {:?} vs {:?}", d(), lab, la), None);
            continue;
        }
        let rest = &lab[la.len()..];
        // the remaining lines do not depend on a
        let a2b = format!("{}{}{}", a2, e, b);
        let (r_a2b, _) = real_wrap(&a2b, &o);
        let (r_a2, _) = real_wrap(&a2, &o);
        if let (Some(x), Some(y)) = (strs(&r_a2b), strs(&r_a2)) {
            if x.len() < y.len() || &x[y.len()..] != rest {
                ctx.fail("the remaining lines do not depend on a", format!("{} vs a' = {}: {:?} vs {:?}", d(), show(&a2), rest, &x[y.len().min(x.len())..]), None);
            } else {
                ctx.oracle_ok();
            }
        }
        if o.ii.is_empty() && o.si.is_empty() {
            let (r_b, _) = real_wrap(&b, &o);
            if strs(&r_b).as_deref() != Some(rest) {
                ctx.fail("with empty indents the remaining lines equal wrap(b)", format!("{}: {:?} vs {:?}", d(), rest, strs(&r_b)), None);
            } else {
                ctx.oracle_ok();
            }
        }
        if lab.len() < ab.split(e).count() {
            ctx.fail("never fewer lines than the input", d(), None);
        }
        // fill = wrap joined
        let (opf, f) = op_fill(&ab, &o);
        ctx.case(opf, call("fill", &ab, &o));
        if f.as_deref() != Some(lab.join(e).as_str()) {
            ctx.fail("fill = wrap's lines joined by the line ending", d(), None);
        } else {
            ctx.oracle_ok();
        }
        // LF -> CRLF equivariance
        if !o.crlf {
            let mut oc = o.clone();
            oc.crlf = true;
            let tc = ab.replace('\n', "\r\n");
            let (opc, fc) = op_fill(&tc, &oc);
            ctx.case(opc, call("fill", &tc, &oc));
            if let (Some(f), Some(fc)) = (&f, &fc) {
                if &f.replace('\n', "\r\n") != fc {
                    ctx.fail("LF -> CRLF changes the output only by that substitution", format!("{}: {} vs {}", d(), show(f), show(fc)), None);
                } else {
                    ctx.oracle_ok();
                }
            }
        }
        if rest.len() > b.split(e).count() {
            ctx.nontrivial(&(ab.clone(), o.enc(), o.ii.clone(), o.si.clone()));
        }
    }
    for name in ["std_splitlf", "std_splitcrlf"] {
        let alpha: &[&str] = &["a", "\r", "\n", " "];
        let mut all: Vec<String> = Vec::new();
        gen::enumerate_strings(alpha, 6, |s| all.push(s.to_string()));
        for s in &all {
            ctx.case(op_std(name, s), format!("{}({})", name, show(s)));
        }
    }
}

// ---------------------------------------------------------------------------------------------
// C13
// ---------------------------------------------------------------------------------------------

fn coloured(rng: &mut Rng, hyphen_splitter: bool) -> (String, String, Vec<(Vec<(String, char)>, String)>) {
    // visible tokens, then sequences attached to non-space characters
    let n = 1 + rng.below(7);
    let mut vis: Vec<char> = Vec::new();
    for _ in 0..n {
        if rng.chance(1, 10) {
            // control characters (width 0 with unicode-width, 1 without) and characters from
            // outside the fixed alphabets, inside coloured words
            let c = if rng.chance(1, 2) { *rng.pick(&['\u{7f}', '\t', '\u{7}', '\u{1}', '\u{85}']) } else { gen::exotic(rng) };
            if c != '\n' && c != '\u{1b}' {
                vis.push(c);
                continue;
            }
        }
        let tok: &str = if rng.chance(1, 4) { *rng.pick(gen::WIDE) } else { *rng.pick(gen::PLAIN) };
        vis.extend(tok.chars());
        if rng.chance(1, 8) {
            vis.push('\n');
        }
    }
    let seqs_sgr: &[&str] = &["\x1b[0m", "\x1b[31m", "\x1b[1;32m", "\x1b[m", "\x1b[38;5;196m"];
    // … hyperlinks and titles with non-ASCII payload (characters and bytes differ inside the sequence)
    let seqs_osc: &[&str] = &["\x1b]8;;http://x.y/z\x1b\\", "\x1b]8;;\x1b\\", "\x1b]8;;http://example.com\x07", "\x1b]8;;file:///home/josé/résumé.txt\x1b\\", "\x1b]0;字幕😀\x07", "\x1b]8;;http://例え.jp/ü\x07"];
    let mut out = String::new();
    let is_ok = |c: Option<&char>| -> bool {
        match c {
            Some(c) => *c != ' ' && *c != '\n' && !(hyphen_splitter && *c == '-'),
            None => false,
        }
    };
    let touches_hyphen = |a: Option<&char>, b: Option<&char>| hyphen_splitter && (a == Some(&'-') || b == Some(&'-'));
    // the same text as paragraphs of blocks (run of sequences, visible char) + trailing run: the
    // form in which the Lean theorems of C13 take it
    let mut paras: Vec<(Vec<(String, char)>, String)> = Vec::new();
    let mut blocks: Vec<(String, char)> = Vec::new();
    let mut pend = String::new();
    for i in 0..=vis.len() {
        let prev = if i > 0 { vis.get(i - 1) } else { None };
        let next = vis.get(i);
        if (is_ok(prev) || is_ok(next)) && !touches_hyphen(prev, next) && rng.chance(1, 4) {
            for _ in 0..1 + rng.below(2) {
                let long: String;
                let sq: &str = if rng.chance(1, 150) {
                    // a long colour sequence or hyperlink (length limits inside the escape skipper)
                    long = if rng.chance(1, 2) {
                        format!("\x1b[{}m", "1;".repeat([32usize, 33, 64, 500][rng.below(4)]))
                    } else {
                        format!("\x1b]8;;http://example.com/{}\x1b\\", "a".repeat([2070usize, 2083, 2100, 4100][rng.below(4)]))
                    };
                    &long
                } else if rng.chance(1, 10) { gen::real_sequence(rng) } else if rng.chance(3, 4) { *rng.pick(seqs_sgr) } else { *rng.pick(seqs_osc) };
                out.push_str(sq);
                pend.push_str(sq);
            }
        }
        if let Some(c) = next {
            out.push(*c);
            if *c == '\n' {
                paras.push((std::mem::take(&mut blocks), std::mem::take(&mut pend)));
            } else {
                blocks.push((std::mem::take(&mut pend), *c));
            }
        }
    }
    paras.push((blocks, pend));
    (out, vis.into_iter().collect(), paras)
}

fn enc_paras(paras: &[(Vec<(String, char)>, String)]) -> String {
    paras
        .iter()
        .map(|(bs, tl)| format!("{}~{}", bs.iter().map(|(p, c)| format!("{}/{}", crate::proto::enc_text(p), *c as u32)).collect::<Vec<_>>().join(","), crate::proto::enc_text(tl)))
        .collect::<Vec<_>>()
        .join(";")
}

fn sequences_of(t: &str) -> Vec<String> {
    let sc = scan(t);
    let mut out = Vec::new();
    let mut cur = String::new();
    for (i, c) in t.chars().enumerate() {
        if sc.in_seq[i] {
            if sc.seq_start[i] && !cur.is_empty() {
                out.push(std::mem::take(&mut cur));
            }
            cur.push(c);
        } else if !cur.is_empty() {
            out.push(std::mem::take(&mut cur));
        }
    }
    if !cur.is_empty() {
        out.push(cur);
    }
    out
}

pub fn c13(ctx: &mut Ctx) {
    for _ in 0..ctx.n(40000, 800_000) {
        let w = gen::small_width(&mut ctx.rng);
        let mut o = gen::options(&mut ctx.rng, w);
        o.ii.clear();
        o.si.clear();
        o.crlf = false;
        o.pen = DEFAULT_PEN;
        let (col, vis, paras) = coloured(&mut ctx.rng, o.splitter == "h");
        let (op, r) = op_wrap(&col, &o);
        ctx.case(op, call("wrap", &col, &o));
        // the generated text lies in the class of the Lean theorems (blocks, valid, attached)
        ctx.case(
            Op { req: format!("c13blocks|{}|{}", (o.splitter == "h") as u8, enc_paras(&paras)), real: format!("valid=1;attached=1;nolf=1;hyphenok=1;col={};vis={}", crate::proto::enc_text(&col), crate::proto::enc_text(&vis)) },
            format!("blocks of {}", show(&col)),
        );
        let (rv, _) = real_wrap(&vis, &o);
        let (Some(lc), Some(lv)) = (strs(&r), strs(&rv)) else {
            ctx.fail("returns normally", call("wrap", &col, &o), None);
            continue;
        };
        let stripped: Vec<String> = lc.iter().map(|l| visible_text(l)).collect();
        if stripped != lv {
            ctx.fail("stripping the sequences from wrap's lines = wrap of the stripped text", format!("{} = {:?}; stripped text gives {:?}", call("wrap", &col, &o), lc, lv), kf_class(&col, &o));
        } else {
            ctx.oracle_ok();
        }
        let in_seqs = sequences_of(&col);
        let out_seqs: Vec<String> = lc.iter().flat_map(|l| sequences_of(l)).collect();
        if in_seqs != out_seqs {
            ctx.fail("no sequence is cut in two or dropped", format!("{} = {:?}", call("wrap", &col, &o), lc), kf_class(&col, &o));
        } else {
            ctx.oracle_ok();
        }
        if col != vis && lc.len() >= 2 {
            ctx.nontrivial(&(col.clone(), o.enc()));
        }
        ctx.count(&format!("sep_{}_alg_{}", o.sep, o.alg));
    }
}

// ---------------------------------------------------------------------------------------------
// C14
// ---------------------------------------------------------------------------------------------

pub fn c14(ctx: &mut Ctx) {
    // bounded-exhaustive: every text of up to four (thorough: five) characters over letters,
    // digits and the punctuation whose line-break classes glue words together or to the spaces
    // around them (opening / closing / quotes / prefix / postfix / infix / hyphen / Hebrew), at
    // widths 1..4, first-fit, hyphen splitter, both separators — a word wrapped again on its own is
    // analysed without its left context (Lean: `ownOpps_part`)
    {
        let alpha: &[&str] = &["a", "1", "-", "(", " ", ",", "$", ")", "%", "\"", "\u{5d0}", "."];
        let mut all: Vec<String> = Vec::new();
        gen::enumerate_strings(alpha, if ctx.thorough { 5 } else { 4 }, |s| all.push(s.to_string()));
        for t in &all {
            for w in 1..=4usize {
                for sep in ['u', 'a'] {
                    if sep == 'u' && !cfg!(feature = "full") {
                        continue;
                    }
                    for bw in [false, true] {
                        let mut o = Opt::new(w);
                        o.sep = sep;
                        o.bw = bw;
                        o.splitter = "h";
                        if sep == 'u' {
                            // the Unicode separator's clause: no word needs force-breaking
                            let fits = real_fragments(t, &Opt { bw: false, ..o.clone() }).map(|fs| fs.iter().all(|f| dw(f) <= w)).unwrap_or(false);
                            if bw && !fits {
                                continue;
                            }
                        }
                        let Some(f1) = quiet(|| textwrap::fill(t, o.to_options())) else { ctx.fail("returns normally", call("fill", t, &o), None); continue };
                        let f2 = quiet(|| textwrap::fill(&f1, o.to_options()));
                        if f2.as_deref() != Some(f1.as_str()) {
                            ctx.fail("fill(fill(t)) = fill(t)", format!("{} = {}, filling again gives {:?}", call("fill", t, &o), show(&f1), f2), None);
                        } else {
                            ctx.oracle_ok();
                        }
                        ctx.count("exhaustive_punctuation_texts");
                    }
                }
            }
        }
    }
    for _ in 0..ctx.n(40000, 800_000) {
        let (t, mut o) = wrap_input(&mut ctx.rng, false);
        o.ii.clear();
        o.si.clear();
        o.pen = DEFAULT_PEN;
        let (op, f1) = op_fill(&t, &o);
        ctx.case(op, call("fill", &t, &o));
        let Some(f1) = f1 else {
            ctx.fail("returns normally", call("fill", &t, &o), None);
            continue;
        };
        // applicability (reading §9(b))
        let frag_ok = |t: &str| -> bool {
            real_fragments(t, &Opt { bw: false, ..o.clone() }).map(|fs| fs.iter().all(|f| dw(f) <= o.width)).unwrap_or(false)
        };
        let applicable = match (o.alg, o.sep) {
            ('f', 'a') => true,
            ('f', _) => frag_ok(&t),
            (_, s) => f1.split(o.ending()).all(|l| dw(l) <= o.width) && (s == 'a' || frag_ok(&t)),
        };
        if !applicable {
            ctx.count("not_applicable");
            continue;
        }
        let (op2, f2) = op_fill(&f1, &o);
        ctx.case(op2, call("fill", &f1, &o));
        if f2.as_deref() != Some(f1.as_str()) {
            ctx.fail("fill(fill(t)) = fill(t)", format!("{} = {}, filling again gives {:?}", call("fill", &t, &o), show(&f1), f2), None);
        } else {
            ctx.oracle_ok();
        }
        ctx.count(&format!("applicable_alg_{}_sep_{}", o.alg, o.sep));
        if f1 != t && f1.split(o.ending()).count() > t.split(o.ending()).count() {
            ctx.nontrivial(&(t.clone(), o.enc()));
        }
    }
}

// ---------------------------------------------------------------------------------------------
// C15 / C16
// ---------------------------------------------------------------------------------------------

const VOCAB: &[&str] = &["foo", "bar", "a", "x-y", "é", "Ｈello", "quux", "w0rd", "it's", "(b)", "a/b", "c++", "😂", "z", "lorem", "ipsum"];
const PIND: &[&str] = &["", "", " ", "> ", "- ", "  ", "* ", "# ", "//", ">> ", "-+", "/* "];

fn c15_case(rng: &mut Rng) -> (String, Opt, String) {
    let n = 1 + rng.below(9);
    // one case in six mixes in words whose display width is not additive over the paragraph
    // (a bare ESC swallowing the following space, unterminated or coloured sequences): whole-
    // paragraph measurements then differ from per-word ones
    let odd = rng.chance(1, 6);
    // one case in five contains words made of (or touched by) a character from outside the
    // vocabulary: punctuation and dashes, every kind of Unicode blank, ASCII edge characters —
    // as a word of its own, or in front of / behind a vocabulary word. A word must not begin with
    // a prefix character and contains no ' ', LF or CR (the property's class of paragraphs).
    let strange = rng.chance(1, 5);
    let words: Vec<String> = (0..n)
        .map(|_| {
            if odd && rng.chance(1, 3) {
                rng.pick(&["ab\x1b", "\x1b[1", "x\x1b]0;t", "\x1b[31mred\x1b[0m", "q\x1b"]).to_string()
            } else if strange && rng.chance(1, 3) {
                let c = match rng.below(4) {
                    0 => rng.pick(gen::ASCII_EDGE).chars().next().unwrap(),
                    1 => rng.pick(gen::WS).chars().next().unwrap(),
                    _ => gen::exotic(rng),
                };
                let c = if matches!(c, ' ' | '\n' | '\r' | '-' | '+' | '*' | '>' | '#' | '/') { 'x' } else { c };
                match rng.below(3) {
                    0 => c.to_string(),
                    1 => format!("{}{}", rng.pick(VOCAB), c),
                    _ => format!("{}{}", c, rng.pick(VOCAB)),
                }
            } else {
                rng.pick(VOCAB).to_string()
            }
        })
        .collect();
    let p = words.join(" ");
    let mut o = Opt::new(rng.below(14));
    o.bw = false;
    o.sep = 'a';
    o.splitter = "n";
    o.alg = if cfg!(feature = "full") && rng.chance(1, 2) { 'o' } else { 'f' };
    o.crlf = rng.chance(1, 2);
    o.ii = rng.pick(PIND).to_string();
    o.si = rng.pick(PIND).to_string();
    let trail = if rng.chance(1, 2) { o.ending().to_string() } else { String::new() };
    (p, o, trail)
}

fn c15_structural(ctx: &mut Ctx, t: &str, u: &Option<UnfillOut>) {
    let Some(u) = u else {
        ctx.fail("returns normally", format!("unfill({}) panicked", show(t)), None);
        return;
    };
    let d = || format!("unfill({}) = {:?}", show(t), u);
    let prefix_chars = [' ', '-', '+', '*', '>', '#', '/'];
    let lines: Vec<&str> = t.lines().collect();
    let mut ok = true;
    if !u.ii.chars().all(|c| prefix_chars.contains(&c)) || !u.si.chars().all(|c| prefix_chars.contains(&c)) {
        ctx.fail("indents consist of prefix characters", d(), None);
        ok = false;
    }
    if let Some(first) = lines.first() {
        if !first.starts_with(&u.ii) {
            ctx.fail("initial indent is a prefix of the first line", d(), None);
            ok = false;
        }
    }
    if lines.iter().skip(1).any(|l| !l.starts_with(&u.si)) {
        ctx.fail("subsequent indent is a prefix of every later line", d(), None);
        ok = false;
    }
    let body = u.text.strip_suffix("\r\n").or_else(|| u.text.strip_suffix('\n')).unwrap_or(&u.text);
    if body.contains('\n') {
        ctx.fail("no line break other than a final one", d(), None);
        ok = false;
    }
    if !lines.is_empty() && lines.iter().all(|l| !l.is_empty()) && !t.contains("\n\n") && !t.starts_with('\n') && !t.contains("\n\r\n") && !t.starts_with("\r\n") {
        // input without empty lines: CRLF iff at least one ending and all of them CRLF
        let n_lf = t.matches('\n').count();
        let n_crlf = t.matches("\r\n").count();
        let want = n_lf > 0 && n_lf == n_crlf;
        if u.crlf != want {
            ctx.fail("line ending is CRLF exactly when there is one and all are CRLF", d(), None);
            ok = false;
        }
    }
    if ok {
        ctx.oracle_ok();
    }
}

pub fn c15(ctx: &mut Ctx) {
    for _ in 0..ctx.n(30000, 600_000) {
        let (p, o, trail) = c15_case(&mut ctx.rng);
        let (opf, f) = op_fill(&p, &o);
        ctx.case(opf, call("fill", &p, &o));
        let Some(f) = f else {
            ctx.fail("returns normally", call("fill", &p, &o), None);
            continue;
        };
        let filled = format!("{}{}", f, trail);
        let (opu, u) = op_unfill(&filled);
        ctx.case(opu, format!("unfill({})", show(&filled)));
        c15_structural(ctx, &filled, &u);
        let Some(u) = u else { continue };
        let d = || format!("unfill({}) = {:?}; paragraph {}, {}", show(&filled), u, show(&p), o.show());
        let nlines = f.split(o.ending()).count();
        let mut ok = true;
        if u.text != format!("{}{}", p, trail) {
            ctx.fail("unfill returns the original paragraph", d(), None);
            ok = false;
        }
        if u.ii != o.ii {
            ctx.fail("unfill recovers the initial indent", d(), None);
            ok = false;
        }
        let wmax = f.split(o.ending()).map(dw).max().unwrap_or(0);
        if u.width != wmax {
            ctx.fail("width equals the widest line", d(), None);
            ok = false;
        }
        if nlines >= 2 {
            if u.si != o.si {
                ctx.fail("unfill recovers the subsequent indent", d(), None);
                ok = false;
            }
            if u.crlf != o.crlf {
                ctx.fail("unfill recovers the line ending", d(), None);
                ok = false;
            }
            ctx.nontrivial(&(p.clone(), o.enc(), o.ii.clone(), o.si.clone(), trail.clone()));
        }
        if ok {
            ctx.oracle_ok();
        }
        ctx.count(&format!("lines_{}", nlines.min(4)));
    }
    // many lines: a paragraph of 60..260 indented lines in which one late line has a different
    // (shorter or diverging) prefix — state about the common prefix must cover every line
    for _ in 0..ctx.n(300, 6000) {
        let n = 60 + ctx.rng.below(200);
        let pre = *ctx.rng.pick(&["> ", "    ", "  * ", "// ", "-- "]);
        let odd_at = 1 + ctx.rng.below(n - 1);
        let odd = *ctx.rng.pick(&["", " ", ">", "  ", "/", "- "]);
        let e = if ctx.rng.chance(1, 3) { "\r\n" } else { "\n" };
        let mut t = String::new();
        for i in 0..n {
            t.push_str(if i == odd_at { odd } else { pre });
            t.push_str(*ctx.rng.pick(&["x", "plain words here", "é", "w0rd"]));
            if i + 1 < n || ctx.rng.chance(1, 2) {
                t.push_str(e);
            }
        }
        let (opu, u) = op_unfill(&t);
        ctx.case(opu, format!("unfill({} lines, line {} with prefix {:?})", n, odd_at, odd));
        c15_structural(ctx, &t, &u);
        ctx.count("many_line_paragraphs");
    }
    // structural half: arbitrary strings
    let alpha: &[&str] = &["a", " ", "\n", "\r", ">", "-"];
    let mut all: Vec<String> = Vec::new();
    gen::enumerate_strings(alpha, if ctx.thorough { 6 } else { 5 }, |s| all.push(s.to_string()));
    for s in &all {
        let (opu, u) = op_unfill(s);
        ctx.case(opu, format!("unfill({})", show(s)));
        c15_structural(ctx, s, &u);
        let (opn, _) = op_nel(s);
        ctx.case(opn, format!("NonEmptyLines({})", show(s)));
    }
    for k in 0..ctx.n(20000, 400_000) {
        let mut t = if k % 3 == 0 { gen::comment_block(&mut ctx.rng) } else { gen::any_text(&mut ctx.rng) };
        if k % 3 != 0 && ctx.rng.chance(1, 2) {
            t = t.replace("a", "> ").replace("b", "- ");
        }
        let (opu, u) = op_unfill(&t);
        ctx.case(opu, format!("unfill({})", show(&t)));
        c15_structural(ctx, &t, &u);
        let (opn, nel) = op_nel(&t);
        ctx.case(opn, format!("NonEmptyLines({})", show(&t)));
        // the two line iterators agree: NonEmptyLines = non-empty elements of lines()
        if let Some(nel) = nel {
            let a: Vec<&str> = nel.iter().map(|x| x.0.as_str()).collect();
            let b: Vec<&str> = t.lines().filter(|l| !l.is_empty()).collect();
            if a != b {
                ctx.fail("NonEmptyLines agrees with lines()", format!("text {}: {:?} vs {:?}", show(&t), a, b), None);
            } else {
                ctx.oracle_ok();
            }
        }
    }
}

pub fn c16(ctx: &mut Ctx) {
    for _ in 0..ctx.n(30000, 600_000) {
        let (p, o1, trail1) = c15_case(&mut ctx.rng);
        let Some(f1) = quiet(|| textwrap::fill(&p, o1.to_options())) else { continue };
        if f1.split(o1.ending()).count() < 2 {
            ctx.count("single_line_skipped");
            continue;
        }
        // the second options are arbitrary (the property restricts only the first): every
        // separator, splitter, algorithm, break_words setting and ending; one time in three they
        // differ from the first only in width, ending and algorithm
        let mut o2 = if ctx.rng.chance(1, 3) { o1.clone() } else { gen::options(&mut ctx.rng, 0) };
        o2.ii = o1.ii.clone();
        o2.si = o1.si.clone();
        o2.width = ctx.rng.below(16);
        o2.crlf = ctx.rng.chance(1, 2);
        o2.alg = if cfg!(feature = "full") && ctx.rng.chance(1, 2) { 'o' } else { 'f' };
        let input = format!("{}{}", f1, trail1);
        // o2 as passed to refill carries other indents, which refill must replace
        let mut o2_passed = o2.clone();
        o2_passed.ii = "@@".into();
        o2_passed.si = "%%".into();
        let (op, r) = op_refill(&input, &o2_passed);
        ctx.case(op, call("refill", &input, &o2_passed));
        let exp = quiet(|| textwrap::fill(&p, o2.to_options())).map(|f| format!("{}{}", f, if trail1.is_empty() { "" } else { o2.ending() }));
        if r != exp || r.is_none() {
            ctx.fail("refill(fill(t,o1),o2) = fill(t, o2 with o1's indents)", format!("paragraph {}, o1: {}, o2: {}: {:?} vs {:?}", show(&p), o1.show(), o2.show(), r, exp), None);
        } else {
            ctx.oracle_ok();
        }
        // independence of the first width
        let mut o1b = o1.clone();
        o1b.width = ctx.rng.below(14);
        if let Some(f1b) = quiet(|| textwrap::fill(&p, o1b.to_options())) {
            if f1b.split(o1b.ending()).count() >= 2 {
                let r2 = quiet(|| textwrap::refill(&format!("{}{}", f1b, trail1), o2_passed.to_options()));
                if r2 != r {
                    ctx.fail("refill does not depend on the previous width", format!("paragraph {}, widths {} / {}", show(&p), o1.width, o1b.width), None);
                } else {
                    ctx.oracle_ok();
                }
            }
        }
        ctx.nontrivial(&(p.clone(), o1.enc(), o2.enc(), o1.ii.clone(), o1.si.clone(), trail1.clone()));
        ctx.count(&format!("ending_{}_to_{}", o1.crlf as u8, o2.crlf as u8));
    }
}

// ---------------------------------------------------------------------------------------------
// C17
// ---------------------------------------------------------------------------------------------

pub fn c17(ctx: &mut Ctx) {
    let mut run = |ctx: &mut Ctx, t: &str, w: usize| {
        let (op, r) = op_fillinplace(t, w);
        let d = format!("fill_inplace({}, {})", show(t), w);
        ctx.case(op, d.clone());
        let Some(r) = r else {
            ctx.fail("returns normally", format!("{} panicked", d), None);
            return;
        };
        if r.len() != t.len() {
            ctx.fail("same length", format!("{} = {}", d, show(&r)), None);
            return;
        }
        let ok = t.bytes().zip(r.bytes()).all(|(a, b)| a == b || (a == b' ' && b == b'\n'));
        if !ok {
            ctx.fail("differs only where a space became a newline", format!("{} = {}", d, show(&r)), None);
            return;
        }
        let mut o = Opt::new(w);
        o.bw = false;
        let exp = quiet(|| textwrap::wrap(t, o.to_options()).iter().map(|l| l.to_string()).collect::<Vec<_>>());
        let got: Vec<String> = r.split('\n').map(|l| l.trim_end_matches(' ').to_string()).collect();
        if exp.as_ref() != Some(&got) {
            ctx.fail("split at newlines and trimmed = wrap(original) with the documented options", format!("{} = {}; wrap gives {:?}", d, show(&r), exp), None);
            return;
        }
        ctx.oracle_ok();
        if r != t {
            ctx.nontrivial(&(t.to_string(), w));
        }
    };
    let alpha: &[&str] = &["a", " ", "\n", "é", "bc"];
    let mut all: Vec<String> = Vec::new();
    gen::enumerate_strings(alpha, if ctx.thorough { 7 } else { 6 }, |s| all.push(s.to_string()));
    for (i, s) in all.iter().enumerate() {
        run(ctx, s, i % 6);
        if ctx.thorough {
            run(ctx, s, (i + 3) % 6);
        }
    }
    for _ in 0..ctx.n(30000, 600_000) {
        let fl = *ctx.rng.pick(&[Flavor::Plain, Flavor::Wide, Flavor::Mixed, Flavor::AnsiOk]);
        let t = gen::text(&mut ctx.rng, fl, 3, 8);
        let w = if ctx.rng.chance(1, 8) { gen::width_for(&mut ctx.rng, &t) } else { gen::small_width(&mut ctx.rng) };
        run(ctx, &t, w);
    }
}

// ---------------------------------------------------------------------------------------------
// C20
// ---------------------------------------------------------------------------------------------

pub fn c20(ctx: &mut Ctx) {
    let gaps: &[&str] = &["", "", " ", "| ", " | ", "│", "👉", "--", "\u{301}"];
    // custom wrap algorithms / separators (no model counterpart): never fails, and the number of
    // rows is what the lines of `wrap` at the column width need
    for _ in 0..ctx.n(3000, 60_000) {
        let (mut t, mut o) = custom_alg_input(&mut ctx.rng);
        if ctx.rng.chance(1, 4) {
            t = (*ctx.rng.pick(&["", "\n", "\n\n", " "])).to_string();
        }
        if ctx.rng.chance(1, 3) {
            o.alg = 'E';
        }
        let cols = 1 + ctx.rng.below(4);
        o.width = ctx.rng.below(30);
        let (l, m, r) = (*ctx.rng.pick(gaps), *ctx.rng.pick(gaps), *ctx.rng.pick(gaps));
        let d = format!("wrap_columns({}, {}, {}, {:?}, {:?}, {:?})", show(&t), cols, o.show(), l, m, r);
        ctx.count("custom_algorithm_or_separator_cases");
        let rows = quiet(|| textwrap::wrap_columns(&t, cols, o.to_options(), l, m, r));
        let Some(rows) = rows else {
            ctx.fail("never fails for columns >= 1", format!("{} panicked", d), None);
            continue;
        };
        let inner = o.width.saturating_sub(dw(l)).saturating_sub(dw(r)).saturating_sub(dw(m) * (cols - 1));
        let mut oc = o.clone();
        oc.width = std::cmp::max(inner / cols, 1);
        if let (Some(wl), _) = real_wrap(&t, &oc) {
            if rows.len() != (wl.len() + cols - 1) / cols {
                ctx.fail("rows = left gap, column-major cells separated by the middle gap, right gap", format!("{}: {} rows for {} wrapped lines", d, rows.len(), wl.len()), None);
                continue;
            }
        }
        ctx.oracle_ok();
    }
    for i in 0..ctx.n(30000, 600_000) {
        let (mut t, mut o) = wrap_input(&mut ctx.rng, false);
        let cols = 1 + ctx.rng.below(4);
        o.width = if i % 5 == 0 { ctx.rng.below(4) } else { ctx.rng.below(30) };
        if i % 400 == 399 {
            // wide layouts: rows of 2^8 .. 2^17 columns (the padding is produced by code that may
            // go through narrower integer types); short text keeps the number of rows small
            o.width = [255usize, 256, 257, 65_535, 65_536, 65_537, 70_000, 131_073][ctx.rng.below(8)] * cols + ctx.rng.below(3);
            t = gen::para(&mut ctx.rng, Flavor::Wide, 4);
            ctx.count("wide_layout");
        }
        let (l, m, r) = (*ctx.rng.pick(gaps), *ctx.rng.pick(gaps), *ctx.rng.pick(gaps));
        let (op, rows) = op_columns(&t, &o, cols, l, m, r);
        let d = format!("wrap_columns({}, {}, {}, {:?}, {:?}, {:?})", show(&t), cols, o.show(), l, m, r);
        ctx.case(op, d.clone());
        let Some(rows) = rows else {
            ctx.fail("never fails for columns >= 1", format!("{} panicked", d), None);
            continue;
        };
        // independent layout
        let inner = o.width.saturating_sub(dw(l)).saturating_sub(dw(r)).saturating_sub(dw(m) * (cols - 1));
        let cw = std::cmp::max(inner / cols, 1);
        let mut oc = o.clone();
        oc.width = cw;
        let (wl, _) = real_wrap(&t, &oc);
        let Some(wl) = strs(&wl) else { continue };
        let nrows = (wl.len() + cols - 1) / cols;
        let mut exp: Vec<String> = Vec::new();
        for rno in 0..nrows {
            let mut row = String::from(l);
            for c in 0..cols {
                match wl.get(rno + c * nrows) {
                    Some(cell) => {
                        row.push_str(cell);
                        row.push_str(&" ".repeat(cw.saturating_sub(dw(cell))));
                    }
                    None => row.push_str(&" ".repeat(cw)),
                }
                if c + 1 == cols {
                    row.push_str(&" ".repeat(inner % cw));
                } else {
                    row.push_str(m);
                }
            }
            row.push_str(r);
            exp.push(row);
        }
        if rows != exp {
            ctx.fail("rows = left gap, column-major cells separated by the middle gap, right gap", format!("{} = {:?}, expected {:?}", d, rows, exp), None);
            continue;
        }
        let fits = wl.iter().all(|x| dw(x) <= cw);
        if fits && wl.iter().all(|x| wellformed(x)) && wellformed(l) && wellformed(m) && wellformed(r) {
            let want = dw(l) + dw(r) + (cols - 1) * dw(m) + cols * cw + inner % cw;
            if rows.iter().any(|x| dw(x) != want) {
                ctx.fail("all rows have the same display width when every line fits", format!("{} = {:?}, expected width {}", d, rows, want), None);
                continue;
            }
        } else {
            ctx.count("protruding_line");
        }
        ctx.oracle_ok();
        if nrows >= 2 && cols >= 2 {
            ctx.nontrivial(&d);
        }
    }
}

//! Line protocol shared with lean/Driver.lean.
//! Text = space-separated decimal code points; lists comma-separated; f64 = decimal u64 bits.
use std::borrow::Cow;
use textwrap::core::Word;

pub fn enc_text(s: &str) -> String {
    let mut out = String::new();
    for (i, c) in s.chars().enumerate() {
        if i > 0 {
            out.push(' ');
        }
        out.push_str(&(c as u32).to_string());
    }
    out
}

pub fn dec_text(s: &str) -> String {
    s.split(' ').filter(|p| !p.is_empty()).filter_map(|p| p.parse::<u32>().ok()).filter_map(char::from_u32).collect()
}

pub fn enc_nats(v: &[usize]) -> String {
    v.iter().map(|x| x.to_string()).collect::<Vec<_>>().join(",")
}

pub fn enc_f64(x: f64) -> String {
    x.to_bits().to_string()
}

pub fn enc_f64s(v: &[f64]) -> String {
    v.iter().map(|x| enc_f64(*x)).collect::<Vec<_>>().join(",")
}

pub fn enc_frags(v: &[(f64, f64, f64)]) -> String {
    v.iter().map(|f| format!("{}:{}:{}", enc_f64(f.0), enc_f64(f.1), enc_f64(f.2))).collect::<Vec<_>>().join(",")
}

pub fn enc_word(w: &Word<'_>) -> String {
    format!("{}/{}/{}/{}", enc_text(w.word), enc_text(w.whitespace), enc_text(w.penalty), w.width)
}

pub fn enc_words(ws: &[Word<'_>]) -> String {
    ws.iter().map(enc_word).collect::<Vec<_>>().join(",")
}

/// `N;line,line,…` (the count distinguishes `[]` from `[""]`)
pub fn enc_lines<S: AsRef<str>>(ls: &[S]) -> String {
    format!("{};{}", ls.len(), ls.iter().map(|l| enc_text(l.as_ref())).collect::<Vec<_>>().join(","))
}

/// lines with their Cow variant and, for borrowed lines inside `text`, the byte offset
pub fn enc_cow_lines(text: &str, ls: &[Cow<'_, str>]) -> String {
    let base = text.as_ptr() as usize;
    ls.iter()
        .map(|l| {
            let (b, st) = match l {
                Cow::Borrowed(s) => {
                    let p = s.as_ptr() as usize;
                    if p >= base && p + s.len() <= base + text.len() {
                        (1, (p - base).to_string())
                    } else {
                        (1, "-".to_string())
                    }
                }
                Cow::Owned(_) => (0, "-".to_string()),
            };
            format!("{}/{}/{}", enc_text(l), b, st)
        })
        .collect::<Vec<_>>()
        .join(",")
}

/// human-readable form for samples and replays
pub fn show(s: &str) -> String {
    format!("{:?}", s)
}

//! Property streams, part C: C03 (optimality) and C04 (totality).
use crate::ctx::Ctx;
use crate::gen::{self, Flavor};
use crate::ops::*;
use crate::opt::{Opt, DEFAULT_PEN};
use crate::proto::show;
use crate::rng::Rng;

type I = i128;

fn line_target(lws: &[I], k: usize) -> I {
    let lw = lws.get(k).copied().or(lws.last().copied()).unwrap_or(0);
    lw.max(1)
}

/// the documented cost of one line holding fragments i..j as line number k (exact integers)
fn line_cost(frs: &[(I, I, I)], lws: &[I], pen: [I; 5], k: usize, i: usize, j: usize) -> I {
    let n = frs.len();
    let target = line_target(lws, k);
    let mut lw: I = frs[i..j].iter().map(|f| f.0 + f.1).sum();
    lw = lw - frs[j - 1].1 + frs[j - 1].2;
    let mut c = pen[0];
    if lw > target {
        c += (lw - target) * pen[1];
    } else if j < n {
        c += (target - lw) * (target - lw);
    } else if i + 1 == j && (pen[2] == 0 || lw * pen[2] < target) {
        c += pen[3];
    }
    if frs[j - 1].2 > 0 {
        c += pen[4];
    }
    c
}

pub fn arrangement_cost(frs: &[(I, I, I)], lws: &[I], pen: [I; 5], lens: &[usize]) -> I {
    let mut i = 0;
    let mut c = 0;
    for (k, &l) in lens.iter().enumerate() {
        if l == 0 {
            continue;
        }
        c += line_cost(frs, lws, pen, k, i, i + l);
        i += l;
    }
    c
}

/// exact minimum over all arrangements: DP over (position, line index capped at the number of
/// listed widths)
pub fn min_cost(frs: &[(I, I, I)], lws: &[I], pen: [I; 5]) -> I {
    let n = frs.len();
    if n == 0 {
        return 0;
    }
    let kmax = lws.len().max(1);
    // best[k][i] = min cost of arranging fragments i.. when the next line has index k (capped)
    let mut best = vec![vec![0 as I; n + 1]; kmax];
    for i in (0..n).rev() {
        for k in 0..kmax {
            let mut b: Option<I> = None;
            for j in i + 1..=n {
                let c = line_cost(frs, lws, pen, k, i, j) + best[(k + 1).min(kmax - 1)][j];
                if b.map_or(true, |x| c < x) {
                    b = Some(c);
                }
            }
            best[k][i] = b.unwrap();
        }
    }
    best[0][0]
}

/// brute force over all 2^(n-1) arrangements (n <= 12): an independent cross-check of the DP
pub fn brute_min(frs: &[(I, I, I)], lws: &[I], pen: [I; 5]) -> I {
    let n = frs.len();
    if n == 0 {
        return 0;
    }
    let mut best: Option<I> = None;
    for mask in 0u32..(1 << (n - 1)) {
        let mut lens = Vec::new();
        let mut cur = 1;
        for b in 0..n - 1 {
            if mask & (1 << b) != 0 {
                lens.push(cur);
                cur = 1;
            } else {
                cur += 1;
            }
        }
        lens.push(cur);
        let c = arrangement_cost(frs, lws, pen, &lens);
        if best.map_or(true, |x| c < x) {
            best = Some(c);
        }
    }
    best.unwrap()
}

/// exact minimum for ONE line width when every fragment is at least one column wide with at least
/// one column of whitespace: a line holding more than `w + 1` fragments overflows by more than the
/// cost of breaking it (default penalties), so only lines of up to `w + 2` fragments matter —
/// O(n·w) with prefix sums, usable for tens of thousands of fragments
fn min_cost_long(frs: &[(I, I, I)], w: I, pen: [I; 5]) -> I {
    let n = frs.len();
    let kmax = (w as usize) + 2;
    let mut pre = vec![0 as I; n + 1];
    for i in 0..n {
        pre[i + 1] = pre[i] + frs[i].0 + frs[i].1;
    }
    let target = w.max(1);
    let mut best = vec![0 as I; n + 1];
    for i in (0..n).rev() {
        let mut b: Option<I> = None;
        for j in i + 1..=(i + kmax).min(n) {
            let lw = pre[j] - pre[i] - frs[j - 1].1 + frs[j - 1].2;
            let mut c = pen[0];
            if lw > target {
                c += (lw - target) * pen[1];
            } else if j < n {
                c += (target - lw) * (target - lw);
            } else if i + 1 == j && (pen[2] == 0 || lw * pen[2] < target) {
                c += pen[3];
            }
            if frs[j - 1].2 > 0 {
                c += pen[4];
            }
            let c = c + best[j];
            if b.map_or(true, |x| c < x) {
                b = Some(c);
            }
        }
        best[i] = b.unwrap();
    }
    best[0]
}

/// long paragraphs through the public `WrapAlgorithm::wrap` (optimal-fit): sizes beyond anything
/// the other streams reach
#[cfg(feature = "full")]
fn c03_long(ctx: &mut Ctx) {
    let sizes: &[usize] = if ctx.thorough { &[2_000, 10_001, 12_345, 30_000] } else { &[10_001, 12_345] };
    for &n in sizes {
        let vocab: &[&str] = &["a", "to", "the", "that", "being", "wrapped", "question"];
        let text: Vec<&str> = (0..n).map(|_| *ctx.rng.pick(vocab)).collect();
        let words: Vec<textwrap::core::Word<'_>> = text.iter().map(|t| { let mut w = textwrap::core::Word::from(*t); w.whitespace = " "; w }).collect();
        let w: usize = 10 + ctx.rng.below(30);
        let alg = textwrap::WrapAlgorithm::OptimalFit(textwrap::wrap_algorithms::Penalties::new());
        let desc = format!("WrapAlgorithm::OptimalFit.wrap({} words from a 7-word vocabulary, [{}])", n, w);
        ctx.risky(&desc);
        let lens = quiet(|| alg.wrap(&words, &[w]).iter().map(|l| l.len()).collect::<Vec<usize>>());
        ctx.risky_done();
        ctx.count("long_paragraph_cases");
        let Some(lens) = lens else { ctx.fail("returns normally", desc, None); continue };
        let fi: Vec<(I, I, I)> = words.iter().map(|x| (textwrap::core::display_width(x.word) as I, 1, 0)).collect();
        let pi = [DEFAULT_PEN[0] as I, DEFAULT_PEN[1] as I, DEFAULT_PEN[2] as I, DEFAULT_PEN[3] as I, DEFAULT_PEN[4] as I];
        let c = arrangement_cost(&fi, &[w as I], pi, &lens);
        let m = min_cost_long(&fi, w as I, pi);
        if c != m {
            ctx.fail("optimal-fit returns a minimum-cost arrangement", format!("{}: cost {} vs minimum {}", desc, c, m), None);
        } else {
            ctx.oracle_ok();
        }
    }
}

fn c03_frags(rng: &mut Rng, big: bool, maxn: usize) -> Vec<F> {
    let n = rng.below(maxn + 1);
    let lim = if big { 1 << 16 } else { [4, 8, 12][rng.below(3)] };
    let mut v: Vec<F> = (0..n)
        .map(|_| {
            let w = if rng.chance(1, 8) { 0 } else { rng.below(lim) };
            let ws = if rng.chance(3, 4) { 1 } else { rng.below(3) };
            F(w as f64, ws as f64, 0.0)
        })
        .collect();
    // penalties that respect `penalty width <= next fragment's width`
    for i in 0..n {
        if rng.chance(1, 4) {
            let next = if i + 1 < n { v[i + 1].0 } else { 1.0 };
            if next >= 1.0 {
                v[i].2 = 1.0;
            }
        }
    }
    v
}

pub fn c03(ctx: &mut Ctx) {
    #[cfg(feature = "full")]
    c03_long(ctx);
    #[cfg(feature = "full")]
    {
        let mut run = |ctx: &mut Ctx, frs: &[F], lws: &[f64], pen: [usize; 5]| {
            let (req, out, _rows, costs) = op_of(frs, lws, pen);
            let req = format!("{}|costs|{}", req, costs);
            let desc = format!("wrap_optimal_fit({:?}, {:?}, {:?})", frs_tuple(frs), lws, pen);
            let fi: Vec<(I, I, I)> = frs.iter().map(|f| (f.0 as I, f.1 as I, f.2 as I)).collect();
            let li: Vec<I> = lws.iter().map(|x| *x as I).collect();
            let pi = [pen[0] as I, pen[1] as I, pen[2] as I, pen[3] as I, pen[4] as I];
            // KF-4 class: the line width changes again after the second line (the list is not
            // equivalent to one of at most two entries); the cost matrix is then not totally
            // monotone and `smawk`'s rows need not be minima: the model is asked for the
            // arrangement, its own smawk run and the costs only
            let kf = if crate::oracle::kf4(lws) { Some("KF-4") } else { None };
            match out {
                OfOut::Ok(lens) => {
                    if kf.is_some() {
                        ctx.case(Op { req: req.replace("|costs|", "|shapeonly|costs|"), real: format!("ok:{};smawk=1;costs=1", crate::proto::enc_nats(&lens)) }, desc.clone());
                    } else {
                        ctx.case(Op { req, real: format!("ok:{};shape=1;minimal=1;costeq=1;smawk=1;costs=1", crate::proto::enc_nats(&lens)) }, desc.clone());
                    }
                    let c = arrangement_cost(&fi, &li, pi, &lens);
                    let m = min_cost(&fi, &li, pi);
                    if frs.len() <= 11 {
                        let b = brute_min(&fi, &li, pi);
                        if b != m {
                            ctx.fail("oracle self-check (DP vs brute force)", format!("{}: {} vs {}", desc, m, b), None);
                        }
                    }
                    if c != m {
                        ctx.fail("optimal-fit returns a minimum-cost arrangement", format!("{} = line lengths {:?} with cost {}, minimum is {}", desc, lens, c, m), kf);
                    } else {
                        ctx.oracle_ok();
                    }
                    // never worse than first-fit
                    if let (_, Some(ff)) = op_ff(frs, lws) {
                        if c > arrangement_cost(&fi, &li, pi, &ff) {
                            ctx.fail("cost never exceeds that of the first-fit arrangement", desc.clone(), kf);
                        }
                    }
                    if lens.len() >= 2 {
                        ctx.nontrivial(&desc);
                    }
                }
                OfOut::Overflow => ctx.fail("no overflow error on small integers", desc, None),
                OfOut::Panic => ctx.fail("returns normally", desc, None),
            }
        };
        // bounded-exhaustive
        let maxl = if ctx.thorough { 5 } else { 4 };
        let atoms: Vec<F> = vec![F(0.0, 1.0, 0.0), F(1.0, 1.0, 0.0), F(2.0, 1.0, 0.0), F(3.0, 0.0, 0.0), F(2.0, 2.0, 0.0), F(1.0, 0.0, 1.0)];
        let mut idx: Vec<usize> = vec![];
        let mut cnt = 0u64;
        'outer: loop {
            let frs: Vec<F> = idx.iter().map(|&i| atoms[i]).collect();
            let okpen = (0..frs.len()).all(|i| frs[i].2 == 0.0 || (i + 1 < frs.len() && frs[i + 1].0 >= frs[i].2) || i + 1 == frs.len());
            if okpen {
                for lwv in [vec![3.0], vec![5.0], vec![2.0, 4.0], vec![6.0, 3.0], vec![0.0]] {
                    for pen in [DEFAULT_PEN, [0, 0, 0, 0, 0], [1, 2, 3, 1, 1]] {
                        run(ctx, &frs, &lwv, pen);
                        cnt += 1;
                    }
                }
            }
            let mut k = idx.len();
            loop {
                if k == 0 {
                    if idx.len() == maxl { break 'outer; }
                    idx = vec![0; idx.len() + 1];
                    break;
                }
                k -= 1;
                if idx[k] + 1 < atoms.len() {
                    idx[k] += 1;
                    for j in k + 1..idx.len() { idx[j] = 0; }
                    break;
                }
            }
        }
        ctx.count_n("exhaustive_instances", cnt);
        for _ in 0..ctx.n(30000, 800_000) {
            let big = ctx.rng.chance(1, 5);
            let maxn = if ctx.rng.chance(1, 6) { 60 } else { 12 };
            let frs = c03_frags(&mut ctx.rng, big, maxn);
            let total: f64 = frs.iter().map(|f| f.0 + f.1).sum();
            let base = if big { (total / 3.0).floor().max(1.0) } else { ctx.rng.below(14) as f64 };
            let lwv = match ctx.rng.below(3) {
                0 => vec![base],
                1 => vec![base, (base / 2.0).floor()],
                _ => vec![(base / 2.0).floor(), base],
            };
            let pen = gen::penalties(&mut ctx.rng);
            ctx.count(if big { "large_integers" } else { "small_integers" });
            ctx.count(&format!("line_widths_{}", lwv.len()));
            run(ctx, &frs, &lwv, pen);
        }
        // line-width lists of three to five entries over two distinct widths ("at most two distinct
        // line widths" does not say "at most two entries"): the width of line k is entry k, the
        // last entry from there on — code that keeps "the first" and "the rest" apart by position
        // 0 / 1 differs only here. The Lean theorems cover lists of one or two entries; on longer
        // lists the property predicate and the bit-for-bit comparison of the costs decide.
        for _ in 0..ctx.n(12000, 300_000) {
            let frs = c03_frags(&mut ctx.rng, false, 9);
            let a = (3 + ctx.rng.below(30)) as f64;
            let b = (3 + ctx.rng.below(30)) as f64;
            let n = 3 + ctx.rng.below(3);
            let lwv: Vec<f64> = (0..n).map(|_| if ctx.rng.chance(1, 2) { a } else { b }).collect();
            let pen = gen::penalties(&mut ctx.rng);
            ctx.count("line_widths_3_to_5_entries_two_values");
            run(ctx, &frs, &lwv, pen);
        }
        // boundary of the short-last-line test `line_width < target / fraction`: the last line is one
        // fragment of width L and the line width is L*fraction (-1, +0, +1), for every fraction up to
        // 128 — the exact-fit construction of this comparison (an algebraically equal but
        // differently rounded formulation differs only here)
        for _ in 0..ctx.n(6000, 120_000) {
            let f = 1 + ctx.rng.below(128);
            let l = 1 + ctx.rng.below(12);
            let t = (l * f + ctx.rng.below(3)).saturating_sub(1);
            // either small fragments in front, or one wide fragment that forces the last one onto a
            // line of its own (then the short-line penalty decides between two lines and one
            // overflowing line)
            let mut frs = if ctx.rng.chance(1, 2) {
                c03_frags(&mut ctx.rng, false, 5)
            } else {
                vec![F(t.saturating_sub(ctx.rng.below(4)) as f64, 1.0, 0.0)]
            };
            for x in frs.iter_mut() { x.2 = 0.0; }
            frs.push(F(l as f64, [0.0, 1.0][ctx.rng.below(2)], 0.0));
            let lwv = if ctx.rng.chance(1, 3) { vec![(t + 3) as f64, t as f64] } else { vec![t as f64] };
            let pen = [ctx.rng.below(30), ctx.rng.below(60), f, 1 + ctx.rng.below(40), ctx.rng.below(30)];
            ctx.count("short_last_line_boundary");
            run(ctx, &frs, &lwv, pen);
        }
        // wrap level: every paragraph's arrangement is a minimum-cost arrangement of its fragments
        for _ in 0..ctx.n(15000, 300_000) {
            let fl = *ctx.rng.pick(&[Flavor::Plain, Flavor::Wide, Flavor::AnsiOk]);
            let t = gen::text(&mut ctx.rng, fl, 2, 9);
            let w = ctx.rng.below(16);
            let mut o = gen::options(&mut ctx.rng, w);
            o.alg = 'o';
            if o.crlf { o.crlf = false; }
            let (op, lines) = op_wrap(&t, &o);
            ctx.case(op, format!("wrap({}, {})", show(&t), o.show()));
            textwrap::verif_hooks::minima_log_start();
            let _ = quiet(|| textwrap::wrap(&t, o.to_options()).len());
            let recs = textwrap::verif_hooks::minima_log_take();
            let pi = [o.pen[0] as I, o.pen[1] as I, o.pen[2] as I, o.pen[3] as I, o.pen[4] as I];
            let mut total_lines = 0usize;
            for r in &recs {
                let fi: Vec<(I, I, I)> = r.fragments.iter().map(|f| (f.0 as I, f.1 as I, f.2 as I)).collect();
                let li: Vec<I> = r.line_widths.iter().map(|x| *x as I).collect();
                // back-track the recorded rows
                let mut lens = Vec::new();
                let mut pos = fi.len();
                let mut guard = 0;
                loop {
                    let prev = r.minima[pos].0;
                    lens.push(pos - prev.min(pos));
                    pos = prev;
                    guard += 1;
                    if pos == 0 || guard > fi.len() + 1 { break; }
                }
                lens.reverse();
                total_lines += lens.len();
                let c = arrangement_cost(&fi, &li, pi, &lens);
                let m = min_cost(&fi, &li, pi);
                if c != m {
                    ctx.fail("wrap with optimal-fit gives each paragraph a minimum-cost arrangement", format!("wrap({}, {}): paragraph fragments {:?}, line widths {:?}: cost {} vs minimum {}", show(&t), o.show(), r.fragments, r.line_widths, c, m), None);
                } else {
                    ctx.oracle_ok();
                }
            }
            // the same statement from the documented pipeline, not from what the crate handed to
            // its own algorithm: fragments = (empty sentinel if break_words and a non-empty
            // initial indent) ++ break_words(split_words(find_words(paragraph))); the returned
            // lines, read as groups of these fragments, must have minimum cost
            if let (Some(ls), false) = (&lines, t.contains('\n')) {
                if !(t.len() < o.width && o.ii.is_empty()) {
                    let frs = quiet(|| {
                        let sp = crate::opt::splitter_of(o.splitter);
                        let sub_w = o.width.saturating_sub(textwrap::core::display_width(&o.si));
                        let words: Vec<_> = crate::opt::sep_of(o.sep).find_words(&t).collect();
                        let split: Vec<_> = textwrap::word_splitters::split_words(words, &sp).collect();
                        let mut v: Vec<(String, usize, String, usize)> = Vec::new();
                        if o.bw && !o.ii.is_empty() {
                            v.push((String::new(), 0, String::new(), 0));
                        }
                        let frs = if o.bw { textwrap::core::break_words(split, sub_w) } else { split };
                        for f in frs {
                            v.push((f.word.to_string(), f.whitespace.len(), f.penalty.to_string(), textwrap::core::display_width(f.word)));
                        }
                        v
                    });
                    if let Some(frs) = frs {
                        // read the lines as groups of fragments
                        let mut lens: Vec<usize> = Vec::new();
                        let mut i = 0usize;
                        let mut ok = true;
                        for (k, l) in ls.iter().enumerate() {
                            let indent: &str = if k == 0 { &o.ii } else { &o.si };
                            let Some(content) = l.s.strip_prefix(indent) else { ok = false; break };
                            let mut acc = String::new();
                            let mut j = i;
                            let mut found = None;
                            while j < frs.len() {
                                let cand = format!("{}{}{}", acc, frs[j].0, frs[j].2);
                                if cand == content {
                                    found = Some(j);
                                    break;
                                }
                                acc.push_str(&frs[j].0);
                                acc.push_str(&" ".repeat(frs[j].1));
                                j += 1;
                            }
                            match found {
                                Some(j) => { lens.push(j + 1 - i); i = j + 1; }
                                None => { ok = false; break; }
                            }
                        }
                        if ok && i == frs.len() && !frs.is_empty() {
                            let fi: Vec<(I, I, I)> = frs.iter().map(|f| (f.3 as I, f.1 as I, f.2.len() as I)).collect();
                            let a = o.width.saturating_sub(textwrap::core::display_width(&o.ii)) as I;
                            let b = o.width.saturating_sub(textwrap::core::display_width(&o.si)) as I;
                            let li = vec![a, b];
                            let c = arrangement_cost(&fi, &li, pi, &lens);
                            let m = min_cost(&fi, &li, pi);
                            ctx.count("text_level_cost_checked");
                            if c != m {
                                ctx.fail("wrap with optimal-fit gives each paragraph a minimum-cost arrangement", format!("wrap({}, {}) = {:?}: cost {} over the documented fragments, minimum is {}", show(&t), o.show(), ls.iter().map(|l| l.s.clone()).collect::<Vec<_>>(), c, m), None);
                            } else {
                                ctx.oracle_ok();
                            }
                        }
                    }
                }
            }
            if let Some(ls) = &lines {
                let slow_paras = recs.len();
                let fast_paras = t.split('\n').count() - slow_paras;
                if ls.len() != total_lines + fast_paras {
                    ctx.fail("output lines = the recorded arrangements", format!("wrap({}, {}): {} lines, arrangements give {}", show(&t), o.show(), ls.len(), total_lines + fast_paras), None);
                }
                if ls.len() > t.split('\n').count() {
                    ctx.nontrivial(&(t.clone(), o.enc()));
                }
            }
        }
    }
    #[cfg(not(feature = "full"))]
    {
        let _ = (ctx, DEFAULT_PEN);
    }
}

// ---------------------------------------------------------------------------------------------
// C04
// ---------------------------------------------------------------------------------------------

const EXTREME_WIDTHS: &[usize] = &[0, 1, 2, 5, usize::MAX - 1, usize::MAX];

fn c04_text(rng: &mut Rng) -> String {
    let fl = *rng.pick(&[Flavor::AnsiBad, Flavor::AnsiBad, Flavor::Mixed, Flavor::Wide]);
    let mut t = gen::text(rng, fl, 3, 8);
    if rng.chance(1, 4) {
        t.push_str(*rng.pick(&["\x1b", "\x1b[", "\x1b]", "\r", "\u{1b}!Ͽ", "\x1b]8;;", "\u{ad}", "-"]));
    }
    t
}

/// giant inputs, on a thread with the default 2 MiB stack: recursion depth and quadratic blow-ups
/// show only here. The case is announced first (`ctx.risky`), because a stack overflow kills the
/// process and cannot be caught.
fn giant_cases(ctx: &mut Ctx) {
    let sizes: &[usize] = if ctx.thorough { &[10_001, 40_000, 120_000, 300_000] } else { &[40_000, 120_000] };
    for &n in sizes {
        let words = "a ".repeat(n);
        let lines = "ab\n".repeat(n);
        let indented = "    x\n".repeat(n);
        let jobs: Vec<(String, Box<dyn FnOnce() -> usize + Send>)> = vec![
            (format!("wrap(\"a \" x {}, 1) with the crate's default options", n), { let t = words.clone(); Box::new(move || textwrap::wrap(&t, 1).len()) }),
            (format!("fill(\"a \" x {}, 3)", n), { let t = words.clone(); Box::new(move || textwrap::fill(&t, 3).len()) }),
            (format!("wrap(\"a \" x {}, 1, FirstFit)", n), { let t = words.clone(); Box::new(move || textwrap::wrap(&t, textwrap::Options::new(1).wrap_algorithm(textwrap::WrapAlgorithm::FirstFit)).len()) }),
            (format!("wrap(\"ab\\n\" x {}, 5)", n), { let t = lines.clone(); Box::new(move || textwrap::wrap(&t, 5).len()) }),
            (format!("refill(\"ab\\n\" x {}, 7)", n), { let t = lines.clone(); Box::new(move || textwrap::refill(&t, 7).len()) }),
            (format!("unfill(\"ab\\n\" x {})", n), { let t = lines.clone(); Box::new(move || textwrap::unfill(&t).0.len()) }),
            (format!("dedent(\"    x\\n\" x {})", n), { let t = indented.clone(); Box::new(move || textwrap::dedent(&t).len()) }),
            (format!("indent(\"ab\\n\" x {}, \"> \")", n), { let t = lines.clone(); Box::new(move || textwrap::indent(&t, "> ").len()) }),
            (format!("fill_inplace(\"a \" x {}, 3)", n), { let t = words.clone(); Box::new(move || { let mut s = t; textwrap::fill_inplace(&mut s, 3); s.len() }) }),
            (format!("wrap_columns(\"a \" x {}, 3, 30)", n.min(40_000)), { let t = "a ".repeat(n.min(40_000)); Box::new(move || textwrap::wrap_columns(&t, 3, 30, "", " ", "").len()) }),
            (format!("display_width(\"\\x1b[1mé\" x {})", n), { let t = "\x1b[1mé".repeat(n); Box::new(move || textwrap::core::display_width(&t)) }),
        ];
        for (desc, job) in jobs {
            ctx.risky(&desc);
            // on the same thread, right after the giant call: the purity canaries (canary.rs)
            let base = ctx.canary_base.clone();
            let h = std::thread::Builder::new().spawn(move || {
                let ok = std::panic::catch_unwind(std::panic::AssertUnwindSafe(job)).is_ok();
                (ok, crate::canary::differs(&base))
            });
            let (ok, diff) = h.map(|h| h.join().unwrap_or((false, None))).unwrap_or((false, None));
            ctx.risky_done();
            ctx.count("giant_input_cases");
            if !ok {
                ctx.fail("returns normally (no panic)", format!("{} panicked", desc), None);
            } else {
                ctx.oracle_ok();
            }
            if let Some((call, now, fresh)) = diff {
                let short = |s: &str| if s.len() > 400 { format!("{}…", s.chars().take(400).collect::<String>()) } else { s.to_string() };
                ctx.fail(
                    "a call returns what the same call returns on a fresh thread (no state is carried from one call to the next)",
                    format!("on one thread, after {}: {} = {}, but {} on a fresh thread", desc, call, short(&now), short(&fresh)),
                    None,
                );
            }
        }
    }
}

pub fn c04(ctx: &mut Ctx) {
    giant_cases(ctx);
    let mut check = |ctx: &mut Ctx, what: String, panicked: bool| {
        if panicked {
            ctx.fail("returns normally (no panic)", format!("{} panicked", what), None);
        } else {
            ctx.oracle_ok();
        }
    };
    let start = std::time::Instant::now();
    for i in 0..ctx.n(30000, 600_000) {
        let t = if i % 8 == 3 || i % 8 == 4 { if ctx.rng.chance(1, 2) { gen::comment_block(&mut ctx.rng) } else { c04_text(&mut ctx.rng) } } else { c04_text(&mut ctx.rng) };
        let w = if ctx.rng.chance(2, 3) { *ctx.rng.pick(EXTREME_WIDTHS) } else { ctx.rng.below(10) };
        let mut o = gen::options(&mut ctx.rng, w);
        if ctx.rng.chance(1, 3) {
            o.pen = [ctx.rng.next() as usize, ctx.rng.next() as usize, ctx.rng.next() as usize % 8, ctx.rng.next() as usize, ctx.rng.next() as usize];
        }
        ctx.nontrivial(&(t.clone(), o.enc(), o.ii.clone(), o.si.clone()));
        ctx.count(&format!("width_class_{}", if w > 1000 { "huge" } else { "small" }));
        match i % 8 {
            0 => { let (op, r) = op_wrap(&t, &o); ctx.case(op, format!("wrap({}, {})", show(&t), o.show())); check(ctx, format!("wrap({}, {})", show(&t), o.show()), r.is_none()); }
            1 => { let (op, r) = op_fill(&t, &o); ctx.case(op, format!("fill({}, {})", show(&t), o.show())); check(ctx, format!("fill({}, {})", show(&t), o.show()), r.is_none()); }
            2 => { let (op, r) = op_fillinplace(&t, w); ctx.case(op, format!("fill_inplace({}, {})", show(&t), w)); check(ctx, format!("fill_inplace({}, {})", show(&t), w), r.is_none()); }
            3 => {
                let (op, r) = op_unfill(&t); ctx.case(op, format!("unfill({})", show(&t))); check(ctx, format!("unfill({})", show(&t)), r.is_none());
                let (op, r) = op_nel(&t); ctx.case(op, format!("NonEmptyLines({})", show(&t))); check(ctx, format!("NonEmptyLines({})", show(&t)), r.is_none());
            }
            4 => { let (op, r) = op_refill(&t, &o); ctx.case(op, format!("refill({}, {})", show(&t), o.show())); check(ctx, format!("refill({}, {})", show(&t), o.show()), r.is_none()); }
            5 => {
                let p = *ctx.rng.pick(&["", " ", "\t>", "\u{a0}", "\n"]);
                let r = quiet(|| op_indent(&t, p)); check(ctx, format!("indent({}, {:?})", show(&t), p), r.is_none());
                if let Some((op, _)) = r { ctx.case(op, format!("indent({}, {:?})", show(&t), p)); }
                let r = quiet(|| op_dedent(&t)); check(ctx, format!("dedent({})", show(&t)), r.is_none());
                if let Some((op, _)) = r { ctx.case(op, format!("dedent({})", show(&t))); }
                // indented blocks with blanks that share UTF-8 lead bytes (byte-wise margins slice
                // inside a character)
                let mt = crate::props_a::margin_text(&mut ctx.rng);
                let r = quiet(|| op_dedent(&mt)); check(ctx, format!("dedent({})", show(&mt)), r.is_none());
                if let Some((op, _)) = r { ctx.case(op, format!("dedent({})", show(&mt))); }
                let r = quiet(|| op_dw(&t)); check(ctx, format!("display_width({})", show(&t)), r.is_none());
                if let Some(op) = r { ctx.case(op, format!("display_width({})", show(&t))); }
            }
            6 => {
                let cols = 1 + ctx.rng.below(4);
                let mut oc = o.clone();
                oc.width = if w > 1000 { ctx.rng.below(40) } else { w };
                let g = *ctx.rng.pick(&["", " ", "│", "\x1b", "\u{301}"]);
                let (op, r) = op_columns(&t, &oc, cols, g, g, g);
                let d = format!("wrap_columns({}, {}, {}, {:?})", show(&t), cols, oc.show(), g);
                ctx.case(op, d.clone());
                check(ctx, d, r.is_none());
            }
            _ => {
                let line = t.replace('\n', " ");
                for sep in if cfg!(feature = "full") { vec!['a', 'u'] } else { vec!['a'] } {
                    let (op, ws) = op_words(sep, &line);
                    ctx.case(op, format!("find_words[{}]({})", sep, show(&line)));
                    check(ctx, format!("find_words[{}]({})", sep, show(&line)), ws.is_none());
                    if let Some(ws) = ws {
                        let (op, r) = op_split("h", &ws);
                        ctx.case(op, format!("split_words[h]({:?})", ws));
                        check(ctx, format!("split_words[h] of find_words({})", show(&line)), r.is_none());
                        let lim = if ctx.rng.chance(1, 2) { ctx.rng.below(4) } else { *ctx.rng.pick(EXTREME_WIDTHS) };
                        let (op, r) = op_breakwords(lim, &ws);
                        ctx.case(op, format!("break_words({:?}, {})", ws, lim));
                        check(ctx, format!("break_words(find_words({}), {})", show(&line), lim), r.is_none());
                        for wd in ws.iter().take(3) {
                            let (op, r) = op_breakapart(lim, wd);
                            ctx.case(op, format!("break_apart({:?}, {})", wd, lim));
                            check(ctx, format!("break_apart({:?}, {})", wd, lim), r.is_none());
                        }
                    }
                }
            }
        }
    }
    // both algorithms on arbitrary numbers: usize-valued (no OverflowError allowed), then any
    // finite or non-finite doubles (no panic)
    for _ in 0..ctx.n(20000, 400_000) {
        let usize_valued = ctx.rng.chance(1, 2);
        let n = ctx.rng.below(9);
        let mut num = |rng: &mut Rng| -> f64 {
            if usize_valued {
                match rng.below(4) { 0 => rng.below(10) as f64, 1 => (rng.next() >> rng.below(64)) as f64, 2 => usize::MAX as f64, _ => rng.below(1 << 20) as f64 }
            } else {
                match rng.below(6) { 0 => f64::INFINITY, 1 => f64::NAN, 2 => f64::NEG_INFINITY, 3 => f64::from_bits(rng.next()), 4 => 1e300, _ => rng.below(10) as f64 }
            }
        };
        let frs: Vec<F> = (0..n).map(|_| F(num(&mut ctx.rng), num(&mut ctx.rng), if ctx.rng.chance(1, 3) { num(&mut ctx.rng) } else { 0.0 })).collect();
        let lwv: Vec<f64> = (0..ctx.rng.below(3)).map(|_| num(&mut ctx.rng)).collect();
        let d = format!("({:?}, {:?})", frs_tuple(&frs), lwv);
        let (op, r) = op_ff(&frs, &lwv);
        ctx.case(op, format!("wrap_first_fit{}", d));
        check(ctx, format!("wrap_first_fit{}", d), r.is_none());
        #[cfg(feature = "full")]
        {
            let pen = if usize_valued && ctx.rng.chance(1, 2) { [ctx.rng.next() as usize, ctx.rng.next() as usize, ctx.rng.next() as usize % 8, ctx.rng.next() as usize, ctx.rng.next() as usize] } else { gen::penalties(&mut ctx.rng) };
            let (req, out, _, costs) = op_of(&frs, &lwv, pen);
            let dd = format!("wrap_optimal_fit({:?}, {:?}, {:?})", frs_tuple(&frs), lwv, pen);
            match out {
                OfOut::Panic => ctx.fail("returns normally (no panic)", format!("{} panicked", dd), None),
                OfOut::Overflow => {
                    if usize_valued {
                        ctx.fail("no OverflowError when all widths and penalties are usize-valued", dd.clone(), None);
                    } else {
                        ctx.count("overflow_error_on_non_usize_input");
                        ctx.oracle_ok();
                    }
                    ctx.case(Op { req: format!("{}|shapeonly|costs|{}", req, costs), real: "overflow;smawk=1;costs=1".into() }, dd);
                }
                OfOut::Ok(lens) => {
                    ctx.oracle_ok();
                    ctx.case(Op { req: format!("{}|shapeonly|costs|{}", req, costs), real: format!("ok:{};smawk=1;costs=1", crate::proto::enc_nats(&lens)) }, dd);
                }
            }
        }
        ctx.count(if usize_valued { "algo_usize_valued" } else { "algo_any_double" });
    }
    ctx.count_n("wall_ms", start.elapsed().as_millis() as u64);
    let _ = Opt::new(0);
}

//! Options as the harness generates them, convertible to `textwrap::Options` and to the
//! protocol tuple `width,bw,sep,splitter,alg,nline,overflow,frac,shortpen,hyphen,ending`.
use textwrap::{LineEnding, Options, WordSeparator, WordSplitter, WrapAlgorithm};

#[derive(Clone, Debug, PartialEq)]
pub struct Opt {
    pub width: usize,
    pub bw: bool,
    pub sep: char,               // 'a' ascii, 'u' unicode
    pub splitter: &'static str,  // n, h, c1..c4
    pub alg: char,               // 'f' first-fit, 'o' optimal-fit
    pub pen: [usize; 5],         // nline, overflow, frac, shortpen, hyphen
    pub crlf: bool,
    pub ii: String,
    pub si: String,
}

pub const DEFAULT_PEN: [usize; 5] = [1000, 2500, 4, 25, 25];

fn c1(word: &str) -> Vec<usize> {
    word.char_indices().skip(1).map(|(i, _)| i).collect()
}
fn c2(word: &str) -> Vec<usize> {
    vec![word.len() / 2]
}
fn c3(word: &str) -> Vec<usize> {
    vec![word.len()]
}
fn c4(_word: &str) -> Vec<usize> {
    vec![2, 1]
}

// custom wrap algorithms (plain `fn` items, as `WrapAlgorithm::Custom` requires); the model has no
// counterpart: cases using them are decided by the property predicates alone
fn alg_one_per_line<'a, 'b>(words: &'b [textwrap::core::Word<'a>], _: &'b [usize]) -> Vec<&'b [textwrap::core::Word<'a>]> {
    if words.is_empty() { vec![words] } else { words.chunks(1).collect() }
}
fn alg_blank_then_first_fit<'a, 'b>(words: &'b [textwrap::core::Word<'a>], lw: &'b [usize]) -> Vec<&'b [textwrap::core::Word<'a>]> {
    let f: Vec<f64> = lw.iter().map(|w| *w as f64).collect();
    let mut v = vec![&words[0..0]];
    v.extend(textwrap::wrap_algorithms::wrap_first_fit(words, &f));
    v
}
fn alg_all_on_one<'a, 'b>(words: &'b [textwrap::core::Word<'a>], _: &'b [usize]) -> Vec<&'b [textwrap::core::Word<'a>]> {
    vec![words]
}
fn alg_two_per_line<'a, 'b>(words: &'b [textwrap::core::Word<'a>], _: &'b [usize]) -> Vec<&'b [textwrap::core::Word<'a>]> {
    if words.is_empty() { vec![words] } else { words.chunks(2).collect() }
}

fn alg_no_line_for_no_words<'a, 'b>(words: &'b [textwrap::core::Word<'a>], _: &'b [usize]) -> Vec<&'b [textwrap::core::Word<'a>]> {
    words.chunks(1).collect() // no line at all for an empty paragraph
}

pub const CUSTOM_ALGS: &[char] = &['A', 'B', 'C', 'D', 'E'];

fn c5(word: &str) -> Vec<usize> {
    // directly after every '-', each point twice (what merging two point lists without
    // de-duplication gives)
    word.char_indices().filter(|(_, c)| *c == '-').flat_map(|(i, _)| [i + 1, i + 1]).collect()
}

pub fn splitter_of(name: &str) -> WordSplitter {
    match name {
        "n" => WordSplitter::NoHyphenation,
        "h" => WordSplitter::HyphenSplitter,
        "c1" => WordSplitter::Custom(c1),
        "c2" => WordSplitter::Custom(c2),
        "c3" => WordSplitter::Custom(c3),
        "c4" => WordSplitter::Custom(c4),
        "c5" => WordSplitter::Custom(c5),
        _ => panic!("splitter {}", name),
    }
}

/// a custom word separator: words end after ',' or ';' (lossless; no model counterpart)
fn sep_after_punct(line: &str) -> Box<dyn Iterator<Item = textwrap::core::Word<'_>> + '_> {
    let mut out = Vec::new();
    let mut start = 0;
    for (i, c) in line.char_indices() {
        if c == ',' || c == ';' {
            out.push(textwrap::core::Word::from(&line[start..i + 1]));
            start = i + 1;
        }
    }
    if start < line.len() {
        out.push(textwrap::core::Word::from(&line[start..]));
    }
    Box::new(out.into_iter())
}

pub fn sep_of(c: char) -> WordSeparator {
    match c {
        'x' => WordSeparator::Custom(sep_after_punct),
        #[cfg(feature = "full")]
        'u' => WordSeparator::UnicodeBreakProperties,
        _ => WordSeparator::AsciiSpace,
    }
}

impl Opt {
    pub fn new(width: usize) -> Opt {
        Opt { width, bw: true, sep: 'a', splitter: "n", alg: 'f', pen: DEFAULT_PEN, crlf: false, ii: String::new(), si: String::new() }
    }

    /// the crate's own defaults (`Options::new`) for the active feature set
    pub fn crate_default(width: usize) -> Opt {
        let mut o = Opt::new(width);
        o.splitter = "h";
        if cfg!(feature = "full") {
            o.sep = 'u';
            o.alg = 'o';
        }
        o
    }

    pub fn to_options(&self) -> Options<'_> {
        // the width goes in through `Options::new` or through the `width` builder
        let mut o = if self.width % 2 == 0 { Options::new(self.width) } else { Options::new(self.width / 2).width(self.width) };
        o = o
            .break_words(self.bw)
            .word_separator(sep_of(self.sep))
            .word_splitter(splitter_of(self.splitter))
            .line_ending(if self.crlf { LineEnding::CRLF } else { LineEnding::LF })
            .initial_indent(&self.ii)
            .subsequent_indent(&self.si);
        o = match self.alg {
            #[cfg(feature = "full")]
            'o' => o.wrap_algorithm(WrapAlgorithm::OptimalFit(textwrap::wrap_algorithms::Penalties {
                nline_penalty: self.pen[0],
                overflow_penalty: self.pen[1],
                short_last_line_fraction: self.pen[2],
                short_last_line_penalty: self.pen[3],
                hyphen_penalty: self.pen[4],
            })),
            'A' => o.wrap_algorithm(WrapAlgorithm::Custom(alg_one_per_line)),
            'B' => o.wrap_algorithm(WrapAlgorithm::Custom(alg_blank_then_first_fit)),
            'C' => o.wrap_algorithm(WrapAlgorithm::Custom(alg_all_on_one)),
            'D' => o.wrap_algorithm(WrapAlgorithm::Custom(alg_two_per_line)),
            'E' => o.wrap_algorithm(WrapAlgorithm::Custom(alg_no_line_for_no_words)),
            _ => o.wrap_algorithm(WrapAlgorithm::FirstFit),
        };
        o
    }

    pub fn ending(&self) -> &'static str {
        if self.crlf { "\r\n" } else { "\n" }
    }

    pub fn enc(&self) -> String {
        format!(
            "{},{},{},{},{},{},{},{},{},{},{}",
            self.width,
            self.bw as u8,
            self.sep,
            self.splitter,
            self.alg,
            self.pen[0],
            self.pen[1],
            self.pen[2],
            self.pen[3],
            self.pen[4],
            if self.crlf { "crlf" } else { "lf" }
        )
    }

    pub fn show(&self) -> String {
        format!(
            "width={} break_words={} sep={} splitter={} alg={}{} ending={} initial_indent={:?} subsequent_indent={:?}",
            self.width,
            self.bw,
            match self.sep { 'u' => "UnicodeBreakProperties", 'x' => "Custom(after , or ;)", _ => "AsciiSpace" },
            match self.splitter { "n" => "NoHyphenation", "h" => "HyphenSplitter", x => x },
            match self.alg { 'o' => "OptimalFit", 'A' => "Custom(one word per line)", 'B' => "Custom(blank line, then first-fit)", 'C' => "Custom(all on one line)", 'D' => "Custom(two words per line)", 'E' => "Custom(one word per line, no line for no words)", _ => "FirstFit" },
            if self.alg == 'o' && self.pen != DEFAULT_PEN { format!("{:?}", self.pen) } else { String::new() },
            if self.crlf { "CRLF" } else { "LF" },
            self.ii,
            self.si
        )
    }
}

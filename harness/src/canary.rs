//! Purity oracle: the crate's functions are pure, so a call must return what the same call returns
//! on a fresh thread. A change that keeps state between calls (a thread-local cache, a scratch
//! buffer that one path forgets to clear, a memo table keyed too coarsely) is correct for every
//! single call and wrong only after a particular history. The canaries are a fixed list of small
//! calls covering every public entry point and every kind of user-supplied option; their answers
//! on fresh threads (one thread per call) are the baseline, and they are asked again on the
//! working thread right after every long or giant case, every few thousand ordinary cases and at
//! the end of a stream. A difference is a failing history: the calls made just before are
//! reported with it.
use std::panic::{catch_unwind, AssertUnwindSafe};
use textwrap::{Options, WordSeparator, WordSplitter, WrapAlgorithm};

fn never_split(_: &str) -> Vec<usize> {
    Vec::new()
}
fn every_char(line: &str) -> Box<dyn Iterator<Item = textwrap::core::Word<'_>> + '_> {
    Box::new(line.char_indices().map(move |(i, c)| textwrap::core::Word::from(&line[i..i + c.len_utf8()])))
}
fn one_line<'a, 'b>(words: &'b [textwrap::core::Word<'a>], _: &'b [usize]) -> Vec<&'b [textwrap::core::Word<'a>]> {
    vec![words]
}

const TEXT: &str = "To be, or not to be: that is the question. x-y a-b-c wrap_single_line foo bar well-known";
const COLOURED: &str = "\x1b[1;31mabc\x1b[0m \x1b]8;;http://x\x1b\\link\x1b]8;;\x1b\\ de\u{301} Ｈello 😂 字字";

type Job = (&'static str, fn() -> String);

fn jobs() -> Vec<Job> {
    let mut v: Vec<Job> = vec![
        ("wrap(TEXT, 10)", || format!("{:?}", textwrap::wrap(TEXT, 10))),
        ("wrap(TEXT, 10, first-fit, ASCII, indents)", || {
            format!("{:?}", textwrap::wrap(TEXT, Options::new(12).wrap_algorithm(WrapAlgorithm::FirstFit).word_separator(WordSeparator::AsciiSpace).initial_indent("* ").subsequent_indent("    ")))
        }),
        ("wrap(COLOURED, 6)", || format!("{:?}", textwrap::wrap(COLOURED, 6))),
        ("wrap(COLOURED, 6, coloured indent)", || format!("{:?}", textwrap::wrap(COLOURED, Options::new(9).initial_indent("\x1b[1m>\x1b[0m ").subsequent_indent("Ｈ")))),
        ("wrap(TEXT, 7, no break_words, NoHyphenation)", || format!("{:?}", textwrap::wrap(TEXT, Options::new(7).break_words(false).word_splitter(WordSplitter::NoHyphenation)))),
        ("wrap(TEXT, 9, Custom splitter that never splits)", || format!("{:?}", textwrap::wrap(TEXT, Options::new(9).word_splitter(WordSplitter::Custom(never_split))))),
        ("wrap(\"abc de\", 2, Custom separator: every char a word)", || format!("{:?}", textwrap::wrap("abc de", Options::new(2).word_separator(WordSeparator::Custom(every_char))))),
        ("wrap(TEXT, 10, Custom algorithm: one line)", || format!("{:?}", textwrap::wrap(TEXT, Options::new(10).wrap_algorithm(WrapAlgorithm::Custom(one_line))))),
        ("wrap(two paragraphs, 8, CRLF)", || format!("{:?}", textwrap::wrap("\r\nab cd ef\r\n\r\ngh ij kl mn", Options::new(8).line_ending(textwrap::LineEnding::CRLF).subsequent_indent("| ")))),
        ("fill(TEXT, 15)", || textwrap::fill(TEXT, 15)),
        ("fill(\"ab cd\", 80)", || textwrap::fill("ab cd", 80)),
        ("fill_inplace(TEXT, 12)", || {
            let mut s = TEXT.to_string();
            textwrap::fill_inplace(&mut s, 12);
            s
        }),
        ("unfill(list item)", || {
            let (t, o) = textwrap::unfill("* To be, or\n  not to be:\n  that is\n");
            format!("{:?} {} {:?} {:?} {:?}", t, o.width, o.initial_indent, o.subsequent_indent, o.line_ending)
        }),
        ("refill(list item, 30)", || textwrap::refill("* To be, or\n  not to be:\n  that is\n", 30)),
        ("indent(blank lines, \"# \")", || textwrap::indent("foo = 1\n\n  \nbar\n \u{b}\n", "# ")),
        ("indent(text, whitespace prefix)", || textwrap::indent("a\n\nb", "  ")),
        ("dedent(indented)", || textwrap::dedent("    a\n\n      b\n   \n    c\n")),
        ("dedent(whitespace only)", || textwrap::dedent("   \n\t\n")),
        ("dedent(indented) again", || textwrap::dedent("  x\n    y\n")),
        ("wrap_columns(TEXT, 3, 40)", || format!("{:?}", textwrap::wrap_columns(TEXT, 3, 40, "| ", " | ", " |"))),
        ("wrap_columns(\"\", 2, 20)", || format!("{:?}", textwrap::wrap_columns("", 2, 20, "| ", " | ", " |"))),
        ("display_width(COLOURED)", || textwrap::core::display_width(COLOURED).to_string()),
        ("display_width(BMP twins of astral characters)", || format!("{} {} {}", textwrap::core::display_width("퐀퐁"), textwrap::core::display_width("\u{f600}"), textwrap::core::display_width("ABC"))),
        ("break_words(COLOURED word, 2)", || {
            format!("{:?}", textwrap::core::break_words(vec![textwrap::core::Word::from("ab\x1b[1mcdＨ\x1b[0mef")], 2))
        }),
        ("split_words(hyphenated, HyphenSplitter)", || {
            format!("{:?}", textwrap::word_splitters::split_words(vec![textwrap::core::Word::from("a-b-c x-y ")], &WordSplitter::HyphenSplitter).collect::<Vec<_>>())
        }),
        ("find_words(ASCII, COLOURED)", || format!("{:?}", WordSeparator::AsciiSpace.find_words(COLOURED).collect::<Vec<_>>())),
        ("wrap_first_fit(words, [6, 3])", || {
            let w: Vec<_> = WordSeparator::AsciiSpace.find_words(TEXT).collect();
            format!("{:?}", textwrap::wrap_algorithms::wrap_first_fit(&w, &[6.0, 3.0]).iter().map(|l| l.len()).collect::<Vec<_>>())
        }),
    ];
    #[cfg(feature = "full")]
    {
        v.push(("find_words(Unicode, COLOURED)", || format!("{:?}", WordSeparator::UnicodeBreakProperties.find_words(COLOURED).collect::<Vec<_>>())));
        v.push(("find_words(Unicode, stripped COLOURED)", || format!("{:?}", WordSeparator::UnicodeBreakProperties.find_words("abc link de\u{301} Ｈello 😂 字字").collect::<Vec<_>>())));
        v.push(("wrap_optimal_fit(words, [10])", || {
            let w: Vec<_> = WordSeparator::AsciiSpace.find_words(TEXT).collect();
            format!("{:?}", textwrap::wrap_algorithms::wrap_optimal_fit(&w, &[10.0], &textwrap::wrap_algorithms::Penalties::new()).map(|ls| ls.iter().map(|l| l.len()).collect::<Vec<_>>()))
        }));
        v.push(("wrap_optimal_fit(overflowing widths) then (words, [7])", || {
            let w: Vec<_> = WordSeparator::AsciiSpace.find_words(TEXT).collect();
            let e = textwrap::wrap_algorithms::wrap_optimal_fit(&w, &[1e200], &textwrap::wrap_algorithms::Penalties::new()).is_err();
            format!("{} {:?}", e, textwrap::wrap_algorithms::wrap_optimal_fit(&w, &[7.0], &textwrap::wrap_algorithms::Penalties::new()).map(|ls| ls.iter().map(|l| l.len()).collect::<Vec<_>>()))
        }));
    }
    v
}

fn run(job: &Job) -> String {
    catch_unwind(AssertUnwindSafe(job.1)).unwrap_or_else(|_| "panic".to_string())
}

/// every canary on its own fresh thread
pub fn baseline() -> Vec<String> {
    jobs()
        .into_iter()
        .map(|j| std::thread::spawn(move || run(&j)).join().unwrap_or_else(|_| "panic".to_string()))
        .collect()
}

/// ask the canaries on the current thread (twice: state left by one canary shows in the second
/// round); returns the first that differs from the baseline as (call, now, fresh)
pub fn differs(baseline: &[String]) -> Option<(String, String, String)> {
    let js = jobs();
    for _round in 0..2 {
        for (j, b) in js.iter().zip(baseline.iter()) {
            let now = run(j);
            if &now != b {
                return Some((j.0.to_string(), now, b.clone()));
            }
        }
    }
    None
}

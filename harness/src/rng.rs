//! splitmix64: every random choice of a run derives from one seed.
#[derive(Clone)]
pub struct Rng(pub u64);

impl Rng {
    pub fn new(seed: u64) -> Self {
        Rng(seed ^ 0x9E37_79B9_7F4A_7C15)
    }
    pub fn next(&mut self) -> u64 {
        self.0 = self.0.wrapping_add(0x9E37_79B9_7F4A_7C15);
        let mut z = self.0;
        z = (z ^ (z >> 30)).wrapping_mul(0xBF58_476D_1CE4_E5B9);
        z = (z ^ (z >> 27)).wrapping_mul(0x94D0_49BB_1331_11EB);
        z ^ (z >> 31)
    }
    pub fn below(&mut self, n: usize) -> usize {
        if n == 0 { 0 } else { (self.next() % n as u64) as usize }
    }
    pub fn range(&mut self, lo: usize, hi: usize) -> usize {
        lo + self.below(hi - lo + 1)
    }
    pub fn chance(&mut self, num: usize, den: usize) -> bool {
        self.below(den) < num
    }
    pub fn pick<'a, T>(&mut self, xs: &'a [T]) -> &'a T {
        &xs[self.below(xs.len())]
    }
}

//! Independent helpers for the property predicates (implementation-vs-oracle checks).
use textwrap::core::display_width as dw;

/// Independent re-statement of the escape grammar: classify each char of `t` as
/// (visible, inside-sequence). `wellformed` = every ESC begins a terminated CSI/OSC sequence.
pub struct Scan {
    pub visible: Vec<bool>,   // per char
    pub in_seq: Vec<bool>,    // per char: part of an escape sequence (including its ESC)
    pub seq_start: Vec<bool>, // per char: the ESC that begins a sequence
    pub wellformed: bool,
    pub open_end: bool,       // the text ends inside a sequence (unterminated CSI/OSC, or a final ESC)
}

pub fn scan(t: &str) -> Scan {
    let cs: Vec<char> = t.chars().collect();
    let n = cs.len();
    let mut visible = vec![true; n];
    let mut in_seq = vec![false; n];
    let mut seq_start = vec![false; n];
    let mut wellformed = true;
    let mut open_end = false;
    let mut i = 0;
    while i < n {
        if cs[i] != '\x1b' {
            i += 1;
            continue;
        }
        let start = i;
        let mut end = n; // exclusive
        let mut ok = false;
        if i + 1 < n && cs[i + 1] == '[' {
            let mut j = i + 2;
            while j < n {
                if ('\x40'..='\x7e').contains(&cs[j]) {
                    ok = true;
                    end = j + 1;
                    break;
                }
                j += 1;
            }
        } else if i + 1 < n && cs[i + 1] == ']' {
            let mut j = i + 2;
            let mut last = ']';
            while j < n {
                if cs[j] == '\x07' || (cs[j] == '\\' && last == '\x1b') {
                    ok = true;
                    end = j + 1;
                    break;
                }
                last = cs[j];
                j += 1;
            }
        } else {
            // ESC + one arbitrary char (or end of text): swallowed, not a well-formed sequence
            end = (i + 2).min(n);
            if i + 1 >= n {
                open_end = true;
            }
        }
        if !ok {
            wellformed = false;
            if i + 1 < n && (cs[i + 1] == '[' || cs[i + 1] == ']') {
                open_end = true; // unterminated CSI / OSC runs to the end of the text
            }
        }
        seq_start[start] = true;
        for k in start..end {
            visible[k] = false;
            in_seq[k] = true;
        }
        i = end;
    }
    Scan { visible, in_seq, seq_start, wellformed, open_end }
}

pub fn wellformed(t: &str) -> bool {
    scan(t).wellformed
}

/// text with every escape sequence (as classified by `scan`) removed
pub fn visible_text(t: &str) -> String {
    let s = scan(t);
    t.chars().zip(s.visible.iter()).filter(|(_, v)| **v).map(|(c, _)| c).collect()
}

/// the hypothesis of the Lean theorems `*_safe` (`SeqSafe`), restated on the independent scanner:
/// every space (and every '-' when the hyphen splitter is active) lies outside escape sequences
/// (including the char swallowed by a bare ESC), and the text does not end inside a sequence
pub fn seq_safe(hy: bool, t: &str) -> bool {
    let s = scan(t);
    !s.open_end && t.chars().zip(s.in_seq.iter()).all(|(c, i)| !(*i && (c == ' ' || (hy && c == '-'))))
}

/// KF-1a class: a space inside an escape sequence
pub fn kf1a(t: &str) -> bool {
    let s = scan(t);
    t.chars().zip(s.in_seq.iter()).any(|(c, i)| c == ' ' && *i)
}

/// KF-1b class: alnum '-' alnum with the hyphen inside an escape sequence
pub fn kf1b(t: &str) -> bool {
    let s = scan(t);
    let cs: Vec<char> = t.chars().collect();
    (1..cs.len().saturating_sub(1)).any(|i| cs[i] == '-' && s.in_seq[i] && cs[i - 1].is_alphanumeric() && cs[i + 1].is_alphanumeric())
}

/// KF-2 class: ESC immediately followed by a space
pub fn kf2(t: &str) -> bool {
    t.contains("\x1b ")
}

/// KF-4 class: a line-width list whose width changes again after the second line (some entry
/// from the third on differs from the second) — not equivalent to a list of at most two entries
pub fn kf4(lws: &[f64]) -> bool {
    lws.len() >= 3 && lws[2..].iter().any(|w| *w != lws[1])
}

/// KF-3 class: some '\n'-terminated line, after removal of its "\r\n"/"\n", ends in '\r' and
/// contains a non-whitespace character
pub fn kf3(t: &str) -> bool {
    let mut rest = t;
    while let Some(p) = rest.find('\n') {
        let line = &rest[..p];
        let line = line.strip_suffix('\r').unwrap_or(line);
        if line.ends_with('\r') && line.chars().any(|c| !c.is_whitespace()) {
            return true;
        }
        rest = &rest[p + 1..];
    }
    false
}

pub fn lcp<'a>(a: &'a str, b: &str) -> &'a str {
    let mut n = 0;
    for ((i, x), y) in a.char_indices().zip(b.chars()) {
        if x != y {
            return &a[..i];
        }
        n = i + x.len_utf8();
    }
    &a[..n]
}

pub fn width(s: &str) -> usize {
    dw(s)
}

//! Operations: run the real crate (under `catch_unwind`) and build the driver request for the
//! same input. `real` strings use the reply encoding of lean/Driver.lean.
use crate::opt::{splitter_of, sep_of, Opt};
use crate::proto::*;
use std::borrow::Cow;
use std::panic::{catch_unwind, AssertUnwindSafe};
use textwrap::core::Word;

pub fn quiet<T>(f: impl FnOnce() -> T) -> Option<T> {
    catch_unwind(AssertUnwindSafe(f)).ok()
}

#[derive(Clone, Debug, PartialEq)]
pub struct LineOut {
    pub s: String,
    pub borrowed: bool,
    pub start: Option<usize>,
}

pub struct Op {
    pub req: String,
    pub real: String,
}

/// contract clause assumed of `unicode-linebreak` by the Lean theorems (`OppsNoSpace`): no break
/// opportunity directly before a space (UAX #14 rule LB7) — except directly after a mandatory
/// break character (LB4/LB5: CR, LF, VT, FF, NEL, LS, PS), where the clause does not apply and the
/// theorems' hypothesis is simply false for that line. Checked on every call; violations are
/// collected here and reported by `main`.
pub static LB7_CHECKED: std::sync::atomic::AtomicU64 = std::sync::atomic::AtomicU64::new(0);
pub static LB7_AFTER_HARD_BREAK: std::sync::atomic::AtomicU64 = std::sync::atomic::AtomicU64::new(0);
pub static LB7_VIOLATIONS: std::sync::Mutex<Vec<String>> = std::sync::Mutex::new(Vec::new());

#[cfg(feature = "full")]
pub fn opps_of_stripped(stripped: &str) -> Vec<usize> {
    let v: Vec<usize> = unicode_linebreak::linebreaks(stripped).map(|(i, _)| i).collect();
    LB7_CHECKED.fetch_add(1, std::sync::atomic::Ordering::Relaxed);
    // shape of the answer assumed by the theorems: strictly increasing, positive, char boundaries,
    // not beyond the end of the text
    let shape = v.windows(2).all(|x| x[0] < x[1]) && v.iter().all(|&o| o > 0 && o <= stripped.len() && stripped.is_char_boundary(o));
    if !shape {
        let mut g = LB7_VIOLATIONS.lock().unwrap();
        if g.len() < 20 {
            g.push(format!("linebreaks({:?}) = {:?} is not a strictly increasing list of positive char boundaries", stripped, v));
        }
    }
    for &o in &v {
        if stripped.get(o..).and_then(|r| r.chars().next()) == Some(' ') {
            let prev = stripped[..o].chars().next_back();
            if matches!(prev, Some('\n' | '\r' | '\u{b}' | '\u{c}' | '\u{85}' | '\u{2028}' | '\u{2029}')) {
                LB7_AFTER_HARD_BREAK.fetch_add(1, std::sync::atomic::Ordering::Relaxed);
                continue;
            }
            let mut g = LB7_VIOLATIONS.lock().unwrap();
            if g.len() < 20 {
                g.push(format!("linebreaks({:?}) has an opportunity at {} directly before a space", stripped, o));
            }
        }
    }
    v
}

/// `stripped=opps` entries for the paragraphs `find_words` will see (Unicode separator only)
pub fn opps_table<'a>(paras: impl Iterator<Item = &'a str>, o: &Opt) -> String {
    #[cfg(feature = "full")]
    {
        if o.sep != 'u' {
            return String::new();
        }
        let mut seen: Vec<String> = Vec::new();
        let mut out: Vec<String> = Vec::new();
        for p in paras {
            let stripped = textwrap::verif_hooks::strip_ansi(p);
            if seen.contains(&stripped) {
                continue;
            }
            out.push(format!("{}={}", enc_text(&stripped), enc_nats(&opps_of_stripped(&stripped))));
            seen.push(stripped);
        }
        return out.join(";");
    }
    #[cfg(not(feature = "full"))]
    {
        let _ = (paras.count(), o);
        String::new()
    }
}

#[cfg(feature = "full")]
pub type MinRec = textwrap::verif_hooks::MinimaRecord;

#[cfg(feature = "full")]
pub fn enc_min_table(recs: &[MinRec]) -> String {
    let mut out: Vec<String> = Vec::new();
    for r in recs {
        let rows: Vec<usize> = r.minima.iter().map(|m| m.0).collect();
        let e = format!("{}~{}~{}", enc_frags(&r.fragments), enc_f64s(&r.line_widths), enc_nats(&rows));
        if !out.contains(&e) {
            out.push(e);
        }
    }
    out.join(";")
}

/// run `f` with the minima recorder on; returns its result (None = panic) and the table
pub fn with_minima<T>(f: impl FnOnce() -> T) -> (Option<T>, String) {
    #[cfg(feature = "full")]
    {
        textwrap::verif_hooks::minima_log_start();
        let r = quiet(f);
        let recs = textwrap::verif_hooks::minima_log_take();
        (r, enc_min_table(&recs))
    }
    #[cfg(not(feature = "full"))]
    {
        (quiet(f), String::new())
    }
}

pub fn cow_lines(text: &str, ls: &[Cow<'_, str>]) -> Vec<LineOut> {
    let base = text.as_ptr() as usize;
    ls.iter()
        .map(|l| match l {
            Cow::Borrowed(s) => {
                let p = s.as_ptr() as usize;
                // empty slices carry no position (a static "" may sit anywhere)
                let inside = !s.is_empty() && p >= base && p + s.len() <= base + text.len();
                LineOut { s: s.to_string(), borrowed: true, start: if inside { Some(p - base) } else { None } }
            }
            Cow::Owned(s) => LineOut { s: s.clone(), borrowed: false, start: None },
        })
        .collect()
}

pub fn enc_lineouts(ls: &Option<Vec<LineOut>>) -> String {
    match ls {
        None => "panic".to_string(),
        Some(ls) => ls
            .iter()
            .map(|l| format!("{}/{}/{}", enc_text(&l.s), l.borrowed as u8, l.start.map(|s| s.to_string()).unwrap_or("-".into())))
            .collect::<Vec<_>>()
            .join(","),
    }
}

pub fn op_dw(t: &str) -> Op {
    Op { req: format!("dw|{}", enc_text(t)), real: textwrap::core::display_width(t).to_string() }
}

pub fn op_seqsafe(hy: bool, t: &str) -> Op {
    Op { req: format!("seqsafe|{}|{}", hy as u8, enc_text(t)), real: (crate::oracle::seq_safe(hy, t) as u8).to_string() }
}

pub fn op_cw(c: char) -> Op {
    Op { req: format!("cw|{}", c as u32), real: textwrap::verif_hooks::ch_width(c).to_string() }
}

#[cfg(feature = "full")]
pub fn op_strip(t: &str) -> Op {
    Op { req: format!("strip|{}", enc_text(t)), real: enc_text(&textwrap::verif_hooks::strip_ansi(t)) }
}

pub fn real_words<'a>(sep: char, line: &'a str) -> Option<Vec<Word<'a>>> {
    quiet(|| sep_of(sep).find_words(line).collect::<Vec<_>>())
}

pub fn op_words(sep: char, line: &str) -> (Op, Option<Vec<Word<'_>>>) {
    let words = real_words(sep, line);
    #[cfg(feature = "full")]
    let opps = if sep == 'u' { enc_nats(&opps_of_stripped(&textwrap::verif_hooks::strip_ansi(line))) } else { String::new() };
    #[cfg(not(feature = "full"))]
    let opps = String::new();
    let real = match &words {
        Some(ws) => enc_words(ws),
        None => "panic".into(),
    };
    (Op { req: format!("words|{}|{}|{}", sep, enc_text(line), opps), real }, words)
}

pub fn real_split<'a>(sp: &'a textwrap::WordSplitter, words: &[Word<'a>]) -> Option<Vec<Word<'a>>> {
    let ws = words.to_vec();
    quiet(move || textwrap::word_splitters::split_words(ws, sp).collect::<Vec<_>>())
}

pub fn op_split(spname: &'static str, words: &[Word<'_>]) -> (Op, Option<Vec<String>>) {
    let sp = splitter_of(spname);
    let r = real_split(&sp, words);
    let real = match &r {
        Some(ws) => enc_words(ws),
        None => "panic".into(),
    };
    let strs = r.map(|ws| ws.iter().map(enc_word).collect());
    (Op { req: format!("split|{}|{}", spname, enc_words(words)), real }, strs)
}

pub fn op_points(spname: &'static str, w: &str) -> Op {
    let sp = splitter_of(spname);
    let r = quiet(|| sp.split_points(w));
    Op { req: format!("points|{}|{}", spname, enc_text(w)), real: r.map(|v| enc_nats(&v)).unwrap_or("panic".into()) }
}

pub fn op_breakapart<'a>(limit: usize, w: &Word<'a>) -> (Op, Option<Vec<Word<'a>>>) {
    let r = quiet(|| w.break_apart(limit).collect::<Vec<_>>());
    let real = r.as_ref().map(|v| enc_words(v)).unwrap_or("panic".into());
    (Op { req: format!("breakapart|{}|{}", limit, enc_word(w)), real }, r)
}

pub fn op_breakwords<'a>(limit: usize, ws: &[Word<'a>]) -> (Op, Option<Vec<Word<'a>>>) {
    let v = ws.to_vec();
    let r = quiet(move || textwrap::core::break_words(v, limit));
    let real = r.as_ref().map(|v| enc_words(v)).unwrap_or("panic".into());
    (Op { req: format!("breakwords|{}|{}", limit, enc_words(ws)), real }, r)
}

/// a numeric fragment for the algorithm-level operations
#[derive(Debug, Clone, Copy, PartialEq)]
pub struct F(pub f64, pub f64, pub f64);
impl textwrap::core::Fragment for F {
    fn width(&self) -> f64 { self.0 }
    fn whitespace_width(&self) -> f64 { self.1 }
    fn penalty_width(&self) -> f64 { self.2 }
}

pub fn frs_tuple(frs: &[F]) -> Vec<(f64, f64, f64)> {
    frs.iter().map(|f| (f.0, f.1, f.2)).collect()
}

pub fn op_ff(frs: &[F], lws: &[f64]) -> (Op, Option<Vec<usize>>) {
    let r = quiet(|| textwrap::wrap_algorithms::wrap_first_fit(frs, lws).iter().map(|l| l.len()).collect::<Vec<_>>());
    let real = r.as_ref().map(|v| enc_nats(v)).unwrap_or("panic".into());
    (Op { req: format!("ff|{}|{}", enc_frags(&frs_tuple(frs)), enc_f64s(lws)), real }, r)
}

#[cfg(feature = "full")]
pub enum OfOut {
    Ok(Vec<usize>),
    Overflow,
    Panic,
}

/// returns the request (with the recorded minima rows), the real result and the rows
#[cfg(feature = "full")]
pub fn op_of(frs: &[F], lws: &[f64], pen: [usize; 5]) -> (String, OfOut, Vec<usize>, String) {
    let p = textwrap::wrap_algorithms::Penalties { nline_penalty: pen[0], overflow_penalty: pen[1], short_last_line_fraction: pen[2], short_last_line_penalty: pen[3], hyphen_penalty: pen[4] };
    textwrap::verif_hooks::minima_log_start();
    let r = quiet(|| textwrap::wrap_algorithms::wrap_optimal_fit(frs, lws, &p).map(|ls| ls.iter().map(|l| l.len()).collect::<Vec<_>>()));
    let recs = textwrap::verif_hooks::minima_log_take();
    let rows: Vec<usize> = recs.first().map(|r| r.minima.iter().map(|m| m.0).collect()).unwrap_or_default();
    let out = match r {
        None => OfOut::Panic,
        Some(Err(_)) => OfOut::Overflow,
        Some(Ok(v)) => OfOut::Ok(v),
    };
    // the costs of the real run travel too (bit patterns): the model's closure must reproduce them
    let costs: Vec<f64> = recs.first().map(|r| r.minima.iter().map(|m| m.1).collect()).unwrap_or_default();
    (format!("of|{}|{}|{}|{}", enc_frags(&frs_tuple(frs)), enc_f64s(lws), enc_nats(&pen), enc_nats(&rows)), out, rows, enc_f64s(&costs))
}

/// `WrapAlgorithm::wrap` on hand-built words: `alg` = 'f' (first-fit) or 'o' (optimal-fit, `pen`)
pub fn op_walg(alg: char, pen: [usize; 5], words: &[Word<'_>], lws: &[usize]) -> (Op, Option<Vec<usize>>) {
    #[cfg(feature = "full")]
    let a = if alg == 'o' {
        textwrap::WrapAlgorithm::OptimalFit(textwrap::wrap_algorithms::Penalties { nline_penalty: pen[0], overflow_penalty: pen[1], short_last_line_fraction: pen[2], short_last_line_penalty: pen[3], hyphen_penalty: pen[4] })
    } else {
        textwrap::WrapAlgorithm::FirstFit
    };
    #[cfg(not(feature = "full"))]
    let a = textwrap::WrapAlgorithm::FirstFit;
    let (r, mins) = with_minima(|| a.wrap(words, lws).iter().map(|l| l.len()).collect::<Vec<usize>>());
    let real = r.as_ref().map(|v| enc_nats(v)).unwrap_or("panic".into());
    (Op { req: format!("walg|{}|{}|{}|{}|{}", alg, enc_nats(&pen), enc_words(words), enc_nats(lws), mins), real }, r)
}

fn tail(o: &Opt, text: &str, opps: String, mins: String) -> String {
    format!("{}|{}|{}|{}|{}|{}", o.enc(), enc_text(&o.ii), enc_text(&o.si), enc_text(text), opps, mins)
}

pub fn real_wrap(text: &str, o: &Opt) -> (Option<Vec<LineOut>>, String) {
    let (r, mins) = with_minima(|| {
        // every other call hands the options over by reference (`impl From<&Options> for Options`)
        let ls = if text.len() % 2 == 0 { textwrap::wrap(text, o.to_options()) } else { let oo = o.to_options(); textwrap::wrap(text, &oo) };
        cow_lines(text, &ls)
    });
    (r, mins)
}

pub fn op_wrap(text: &str, o: &Opt) -> (Op, Option<Vec<LineOut>>) {
    let (r, mins) = real_wrap(text, o);
    let opps = opps_table(text.split(o.ending()), o);
    (Op { req: format!("wrap|{}", tail(o, text, opps, mins)), real: enc_lineouts(&r) }, r)
}

/// `path`: "fast" = `fuzzing::wrap_single_line`, "slow" = `fuzzing::wrap_single_line_slow_path`
pub fn op_wrapline(path: &str, nprev: usize, line: &str, o: &Opt) -> (Op, Option<Vec<LineOut>>) {
    let (r, mins) = with_minima(|| {
        let opts = o.to_options();
        let mut lines: Vec<Cow<'_, str>> = (0..nprev).map(|_| Cow::from("x")).collect();
        if path == "slow" {
            textwrap::fuzzing::wrap_single_line_slow_path(line, &opts, &mut lines);
        } else {
            textwrap::fuzzing::wrap_single_line(line, &opts, &mut lines);
        }
        cow_lines(line, &lines[nprev..])
    });
    let opps = opps_table(std::iter::once(line), o);
    (Op { req: format!("wrapline|{}|{}|{}", path, nprev, tail(o, line, opps, mins)), real: enc_lineouts(&r) }, r)
}

pub fn op_fill(text: &str, o: &Opt) -> (Op, Option<String>) {
    let (r, mins) = with_minima(|| if text.len() % 2 == 0 { textwrap::fill(text, o.to_options()) } else { let oo = o.to_options(); textwrap::fill(text, &oo) });
    let opps = opps_table(text.split(o.ending()), o);
    let real = r.as_ref().map(|s| enc_text(s)).unwrap_or("panic".into());
    (Op { req: format!("fill|{}", tail(o, text, opps, mins)), real }, r)
}

pub fn op_fillslow(text: &str, o: &Opt) -> (Op, Option<String>) {
    let (r, mins) = with_minima(|| textwrap::fuzzing::fill_slow_path(text, o.to_options()));
    let opps = opps_table(text.split(o.ending()), o);
    let real = r.as_ref().map(|s| enc_text(s)).unwrap_or("panic".into());
    (Op { req: format!("fillslow|{}", tail(o, text, opps, mins)), real }, r)
}

pub fn op_fillinplace(text: &str, width: usize) -> (Op, Option<String>) {
    let r = quiet(|| {
        let mut s = text.to_string();
        textwrap::fill_inplace(&mut s, width);
        s
    });
    let real = r.as_ref().map(|s| enc_text(s)).unwrap_or("panic".into());
    (Op { req: format!("fillinplace|{}|{}", width, enc_text(text)), real }, r)
}

fn enc_ending(e: Option<textwrap::LineEnding>) -> &'static str {
    match e {
        Some(textwrap::LineEnding::LF) => "lf",
        Some(textwrap::LineEnding::CRLF) => "crlf",
        None => "-",
    }
}

pub fn op_nel(text: &str) -> (Op, Option<Vec<(String, Option<textwrap::LineEnding>)>>) {
    let r = quiet(|| textwrap::verif_hooks::non_empty_lines(text).into_iter().map(|(l, e)| (l.to_string(), e)).collect::<Vec<_>>());
    let real = r.as_ref().map(|v| v.iter().map(|(l, e)| format!("{}/{}", enc_text(l), enc_ending(*e))).collect::<Vec<_>>().join(",")).unwrap_or("panic".into());
    (Op { req: format!("nel|{}", enc_text(text)), real }, r)
}

#[derive(Clone, Debug, PartialEq)]
pub struct UnfillOut {
    pub text: String,
    pub width: usize,
    pub ii: String,
    pub si: String,
    pub crlf: bool,
}

pub fn real_unfill(text: &str) -> Option<UnfillOut> {
    quiet(|| {
        let (t, o) = textwrap::unfill(text);
        UnfillOut { text: t, width: o.width, ii: o.initial_indent.to_string(), si: o.subsequent_indent.to_string(), crlf: o.line_ending == textwrap::LineEnding::CRLF }
    })
}

pub fn op_unfill(text: &str) -> (Op, Option<UnfillOut>) {
    let r = real_unfill(text);
    let real = r.as_ref().map(|u| format!("{}/{}/{}/{}/{}", enc_text(&u.text), u.width, enc_text(&u.ii), enc_text(&u.si), if u.crlf { "crlf" } else { "lf" })).unwrap_or("panic".into());
    (Op { req: format!("unfill|{}", enc_text(text)), real }, r)
}

pub fn op_refill(text: &str, o: &Opt) -> (Op, Option<String>) {
    let (r, mins) = with_minima(|| if text.len() % 2 == 0 { textwrap::refill(text, o.to_options()) } else { let oo = o.to_options(); textwrap::refill(text, &oo) });
    // the text `fill` will see inside `refill`
    let opps = match real_unfill(text) {
        Some(u) => {
            let le = if u.crlf { "\r\n" } else { "\n" };
            let t = u.text.strip_suffix(le).unwrap_or(&u.text).to_string();
            opps_table(t.split(o.ending()), o)
        }
        None => String::new(),
    };
    let real = r.as_ref().map(|s| enc_text(s)).unwrap_or("panic".into());
    (Op { req: format!("refill|{}", tail(o, text, opps, mins)), real }, r)
}

pub fn op_indent(text: &str, prefix: &str) -> (Op, String) {
    let r = textwrap::indent(text, prefix);
    (Op { req: format!("indent|{}|{}", enc_text(text), enc_text(prefix)), real: enc_text(&r) }, r)
}

pub fn op_dedent(text: &str) -> (Op, String) {
    let r = textwrap::dedent(text);
    (Op { req: format!("dedent|{}", enc_text(text)), real: enc_text(&r) }, r)
}

pub fn op_columns(text: &str, o: &Opt, columns: usize, l: &str, m: &str, r: &str) -> (Op, Option<Vec<String>>) {
    let (res, mins) = with_minima(|| if text.len() % 2 == 0 { textwrap::wrap_columns(text, columns, o.to_options(), l, m, r) } else { let oo = o.to_options(); textwrap::wrap_columns(text, columns, &oo, l, m, r) });
    let opps = opps_table(text.split(o.ending()), o);
    let real = res.as_ref().map(|v| enc_lines(v)).unwrap_or("panic".into());
    (
        Op { req: format!("columns|{}|{}|{}|{}|{}|{}|{}|{}|{}|{}", o.enc(), enc_text(&o.ii), enc_text(&o.si), enc_text(text), columns, enc_text(l), enc_text(m), enc_text(r), opps, mins), real },
        res,
    )
}

pub fn op_std(name: &str, t: &str) -> Op {
    let real = match name {
        "std_lines" => enc_lines(&t.lines().collect::<Vec<_>>()),
        "std_splitlf" => enc_lines(&t.split('\n').collect::<Vec<_>>()),
        "std_splitcrlf" => enc_lines(&t.split("\r\n").collect::<Vec<_>>()),
        "std_splitterm" => enc_lines(&t.split_terminator('\n').collect::<Vec<_>>()),
        "std_trimendsp" => enc_text(t.trim_end_matches(' ')),
        "std_trimendws" => enc_text(t.trim_end()),
        _ => panic!("std op"),
    };
    Op { req: format!("{}|{}", name, enc_text(t)), real }
}

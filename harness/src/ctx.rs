//! Run context: collects cases, pipes them to the Lean driver, compares, records statistics.
use crate::ops::Op;
use crate::rng::Rng;
use std::collections::{BTreeMap, HashSet};
use std::hash::{Hash, Hasher};
use std::io::Write;
use std::process::{Command, Stdio};

#[derive(Clone, Debug)]
pub struct Disagreement {
    pub desc: String,
    pub req: String,
    pub real: String,
    pub model: String,
}

#[derive(Clone, Debug)]
pub struct OracleFail {
    pub clause: String,
    pub desc: String,
    pub known: Option<String>,
}

struct Pending {
    req: String,
    real: String,
    desc: String,
}

pub struct Ctx {
    pub marker: Option<String>,
    pub last_desc: String,
    pub prop: String,
    pub thorough: bool,
    pub seed: u64,
    pub rng: Rng,
    pub driver: String,
    pub crude: bool,
    pub known_classes: Vec<(String, String)>, // (property, class)
    pending: Vec<Pending>,
    pub evaluations: u64,
    pub compared: u64,
    pub keys: HashSet<u64>,
    pub disagreements: Vec<Disagreement>,
    pub n_disagreements: u64,
    pub oracle_fails: Vec<OracleFail>,
    pub n_oracle_fails: u64,
    pub known_seen: BTreeMap<String, (u64, String)>,
    pub hist: BTreeMap<String, u64>,
    pub samples: Vec<String>,
    pub oracle_evals: u64,
    /// the last few cases run on this thread: a change that keeps state between calls (a cache,
    /// a thread-local) fails only after a particular sequence, which the replay then has to name
    pub recent: std::collections::VecDeque<String>,
    /// answers of the canary calls on fresh threads (purity oracle, see canary.rs)
    pub canary_base: Vec<String>,
    pub canary_failed: bool,
    /// long-input cases on dense multi-byte text (props_long.rs)
    pub dense: bool,
}

pub fn hash_of<T: Hash>(t: &T) -> u64 {
    let mut h = std::collections::hash_map::DefaultHasher::new();
    t.hash(&mut h);
    h.finish()
}

impl Ctx {
    pub fn new(prop: &str, thorough: bool, seed: u64, driver: &str, known_classes: Vec<(String, String)>) -> Ctx {
        Ctx {
            marker: None,
            last_desc: String::new(),
            prop: prop.to_string(),
            thorough,
            seed,
            rng: Rng::new(seed),
            driver: driver.to_string(),
            crude: !cfg!(feature = "full"),
            known_classes,
            pending: Vec::new(),
            evaluations: 0,
            compared: 0,
            keys: HashSet::new(),
            disagreements: Vec::new(),
            n_disagreements: 0,
            oracle_fails: Vec::new(),
            n_oracle_fails: 0,
            known_seen: BTreeMap::new(),
            hist: BTreeMap::new(),
            samples: Vec::new(),
            oracle_evals: 0,
            recent: std::collections::VecDeque::new(),
            canary_base: crate::canary::baseline(),
            canary_failed: false,
            dense: false,
        }
    }

    /// number of random cases for a stream: `q` in the quick tier, `t` in the thorough tier
    pub fn n(&self, q: usize, t: usize) -> usize {
        let scale: f64 = std::env::var("VERIF_SCALE").ok().and_then(|s| s.parse().ok()).unwrap_or(1.0);
        ((if self.thorough { t } else { q }) as f64 * scale) as usize
    }

    pub fn count(&mut self, key: &str) {
        *self.hist.entry(key.to_string()).or_insert(0) += 1;
    }

    pub fn count_n(&mut self, key: &str, n: u64) {
        *self.hist.entry(key.to_string()).or_insert(0) += n;
    }

    /// announce a case that may kill the process outright (giant input: stack overflow, abort);
    /// `check` reads the marker if the process dies
    pub fn risky(&mut self, desc: &str) {
        if let Some(p) = &self.marker {
            let _ = std::fs::write(p, desc);
        }
    }
    pub fn risky_done(&mut self) {
        if let Some(p) = &self.marker {
            let _ = std::fs::remove_file(p);
        }
    }

    /// purity oracle: the canary calls must answer on this thread what they answered on fresh
    /// threads; `after` names what ran just before
    pub fn canary_check(&mut self, after: &str) {
        if self.canary_failed {
            return;
        }
        self.count("purity_canary_rounds");
        if let Some((call, now, fresh)) = crate::canary::differs(&self.canary_base) {
            self.canary_failed = true;
            let short = |s: &str| if s.len() > 400 { format!("{}…", s.chars().take(400).collect::<String>()) } else { s.to_string() };
            self.fail(
                "a call returns what the same call returns on a fresh thread (no state is carried from one call to the next)",
                format!("after {}: {} = {} here, but {} on a fresh thread", after, call, short(&now), short(&fresh)),
                None,
            );
        } else {
            self.oracle_ok();
        }
    }

    /// a correspondence case: the real result and the request for the model
    pub fn case(&mut self, op: Op, desc: String) {
        self.evaluations += 1;
        if self.evaluations % 4000 == 0 {
            let d = desc.clone();
            self.canary_check(&format!("the case {}", if d.len() > 300 { d.chars().take(300).collect::<String>() } else { d }));
        }
        self.last_desc = desc.clone();
        if self.recent.len() >= 4 {
            self.recent.pop_front();
        }
        self.recent.push_back(if desc.len() > 300 { format!("{}…", desc.chars().take(300).collect::<String>()) } else { desc.clone() });
        if self.samples.len() < 6 && (self.evaluations % 997 == 1 || self.evaluations < 3) {
            self.samples.push(format!("{} => {}", desc, op.real_short()));
        }
        self.pending.push(Pending { req: op.req, real: op.real, desc });
        if self.pending.len() >= 20000 {
            self.flush();
        }
    }

    /// mark a distinct non-trivial case (by the property's rule)
    pub fn nontrivial<T: Hash>(&mut self, key: &T) {
        self.keys.insert(hash_of(key));
    }

    pub fn oracle_ok(&mut self) {
        self.oracle_evals += 1;
    }

    /// an implementation-vs-oracle failure; `class` = Some(name) if the input lies in a
    /// known-finding class (only honoured when that class is listed for this property)
    pub fn fail(&mut self, clause: &str, desc: String, class: Option<&str>) {
        self.oracle_evals += 1;
        if let Some(c) = class {
            if self.known_classes.iter().any(|(p, k)| p == &self.prop && k == c) {
                let e = self.known_seen.entry(c.to_string()).or_insert((0, desc.clone()));
                e.0 += 1;
                return;
            }
        }
        self.n_oracle_fails += 1;
        if self.oracle_fails.len() < 50 {
            // the calls made on this thread just before (the failing call itself is usually the last)
            let before: Vec<String> = self.recent.iter().cloned().collect();
            let desc = if before.is_empty() { desc } else { format!("{}  [calls on this thread just before, oldest first: {}]", desc, before.join(" ;; ")) };
            self.oracle_fails.push(OracleFail { clause: clause.to_string(), desc, known: None });
        }
    }

    pub fn flush(&mut self) {
        if self.pending.is_empty() {
            return;
        }
        let pend = std::mem::take(&mut self.pending);
        let mut input = String::new();
        input.push_str(if self.crude { "feature|crude\n" } else { "feature|unicode\n" });
        for p in &pend {
            input.push_str(&p.req);
            input.push('\n');
        }
        let mut child = Command::new(&self.driver).stdin(Stdio::piped()).stdout(Stdio::piped()).spawn().expect("spawn driver");
        let mut stdin = child.stdin.take().unwrap();
        let writer = std::thread::spawn(move || {
            let _ = stdin.write_all(input.as_bytes());
        });
        let out = child.wait_with_output().expect("driver output");
        writer.join().ok();
        let text = String::from_utf8_lossy(&out.stdout);
        let mut replies = text.lines();
        replies.next(); // reply to the feature line
        let short = |d: &str| if d.len() > 300 { format!("{}…", d.chars().take(300).collect::<String>()) } else { d.to_string() };
        let descs: Vec<String> = pend.iter().map(|p| short(&p.desc)).collect();
        for (i, p) in pend.into_iter().enumerate() {
            let model = replies.next().unwrap_or("<no reply: driver died>").to_string();
            self.compared += 1;
            if model != p.real {
                self.n_disagreements += 1;
                if self.disagreements.len() < 50 {
                    let before = descs[i.saturating_sub(3)..i].join(" ;; ");
                    let desc = if before.is_empty() { p.desc } else { format!("{}  [calls on this thread just before, oldest first: {}]", p.desc, before) };
                    self.disagreements.push(Disagreement { desc, req: p.req, real: p.real, model });
                }
            }
        }
    }
}

impl Op {
    pub fn real_short(&self) -> String {
        let d = if self.real == "panic" { "panic".to_string() } else { self.real.clone() };
        if d.len() > 120 { format!("{}…", &d[..120]) } else { d }
    }
}

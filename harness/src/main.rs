mod canary;
mod ctx;
mod gen;
mod ops;
mod opt;
mod oracle;
mod props_a;
mod props_b;
mod props_c;
mod props_long;
mod proto;
mod purity;
mod rng;
mod tables;

use ctx::Ctx;

fn jstr(s: &str) -> String {
    let mut o = String::from("\"");
    for c in s.chars() {
        match c {
            '"' => o.push_str("\\\""),
            '\\' => o.push_str("\\\\"),
            '\n' => o.push_str("\\n"),
            '\r' => o.push_str("\\r"),
            '\t' => o.push_str("\\t"),
            c if (c as u32) < 0x20 => o.push_str(&format!("\\u{:04x}", c as u32)),
            c => o.push(c),
        }
    }
    o.push('"');
    o
}

fn arg<'a>(args: &'a [String], name: &str) -> Option<&'a str> {
    args.iter().position(|a| a == name).and_then(|i| args.get(i + 1)).map(|s| s.as_str())
}

fn run_prop(ctx: &mut Ctx) -> bool {
    let r = run_prop_guarded(ctx);
    // contract clause of the external unicode-linebreak crate assumed by the Lean theorems
    let n = ops::LB7_CHECKED.load(std::sync::atomic::Ordering::Relaxed);
    if n > 0 {
        ctx.count_n("unicode_linebreak_LB7_contract_checked", n);
        ctx.count_n("unicode_linebreak_opportunity_before_space_after_hard_break", ops::LB7_AFTER_HARD_BREAK.load(std::sync::atomic::Ordering::Relaxed));
    }
    let v: Vec<String> = ops::LB7_VIOLATIONS.lock().unwrap().drain(..).collect();
    for m in v {
        ctx.fail("unicode-linebreak contract (strictly increasing positive char boundaries; no opportunity directly before a space, UAX #14 LB7)", m, None);
    }
    r
}

fn run_prop_guarded(ctx: &mut Ctx) -> bool {
    // every call of the crate made for the model comparison runs under `catch_unwind`; a panic
    // that escapes anyway comes from a follow-up call of an oracle (e.g. dedent applied to its
    // own output): the stream ends there and the last queued case is reported as the input
    let r = std::panic::catch_unwind(std::panic::AssertUnwindSafe(|| run_prop_inner(ctx)));
    match r {
        Ok(b) => b,
        Err(_) => {
            let d = ctx.last_desc.clone();
            ctx.fail("returns normally (no panic)", format!("a follow-up call of the crate panicked right after the case {}", d), None);
            ctx.flush();
            true
        }
    }
}

fn run_prop_inner(ctx: &mut Ctx) -> bool {
    props_long::long_cases(ctx);
    if std::env::var_os("TW_LONG_ONLY").is_some() {
        return true;
    }
    match ctx.prop.as_str() {
        "C01" => props_b::c01(ctx),
        "C02" => props_b::c02(ctx),
        "C03" => props_c::c03(ctx),
        "C04" => props_c::c04(ctx),
        "C05" => props_b::c05(ctx),
        "C06" => props_a::c06(ctx),
        "C07" => props_a::c07(ctx),
        "C08" => props_b::c08(ctx),
        "C09" => props_b::c09(ctx),
        "C10" => props_a::c10(ctx),
        "C11" => props_a::c11(ctx),
        "C12" => props_a::c12(ctx),
        "C13" => props_b::c13(ctx),
        "C14" => props_b::c14(ctx),
        "C15" => props_b::c15(ctx),
        "C16" => props_b::c16(ctx),
        "C17" => props_b::c17(ctx),
        "C18" => props_a::c18(ctx),
        "C19" => props_a::c19(ctx),
        "C20" => props_b::c20(ctx),
        _ => return false,
    }
    ctx.canary_check("the whole stream of this property");
    purity::purity_stream(ctx);
    ctx.flush();
    true
}

fn main() {
    let args: Vec<String> = std::env::args().collect();
    match args.get(1).map(|s| s.as_str()) {
        Some("gen-tables") => {
            tables::gen_tables(&args[2]).expect("gen-tables");
        }
        Some("dict") => {
            let d = gen::dict();
            println!("chars ({}): {:?}", d.chars.len(), d.chars);
            println!("numbers ({}): {:?}", d.numbers.len(), d.numbers);
        }
        Some("run") => {
            let prop = arg(&args, "--prop").expect("--prop");
            let thorough = arg(&args, "--tier") == Some("thorough");
            let seed: u64 = arg(&args, "--seed").and_then(|s| s.parse().ok()).unwrap_or(1);
            let driver = arg(&args, "--driver").expect("--driver");
            let out = arg(&args, "--out").expect("--out");
            // known-finding classes: lines `finding: property=Cxx class=KF-n …`
            let mut known: Vec<(String, String)> = Vec::new();
            if let Some(kf) = arg(&args, "--known") {
                if let Ok(s) = std::fs::read_to_string(kf) {
                    for l in s.lines() {
                        if let Some(rest) = l.strip_prefix("finding:") {
                            let mut p = None;
                            let mut c = None;
                            for tok in rest.split_whitespace() {
                                if let Some(v) = tok.strip_prefix("property=") { p = Some(v.to_string()); }
                                if let Some(v) = tok.strip_prefix("class=") { c = Some(v.to_string()); }
                            }
                            if let (Some(p), Some(c)) = (p, c) { known.push((p, c)); }
                        }
                    }
                }
            }
            std::panic::set_hook(Box::new(|_| {}));
            // watchdog: a hang is a violation of totality; report and die
            let t0 = std::time::Instant::now();
            let limit: u64 = arg(&args, "--timeout").and_then(|s| s.parse().ok()).unwrap_or(3000);
            std::thread::spawn(move || loop {
                std::thread::sleep(std::time::Duration::from_secs(5));
                if t0.elapsed().as_secs() > limit {
                    eprintln!("twharness: watchdog timeout after {} s", limit);
                    std::process::exit(3);
                }
            });
            let mut ctx = Ctx::new(prop, thorough, seed, driver, known);
            ctx.marker = Some(format!("{}.current", out));
            ctx.count_n("dictionary_chars_from_the_source", gen::dict().chars.len() as u64);
            ctx.count_n("dictionary_numbers_from_the_source", gen::dict().numbers.len() as u64);
            if !run_prop(&mut ctx) {
                eprintln!("unknown property {}", prop);
                std::process::exit(2);
            }
            let mut j = String::from("{\n");
            j.push_str(&format!(" \"property\": {},\n", jstr(prop)));
            j.push_str(&format!(" \"feature_set\": {},\n", jstr(if cfg!(feature = "full") { "default" } else { "no-default-features" })));
            j.push_str(&format!(" \"seed\": {},\n \"evaluations\": {},\n \"compared_with_model\": {},\n \"oracle_evaluations\": {},\n \"distinct_nontrivial\": {},\n", seed, ctx.evaluations, ctx.compared, ctx.oracle_evals, ctx.keys.len()));
            j.push_str(&format!(" \"n_disagreements\": {},\n \"n_oracle_failures\": {},\n", ctx.n_disagreements, ctx.n_oracle_fails));
            j.push_str(" \"disagreements\": [");
            j.push_str(&ctx.disagreements.iter().map(|d| format!("{{\"call\": {}, \"request\": {}, \"real\": {}, \"model\": {}}}", jstr(&d.desc), jstr(&d.req), jstr(&d.real), jstr(&d.model))).collect::<Vec<_>>().join(",\n  "));
            j.push_str("],\n \"oracle_failures\": [");
            j.push_str(&ctx.oracle_fails.iter().map(|d| format!("{{\"clause\": {}, \"case\": {}}}", jstr(&d.clause), jstr(&d.desc))).collect::<Vec<_>>().join(",\n  "));
            j.push_str("],\n \"known_findings_seen\": {");
            j.push_str(&ctx.known_seen.iter().map(|(k, v)| format!("{}: {{\"count\": {}, \"example\": {}}}", jstr(k), v.0, jstr(&v.1))).collect::<Vec<_>>().join(", "));
            j.push_str("},\n \"histogram\": {");
            j.push_str(&ctx.hist.iter().map(|(k, v)| format!("{}: {}", jstr(k), v)).collect::<Vec<_>>().join(", "));
            j.push_str("},\n \"samples\": [");
            j.push_str(&ctx.samples.iter().map(|s| jstr(s)).collect::<Vec<_>>().join(", "));
            j.push_str("]\n}\n");
            std::fs::write(out, j).expect("write result");
        }
        _ => {
            eprintln!("usage: twharness gen-tables DIR | run --prop Cxx --tier quick|thorough --seed N --driver PATH --out FILE [--known FILE]");
            std::process::exit(2);
        }
    }
}

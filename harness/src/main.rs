mod proto;
mod rng;
mod tables;

fn main() {
    let args: Vec<String> = std::env::args().collect();
    match args.get(1).map(|s| s.as_str()) {
        Some("gen-tables") => {
            tables::gen_tables(&args[2]).expect("gen-tables");
        }
        _ => {
            eprintln!("usage: twharness gen-tables DIR | run ...");
            std::process::exit(2);
        }
    }
}

//! Property streams, part A: leaf functions (C06, C07, C10, C11, C12, C18, C19).
use crate::ctx::Ctx;
use crate::gen::{self, Flavor};
use crate::ops::*;
use crate::oracle::*;
use crate::proto::show;
use textwrap::core::{display_width as dw, Fragment, Word};

const ESC_ALPHA: &[&str] = &["\x1b", "[", "]", "\\", "\x07", "m", "@", "~", "0", ";", "a", " "];

// ---------------------------------------------------------------------------------------------
// C10
// ---------------------------------------------------------------------------------------------

fn expected_cw(c: char) -> usize {
    #[cfg(feature = "full")]
    {
        unicode_width::UnicodeWidthChar::width(c).unwrap_or(0)
    }
    #[cfg(not(feature = "full"))]
    {
        if c < '\u{1100}' { 1 } else { 2 }
    }
}

fn c10_oracle(ctx: &mut Ctx, t: &str) {
    let w = dw(t);
    if w > t.len() {
        ctx.fail("display_width <= byte length", format!("display_width({}) = {} > len {}", show(t), w, t.len()), None);
    } else {
        ctx.oracle_ok();
    }
    let sc = scan(t);
    if sc.wellformed {
        let exp: usize = t.chars().zip(sc.visible.iter()).filter(|(_, v)| **v).map(|(c, _)| expected_cw(c)).sum();
        if exp != w {
            ctx.fail("sum of char widths outside sequences", format!("display_width({}) = {}, expected {}", show(t), w, exp), None);
        } else {
            ctx.oracle_ok();
        }
    }
}

pub fn c10(ctx: &mut Ctx) {
    // (1) every Unicode scalar value, on the real code, against the width crate / crude rule
    let mut sweep = 0u64;
    for cp in 0u32..=0x10FFFF {
        let Some(c) = char::from_u32(cp) else { continue };
        sweep += 1;
        let w = textwrap::verif_hooks::ch_width(c);
        let e = expected_cw(c);
        if w != e {
            ctx.fail("per-char width table", format!("ch_width(U+{:04X}) = {}, expected {}", cp, w, e), None);
        }
        if w > c.len_utf8() {
            ctx.fail("char width <= utf8 length", format!("ch_width(U+{:04X}) = {} > {}", cp, w, c.len_utf8()), None);
        }
        let mut buf = [0u8; 4];
        let s: &str = c.encode_utf8(&mut buf);
        let d = dw(s);
        if c != '\x1b' && d != w {
            ctx.fail("display_width of one char", format!("display_width(U+{:04X}) = {}, ch_width = {}", cp, d, w), None);
        }
    }
    ctx.oracle_evals += 3 * sweep;
    ctx.count_n("sweep_scalar_values", sweep);
    ctx.evaluations += sweep;
    // the regenerated Lean table against the real function: run boundaries, plus a sample
    let mut probes: Vec<u32> = Vec::new();
    let mut prev = usize::MAX;
    for cp in 0u32..=0x10FFFF {
        let Some(c) = char::from_u32(cp) else { continue };
        let w = textwrap::verif_hooks::ch_width(c);
        if w != prev {
            probes.push(cp);
            if cp > 0 {
                probes.push(cp - 1);
            }
            prev = w;
        }
    }
    let n = ctx.n(20000, 1_200_000);
    if n >= 1_112_064 {
        probes = (0u32..=0x10FFFF).collect();
    } else {
        for _ in 0..n {
            probes.push(ctx.rng.below(0x110000) as u32);
        }
    }
    for cp in probes {
        if let Some(c) = char::from_u32(cp) {
            ctx.case(op_cw(c), format!("ch_width(U+{:04X})", cp));
            if textwrap::verif_hooks::ch_width(c) != 1 {
                ctx.nontrivial(&("cw", cp));
            }
        }
    }
    // (2) escape-heavy strings, exhaustively
    let maxlen = if ctx.thorough { 5 } else { 4 };
    let mut all: Vec<String> = Vec::new();
    gen::enumerate_strings(ESC_ALPHA, maxlen, |s| all.push(s.to_string()));
    for s in &all {
        ctx.case(op_dw(s), format!("display_width({})", show(s)));
        #[cfg(feature = "full")]
        if s.len() <= 4 {
            ctx.case(op_strip(s), format!("strip_ansi({})", show(s)));
        }
        c10_oracle(ctx, s);
        if s.contains('\x1b') {
            ctx.nontrivial(s);
        }
    }
    ctx.count_n("exhaustive_esc_strings", all.len() as u64);
    // (3) random strings of every flavour; additivity and insertion
    for _ in 0..ctx.n(30000, 600_000) {
        let fl = gen::flavor(&mut ctx.rng);
        let t = gen::text(&mut ctx.rng, fl, 2, 8);
        ctx.case(op_dw(&t), format!("display_width({})", show(&t)));
        #[cfg(feature = "full")]
        ctx.case(op_strip(&t), format!("strip_ansi({})", show(&t)));
        c10_oracle(ctx, &t);
        ctx.count(&format!("flavor_{:?}", fl));
        if t.contains('\x1b') || t.chars().any(|c| expected_cw(c) != 1) {
            ctx.nontrivial(&t);
        }
        // additivity over ESC-free strings
        let a = gen::para(&mut ctx.rng, Flavor::Wide, 5);
        let b = gen::para(&mut ctx.rng, Flavor::Wide, 5);
        if dw(&format!("{}{}", a, b)) != dw(&a) + dw(&b) {
            ctx.fail("additive over ESC-free concatenation", format!("{} ++ {}", show(&a), show(&b)), None);
        } else {
            ctx.oracle_ok();
        }
        // inserting a well-formed sequence at a char boundary of an ESC-free string
        let seq = *ctx.rng.pick(gen::ANSI_OK);
        let cs: Vec<char> = a.chars().collect();
        let k = ctx.rng.below(cs.len() + 1);
        let ins: String = cs[..k].iter().collect::<String>() + seq + &cs[k..].iter().collect::<String>();
        if dw(&ins) != dw(&a) {
            ctx.fail("unchanged by inserting a well-formed sequence", format!("{} vs {}", show(&ins), show(&a)), None);
        } else {
            ctx.oracle_ok();
        }
    }
}

// ---------------------------------------------------------------------------------------------
// C19
// ---------------------------------------------------------------------------------------------

fn c19_expected(s: &str, p: &str) -> String {
    let pieces: Vec<&str> = s.split('\n').collect();
    let k = pieces.len();
    let tp = p.trim_end();
    let mut out = String::new();
    for (i, l) in pieces.iter().enumerate() {
        if i > 0 {
            out.push('\n');
        }
        if i == k - 1 && l.is_empty() {
            continue;
        }
        if l.chars().any(|c| !c.is_whitespace()) {
            out.push_str(p);
        } else {
            out.push_str(tp);
        }
        out.push_str(l);
    }
    out
}

fn line_text(rng: &mut crate::rng::Rng) -> String {
    let n = rng.below(6);
    let mut s = String::new();
    for _ in 0..n {
        if rng.chance(1, 12) {
            // a long run of one blank, then a short tail (or nothing)
            s.push_str(&gen::blank_run(rng));
            s.push_str(*rng.pick(&["", "}", "x", "ab", "é", "foo", "x y", "abcdefg", " ", "\n"]));
            continue;
        }
        s.push_str(match rng.below(10) {
            9 => if rng.chance(1, 2) { *rng.pick(gen::ASCII_EDGE) } else { *rng.pick(gen::WS) },
            0 => "\n",
            1 => "\n\n",
            2 => "\r\n",
            3 => *rng.pick(gen::WS),
            4 => "  ",
            5 => "\t",
            6 => "foo",
            7 => "é",
            _ => "x y",
        });
    }
    s
}

pub fn c19(ctx: &mut Ctx) {
    let prefixes: &[&str] = &["", "  ", "\t", "> ", "//", "// ", "#\t", "  \u{a0}", "x\n", " - ", "👉 ", "\r", "        "];
    let mut run = |ctx: &mut Ctx, s: &str, p: &str| {
        let (op, real) = op_indent(s, p);
        ctx.case(op, format!("indent({}, {})", show(s), show(p)));
        let exp = c19_expected(s, p);
        if real != exp {
            ctx.fail("indent spec", format!("indent({}, {}) = {}, expected {}", show(s), show(p), show(&real), show(&exp)), None);
        } else {
            ctx.oracle_ok();
        }
        if !p.contains('\n') && real.matches('\n').count() != s.matches('\n').count() {
            ctx.fail("same number of lines", format!("indent({}, {}) = {}", show(s), show(p), show(&real)), None);
        }
        if p.is_empty() && real != s {
            ctx.fail("indent(s, \"\") = s", format!("indent({}, \"\") = {}", show(s), show(&real)), None);
        }
        if s.contains('\n') && s.lines().any(|l| l.chars().all(|c| c.is_whitespace())) {
            ctx.nontrivial(&(s.to_string(), p.to_string()));
        }
    };
    // exhaustive small texts
    let alpha: &[&str] = &["a", " ", "\n", "\t", "\r"];
    let mut all: Vec<String> = Vec::new();
    gen::enumerate_strings(alpha, if ctx.thorough { 6 } else { 5 }, |s| all.push(s.to_string()));
    for s in &all {
        for p in ["", "  ", "> ", "\t"] {
            run(ctx, s, p);
        }
    }
    ctx.count_n("exhaustive_small_texts", all.len() as u64);
    for _ in 0..ctx.n(20000, 400_000) {
        let s = if ctx.rng.chance(1, 2) { line_text(&mut ctx.rng) } else { gen::any_text(&mut ctx.rng) };
        let p = *ctx.rng.pick(prefixes);
        run(ctx, &s, p);
    }
    for name in ["std_splitterm", "std_trimendws"] {
        for _ in 0..ctx.n(3000, 50_000) {
            let s = line_text(&mut ctx.rng);
            ctx.case(op_std(name, &s), format!("{}({})", name, show(&s)));
        }
    }
}

// ---------------------------------------------------------------------------------------------
// C18
// ---------------------------------------------------------------------------------------------

fn leading_ws(l: &str) -> &str {
    let n = l.char_indices().find(|(_, c)| !c.is_whitespace()).map(|(i, _)| i).unwrap_or(l.len());
    &l[..n]
}

pub fn c18_expected(s: &str) -> String {
    let lines: Vec<&str> = s.lines().collect();
    let mut margin: Option<String> = None;
    for l in &lines {
        if l.chars().any(|c| !c.is_whitespace()) {
            let lw = leading_ws(l);
            margin = Some(match margin {
                None => lw.to_string(),
                Some(m) => lcp(&m, lw).to_string(),
            });
        }
    }
    let m = margin.unwrap_or_default();
    let mut out = String::new();
    for l in &lines {
        if l.chars().any(|c| !c.is_whitespace()) {
            out.push_str(&l[m.len()..]);
        }
        out.push('\n');
    }
    if !s.ends_with('\n') && out.ends_with('\n') {
        out.pop();
    }
    out
}

pub fn margin_text(rng: &mut crate::rng::Rng) -> String {
    let n = rng.below(5);
    let mut s = String::new();
    for i in 0..n {
        if i > 0 {
            s.push_str(match rng.below(10) { 0 => "\r\n", 1 => "\r\r\n", _ => "\n" });
        }
        if rng.chance(1, 12) {
            s.push_str(&gen::blank_run(rng));
        }
        for _ in 0..rng.below(4) {
            // blanks that share leading UTF-8 bytes with each other (U+2002/2003/2005: E2 80 xx;
            // NBSP / NEL: C2 xx) separate a margin computed on chars from one computed on bytes
            s.push_str(match rng.below(14) { 0 => "\t", 1 | 2 => "\u{a0}", 3 => "  ", 4 | 5 => "\u{2003}", 6 => "\u{2002}", 7 => "\u{85}", 8 => "\u{3000}", 9 => "\u{2005}", _ => " " });
        }
        if !rng.chance(1, 4) {
            // … and content whose first char shares them too (« = C2 AB, — = E2 80 94)
            s.push_str(match rng.below(7) { 0 => "foo", 1 => "é b", 2 => "x  ", 3 => "«q»", 4 => "—z", 5 => "©", _ => "bar\t" });
        }
    }
    if rng.chance(1, 3) {
        s.push('\n');
    }
    s
}

pub fn c18(ctx: &mut Ctx) {
    let mut run = |ctx: &mut Ctx, s: &str| {
        let (op, real) = op_dedent(s);
        ctx.case(op, format!("dedent({})", show(s)));
        let exp = c18_expected(s);
        if real != exp {
            ctx.fail("margin / line structure", format!("dedent({}) = {}, expected {}", show(s), show(&real), show(&exp)), None);
        } else {
            ctx.oracle_ok();
        }
        let twice = textwrap::dedent(&real);
        if twice != real {
            ctx.fail("idempotent", format!("dedent({}) = {}, again = {}", show(s), show(&real), show(&twice)), if kf3(s) { Some("KF-3") } else { None });
        } else {
            ctx.oracle_ok();
        }
        let nblank = s.lines().filter(|l| l.chars().all(|c| c.is_whitespace())).count();
        if nblank > 0 && s.lines().count() > nblank + 1 {
            ctx.nontrivial(&s.to_string());
        }
    };
    let alpha: &[&str] = &["a", " ", "\n", "\t", "\r"];
    let mut all: Vec<String> = Vec::new();
    gen::enumerate_strings(alpha, if ctx.thorough { 7 } else { 6 }, |s| all.push(s.to_string()));
    for s in &all {
        run(ctx, s);
    }
    ctx.count_n("exhaustive_small_texts", all.len() as u64);
    let wsp: &[&str] = &[" ", "\t", "  ", "\u{a0}", " \t", "    ", "\u{2003}", "\u{2003}\u{2002}", "\u{a0}\u{85}", "\u{3000} "];
    for _ in 0..ctx.n(30000, 600_000) {
        let s = if ctx.rng.chance(3, 4) { margin_text(&mut ctx.rng) } else { gen::any_text(&mut ctx.rng) };
        run(ctx, &s);
        // dedent(indent(s, p)) = dedent(s) for whitespace p, s without CR
        if !s.contains('\r') {
            let p = *ctx.rng.pick(wsp);
            let a = textwrap::dedent(&textwrap::indent(&s, p));
            let b = textwrap::dedent(&s);
            if a != b {
                ctx.fail("dedent(indent(s,p)) = dedent(s)", format!("s = {}, p = {}: {} vs {}", show(&s), show(p), show(&a), show(&b)), None);
            } else {
                ctx.oracle_ok();
            }
        }
    }
    for _ in 0..ctx.n(3000, 50_000) {
        let s = margin_text(&mut ctx.rng);
        ctx.case(op_std("std_lines", &s), format!("lines({})", show(&s)));
    }
}

// ---------------------------------------------------------------------------------------------
// C06 / C07: fragment-level algorithms
// ---------------------------------------------------------------------------------------------

pub fn num(rng: &mut crate::rng::Rng, kind: usize) -> f64 {
    match kind {
        0 => rng.below(4) as f64,
        1 => rng.below(12) as f64,
        2 => rng.below(1 << 20) as f64,
        3 => (rng.below(40) as f64) / 4.0,
        4 => (rng.below(41) as f64 - 20.0) / 2.0,
        5 => f64::from_bits(rng.next()).clamp(-1e300, 1e300),
        6 => [1e25, 1e50, 1e75, 1e100, 1e150, 1e200, 3e307][rng.below(7)],
        _ => [0.0, 1.0, 0.5, 1e-300, -0.0, 2f64.powi(53), 2f64.powi(64)][rng.below(7)],
    }
}

pub fn frags(rng: &mut crate::rng::Rng, kind: usize, maxn: usize) -> Vec<F> {
    let n = rng.below(maxn + 1);
    (0..n)
        .map(|_| {
            let w = num(rng, kind);
            let ws = if rng.chance(1, 2) { if kind <= 2 { rng.below(3) as f64 } else { num(rng, kind) } } else { 1.0 };
            let p = if rng.chance(1, 4) { if kind <= 2 { 1.0 } else { num(rng, kind) } } else { 0.0 };
            let (w, ws, p) = if w.is_nan() { (0.0, ws, p) } else { (w, ws, p) };
            F(w, if ws.is_nan() { 0.0 } else { ws }, if p.is_nan() { 0.0 } else { p })
        })
        .collect()
}

pub fn lws(rng: &mut crate::rng::Rng, kind: usize) -> Vec<f64> {
    // up to five entries: the width of line k is entry k, the last entry from there on
    let n = rng.below(6);
    (0..n).map(|_| { let x = num(rng, kind); if x.is_nan() { 0.0 } else { x } }).collect()
}

pub fn is_partition(lens: &[usize], n: usize) -> bool {
    if n == 0 {
        return lens == [0];
    }
    lens.iter().all(|&l| l > 0) && lens.iter().sum::<usize>() == n
}

/// C07's characterisation, evaluated in f64 exactly as stated in the property
pub fn greedy_ok(frs: &[F], lw: &[f64], lens: &[usize]) -> Result<(), String> {
    let dflt = lw.last().copied().unwrap_or(0.0);
    let mut idx = 0;
    for (k, &len) in lens.iter().enumerate() {
        let line_w = lw.get(k).copied().unwrap_or(dflt);
        let mut acc = 0.0;
        for p in 0..len {
            let f = frs[idx + p];
            if p > 0 && acc + f.0 + f.2 > line_w {
                return Err(format!("line {} holds fragment {} that does not fit", k, idx + p));
            }
            acc += f.0 + f.1;
        }
        idx += len;
        if idx < frs.len() {
            let g = frs[idx];
            if !(acc + g.0 + g.2 > line_w) {
                return Err(format!("fragment {} would have fitted on line {}", idx, k));
            }
        }
    }
    Ok(())
}

fn ff_stream(ctx: &mut Ctx, greedy: bool) {
    // bounded-exhaustive: fragment lists of length <= L over widths {0,1,2,3} x ws {0,1} x pen {0,1}
    let maxl = if ctx.thorough { 4 } else { 3 };
    let atoms: Vec<F> = (0..4).flat_map(|w| (0..2).flat_map(move |s| (0..2).map(move |p| F(w as f64, s as f64, p as f64)))).collect();
    let mut idx: Vec<usize> = vec![];
    let mut count = 0u64;
    loop {
        let frs: Vec<F> = idx.iter().map(|&i| atoms[i]).collect();
        for lwv in [vec![], vec![0.0], vec![2.0], vec![3.0], vec![5.0], vec![1.0, 4.0], vec![4.0, 2.0], vec![6.0, 0.0, 3.0]] {
            run_ff(ctx, &frs, &lwv, greedy);
            count += 1;
        }
        let mut k = idx.len();
        let mut done = false;
        loop {
            if k == 0 {
                if idx.len() == maxl { done = true; } else { idx = vec![0; idx.len() + 1]; }
                break;
            }
            k -= 1;
            if idx[k] + 1 < atoms.len() {
                idx[k] += 1;
                for j in k + 1..idx.len() { idx[j] = 0; }
                break;
            }
        }
        if done { break; }
    }
    ctx.count_n("exhaustive_fragment_lists", count);
    for _ in 0..ctx.n(30000, 1_000_000) {
        let kind = ctx.rng.below(8);
        let frs = frags(&mut ctx.rng, kind, 10);
        let mut lwv = lws(&mut ctx.rng, kind);
        // exact-fit constructions: make a prefix sum hit the width
        if kind <= 3 && !frs.is_empty() && ctx.rng.chance(1, 2) {
            let k = ctx.rng.below(frs.len()) + 1;
            let s: f64 = frs[..k].iter().map(|f| f.0 + f.1).sum::<f64>() - frs[k - 1].1 + frs[k - 1].2;
            let d = [0.0, 1.0, -1.0][ctx.rng.below(3)];
            lwv = if ctx.rng.chance(1, 2) { vec![s + d] } else { vec![s + d, (s / 2.0).floor()] };
        }
        ctx.count(&format!("numkind_{}", kind));
        run_ff(ctx, &frs, &lwv, greedy);
    }
}

fn run_ff(ctx: &mut Ctx, frs: &[F], lwv: &[f64], greedy: bool) {
    let (op, real) = op_ff(frs, lwv);
    let desc = format!("wrap_first_fit({:?}, {:?})", frs_tuple(frs), lwv);
    ctx.case(op, desc.clone());
    match real {
        None => ctx.fail("returns normally", format!("{} panicked", desc), None),
        Some(lens) => {
            if !is_partition(&lens, frs.len()) {
                ctx.fail("ordered partition", format!("{} = line lengths {:?}", desc, lens), None);
            } else {
                ctx.oracle_ok();
            }
            if greedy {
                if let Err(e) = greedy_ok(frs, lwv, &lens) {
                    ctx.fail("greedy-maximal", format!("{} = {:?}: {}", desc, lens, e), None);
                } else {
                    ctx.oracle_ok();
                }
            }
            if lens.len() >= 2 {
                ctx.nontrivial(&(format!("{:?}", frs_tuple(frs)), format!("{:?}", lwv)));
            }
        }
    }
}

/// `WrapAlgorithm::wrap` (the public entry point above `wrap_first_fit` / `wrap_optimal_fit`) on
/// hand-built words: penalties may sit on any word, including the last one
pub fn walg_stream(ctx: &mut Ctx, greedy: bool) {
    let vocab: &[&str] = &["a", "ab", "abc", "abcd", "Ｈ", "é", "\u{301}", "", "x-", "字字"];
    for _ in 0..ctx.n(15000, 400_000) {
        let long = ctx.rng.chance(1, 6);
        let n = if long { 20 + ctx.rng.below(40) } else { ctx.rng.below(7) };
        let mut words: Vec<Word<'static>> = Vec::new();
        for _ in 0..n {
            let mut w = Word::from(*ctx.rng.pick(vocab));
            w.whitespace = *ctx.rng.pick(&["", " ", " ", "  "]);
            w.penalty = if ctx.rng.chance(1, 3) { "-" } else { "" };
            words.push(w);
        }
        let total: usize = words.iter().map(|w| w.width() as usize + w.whitespace.len()).sum();
        let lws: Vec<usize> = if long {
            // many listed widths, all different: line k must use the k-th one
            let m = 3 + ctx.rng.below(14);
            (0..m).map(|k| 4 + ((k * 7 + ctx.rng.below(3)) % 11)).collect()
        } else { match ctx.rng.below(6) {
            0 => vec![],
            1 => vec![total],
            2 => vec![total.saturating_sub(1)],
            3 => vec![total + 1, 2],
            4 => vec![ctx.rng.below(8)],
            _ => vec![ctx.rng.below(8), ctx.rng.below(8)],
        } };
        let alg = if cfg!(feature = "full") && !greedy && ctx.rng.chance(1, 2) { 'o' } else { 'f' };
        let pen = crate::opt::DEFAULT_PEN;
        let (op, real) = op_walg(alg, pen, &words, &lws);
        let desc = format!("WrapAlgorithm::{}.wrap({:?}, {:?})", if alg == 'o' { "OptimalFit" } else { "FirstFit" }, words, lws);
        ctx.case(op, desc.clone());
        ctx.count(if alg == 'o' { "walg_optimal" } else { "walg_firstfit" });
        match real {
            None => ctx.fail("returns normally", format!("{} panicked", desc), None),
            Some(lens) => {
                if !is_partition(&lens, words.len()) {
                    ctx.fail("ordered partition", format!("{} = line lengths {:?}", desc, lens), None);
                } else {
                    ctx.oracle_ok();
                }
                if greedy && alg == 'f' {
                    let frs: Vec<F> = words.iter().map(|w| F(w.width(), w.whitespace.len() as f64, w.penalty.len() as f64)).collect();
                    let lwf: Vec<f64> = lws.iter().map(|x| *x as f64).collect();
                    if let Err(e) = greedy_ok(&frs, &lwf, &lens) {
                        ctx.fail("greedy-maximal", format!("{} = {:?}: {}", desc, lens, e), None);
                    } else {
                        ctx.oracle_ok();
                    }
                }
            }
        }
    }
}

pub fn c07(ctx: &mut Ctx) {
    ff_stream(ctx, true);
    walg_stream(ctx, true);
}

pub fn c06(ctx: &mut Ctx) {
    ff_stream(ctx, false);
    walg_stream(ctx, false);
    #[cfg(feature = "full")]
    {
        for it in 0..ctx.n(30000, 1_000_000) {
            let mut kind = ctx.rng.below(8);
            let mut frs = frags(&mut ctx.rng, kind, 10);
            if it % 1500 == 1499 {
                // long inputs: lengths around the powers of two (block-wise or buffered processing
                // changes behaviour there)
                kind = 1;
                let n = [255usize, 256, 257, 511, 512, 1023, 1024, 1025, 2048, 2049][ctx.rng.below(10)];
                frs = (0..n).map(|_| F(1.0 + ctx.rng.below(6) as f64, 1.0, 0.0)).collect();
                ctx.count("long_fragment_list");
            }
            let lwv = lws(&mut ctx.rng, kind);
            let pen = gen::penalties(&mut ctx.rng);
            let (req, out, rows, costs) = op_of(&frs, &lwv, pen);
            let desc = format!("wrap_optimal_fit({:?}, {:?}, {:?})", frs_tuple(&frs), lwv, pen);
            ctx.count(&format!("of_numkind_{}", kind));
            match out {
                OfOut::Panic => ctx.fail("returns normally", format!("{} panicked", desc), None),
                OfOut::Overflow => {
                    ctx.count("of_overflow_error");
                    // only the error itself is compared (integer kinds must not overflow: C04)
                    ctx.case(Op { req: format!("{}|shapeonly|costs|{}", req, costs), real: "overflow;smawk=1;costs=1".into() }, desc);
                }
                OfOut::Ok(lens) => {
                    if !is_partition(&lens, frs.len()) {
                        ctx.fail("ordered partition", format!("{} = line lengths {:?}", desc, lens), None);
                    } else {
                        ctx.oracle_ok();
                    }
                    let shape = rows.len() == frs.len() + 1 && rows[0] == 0 && (1..rows.len()).all(|j| rows[j] < j);
                    if !shape {
                        ctx.fail("smawk shape contract (r j < j)", format!("{}: rows {:?}", desc, rows), None);
                    }
                    // model: back-tracking over the same rows must give the same lines
                    ctx.case(Op { req: format!("{}|shapeonly|costs|{}", req, costs), real: format!("ok:{};smawk=1;costs=1", crate::proto::enc_nats(&lens)) }, desc.clone());
                    if lens.len() >= 2 {
                        ctx.nontrivial(&desc);
                    }
                }
            }
        }
    }
}

// ---------------------------------------------------------------------------------------------
// C11: word finding
// ---------------------------------------------------------------------------------------------

fn c11_common(ctx: &mut Ctx, sep: char, line: &str, words: &[Word<'_>]) {
    let d = || format!("find_words[{}]({})", sep, show(line));
    let cat: String = words.iter().map(|w| format!("{}{}", w.word, w.whitespace)).collect();
    if cat != line {
        ctx.fail("lossless", format!("{} concatenates to {}", d(), show(&cat)), None);
    } else {
        ctx.oracle_ok();
    }
    for w in words {
        if !w.whitespace.chars().all(|c| c == ' ') {
            ctx.fail("whitespace is spaces only", d(), None);
        }
        if w.word.ends_with(' ') {
            ctx.fail("word does not end in a space", d(), None);
        }
        if w.width != dw(w.word) {
            ctx.fail("cached width", d(), None);
        }
        if !w.penalty.is_empty() {
            ctx.fail("no penalty", d(), None);
        }
    }
    ctx.oracle_ok();
}

fn word_starts(words: &[Word<'_>]) -> Vec<usize> {
    let mut v = Vec::new();
    let mut off = 0;
    for w in words {
        if off > 0 {
            v.push(off);
        }
        off += w.word.len() + w.whitespace.len();
    }
    v
}

fn c11_run(ctx: &mut Ctx, line: &str) {
    // ASCII
    let (op, words) = op_words('a', line);
    ctx.case(op, format!("find_words[ascii]({})", show(line)));
    match words {
        None => ctx.fail("returns normally", format!("find_words[ascii]({}) panicked", show(line)), None),
        Some(ws) => {
            c11_common(ctx, 'a', line, &ws);
            let exp: Vec<usize> = line.char_indices().filter(|&(i, c)| i > 0 && c != ' ' && line[..i].ends_with(' ')).map(|(i, _)| i).collect();
            let got = word_starts(&ws);
            if got != exp {
                ctx.fail("ASCII boundaries = space followed by non-space", format!("find_words[ascii]({}): starts {:?}, expected {:?}", show(line), got, exp), None);
            } else {
                ctx.oracle_ok();
            }
            if ws.len() >= 2 {
                ctx.nontrivial(&('a', line.to_string()));
            }
        }
    }
    // Unicode
    #[cfg(feature = "full")]
    {
        let (op, words) = op_words('u', line);
        ctx.case(op, format!("find_words[unicode]({})", show(line)));
        match words {
            None => ctx.fail("returns normally", format!("find_words[unicode]({}) panicked", show(line)), None),
            Some(ws) => {
                c11_common(ctx, 'u', line, &ws);
                // expected boundaries: opportunities of the stripped line (by the independent scanner),
                // except the end-of-text one and those directly after '-' / SHY, mapped back so that a
                // boundary lies before any escape sequences that precede the character
                let sc = scan(line);
                let stripped: String = line.chars().zip(sc.visible.iter()).filter(|(_, v)| **v).map(|(c, _)| c).collect();
                let real_stripped = textwrap::verif_hooks::strip_ansi(line);
                if stripped != real_stripped {
                    ctx.fail("strip agrees with the escape grammar", format!("strip_ansi({}) = {}", show(line), show(&real_stripped)), None);
                }
                let opps: Vec<usize> = opps_of_stripped(&real_stripped)
                    .into_iter()
                    .filter(|&o| o < real_stripped.len())
                    .filter(|&o| !matches!(real_stripped[..o].chars().next_back(), Some('-') | Some('\u{ad}')))
                    .collect();
                // map back: orig offset of the first index-map entry whose stripped offset is o;
                // entries exist for visible chars and for the ESC that begins a sequence
                let mut exp: Vec<usize> = Vec::new();
                let mut inside: Vec<usize> = Vec::new();
                {
                    let mut st = 0usize;
                    let mut map: Vec<(usize, usize)> = Vec::new();
                    for (i, (o, c)) in line.char_indices().enumerate() {
                        if sc.in_seq[i] {
                            if sc.seq_start[i] {
                                map.push((o, st));
                            } else {
                                inside.push(o);
                            }
                        } else {
                            map.push((o, st));
                            st += c.len_utf8();
                        }
                    }
                    for o in &opps {
                        if let Some(e) = map.iter().find(|e| e.1 == *o) {
                            if e.0 > 0 {
                                exp.push(e.0);
                            }
                        }
                    }
                }
                let got = word_starts(&ws);
                if got != exp {
                    ctx.fail("Unicode boundaries = mapped-back filtered UAX#14 opportunities", format!("find_words[unicode]({}): starts {:?}, expected {:?}", show(line), got, exp), None);
                } else {
                    ctx.oracle_ok();
                }
                if got.iter().any(|g| inside.contains(g)) {
                    ctx.fail("no boundary inside an escape sequence", format!("find_words[unicode]({}): starts {:?}", show(line), got), None);
                }
                if ws.len() >= 2 {
                    ctx.nontrivial(&('u', line.to_string()));
                }
            }
        }
    }
}

pub fn c11(ctx: &mut Ctx) {
    let alpha: &[&str] = &["a", " ", "-", "\x1b", "[", "m", "é", "\u{ad}"];
    let mut all: Vec<String> = Vec::new();
    gen::enumerate_strings(alpha, if ctx.thorough { 6 } else { 5 }, |s| all.push(s.to_string()));
    for s in &all {
        c11_run(ctx, s);
    }
    ctx.count_n("exhaustive_small_lines", all.len() as u64);
    // second scope: ideographs (a break opportunity between any two) whose UTF-8 bytes / low
    // code-point bytes collide with '-' and SHY, next to real hyphens
    let alpha2: &[&str] = &["中", "字", "キ", "😭", "-", " ", "a", "\u{ad}"];
    let mut all2: Vec<String> = Vec::new();
    gen::enumerate_strings(alpha2, if ctx.thorough { 5 } else { 4 }, |s| all2.push(s.to_string()));
    for s in &all2 {
        c11_run(ctx, s);
    }
    ctx.count_n("exhaustive_small_cjk_lines", all2.len() as u64);
    // the line-break scan itself (TextwrapModel/Linebreak.lean on the regenerated pair table)
    // against `unicode_linebreak::linebreaks`: every triple of line-break classes (a first and a
    // last representative of each class: every entry of the pair table a three-character text can
    // reach, with and without a preceding ZWJ) and random class sequences of up to eight characters
    #[cfg(feature = "full")]
    {
        let mut reps: Vec<Vec<char>> = Vec::new();
        for cp in (0u32..=0x10FFFF).filter_map(char::from_u32) {
            let k = unicode_linebreak::break_property(cp as u32) as u8 as usize;
            if reps.len() <= k {
                reps.resize(k + 1, Vec::new());
            }
            if reps[k].len() < 2 {
                reps[k].push(cp);
            } else {
                reps[k][1] = cp;
            }
        }
        let reps: Vec<Vec<char>> = reps.into_iter().filter(|r| !r.is_empty()).collect();
        let lb = |ctx: &mut Ctx, t: &str| {
            let real = crate::proto::enc_nats(&crate::ops::opps_of_stripped(t));
            ctx.case(Op { req: format!("lb|{}", crate::proto::enc_text(t)), real }, format!("linebreaks({})", show(t)));
        };
        let n = reps.len();
        let mut cnt = 0u64;
        for a in 0..n {
            for b in 0..n {
                for c in 0..n {
                    let v = (a + b + c) % 2;
                    let t: String = [reps[a][v % reps[a].len()], reps[b][(v + 1) % reps[b].len()], reps[c][v % reps[c].len()]].iter().collect();
                    lb(ctx, &t);
                    cnt += 1;
                }
            }
        }
        ctx.count_n("linebreak_class_triples", cnt);
        ctx.count_n("linebreak_classes_with_a_character", n as u64);
        for _ in 0..ctx.n(20000, 400_000) {
            let len = 1 + ctx.rng.below(8);
            let t: String = (0..len).map(|_| { let r = &reps[ctx.rng.below(n)]; r[ctx.rng.below(r.len())] }).collect();
            lb(ctx, &t);
            ctx.count("linebreak_random_class_sequences");
        }
    }
    for _ in 0..ctx.n(25000, 500_000) {
        let fl = gen::flavor(&mut ctx.rng);
        let mut line = gen::para(&mut ctx.rng, fl, 8);
        if ctx.rng.chance(1, 5) {
            line.push_str(*ctx.rng.pick(&["-", "\u{ad}", " -", "x-", "- "]));
        }
        ctx.count(&format!("flavor_{:?}", fl));
        c11_run(ctx, &line);
    }
}

// ---------------------------------------------------------------------------------------------
// C12: splitting and force-breaking
// ---------------------------------------------------------------------------------------------

fn c12_split(ctx: &mut Ctx, spname: &'static str, word: &str) {
    let w = Word::from(word);
    let pts_op = op_points(spname, w.word);
    ctx.case(pts_op, format!("split_points[{}]({})", spname, show(w.word)));
    let sp = crate::opt::splitter_of(spname);
    let pts = quiet(|| sp.split_points(w.word));
    if spname == "h" {
        let cs: Vec<(usize, char)> = w.word.char_indices().collect();
        let exp: Vec<usize> = (1..cs.len().saturating_sub(1)).filter(|&i| cs[i].1 == '-' && cs[i - 1].1.is_alphanumeric() && cs[i + 1].1.is_alphanumeric()).map(|i| cs[i].0 + 1).collect();
        if pts.as_ref() != Some(&exp) {
            ctx.fail("hyphen split points", format!("split_points({}) = {:?}, expected {:?}", show(w.word), pts, exp), None);
        } else {
            ctx.oracle_ok();
        }
    }
    let mut ww = w;
    if ctx.rng.chance(1, 4) {
        ww.penalty = "-";
    }
    let (op, _) = op_split(spname, &[ww]);
    ctx.case(op, format!("split_words[{}]({:?})", spname, ww));
    // oracle on the real pieces, for splitters whose points satisfy the documented contract
    let valid = pts.as_ref().map(|p| p.windows(2).all(|x| x[0] <= x[1]) && p.iter().all(|&i| i < w.word.len().max(1) && w.word.is_char_boundary(i))).unwrap_or(false);
    let sp2 = crate::opt::splitter_of(spname);
    let pieces = real_split(&sp2, &[ww]);
    match (&pieces, valid) {
        (None, true) => ctx.fail("returns normally", format!("split_words[{}]({:?}) panicked", spname, ww), None),
        (Some(ps), true) => {
            let pts = pts.unwrap();
            let d = || format!("split_words[{}]({:?}) = {:?}", spname, ww, ps);
            let cat: String = ps.iter().map(|p| p.word).collect();
            if cat != ww.word {
                ctx.fail("pieces concatenate to the word", d(), None);
            }
            // cuts exactly at the points
            let mut cuts = Vec::new();
            let mut off = 0;
            for p in &ps[..ps.len().saturating_sub(1)] {
                off += p.word.len();
                cuts.push(off);
            }
            if cuts != pts {
                ctx.fail("cut exactly at the split points", format!("{}; points {:?}", d(), pts), None);
            }
            for (i, p) in ps.iter().enumerate() {
                let last = i + 1 == ps.len();
                if p.width != dw(p.word) {
                    ctx.fail("cached width", d(), None);
                }
                if last {
                    if p.whitespace != ww.whitespace || p.penalty != ww.penalty {
                        ctx.fail("last piece keeps whitespace and penalty", d(), None);
                    }
                } else {
                    let prefix_len: usize = ps[..=i].iter().map(|q| q.word.len()).sum();
                    let want = if ww.word[..prefix_len].ends_with('-') { "" } else { "-" };
                    if p.penalty != want || !p.whitespace.is_empty() {
                        ctx.fail("hyphen penalty iff followed by a piece and not ending in '-'", d(), None);
                    }
                }
            }
            ctx.oracle_ok();
            if ps.len() >= 2 {
                ctx.nontrivial(&(spname, word.to_string()));
            }
        }
        _ => {}
    }
}

fn nonzero_visible(s: &str) -> usize {
    let sc = scan(s);
    s.chars().zip(sc.visible.iter()).filter(|(c, v)| **v && textwrap::verif_hooks::ch_width(*c) > 0).count()
}

fn c12_break(ctx: &mut Ctx, word: &str, limit: usize) {
    let mut w = Word::from(word);
    if ctx.rng.chance(1, 4) {
        w.penalty = "-";
    }
    let (op, pieces) = op_breakapart(limit, &w);
    let d = format!("break_apart({:?}, {})", w, limit);
    ctx.case(op, d.clone());
    let (op2, bw) = op_breakwords(limit, &[w]);
    ctx.case(op2, format!("break_words([{:?}], {})", w, limit));
    if let Some(bw) = &bw {
        if w.width <= limit && bw.as_slice() != [w] {
            ctx.fail("words not wider than the limit pass through", format!("{} = {:?}", d, bw), None);
        }
    }
    let Some(ps) = pieces else {
        ctx.fail("returns normally", format!("{} panicked", d), None);
        return;
    };
    let dd = || format!("{} = {:?}", d, ps);
    let cat: String = ps.iter().map(|p| p.word).collect();
    if cat != w.word {
        ctx.fail("pieces concatenate to the word", dd(), None);
    }
    // every cut is made in skipper state `normal` of the whole word (never inside a sequence)
    let sc = scan(w.word);
    let offs: Vec<usize> = w.word.char_indices().map(|(i, _)| i).collect();
    let mut off = 0;
    for (i, p) in ps.iter().enumerate() {
        let last = i + 1 == ps.len();
        if p.word.is_empty() {
            ctx.fail("pieces are non-empty", dd(), None);
        }
        if off > 0 {
            if let Some(ci) = offs.iter().position(|&o| o == off) {
                if sc.in_seq[ci] && !sc.seq_start[ci] {
                    ctx.fail("never cut inside an escape sequence", dd(), None);
                }
            }
        }
        let true_w = dw(p.word);
        if sc.wellformed && p.width != true_w {
            ctx.fail("cached width", dd(), None);
        }
        if p.width > limit && nonzero_visible(p.word) > 1 {
            ctx.fail("width <= limit unless a single non-zero-width char", dd(), None);
        }
        if !last {
            // maximal: the first visible char of the next piece would not have fitted
            let next = ps[i + 1].word;
            let nsc = scan(next);
            if let Some((c, _)) = next.chars().zip(nsc.visible.iter()).find(|(_, v)| **v) {
                if sc.wellformed && p.width + textwrap::verif_hooks::ch_width(c) <= limit {
                    ctx.fail("maximal pieces", dd(), None);
                }
            }
            if !p.whitespace.is_empty() || !p.penalty.is_empty() {
                ctx.fail("only the last piece carries whitespace and penalty", dd(), None);
            }
        } else if p.whitespace != w.whitespace || p.penalty != w.penalty {
            ctx.fail("last piece keeps whitespace and penalty", dd(), None);
        }
        off += p.word.len();
    }
    ctx.oracle_ok();
    if ps.len() >= 2 {
        ctx.nontrivial(&(word.to_string(), limit));
    }
}

pub fn c12(ctx: &mut Ctx) {
    let alpha: &[&str] = &["a", "-", "é", "\u{301}", "Ｈ", "\x1b", "[", "m", "1"];
    let mut all: Vec<String> = Vec::new();
    gen::enumerate_strings(alpha, if ctx.thorough { 5 } else { 4 }, |s| all.push(s.to_string()));
    for s in &all {
        for sp in ["h", "c1"] {
            c12_split(ctx, sp, s);
        }
        for limit in 0..4 {
            c12_break(ctx, s, limit);
        }
    }
    ctx.count_n("exhaustive_small_words", all.len() as u64);
    for _ in 0..ctx.n(20000, 400_000) {
        let fl = gen::flavor(&mut ctx.rng);
        let mut word = gen::para(&mut ctx.rng, fl, 6).replace('\n', "").replace(' ', "");
        if ctx.rng.chance(1, 3) {
            word.push_str("  ");
        }
        let sp = *ctx.rng.pick(&["n", "h", "h", "c1", "c2", "c3", "c4", "c5"]);
        c12_split(ctx, sp, &word);
        let limit = ctx.rng.below(6);
        c12_break(ctx, &word, limit);
        ctx.count(&format!("splitter_{}", sp));
    }
}

//! Purity stream (every property): the same call twice in a row on the same buffers, and the
//! same buffers overwritten in place with different content of the SAME byte length, must give
//! what a fresh thread gives on fresh strings. Caches keyed by the address and length of a
//! borrowed string, or by the parameters of the previous call, are correct for a single call
//! and for fresh strings; they fail only here. Texts come with a "twin": every token replaced
//! by a token of the same UTF-8 length and a different display width.
use crate::ctx::Ctx;
use crate::gen;
use crate::opt::Opt;
use crate::rng::Rng;
use std::panic::{catch_unwind, AssertUnwindSafe};

/// (token, twin): equal byte length, different display width or different role
const TWINS: &[(&str, &str)] = &[
    ("a", "b"), ("ab", "c "), ("abc", " de"), ("x-y", "xyz"), ("a ", "\u{7f}b"), ("é", "\u{301}"), ("é", "ab"), ("字", "\u{200b}"), ("字", "abc"), ("Ｈ", "€"),
    ("😂", "abcd"), ("😂", "é "), (" ", "a"), ("  ", "é"), ("\x1b[1m", "abcd"), ("\x1b[31m", "ab cd"), ("\x1b[0m", "\x1b]a\x07"), ("-", " "),
];
/// indents of equal byte length and different display width
const INDENT_TWINS: &[(&str, &str)] = &[
    ("    ", "👉"), ("\x1b[1m", "> > "), ("Ｈ ", "--> "), ("> ", "é"), ("[warning]:    ", "\x1b[1;32m=>\x1b[0m "), ("", ""), ("  ", "  "), ("字", " * "), ("\u{200b}", "// "),
];

fn twin_texts(rng: &mut Rng) -> (String, String) {
    let n = 1 + rng.below(10);
    let (mut a, mut b) = (String::new(), String::new());
    for _ in 0..n {
        let (x, y) = *rng.pick(TWINS);
        if rng.chance(1, 2) {
            a.push_str(x);
            b.push_str(y);
        } else {
            a.push_str(y);
            b.push_str(x);
        }
        if rng.chance(1, 3) {
            a.push(' ');
            b.push(' ');
        }
        if rng.chance(1, 12) {
            a.push('\n');
            b.push('\n');
        }
    }
    (a, b)
}

type F = fn(&str, &Opt) -> String;

fn entry_points() -> Vec<(&'static str, F)> {
    vec![
        ("wrap", |t, o| format!("{:?}", textwrap::wrap(t, o.to_options()))),
        ("wrap(&options)", |t, o| {
            let oo = o.to_options();
            format!("{:?}", textwrap::wrap(t, &oo))
        }),
        ("fill", |t, o| textwrap::fill(t, o.to_options())),
        ("refill", |t, o| textwrap::refill(t, o.to_options())),
        ("unfill", |t, _| {
            let (s, o) = textwrap::unfill(t);
            format!("{:?} {} {:?} {:?}", s, o.width, o.initial_indent, o.subsequent_indent)
        }),
        ("wrap_columns(2)", |t, o| format!("{:?}", textwrap::wrap_columns(t, 2, o.to_options(), "| ", " | ", " |"))),
        ("indent", |t, o| textwrap::indent(t, &o.ii)),
        ("dedent", |t, _| textwrap::dedent(t)),
        ("display_width", |t, _| textwrap::core::display_width(t).to_string()),
        ("fill_inplace", |t, o| {
            let mut s = t.to_string();
            textwrap::fill_inplace(&mut s, o.width);
            s
        }),
    ]
}

fn call(f: F, t: &str, o: &Opt) -> String {
    catch_unwind(AssertUnwindSafe(|| f(t, o))).unwrap_or_else(|_| "panic".to_string())
}

fn fresh(f: F, t: &str, o: &Opt) -> String {
    let (t, o) = (t.to_string(), o.clone());
    std::thread::spawn(move || call(f, &t, &o)).join().unwrap_or_else(|_| "panic".to_string())
}

pub fn purity_stream(ctx: &mut Ctx) {
    let eps = entry_points();
    let clause_twice = "the same call twice in a row gives the same result";
    let clause_reuse = "a call on buffers overwritten in place gives what it gives on a fresh thread with fresh strings (no state is carried from one call to the next)";
    let n = ctx.n(400, 6000);
    for k in 0..n {
        // one case in four: a single token (the whole text is one word: what a call measures last is
        // what the next call measures first)
        let (t, twin) = if k % 4 == 1 {
            let (x, y) = *ctx.rng.pick(TWINS);
            if ctx.rng.chance(1, 2) { (x.to_string(), y.to_string()) } else { (y.to_string(), x.to_string()) }
        } else {
            twin_texts(&mut ctx.rng)
        };
        // one case in four without indents (nothing is measured before the text)
        let ((i1, i2), (s1, s2)) = if k % 4 == 2 { (("", ""), ("", "")) } else { (*ctx.rng.pick(INDENT_TWINS), *ctx.rng.pick(INDENT_TWINS)) };
        // widths: small, around the texts, and — one case in eight — a wide layout (column widths
        // beyond 1024, where size caps of caches sit)
        let w = if k % 8 == 0 { [2100usize, 2101, 4200, 70_000][ctx.rng.below(4)] } else { gen::width_for(&mut ctx.rng, &t).min(40) };
        let mut o = gen::options(&mut ctx.rng, w);
        let mut buf = String::with_capacity(t.len().max(twin.len()) + 8);
        o.ii = String::with_capacity(32);
        o.si = String::with_capacity(32);
        ctx.count("purity_cases");
        // `Options::new(width)` / a bare width are the documented defaults of the active feature set
        // (the functions that pick them are cfg-dependent and otherwise never compared)
        {
            let d1 = catch_unwind(AssertUnwindSafe(|| format!("{:?}", textwrap::wrap(&t, w)))).unwrap_or_else(|_| "panic".into());
            let d2 = catch_unwind(AssertUnwindSafe(|| format!("{:?}", textwrap::wrap(&t, Opt::crate_default(w).to_options())))).unwrap_or_else(|_| "panic".into());
            let d3 = catch_unwind(AssertUnwindSafe(|| format!("{:?}", textwrap::wrap(&t, textwrap::Options::new(w))))).unwrap_or_else(|_| "panic".into());
            if d1 != d2 || d3 != d2 {
                ctx.fail("a bare width and Options::new(width) mean the documented default options", format!("wrap({}, {}) = {} / {} with Options::new, but {} with the documented defaults spelled out", crate::proto::show(&t), w, short(&d1), short(&d3), short(&d2)), None);
                continue;
            }
            ctx.oracle_ok();
        }
        // lazy results (`find_words`, `split_words` hand out iterators): two of them alive at the
        // same time and consumed alternately give what each gives when drained on its own — an
        // iterator that reads from a buffer shared between calls fails only here
        {
            let clause_lazy = "two iterators alive at the same time, consumed alternately, give what each gives on its own";
            for sep in ['a', 'u', 'x'] {
                if sep == 'u' && !cfg!(feature = "full") {
                    continue;
                }
                let ws = crate::opt::sep_of(sep);
                let alone = |x: &str| -> Option<Vec<String>> {
                    catch_unwind(AssertUnwindSafe(|| ws.find_words(x).map(|w| format!("{:?}", w)).collect::<Vec<_>>())).ok()
                };
                let (a1, a2) = (alone(&t), alone(&twin));
                let inter = catch_unwind(AssertUnwindSafe(|| {
                    let mut i1 = ws.find_words(&t);
                    let first = i1.next().map(|w| format!("{:?}", w));
                    let mut i2 = ws.find_words(&twin);
                    let (mut r1, mut r2): (Vec<String>, Vec<String>) = (first.into_iter().collect(), Vec::new());
                    loop {
                        let x = i2.next().map(|w| format!("{:?}", w));
                        let y = i1.next().map(|w| format!("{:?}", w));
                        if x.is_none() && y.is_none() {
                            break;
                        }
                        r2.extend(x);
                        r1.extend(y);
                    }
                    (r1, r2)
                })).ok();
                let ok = match (&a1, &a2, &inter) {
                    (Some(a1), Some(a2), Some((r1, r2))) => a1 == r1 && a2 == r2,
                    _ => false,
                };
                if !ok {
                    ctx.fail(clause_lazy, format!("find_words[{}] on {} and on {}: alone {:?} / {:?}, interleaved {:?}", sep, crate::proto::show(&t), crate::proto::show(&twin), a1.map(|v| v.len()), a2.map(|v| v.len()), inter.map(|(a, b)| (short(&a.join(" ")), short(&b.join(" "))))), None);
                } else {
                    ctx.oracle_ok();
                }
                // the same for `split_words` over the two word lists
                for spn in ["h", "n", "c1"] {
                    let sp = crate::opt::splitter_of(spn);
                    let w1: Vec<textwrap::core::Word> = match catch_unwind(AssertUnwindSafe(|| ws.find_words(&t).collect::<Vec<_>>())) { Ok(v) => v, Err(_) => continue };
                    let w2: Vec<textwrap::core::Word> = match catch_unwind(AssertUnwindSafe(|| ws.find_words(&twin).collect::<Vec<_>>())) { Ok(v) => v, Err(_) => continue };
                    let alone = |v: &Vec<textwrap::core::Word>| catch_unwind(AssertUnwindSafe(|| textwrap::word_splitters::split_words(v.clone(), &sp).map(|w| format!("{:?}", w)).collect::<Vec<_>>())).ok();
                    let (b1, b2) = (alone(&w1), alone(&w2));
                    let inter = catch_unwind(AssertUnwindSafe(|| {
                        let mut i1 = textwrap::word_splitters::split_words(w1.clone(), &sp);
                        let mut i2 = textwrap::word_splitters::split_words(w2.clone(), &sp);
                        let (mut r1, mut r2): (Vec<String>, Vec<String>) = (Vec::new(), Vec::new());
                        loop {
                            let x = i1.next().map(|w| format!("{:?}", w));
                            let y = i2.next().map(|w| format!("{:?}", w));
                            if x.is_none() && y.is_none() {
                                break;
                            }
                            r1.extend(x);
                            r2.extend(y);
                        }
                        (r1, r2)
                    })).ok();
                    let ok = match (&b1, &b2, &inter) {
                        (Some(b1), Some(b2), Some((r1, r2))) => b1 == r1 && b2 == r2,
                        (None, _, None) | (_, None, None) => true, // a custom splitter's invalid point panics either way
                        _ => false,
                    };
                    if !ok {
                        ctx.fail(clause_lazy, format!("split_words[{}] over the words of {} and of {}", spn, crate::proto::show(&t), crate::proto::show(&twin)), None);
                    } else {
                        ctx.oracle_ok();
                    }
                }
            }
        }
        // per entry point, back to back: the call, the same call again, then the same buffers
        // overwritten in place (same addresses, same byte lengths, different content) and the call
        // once more, compared with a fresh thread on fresh strings
        for (name, f) in &eps {
            buf.clear();
            buf.push_str(&t);
            o.ii.clear();
            o.ii.push_str(i1);
            o.si.clear();
            o.si.push_str(s1);
            let a = call(*f, &buf, &o);
            let b = call(*f, &buf, &o);
            if a != b {
                ctx.fail(clause_twice, format!("{}({}, {}) = {} the first time and {} the second time", name, crate::proto::show(&buf), o.show(), short(&a), short(&b)), None);
                break;
            }
            ctx.oracle_ok();
            let before = format!("{} / initial_indent {} / subsequent_indent {}", crate::proto::show(&buf), crate::proto::show(&o.ii), crate::proto::show(&o.si));
            buf.clear();
            buf.push_str(&twin);
            o.ii.clear();
            o.ii.push_str(i2);
            o.si.clear();
            o.si.push_str(s2);
            let c = call(*f, &buf, &o);
            let d = fresh(*f, &buf, &o);
            if c != d {
                ctx.fail(clause_reuse, format!("{}({}, {}) = {} right after the same call on the same buffers holding {}; on a fresh thread it gives {}", name, crate::proto::show(&buf), o.show(), short(&c), before, short(&d)), None);
                break;
            }
            ctx.oracle_ok();
        }
    }
}

fn short(s: &str) -> String {
    if s.len() > 300 { format!("{}…", s.chars().take(300).collect::<String>()) } else { s.to_string() }
}

import Props.C06
import Props.C07
import Props.C10
import Props.C19

import Props.C06
import Props.C07
import Props.C10
import Props.C11
import Props.C12
import Props.C18
import Props.C19

import Props.C10

/-
  Driver: line-protocol front end of the model (`lean_exe twdriver`).
  One request per line on stdin, one reply per line on stdout. See harness/src/proto.rs.
-/
import TextwrapModel
import TextwrapModel.Tables
open TW

namespace Drv

def parseText (s : String) : Text :=
  if s.isEmpty then [] else (s.splitOn " ").filterMap fun p => p.toNat?.map Char.ofNat

def showText (t : Text) : String := " ".intercalate (t.map fun c => toString c.toNat)

def parseNats (s : String) : List Nat :=
  if s.isEmpty then [] else (s.splitOn ",").filterMap String.toNat?

def showNats (l : List Nat) : String := ",".intercalate (l.map toString)

def parseFloat (s : String) : Float := Float.ofBits (s.toNat?.getD 0).toUInt64

def parseFloats (s : String) : List Float :=
  if s.isEmpty then [] else (s.splitOn ",").map parseFloat

def parseFrags (s : String) : List (Frag Float) :=
  if s.isEmpty then [] else (s.splitOn ",").map fun f =>
    match f.splitOn ":" with
    | [a, b, c] => ⟨parseFloat a, parseFloat b, parseFloat c⟩
    | _ => ⟨0, 0, 0⟩

def showWord (w : Word) : String :=
  s!"{showText w.word}/{showText w.ws}/{showText w.pen}/{w.width}"

def showWords (ws : List Word) : String := ",".intercalate (ws.map showWord)

def parseWord (s : String) : Word :=
  match s.splitOn "/" with
  | [a, b, c, d] => { word := parseText a, ws := parseText b, pen := parseText c, width := d.toNat?.getD 0 }
  | _ => default

def parseWords (s : String) : List Word :=
  if s.isEmpty then [] else (s.splitOn ",").map parseWord

/-- the custom splitters the harness uses (plain `fn` items on the Rust side) -/
def customPoints (name : String) : Text → List Nat :=
  match name with
  | "c1" => fun w =>        -- every char boundary except 0
    let rec go (off : Nat) : Text → List Nat
      | [] => []
      | c :: cs => (if off = 0 then [] else [off]) ++ go (off + c.utf8Size) cs
    go 0 w
  | "c2" => fun w => [blen w / 2]
  | "c3" => fun w => [blen w]
  | "c4" => fun _ => [2, 1]
  | "c5" => fun w =>        -- directly after every '-', each point twice (merged, undeduplicated lists)
    let rec go5 (off : Nat) : Text → List Nat
      | [] => []
      | c :: cs => (if c = '-' then [off + 1, off + 1] else []) ++ go5 (off + c.utf8Size) cs
    go5 0 w
  | _ => fun _ => []

def parseSplitter (s : String) : Splitter :=
  match s with
  | "n" => .none
  | "h" => .hyphen
  | other => .custom (customPoints other)

structure Tables where
  opps : List (Text × List Nat)
  minima : List (List (UInt64 × UInt64 × UInt64) × List UInt64 × List Nat)

def parseOppsTable (s : String) : List (Text × List Nat) :=
  if s.isEmpty then [] else (s.splitOn ";").map fun e =>
    match e.splitOn "=" with
    | [k, v] => (parseText k, parseNats v)
    | _ => ([], [])

def parseBits (s : String) : List UInt64 :=
  if s.isEmpty then [] else (s.splitOn ",").map fun x => (x.toNat?.getD 0).toUInt64

def parseMinTable (s : String) : List (List (UInt64 × UInt64 × UInt64) × List UInt64 × List Nat) :=
  if s.isEmpty then [] else (s.splitOn ";").map fun e =>
    match e.splitOn "~" with
    | [f, l, r] =>
      let fr := if f.isEmpty then [] else (f.splitOn ",").map fun x =>
        match x.splitOn ":" with
        | [a, b, c] => ((a.toNat?.getD 0).toUInt64, (b.toNat?.getD 0).toUInt64, (c.toNat?.getD 0).toUInt64)
        | _ => (0, 0, 0)
      (fr, parseBits l, parseNats r)
    | _ => ([], [], [])

def cwOf (crude : Bool) (c : Char) : Nat :=
  if crude then cwCrude c else cwUnicode c

def mkEnv (crude : Bool) (opps : List (Text × List Nat)) : Env :=
  { cw := cwOf crude
    isAlnum := isAlnumStd
    isWs := isWsStd
    opps := fun stripped => (opps.lookup stripped).getD [] }

/-- the model's own `linebreaks` (TextwrapModel/Linebreak.lean on the regenerated tables) next to
    what the real crate returned for the same stripped text: empty when they agree on every entry,
    otherwise a suffix that makes the reply differ from the real output -/
def lbCheck (opps : List (Text × List Nat)) : String :=
  match opps.find? fun e => ownOpps lbTables e.1 != e.2 with
  | some e => s!";lb=0[{showText e.1}: model {showNats (ownOpps lbTables e.1)} real {showNats e.2}]"
  | none => ""

/-- minima oracle: what the real `smawk` returned for this very fragment list (recorded by the
    guarded hook); falls back to the model's own `smawk` (TextwrapModel/Smawk.lean) when the table has no entry. -/
def mkMinima (pen : Penalties) (tbl : List (List (UInt64 × UInt64 × UInt64) × List UInt64 × List Nat)) :
    MinimaOracle Float := fun frs lws =>
  let key := frs.map fun f => (f.w.toBits, f.ws.toBits, f.pen.toBits)
  let lk := lws.map Float.toBits
  match tbl.find? fun e => e.1 == key && e.2.1 == lk with
  | some e => e.2.2
  | none => ownMinima pen frs lws

/-- `width,bw,sep,splitter,alg,nline,overflow,frac,shortpen,hyphen,ending` -/
def parseOpts (s ii si : String) : Opts × Penalties :=
  match s.splitOn "," with
  | [w, bw, sep, sp, alg, a, b, c, d, e, le] =>
    let pen : Penalties := ⟨a.toNat?.getD 0, b.toNat?.getD 0, c.toNat?.getD 0, d.toNat?.getD 0, e.toNat?.getD 0⟩
    ({ width := w.toNat?.getD 0
       initialIndent := parseText ii
       subsequentIndent := parseText si
       breakWords := bw == "1"
       sep := if sep == "u" then .unicode else .ascii
       splitter := parseSplitter sp
       alg := if alg == "o" then .optimalFit pen else .firstFit
       lineEnding := if le == "crlf" then .crlf else .lf }, pen)
  | _ => ({ width := 0, initialIndent := [], subsequentIndent := [], breakWords := true, sep := .ascii,
            splitter := .none, alg := .firstFit, lineEnding := .lf }, ⟨0, 0, 0, 0, 0⟩)

def showLineD (d : LineD) : String :=
  let st := if d.borrowed && d.inBuf && !d.slice.isEmpty then toString d.start else "-"
  s!"{showText d.render}/{if d.borrowed then 1 else 0}/{st}"

def showLines (ls : List Text) : String := s!"{ls.length};" ++ ",".intercalate (ls.map showText)

def showOpt {β} (f : β → String) : Option β → String
  | some x => f x
  | none => "panic"

def showEnding : Option LineEnding → String
  | some .lf => "lf"
  | some .crlf => "crlf"
  | none => "-"

def showGroups {β} (gs : List (List β)) : String := showNats (gs.map List.length)

/-- is `rows` a conforming `smawk` answer for this instance? (shape and minimality, checked
    naively against the model's cost closure) -/
def checkMinima (pen : Penalties) (lws : List Float) (frs : List (Frag Float)) (rows : List Nat) : Bool × Bool :=
  let n := frs.length
  let W := prefixWidths frs
  let r := fun j => rows.getD j 0
  let shape := rows.length == n + 1 && rows.getD 0 1 == 0 &&
    (List.range n).all fun k => r (k + 1) < k + 1
  if !shape then (false, false) else
  let tbl := dpTable pen lws frs W r n
  let minimal := (List.range n).all fun k =>
    let j := k + 1
    let pre := tbl.take j
    let dj := (tbl.getD j (0, 0)).1
    (List.range j).all fun i => !(cellCost pen lws frs W pre i j < dj)
  (shape, minimal)


def showOf {β} : OfResult β → String
  | .ok ls => s!"ok:{showGroups ls}"
  | .overflow => "overflow"
  | .panic => "panic"

/-- the costs the real `smawk` run stored (bit patterns, recorded by the hook) against the costs
    of the model's own run: the closure of `wrap_optimal_fit` must compute bit-identical doubles -/
def costsAgree (p : Penalties) (fr : List (Frag Float)) (lw : List Float) (costs : String) : String :=
  if costs.isEmpty || fr.length > 600 then "costs=1" else
  let real := (costs.splitOn ",").map fun c => (c.toNat?.getD 0).toUInt64
  match ownMinimaVec p fr lw with
  | none => "costs=0[model panics]"
  | some v =>
    let mine := v.map fun e => e.2.toBits
    -- all NaNs are one value (sign and payload of a generated NaN are not specified by IEEE 754)
    let isNaN := fun (b : UInt64) => (b &&& 0x7ff0000000000000) == 0x7ff0000000000000 && (b &&& 0x000fffffffffffff) != 0
    let same := fun (a b : UInt64) => a == b || (isNaN a && isNaN b)
    if mine.length == real.length && (List.range mine.length).all (fun i => same (mine.getD i 0) (real.getD i 0)) then "costs=1"
    else
      let k := ((List.range mine.length).find? fun i => !same (mine.getD i 0) (real.getD i 0)).getD 0
      s!"costs=0[column {k}: model {mine.getD k 0} real {real.getD k 0}]"

/-- `of`: back-track the rows the real `smawk` returned; unless `shapeOnly`, also check the
    contract on them (shape, minimality against the model's cost closure) and that the model's
    own naive minima reach the same total cost. -/
def handleOf (frs lws pen rows : String) (shapeOnly : Bool) (costs : String := "") : String :=
  let fr := parseFrags frs
  let lw := parseFloats lws
  let p : Penalties := match parseNats pen with
    | [a, b, c, d, e] => ⟨a, b, c, d, e⟩
    | _ => ⟨0, 0, 0, 0, 0⟩
  let rws := parseNats rows
  let res := showOf (wrapOptimalFitWith (fun (f : Frag Float) => f) p fr lw rws)
  -- the model's own `smawk` (TextwrapModel/Smawk.lean) must return the very rows the real one did
  -- (lists beyond 600 fragments are not re-run: the list-based model of `smawk` is quadratic)
  let sm := if fr.length > 600 then "smawk=1" else
    let own := wrapOptimalFit (fun (f : Frag Float) => f) p fr lw
    if own.2 == rws && showOf own.1 == res then "smawk=1" else s!"smawk=0[{showOf own.1}:{showNats own.2}]"
  let sm := s!"{sm};{costsAgree p fr lw costs}"
  if shapeOnly then s!"{res};{sm}" else
  let (shape, minimal) := checkMinima p lw fr rws
  let n := fr.length
  let W := prefixWidths fr
  let dReal := ((dpTable p lw fr W (fun j => rws.getD j 0) n).getD n (0, 0)).1
  let dNaive := (((naiveMinima p lw fr W n).1).getD n (0, 0)).1
  s!"{res};shape={if shape then 1 else 0};minimal={if minimal then 1 else 0};costeq={if dReal == dNaive then 1 else 0};{sm}"

def handle (crude : Bool) (line : String) : String :=
  match line.splitOn "|" with
  | ["dw", t] => toString (displayWidth (cwOf crude) (parseText t))
  | ["cw", c] => toString (cwOf crude (Char.ofNat (c.toNat?.getD 0)))
  | ["strip", t] => showText (stripAnsi (parseText t))
  | ["c13blocks", hy, ps] =>
    -- paragraphs `B,B,…~tail` joined by `;`, a block is `P/c` (text of the run / code point)
    let paras : List (List Block × Text) := (ps.splitOn ";").map fun p =>
      match p.splitOn "~" with
      | [bsS, tl] =>
        let bs : List Block := if bsS.isEmpty then [] else (bsS.splitOn ",").map fun b =>
          match b.splitOn "/" with
          | [P, c] => (parseText P, Char.ofNat (c.toNat?.getD 0))
          | _ => ([], ' ')
        (bs, parseText tl)
      | _ => ([], [])
    let valid := paras.all fun p => validBB p.1 p.2
    let att := paras.all fun p => attachedB none p.1 p.2
    let nolf := paras.all fun p => !(colOf p.1 p.2).contains (Char.ofNat 10)
    -- `HyphenOk`: no sequence touches a hyphen, spaces are met in state `normal`
    let hyok := hy != "1" || paras.all fun p =>
      noTouchB .normal false (colOf p.1 p.2) && metNormalB (fun c => c == ' ') .normal (colOf p.1 p.2)
    let col := joinWith [Char.ofNat 10] (paras.map fun p => colOf p.1 p.2)
    let vis := joinWith [Char.ofNat 10] (paras.map fun p => visOf p.1)
    s!"valid={if valid then 1 else 0};attached={if att then 1 else 0};nolf={if nolf then 1 else 0};hyphenok={if hyok then 1 else 0};col={showText col};vis={showText vis}"
  | ["seqsafe", hy, t] => if seqSafeB (hy == "1") (parseText t) then "1" else "0"
  | ["words", sep, t, opps] =>
    let text := parseText t
    let env := mkEnv crude [(stripAnsi text, parseNats opps)]
    showOpt showWords (findWords env (if sep == "u" then .unicode else .ascii) text)
      ++ (if sep == "u" then lbCheck [(stripAnsi text, parseNats opps)] else "")
  | ["lb", t] => showNats (ownOpps lbTables (parseText t))
  | ["split", sp, ws] =>
    showOpt showWords (splitWords (mkEnv crude []) (parseSplitter sp) (parseWords ws))
  | ["points", sp, w] =>
    showNats ((parseSplitter sp).points (mkEnv crude []).isAlnum (parseText w))
  | ["breakapart", limit, w] =>
    showWords (breakApart (cwOf crude) (limit.toNat?.getD 0) (parseWord w))
  | ["breakwords", limit, ws] =>
    showWords (breakWords (cwOf crude) (limit.toNat?.getD 0) (parseWords ws))
  | ["ff", frs, lws] =>
    showGroups (wrapFirstFit (fun (f : Frag Float) => f) (parseFrags frs) (parseFloats lws))
  | ["walg", alg, pen, ws, lws, mins] =>
    -- `WrapAlgorithm::wrap` on hand-built words (any penalties, also on the last word)
    let pn := parseNats pen
    let p : Penalties := ⟨pn.getD 0 0, pn.getD 1 0, pn.getD 2 0, pn.getD 3 0, pn.getD 4 0⟩
    let a : Alg := if alg == "o" then .optimalFit p else .firstFit
    showOpt showGroups (wrapAlg (mkMinima p (parseMinTable mins)) a (parseWords ws) (parseNats lws))
  | ["of", frs, lws, pen, rows] => handleOf frs lws pen rows false
  | ["of", frs, lws, pen, rows, "shapeonly"] => handleOf frs lws pen rows true
  | ["of", frs, lws, pen, rows, "costs", cs] => handleOf frs lws pen rows false cs
  | ["of", frs, lws, pen, rows, "shapeonly", "costs", cs] => handleOf frs lws pen rows true cs
  | ["wrap", o, ii, si, t, opps, mins] =>
    let (opts, pen) := parseOpts o ii si
    let env := mkEnv crude (parseOppsTable opps)
    showOpt (fun ls => ",".intercalate (ls.map showLineD)) (wrapD env (mkMinima pen (parseMinTable mins)) opts (parseText t))
      ++ lbCheck (parseOppsTable opps)
  | ["wrapline", path, nprev, o, ii, si, t, opps, mins] =>
    let (opts, pen) := parseOpts o ii si
    let env := mkEnv crude (parseOppsTable opps)
    let mo := mkMinima pen (parseMinTable mins)
    let n := nprev.toNat?.getD 0
    let r := if path == "slow" then wrapSingleLineSlow env mo opts (parseText t) n
             else wrapSingleLine env mo opts (parseText t) n
    showOpt (fun ls => ",".intercalate (ls.map showLineD)) r ++ lbCheck (parseOppsTable opps)
  | ["fill", o, ii, si, t, opps, mins] =>
    let (opts, pen) := parseOpts o ii si
    let env := mkEnv crude (parseOppsTable opps)
    showOpt showText (fill env (mkMinima pen (parseMinTable mins)) opts (parseText t)) ++ lbCheck (parseOppsTable opps)
  | ["fillslow", o, ii, si, t, opps, mins] =>
    let (opts, pen) := parseOpts o ii si
    let env := mkEnv crude (parseOppsTable opps)
    showOpt showText (fillSlow env (mkMinima pen (parseMinTable mins)) opts (parseText t)) ++ lbCheck (parseOppsTable opps)
  | ["fillinplace", w, t] =>
    showOpt showText (fillInplace Float (cwOf crude) (parseText t) (w.toNat?.getD 0))
  | ["nel", t] =>
    ",".intercalate ((nonEmptyLines (parseText t)).map fun (l, e) => s!"{showText l}/{showEnding e}")
  | ["unfill", t] =>
    showOpt (fun (u : Unfilled) =>
      s!"{showText u.text}/{u.width}/{showText u.initialIndent}/{showText u.subsequentIndent}/{showEnding (some u.lineEnding)}")
      (unfill (cwOf crude) (parseText t))
  | ["refill", o, ii, si, t, opps, mins] =>
    let (opts, pen) := parseOpts o ii si
    let env := mkEnv crude (parseOppsTable opps)
    showOpt showText (refill env (mkMinima pen (parseMinTable mins)) opts (parseText t)) ++ lbCheck (parseOppsTable opps)
  | ["indent", t, p] => showText (indent (mkEnv crude []).isWs (parseText t) (parseText p))
  | ["dedent", t] => showText (dedent (mkEnv crude []).isWs (parseText t))
  | ["columns", o, ii, si, t, cols, l, m, r, opps, mins] =>
    let (opts, pen) := parseOpts o ii si
    let env := mkEnv crude (parseOppsTable opps)
    showOpt showLines (wrapColumns env (mkMinima pen (parseMinTable mins)) opts (parseText t)
      (cols.toNat?.getD 0) (parseText l) (parseText m) (parseText r)) ++ lbCheck (parseOppsTable opps)
  | ["std_lines", t] => showLines (lines (parseText t))
  | ["std_splitlf", t] => showLines (splitLF (parseText t))
  | ["std_splitcrlf", t] => showLines (splitCRLF (parseText t))
  | ["std_splitterm", t] => showLines (splitTerminatorLF (parseText t))
  | ["std_trimendsp", t] => showText (trimEndSp (parseText t))
  | ["std_trimendws", t] => showText (trimEndBy (mkEnv crude []).isWs (parseText t))
  | ["std_isws", c] => if (mkEnv crude []).isWs (Char.ofNat (c.toNat?.getD 0)) then "1" else "0"
  | ["std_isalnum", c] => if (mkEnv crude []).isAlnum (Char.ofNat (c.toNat?.getD 0)) then "1" else "0"
  | _ => "bad-op"

partial def loop (hin hout : IO.FS.Stream) (crude : Bool) : IO Unit := do
  let line ← hin.getLine
  if line.isEmpty then return ()
  let l := String.ofList (line.toList.reverse.dropWhile (fun c => c == '\n' || c == '\r')).reverse
  if l == "feature|crude" then
    hout.putStrLn "ok"
    loop hin hout true
  else if l == "feature|unicode" then
    hout.putStrLn "ok"
    loop hin hout false
  else
    hout.putStrLn (handle crude l)
    loop hin hout crude

end Drv

def main : IO Unit := do
  let hin ← IO.getStdin
  let hout ← IO.getStdout
  Drv.loop hin hout false
  hout.flush

/-
  C12 — splitting and force-breaking words is lossless, bounded and escape-safe.
-/
import Lemmas.SplitWords
import Lemmas.Break
import Lemmas.BreakIdem
namespace TW.C12

/-! ### split points of the hyphen splitter -/

/-- the split points are exactly the offsets directly after a `'-'` that has an alphanumeric
    character on both sides -/
-- @audit TW.C12.hyphen_points
theorem hyphen_points (isAlnum : Char → Bool) (w : Text) (o : Nat) :
    o ∈ hyphenPoints isAlnum w ↔
      ∃ a x y b, w = a ++ x :: HY :: y :: b ∧ isAlnum x = true ∧ isAlnum y = true ∧
        o = blen (a ++ [x, HY]) := by
  unfold hyphenPoints
  rw [hyphenPointsGo_mem]
  constructor
  · rintro ⟨a, y, b, h1, h2, h3, h4⟩
    -- `a` is non-empty (the previous char must be alphanumeric)
    cases hl : a.getLast? with
    | none => simp [lastOr, hl] at h3
    | some x =>
      obtain ⟨a', rfl⟩ : ∃ a', a = a' ++ [x] := by
        have := List.getLast?_eq_some_iff.mp hl
        obtain ⟨ys, h⟩ := this; exact ⟨ys, h⟩
      refine ⟨a', x, y, b, by simp [h1], by simpa [lastOr] using h3, h2, ?_⟩
      simp only [blen_append, blen_cons, blen_nil] at h4 ⊢
      have : HY.utf8Size = 1 := by decide
      omega
  · rintro ⟨a, x, y, b, h1, h2, h3, h4⟩
    refine ⟨a ++ [x], y, b, by simp [h1], h3, by simp [lastOr, h2], ?_⟩
    simp only [blen_append, blen_cons, blen_nil] at h4 ⊢
    have : HY.utf8Size = 1 := by decide
    omega

/-- in ascending order -/
-- @audit TW.C12.hyphen_points_sorted
theorem hyphen_points_sorted (isAlnum : Char → Bool) (w : Text) :
    (hyphenPoints isAlnum w).Pairwise (· < ·) := hyphenPointsGo_sorted isAlnum none 0 w

/-! ### `split_words` -/

/-- For split points in the documented range (`< word.len()`), whenever `split_words` returns
    (no slice panics) the pieces satisfy `SplitOK`: cut exactly at the split points, `"-"`
    penalty exactly on a piece that is followed by another and does not already end in `-`,
    original whitespace and penalty on the last piece only, cached widths, nothing lost. -/
-- @audit TW.C12.split_ok
theorem split_ok (cw : Char → Nat) (w : Word) (pts : List Nat) (hlt : ∀ i ∈ pts, i < blen w.word)
    (ps : List Word) (h : splitOne cw w pts 0 = some ps) : SplitOK cw w [] pts ps :=
  splitOne_ok cw w pts 0 [] w.word rfl rfl hlt (Or.inr rfl) ps h

/-- lossless, as a plain equation -/
theorem splitOK_flatten (cw : Char → Nat) (w : Word) (pre : Text) (pts : List Nat) (ps : List Word)
    (h : SplitOK cw w pre pts ps) : pre ++ (ps.map (·.word)).flatten = w.word := by
  induction pts generalizing pre ps with
  | nil =>
    match ps, h with
    | [p], h => simpa [SplitOK] using h.2.2.2
  | cons i pts ih =>
    match ps, h with
    | p :: ps, h =>
      have := ih (pre ++ p.word) ps h.2.2.2.2.2
      simpa using this

-- @audit TW.C12.split_lossless
theorem split_lossless (cw : Char → Nat) (w : Word) (pts : List Nat) (hlt : ∀ i ∈ pts, i < blen w.word)
    (ps : List Word) (h : splitOne cw w pts 0 = some ps) : (ps.map (·.word)).flatten = w.word := by
  simpa using splitOK_flatten cw w [] pts ps (split_ok cw w pts hlt ps h)

/-- the built-in splitters never panic -/
-- @audit TW.C12.split_hyphen_total
theorem split_hyphen_total (cw : Char → Nat) (isAlnum : Char → Bool) (w : Word) :
    ∃ ps, splitOne cw w (hyphenPoints isAlnum w.word) 0 = some ps := by
  apply splitOne_total cw w _ 0 [] w.word rfl rfl
  · intro i hi
    obtain ⟨a, b, h1, h2, _⟩ := hyphenPoints_boundary isAlnum w.word i hi
    exact ⟨a, b, h1, h2⟩
  · refine List.pairwise_cons.mpr ⟨fun _ _ => Nat.zero_le _, ?_⟩
    exact (hyphen_points_sorted isAlnum w.word).imp (fun h => Nat.le_of_lt h)

-- @audit TW.C12.split_none_total
theorem split_none_total (cw : Char → Nat) (w : Word) :
    splitOne cw w [] 0 = some [{ word := w.word, width := displayWidth cw w.word, ws := w.ws, pen := w.pen }] := by
  simp only [splitOne, or_true, if_true]
  have := sliceFrom?_append [] w.word
  simp only [List.nil_append, blen_nil] at this
  rw [this]

/-- with the hyphen splitter `need_hyphen` is always false: every piece ends in `-`, so no
    piece carries an inserted hyphen (C03 and C05 rely on this) -/
-- @audit TW.C12.hyphen_no_inserted_penalty
theorem hyphen_no_inserted_penalty (cw : Char → Nat) (isAlnum : Char → Bool) (w : Word) (hw : w.pen = [])
    (ps : List Word) (h : splitOne cw w (hyphenPoints isAlnum w.word) 0 = some ps) :
    ∀ p ∈ ps, p.pen = [] := by
  have hok := split_ok cw w _ (fun i hi => (hyphenPoints_boundary isAlnum w.word i hi).choose_spec.choose_spec.2.2) ps h
  have key : ∀ (pre : Text) (pts : List Nat) (ps : List Word),
      (∀ i ∈ pts, ∃ a, blen (a ++ [HY]) = i ∧ ∃ b, w.word = a ++ [HY] ++ b) →
      SplitOK cw w pre pts ps → ∀ p ∈ ps, p.pen = [] := by
    intro pre pts
    induction pts generalizing pre with
    | nil =>
      intro ps _ h p hp
      match ps, h with
      | [q], h => simp only [List.mem_singleton] at hp; subst hp; rw [h.2.1, hw]
    | cons i pts ih =>
      intro ps hpts h p hp
      match ps, h with
      | q :: qs, h =>
        obtain ⟨h1, h2, h3, h4, ⟨post, h5⟩, h6⟩ := h
        rcases List.mem_cons.mp hp with rfl | hp
        · -- pre ++ p.word ends in '-'
          obtain ⟨a, ha, b, hb⟩ := hpts i (by simp)
          have : pre ++ p.word = a ++ [HY] := by
            have e : (pre ++ p.word) ++ post = (a ++ [HY]) ++ b := by rw [← h5, hb]
            exact (split_unique e (by omega)).1
          rw [h4, this]; simp
        · exact ih (pre ++ q.word) qs (fun j hj => hpts j (by simp [hj])) h6 p hp
  apply key [] _ ps _ hok
  intro i hi
  obtain ⟨a, y, b, h1, _, _, h4⟩ := (hyphenPointsGo_mem isAlnum none 0 w.word i).mp hi
  refine ⟨a, ?_, y :: b, by simp [h1]⟩
  have : HY.utf8Size = 1 := by decide
  simp only [blen_append, blen_cons, blen_nil]; omega

/-! ### `break_apart` / `break_words` -/

/-- the pieces concatenate to the original word -/
-- @audit TW.C12.break_lossless
theorem break_lossless (cw : Char → Nat) (limit : Nat) (w : Word) :
    ((breakApart cw limit w).map (·.word)).flatten = w.word := by
  simp [breakApart, breakGo_flatten]

/-- every piece is non-empty, caches its display width, has width at most the limit unless it
    holds a single non-zero-width character, is maximal (the first character of the following
    piece is visible and would not have fitted), ends in skipper state `normal` when followed by
    another piece (never cut inside an escape sequence); whitespace and penalty are on the last
    piece only -/
-- @audit TW.C12.break_ok
theorem break_ok (cw : Char → Nat) (limit : Nat) (w : Word) :
    BreakOK cw limit w.ws w.pen (breakApart cw limit w) :=
  breakGo_ok cw limit w.ws w.pen .normal [] 0 w.word rfl rfl (Or.inl (Nat.zero_le _))

/-- words not wider than the limit pass through `break_words` unchanged -/
-- @audit TW.C12.break_words_passthrough
theorem break_words_passthrough (cw : Char → Nat) (limit : Nat) (ws : List Word)
    (h : ∀ w ∈ ws, w.width ≤ limit) : breakWords cw limit ws = ws :=
  breakWords_passthrough cw limit ws h

/-- `break_words` is lossless on the word texts -/
-- @audit TW.C12.break_words_lossless
theorem break_words_lossless (cw : Char → Nat) (limit : Nat) (ws : List Word) :
    ((breakWords cw limit ws).map (·.word)).flatten = (ws.map (·.word)).flatten := by
  induction ws with
  | nil => rfl
  | cons w rest ih =>
    simp only [breakWords, List.map_append, List.flatten_append, ih, List.map_cons, List.flatten_cons]
    split
    · rw [break_lossless]
    · simp

/-! non-vacuity -/
example : hyphenPoints (fun c => c.isAlphanum) "can-be-split".toList = [4, 7] := by decide
example : (breakApart (fun _ => 1) 3 ⟨"Hello!".toList, [' ', ' '], [], 6⟩).map (·.word) =
    ["Hel".toList, "lo!".toList] := by decide

/-- **force-breaking is idempotent**: `break_apart` leaves each of its own pieces alone (the run
    that produced a piece made no cut inside it, and a fresh run replays the same states), hence
    `break_words (break_words ws) = break_words ws` for every limit -/
-- @audit TW.C12.break_apart_idempotent
theorem break_apart_idempotent (cw : Char → Nat) (limit : Nat) (w : Word) :
    ∀ p ∈ breakApart cw limit w, breakApart cw limit p = [p] := breakApart_idem cw limit w

-- @audit TW.C12.break_words_idempotent
theorem break_words_idempotent (cw : Char → Nat) (limit : Nat) (ws : List Word) :
    breakWords cw limit (breakWords cw limit ws) = breakWords cw limit ws := breakWords_idem cw limit ws

end TW.C12

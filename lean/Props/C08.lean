/-
  C08 — every output line carries the configured indent.
-/
import Lemmas.WrapText
namespace TW.C08

section
variable {α : Type} [CostNum α]

/-- `wrap` returns at least one line; the first line carries `initial_indent` and every later
    line `subsequent_indent` — including lines that come from empty or whitespace-only
    paragraphs — independent of break_words, algorithm, separator and splitter -/
-- @audit TW.C08.wrap_indents
theorem wrap_indents (env : Env) (mo : MinimaOracle α) (hmo : MoShape mo) (o : Opts)
    (hr : SplitterInRange env.isAlnum o.splitter) (text : Text) (ds : List LineD)
    (h : wrapD env mo o text = some ds) :
    ds ≠ [] ∧ ∀ k (d : LineD), ds[k]? = some d →
      d.render = (if k = 0 then o.initialIndent else o.subsequentIndent) ++ d.slice ++ d.pen := by
  unfold wrapD at h
  have hs := fun p n ls hl => wrapSingleLine_spec env mo hmo o hr p n ls hl
  obtain ⟨_, _, _, _, hne⟩ := wrapParas_decomp o o.lineEnding.str (wrapSingleLine env mo o) hs _ 0 0 ds h
  refine ⟨hne (splitEnding_ne_nil _ _), ?_⟩
  intro k d hk
  have := (wrapParas_indent o _ (wrapSingleLine env mo o) hs _ 0 0 ds h k d hk).1
  simp only [Nat.zero_add] at this
  simp [LineD.render, this]

/-- a descriptor without its indent -/
def dropIndent (d : LineD) : LineD := { d with indent := [] }

/-- `o'` is `o` with other indents of the same display widths and the same emptiness -/
structure SameIndentShape (cw : Char → Nat) (o o' : Opts) : Prop where
  eq : o' = { o with initialIndent := o'.initialIndent, subsequentIndent := o'.subsequentIndent }
  wi : displayWidth cw o'.initialIndent = displayWidth cw o.initialIndent
  ws : displayWidth cw o'.subsequentIndent = displayWidth cw o.subsequentIndent
  ei : o'.initialIndent.isEmpty = o.initialIndent.isEmpty
  es : o'.subsequentIndent.isEmpty = o.subsequentIndent.isEmpty

theorem reassemble_blind (o o' : Opts) (ei : o'.initialIndent.isEmpty = o.initialIndent.isEmpty)
    (es : o'.subsequentIndent.isEmpty = o.subsequentIndent.isEmpty)
    (line : Text) (groups : List (List Word)) (idx n : Nat) :
    (reassemble o' line groups idx n).map (·.map dropIndent) =
      (reassemble o line groups idx n).map (·.map dropIndent) := by
  induction groups generalizing idx n with
  | nil => simp [reassemble]
  | cons g gs ih =>
    have hind : (if n = 0 then o'.initialIndent else o'.subsequentIndent).isEmpty =
        (if n = 0 then o.initialIndent else o.subsequentIndent).isEmpty := by
      split <;> assumption
    simp only [reassemble]
    cases g.getLast? with
    | none =>
      simp only
      have := ih idx (n + 1)
      cases h1 : reassemble o' line gs idx (n + 1) <;> cases h2 : reassemble o line gs idx (n + 1) <;>
        simp [h1, h2, dropIndent, hind] at this ⊢
      exact this
    | some last =>
      simp only
      split
      · rfl
      · cases hs : slice? line idx (idx + ((g.map fun w => blen w.word + blen w.ws).sum - blen last.ws)) with
        | none => simp
        | some s =>
          have := ih (idx + ((g.map fun w => blen w.word + blen w.ws).sum - blen last.ws) + blen last.ws) (n + 1)
          cases h1 : reassemble o' line gs _ (n + 1) <;> cases h2 : reassemble o line gs _ (n + 1) <;>
            simp [h1, h2, dropIndent, hind] at this ⊢
          exact this

theorem pipeline_blind (env : Env) (o o' : Opts) (h : SameIndentShape env.cw o o') (line : Text) (sw : Nat) :
    pipeline env o' line sw = pipeline env o line sw := by
  have he := h.eq
  unfold pipeline
  rw [he]
  simp only [h.ei]

theorem slow_blind (env : Env) (mo : MinimaOracle α) (o o' : Opts)
    (h : SameIndentShape env.cw o o') (line : Text) (n : Nat) :
    (wrapSingleLineSlow env mo o' line n).map (·.map dropIndent) =
      (wrapSingleLineSlow env mo o line n).map (·.map dropIndent) := by
  have hw : o'.width = o.width := by rw [h.eq]
  have halg : o'.alg = o.alg := by rw [h.eq]
  unfold wrapSingleLineSlow
  simp only [h.wi, h.ws, hw, pipeline_blind env o o' h, halg]
  cases pipeline env o line (o.width - displayWidth env.cw o.subsequentIndent) with
  | none => rfl
  | some words =>
    simp only
    cases wrapAlg mo o.alg words _ with
    | none => rfl
    | some groups => exact reassemble_blind o o' h.ei h.es line groups 0 n

theorem wrapSingleLine_blind (env : Env) (mo : MinimaOracle α) (o o' : Opts)
    (h : SameIndentShape env.cw o o') (line : Text) (n : Nat) :
    (wrapSingleLine env mo o' line n).map (·.map dropIndent) =
      (wrapSingleLine env mo o line n).map (·.map dropIndent) := by
  have hind : (if n = 0 then o'.initialIndent else o'.subsequentIndent).isEmpty =
      (if n = 0 then o.initialIndent else o.subsequentIndent).isEmpty := by
    split
    · exact h.ei
    · exact h.es
  have hw : o'.width = o.width := by rw [h.eq]
  unfold wrapSingleLine
  by_cases hc : blen line < o.width ∧ (if n = 0 then o.initialIndent else o.subsequentIndent).isEmpty = true
  · have hc' : blen line < o'.width ∧ (if n = 0 then o'.initialIndent else o'.subsequentIndent).isEmpty = true := by
      rw [hw, hind]; exact hc
    rw [if_pos hc, if_pos hc']
  · have hc' : ¬ (blen line < o'.width ∧ (if n = 0 then o'.initialIndent else o'.subsequentIndent).isEmpty = true) := by
      rw [hw, hind]; exact hc
    rw [if_neg hc, if_neg hc']
    exact slow_blind env mo o o' h line n

theorem wrapParas_blind (elen : Nat) (s s' : Text → Nat → Option (List LineD))
    (hs : ∀ p n, (s' p n).map (·.map dropIndent) = (s p n).map (·.map dropIndent))
    (paras : List Text) (off n : Nat) :
    (wrapParas elen s' paras off n).map (·.map dropIndent) =
      (wrapParas elen s paras off n).map (·.map dropIndent) := by
  induction paras generalizing off n with
  | nil => rfl
  | cons p ps ih =>
    simp only [wrapParas]
    have h1 := hs p n
    cases e1 : s' p n with
    | none =>
      cases e2 : s p n with
      | none => rfl
      | some l2 => rw [e1, e2] at h1; simp at h1
    | some l1 =>
      cases e2 : s p n with
      | none => rw [e1, e2] at h1; simp at h1
      | some l2 =>
        rw [e1, e2] at h1
        simp only [Option.map_some, Option.some.injEq] at h1
        have hlen : l1.length = l2.length := by
          have := congrArg List.length h1; simpa using this
        simp only
        rw [hlen]
        have h2 := ih (off + blen p + elen) (n + l2.length)
        cases e3 : wrapParas elen s' ps (off + blen p + elen) (n + l2.length) <;>
          cases e4 : wrapParas elen s ps (off + blen p + elen) (n + l2.length) <;>
          rw [e3, e4] at h2 <;> simp at h2 ⊢
        rw [h2]
        congr 1
        have comm : ∀ l : List LineD, List.map (dropIndent ∘ fun d => { d with start := d.start + off }) l =
            (l.map dropIndent).map fun d => { d with start := d.start + off } := by
          intro l; rw [List.map_map]; rfl
        rw [comm, comm, h1]

/-- **what follows the indent depends only on the indents' display widths and emptiness, not on
    their characters**: two option sets that differ only in such indents give the same lines up
    to the indent field (same slices, offsets, penalties, Cow variants; in particular the same
    number of lines) -/
-- @audit TW.C08.wrap_body_indent_blind
theorem wrap_body_indent_blind (env : Env) (mo : MinimaOracle α) (o o' : Opts)
    (h : SameIndentShape env.cw o o') (text : Text) :
    (wrapD env mo o' text).map (·.map dropIndent) = (wrapD env mo o text).map (·.map dropIndent) := by
  have hle : o'.lineEnding = o.lineEnding := by rw [h.eq]
  unfold wrapD
  rw [hle]
  exact wrapParas_blind _ _ _ (wrapSingleLine_blind env mo o o' h) _ 0 0

end

/-! non-vacuity: an empty paragraph in the middle still gets the subsequent indent (repaired F2) -/
example :
    let env : Env := { cw := fun _ => 1, isAlnum := fun c => c.isAlphanum, isWs := fun c => c = ' ', opps := fun _ => [] }
    let o : Opts := { width := 80, initialIndent := [], subsequentIndent := ['|', ' '], breakWords := true,
                      sep := .ascii, splitter := .hyphen, alg := .firstFit, lineEnding := .lf }
    (wrap (α := Int) env (fun _ _ => []) o "foo\n\nbar".toList).map (·.map String.ofList) =
      some ["foo", "| ", "| bar"] := by decide

end TW.C08

/-
  C20 — wrap_columns lays text out in aligned columns, column-major, never failing.
-/
import TextwrapModel.Columns
import Lemmas.Ansi
namespace TW.C20

/-- the cell in row `r`, column `c`: the wrapped line `r + c * linesPerColumn` padded with
    spaces to the column width (a wider line protrudes), or blanks if there is no such line -/
def cell (cw : Char → Nat) (wrapped : List Text) (columnWidth lpc r c : Nat) : Text :=
  match wrapped[r + c * lpc]? with
  | some l => l ++ spaces (columnWidth - displayWidth cw l)
  | none => spaces columnWidth

/-- what follows the cell of column `c` -/
def sepAfter (columns : Nat) (middle lastPad : Text) (c : Nat) : Text :=
  if c = columns - 1 then lastPad else middle

theorem columnsRow_eq (cw : Char → Nat) (wrapped : List Text) (columns columnWidth lpc : Nat)
    (middle lastPad : Text) (r fuel c0 : Nat) :
    columnsRow cw wrapped columns columnWidth lpc middle lastPad r fuel c0 =
      some ((List.range' c0 fuel).map fun c =>
        cell cw wrapped columnWidth lpc r c ++ sepAfter columns middle lastPad c).flatten := by
  induction fuel generalizing c0 with
  | zero => simp [columnsRow]
  | succ fuel ih =>
    simp only [columnsRow, ih (c0 + 1), List.range'_succ, List.map_cons, List.flatten_cons]
    cases h : wrapped[r + c0 * lpc]? <;> simp [cell, sepAfter, h]

theorem collectRows_some (f : Nat → Option Text) (g : Nat → Text) (h : ∀ r, f r = some (g r))
    (rs : List Nat) : collectRows f rs = some (rs.map g) := by
  induction rs with
  | nil => rfl
  | cons r rs ih => simp [collectRows, h r, ih]

section
variable {α : Type} [CostNum α]

/-- the layout parameters -/
def innerWidth (cw : Char → Nat) (width columns : Nat) (left middle right : Text) : Nat :=
  width - displayWidth cw left - displayWidth cw right - displayWidth cw middle * (columns - 1)
def columnWidth (cw : Char → Nat) (width columns : Nat) (left middle right : Text) : Nat :=
  max (innerWidth cw width columns left middle right / columns) 1
def linesPerColumn (n columns : Nat) : Nat := n / columns + (if n % columns > 0 then 1 else 0)

/-- **never failing, row layout.** For any column count ≥ 1, whenever `wrap` at the computed
    column width returns, `wrap_columns` returns `linesPerColumn` rows, and every row is the left
    gap, then the cells of columns `0 .. columns-1` each followed by the middle gap (the last one
    by the remainder padding `inner_width % column_width`), then the right gap. A line wider
    than its column protrudes (its padding is empty) instead of making the call fail. -/
-- @audit TW.C20.columns_rows
theorem columns_rows (env : Env) (mo : MinimaOracle α) (o : Opts) (text : Text) (columns : Nat)
    (left middle right : Text) (hc : 1 ≤ columns) (wrapped : List Text)
    (hw : wrap env mo { o with width := columnWidth env.cw o.width columns left middle right } text = some wrapped) :
    wrapColumns env mo o text columns left middle right =
      some ((List.range (linesPerColumn wrapped.length columns)).map fun r =>
        left ++ ((List.range columns).map fun c =>
          cell env.cw wrapped (columnWidth env.cw o.width columns left middle right)
            (linesPerColumn wrapped.length columns) r c ++
          sepAfter columns middle
            (spaces (innerWidth env.cw o.width columns left middle right %
              columnWidth env.cw o.width columns left middle right)) c).flatten ++ right) := by
  unfold wrapColumns
  have hne : columns ≠ 0 := by omega
  simp only [hne, if_false]
  unfold columnWidth innerWidth at hw
  rw [hw]
  unfold linesPerColumn columnWidth innerWidth
  apply collectRows_some
  intro r
  rw [columnsRow_eq]
  simp [List.range_eq_range']

/-- **column-major cover.** Every wrapped line occupies exactly one cell: line `i` sits in row
    `i % linesPerColumn`, column `i / linesPerColumn`, which is a valid column -/
-- @audit TW.C20.columns_major
theorem columns_major (n columns : Nat) (hc : 1 ≤ columns) (i : Nat) (hi : i < n) :
    let lpc := linesPerColumn n columns
    i % lpc < lpc ∧ i / lpc < columns ∧ i = i % lpc + (i / lpc) * lpc := by
  intro lpc
  have hlpc : 0 < lpc := by
    show 0 < linesPerColumn n columns
    unfold linesPerColumn
    by_cases h : n % columns > 0
    · simp [h]
    · simp only [h, if_false, Nat.add_zero]
      have : n % columns = 0 := by omega
      have hdiv := Nat.div_add_mod n columns
      rw [this] at hdiv
      rcases Nat.eq_zero_or_pos (n / columns) with h0 | h0
      · rw [h0] at hdiv; omega
      · exact h0
  have hcap : n ≤ lpc * columns := by
    show n ≤ linesPerColumn n columns * columns
    unfold linesPerColumn
    have hdiv := Nat.div_add_mod n columns
    have hmod := Nat.mod_lt n (by omega : columns > 0)
    by_cases h : n % columns > 0
    · simp only [h, if_true, Nat.add_mul, Nat.one_mul]
      have : n / columns * columns = columns * (n / columns) := Nat.mul_comm _ _
      omega
    · simp only [h, if_false, Nat.add_zero]
      have : n / columns * columns = columns * (n / columns) := Nat.mul_comm _ _
      omega
  refine ⟨Nat.mod_lt _ hlpc, ?_, ?_⟩
  · apply Nat.div_lt_of_lt_mul
    calc i < n := hi
      _ ≤ lpc * columns := hcap
  · have := Nat.mod_add_div i lpc
    rw [Nat.mul_comm] at this
    exact this.symm

/-- cells whose index is beyond the last wrapped line are blank -/
-- @audit TW.C20.cell_blank
theorem cell_blank (cw : Char → Nat) (wrapped : List Text) (columnWidth lpc r c : Nat)
    (h : wrapped.length ≤ r + c * lpc) : cell cw wrapped columnWidth lpc r c = spaces columnWidth := by
  unfold cell
  rw [List.getElem?_eq_none h]

/-- the cell of a wrapped line is that line followed by padding only (removing the padding gives
    back the line) -/
-- @audit TW.C20.cell_line
theorem cell_line (cw : Char → Nat) (wrapped : List Text) (columnWidth lpc r c : Nat) (l : Text)
    (h : wrapped[r + c * lpc]? = some l) :
    cell cw wrapped columnWidth lpc r c = l ++ spaces (columnWidth - displayWidth cw l) := by
  unfold cell; rw [h]

theorem dw_spaces (cw : Char → Nat) (hsp : cw SP = 1) (n : Nat) : displayWidth cw (spaces n) = n := by
  unfold displayWidth spaces
  rw [dwFrom_normal_escfree]
  · induction n with
    | zero => rfl
    | succ n ih => simp [List.replicate_succ, hsp, ih]; omega
  · intro c hc
    have := List.eq_of_mem_replicate hc
    subst this; decide

theorem run_spaces (n : Nat) : Ansi.run .normal (spaces n) = .normal := by
  apply run_normal_escfree
  intro c hc
  have := List.eq_of_mem_replicate hc
  subst this; decide

/-- a cell of a line that fits has exactly the column width (for text ending in skipper state
    `normal`, `' '` one column wide) -/
-- @audit TW.C20.cell_width
theorem cell_width (cw : Char → Nat) (hsp : cw SP = 1) (wrapped : List Text) (columnWidth lpc r c : Nat)
    (hfit : ∀ l ∈ wrapped, displayWidth cw l ≤ columnWidth ∧ Ansi.run .normal l = .normal) :
    displayWidth cw (cell cw wrapped columnWidth lpc r c) = columnWidth ∧
      Ansi.run .normal (cell cw wrapped columnWidth lpc r c) = .normal := by
  unfold cell
  cases h : wrapped[r + c * lpc]? with
  | none => exact ⟨dw_spaces cw hsp _, run_spaces _⟩
  | some l =>
    obtain ⟨h1, h2⟩ := hfit l (List.mem_of_getElem? h)
    simp only
    refine ⟨?_, by rw [run_append, h2, run_spaces]⟩
    unfold displayWidth at *
    rw [dwFrom_append, h2]
    have := dw_spaces cw hsp (columnWidth - dwFrom cw .normal l)
    unfold displayWidth at this
    rw [this]; omega

/-- **uniform width.** When no wrapped line is wider than the column width, every row has the
    display width `left + right + (columns-1)·middle + columns·column_width + inner % column_width` -/
-- @audit TW.C20.row_width
theorem row_width (cw : Char → Nat) (hsp : cw SP = 1) (wrapped : List Text) (columns columnWidth lpc r : Nat)
    (left middle right : Text) (pad : Nat) (hc : 1 ≤ columns)
    (hfit : ∀ l ∈ wrapped, displayWidth cw l ≤ columnWidth ∧ Ansi.run .normal l = .normal)
    (hl : Ansi.run .normal left = .normal) (hm : Ansi.run .normal middle = .normal) :
    displayWidth cw (left ++ ((List.range columns).map fun c =>
        cell cw wrapped columnWidth lpc r c ++ sepAfter columns middle (spaces pad) c).flatten ++ right) =
      displayWidth cw left + displayWidth cw right + (columns - 1) * displayWidth cw middle +
        columns * columnWidth + pad := by
  -- width and final state of the first `k` cells with their separators, for `k ≤ columns`
  have body : ∀ k, k ≤ columns →
      Ansi.run .normal ((List.range k).map fun c =>
        cell cw wrapped columnWidth lpc r c ++ sepAfter columns middle (spaces pad) c).flatten = .normal ∧
      dwFrom cw .normal ((List.range k).map fun c =>
        cell cw wrapped columnWidth lpc r c ++ sepAfter columns middle (spaces pad) c).flatten =
        k * columnWidth + (if k = columns then (columns - 1) * displayWidth cw middle + pad
                           else k * displayWidth cw middle) := by
    intro k
    induction k with
    | zero => intro _; simp [Ansi.run, dwFrom]; omega
    | succ k ih =>
      intro hk
      obtain ⟨r1, r2⟩ := ih (by omega)
      obtain ⟨c1, c2⟩ := cell_width cw hsp wrapped columnWidth lpc r k hfit
      have hsep : Ansi.run .normal (sepAfter columns middle (spaces pad) k) = .normal := by
        unfold sepAfter; split
        · exact run_spaces _
        · exact hm
      have hsepw : dwFrom cw .normal (sepAfter columns middle (spaces pad) k) =
          if k = columns - 1 then pad else displayWidth cw middle := by
        unfold sepAfter; split
        · exact dw_spaces cw hsp pad
        · rfl
      simp only [List.range_succ, List.map_append, List.flatten_append, List.map_cons, List.map_nil,
        List.flatten_cons, List.flatten_nil, List.append_nil]
      refine ⟨by rw [run_append, r1, run_append, c2, hsep], ?_⟩
      rw [dwFrom_append, r1, r2, dwFrom_append, c2, hsepw]
      unfold displayWidth at c1
      rw [c1]
      by_cases hlast : k + 1 = columns
      · subst hlast
        have e1 : ¬ k = k + 1 := by omega
        have e2 : k + 1 - 1 = k := by omega
        simp only [e1, e2, if_false, if_true, Nat.add_mul, Nat.one_mul]
        omega
      · have e1 : ¬ k = columns := by omega
        have e2 : ¬ k = columns - 1 := by omega
        simp only [e1, e2, hlast, if_false, Nat.add_mul, Nat.one_mul]; omega
  obtain ⟨b1, b2⟩ := body columns (Nat.le_refl _)
  unfold displayWidth at *
  rw [dwFrom_append, dwFrom_append, run_append, hl, b1, b2]
  simp only [if_true]
  omega

end
end TW.C20

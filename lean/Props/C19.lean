/-
  C19 — indent prefixes every line and preserves line structure.
-/
import TextwrapModel.Indent
import Lemmas.Split
namespace TW.C19

/-- what `indent` does to one line -/
def lineImage (isWs : Char → Bool) (pre : Text) (l : Text) : Text :=
  (if l.all isWs then trimEndBy isWs pre else pre) ++ l

theorem indentLines_succ (isWs : Char → Bool) (pre tp : Text) (ls : List Text) (k : Nat) :
    indentLines isWs pre tp ls (k + 1) =
      (ls.map fun l => [LF] ++ ((if l.all isWs then tp else pre) ++ l)).flatten := by
  induction ls generalizing k with
  | nil => simp [indentLines]
  | cons l rest ih => simp [indentLines, ih, List.append_assoc]

theorem joinWith_eq_flatten (sep a : Text) (r : List Text) :
    joinWith sep (a :: r) = a ++ (r.map fun l => sep ++ l).flatten := by
  induction r generalizing a with
  | nil => simp [joinWith]
  | cons b r ih => rw [joinWith_cons_cons, ih]; simp [List.append_assoc]

/-- **indent_spec**: the output is the images of the `split_terminator('\n')` pieces joined by
    `'\n'`, plus the final newline iff the input had one: every line containing a
    non-whitespace char becomes `p ++ line`, every other line `trim_end(p) ++ line`. -/
-- @audit TW.C19.indent_spec
theorem indent_spec (isWs : Char → Bool) (s pre : Text) :
    indent isWs s pre =
      joinWith [LF] ((splitTerminatorLF s).map (lineImage isWs pre)) ++
        (if s.getLast? = some LF then [LF] else []) := by
  unfold indent
  congr 1
  cases h : splitTerminatorLF s with
  | nil => simp [indentLines, joinWith]
  | cons l rest =>
    simp only [indentLines, List.map_cons, joinWith_eq_flatten, indentLines_succ, lineImage,
      if_true, List.nil_append, List.map_map, List.append_assoc]
    rfl

/-- the lines of the output are the images of the lines of the input, one for one -/
-- @audit TW.C19.indent_line_count
theorem indent_line_count (isWs : Char → Bool) (s pre : Text) :
    ((splitTerminatorLF s).map (lineImage isWs pre)).length = (splitTerminatorLF s).length := by
  simp

/-- `indent(s, "") = s` -/
-- @audit TW.C19.indent_empty_prefix
theorem indent_empty_prefix (isWs : Char → Bool) (s : Text) : indent isWs s [] = s := by
  rw [indent_spec]
  have : (splitTerminatorLF s).map (lineImage isWs []) = splitTerminatorLF s := by
    have hf : lineImage isWs [] = id := by funext l; simp [lineImage, trimEndBy]
    rw [hf]; simp
  rw [this, joinWith_splitTerminatorLF]

/-- with a prefix that contains no newline, no output line image contains one, so the number of
    `'\n'` characters (hence of lines) is that of the input -/
-- @audit TW.C19.lineImage_no_LF
theorem lineImage_no_LF (isWs : Char → Bool) (pre l : Text) (hp : LF ∉ pre) (hl : LF ∉ l)
    (htrim : ∀ c ∈ trimEndBy isWs pre, c ∈ pre) : LF ∉ lineImage isWs pre l := by
  unfold lineImage
  intro h
  rcases List.mem_append.mp h with h | h
  · split at h
    · exact hp (htrim _ h)
    · exact hp h
  · exact hl h

theorem trimEndBy_subset (p : Char → Bool) (t : Text) : ∀ c ∈ trimEndBy p t, c ∈ t := by
  induction t with
  | nil => simp [trimEndBy]
  | cons d ds ih =>
    intro c hc
    simp only [trimEndBy] at hc
    split at hc
    · split at hc
      · simp at hc
      · simp at hc; simp [hc]
    · next r hr =>
      rcases List.mem_cons.mp hc with h | h
      · simp [h]
      · exact List.mem_cons_of_mem _ (ih c h)

/-- pieces of the input contain no `'\n'` -/
theorem splitTerminator_no_LF (s : Text) : ∀ l ∈ splitTerminatorLF s, LF ∉ l := by
  intro l hl
  have hsub : ∀ x ∈ splitTerminatorLF s, x ∈ splitLF s := by
    intro x hx
    unfold splitTerminatorLF at hx
    simp only at hx
    split at hx
    · exact mem_of_mem_dropLast hx
    · exact hx
  exact splitLF_no_LF s l (hsub l hl)

/-- **same newline structure**: for a prefix without `'\n'`, every output line is `'\n'`-free,
    i.e. the output has exactly the input's line breaks -/
-- @audit TW.C19.indent_lines_LF_free
theorem indent_lines_LF_free (isWs : Char → Bool) (s pre : Text) (hp : LF ∉ pre) :
    ∀ l ∈ (splitTerminatorLF s).map (lineImage isWs pre), LF ∉ l := by
  intro l hl
  obtain ⟨l0, h0, rfl⟩ := List.mem_map.mp hl
  exact lineImage_no_LF isWs pre l0 hp (splitTerminator_no_LF s l0 h0) (trimEndBy_subset isWs pre)

/-! non-vacuity / sanity on concrete input (tests, labelled as such) -/
example : indent (fun c => c = ' ') ['a', LF, LF, ' ', 'b', LF] ['>', ' '] =
    ['>', ' ', 'a', LF, '>', LF, '>', ' ', ' ', 'b', LF] := by decide

end TW.C19

/-
  C04 — public functions are total: no panic, hang or overflow error on any input.

  In the model every Rust panic site (slice out of range or off a char boundary, `usize`
  underflow, `unwrap`, index) is an explicit `none`; Lean functions terminate by construction
  (structural recursion; the two `loop`s take fuel). A function of the model that does not return
  `Option` has no panic site at all. This file collects, for every public entry point, the
  theorem that its `none` is unreachable, and the panic-site inventory.
-/
import Props.C01
import Props.C05
import Props.C06
import Props.C12
import Props.C17
import Props.C20
import TextwrapModel.Indent
import Lemmas.Smawk
import Lemmas.OptimalBound
import Lemmas.LinebreakTable
namespace TW.C04

/-! ### entry points without any panic site (total by construction) -/

example : (Char → Nat) → Text → Nat := displayWidth                      -- display_width
example : (Char → Nat) → Text → List Word := findWordsAscii               -- AsciiSpace.find_words
example : (Char → Nat) → Nat → Word → List Word := breakApart             -- Word::break_apart
example : (Char → Nat) → Nat → List Word → List Word := breakWords        -- break_words
example : (Char → Bool) → Text → Text → Text := indent                    -- indent
example : (Char → Bool) → Text → Text := dedent                           -- dedent
example : Text → List (Text × Option LineEnding) := nonEmptyLines         -- NonEmptyLines
/-- `wrap_first_fit` for any number type whatsoever (NaN, ±∞ included) -/
example {α : Type} [Add α] [LT α] [Zero α] [DecidableRel (α := α) (· < ·)] :
    (Frag α → Frag α) → List (Frag α) → List α → List (List (Frag α)) := wrapFirstFit

/-! ### word finding, splitting -/

/-- the Unicode separator panics only if an opportunity is not a char boundary of the stripped
    text; `unicode_linebreak` returns char boundaries (validated on every call) -/
-- @audit TW.C04.findWordsUnicode_total
theorem findWordsUnicode_total (env : Env) (line : Text)
    (hb : ∀ o ∈ env.opps (stripAnsi line), o < blen (stripAnsi line) →
      ∃ l r, stripAnsi line = l ++ r ∧ blen l = o) :
    ∃ ws, findWordsUnicode env line = some ws :=
  _root_.TW.findWordsUnicode_total env line hb

/-- `split_words` with the built-in splitters never panics -/
-- @audit TW.C04.splitWords_builtin_total
theorem splitWords_builtin_total (env : Env) (sp : Splitter) (hb : Builtin sp) (ws : List Word) :
    ∃ sw, splitWords env sp ws = some sw := by
  cases h : splitWords env sp ws with
  | some sw => exact ⟨sw, rfl⟩
  | none => exact absurd h (fun h => TW.C05.shortcut_sound_ascii_escfree.splitWords_total env sp hb ws h)

/-! ### the two algorithms -/

/-- optimal-fit never panics (index, endless loop) on rows of the `smawk` shape, for any number
    type; over exact arithmetic it never reports `OverflowError` either -/
-- @audit TW.C04.optimalFit_no_panic
theorem optimalFit_no_panic {β : Type} (m : β → Frag Int) (pen : Penalties) (frs : List β) (lws : List Int)
    (rows : List Nat) (hs : RowsShape rows frs.length) :
    ∃ lines, wrapOptimalFitWith m pen frs lws rows = .ok lines := by
  rcases optimalFit_partition m pen frs lws rows hs with ho | ⟨ls, h, _⟩
  · exfalso
    unfold wrapOptimalFitWith at ho
    simp only [CostNum.isInf, List.any_eq_true, Bool.false_eq_true, and_false, exists_false, if_false] at ho
    split at ho <;> simp at ho
  · exact ⟨ls, h⟩

/-! ### `wrap`, `fill`, `wrap_columns` -/

/-- the slow path is total once the pipeline and the algorithm return -/
-- @audit TW.C04.wrapSingleLine_total
theorem wrapSingleLine_total (env : Env) (mo : MinimaOracle Int) (hmo : MoShape mo) (o : Opts)
    (hb : Builtin o.splitter)
    (hsep : o.sep = .ascii ∨ ∀ line : Text, ∀ o' ∈ env.opps (stripAnsi line), o' < blen (stripAnsi line) →
      ∃ l r, stripAnsi line = l ++ r ∧ blen l = o')
    (line : Text) (nPrev : Nat) : ∃ ds, wrapSingleLine env mo o line nPrev = some ds := by
  unfold wrapSingleLine
  by_cases hcnd : blen line < o.width ∧ (if nPrev = 0 then o.initialIndent else o.subsequentIndent).isEmpty = true
  · rw [if_pos hcnd]; exact ⟨_, rfl⟩
  · rw [if_neg hcnd]
    unfold wrapSingleLineSlow
    -- pipeline
    have hp : ∃ frs, pipeline env o line (o.width - displayWidth env.cw o.subsequentIndent) = some frs := by
      unfold pipeline
      have hf : ∃ ws, findWords env o.sep line = some ws := by
        rcases hsep with h | h
        · rw [h]; exact ⟨_, rfl⟩
        · cases o.sep with
          | ascii => exact ⟨_, rfl⟩
          | unicode => exact findWordsUnicode_total env line (h line)
      obtain ⟨ws, hws⟩ := hf
      obtain ⟨sw, hsw⟩ := splitWords_builtin_total env o.splitter hb ws
      simp only [hws, hsw]
      split <;> (try split) <;> exact ⟨_, rfl⟩
    obtain ⟨frs, hfrs⟩ := hp
    obtain ⟨c1, _⟩ := pipeline_contig env o (builtin_inRange _ _ hb) line _ frs hfrs
    simp only [hfrs]
    -- algorithm
    have ha : ∃ groups, wrapAlg mo o.alg frs
        [if nPrev = 0 then o.width - displayWidth env.cw o.initialIndent
         else o.width - displayWidth env.cw o.subsequentIndent,
         o.width - displayWidth env.cw o.subsequentIndent] = some groups := by
      cases o.alg with
      | firstFit => exact ⟨_, rfl⟩
      | optimalFit p =>
        unfold wrapAlg
        have hsh := hmo (frs.map fragOf) (List.map CostNum.ofNat
          [if nPrev = 0 then o.width - displayWidth env.cw o.initialIndent
           else o.width - displayWidth env.cw o.subsequentIndent,
           o.width - displayWidth env.cw o.subsequentIndent])
        rw [List.length_map] at hsh
        obtain ⟨ls, hls⟩ := optimalFit_no_panic (fragOf (α := Int)) p frs (List.map CostNum.ofNat
          [if nPrev = 0 then o.width - displayWidth env.cw o.initialIndent
           else o.width - displayWidth env.cw o.subsequentIndent,
           o.width - displayWidth env.cw o.subsequentIndent]) _ hsh
        exact ⟨ls, by simp only [hls]⟩
    obtain ⟨groups, hg⟩ := ha
    simp only [hg]
    obtain ⟨p1, _⟩ := wrapAlg_partition mo hmo o.alg frs _ groups hg
    exact ⟨_, reassemble_eq_spec o line [] groups 0 nPrev (by simp [p1, c1]) rfl⟩

theorem wrapParas_total (elen : Nat) (single : Text → Nat → Option (List LineD))
    (hs : ∀ p n, ∃ ds, single p n = some ds) (paras : List Text) (off n : Nat) :
    ∃ ds, wrapParas elen single paras off n = some ds := by
  induction paras generalizing off n with
  | nil => exact ⟨[], rfl⟩
  | cons p ps ih =>
    obtain ⟨ls, hl⟩ := hs p n
    obtain ⟨r, hr⟩ := ih (off + blen p + elen) (n + ls.length)
    exact ⟨(ls.map fun d => { d with start := d.start + off }) ++ r, by simp [wrapParas, hl, hr]⟩

/-- **`wrap` and `fill` are total** for every text, width, indents, break_words setting, both
    algorithms (given the `smawk` shape contract), the ASCII separator or the Unicode separator
    with char-boundary opportunities, and the built-in splitters -/
-- @audit TW.C04.wrap_total
theorem wrap_total (env : Env) (mo : MinimaOracle Int) (hmo : MoShape mo) (o : Opts) (hb : Builtin o.splitter)
    (hsep : o.sep = .ascii ∨ ∀ line : Text, ∀ o' ∈ env.opps (stripAnsi line), o' < blen (stripAnsi line) →
      ∃ l r, stripAnsi line = l ++ r ∧ blen l = o')
    (text : Text) : (∃ ls, wrap env mo o text = some ls) ∧ (∃ s, fill env mo o text = some s) := by
  have hw : ∃ ds, wrapD env mo o text = some ds :=
    wrapParas_total _ _ (fun p n => wrapSingleLine_total env mo hmo o hb hsep p n) _ 0 0
  obtain ⟨ds, hds⟩ := hw
  refine ⟨⟨ds.map LineD.render, by simp [wrap, hds]⟩, ?_⟩
  unfold fill
  split
  · exact ⟨_, rfl⟩
  · exact ⟨joinWith o.lineEnding.str (ds.map LineD.render), by simp [fillSlow, wrap, hds]⟩

/-- **`wrap_columns`** for any column count ≥ 1 -/
-- @audit TW.C04.columns_total
theorem columns_total (env : Env) (mo : MinimaOracle Int) (hmo : MoShape mo) (o : Opts) (hb : Builtin o.splitter)
    (hsep : o.sep = .ascii ∨ ∀ line : Text, ∀ o' ∈ env.opps (stripAnsi line), o' < blen (stripAnsi line) →
      ∃ l r, stripAnsi line = l ++ r ∧ blen l = o')
    (text : Text) (columns : Nat) (hc : 1 ≤ columns) (left middle right : Text) :
    ∃ rows, wrapColumns env mo o text columns left middle right = some rows := by
  obtain ⟨⟨ls, hls⟩, _⟩ := wrap_total env mo hmo
    { o with width := TW.C20.columnWidth env.cw o.width columns left middle right } hb hsep text
  exact ⟨_, TW.C20.columns_rows env mo o text columns left middle right hc ls hls⟩

/-! ### without the `smawk` contract: the model runs `smawk`'s own algorithm

`TextwrapModel/Smawk.lean` models `smawk::online_column_minima` and `smawk_inner` (every
index, both assertions of the `m!` macro and the `size - 1` underflow are explicit `none`s) and
the closure `wrap_optimal_fit` passes to it (`LineNumbers::get` included). For ANY matrix — no
monotonicity, IEEE doubles with NaN — the algorithm returns normally with well-shaped rows
(`Lemmas/Smawk.lean`), so the `MoShape` hypotheses above are theorems for the model's own
minima. The driver runs this model next to the rows recorded from the real `smawk` on every
optimal-fit case (`smawk=1` in the reply). -/

-- `smawk_inner` never panics, whatever the matrix
-- @audit TW.smawkInner_spec
-- `online_column_minima` never panics, whatever the matrix; `size` entries, rows point back
-- @audit TW.onlineColumnMinima_spec

/-- `wrap_optimal_fit` with its own `smawk`: never a panic, for any number type -/
-- @audit TW.C04.optimalFit_own_no_panic
theorem optimalFit_own_no_panic {α : Type} [CostNum α] {β : Type} (m : β → Frag α) (pen : Penalties)
    (frs : List β) (lws : List α) : (wrapOptimalFit m pen frs lws).1 ≠ .panic := by
  rcases wrapOptimalFit_partition m pen frs lws with h | ⟨ls, h, _⟩ <;> rw [h] <;> intro h' <;> cases h'

/-- the model's own minima satisfy the shape contract -/
-- @audit TW.C04.ownMinima_moShape
theorem ownMinima_moShape (pen : Penalties) : MoShape (ownMinima (α := Int) pen) :=
  fun frs lws => ownMinima_rowsShape pen frs lws

/-- **`wrap` and `fill` are total with the model's own `smawk`** — no contract left for totality -/
-- @audit TW.C04.wrap_total_own
theorem wrap_total_own (env : Env) (pen : Penalties) (o : Opts) (hb : Builtin o.splitter)
    (hsep : o.sep = .ascii ∨ ∀ line : Text, ∀ o' ∈ env.opps (stripAnsi line), o' < blen (stripAnsi line) →
      ∃ l r, stripAnsi line = l ++ r ∧ blen l = o')
    (text : Text) :
    (∃ ls, wrap env (ownMinima (α := Int) pen) o text = some ls) ∧
    (∃ s, fill env (ownMinima (α := Int) pen) o text = some s) :=
  wrap_total env _ (ownMinima_moShape pen) o hb hsep text

/-! ### no `OverflowError` for usize-valued inputs: the exact-arithmetic half

`Lemmas/SmawkOnline.lean` (`onlineColumnMinima_bounded`): for ANY matrix whose entries are the
row's value plus an increment in `[0, K]` — no monotonicity — every value `online_column_minima`
stores lies in `[init, init + j·K]`. `Lemmas/OptimalBound.lean` (`costClosure_bounded`): with all
fragment widths, whitespace widths, penalty widths, line widths (any number of them) and
penalties in `[0, U]`, the closure of `wrap_optimal_fit` is such a matrix with
`K = 2U + (2n+1)·U²`. For `U = 2^64`: -/

-- @audit TW.onlineColumnMinima_bounded
-- @audit TW.optimalFit_costs_bounded

/-- **usize-valued inputs**: every cost the model's own `smawk` stores is an integer in
    `[0, j·(2^65 + (2n+1)·2^128)]` — for `n < 2^64` fragments below `2^260`, against an `f64`
    range of `≈ 2^1024`. What remains assumed for the real code: the `f64` computation of a value
    whose exact counterpart is that small stays finite (DESIGN §5.4). -/
-- @audit TW.C04.optimalFit_costs_usize
theorem optimalFit_costs_usize (pen : Penalties) (lws : List Int) (frs : List (Frag Int))
    (hf : ∀ f ∈ frs, 0 ≤ f.w ∧ f.w ≤ 2 ^ 64 ∧ 0 ≤ f.ws ∧ f.ws ≤ 2 ^ 64 ∧ 0 ≤ f.pen ∧ f.pen ≤ 2 ^ 64)
    (hl : ∀ lw ∈ lws, 0 ≤ lw ∧ lw ≤ 2 ^ 64)
    (hp : (pen.nline : Int) ≤ 2 ^ 64 ∧ (pen.overflow : Int) ≤ 2 ^ 64 ∧ (pen.shortPen : Int) ≤ 2 ^ 64 ∧
      (pen.hyphen : Int) ≤ 2 ^ 64) :
    ∃ res, onlineColumnMinima (costClosure pen lws frs (prefixWidths frs)) 0 (frs.length + 1) = some res ∧
      res.length = frs.length + 1 ∧
      ∀ j, j ≤ frs.length → 0 ≤ Dof res j ∧
        Dof res j ≤ (j : Int) * (2 * 2 ^ 64 + (2 * (frs.length : Int) + 1) * 2 ^ 64 * 2 ^ 64) :=
  optimalFit_costs_bounded pen lws frs (2 ^ 64) (by decide) hf hl hp

-- **`fill_inplace`** (re-export of C17)
-- @audit TW.C17.inplace_total

/-! ### panic-site inventory (Rust site ↦ why its `none` is unreachable)

* wrap.rs `&line[idx..idx + len]`, `sum - last_word.whitespace.len()` — `reassemble_eq_spec` (contiguity, C01)
* wrap_algorithms.rs `.unwrap()` of `OverflowError` — `optimalFit_no_panic` (exact arithmetic; the
  `f64` finiteness for `usize`-valued input is an assumption, DESIGN §5.4)
* optimal_fit.rs `minima[pos]`, `&fragments[prev..pos]`, the back-tracking `loop` — `backtrackGo_spec` (shape contract)
* word_separators.rs `&line[start..idx]` (ASCII), `&stripped[..*idx]`, `&line[start..orig_idx]` (Unicode) —
  by construction (char_indices) / `findWordsUnicode_total`
* word_splitters.rs `word[..idx]`, `&word.word[prev..idx]` — `splitOne_total` (points on boundaries, non-decreasing)
* core.rs `&self.word[offset..idx]` — by construction (char_indices)
* fill.rs `wrapped_words.len() - 1`, `line_offset - 1`, `bytes[idx]`, `from_utf8(..).unwrap()` — `C17.inplace_total`
* columns.rs `assert!(columns > 0)` (documented), `column_width - display_width(..)` (saturating after F5) — `columns_total`
* refill.rs `&line[..line.len() - without_prefix.len()]`, `&line[indent.len()..]` — C15 (see there)
* indentation.rs `line.split_at(prefix.len())` — guarded by `starts_with(prefix)`; model: `List.drop`
-/


/-! ### without the `unicode_linebreak` contract either: the model runs the crate's own scan

`TextwrapModel/Linebreak.lean` transcribes `unicode_linebreak::linebreaks` (a scan over
`char_indices` driven by the pair table). For ANY tables the reported offsets are char boundaries
(`ownOpps_boundary`), which is all the Unicode separator needs in order not to panic. The driver
runs this scan on the tables regenerated from the crate next to the opportunities the real crate
returned, on every case (`lb=0[…]` in the reply on a difference). -/

-- @audit TW.ownOpps_boundary
-- @audit TW.ownOpps_pairwise

/-- **`wrap` and `fill` are total — both separators, both algorithms, built-in splitters — with no
    contract of an external crate left**: `smawk`'s algorithm and `unicode_linebreak`'s scan are
    inside the model, the latter for any pair table and any class function -/
-- @audit TW.C04.wrap_total_own_all
theorem wrap_total_own_all (env : Env) (T : LbTables) (henv : env.opps = ownOpps T) (pen : Penalties)
    (o : Opts) (hb : Builtin o.splitter) (text : Text) :
    (∃ ls, wrap env (ownMinima (α := Int) pen) o text = some ls) ∧
    (∃ s, fill env (ownMinima (α := Int) pen) o text = some s) :=
  wrap_total_own env pen o hb (Or.inr fun line => boundary_own env T henv (stripAnsi line)) text

/-- … and so is `wrap_columns` -/
-- @audit TW.C04.columns_total_own_all
theorem columns_total_own_all (env : Env) (T : LbTables) (henv : env.opps = ownOpps T) (pen : Penalties)
    (o : Opts) (hb : Builtin o.splitter) (text : Text) (columns : Nat) (hc : 1 ≤ columns)
    (left middle right : Text) :
    ∃ rows, wrapColumns env (ownMinima (α := Int) pen) o text columns left middle right = some rows :=
  columns_total env _ (ownMinima_moShape pen) o hb
    (Or.inr fun line => boundary_own env T henv (stripAnsi line)) text columns hc left middle right

/-- the hypothesis is satisfiable: the environment the driver runs -/
example : ∃ env : Env, env.opps = ownOpps lbTables := ⟨⟨cwUnicode, isAlnumStd, isWsStd, ownOpps lbTables⟩, rfl⟩

end TW.C04

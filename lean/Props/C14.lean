/-
  C14 — filling is idempotent.
  Proved here: the reduction of idempotence to per-line stability (a line of the first result,
  re-wrapped on its own, comes back as itself), and the join/split round trip that the
  reduction needs. Per-line stability for lines that fit and do not end in a space is C05.
-/
import Lemmas.WrapAppend
import Props.C09
import Props.C05
import Props.C01
import Props.C02
import Lemmas.OverflowStable
import Lemmas.LinebreakTable
namespace TW.C14

/-- splitting the joined lines at the line ending gives the lines back, when no line contains a
    line feed (`'\n'` ending, and `"\r\n"` ending as well: the only `'\n'`s are the inserted ones,
    each directly preceded by the inserted `'\r'`) -/
-- @audit TW.C14.join_split
theorem join_split (e : LineEnding) (ls : List Text) (hne : ls ≠ []) (hno : ∀ l ∈ ls, LF ∉ l) :
    splitEnding e (joinWith e.str ls) = ls := by
  induction ls with
  | nil => exact absurd rfl hne
  | cons a r ih =>
    cases r with
    | nil =>
      simp only [joinWith]
      cases e with
      | lf => exact TW.C09.splitLF_noLF a (hno a (by simp))
      | crlf => exact TW.C09.splitCRLF_noLF a (hno a (by simp))
    | cons b r' =>
      rw [joinWith_cons_cons, splitEnding_append, ih (by simp) (fun l hl => hno l (by simp [hl]))]
      have : splitEnding e a = [a] := by
        cases e with
        | lf => exact TW.C09.splitLF_noLF a (hno a (by simp))
        | crlf => exact TW.C09.splitCRLF_noLF a (hno a (by simp))
      rw [this]; rfl

section
variable {α : Type} [CostNum α]

/-- a line is *stable* under the options: wrapped on its own, as any paragraph of a text, it
    comes back as exactly itself -/
def Stable (env : Env) (mo : MinimaOracle α) (o : Opts) (l : Text) : Prop :=
  ∀ n, (wrapSingleLine env mo o l n).map (·.map LineD.render) = some [l]

theorem wrapR_stable (env : Env) (mo : MinimaOracle α) (o : Opts) (ls : List Text)
    (hs : ∀ l ∈ ls, Stable env mo o l) (off n : Nat) :
    wrapR (blen o.lineEnding.str) (wrapSingleLine env mo o) ls off n = some ls := by
  induction ls generalizing off n with
  | nil => rfl
  | cons l r ih =>
    rw [wrapR_cons]
    have h := hs l (by simp) n
    cases hw : wrapSingleLine env mo o l n with
    | none => simp [hw] at h
    | some ds =>
      simp only [hw, Option.map_some, Option.some.injEq] at h
      simp only
      rw [ih (fun x hx => hs x (by simp [hx]))]
      simp [h]

/-- **reduction of idempotence to per-line stability.** If the lines of the first result contain
    no line feed and each of them is stable, filling the result again returns it unchanged. -/
-- @audit TW.C14.fill_idempotent_of_stable
theorem fill_idempotent_of_stable (env : Env) (mo : MinimaOracle α) (o : Opts) (t : Text) (ls : List Text)
    (hw : wrap env mo o t = some ls) (hne : ls ≠ [])
    (hno : ∀ l ∈ ls, LF ∉ l) (hs : ∀ l ∈ ls, Stable env mo o l) :
    fill env mo o (joinWith o.lineEnding.str ls) = some (joinWith o.lineEnding.str ls) ∧
    fill env mo o t = some (joinWith o.lineEnding.str ls) := by
  have h1 : fill env mo o t = some (joinWith o.lineEnding.str ls) := by
    rw [TW.C09.fill_eq_join, hw]; rfl
  refine ⟨?_, h1⟩
  rw [TW.C09.fill_eq_join, TW.C09.wrap_eq_wrapR, join_split o.lineEnding ls hne hno,
    wrapR_stable env mo o ls hs 0 0]
  rfl

end

/-- a fitting line without trailing space is stable — first-fit, ASCII separator, ESC-free text,
    built-in splitter, empty indents (instance of C05) -/
-- @audit TW.C14.stable_of_fits_firstfit
theorem stable_of_fits_firstfit (env : Env) (hsp : env.cw SP = 1) (mo : MinimaOracle Int) (o : Opts)
    (hb : Builtin o.splitter) (halg : o.alg = .firstFit) (hsep : o.sep = .ascii)
    (hii : o.initialIndent = []) (hsi : o.subsequentIndent = [])
    (l : Text) (hesc : ∀ c ∈ l, c ≠ ESC) (hfit : displayWidth env.cw l ≤ o.width)
    (hts : l.getLast? ≠ some SP) : Stable env mo o l := by
  intro n
  unfold wrapSingleLine
  have hind : (if n = 0 then o.initialIndent else o.subsequentIndent) = [] := by split <;> assumption
  have hindent : TW.C05.indentOf o n = [] := hind
  by_cases hc : blen l < o.width ∧ (if n = 0 then o.initialIndent else o.subsequentIndent).isEmpty = true
  · rw [if_pos hc]
    simp [LineD.render, TW.C05.trimEndSp_id l hts]
  · rw [if_neg hc]
    cases hp : pipeline env o l (o.width - displayWidth env.cw o.subsequentIndent) with
    | none => exact absurd hp (fun h => TW.C05.shortcut_sound_ascii_escfree.pipeline_ascii_total env o hsep hb l _ h)
    | some frs =>
      obtain ⟨c1, c2⟩ := pipeline_contig env o (builtin_inRange _ _ hb) l _ frs hp
      have hn := hnorm_of_escfree frs (fun w hw => (c2 w hw).1) (by rw [c1]; exact hesc)
      have hl := pipeline_lastOk_ascii env o hsep (builtin_inRange _ _ hb) l _ frs hp
      have hnp := pipeline_noPen env o hb l _ frs hp
      rw [TW.C05.fits_one_line_firstfit env hsp mo o hb halg l n frs hp hn
        (by rw [hindent]; simp [displayWidth, dwFrom]; unfold displayWidth at hfit; omega)]
      simp only [Option.map_some, Option.some.injEq]
      rw [TW.C05.one_line_render env o l n frs c2 hl hnp c1, hindent, TW.C05.trimEndSp_id l hts]
      rfl

/-- every descriptor of the paragraph loop comes, up to its offset, from one `single` call -/
theorem wrapParas_forall (P : LineD → Prop) (hshift : ∀ d off, P d → P { d with start := d.start + off })
    (elen : Nat) (single : Text → Nat → Option (List LineD))
    (hs : ∀ p n ls, single p n = some ls → ∀ d ∈ ls, P d)
    (paras : List Text) (off n : Nat) (ds : List LineD)
    (h : wrapParas elen single paras off n = some ds) : ∀ d ∈ ds, P d := by
  induction paras generalizing off n ds with
  | nil => simp only [wrapParas, Option.some.injEq] at h; subst h; intro d hd; simp at hd
  | cons p ps ih =>
    simp only [wrapParas] at h
    split at h
    · simp at h
    · next ls hls =>
      split at h
      · next rest hrest =>
        simp only [Option.some.injEq] at h; subst h
        intro d hd
        rcases List.mem_append.mp hd with hd | hd
        · obtain ⟨d0, hd0, rfl⟩ := List.mem_map.mp hd
          exact hshift d0 off (hs p n ls hls d0 hd0)
        · exact ih _ _ rest hrest d hd
      · simp at h

theorem specLines_pen_indent (o : Opts) (groups : List (List Word)) (idx n : Nat)
    (hnp : ∀ g ∈ groups, NoPen g) (hii : o.initialIndent = []) (hsi : o.subsequentIndent = []) :
    ∀ d ∈ specLines o groups idx n, d.pen = [] ∧ d.indent = [] := by
  induction groups generalizing idx n with
  | nil => intro d hd; simp [specLines] at hd
  | cons g gs ih =>
    intro d hd
    have hind : (if n = 0 then o.initialIndent else o.subsequentIndent) = [] := by split <;> assumption
    simp only [specLines] at hd
    split at hd
    · rcases List.mem_cons.mp hd with rfl | hd
      · exact ⟨rfl, hind⟩
      · exact ih _ _ (fun x hx => hnp x (by simp [hx])) d hd
    · next last hl =>
      rcases List.mem_cons.mp hd with rfl | hd
      · exact ⟨hnp g (by simp) last (List.mem_of_getLast? hl), hind⟩
      · exact ih _ _ (fun x hx => hnp x (by simp [hx])) d hd

/-- with empty indents, the ASCII separator and a built-in splitter every line `wrap` returns is
    a bare slice of the text that does not end in a space -/
theorem wrap_lines_bare (env : Env) (mo : MinimaOracle Int) (hmo : MoShape mo) (o : Opts)
    (hsep : o.sep = .ascii) (hb : Builtin o.splitter)
    (hii : o.initialIndent = []) (hsi : o.subsequentIndent = [])
    (t : Text) (ls : List Text) (hw : wrap env mo o t = some ls) : ∀ l ∈ ls, l.getLast? ≠ some SP := by
  unfold wrap at hw
  cases hd : wrapD env mo o t with
  | none => simp [hd] at hw
  | some ds =>
    simp only [hd, Option.map_some, Option.some.injEq] at hw
    subst hw
    unfold wrapD at hd
    have hall := wrapParas_forall (fun d => d.slice.getLast? ≠ some SP ∧ d.pen = [] ∧ d.indent = [])
      (fun d off h => h) _ (wrapSingleLine env mo o)
      (fun p n ls hl d hdm => by
        refine ⟨TW.C01.ascii_no_trailing_space env mo hmo o hsep hb p n ls hl d hdm, ?_⟩
        -- penalties and indents
        unfold wrapSingleLine at hl
        by_cases hc : blen p < o.width ∧ (if n = 0 then o.initialIndent else o.subsequentIndent).isEmpty = true
        · rw [if_pos hc] at hl
          simp only [Option.some.injEq] at hl; subst hl
          simp only [List.mem_singleton] at hdm; subst hdm
          exact ⟨rfl, rfl⟩
        · rw [if_neg hc] at hl
          unfold wrapSingleLineSlow at hl
          simp only at hl
          split at hl
          · simp at hl
          · next words hp =>
            obtain ⟨c1, _⟩ := pipeline_contig env o (builtin_inRange _ _ hb) p _ words hp
            have hnp := pipeline_noPen env o hb p _ words hp
            split at hl
            · simp at hl
            · next groups hg =>
              obtain ⟨p1, _, _, _⟩ := wrapAlg_partition mo hmo o.alg words _ groups hg
              rw [reassemble_eq_spec o p [] groups 0 n (by simp [p1, c1]) rfl] at hl
              simp only [Option.some.injEq] at hl; subst hl
              exact specLines_pen_indent o groups 0 n
                (fun g hg w hw => hnp w (by rw [← p1]; exact List.mem_flatten.mpr ⟨g, hg, hw⟩)) hii hsi d hdm)
      _ 0 0 ds hd
    intro l hl
    obtain ⟨d, hdm, rfl⟩ := List.mem_map.mp hl
    obtain ⟨h1, h2, h3⟩ := hall d hdm
    simp only [LineD.render, h2, h3, List.nil_append, List.append_nil]
    exact h1

/-- **fill is idempotent** — first-fit, ASCII separator, built-in splitter, empty indents — when
    the lines of the first result are ESC-free, contain no line feed and fit the width. (That no
    line ends in a space is proved, not assumed.) -/
-- @audit TW.C14.fill_idempotent_firstfit_ascii
theorem fill_idempotent_firstfit_ascii (env : Env) (hsp : env.cw SP = 1) (mo : MinimaOracle Int)
    (hmo : MoShape mo) (o : Opts) (hb : Builtin o.splitter) (halg : o.alg = .firstFit)
    (hsep : o.sep = .ascii) (hii : o.initialIndent = []) (hsi : o.subsequentIndent = [])
    (t : Text) (ls : List Text) (hw : wrap env mo o t = some ls)
    (hesc : ∀ l ∈ ls, ∀ c ∈ l, c ≠ ESC) (hno : ∀ l ∈ ls, LF ∉ l)
    (hfit : ∀ l ∈ ls, displayWidth env.cw l ≤ o.width) :
    ∃ f, fill env mo o t = some f ∧ fill env mo o f = some f := by
  have hne := TW.C09.wrap_nonempty env mo hmo o (builtin_inRange _ _ hb) t ls hw
  have hbare := wrap_lines_bare env mo hmo o hsep hb hii hsi t ls hw
  obtain ⟨h1, h2⟩ := fill_idempotent_of_stable env mo o t ls hw hne hno
    (fun l hl => stable_of_fits_firstfit env hsp mo o hb halg hsep hii hsi l (hesc l hl) (hfit l hl) (hbare l hl))
  exact ⟨_, h2, h1⟩

/-! ### both separators, coloured text, optimal-fit -/

/-- a line on which the general path returns the single line holding all its fragments is stable
    (empty indents, no trailing space) -/
theorem stable_of_one_line (env : Env) (mo : MinimaOracle Int) (o : Opts) (hb : Builtin o.splitter)
    (hii : o.initialIndent = []) (hsi : o.subsequentIndent = [])
    (l : Text) (hts : l.getLast? ≠ some SP)
    (hone : ∀ n, ∃ frs, pipeline env o l (o.width - displayWidth env.cw o.subsequentIndent) = some frs ∧
      LastOk frs ∧ wrapSingleLineSlow env mo o l n = some (specLines o [frs] 0 n)) :
    Stable env mo o l := by
  intro n
  unfold wrapSingleLine
  have hind : (if n = 0 then o.initialIndent else o.subsequentIndent) = [] := by split <;> assumption
  have hindent : TW.C05.indentOf o n = [] := hind
  by_cases hc : blen l < o.width ∧ (if n = 0 then o.initialIndent else o.subsequentIndent).isEmpty = true
  · rw [if_pos hc]
    simp [LineD.render, TW.C05.trimEndSp_id l hts]
  · rw [if_neg hc]
    obtain ⟨frs, hp, hl, hslow⟩ := hone n
    obtain ⟨c1, c2⟩ := pipeline_contig env o (builtin_inRange _ _ hb) l _ frs hp
    have hnp := pipeline_noPen env o hb l _ frs hp
    rw [hslow]
    simp only [Option.map_some, Option.some.injEq]
    rw [TW.C05.one_line_render env o l n frs c2 hl hnp c1, hindent, TW.C05.trimEndSp_id l hts]
    rfl

/-- **fill is idempotent, first-fit, both separators, coloured text**: when the lines of the
    first result are safe (`SeqSafe`), free of line feeds, fit the width and do not end in a
    space (for the ASCII separator the last is a theorem, `wrap_lines_bare`), and — Unicode
    separator — the external break routine answers on them and obeys the LB7 clause -/
-- @audit TW.C14.fill_idempotent_firstfit_safe
theorem fill_idempotent_firstfit_safe (env : Env) (hsp : env.cw SP = 1) (mo : MinimaOracle Int)
    (hmo : MoShape mo) (o : Opts) (hb : Builtin o.splitter) (halg : o.alg = .firstFit)
    (hii : o.initialIndent = []) (hsi : o.subsequentIndent = [])
    (t : Text) (ls : List Text) (hw : wrap env mo o t = some ls)
    (hsafe : ∀ l ∈ ls, SeqSafe o.splitter l) (hno : ∀ l ∈ ls, LF ∉ l)
    (hfit : ∀ l ∈ ls, displayWidth env.cw l ≤ o.width)
    (hts : ∀ l ∈ ls, l.getLast? ≠ some SP)
    (hpipe : ∀ l ∈ ls, ∃ frs, pipeline env o l (o.width - displayWidth env.cw o.subsequentIndent) = some frs)
    (hlb : o.sep = .unicode → ∀ l ∈ ls, OppsNoSpace (stripAnsi l) (env.opps (stripAnsi l))) :
    ∃ f, fill env mo o t = some f ∧ fill env mo o f = some f := by
  have hne := TW.C09.wrap_nonempty env mo hmo o (builtin_inRange _ _ hb) t ls hw
  have hstable : ∀ l ∈ ls, Stable env mo o l := by
    intro l hl
    apply stable_of_one_line env mo o hb hii hsi l (hts l hl)
    intro n
    obtain ⟨frs, hp⟩ := hpipe l hl
    have hlast : LastOk frs := by
      cases hs : o.sep with
      | ascii => exact pipeline_lastOk_ascii env o hs (builtin_inRange _ _ hb) l _ frs hp
      | unicode => exact pipeline_lastOk_unicode env o hs (builtin_inRange _ _ hb) l (hlb hs l hl) _ frs hp
    have hindent : TW.C05.indentOf o n = [] := by
      unfold TW.C05.indentOf; split <;> assumption
    refine ⟨frs, hp, hlast, ?_⟩
    exact TW.C05.fits_one_line_firstfit_safe env hsp mo o hb halg l (hsafe l hl) n frs hp
      (by rw [hindent]; simp [displayWidth, dwFrom]; have := hfit l hl; unfold displayWidth at this; omega)
  obtain ⟨h1, h2⟩ := fill_idempotent_of_stable env mo o t ls hw hne hno hstable
  exact ⟨_, h2, h1⟩

/-- **fill is idempotent, optimal-fit, whenever no line of the first result overflows**: any
    penalties with `nline_penalty > 0` (the default's is, `C05.default_nline_pos`), the minima
    routine conforming to its contract on the lines of the first result -/
-- @audit TW.C14.fill_idempotent_optimal_safe
theorem fill_idempotent_optimal_safe (env : Env) (hsp : env.cw SP = 1) (mo : MinimaOracle Int)
    (hmo : MoShape mo) (o : Opts) (hb : Builtin o.splitter) (p : Penalties) (halg : o.alg = .optimalFit p)
    (hP : 0 < p.nline) (hii : o.initialIndent = []) (hsi : o.subsequentIndent = [])
    (t : Text) (ls : List Text) (hw : wrap env mo o t = some ls)
    (hsafe : ∀ l ∈ ls, SeqSafe o.splitter l) (hno : ∀ l ∈ ls, LF ∉ l)
    (hfit : ∀ l ∈ ls, displayWidth env.cw l ≤ o.width)
    (hts : ∀ l ∈ ls, l.getLast? ≠ some SP)
    (hpipe : ∀ l ∈ ls, ∃ frs, pipeline env o l (o.width - displayWidth env.cw o.subsequentIndent) = some frs ∧
      ∀ n, TW.C05.MoConforms mo p frs
        [if n = 0 then o.width - displayWidth env.cw o.initialIndent
         else o.width - displayWidth env.cw o.subsequentIndent,
         o.width - displayWidth env.cw o.subsequentIndent])
    (hlb : o.sep = .unicode → ∀ l ∈ ls, OppsNoSpace (stripAnsi l) (env.opps (stripAnsi l))) :
    ∃ f, fill env mo o t = some f ∧ fill env mo o f = some f := by
  have hne := TW.C09.wrap_nonempty env mo hmo o (builtin_inRange _ _ hb) t ls hw
  have hstable : ∀ l ∈ ls, Stable env mo o l := by
    intro l hl
    apply stable_of_one_line env mo o hb hii hsi l (hts l hl)
    intro n
    obtain ⟨frs, hp, hconf⟩ := hpipe l hl
    have hlast : LastOk frs := by
      cases hs : o.sep with
      | ascii => exact pipeline_lastOk_ascii env o hs (builtin_inRange _ _ hb) l _ frs hp
      | unicode => exact pipeline_lastOk_unicode env o hs (builtin_inRange _ _ hb) l (hlb hs l hl) _ frs hp
    have hindent : TW.C05.indentOf o n = [] := by
      unfold TW.C05.indentOf; split <;> assumption
    refine ⟨frs, hp, hlast, ?_⟩
    exact TW.C05.fits_one_line_optimal_safe env hsp mo o hb p halg hP l (hsafe l hl) n frs hp (hconf n)
      (by rw [hindent]; simp [displayWidth, dwFrom]; have := hfit l hl; unfold displayWidth at this; omega)
  obtain ⟨h1, h2⟩ := fill_idempotent_of_stable env mo o t ls hw hne hno hstable
  exact ⟨_, h2, h1⟩

/-- **fill is idempotent, optimal-fit, ASCII separator — no assumption about `smawk`**: with the
    model's own `smawk` (proved to return column minima of textwrap's cost matrix) the contract
    hypotheses of `fill_idempotent_optimal_safe` are theorems -/
-- @audit TW.C14.fill_idempotent_optimal_own_ascii
theorem fill_idempotent_optimal_own_ascii (env : Env) (hsp : env.cw SP = 1)
    (o : Opts) (hb : Builtin o.splitter) (hsep : o.sep = .ascii) (p : Penalties) (halg : o.alg = .optimalFit p)
    (hP : 0 < p.nline) (hii : o.initialIndent = []) (hsi : o.subsequentIndent = [])
    (t : Text) (ls : List Text) (hw : wrap env (ownMinima (α := Int) p) o t = some ls)
    (hsafe : ∀ l ∈ ls, SeqSafe o.splitter l) (hno : ∀ l ∈ ls, LF ∉ l)
    (hfit : ∀ l ∈ ls, displayWidth env.cw l ≤ o.width)
    (hts : ∀ l ∈ ls, l.getLast? ≠ some SP) :
    ∃ f, fill env (ownMinima (α := Int) p) o t = some f ∧ fill env (ownMinima (α := Int) p) o f = some f := by
  refine fill_idempotent_optimal_safe env hsp _ (fun frs lws => ownMinima_rowsShape p frs lws) o hb p halg hP
    hii hsi t ls hw hsafe hno hfit hts ?_ (fun h => by rw [hsep] at h; cases h)
  intro l _
  obtain ⟨frs, hfrs⟩ := TW.C05.pipeline_total env o hb l (o.width - displayWidth env.cw o.subsequentIndent)
    (fun h => by rw [hsep] at h; cases h)
  exact ⟨frs, hfrs, fun n => TW.C05.moConforms_own p frs (pipeline_noPen env o hb l _ frs hfrs) _ (by simp)⟩

/-- **fill is idempotent, optimal-fit, BOTH separators — no contract of an external crate**: with
    the model's own `smawk` and its own `linebreaks` (compiled tables) every contract hypothesis of
    `fill_idempotent_optimal_safe` is a theorem; for the Unicode separator the lines of the first
    result must be free of hard-line-break characters (`HardFree`, where LB7 holds) -/
-- @audit TW.C14.fill_idempotent_optimal_own_all
theorem fill_idempotent_optimal_own_all (env : Env) (henv : env.opps = ownOpps lbTables) (hsp : env.cw SP = 1)
    (o : Opts) (hb : Builtin o.splitter) (p : Penalties) (halg : o.alg = .optimalFit p)
    (hP : 0 < p.nline) (hii : o.initialIndent = []) (hsi : o.subsequentIndent = [])
    (t : Text) (ls : List Text) (hw : wrap env (ownMinima (α := Int) p) o t = some ls)
    (hsafe : ∀ l ∈ ls, SeqSafe o.splitter l) (hno : ∀ l ∈ ls, LF ∉ l)
    (hfit : ∀ l ∈ ls, displayWidth env.cw l ≤ o.width)
    (hts : ∀ l ∈ ls, l.getLast? ≠ some SP)
    (hf : o.sep = .unicode → ∀ l ∈ ls, HardFree (stripAnsi l)) :
    ∃ f, fill env (ownMinima (α := Int) p) o t = some f ∧ fill env (ownMinima (α := Int) p) o f = some f := by
  refine fill_idempotent_optimal_safe env hsp _ (fun frs lws => ownMinima_rowsShape p frs lws) o hb p halg hP
    hii hsi t ls hw hsafe hno hfit hts ?_ (fun hs l hl => oppsNoSpace_own env henv _ (hf hs l hl))
  intro l _
  obtain ⟨frs, hfrs⟩ := TW.C05.pipeline_total env o hb l (o.width - displayWidth env.cw o.subsequentIndent)
    (fun _ => boundary_own env lbTables henv _)
  exact ⟨frs, hfrs, fun n => TW.C05.moConforms_own p frs (pipeline_noPen env o hb l _ frs hfrs) _ (by simp)⟩

/-! ### lines that overflow (ASCII separator, built-in splitters) -/

theorem points_part (isAlnum : Char → Bool) (sp : Splitter) (hb : Builtin sp) (pre u post : Text)
    (h : sp.points isAlnum (pre ++ u ++ post) = []) : sp.points isAlnum u = [] := by
  cases sp with
  | none => rfl
  | hyphen => exact pointFree_sub isAlnum pre u post h
  | custom f => exact absurd hb (by simp [Builtin])

/-- where an overflowing line of the first result comes from: a single fragment without a space
    and without a split point of the configured splitter which, with `break_words`, is a piece
    of `break_apart` -/
structure Prov (env : Env) (o : Opts) (l : Text) : Prop where
  nosp : SP ∉ l
  ne : l ≠ []
  nopts : o.splitter.points env.isAlnum l = []
  brk : o.breakWords = true → o.width < displayWidth env.cw l →
    ∃ w0 f, f ∈ breakApart env.cw o.width w0 ∧ f.word = l ∧ f.width = displayWidth env.cw l

/-- an overflowing line with that provenance is stable -/
theorem stable_of_prov (env : Env) (hcw : ∀ c, env.cw c ≤ c.utf8Size) (mo : MinimaOracle Int) (o : Opts)
    (halg : o.alg = .firstFit) (hsep : o.sep = .ascii)
    (hii : o.initialIndent = []) (hsi : o.subsequentIndent = [])
    (l : Text) (hp : Prov env o l) (hover : o.width < displayWidth env.cw l) : Stable env mo o l := by
  intro n
  have hind : (if n = 0 then o.initialIndent else o.subsequentIndent) = [] := by split <;> assumption
  have hnoshort : ¬ (blen l < o.width ∧ (if n = 0 then o.initialIndent else o.subsequentIndent).isEmpty = true) := by
    intro h
    have := dwFrom_le_blen env.cw hcw .normal l
    unfold displayWidth at hover
    omega
  unfold wrapSingleLine
  rw [if_neg hnoshort]
  -- the fragments of the line: the line itself
  have hpipe : pipeline env o l (o.width - displayWidth env.cw o.subsequentIndent) = some [mkWord env.cw l []] := by
    unfold pipeline
    simp only [hsep, findWords, findWordsAscii_single env.cw l hp.ne hp.nosp]
    rw [splitWords_nopoints env o.splitter [mkWord env.cw l []] (by
      intro W hW'; simp only [List.mem_singleton] at hW'; subst hW'
      exact ⟨hp.nopts, rfl⟩)]
    simp only [hii, hsi, List.isEmpty_nil, if_true, displayWidth, dwFrom, Nat.sub_zero]
    cases hbw : o.breakWords with
    | false => simp
    | true =>
      simp only [if_true, breakWords, List.append_nil, Option.some.injEq]
      have hlt : o.width < (mkWord env.cw l []).width := hover
      rw [if_pos hlt]
      obtain ⟨w0, f, hf, e1, e2⟩ := hp.brk hbw hover
      have := breakGo_pieces_replay env.cw o.width w0.ws w0.pen .normal [] 0 w0.word (Replay.nil _ _) f
        (by unfold breakApart at hf; exact hf) [] []
      unfold breakApart
      simp only [mkWord]
      rw [e1] at this
      rw [this, e2]
  unfold wrapSingleLineSlow
  simp only [hpipe, halg, wrapAlg]
  have hff : ∀ lws : List Int, wrapFirstFit (fragOf (α := Int)) [mkWord env.cw l []] lws = [[mkWord env.cw l []]] := by
    intro lws; simp [wrapFirstFit, ffGo]
  rw [hff]
  rw [reassemble_eq_spec o l [] [[mkWord env.cw l []]] 0 n (by simp [mkWord]) rfl]
  simp only [Option.map_some, Option.some.injEq, specLines, List.getLast?_singleton, List.map_cons, List.map_nil,
    LineD.render, hind, groupSlice, List.dropLast_singleton, wordsText_nil, mkWord]
  simp

/-- every line of one paragraph fits the width or has the provenance of an unbreakable fragment
    (first-fit, ASCII separator, built-in splitter, empty indents, safe paragraph): this is also
    C02's exception clause for `break_words` off — the overlong part contains no space (no break
    opportunity of the ASCII separator) and no split point of the splitter -/
-- @audit TW.C14.line_fits_or_prov
theorem line_fits_or_prov (env : Env) (hsp : env.cw SP = 1) (hcw : ∀ c, env.cw c ≤ c.utf8Size)
    (mo : MinimaOracle Int) (o : Opts)
    (halg : o.alg = .firstFit) (hsep : o.sep = .ascii) (hb : Builtin o.splitter)
    (hii : o.initialIndent = []) (hsi : o.subsequentIndent = [])
    (p : Text) (hsafe : SeqSafe o.splitter p) (n : Nat) (ds : List LineD)
    (h : wrapSingleLine env mo o p n = some ds) :
    ∀ d ∈ ds, displayWidth env.cw d.render ≤ o.width ∨ Prov env o d.render := by
  have hind : ∀ k, TW.C05.indentOf o k = [] := by intro k; unfold TW.C05.indentOf; split <;> assumption
  unfold wrapSingleLine at h
  by_cases hc : blen p < o.width ∧ (if n = 0 then o.initialIndent else o.subsequentIndent).isEmpty = true
  · rw [if_pos hc] at h
    simp only [Option.some.injEq] at h; subst h
    intro d hd
    simp only [List.mem_singleton] at hd; subst hd
    left
    simp only [LineD.render, List.nil_append, List.append_nil]
    have h1 := dwFrom_le_blen env.cw hcw .normal (trimEndSp p)
    have h2 : blen (trimEndSp p) ≤ blen p := by
      have := congrArg blen (trimEndSp_append_rest p)
      simp only [blen_append] at this; omega
    unfold displayWidth; omega
  · rw [if_neg hc] at h
    cases hp : pipeline env o p (o.width - displayWidth env.cw o.subsequentIndent) with
    | none => unfold wrapSingleLineSlow at h; simp [hp] at h
    | some frs =>
      have hn := pipeline_hnorm env o hb p hsafe _ frs hp
      obtain ⟨G, g1, g2, g3⟩ := TW.C02.firstfit_line_width env hsp mo o hb halg p n frs hp hn
      rw [g1] at h
      simp only [Option.some.injEq] at h; subst h
      obtain ⟨c1, c2⟩ := pipeline_contig env o (builtin_inRange _ _ hb) p _ frs hp
      have hnp := pipeline_noPen env o hb p _ frs hp
      intro d hd
      obtain ⟨g, hg, e1, e2, e3⟩ := specLines_mem o G 0 n d hd
      have hpen : d.pen = [] := by
        rcases e2 with e2 | ⟨last, hl, e2⟩
        · exact e2
        · rw [e2]; exact hnp last (by rw [← g2]; exact List.mem_flatten.mpr ⟨g, hg, hl⟩)
      have hindent : d.indent = [] := by rcases e3 with e | e <;> rw [e] <;> assumption
      have hrender : d.render = groupSlice g := by simp [LineD.render, hindent, hpen, e1]
      rw [hrender]
      obtain ⟨k, hk⟩ := List.getElem?_of_mem hg
      match g, hk, hg with
      | [], _, _ => left; simp [groupSlice, displayWidth, dwFrom]
      | a :: b :: r, hk, _ =>
        left
        have := (g3 k _ hk (by simp)).1
        rw [hind] at this
        simpa [displayWidth, dwFrom] using this
      | [f], hk, hg =>
        by_cases hfit : displayWidth env.cw (groupSlice [f]) ≤ o.width
        · exact Or.inl hfit
        · right
          have hfm : f ∈ frs := by rw [← g2]; exact List.mem_flatten.mpr ⟨[f], hg, by simp⟩
          have hslice : groupSlice [f] = f.word := by simp [groupSlice]
          rw [hslice] at hfit ⊢
          -- where `f` comes from
          have hshape : ∃ sws : List Word, splitWords env o.splitter (findWordsAscii env.cw p) = some sws ∧
              frs = (if o.breakWords then breakWords env.cw o.width sws else sws) := by
            unfold pipeline at hp
            simp only [hsep, findWords] at hp
            split at hp
            · simp at hp
            · next sws hs =>
              simp only [hii, hsi, List.isEmpty_nil, if_true, displayWidth, dwFrom, Nat.sub_zero] at hp
              refine ⟨sws, hs, ?_⟩
              cases hbw : o.breakWords with
              | false => simp only [hbw, Bool.false_eq_true, if_false, Option.some.injEq] at hp ⊢; exact hp.symm
              | true => simp only [hbw, if_true, Option.some.injEq] at hp ⊢; exact hp.symm
          obtain ⟨sws, hsws, hfrs⟩ := hshape
          have hwords_nosp := findWordsAscii_noSP env.cw p
          have hpieces := splitWords_pieces env o.splitter hb _ sws hsws
          -- `f.word` is a contiguous part of a piece `s`
          have hpart : ∃ s ∈ sws, ∃ A B, s.word = A ++ f.word ++ B := by
            cases hbw : o.breakWords with
            | false =>
              rw [hbw] at hfrs; simp only [Bool.false_eq_true, if_false] at hfrs
              rw [hfrs] at hfm
              exact ⟨f, hfm, [], [], by simp⟩
            | true =>
              rw [hbw] at hfrs; simp only [if_true] at hfrs
              rw [hfrs] at hfm
              obtain ⟨s, hs, h | h⟩ := mem_breakWords env.cw o.width sws f hfm
              · obtain ⟨A, B, e⟩ := breakApart_part env.cw o.width s f h.2
                exact ⟨s, hs, A, B, e⟩
              · exact ⟨s, hs, [], [], by rw [h.1]; simp⟩
          obtain ⟨s, hs, A, B, es⟩ := hpart
          obtain ⟨⟨w, hw, A', B', ew⟩, hpts⟩ := hpieces s hs
          have hnosp : SP ∉ f.word := by
            intro hm
            apply hwords_nosp w hw
            rw [ew, es]
            simp [hm]
          refine ⟨hnosp, ?_, ?_, ?_⟩
          · intro he; rw [he] at hfit; simp [displayWidth, dwFrom] at hfit
          · exact points_part env.isAlnum o.splitter hb A f.word B (by rw [← es]; exact hpts)
          · intro hbw hover
            rw [hbw] at hfrs; simp only [if_true] at hfrs
            rw [hfrs] at hfm
            obtain ⟨w0, _, h | h⟩ := mem_breakWords env.cw o.width sws f hfm
            · exact ⟨w0, f, h.2, rfl, (c2 f (by rw [hfrs]; exact hfm)).2⟩
            · exfalso
              have := (c2 f (by rw [hfrs]; exact hfm)).2
              rw [h.1] at this hover
              omega

/-- **fill is idempotent for the ASCII separator at EVERY width** (first-fit, both built-in
    splitters, empty indents, `break_words` on or off): lines that fit are stable by C05, lines
    that overflow are single unbreakable fragments and are found, left unsplit
    (`splitOne_pointFree`), left unbroken (`break_apart_idempotent`) and placed alone again.
    Hypotheses on the text: the paragraphs and the lines of the first result are safe
    (`SeqSafe`; e.g. ESC-free) and the lines contain no line feed. -/
-- @audit TW.C14.fill_idempotent_ascii_every_width
theorem fill_idempotent_ascii_every_width (env : Env) (hsp : env.cw SP = 1) (hcw : ∀ c, env.cw c ≤ c.utf8Size)
    (mo : MinimaOracle Int) (hmo : MoShape mo) (o : Opts)
    (halg : o.alg = .firstFit) (hsep : o.sep = .ascii) (hb : Builtin o.splitter)
    (hii : o.initialIndent = []) (hsi : o.subsequentIndent = [])
    (t : Text) (ls : List Text) (hw : wrap env mo o t = some ls)
    (hsafeT : ∀ p ∈ splitEnding o.lineEnding t, SeqSafe o.splitter p)
    (hsafeL : ∀ l ∈ ls, SeqSafe o.splitter l) (hno : ∀ l ∈ ls, LF ∉ l) :
    ∃ f, fill env mo o t = some f ∧ fill env mo o f = some f := by
  have hne := TW.C09.wrap_nonempty env mo hmo o (builtin_inRange _ _ hb) t ls hw
  have hbare := wrap_lines_bare env mo hmo o hsep hb hii hsi t ls hw
  -- every line fits or has the provenance
  have hall : ∀ l ∈ ls, displayWidth env.cw l ≤ o.width ∨ Prov env o l := by
    unfold wrap at hw
    cases hd : wrapD env mo o t with
    | none => simp [hd] at hw
    | some ds =>
      simp only [hd, Option.map_some, Option.some.injEq] at hw
      subst hw
      unfold wrapD at hd
      have key : ∀ (paras : List Text), (∀ p ∈ paras, SeqSafe o.splitter p) → ∀ off n ds,
          wrapParas (blen o.lineEnding.str) (wrapSingleLine env mo o) paras off n = some ds →
          ∀ d ∈ ds, displayWidth env.cw d.render ≤ o.width ∨ Prov env o d.render := by
        intro paras
        induction paras with
        | nil => intro _ off n ds h d hd; simp only [wrapParas, Option.some.injEq] at h; subst h; simp at hd
        | cons p ps ih =>
          intro hs off n ds h d hd
          simp only [wrapParas] at h
          split at h
          · simp at h
          · next lsd hls =>
            split at h
            · next rest hrest =>
              simp only [Option.some.injEq] at h; subst h
              rcases List.mem_append.mp hd with hd | hd
              · obtain ⟨d0, hd0, rfl⟩ := List.mem_map.mp hd
                exact line_fits_or_prov env hsp hcw mo o halg hsep hb hii hsi p (hs p (by simp)) n lsd hls d0 hd0
              · exact ih (fun q hq => hs q (by simp [hq])) _ _ rest hrest d hd
            · simp at h
      intro l hl
      obtain ⟨d, hdm, rfl⟩ := List.mem_map.mp hl
      exact key _ hsafeT 0 0 ds hd d hdm
  have hfitstable : ∀ l ∈ ls, displayWidth env.cw l ≤ o.width → Stable env mo o l := by
    intro l hl hfit
    apply stable_of_one_line env mo o hb hii hsi l (hbare l hl)
    intro n
    cases hp : pipeline env o l (o.width - displayWidth env.cw o.subsequentIndent) with
    | none => exact absurd hp (fun h => TW.C05.shortcut_sound_ascii_escfree.pipeline_ascii_total env o hsep hb l _ h)
    | some frs =>
      have hindent : TW.C05.indentOf o n = [] := by unfold TW.C05.indentOf; split <;> assumption
      refine ⟨frs, rfl, pipeline_lastOk_ascii env o hsep (builtin_inRange _ _ hb) l _ frs hp, ?_⟩
      exact TW.C05.fits_one_line_firstfit_safe env hsp mo o hb halg l (hsafeL l hl) n frs hp
        (by rw [hindent]; simp [displayWidth, dwFrom]; unfold displayWidth at hfit; omega)
  have hstable : ∀ l ∈ ls, Stable env mo o l := by
    intro l hl
    by_cases hfit : displayWidth env.cw l ≤ o.width
    · exact hfitstable l hl hfit
    · rcases hall l hl with h | hprov
      · exact absurd h hfit
      · exact stable_of_prov env hcw mo o halg hsep hii hsi l hprov (by omega)
  obtain ⟨h1, h2⟩ := fill_idempotent_of_stable env mo o t ls hw hne hno hstable
  exact ⟨_, h2, h1⟩


/-- `fill_idempotent_firstfit_safe` with the model's own `linebreaks`: the LB7 clause is a theorem
    for lines without hard-line-break characters and the pipeline never panics -/
-- @audit TW.C14.fill_idempotent_firstfit_safe_ownlb
theorem fill_idempotent_firstfit_safe_ownlb (env : Env) (henv : env.opps = ownOpps lbTables)
    (hsp : env.cw SP = 1) (mo : MinimaOracle Int)
    (hmo : MoShape mo) (o : Opts) (hb : Builtin o.splitter) (halg : o.alg = .firstFit)
    (hii : o.initialIndent = []) (hsi : o.subsequentIndent = [])
    (t : Text) (ls : List Text) (hw : wrap env mo o t = some ls)
    (hsafe : ∀ l ∈ ls, SeqSafe o.splitter l) (hno : ∀ l ∈ ls, LF ∉ l)
    (hfit : ∀ l ∈ ls, displayWidth env.cw l ≤ o.width)
    (hts : ∀ l ∈ ls, l.getLast? ≠ some SP)
    (hf : o.sep = .unicode → ∀ l ∈ ls, HardFree (stripAnsi l)) :
    ∃ f, fill env mo o t = some f ∧ fill env mo o f = some f :=
  fill_idempotent_firstfit_safe env hsp mo hmo o hb halg hii hsi t ls hw hsafe hno hfit hts
    (fun l _ => TW.C05.pipeline_total env o hb l _ (fun _ => boundary_own env lbTables henv _))
    (fun hs l hl => oppsNoSpace_own env henv _ (hf hs l hl))

end TW.C14

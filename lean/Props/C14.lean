/-
  C14 — filling is idempotent.
  Proved here: the reduction of idempotence to per-line stability (a line of the first result,
  re-wrapped on its own, comes back as itself), and the join/split round trip that the
  reduction needs. Per-line stability for lines that fit and do not end in a space is C05.
-/
import Lemmas.WrapAppend
import Props.C09
import Props.C05
namespace TW.C14

/-- splitting the joined lines at the line ending gives the lines back, when no line contains a
    line feed (`'\n'` ending, and `"\r\n"` ending as well: the only `'\n'`s are the inserted ones,
    each directly preceded by the inserted `'\r'`) -/
-- @audit TW.C14.join_split
theorem join_split (e : LineEnding) (ls : List Text) (hne : ls ≠ []) (hno : ∀ l ∈ ls, LF ∉ l) :
    splitEnding e (joinWith e.str ls) = ls := by
  induction ls with
  | nil => exact absurd rfl hne
  | cons a r ih =>
    cases r with
    | nil =>
      simp only [joinWith]
      cases e with
      | lf => exact TW.C09.splitLF_noLF a (hno a (by simp))
      | crlf => exact TW.C09.splitCRLF_noLF a (hno a (by simp))
    | cons b r' =>
      rw [joinWith_cons_cons, splitEnding_append, ih (by simp) (fun l hl => hno l (by simp [hl]))]
      have : splitEnding e a = [a] := by
        cases e with
        | lf => exact TW.C09.splitLF_noLF a (hno a (by simp))
        | crlf => exact TW.C09.splitCRLF_noLF a (hno a (by simp))
      rw [this]; rfl

section
variable {α : Type} [CostNum α]

/-- a line is *stable* under the options: wrapped on its own, as any paragraph of a text, it
    comes back as exactly itself -/
def Stable (env : Env) (mo : MinimaOracle α) (o : Opts) (l : Text) : Prop :=
  ∀ n, (wrapSingleLine env mo o l n).map (·.map LineD.render) = some [l]

theorem wrapR_stable (env : Env) (mo : MinimaOracle α) (o : Opts) (ls : List Text)
    (hs : ∀ l ∈ ls, Stable env mo o l) (off n : Nat) :
    wrapR (blen o.lineEnding.str) (wrapSingleLine env mo o) ls off n = some ls := by
  induction ls generalizing off n with
  | nil => rfl
  | cons l r ih =>
    rw [wrapR_cons]
    have h := hs l (by simp) n
    cases hw : wrapSingleLine env mo o l n with
    | none => simp [hw] at h
    | some ds =>
      simp only [hw, Option.map_some, Option.some.injEq] at h
      simp only
      rw [ih (fun x hx => hs x (by simp [hx]))]
      simp [h]

/-- **reduction of idempotence to per-line stability.** If the lines of the first result contain
    no line feed and each of them is stable, filling the result again returns it unchanged. -/
-- @audit TW.C14.fill_idempotent_of_stable
theorem fill_idempotent_of_stable (env : Env) (mo : MinimaOracle α) (o : Opts) (t : Text) (ls : List Text)
    (hw : wrap env mo o t = some ls) (hne : ls ≠ [])
    (hno : ∀ l ∈ ls, LF ∉ l) (hs : ∀ l ∈ ls, Stable env mo o l) :
    fill env mo o (joinWith o.lineEnding.str ls) = some (joinWith o.lineEnding.str ls) ∧
    fill env mo o t = some (joinWith o.lineEnding.str ls) := by
  have h1 : fill env mo o t = some (joinWith o.lineEnding.str ls) := by
    rw [TW.C09.fill_eq_join, hw]; rfl
  refine ⟨?_, h1⟩
  rw [TW.C09.fill_eq_join, TW.C09.wrap_eq_wrapR, join_split o.lineEnding ls hne hno,
    wrapR_stable env mo o ls hs 0 0]
  rfl

end

/-- a fitting line without trailing space is stable — first-fit, ASCII separator, ESC-free text,
    built-in splitter, empty indents (instance of C05) -/
-- @audit TW.C14.stable_of_fits_firstfit
theorem stable_of_fits_firstfit (env : Env) (hsp : env.cw SP = 1) (mo : MinimaOracle Int) (o : Opts)
    (hb : Builtin o.splitter) (halg : o.alg = .firstFit) (hsep : o.sep = .ascii)
    (hii : o.initialIndent = []) (hsi : o.subsequentIndent = [])
    (l : Text) (hesc : ∀ c ∈ l, c ≠ ESC) (hfit : displayWidth env.cw l ≤ o.width)
    (hts : l.getLast? ≠ some SP) : Stable env mo o l := by
  intro n
  unfold wrapSingleLine
  have hind : (if n = 0 then o.initialIndent else o.subsequentIndent) = [] := by split <;> assumption
  have hindent : TW.C05.indentOf o n = [] := hind
  by_cases hc : blen l < o.width ∧ (if n = 0 then o.initialIndent else o.subsequentIndent).isEmpty = true
  · rw [if_pos hc]
    simp [LineD.render, TW.C05.trimEndSp_id l hts]
  · rw [if_neg hc]
    cases hp : pipeline env o l (o.width - displayWidth env.cw o.subsequentIndent) with
    | none => exact absurd hp (fun h => TW.C05.shortcut_sound_ascii_escfree.pipeline_ascii_total env o hsep hb l _ h)
    | some frs =>
      obtain ⟨c1, c2⟩ := pipeline_contig env o (builtin_inRange _ _ hb) l _ frs hp
      have hn := hnorm_of_escfree frs (fun w hw => (c2 w hw).1) (by rw [c1]; exact hesc)
      have hl := pipeline_lastOk_ascii env o hsep (builtin_inRange _ _ hb) l _ frs hp
      have hnp := pipeline_noPen env o hb l _ frs hp
      rw [TW.C05.fits_one_line_firstfit env hsp mo o hb halg l n frs hp hn
        (by rw [hindent]; simp [displayWidth, dwFrom]; unfold displayWidth at hfit; omega)]
      simp only [Option.map_some, Option.some.injEq]
      rw [TW.C05.one_line_render env o l n frs c2 hl hnp c1, hindent, TW.C05.trimEndSp_id l hts]
      rfl

end TW.C14

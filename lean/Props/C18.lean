/-
  C18 — dedent removes exactly the longest common whitespace margin.
-/
import Lemmas.DedentJoin
import Props.C19
namespace TW.C18

/-- the margin: longest common prefix of the leading-whitespace runs of the lines that contain
    a non-whitespace character; `""` if there is none -/
def margin (isWs : Char → Bool) (ls : List Text) : Text :=
  match (ls.filter (nonblank isWs)).map (leadingWs isWs) with
  | [] => []
  | m :: ms => ms.foldl (fun acc w => lcp w acc) m

/-- the specified image of one line -/
def lineImage (isWs : Char → Bool) (m : Text) (l : Text) : Text :=
  if nonblank isWs l then l.drop m.length else []

theorem foldl_lcp_prefix_init (m : Text) (ms : List Text) :
    ms.foldl (fun acc w => lcp w acc) m <+: m := by
  induction ms generalizing m with
  | nil => simp
  | cons w ws ih => exact (ih (lcp w m)).trans (lcp_prefix_right w m)

theorem foldl_lcp_prefix_mem (m : Text) (ms : List Text) :
    ∀ w ∈ ms, ms.foldl (fun acc w => lcp w acc) m <+: w := by
  induction ms generalizing m with
  | nil => simp
  | cons x xs ih =>
    intro w hw
    rcases List.mem_cons.mp hw with rfl | hw
    · exact (foldl_lcp_prefix_init (lcp w m) xs).trans (lcp_prefix_left w m)
    · exact ih (lcp x m) w hw

theorem prefix_foldl_lcp (v m : Text) (ms : List Text) (hm : v <+: m) (hms : ∀ w ∈ ms, v <+: w) :
    v <+: ms.foldl (fun acc w => lcp w acc) m := by
  induction ms generalizing m with
  | nil => simpa
  | cons x xs ih =>
    exact ih (lcp x m) (prefix_lcp v x m (hms x (by simp)) hm) (fun w hw => hms w (by simp [hw]))

/-- the margin is a prefix of every line that contains a non-whitespace character -/
-- @audit TW.C18.margin_prefix
theorem margin_prefix (isWs : Char → Bool) (ls : List Text) :
    ∀ l ∈ ls, nonblank isWs l = true → margin isWs ls <+: l := by
  intro l hl hn
  have hmem : leadingWs isWs l ∈ (ls.filter (nonblank isWs)).map (leadingWs isWs) :=
    List.mem_map.mpr ⟨l, List.mem_filter.mpr ⟨hl, hn⟩, rfl⟩
  unfold margin
  cases h : (ls.filter (nonblank isWs)).map (leadingWs isWs) with
  | nil => rw [h] at hmem; simp at hmem
  | cons m ms =>
    rw [h] at hmem
    simp only
    rcases List.mem_cons.mp hmem with h1 | h1
    · rw [← h1]; exact (foldl_lcp_prefix_init _ ms).trans (leadingWs_prefix isWs l)
    · exact (foldl_lcp_prefix_mem m ms _ h1).trans (leadingWs_prefix isWs l)

/-- it consists of whitespace characters -/
-- @audit TW.C18.margin_ws
theorem margin_ws (isWs : Char → Bool) (ls : List Text) : (margin isWs ls).all isWs = true := by
  unfold margin
  cases h : (ls.filter (nonblank isWs)).map (leadingWs isWs) with
  | nil => simp
  | cons m ms =>
    simp only
    have hm : m ∈ (ls.filter (nonblank isWs)).map (leadingWs isWs) := by rw [h]; simp
    obtain ⟨l, _, rfl⟩ := List.mem_map.mp hm
    exact all_of_prefix (foldl_lcp_prefix_init _ ms) (leadingWs_all isWs l)

/-- and it is the *longest* such string: every whitespace string that is a prefix of every line
    containing a non-whitespace character is a prefix of the margin -/
-- @audit TW.C18.margin_longest
theorem margin_longest (isWs : Char → Bool) (ls : List Text) (w : Text) (hw : w.all isWs = true)
    (hex : ∃ l ∈ ls, nonblank isWs l = true)
    (hp : ∀ l ∈ ls, nonblank isWs l = true → w <+: l) : w <+: margin isWs ls := by
  unfold margin
  cases h : (ls.filter (nonblank isWs)).map (leadingWs isWs) with
  | nil =>
    obtain ⟨l, hl, hn⟩ := hex
    have : leadingWs isWs l ∈ (ls.filter (nonblank isWs)).map (leadingWs isWs) :=
      List.mem_map.mpr ⟨l, List.mem_filter.mpr ⟨hl, hn⟩, rfl⟩
    rw [h] at this; simp at this
  | cons m ms =>
    simp only
    have hall : ∀ x ∈ m :: ms, w <+: x := by
      intro x hx
      rw [← h] at hx
      obtain ⟨l, hl, rfl⟩ := List.mem_map.mp hx
      obtain ⟨hl1, hl2⟩ := List.mem_filter.mp hl
      exact prefix_leadingWs isWs w l hw (hp l hl1 hl2)
    exact prefix_foldl_lcp w m ms (hall m (by simp)) (fun x hx => hall x (by simp [hx]))

theorem filter_dropWhile_blank (isWs : Char → Bool) (ls : List Text) :
    (ls.dropWhile (fun l => l.all isWs)).filter (nonblank isWs) = ls.filter (nonblank isWs) := by
  induction ls with
  | nil => simp
  | cons l ls ih =>
    simp only [List.dropWhile]
    split
    · next h => simp [List.filter, nonblank, h, ih]
    · rfl

theorem dropWhile_head_false {α} (p : α → Bool) (ls : List α) (l : α) (rest : List α)
    (h : ls.dropWhile p = l :: rest) : p l = false := by
  induction ls with
  | nil => simp at h
  | cons x xs ih =>
    simp only [List.dropWhile] at h
    split at h
    · exact ih h
    · next hx => simp only [List.cons.injEq] at h; rw [← h.1]; simpa using hx

/-- the prefix computed by the two loops of `dedent` is the margin -/
theorem model_margin (isWs : Char → Bool) (ls : List Text) :
    dedentNarrow isWs (dedentSeed isWs ls).2 (dedentSeed isWs ls).1 = margin isWs ls := by
  rw [dedentSeed_eq]
  unfold margin
  rw [← filter_dropWhile_blank]
  cases h : ls.dropWhile (fun l => l.all isWs) with
  | nil => simp [dedentNarrow]
  | cons l rest =>
    have hl : l.all isWs = false := dropWhile_head_false _ ls l rest h
    simp only
    rw [dedentNarrow_eq isWs rest _ (leadingWs_all isWs l)]
    simp [List.filter, nonblank, hl]

theorem dedentOut_eq (isWs : Char → Bool) (pre : Text) (ls : List Text)
    (hp : ∀ l ∈ ls, nonblank isWs l = true → pre <+: l) :
    dedentOut isWs pre ls = (ls.map fun l => lineImage isWs pre l ++ [LF]).flatten := by
  induction ls with
  | nil => simp [dedentOut]
  | cons l rest ih =>
    simp only [dedentOut, List.map_cons, List.flatten_cons, ih (fun x hx => hp x (by simp [hx]))]
    congr 1
    unfold lineImage
    by_cases hn : nonblank isWs l = true
    · have hpre : pre.isPrefixOf l = true := List.isPrefixOf_iff_prefix.mpr (hp l (by simp) hn)
      have hany : l.any (fun c => !isWs c) = true := by
        simp only [nonblank, Bool.not_eq_true', List.all_eq_false] at hn
        simpa using hn
      simp [hpre, hany, hn]
    · have hany : l.any (fun c => !isWs c) = false := by
        simp only [nonblank, Bool.not_eq_true', Bool.not_eq_false] at hn
        simp only [List.any_eq_false]
        intro c hc
        have := List.all_eq_true.mp hn c hc
        simp [this]
      simp [hany, hn]

/-- **dedent_spec**: every line (per `str::lines`) that contains a non-whitespace character is
    output without the margin, every other line as an empty line, each followed by `'\n'`; the
    final `'\n'` is removed iff the input did not end in one. -/
-- @audit TW.C18.dedent_spec
theorem dedent_spec (isWs : Char → Bool) (s : Text) :
    dedent isWs s =
      let body := ((lines s).map fun l => lineImage isWs (margin isWs (lines s)) l ++ [LF]).flatten
      if body.getLast? = some LF ∧ s.getLast? ≠ some LF then body.dropLast else body := by
  unfold dedent
  simp only
  have hm := model_margin isWs (lines s)
  have : (dedentSeed isWs (lines s)) = ((dedentSeed isWs (lines s)).1, (dedentSeed isWs (lines s)).2) := rfl
  rw [this]
  simp only [hm]
  rw [dedentOut_eq isWs _ _ (margin_prefix isWs (lines s))]

/-- same number of lines: one output line per input line -/
-- @audit TW.C18.dedent_line_count
theorem dedent_line_count (isWs : Char → Bool) (s : Text) :
    ((lines s).map fun l => lineImage isWs (margin isWs (lines s)) l).length = (lines s).length := by
  simp

/-! ### the text as `'\n'`-separated pieces (text without carriage returns) -/

theorem margin_no_nonblank (isWs : Char → Bool) (ls : List Text)
    (h : ∀ l ∈ ls, nonblank isWs l = false) : margin isWs ls = [] := by
  unfold margin
  have : ls.filter (nonblank isWs) = [] := by
    rw [List.filter_eq_nil_iff]; intro l hl; simp [h l hl]
  rw [this]; rfl

theorem margin_append_blank (isWs : Char → Bool) (ls : List Text) (b : Text)
    (hb : nonblank isWs b = false) : margin isWs (ls ++ [b]) = margin isWs ls := by
  unfold margin
  rw [List.filter_append]
  simp [List.filter, hb]

/-- the margin is determined by its universal property -/
theorem margin_unique (isWs : Char → Bool) (ls : List Text) (x : Text) (hx : x.all isWs = true)
    (hex : ∃ l ∈ ls, nonblank isWs l = true)
    (hp : ∀ l ∈ ls, nonblank isWs l = true → x <+: l)
    (hmax : ∀ w : Text, w.all isWs = true → (∀ l ∈ ls, nonblank isWs l = true → w <+: l) → w <+: x) :
    margin isWs ls = x := by
  have h1 : x <+: margin isWs ls := margin_longest isWs ls x hx hex hp
  have h2 : margin isWs ls <+: x := hmax _ (margin_ws isWs ls) (margin_prefix isWs ls)
  exact List.IsPrefix.eq_of_length_le h2 h1.length_le

theorem linesOf_snoc (ps : List Text) (last : Text) :
    linesOf (ps ++ [last]) = ps.map stripCR ++ (if last.isEmpty then [] else [last]) := by
  induction ps with
  | nil => simp [linesOf]
  | cons p r ih =>
    cases r with
    | nil => simp [linesOf]
    | cons q r' =>
      simp only [List.cons_append, linesOf, List.map_cons] at ih ⊢
      rw [ih]

theorem flatten_eq_unlines (f : Text → Text) (ls : List Text) :
    (ls.map fun l => f l ++ [LF]).flatten = unlines (ls.map f) := by
  simp [unlines, List.map_map, Function.comp_def]

theorem map_stripCR_noCR (ps : List Text) (h : ∀ p ∈ ps, CR ∉ p) : ps.map stripCR = ps := by
  induction ps with
  | nil => rfl
  | cons p r ih =>
    simp only [List.map_cons, stripCR_noCR p (h p (by simp)), ih (fun x hx => h x (by simp [hx]))]

/-- **dedent as a map over the `'\n'`-separated pieces** (text without `'\r'`): the output is
    the images of the pieces joined by `'\n'` — same number of pieces, same number of `'\n'`,
    a final `'\n'` is kept and none is added. -/
-- @audit TW.C18.dedent_pieces
theorem dedent_pieces (isWs : Char → Bool) (s : Text) (hcr : CR ∉ s) :
    dedent isWs s = joinWith [LF] ((splitLF s).map (lineImage isWs (margin isWs (splitLF s)))) := by
  rw [dedent_spec, lines_eq]
  have hne := splitLF_ne_nil s
  have hlast := splitLF_getLast s
  have hnocr : ∀ p ∈ splitLF s, CR ∉ p := fun p hp hc => hcr (splitLF_sub s p hp CR hc)
  obtain ⟨ps, last, hps⟩ : ∃ ps last, splitLF s = ps ++ [last] := by
    cases h : (splitLF s).getLast? with
    | none => exact absurd (List.getLast?_eq_none_iff.mp h) hne
    | some l => exact ⟨_, l, (List.getLast?_eq_some_iff.mp h).choose_spec⟩
  rw [hps] at hlast hnocr ⊢
  rw [linesOf_snoc, map_stripCR_noCR ps (fun p hp => hnocr p (by simp [hp]))]
  simp only [List.getLast?_append, List.getLast?_singleton, Option.some_or, Option.some.injEq] at hlast
  by_cases hl : last = []
  · subst hl
    have hb : nonblank isWs ([] : Text) = false := by simp [nonblank]
    simp only [List.isEmpty_nil, if_true, List.append_nil, margin_append_blank isWs ps [] hb,
      List.map_append, List.map_cons, List.map_nil]
    have himg : lineImage isWs (margin isWs ps) [] = [] := by simp [lineImage, hb]
    rw [himg, ← unlines_eq_join]
    simp only [flatten_eq_unlines]
    rcases hlast.mp rfl with hs | hs
    · -- `s = []`: one empty piece
      subst hs
      have : ps = [] := by
        have : splitLF [] = ps ++ [[]] := hps
        simp only [splitLF] at this
        cases ps with
        | nil => rfl
        | cons a r => simp at this
      subst this
      simp [unlines]
    · rw [if_neg (fun h => h.2 hs)]
  · have hle : last.isEmpty = false := by cases last <;> simp_all
    simp only [hle, Bool.false_eq_true, if_false]
    have hs : s.getLast? ≠ some LF := fun h => hl (hlast.mpr (Or.inr h))
    have hne2 : (ps ++ [last]).map (lineImage isWs (margin isWs (ps ++ [last]))) ≠ [] := by simp
    simp only [flatten_eq_unlines]
    rw [if_pos ⟨unlines_getLast _ hne2, hs⟩, unlines_dropLast _ hne2]

/-! ### idempotence -/

theorem lineImage_sub (isWs : Char → Bool) (m l : Text) : ∀ c ∈ lineImage isWs m l, c ∈ l := by
  intro c hc
  unfold lineImage at hc
  split at hc
  · exact List.mem_of_mem_drop hc
  · simp at hc

theorem nonblank_image (isWs : Char → Bool) (m l : Text) (hm : m.all isWs = true)
    (hp : nonblank isWs l = true → m <+: l) :
    nonblank isWs (lineImage isWs m l) = nonblank isWs l := by
  unfold lineImage
  by_cases hn : nonblank isWs l = true
  · rw [if_pos hn, nonblank_drop isWs m l hm (hp hn)]
  · rw [if_neg hn]
    have : nonblank isWs l = false := by simpa using hn
    rw [this]; simp [nonblank]

/-- after removing the margin no common whitespace margin is left -/
theorem margin_images (isWs : Char → Bool) (ls : List Text) :
    margin isWs (ls.map (lineImage isWs (margin isWs ls))) = [] := by
  have hmw := margin_ws isWs ls
  have hmp := margin_prefix isWs ls
  by_cases hex : ∃ l ∈ ls, nonblank isWs l = true
  · have hw' := margin_ws isWs (ls.map (lineImage isWs (margin isWs ls)))
    have hp' := margin_prefix isWs (ls.map (lineImage isWs (margin isWs ls)))
    generalize margin isWs (ls.map (lineImage isWs (margin isWs ls))) = m' at hw' hp'
    have hlong : margin isWs ls ++ m' <+: margin isWs ls := by
      apply margin_longest isWs ls _ (by simp [List.all_append, hmw, hw']) hex
      intro l hl hn
      have himg : lineImage isWs (margin isWs ls) l = l.drop (margin isWs ls).length := by
        simp [lineImage, hn]
      have h1 : m' <+: l.drop (margin isWs ls).length := by
        rw [← himg]
        apply hp' _ (List.mem_map.mpr ⟨l, hl, rfl⟩)
        rw [nonblank_image isWs _ l hmw (hmp l hl)]; exact hn
      have h2 := (List.prefix_append_right_inj (margin isWs ls)).mpr h1
      rw [drop_of_prefix (hmp l hl hn)] at h2
      exact h2
    have := hlong.length_le
    simp only [List.length_append] at this
    exact List.eq_nil_of_length_eq_zero (by omega)
  · apply margin_no_nonblank
    intro x hx
    obtain ⟨l, hl, rfl⟩ := List.mem_map.mp hx
    rw [nonblank_image isWs _ l hmw (hmp l hl)]
    have : ¬ nonblank isWs l = true := fun h => hex ⟨l, hl, h⟩
    simpa using this

theorem image_nil_fix (isWs : Char → Bool) (m l : Text) (hm : m.all isWs = true)
    (hp : nonblank isWs l = true → m <+: l) :
    lineImage isWs [] (lineImage isWs m l) = lineImage isWs m l := by
  have hn := nonblank_image isWs m l hm hp
  have hx : nonblank isWs l = false → lineImage isWs m l = [] := by
    intro h; simp [lineImage, h]
  generalize lineImage isWs m l = x at hn hx
  unfold lineImage
  by_cases h : nonblank isWs l = true
  · rw [hn, if_pos h]; simp
  · rw [hn, if_neg h]
    exact (hx (by simpa using h)).symm

theorem CR_ne_LF : CR ≠ LF := by decide

/-- **dedent is idempotent** on text without carriage returns (with them: known finding KF-3) -/
-- @audit TW.C18.dedent_idempotent
theorem dedent_idempotent (isWs : Char → Bool) (s : Text) (hcr : CR ∉ s) :
    dedent isWs (dedent isWs s) = dedent isWs s := by
  rw [dedent_pieces isWs s hcr]
  have hmw := margin_ws isWs (splitLF s)
  have hmp := margin_prefix isWs (splitLF s)
  generalize hm : margin isWs (splitLF s) = m at hmw hmp
  have hne : (splitLF s).map (lineImage isWs m) ≠ [] := by simp [splitLF_ne_nil s]
  have hnolf : ∀ x ∈ (splitLF s).map (lineImage isWs m), LF ∉ x := by
    intro x hx h
    obtain ⟨l, hl, rfl⟩ := List.mem_map.mp hx
    exact splitLF_no_LF s l hl (lineImage_sub isWs m l LF h)
  have hcr2 : CR ∉ joinWith [LF] ((splitLF s).map (lineImage isWs m)) := by
    intro h
    rcases joinWith_sub _ _ CR h with h | ⟨x, hx, hc⟩
    · simp at h; exact CR_ne_LF h
    · obtain ⟨l, hl, rfl⟩ := List.mem_map.mp hx
      exact hcr (splitLF_sub s l hl CR (lineImage_sub isWs m l CR hc))
  rw [dedent_pieces isWs _ hcr2, splitLF_joinWith _ hne hnolf]
  have := margin_images isWs (splitLF s)
  rw [hm] at this
  rw [this, List.map_map]
  congr 1
  apply List.map_congr_left
  intro l hl
  exact image_nil_fix isWs m l hmw (hmp l hl)

/-! ### dedent after indent -/

theorem trimEndBy_all (p : Char → Bool) (t : Text) (h : t.all p = true) : trimEndBy p t = [] := by
  induction t with
  | nil => rfl
  | cons c cs ih =>
    simp only [List.all_cons, Bool.and_eq_true] at h
    simp [trimEndBy, ih h.2, h.1]

/-- `indent` as a map over the `'\n'`-separated pieces, for a whitespace prefix -/
theorem indent_pieces (isWs : Char → Bool) (s p : Text) (hp : p.all isWs = true) :
    indent isWs s p = joinWith [LF] ((splitLF s).map fun l => if nonblank isWs l then p ++ l else l) := by
  rw [C19.indent_spec]
  have hf : C19.lineImage isWs p = fun l => if nonblank isWs l then p ++ l else l := by
    funext l
    unfold C19.lineImage nonblank
    rw [trimEndBy_all isWs p hp]
    cases l.all isWs <;> simp
  rw [hf]
  generalize hfd : (fun l => if nonblank isWs l then p ++ l else l) = f
  have hf0 : f [] = [] := by rw [← hfd]; simp [nonblank]
  unfold splitTerminatorLF
  by_cases hl : (splitLF s).getLast? = some []
  · simp only [hl]
    rcases (splitLF_getLast s).mp hl with h | h
    · subst h; simp [splitLF, joinWith, hf0]
    · simp only [h, if_true]
      obtain ⟨ps, hps⟩ := List.getLast?_eq_some_iff.mp hl
      have hpsne : ps ≠ [] := by
        intro hnil
        subst hnil
        have := joinWith_splitLF s
        rw [hps] at this
        simp [joinWith] at this
        subst this
        simp at h
      rw [hps]
      simp only [List.dropLast_concat, List.map_append, List.map_cons, List.map_nil, hf0]
      have h2 : 2 ≤ (ps.map f ++ [[]]).length := by
        cases ps with
        | nil => exact absurd rfl hpsne
        | cons a r => simp
      have := joinWith_dropLast_nil (ps.map f ++ [[]]) (by simp) h2
      simpa using this
  · have hne : s.getLast? ≠ some LF := fun h => hl ((splitLF_getLast s).mpr (Or.inr h))
    have : (match (splitLF s).getLast? with
        | some [] => (splitLF s).dropLast
        | _ => splitLF s) = splitLF s := by
      split
      · next h => exact absurd h hl
      · rfl
    simp only [this, hne, if_false, List.append_nil]

/-- the margin of the indented lines is the prefix followed by the old margin -/
theorem margin_indent (isWs : Char → Bool) (ls : List Text) (p : Text) (hp : p.all isWs = true)
    (hex : ∃ l ∈ ls, nonblank isWs l = true) :
    margin isWs (ls.map fun l => if nonblank isWs l then p ++ l else l) = p ++ margin isWs ls := by
  have hmw := margin_ws isWs ls
  have hmp := margin_prefix isWs ls
  have hnb : ∀ l, nonblank isWs (if nonblank isWs l then p ++ l else l) = nonblank isWs l := by
    intro l
    by_cases h : nonblank isWs l = true
    · rw [if_pos h, nonblank_append_ws isWs p l hp]
    · rw [if_neg h]
  apply margin_unique
  · simp [List.all_append, hp, hmw]
  · obtain ⟨l, hl, hn⟩ := hex
    exact ⟨_, List.mem_map.mpr ⟨l, hl, rfl⟩, by rw [hnb]; exact hn⟩
  · intro x hx hn
    obtain ⟨l, hl, rfl⟩ := List.mem_map.mp hx
    rw [hnb] at hn
    rw [if_pos hn]
    exact (List.prefix_append_right_inj p).mpr (hmp l hl hn)
  · intro w hw hall
    -- `w` is a whitespace prefix of every `p ++ l`
    obtain ⟨l0, hl0, hn0⟩ := hex
    have hw0 : w <+: p ++ l0 := by
      have := hall _ (List.mem_map.mpr ⟨l0, hl0, rfl⟩) (by rw [hnb]; exact hn0)
      rwa [if_pos hn0] at this
    by_cases hlen : w.length ≤ p.length
    · exact (List.prefix_of_prefix_length_le hw0 (List.prefix_append p l0) hlen).trans
        (List.prefix_append p _)
    · -- `w = p ++ y`, and `y` is a whitespace prefix of every nonblank line
      have hpw : p <+: w := List.prefix_of_prefix_length_le (List.prefix_append p l0) hw0 (by omega)
      obtain ⟨y, rfl⟩ := hpw
      apply (List.prefix_append_right_inj p).mpr
      apply margin_longest isWs ls y _ ⟨l0, hl0, hn0⟩
      · intro l hl hn
        have := hall _ (List.mem_map.mpr ⟨l, hl, rfl⟩) (by rw [hnb]; exact hn)
        rw [if_pos hn] at this
        exact (List.prefix_append_right_inj p).mp this
      · simp only [List.all_append, Bool.and_eq_true] at hw
        exact hw.2

/-- **`dedent(indent(s, p)) = dedent(s)`** for every whitespace prefix `p` without line feed and
    every `s` without carriage returns -/
-- @audit TW.C18.dedent_indent
theorem dedent_indent (isWs : Char → Bool) (s p : Text) (hp : p.all isWs = true)
    (hplf : LF ∉ p) (hpcr : CR ∉ p) (hcr : CR ∉ s) :
    dedent isWs (indent isWs s p) = dedent isWs s := by
  rw [indent_pieces isWs s p hp, dedent_pieces isWs s hcr]
  generalize hfd : (fun l => if nonblank isWs l then p ++ l else l) = f
  have hf : ∀ l, f l = if nonblank isWs l then p ++ l else l := fun l => by rw [← hfd]
  have hne : (splitLF s).map f ≠ [] := by simp [splitLF_ne_nil s]
  have hnolf : ∀ x ∈ (splitLF s).map f, LF ∉ x := by
    intro x hx h
    obtain ⟨l, hl, rfl⟩ := List.mem_map.mp hx
    rw [hf] at h
    split at h
    · rcases List.mem_append.mp h with h | h
      · exact hplf h
      · exact splitLF_no_LF s l hl h
    · exact splitLF_no_LF s l hl h
  have hcr2 : CR ∉ joinWith [LF] ((splitLF s).map f) := by
    intro h
    rcases joinWith_sub _ _ CR h with h | ⟨x, hx, hc⟩
    · simp at h; exact CR_ne_LF h
    · obtain ⟨l, hl, rfl⟩ := List.mem_map.mp hx
      rw [hf] at hc
      split at hc
      · rcases List.mem_append.mp hc with hc | hc
        · exact hpcr hc
        · exact hcr (splitLF_sub s l hl CR hc)
      · exact hcr (splitLF_sub s l hl CR hc)
  rw [dedent_pieces isWs _ hcr2, splitLF_joinWith _ hne hnolf, List.map_map]
  congr 1
  apply List.map_congr_left
  intro l hl
  simp only [Function.comp]
  have hnb : nonblank isWs (f l) = nonblank isWs l := by
    rw [hf]
    by_cases h : nonblank isWs l = true
    · rw [if_pos h, nonblank_append_ws isWs p l hp]
    · rw [if_neg h]
  unfold lineImage
  rw [hnb]
  by_cases hn : nonblank isWs l = true
  · rw [if_pos hn, if_pos hn, hf, if_pos hn, ← hfd, margin_indent isWs (splitLF s) p hp ⟨l, hl, hn⟩]
    simp [List.drop_append]
  · rw [if_neg hn, if_neg hn]

/-! sanity on concrete input (tests, labelled as such): the repaired defect F4 and KF-3 -/
example : dedent (fun c => c = ' ' || c = '\t') ("    foo\n\t\n    bar".toList) = "foo\n\nbar".toList := by
  decide
/-- KF-3 (known finding): not idempotent on a line ending in CR before CRLF -/
example : dedent (fun c => c = ' ' || c = CR) ['a', CR, CR, LF, 'b'] = ['a', CR, LF, 'b'] ∧
    dedent (fun c => c = ' ' || c = CR) ['a', CR, LF, 'b'] = ['a', LF, 'b'] := by decide

end TW.C18

/-
  C18 — dedent removes exactly the longest common whitespace margin.
-/
import Lemmas.Dedent
namespace TW.C18

/-- the margin: longest common prefix of the leading-whitespace runs of the lines that contain
    a non-whitespace character; `""` if there is none -/
def margin (isWs : Char → Bool) (ls : List Text) : Text :=
  match (ls.filter (nonblank isWs)).map (leadingWs isWs) with
  | [] => []
  | m :: ms => ms.foldl (fun acc w => lcp w acc) m

/-- the specified image of one line -/
def lineImage (isWs : Char → Bool) (m : Text) (l : Text) : Text :=
  if nonblank isWs l then l.drop m.length else []

theorem foldl_lcp_prefix_init (m : Text) (ms : List Text) :
    ms.foldl (fun acc w => lcp w acc) m <+: m := by
  induction ms generalizing m with
  | nil => simp
  | cons w ws ih => exact (ih (lcp w m)).trans (lcp_prefix_right w m)

theorem foldl_lcp_prefix_mem (m : Text) (ms : List Text) :
    ∀ w ∈ ms, ms.foldl (fun acc w => lcp w acc) m <+: w := by
  induction ms generalizing m with
  | nil => simp
  | cons x xs ih =>
    intro w hw
    rcases List.mem_cons.mp hw with rfl | hw
    · exact (foldl_lcp_prefix_init (lcp w m) xs).trans (lcp_prefix_left w m)
    · exact ih (lcp x m) w hw

theorem prefix_foldl_lcp (v m : Text) (ms : List Text) (hm : v <+: m) (hms : ∀ w ∈ ms, v <+: w) :
    v <+: ms.foldl (fun acc w => lcp w acc) m := by
  induction ms generalizing m with
  | nil => simpa
  | cons x xs ih =>
    exact ih (lcp x m) (prefix_lcp v x m (hms x (by simp)) hm) (fun w hw => hms w (by simp [hw]))

/-- the margin is a prefix of every line that contains a non-whitespace character -/
-- @audit TW.C18.margin_prefix
theorem margin_prefix (isWs : Char → Bool) (ls : List Text) :
    ∀ l ∈ ls, nonblank isWs l = true → margin isWs ls <+: l := by
  intro l hl hn
  have hmem : leadingWs isWs l ∈ (ls.filter (nonblank isWs)).map (leadingWs isWs) :=
    List.mem_map.mpr ⟨l, List.mem_filter.mpr ⟨hl, hn⟩, rfl⟩
  unfold margin
  cases h : (ls.filter (nonblank isWs)).map (leadingWs isWs) with
  | nil => rw [h] at hmem; simp at hmem
  | cons m ms =>
    rw [h] at hmem
    simp only
    rcases List.mem_cons.mp hmem with h1 | h1
    · rw [← h1]; exact (foldl_lcp_prefix_init _ ms).trans (leadingWs_prefix isWs l)
    · exact (foldl_lcp_prefix_mem m ms _ h1).trans (leadingWs_prefix isWs l)

/-- it consists of whitespace characters -/
-- @audit TW.C18.margin_ws
theorem margin_ws (isWs : Char → Bool) (ls : List Text) : (margin isWs ls).all isWs = true := by
  unfold margin
  cases h : (ls.filter (nonblank isWs)).map (leadingWs isWs) with
  | nil => simp
  | cons m ms =>
    simp only
    have hm : m ∈ (ls.filter (nonblank isWs)).map (leadingWs isWs) := by rw [h]; simp
    obtain ⟨l, _, rfl⟩ := List.mem_map.mp hm
    exact all_of_prefix (foldl_lcp_prefix_init _ ms) (leadingWs_all isWs l)

/-- and it is the *longest* such string: every whitespace string that is a prefix of every line
    containing a non-whitespace character is a prefix of the margin -/
-- @audit TW.C18.margin_longest
theorem margin_longest (isWs : Char → Bool) (ls : List Text) (w : Text) (hw : w.all isWs = true)
    (hex : ∃ l ∈ ls, nonblank isWs l = true)
    (hp : ∀ l ∈ ls, nonblank isWs l = true → w <+: l) : w <+: margin isWs ls := by
  unfold margin
  cases h : (ls.filter (nonblank isWs)).map (leadingWs isWs) with
  | nil =>
    obtain ⟨l, hl, hn⟩ := hex
    have : leadingWs isWs l ∈ (ls.filter (nonblank isWs)).map (leadingWs isWs) :=
      List.mem_map.mpr ⟨l, List.mem_filter.mpr ⟨hl, hn⟩, rfl⟩
    rw [h] at this; simp at this
  | cons m ms =>
    simp only
    have hall : ∀ x ∈ m :: ms, w <+: x := by
      intro x hx
      rw [← h] at hx
      obtain ⟨l, hl, rfl⟩ := List.mem_map.mp hx
      obtain ⟨hl1, hl2⟩ := List.mem_filter.mp hl
      exact prefix_leadingWs isWs w l hw (hp l hl1 hl2)
    exact prefix_foldl_lcp w m ms (hall m (by simp)) (fun x hx => hall x (by simp [hx]))

theorem filter_dropWhile_blank (isWs : Char → Bool) (ls : List Text) :
    (ls.dropWhile (fun l => l.all isWs)).filter (nonblank isWs) = ls.filter (nonblank isWs) := by
  induction ls with
  | nil => simp
  | cons l ls ih =>
    simp only [List.dropWhile]
    split
    · next h => simp [List.filter, nonblank, h, ih]
    · rfl

theorem dropWhile_head_false {α} (p : α → Bool) (ls : List α) (l : α) (rest : List α)
    (h : ls.dropWhile p = l :: rest) : p l = false := by
  induction ls with
  | nil => simp at h
  | cons x xs ih =>
    simp only [List.dropWhile] at h
    split at h
    · exact ih h
    · next hx => simp only [List.cons.injEq] at h; rw [← h.1]; simpa using hx

/-- the prefix computed by the two loops of `dedent` is the margin -/
theorem model_margin (isWs : Char → Bool) (ls : List Text) :
    dedentNarrow isWs (dedentSeed isWs ls).2 (dedentSeed isWs ls).1 = margin isWs ls := by
  rw [dedentSeed_eq]
  unfold margin
  rw [← filter_dropWhile_blank]
  cases h : ls.dropWhile (fun l => l.all isWs) with
  | nil => simp [dedentNarrow]
  | cons l rest =>
    have hl : l.all isWs = false := dropWhile_head_false _ ls l rest h
    simp only
    rw [dedentNarrow_eq isWs rest _ (leadingWs_all isWs l)]
    simp [List.filter, nonblank, hl]

theorem dedentOut_eq (isWs : Char → Bool) (pre : Text) (ls : List Text)
    (hp : ∀ l ∈ ls, nonblank isWs l = true → pre <+: l) :
    dedentOut isWs pre ls = (ls.map fun l => lineImage isWs pre l ++ [LF]).flatten := by
  induction ls with
  | nil => simp [dedentOut]
  | cons l rest ih =>
    simp only [dedentOut, List.map_cons, List.flatten_cons, ih (fun x hx => hp x (by simp [hx]))]
    congr 1
    unfold lineImage
    by_cases hn : nonblank isWs l = true
    · have hpre : pre.isPrefixOf l = true := List.isPrefixOf_iff_prefix.mpr (hp l (by simp) hn)
      have hany : l.any (fun c => !isWs c) = true := by
        simp only [nonblank, Bool.not_eq_true', List.all_eq_false] at hn
        simpa using hn
      simp [hpre, hany, hn]
    · have hany : l.any (fun c => !isWs c) = false := by
        simp only [nonblank, Bool.not_eq_true', Bool.not_eq_false] at hn
        simp only [List.any_eq_false]
        intro c hc
        have := List.all_eq_true.mp hn c hc
        simp [this]
      simp [hany, hn]

/-- **dedent_spec**: every line (per `str::lines`) that contains a non-whitespace character is
    output without the margin, every other line as an empty line, each followed by `'\n'`; the
    final `'\n'` is removed iff the input did not end in one. -/
-- @audit TW.C18.dedent_spec
theorem dedent_spec (isWs : Char → Bool) (s : Text) :
    dedent isWs s =
      let body := ((lines s).map fun l => lineImage isWs (margin isWs (lines s)) l ++ [LF]).flatten
      if body.getLast? = some LF ∧ s.getLast? ≠ some LF then body.dropLast else body := by
  unfold dedent
  simp only
  have hm := model_margin isWs (lines s)
  have : (dedentSeed isWs (lines s)) = ((dedentSeed isWs (lines s)).1, (dedentSeed isWs (lines s)).2) := rfl
  rw [this]
  simp only [hm]
  rw [dedentOut_eq isWs _ _ (margin_prefix isWs (lines s))]

/-- same number of lines: one output line per input line -/
-- @audit TW.C18.dedent_line_count
theorem dedent_line_count (isWs : Char → Bool) (s : Text) :
    ((lines s).map fun l => lineImage isWs (margin isWs (lines s)) l).length = (lines s).length := by
  simp

/-! sanity on concrete input (tests, labelled as such): the repaired defect F4 and KF-3 -/
example : dedent (fun c => c = ' ' || c = '\t') ("    foo\n\t\n    bar".toList) = "foo\n\nbar".toList := by
  decide
/-- KF-3 (known finding): not idempotent on a line ending in CR before CRLF -/
example : dedent (fun c => c = ' ' || c = CR) ['a', CR, CR, LF, 'b'] = ['a', CR, LF, 'b'] ∧
    dedent (fun c => c = ' ' || c = CR) ['a', CR, LF, 'b'] = ['a', LF, 'b'] := by decide

end TW.C18

/-
  C15 — unfill inverts fill and recovers indents, width and line ending.
  The structural half (all strings) and the round trip with `fill`.
-/
import Lemmas.Unfill
import Lemmas.FillShape
import Props.C09
namespace TW.C15

/-- **the two line iterators agree** (guard of issue #466) -/
-- @audit TW.C15.nel_agrees_with_lines
theorem nel_agrees_with_lines (t : Text) :
    (nonEmptyLines t).map Prod.fst = (lines t).filter (fun l => !l.isEmpty) := nel_eq_lines t

theorem sliceFrom?_prefix (p line : Text) (h : p <+: line) : sliceFrom? line (blen p) = some (line.drop p.length) := by
  obtain ⟨t, rfl⟩ := h
  rw [sliceFrom?_append]; simp

/-- what the scanning loop returns on the whole line list -/
theorem scan_result (cw : Char → Nat) (ls : List Text) :
    let r := unfillScan cw ls 0 (0, [], [])
    r.2.1 = (ls.head?.map prefixOf).getD [] ∧
    r.2.1.all isPrefixChar = true ∧ r.2.2.all isPrefixChar = true ∧
    ∀ l ∈ ls.tail, r.2.2 <+: prefixOf l := by
  cases ls with
  | nil => simp [unfillScan]
  | cons a r =>
    simp only [unfillScan, if_true, List.head?_cons, Option.map_some, Option.getD_some, List.tail_cons]
    rw [take_trimStart]
    have hpa : (prefixOf a).all isPrefixChar = true := takeWhile_all _ _
    cases r with
    | nil => simp [unfillScan, prefixOf]
    | cons b r' =>
      simp only [unfillScan]
      rw [take_trimStart]
      have hpb : (List.takeWhile isPrefixChar b).all isPrefixChar = true := takeWhile_all _ _
      have h1 : ¬ ((0 : Nat) + 1 = 0) := by omega
      simp only [h1, if_false, if_true]
      obtain ⟨r1, r2, r3, r4⟩ := unfillScan_spec cw r' 2 (max (max 0 (displayWidth cw a)) (displayWidth cw b))
        (prefixOf a) (List.takeWhile isPrefixChar b) hpb hpa
      obtain ⟨q1, q2⟩ := r3 (by omega)
      refine ⟨r4 (by omega), r1, r2, ?_⟩
      intro l hl
      rcases List.mem_cons.mp hl with rfl | hl
      · exact q1
      · exact q2 l hl

theorem filter_tail_mem {α} (p : α → Bool) (l : List α) : ∀ x ∈ (l.filter p).tail, x ∈ l.tail := by
  cases l with
  | nil => simp
  | cons a r =>
    intro x hx
    simp only [List.filter] at hx
    split at hx
    · simp only [List.tail_cons] at hx ⊢; exact (List.mem_filter.mp hx).1
    · simp only [List.tail_cons]
      exact (List.mem_filter.mp (List.mem_of_mem_tail hx)).1

theorem unfillJoin_total (ini sub : Text) (nel : List (Text × Option LineEnding)) (idx : Nat) (acc : Text)
    (det : Option LineEnding)
    (h0 : idx = 0 → ∀ l e r, nel = (l, e) :: r → ini <+: l)
    (h1 : ∀ p ∈ (if idx = 0 then nel.tail else nel), sub <+: p.1) :
    ∃ r, unfillJoin ini sub nel idx acc det = some r := by
  induction nel generalizing idx acc det with
  | nil => exact ⟨_, rfl⟩
  | cons p rest ih =>
    obtain ⟨line, ending⟩ := p
    simp only [unfillJoin]
    by_cases hi : idx = 0
    · subst hi
      simp only [if_true]
      rw [sliceFrom?_prefix ini line (h0 rfl line ending rest rfl)]
      simp only
      exact ih 1 _ _ (fun h => by omega) (by simpa using h1)
    · simp only [hi, if_false] at h1 ⊢
      rw [sliceFrom?_prefix sub line (h1 (line, ending) (by simp))]
      simp only [Option.map_some]
      exact ih (idx + 1) _ _ (fun h => by omega) (by
        have : ¬ (idx + 1 = 0) := by omega
        simp only [this, if_false]
        intro q hq; exact h1 q (by simp [hq]))

/-- the detected indents: `initial_indent` is the prefix-character run of the first line,
    `subsequent_indent` consists of prefix characters and is a prefix of (the prefix-character run
    of) every later line -/
-- @audit TW.C15.unfill_indents
theorem unfill_indents (cw : Char → Nat) (t : Text) (u : Unfilled) (h : unfill cw t = some u) :
    u.initialIndent = ((lines t).head?.map prefixOf).getD [] ∧
    u.initialIndent.all isPrefixChar = true ∧ u.subsequentIndent.all isPrefixChar = true ∧
    (∀ l, (lines t).head? = some l → u.initialIndent <+: l) ∧
    (∀ l ∈ (lines t).tail, u.subsequentIndent <+: l) := by
  obtain ⟨s1, s2, s3, s4⟩ := scan_result cw (lines t)
  unfold unfill at h
  simp only at h
  split at h
  · simp at h
  · next unfilled det _ =>
    simp only [Option.some.injEq] at h
    subst h
    refine ⟨s1, s2, s3, ?_, ?_⟩
    · intro l hl
      simp only [hl, Option.map_some, Option.getD_some] at s1
      simp only [s1]
      exact takeWhile_prefix _ _
    · intro l hl
      exact (s4 l hl).trans (takeWhile_prefix _ _)

/-- **`unfill` never panics**: both slices `&line[indent.len()..]` are in range and on char
    boundaries, because `NonEmptyLines` yields elements of `lines()` and the indents are prefixes
    of them -/
-- @audit TW.C15.unfill_total
theorem unfill_total (cw : Char → Nat) (t : Text) : ∃ u, unfill cw t = some u := by
  obtain ⟨s1, _, _, s4⟩ := scan_result cw (lines t)
  unfold unfill
  simp only
  have hnel := nel_eq_lines t
  have htot := unfillJoin_total (unfillScan cw (lines t) 0 (0, [], [])).2.1
    (unfillScan cw (lines t) 0 (0, [], [])).2.2 (nonEmptyLines t) 0 [] none
    (by
      intro _ l e r hr
      -- the first non-empty line
      rw [s1]
      have h1 : l ∈ (lines t).filter (fun l => !l.isEmpty) := by rw [← hnel, hr]; simp
      cases hl : lines t with
      | nil => rw [hl] at h1; simp at h1
      | cons a rest =>
        simp only [List.head?_cons, Option.map_some, Option.getD_some]
        by_cases ha : a.isEmpty = true
        · have : a = [] := by simpa using ha
          subst this; simp [prefixOf]
        · have : (lines t).filter (fun l => !l.isEmpty) = a :: rest.filter (fun l => !l.isEmpty) := by
            rw [hl]; simp [List.filter, ha]
          rw [← hnel, hr] at this
          simp only [List.map_cons, List.cons.injEq] at this
          rw [this.1]; exact takeWhile_prefix _ _)
    (by
      simp only [if_true]
      intro p hp
      have : p.1 ∈ ((nonEmptyLines t).map Prod.fst).tail := by
        rw [← List.map_tail]; exact List.mem_map_of_mem hp
      rw [hnel] at this
      exact (s4 _ (filter_tail_mem _ _ _ this)).trans (takeWhile_prefix _ _))
  obtain ⟨r, hr⟩ := htot
  rw [hr]
  exact ⟨_, rfl⟩

/-! ### arbitrary input: no inner line break, the reported line ending -/

theorem nelGo_noLF : ∀ (ps : List Text), (∀ p ∈ ps, LF ∉ p) → ∀ x ∈ nelGo ps, LF ∉ x.1
  | [], _, x, hx => by simp [nelGo] at hx
  | [last], h, x, hx => by
    simp only [nelGo] at hx
    split at hx
    · simp at hx
    · simp only [List.mem_singleton] at hx; subst hx; exact h last (by simp)
  | p :: q :: rest, h, x, hx => by
    simp only [nelGo, List.mem_append] at hx
    rcases hx with hx | hx
    · split at hx
      · simp at hx
      · split at hx
        · simp only [List.mem_singleton] at hx; subst hx
          intro hm
          exact h p (by simp) ((List.dropLast_sublist p).subset hm)
        · simp only [List.mem_singleton] at hx; subst hx; exact h p (by simp)
    · exact nelGo_noLF (q :: rest) (fun y hy => h y (by simp [hy])) x hx

theorem sliceFrom?_noLF (line r : Text) (k : Nat) (h : sliceFrom? line k = some r) (hl : LF ∉ line) : LF ∉ r := by
  unfold sliceFrom? at h
  split at h
  · next a b hab =>
    simp only [Option.some.injEq] at h; subst h
    have := (splitBytes?_some hab).1
    intro hm; exact hl (by rw [this]; simp [hm])
  · simp at h

theorem unfillJoin_noLF (ini sub : Text) : ∀ (nel : List (Text × Option LineEnding)) (idx : Nat) (acc : Text)
    (det : Option LineEnding) (r : Text) (d : Option LineEnding),
    (∀ x ∈ nel, LF ∉ x.1) → LF ∉ acc → unfillJoin ini sub nel idx acc det = some (r, d) → LF ∉ r := by
  intro nel
  induction nel with
  | nil =>
    intro idx acc det r d _ ha h
    simp only [unfillJoin, Option.some.injEq, Prod.mk.injEq] at h
    rw [← h.1]; exact ha
  | cons x rest ih =>
    intro idx acc det r d hn ha h
    obtain ⟨line, ending⟩ := x
    simp only [unfillJoin] at h
    split at h
    · simp at h
    · next p hp =>
      refine ih (idx + 1) (acc ++ p) _ r d (fun y hy => hn y (by simp [hy])) ?_ h
      have hl : LF ∉ line := hn (line, ending) (by simp)
      intro hm
      rcases List.mem_append.mp hm with hm | hm
      · exact ha hm
      · split at hp
        · exact sliceFrom?_noLF line p _ hp hl hm
        · cases hs : sliceFrom? line (blen sub) with
          | none => rw [hs] at hp; simp at hp
          | some q =>
            rw [hs] at hp
            simp only [Option.map_some, Option.some.injEq] at hp
            rw [← hp] at hm
            rcases List.mem_cons.mp hm with e | e
            · exact absurd e (by decide)
            · exact sliceFrom?_noLF line q _ hs hl e

/-- **arbitrary input: the returned text contains no line feed other than in a final line
    ending** -/
-- @audit TW.C15.unfill_no_inner_break
theorem unfill_no_inner_break (cw : Char → Nat) (t : Text) (u : Unfilled) (h : unfill cw t = some u) :
    ∃ body, LF ∉ body ∧ (u.text = body ∨ u.text = body ++ u.lineEnding.str) := by
  unfold unfill at h
  simp only at h
  split at h
  · simp at h
  · next body det hj =>
    have hb : LF ∉ body := unfillJoin_noLF _ _ (nonEmptyLines t) 0 [] none body det
      (nelGo_noLF _ (splitLF_no_LF t)) (by simp) hj
    simp only [Option.some.injEq] at h
    subst h
    refine ⟨body, hb, ?_⟩
    cases det with
    | none => left; rfl
    | some le =>
      dsimp only
      split
      · right; rfl
      · left; rfl

/-- the line-ending detection is a left fold of `detStep` over the endings -/
theorem unfillJoin_det (ini sub : Text) : ∀ (nel : List (Text × Option LineEnding)) (idx : Nat) (acc : Text)
    (det : Option LineEnding) (r : Text) (d : Option LineEnding),
    unfillJoin ini sub nel idx acc det = some (r, d) → d = (nel.map (·.2)).foldl detStep det := by
  intro nel
  induction nel with
  | nil => intro idx acc det r d h; simp only [unfillJoin, Option.some.injEq, Prod.mk.injEq] at h; simp [h.2]
  | cons x rest ih =>
    intro idx acc det r d h
    simp only [unfillJoin] at h
    split at h
    · simp at h
    · simpa using ih _ _ _ r d h

theorem detFold_lf (es : List (Option LineEnding)) : es.foldl detStep (some .lf) = some .lf := by
  induction es with
  | nil => rfl
  | cons e es ih => cases e <;> simpa [detStep] using ih
theorem detFold_crlf (es : List (Option LineEnding)) :
    es.foldl detStep (some .crlf) = if some LineEnding.lf ∈ es then some .lf else some .crlf := by
  induction es with
  | nil => rfl
  | cons e es ih =>
    cases e with
    | none => simpa [detStep] using ih
    | some le =>
      cases le with
      | lf => simp [detStep, detFold_lf]
      | crlf => simpa [detStep] using ih
theorem detFold_none (es : List (Option LineEnding)) :
    es.foldl detStep none = some .crlf ↔ (∃ e ∈ es, e ≠ none) ∧ some LineEnding.lf ∉ es := by
  induction es with
  | nil => simp
  | cons e es ih =>
    cases e with
    | none => simpa [detStep] using ih
    | some le =>
      cases le with
      | lf => simp [detStep, detFold_lf]
      | crlf =>
        simp only [List.foldl_cons, detStep, detFold_crlf]
        constructor
        · intro h
          split at h
          · cases h
          · next hn => exact ⟨⟨some LineEnding.crlf, by simp, by simp⟩, by simpa using hn⟩
        · intro h
          have : some LineEnding.lf ∉ es := fun hm => h.2 (by simp [hm])
          simp [this]

/-- **arbitrary input: the reported line ending is CRLF exactly when the text's non-empty lines
    have at least one line ending and none of them is a bare LF** (for input without empty
    lines these are all the line endings of the text) -/
-- @audit TW.C15.unfill_ending
theorem unfill_ending (cw : Char → Nat) (t : Text) (u : Unfilled) (h : unfill cw t = some u) :
    u.lineEnding = .crlf ↔
      (∃ x ∈ nonEmptyLines t, x.2 ≠ none) ∧ ∀ x ∈ nonEmptyLines t, x.2 ≠ some .lf := by
  unfold unfill at h
  simp only at h
  split at h
  · simp at h
  · next body det hj =>
    have hd := unfillJoin_det _ _ _ _ _ _ _ _ hj
    simp only [Option.some.injEq] at h
    subst h
    dsimp only
    have key : det.getD LineEnding.lf = .crlf ↔ det = some .crlf := by
      cases det with
      | none => simp
      | some le => simp
    rw [key, hd, detFold_none]
    constructor
    · rintro ⟨⟨e, he, hne⟩, hlf⟩
      obtain ⟨x, hx, rfl⟩ := List.mem_map.mp he
      exact ⟨⟨x, hx, hne⟩, fun y hy hc => hlf (List.mem_map.mpr ⟨y, hy, hc⟩)⟩
    · rintro ⟨⟨x, hx, hne⟩, hall⟩
      refine ⟨⟨x.2, List.mem_map.mpr ⟨x, hx, rfl⟩, hne⟩, ?_⟩
      intro hm
      obtain ⟨y, hy, hc⟩ := List.mem_map.mp hm
      exact hall y hy hc

/-! sanity (tests, labelled as such): the upstream block-quote example -/
example : (unfill (fun _ => 1) "> foo\n> bar\n".toList).map (fun u => (String.ofList u.text, String.ofList u.initialIndent, String.ofList u.subsequentIndent, u.width)) =
    some ("foo bar\n", "> ", "> ", 5) := by decide

/-! ### the round trip with `fill` -/

section
variable {α : Type} [CostNum α]

theorem para_chars (ws : List Text) (hws : ∀ w ∈ ws, WordOk w) :
    LF ∉ joinWith [SP] ws ∧ CR ∉ joinWith [SP] ws := by
  constructor <;> intro h
  · rcases joinWith_sub _ _ _ h with h | ⟨w, hw, hc⟩
    · exact absurd h (by decide)
    · exact (hws w hw).2.2.1 hc
  · rcases joinWith_sub _ _ _ h with h | ⟨w, hw, hc⟩
    · exact absurd h (by decide)
    · exact (hws w hw).2.2.2 hc

theorem para_bodyOk (ws : List Text) (hne : ws ≠ []) (hws : ∀ w ∈ ws, WordOk w) :
    BodyOk (joinWith [SP] ws) := by
  obtain ⟨h1, h2⟩ := para_chars ws hws
  refine ⟨?_, h1, h2⟩
  cases ws with
  | nil => exact absurd rfl hne
  | cons w r =>
    obtain ⟨⟨c, t, rfl, hc⟩, _⟩ := hws w (by simp)
    exact ⟨c, _, joinWith_cons_head _ _ _ _, hc⟩

theorem para_no_trailing_sp (ws : List Text) (hne : ws ≠ []) (hws : ∀ w ∈ ws, WordOk w) :
    (joinWith [SP] ws).getLast? ≠ some SP := by
  cases hl : ws.getLast? with
  | none => exact absurd (List.getLast?_eq_none_iff.mp hl) hne
  | some l =>
    have hlm := List.mem_of_getLast? hl
    rw [joinWith_getLast _ _ l hl (hws l hlm).ne_nil]
    exact getLast_ne_SP l (hws l hlm).2.1

/-- **the shape of `wrap` on a paragraph of single-spaced words** (ASCII separator, no split
    point inside a word, `break_words` off, either algorithm): the first line is the initial
    indent followed by a body, every later line the subsequent indent followed by a body; bodies
    begin with the first character of a word, contain no line break characters, and joined by
    single spaces they are the paragraph. -/
-- @audit TW.C15.wrap_shape
theorem wrap_shape (env : Env) (mo : MinimaOracle α) (hmo : MoShape mo) (o : Opts)
    (hsep : o.sep = .ascii) (hbw : o.breakWords = false)
    (ws : List Text) (hne : ws ≠ []) (hws : ∀ w ∈ ws, WordOk w)
    (hpts : ∀ w ∈ ws, o.splitter.points env.isAlnum w = [])
    (ls : List Text) (h : wrap env mo o (joinWith [SP] ws) = some ls) :
    ∃ s0 ss, ls = (o.initialIndent ++ s0) :: ss.map (o.subsequentIndent ++ ·) ∧
      BodyOk s0 ∧ (∀ s ∈ ss, BodyOk s) ∧ joinWith [SP] (s0 :: ss) = joinWith [SP] ws := by
  obtain ⟨hlf, _⟩ := para_chars ws hws
  have hsplit : splitEnding o.lineEnding (joinWith [SP] ws) = [joinWith [SP] ws] := by
    cases o.lineEnding with
    | lf => exact C09.splitLF_noLF _ hlf
    | crlf => exact C09.splitCRLF_noLF _ hlf
  unfold wrap wrapD at h
  rw [hsplit] at h
  simp only [wrapParas] at h
  cases hd : wrapSingleLine env mo o (joinWith [SP] ws) 0 with
  | none => simp [hd] at h
  | some ds =>
    simp only [hd, Option.map_some, Option.some.injEq, List.append_nil, List.map_map] at h
    have hls : ls = ds.map LineD.render := by
      rw [← h]; apply List.map_congr_left; intro d _; rfl
    clear h
    unfold wrapSingleLine at hd
    by_cases hc : blen (joinWith [SP] ws) < o.width ∧
        (if (0 : Nat) = 0 then o.initialIndent else o.subsequentIndent).isEmpty = true
    · -- the shortcut: one line, the paragraph itself
      rw [if_pos hc] at hd
      simp only [Option.some.injEq] at hd
      have hii : o.initialIndent = [] := by simpa using hc.2
      refine ⟨joinWith [SP] ws, [], ?_, para_bodyOk ws hne hws, by simp, by simp [joinWith]⟩
      rw [hls, ← hd, hii]
      simp [LineD.render, trimEndSp_id' _ (para_no_trailing_sp ws hne hws)]
    · rw [if_neg hc] at hd
      unfold wrapSingleLineSlow at hd
      simp only [pipeline_words env o hsep hbw ws hne hws hpts] at hd
      split at hd
      · simp at hd
      · next G hg =>
        obtain ⟨p1, p2, p3, _⟩ := wrapAlg_partition mo hmo o.alg _ _ G hg
        have hWne : mkWords env.cw ws ≠ [] := by
          cases ws with
          | nil => exact absurd rfl hne
          | cons a r => cases r <;> simp [mkWords]
        have hgne := p3 hWne
        rw [reassemble_eq_spec o _ [] G 0 0 (by simp [p1, wordsText_mkWords]) rfl] at hd
        simp only [Option.some.injEq] at hd
        have hsub : ∀ g ∈ G, ∀ W ∈ g, W ∈ mkWords env.cw ws := by
          intro g hgG W hW; rw [← p1]; exact List.mem_flatten.mpr ⟨g, hgG, hW⟩
        have hrender := specLines_render o G 0 0
          (fun g hgG => group_pen_nil env.cw ws g (hsub g hgG))
        rw [hd] at hrender
        cases G with
        | nil => exact absurd rfl p2
        | cons g0 r =>
          refine ⟨groupSlice g0, r.map groupSlice, ?_, ?_, ?_, ?_⟩
          · rw [hls, hrender]
            simp [renderLines, renderLines_succ, List.map_map, Function.comp_def]
          · exact groupSlice_bodyOk env.cw ws hws g0 (hgne g0 (by simp)) (hsub g0 (by simp))
          · intro s hs
            obtain ⟨g, hgr, rfl⟩ := List.mem_map.mp hs
            exact groupSlice_bodyOk env.cw ws hws g (hgne g (by simp [hgr])) (hsub g (by simp [hgr]))
          · have := join_groupSlices (g0 :: r) (by simp) hgne (by rw [p1]; exact spacedL_mkWords env.cw ws)
            rw [p1, wordsText_mkWords] at this
            simpa using this

/-- `maxWidth` is the display width of the widest line -/
-- @audit TW.C15.maxWidth_spec
theorem maxWidth_spec (cw : Char → Nat) (ls : List Text) :
    (∀ l ∈ ls, displayWidth cw l ≤ maxWidth cw 0 ls) ∧
    (ls ≠ [] → ∃ l ∈ ls, displayWidth cw l = maxWidth cw 0 ls) := by
  have key : ∀ (ls : List Text) (w : Nat),
      w ≤ maxWidth cw w ls ∧ (∀ l ∈ ls, displayWidth cw l ≤ maxWidth cw w ls) ∧
      (maxWidth cw w ls = w ∨ ∃ l ∈ ls, displayWidth cw l = maxWidth cw w ls) := by
    intro ls
    induction ls with
    | nil => intro w; simp [maxWidth]
    | cons a r ih =>
      intro w
      obtain ⟨h1, h2, h3⟩ := ih (max w (displayWidth cw a))
      have e : maxWidth cw w (a :: r) = maxWidth cw (max w (displayWidth cw a)) r := rfl
      rw [e]
      refine ⟨by omega, ?_, ?_⟩
      · intro l hl
        rcases List.mem_cons.mp hl with rfl | hl
        · omega
        · exact h2 l hl
      · rcases h3 with h3 | ⟨l, hl, h3⟩
        · by_cases hw : displayWidth cw a ≤ w
          · left; rw [h3]; omega
          · right; exact ⟨a, by simp, by rw [h3]; omega⟩
        · right; exact ⟨l, by simp [hl], h3⟩
  obtain ⟨_, h2, h3⟩ := key ls 0
  refine ⟨h2, ?_⟩
  intro hne
  rcases h3 with h3 | h3
  · cases ls with
    | nil => exact absurd rfl hne
    | cons a r => exact ⟨a, by simp, by have := h2 a (by simp); omega⟩
  · exact h3

/-- **`unfill` inverts `fill`**: for a paragraph of single-spaced words that do not begin with
    prefix characters, filled with indents made of prefix characters, either algorithm, either
    line ending, breaks at spaces only (ASCII separator, no split point inside a word,
    `break_words` off), `unfill` returns the paragraph, the initial indent, the width of the
    widest line, and — when there are at least two lines — the subsequent indent and the line
    ending. With a trailing line ending appended to the filled text the ending is returned too
    and the line ending is detected from it. -/
-- @audit TW.C15.unfill_fill
theorem unfill_fill (env : Env) (mo : MinimaOracle α) (hmo : MoShape mo) (o : Opts)
    (hsep : o.sep = .ascii) (hbw : o.breakWords = false)
    (hii : o.initialIndent.all isPrefixChar = true) (hsi : o.subsequentIndent.all isPrefixChar = true)
    (ws : List Text) (hne : ws ≠ []) (hws : ∀ w ∈ ws, WordOk w)
    (hpts : ∀ w ∈ ws, o.splitter.points env.isAlnum w = [])
    (filled : Text) (hf : fill env mo o (joinWith [SP] ws) = some filled) :
    ∃ ls, wrap env mo o (joinWith [SP] ws) = some ls ∧ filled = joinWith o.lineEnding.str ls ∧
      unfill env.cw filled = some
        { text := joinWith [SP] ws, width := maxWidth env.cw 0 ls, initialIndent := o.initialIndent,
          subsequentIndent := if ls.length ≤ 1 then [] else o.subsequentIndent,
          lineEnding := if ls.length ≤ 1 then .lf else o.lineEnding } ∧
      unfill env.cw (filled ++ o.lineEnding.str) = some
        { text := joinWith [SP] ws ++ o.lineEnding.str, width := maxWidth env.cw 0 ls,
          initialIndent := o.initialIndent,
          subsequentIndent := if ls.length ≤ 1 then [] else o.subsequentIndent,
          lineEnding := o.lineEnding } := by
  rw [C09.fill_eq_join] at hf
  cases hw : wrap env mo o (joinWith [SP] ws) with
  | none => simp [hw] at hf
  | some ls =>
    simp only [hw, Option.map_some, Option.some.injEq] at hf
    obtain ⟨s0, ss, e1, b0, bs, ej⟩ := wrap_shape env mo hmo o hsep hbw ws hne hws hpts ls hw
    refine ⟨ls, rfl, hf.symm, ?_, ?_⟩
    · rw [← hf, e1, unfill_lines env.cw o.lineEnding _ _ s0 ss hii hsi b0 bs, ej]
      have : ((o.initialIndent ++ s0) :: ss.map (o.subsequentIndent ++ ·)).length ≤ 1 ↔ ss = [] := by
        cases ss <;> simp
      simp only [this]
    · rw [← hf, e1, unfill_lines_trailing env.cw o.lineEnding _ _ s0 ss hii hsi b0 bs, ej]
      have : ((o.initialIndent ++ s0) :: ss.map (o.subsequentIndent ++ ·)).length ≤ 1 ↔ ss = [] := by
        cases ss <;> simp
      simp only [this]

end

/-! the hypotheses are satisfiable (tests, labelled as such) -/
example : WordOk "foo".toList ∧ WordOk "x-y".toList ∧ WordOk "é1".toList :=
  ⟨⟨⟨'f', "oo".toList, rfl, by decide⟩, by decide, by decide, by decide⟩,
   ⟨⟨'x', "-y".toList, rfl, by decide⟩, by decide, by decide, by decide⟩,
   ⟨⟨'é', "1".toList, rfl, by decide⟩, by decide, by decide, by decide⟩⟩
example : ("> ".toList).all isPrefixChar = true ∧ ("  * ".toList).all isPrefixChar = true := by decide

end TW.C15

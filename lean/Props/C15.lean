/-
  C15 — unfill inverts fill and recovers indents, width and line ending.
  This file: the structural half (all strings). The round trip with `fill` is decided by the
  oracle on every generated case (see the claim text); its Lean proof is not part of this file.
-/
import Lemmas.Unfill
namespace TW.C15

/-- **the two line iterators agree** (guard of issue #466) -/
-- @audit TW.C15.nel_agrees_with_lines
theorem nel_agrees_with_lines (t : Text) :
    (nonEmptyLines t).map Prod.fst = (lines t).filter (fun l => !l.isEmpty) := nel_eq_lines t

theorem sliceFrom?_prefix (p line : Text) (h : p <+: line) : sliceFrom? line (blen p) = some (line.drop p.length) := by
  obtain ⟨t, rfl⟩ := h
  rw [sliceFrom?_append]; simp

/-- what the scanning loop returns on the whole line list -/
theorem scan_result (cw : Char → Nat) (ls : List Text) :
    let r := unfillScan cw ls 0 (0, [], [])
    r.2.1 = (ls.head?.map prefixOf).getD [] ∧
    r.2.1.all isPrefixChar = true ∧ r.2.2.all isPrefixChar = true ∧
    ∀ l ∈ ls.tail, r.2.2 <+: prefixOf l := by
  cases ls with
  | nil => simp [unfillScan]
  | cons a r =>
    simp only [unfillScan, if_true, List.head?_cons, Option.map_some, Option.getD_some, List.tail_cons]
    rw [take_trimStart]
    have hpa : (prefixOf a).all isPrefixChar = true := takeWhile_all _ _
    cases r with
    | nil => simp [unfillScan, prefixOf]
    | cons b r' =>
      simp only [unfillScan]
      rw [take_trimStart]
      have hpb : (List.takeWhile isPrefixChar b).all isPrefixChar = true := takeWhile_all _ _
      have h1 : ¬ ((0 : Nat) + 1 = 0) := by omega
      simp only [h1, if_false, if_true]
      obtain ⟨r1, r2, r3, r4⟩ := unfillScan_spec cw r' 2 (max (max 0 (displayWidth cw a)) (displayWidth cw b))
        (prefixOf a) (List.takeWhile isPrefixChar b) hpb hpa
      obtain ⟨q1, q2⟩ := r3 (by omega)
      refine ⟨r4 (by omega), r1, r2, ?_⟩
      intro l hl
      rcases List.mem_cons.mp hl with rfl | hl
      · exact q1
      · exact q2 l hl

theorem filter_tail_mem {α} (p : α → Bool) (l : List α) : ∀ x ∈ (l.filter p).tail, x ∈ l.tail := by
  cases l with
  | nil => simp
  | cons a r =>
    intro x hx
    simp only [List.filter] at hx
    split at hx
    · simp only [List.tail_cons] at hx ⊢; exact (List.mem_filter.mp hx).1
    · simp only [List.tail_cons]
      exact (List.mem_filter.mp (List.mem_of_mem_tail hx)).1

theorem unfillJoin_total (ini sub : Text) (nel : List (Text × Option LineEnding)) (idx : Nat) (acc : Text)
    (det : Option LineEnding)
    (h0 : idx = 0 → ∀ l e r, nel = (l, e) :: r → ini <+: l)
    (h1 : ∀ p ∈ (if idx = 0 then nel.tail else nel), sub <+: p.1) :
    ∃ r, unfillJoin ini sub nel idx acc det = some r := by
  induction nel generalizing idx acc det with
  | nil => exact ⟨_, rfl⟩
  | cons p rest ih =>
    obtain ⟨line, ending⟩ := p
    simp only [unfillJoin]
    by_cases hi : idx = 0
    · subst hi
      simp only [if_true]
      rw [sliceFrom?_prefix ini line (h0 rfl line ending rest rfl)]
      simp only
      exact ih 1 _ _ (fun h => by omega) (by simpa using h1)
    · simp only [hi, if_false] at h1 ⊢
      rw [sliceFrom?_prefix sub line (h1 (line, ending) (by simp))]
      simp only [Option.map_some]
      exact ih (idx + 1) _ _ (fun h => by omega) (by
        have : ¬ (idx + 1 = 0) := by omega
        simp only [this, if_false]
        intro q hq; exact h1 q (by simp [hq]))

/-- the detected indents: `initial_indent` is the prefix-character run of the first line,
    `subsequent_indent` consists of prefix characters and is a prefix of (the prefix-character run
    of) every later line -/
-- @audit TW.C15.unfill_indents
theorem unfill_indents (cw : Char → Nat) (t : Text) (u : Unfilled) (h : unfill cw t = some u) :
    u.initialIndent = ((lines t).head?.map prefixOf).getD [] ∧
    u.initialIndent.all isPrefixChar = true ∧ u.subsequentIndent.all isPrefixChar = true ∧
    (∀ l, (lines t).head? = some l → u.initialIndent <+: l) ∧
    (∀ l ∈ (lines t).tail, u.subsequentIndent <+: l) := by
  obtain ⟨s1, s2, s3, s4⟩ := scan_result cw (lines t)
  unfold unfill at h
  simp only at h
  split at h
  · simp at h
  · next unfilled det _ =>
    simp only [Option.some.injEq] at h
    subst h
    refine ⟨s1, s2, s3, ?_, ?_⟩
    · intro l hl
      simp only [hl, Option.map_some, Option.getD_some] at s1
      simp only [s1]
      exact takeWhile_prefix _ _
    · intro l hl
      exact (s4 l hl).trans (takeWhile_prefix _ _)

/-- **`unfill` never panics**: both slices `&line[indent.len()..]` are in range and on char
    boundaries, because `NonEmptyLines` yields elements of `lines()` and the indents are prefixes
    of them -/
-- @audit TW.C15.unfill_total
theorem unfill_total (cw : Char → Nat) (t : Text) : ∃ u, unfill cw t = some u := by
  obtain ⟨s1, _, _, s4⟩ := scan_result cw (lines t)
  unfold unfill
  simp only
  have hnel := nel_eq_lines t
  have htot := unfillJoin_total (unfillScan cw (lines t) 0 (0, [], [])).2.1
    (unfillScan cw (lines t) 0 (0, [], [])).2.2 (nonEmptyLines t) 0 [] none
    (by
      intro _ l e r hr
      -- the first non-empty line
      rw [s1]
      have h1 : l ∈ (lines t).filter (fun l => !l.isEmpty) := by rw [← hnel, hr]; simp
      cases hl : lines t with
      | nil => rw [hl] at h1; simp at h1
      | cons a rest =>
        simp only [List.head?_cons, Option.map_some, Option.getD_some]
        by_cases ha : a.isEmpty = true
        · have : a = [] := by simpa using ha
          subst this; simp [prefixOf]
        · have : (lines t).filter (fun l => !l.isEmpty) = a :: rest.filter (fun l => !l.isEmpty) := by
            rw [hl]; simp [List.filter, ha]
          rw [← hnel, hr] at this
          simp only [List.map_cons, List.cons.injEq] at this
          rw [this.1]; exact takeWhile_prefix _ _)
    (by
      simp only [if_true]
      intro p hp
      have : p.1 ∈ ((nonEmptyLines t).map Prod.fst).tail := by
        rw [← List.map_tail]; exact List.mem_map_of_mem hp
      rw [hnel] at this
      exact (s4 _ (filter_tail_mem _ _ _ this)).trans (takeWhile_prefix _ _))
  obtain ⟨r, hr⟩ := htot
  rw [hr]
  exact ⟨_, rfl⟩

/-! sanity (tests, labelled as such): the upstream block-quote example -/
example : (unfill (fun _ => 1) "> foo\n> bar\n".toList).map (fun u => (String.ofList u.text, String.ofList u.initialIndent, String.ofList u.subsequentIndent, u.width)) =
    some ("foo bar\n", "> ", "> ", 5) := by decide

end TW.C15

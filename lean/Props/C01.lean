/-
  C01 — wrapping preserves the text: lines are in-order slices of the input.
-/
import Lemmas.WrapText
import Lemmas.FragEnds
import Lemmas.EndsOk
import Lemmas.LinebreakTable
namespace TW.C01

section
variable {α : Type} [CostNum α]

/-- **1. contiguity of the fragment pipeline** (find → split → break → sentinel), for every
    separator, every splitter whose points lie in the documented range, `break_words` on/off -/
-- @audit TW.C01.pipeline_contiguous
theorem pipeline_contiguous (env : Env) (o : Opts) (hr : SplitterInRange env.isAlnum o.splitter)
    (line : Text) (sw : Nat) (ws : List Word) (h : pipeline env o line sw = some ws) :
    wordsText ws = line ∧ ∀ w ∈ ws, FragOk env.cw w :=
  pipeline_contig env o hr line sw ws h

/-- the built-in splitters are in range -/
-- @audit TW.C01.builtin_in_range
theorem builtin_in_range (isAlnum : Char → Bool) :
    SplitterInRange isAlnum .none ∧ SplitterInRange isAlnum .hyphen := by
  constructor
  · intro w i hi; simp [Splitter.points] at hi
  · intro w i hi
    exact (hyphenPoints_boundary isAlnum w i hi).choose_spec.choose_spec.2.2

/-- **2. the reassembly loop** never panics on a partition of contiguous fragments, and yields
    for every group the slice `line[idx .. idx+len]` = the group's text without the last
    fragment's whitespace, which is skipped afterwards -/
-- @audit TW.C01.reassemble_slices
theorem reassemble_slices (o : Opts) (line : Text) (groups : List (List Word)) (n : Nat)
    (h : wordsText groups.flatten = line) :
    reassemble o line groups 0 n = some (specLines o groups 0 n) ∧
    Decomp 0 ((specLines o groups 0 n).zip (groups.map groupGap)) line :=
  ⟨reassemble_eq_spec o line [] groups 0 n (by simp [h]) rfl, h ▸ specLines_decomp o groups 0 n⟩

/-- **3. `wrap`**: whenever it returns, the text decomposes — in order, without overlap — into
    the slices of the returned lines, each followed by a gap that consists of spaces optionally
    followed by one line ending; `start`/`len` of each descriptor are the byte offset and
    length of its slice in the caller's buffer; every line renders as
    `indent ++ slice ++ penalty`. Nothing but such spaces and line endings is lost, nothing is
    duplicated, reordered or invented. -/
-- @audit TW.C01.wrap_slices
theorem wrap_slices (env : Env) (mo : MinimaOracle α) (hmo : MoShape mo) (o : Opts)
    (hr : SplitterInRange env.isAlnum o.splitter) (text : Text) (ds : List LineD)
    (h : wrapD env mo o text = some ds) :
    ∃ gaps : List Text, gaps.length = ds.length ∧ Decomp 0 (ds.zip gaps) text ∧
      (∀ g ∈ gaps, GapOK o.lineEnding.str g) ∧
      (∀ d ∈ ds, d.render = d.indent ++ d.slice ++ d.pen) := by
  unfold wrapD at h
  obtain ⟨gaps, h1, h2, h3, _⟩ := wrapParas_decomp o o.lineEnding.str (wrapSingleLine env mo o)
    (fun p n ls hl => wrapSingleLine_spec env mo hmo o hr p n ls hl) _ 0 0 ds h
  rw [joinWith_splitEnding] at h2
  exact ⟨gaps, h1, h2, h3, fun d _ => rfl⟩

/-- **5. Cow variant**: a line is borrowed exactly when it has no indent and no inserted
    penalty; the indent is the initial one for the very first line only -/
-- @audit TW.C01.borrowed_iff
theorem borrowed_iff (env : Env) (mo : MinimaOracle α) (hmo : MoShape mo) (o : Opts)
    (hr : SplitterInRange env.isAlnum o.splitter) (text : Text) (ds : List LineD)
    (h : wrapD env mo o text = some ds) :
    ∀ k (d : LineD), ds[k]? = some d →
      d.indent = (if k = 0 then o.initialIndent else o.subsequentIndent) ∧
      d.borrowed = (d.indent.isEmpty && d.pen.isEmpty) := by
  intro k d hk
  have := wrapParas_indent o _ (wrapSingleLine env mo o)
    (fun p n ls hl => wrapSingleLine_spec env mo hmo o hr p n ls hl) _ 0 0 ds h k d hk
  simpa using this

/-- `fill`'s shortcut returns a prefix slice of the text whose remainder is spaces -/
-- @audit TW.C01.fill_shortcut_slice
theorem fill_shortcut_slice (text : Text) :
    trimEndSp text ++ text.drop (trimEndSp text).length = text ∧
      ∀ c ∈ text.drop (trimEndSp text).length, c = SP :=
  ⟨trimEndSp_append_rest text, trimEndSp_rest_spaces text⟩

/-- and otherwise `fill` is `wrap`'s lines joined by the line ending -/
-- @audit TW.C01.fill_slow_eq_join
theorem fill_slow_eq_join (env : Env) (mo : MinimaOracle α) (o : Opts) (text : Text) :
    fillSlow env mo o text = (wrap env mo o text).map (joinWith o.lineEnding.str) := rfl

theorem specLines_slices (o : Opts) (groups : List (List Word)) (idx n : Nat) :
    ∀ d ∈ specLines o groups idx n, ∃ pre g post, groups = pre ++ g :: post ∧ d.slice = groupSlice g := by
  induction groups generalizing idx n with
  | nil => intro d hd; simp [specLines] at hd
  | cons g gs ih =>
    intro d hd
    simp only [specLines] at hd
    split at hd
    · next hl =>
      rcases List.mem_cons.mp hd with rfl | hd
      · exact ⟨[], g, gs, rfl, by simp [groupSlice, hl]⟩
      · obtain ⟨pre, g', post, e1, e2⟩ := ih _ _ d hd
        exact ⟨g :: pre, g', post, by simp [e1], e2⟩
    · next last hl =>
      rcases List.mem_cons.mp hd with rfl | hd
      · exact ⟨[], g, gs, rfl, rfl⟩
      · obtain ⟨pre, g', post, e1, e2⟩ := ih _ _ d hd
        exact ⟨g :: pre, g', post, by simp [e1], e2⟩

/-- **4. a slice never ends in a space** — ASCII separator, built-in splitters, every width,
    `break_words` on or off, both algorithms: words found by the ASCII separator contain no
    space, so neither do their pieces, and an empty word only occurs at the very beginning of a
    paragraph. (With the Unicode separator a force-broken word may itself contain a space —
    the exception the property names.) -/
-- @audit TW.C01.ascii_no_trailing_space
theorem ascii_no_trailing_space (env : Env) (mo : MinimaOracle α) (hmo : MoShape mo) (o : Opts)
    (hsep : o.sep = .ascii) (hb : Builtin o.splitter) (line : Text) (nPrev : Nat) (ds : List LineD)
    (h : wrapSingleLine env mo o line nPrev = some ds) : ∀ d ∈ ds, d.slice.getLast? ≠ some SP := by
  unfold wrapSingleLine at h
  by_cases hc : blen line < o.width ∧ (if nPrev = 0 then o.initialIndent else o.subsequentIndent).isEmpty = true
  · rw [if_pos hc] at h
    simp only [Option.some.injEq] at h; subst h
    intro d hd
    simp only [List.mem_singleton] at hd; subst hd
    exact trimEndSp_no_trailing line
  · rw [if_neg hc] at h
    unfold wrapSingleLineSlow at h
    simp only at h
    split at h
    · simp at h
    · next words hp =>
      obtain ⟨c1, _⟩ := pipeline_contig env o (builtin_inRange _ _ hb) line _ words hp
      have hfe := pipeline_fragEnds_ascii env o hsep hb line _ words hp
      split at h
      · simp at h
      · next groups hg =>
        obtain ⟨p1, _, _, _⟩ := wrapAlg_partition mo hmo o.alg words _ groups hg
        rw [reassemble_eq_spec o line [] groups 0 nPrev (by simp [p1, c1]) rfl] at h
        simp only [Option.some.injEq] at h; subst h
        intro d hd
        obtain ⟨pre, g, post, e1, e2⟩ := specLines_slices o groups 0 nPrev d hd
        rw [e2]
        exact groupSlice_no_trailing_sp words hfe pre.flatten g post.flatten (by rw [← p1, e1]; simp)

/-- **4b. without force-breaking no slice ends in a space, for BOTH separators** (built-in
    splitters, both algorithms, every width): the words of `Word::from` are trimmed and the hyphen
    splitter cuts directly after a `'-'`. For the Unicode separator relative to the LB7 clause of
    the external routine (no opportunity directly before a space; validated on every call).
    With `break_words` on, a force-broken Unicode word may itself contain a space — the exception
    the property names. -/
-- @audit TW.C01.no_trailing_space_nobreak
theorem no_trailing_space_nobreak (env : Env) (mo : MinimaOracle α) (hmo : MoShape mo) (o : Opts)
    (hb : Builtin o.splitter) (hbw : o.breakWords = false) (line : Text)
    (hc : o.sep = .unicode → OppsNoSpace (stripAnsi line) (env.opps (stripAnsi line)))
    (nPrev : Nat) (ds : List LineD)
    (h : wrapSingleLine env mo o line nPrev = some ds) : ∀ d ∈ ds, d.slice.getLast? ≠ some SP := by
  unfold wrapSingleLine at h
  by_cases hcnd : blen line < o.width ∧ (if nPrev = 0 then o.initialIndent else o.subsequentIndent).isEmpty = true
  · rw [if_pos hcnd] at h
    simp only [Option.some.injEq] at h; subst h
    intro d hd
    simp only [List.mem_singleton] at hd; subst hd
    exact trimEndSp_no_trailing line
  · rw [if_neg hcnd] at h
    unfold wrapSingleLineSlow at h
    simp only at h
    split at h
    · simp at h
    · next words hp =>
      obtain ⟨c1, _⟩ := pipeline_contig env o (builtin_inRange _ _ hb) line _ words hp
      have hfe := pipeline_endsOk_nobreak env o hb hbw line hc _ words hp
      split at h
      · simp at h
      · next groups hg =>
        obtain ⟨p1, _, _, _⟩ := wrapAlg_partition mo hmo o.alg words _ groups hg
        rw [reassemble_eq_spec o line [] groups 0 nPrev (by simp [p1, c1]) rfl] at h
        simp only [Option.some.injEq] at h; subst h
        intro d hd
        obtain ⟨pre, g, post, e1, e2⟩ := specLines_slices o groups 0 nPrev d hd
        rw [e2]
        exact groupSlice_no_trailing_sp' words hfe pre.flatten g post.flatten (by rw [← p1, e1]; simp)

end

/-! non-vacuity: a two-paragraph text with indents through the whole model (first-fit, `Int`) -/
example :
    let env : Env := { cw := fun _ => 1, isAlnum := fun c => c.isAlphanum, isWs := fun c => c = ' ', opps := fun _ => [] }
    let o : Opts := { width := 6, initialIndent := ['>'], subsequentIndent := [' '], breakWords := true,
                      sep := .ascii, splitter := .hyphen, alg := .firstFit, lineEnding := .lf }
    (wrap (α := Int) env (fun _ _ => []) o "ab cd ef\ngh".toList).map (·.map String.ofList) =
      some [">ab cd", " ef", " gh"] := by decide


/-- the same with the model's own `linebreaks` on the compiled tables: for the Unicode separator no
    contract is left, the line must only be free of hard-line-break characters -/
-- @audit TW.C01.no_trailing_space_nobreak_ownlb
theorem no_trailing_space_nobreak_ownlb {α : Type} [CostNum α] (env : Env) (henv : env.opps = ownOpps lbTables)
    (mo : MinimaOracle α) (hmo : MoShape mo) (o : Opts)
    (hb : Builtin o.splitter) (hbw : o.breakWords = false) (line : Text)
    (hf : o.sep = .unicode → HardFree (stripAnsi line))
    (nPrev : Nat) (ds : List LineD)
    (h : wrapSingleLine env mo o line nPrev = some ds) : ∀ d ∈ ds, d.slice.getLast? ≠ some SP :=
  no_trailing_space_nobreak env mo hmo o hb hbw line (fun hs => oppsNoSpace_own env henv _ (hf hs)) nPrev ds h

end TW.C01

/-
  C01 — wrapping preserves the text: lines are in-order slices of the input.
-/
import Lemmas.WrapText
namespace TW.C01

section
variable {α : Type} [CostNum α]

/-- **1. contiguity of the fragment pipeline** (find → split → break → sentinel), for every
    separator, every splitter whose points lie in the documented range, `break_words` on/off -/
-- @audit TW.C01.pipeline_contiguous
theorem pipeline_contiguous (env : Env) (o : Opts) (hr : SplitterInRange env.isAlnum o.splitter)
    (line : Text) (sw : Nat) (ws : List Word) (h : pipeline env o line sw = some ws) :
    wordsText ws = line ∧ ∀ w ∈ ws, FragOk env.cw w :=
  pipeline_contig env o hr line sw ws h

/-- the built-in splitters are in range -/
-- @audit TW.C01.builtin_in_range
theorem builtin_in_range (isAlnum : Char → Bool) :
    SplitterInRange isAlnum .none ∧ SplitterInRange isAlnum .hyphen := by
  constructor
  · intro w i hi; simp [Splitter.points] at hi
  · intro w i hi
    exact (hyphenPoints_boundary isAlnum w i hi).choose_spec.choose_spec.2.2

/-- **2. the reassembly loop** never panics on a partition of contiguous fragments, and yields
    for every group the slice `line[idx .. idx+len]` = the group's text without the last
    fragment's whitespace, which is skipped afterwards -/
-- @audit TW.C01.reassemble_slices
theorem reassemble_slices (o : Opts) (line : Text) (groups : List (List Word)) (n : Nat)
    (h : wordsText groups.flatten = line) :
    reassemble o line groups 0 n = some (specLines o groups 0 n) ∧
    Decomp 0 ((specLines o groups 0 n).zip (groups.map groupGap)) line :=
  ⟨reassemble_eq_spec o line [] groups 0 n (by simp [h]) rfl, h ▸ specLines_decomp o groups 0 n⟩

/-- **3. `wrap`**: whenever it returns, the text decomposes — in order, without overlap — into
    the slices of the returned lines, each followed by a gap that consists of spaces optionally
    followed by one line ending; `start`/`len` of each descriptor are the byte offset and
    length of its slice in the caller's buffer; every line renders as
    `indent ++ slice ++ penalty`. Nothing but such spaces and line endings is lost, nothing is
    duplicated, reordered or invented. -/
-- @audit TW.C01.wrap_slices
theorem wrap_slices (env : Env) (mo : MinimaOracle α) (hmo : MoShape mo) (o : Opts)
    (hr : SplitterInRange env.isAlnum o.splitter) (text : Text) (ds : List LineD)
    (h : wrapD env mo o text = some ds) :
    ∃ gaps : List Text, gaps.length = ds.length ∧ Decomp 0 (ds.zip gaps) text ∧
      (∀ g ∈ gaps, GapOK o.lineEnding.str g) ∧
      (∀ d ∈ ds, d.render = d.indent ++ d.slice ++ d.pen) := by
  unfold wrapD at h
  obtain ⟨gaps, h1, h2, h3, _⟩ := wrapParas_decomp o o.lineEnding.str (wrapSingleLine env mo o)
    (fun p n ls hl => wrapSingleLine_spec env mo hmo o hr p n ls hl) _ 0 0 ds h
  rw [joinWith_splitEnding] at h2
  exact ⟨gaps, h1, h2, h3, fun d _ => rfl⟩

/-- **5. Cow variant**: a line is borrowed exactly when it has no indent and no inserted
    penalty; the indent is the initial one for the very first line only -/
-- @audit TW.C01.borrowed_iff
theorem borrowed_iff (env : Env) (mo : MinimaOracle α) (hmo : MoShape mo) (o : Opts)
    (hr : SplitterInRange env.isAlnum o.splitter) (text : Text) (ds : List LineD)
    (h : wrapD env mo o text = some ds) :
    ∀ k (d : LineD), ds[k]? = some d →
      d.indent = (if k = 0 then o.initialIndent else o.subsequentIndent) ∧
      d.borrowed = (d.indent.isEmpty && d.pen.isEmpty) := by
  intro k d hk
  have := wrapParas_indent o _ (wrapSingleLine env mo o)
    (fun p n ls hl => wrapSingleLine_spec env mo hmo o hr p n ls hl) _ 0 0 ds h k d hk
  simpa using this

/-- `fill`'s shortcut returns a prefix slice of the text whose remainder is spaces -/
-- @audit TW.C01.fill_shortcut_slice
theorem fill_shortcut_slice (text : Text) :
    trimEndSp text ++ text.drop (trimEndSp text).length = text ∧
      ∀ c ∈ text.drop (trimEndSp text).length, c = SP :=
  ⟨trimEndSp_append_rest text, trimEndSp_rest_spaces text⟩

/-- and otherwise `fill` is `wrap`'s lines joined by the line ending -/
-- @audit TW.C01.fill_slow_eq_join
theorem fill_slow_eq_join (env : Env) (mo : MinimaOracle α) (o : Opts) (text : Text) :
    fillSlow env mo o text = (wrap env mo o text).map (joinWith o.lineEnding.str) := rfl

end

/-! non-vacuity: a two-paragraph text with indents through the whole model (first-fit, `Int`) -/
example :
    let env : Env := { cw := fun _ => 1, isAlnum := fun c => c.isAlphanum, isWs := fun c => c = ' ', opps := fun _ => [] }
    let o : Opts := { width := 6, initialIndent := ['>'], subsequentIndent := [' '], breakWords := true,
                      sep := .ascii, splitter := .hyphen, alg := .firstFit, lineEnding := .lf }
    (wrap (α := Int) env (fun _ _ => []) o "ab cd ef\ngh".toList).map (·.map String.ofList) =
      some [">ab cd", " ef", " gh"] := by decide

end TW.C01

/-
  C07 — first-fit is greedy-maximal. Stated for any number type (only the comparisons the code
  itself makes are used), hence for IEEE doubles as well as for integers.
-/
import Lemmas.FirstFit
import TextwrapModel.Wrap
namespace TW.C07

section
variable {α : Type} [Add α] [LT α] [Zero α] [DecidableRel (α := α) (· < ·)] {β : Type}

/-- In the result, line `k` is measured against the `k`-th listed width (last one repeated, `0`
    for the empty list); within a line every fragment after the first satisfies
    `¬ (lw < acc + w + pen)` with `acc` the accumulated `w + ws` of the fragments before it; and
    the first fragment `g` of the following line satisfies `lw < acc + w_g + pen_g` with `acc`
    the accumulated width of the whole line: a new line is started exactly when the current line
    is non-empty and the next fragment would not fit. -/
-- @audit TW.C07.firstFit_greedy
theorem firstFit_greedy (m : β → Frag α) (frs : List β) (lws : List α) :
    GreedyLines m lws (defaultLw lws) 0 (wrapFirstFit m frs lws) :=
  ffGo_greedy m lws _ 0 [] 0 frs (by simp [lineAcc]) (by simp [lineFits, fitsFrom])

/-- "exactly when": any partition into non-empty lines with these two properties is the one
    first-fit returns -/
-- @audit TW.C07.firstFit_unique
theorem firstFit_unique (m : β → Frag α) (frs : List β) (lws : List α) (p : List (List β))
    (hfrs : frs ≠ []) (hflat : p.flatten = frs) (hne : ∀ l ∈ p, l ≠ [])
    (hg : GreedyLines m lws (defaultLw lws) 0 p) : p = wrapFirstFit m frs lws := by
  cases p with
  | nil => simp at hflat; exact absurd hflat hfrs
  | cons l0 rest =>
    have := ffGo_unique m lws (defaultLw lws) 0 [] 0 frs (by simp [lineAcc]) l0 rest
      (by simpa using hflat) (fun l hl => hne l (by simp [hl]))
      (Or.inl (by simpa using hne l0 (by simp))) (by simpa using hg)
    simpa [wrapFirstFit] using this

end

/-- text level: with `WrapAlgorithm::FirstFit` the groups of fragments that `wrap` reassembles
    into lines are greedy-maximal for the line widths `[width − |initial indent|,
    width − |subsequent indent|]` -/
-- @audit TW.C07.wrapAlg_firstFit_greedy
theorem wrapAlg_firstFit_greedy {α : Type} [CostNum α] (mo : MinimaOracle α) (words : List Word)
    (lws : List Nat) :
    ∃ groups, wrapAlg mo .firstFit words lws = some groups ∧
      GreedyLines (fragOf (α := α)) (lws.map CostNum.ofNat) (defaultLw (lws.map CostNum.ofNat)) 0 groups ∧
      groups.flatten = words :=
  ⟨_, rfl, firstFit_greedy _ _ _, by simp [wrapFirstFit, ffGo_flatten]⟩

/-! non-vacuity: an exact-fit instance (`3 + 1 + 3 = 7` fits, the third fragment does not) -/
example : (wrapFirstFit (fun (f : Frag Int) => f) [⟨3, 1, 0⟩, ⟨3, 1, 0⟩, ⟨3, 1, 0⟩] [7]).map List.length = [2, 1] := by
  decide
example : (wrapFirstFit (fun (f : Frag Int) => f) [⟨3, 1, 0⟩, ⟨3, 1, 1⟩, ⟨3, 1, 0⟩] [7]).map List.length = [1, 2] := by
  decide

end TW.C07

/-
  C17 — fill_inplace only turns spaces into newlines and agrees with fill.
-/
import Lemmas.Inplace
import Lemmas.InplaceWrap
namespace TW.C17

theorem spToLF_length {a b : Text} (h : SpToLF a b) : a.length = b.length := by
  induction h with
  | nil => rfl
  | same _ _ ih => simp [ih]
  | repl _ ih => simp [ih]

section
variable (α : Type) [CostNum α]

/-- **never panics**: `wrapped.len() - 1`, `line_offset - 1`, `bytes[idx]` and `from_utf8` are all
    fine, because every written index holds a `' '` -/
-- @audit TW.C17.inplace_total
theorem inplace_total (cw : Char → Nat) (text : Text) (width : Nat) :
    ∃ r, fillInplace α cw text width = some r :=
  ⟨_, (fillInplace_eq α cw text width).1⟩

/-- **same length, and the result differs from the original only at positions where a space
    became a newline** -/
-- @audit TW.C17.inplace_only_spaces
theorem inplace_only_spaces (cw : Char → Nat) (text : Text) (width : Nat) (r : Text)
    (h : fillInplace α cw text width = some r) : blen r = blen text ∧ r.length = text.length ∧ SpToLF text r := by
  obtain ⟨h1, h2⟩ := fillInplace_eq α cw text width
  rw [h1] at h
  simp only [Option.some.injEq] at h
  subst h
  have hrel := segs_spToLF (textSegs α cw width (splitLF text))
  rw [h2] at hrel
  exact ⟨by rw [blen_segOut, h2], (spToLF_length hrel).symm, hrel⟩

/-- the newlines are written exactly at the last space of every group of fragments but the last
    of each paragraph — the arrangement `wrap_first_fit` gives for the paragraph's ASCII words at
    the single line width `width` -/
-- @audit TW.C17.inplace_structure
theorem inplace_structure (cw : Char → Nat) (text : Text) (width : Nat) :
    fillInplace α cw text width = some (segOut (textSegs α cw width (splitLF text))) ∧
      segIn (textSegs α cw width (splitLF text)) = text :=
  fillInplace_eq α cw text width

end

/-! ### agreement with `wrap` -/

/-- per paragraph: what `wrap` renders under the documented options are the slices of the groups
    `fill_inplace` computes — through the shortcut or the general path -/
theorem doc_line (env : Env) (hcw : ∀ c, env.cw c ≤ c.utf8Size) (mo : MinimaOracle Int) (w : Nat) (p : Text) (n : Nat) :
    (wrapSingleLine env mo (docOpts w) p n).map (·.map LineD.render) =
      some ((inplaceGroups Int env.cw w p).map groupSlice) := by
  unfold wrapSingleLine
  have hind : (if n = 0 then (docOpts w).initialIndent else (docOpts w).subsequentIndent) = [] := by
    split <;> rfl
  by_cases hc : blen p < (docOpts w).width ∧ (if n = 0 then (docOpts w).initialIndent else (docOpts w).subsequentIndent).isEmpty = true
  · rw [if_pos hc]
    -- everything fits on one line: a single group holding all words
    have hfrag : ∀ x ∈ findWordsAscii env.cw p, FragOk env.cw x := by
      intro x hx; obtain ⟨t, _, rfl⟩ := List.mem_map.mp hx; exact from_fragOk _ t
    have hnp : NoPen (findWordsAscii env.cw p) := by
      intro x hx; obtain ⟨t, _, rfl⟩ := List.mem_map.mp hx; rfl
    have hsum := fragSum_le_blen env.cw hcw _ hfrag
    rw [findWordsAscii_text] at hsum
    have hwd : (docOpts w).width = w := rfl
    rw [hwd] at hc
    have hone : inplaceGroups Int env.cw w p = [findWordsAscii env.cw p] := by
      unfold inplaceGroups wrapFirstFit
      have := ffGo_one_line [CostNum.ofNat w] (defaultLw [CostNum.ofNat (α := Int) w]) 0 [] (findWordsAscii env.cw p) 0
        (by simp) hnp (by
          simp only [fragSum_nil, Nat.zero_add, List.getD_cons_zero, ofNat_int]
          have := hc.1
          exact_mod_cast (by omega : fragSum (findWordsAscii env.cw p) ≤ w))
      simpa using this
    rw [hone]
    simp only [Option.map_some, List.map_cons, List.map_nil, LineD.render, List.nil_append, List.append_nil,
      Option.some.injEq, List.cons.injEq, and_true]
    have hl := pipeline_lastOk_ascii env (docOpts w) rfl (builtin_inRange _ _ (by simp [docOpts, Builtin])) p 0 _
      (pipeline_doc env w p 0)
    -- groupSlice of all words = trimEndSp p
    have hsl : (groupSlice (findWordsAscii env.cw p)).getLast? ≠ some SP := by
      have hfe := pipeline_fragEnds_ascii env (docOpts w) rfl (by simp [docOpts, Builtin]) p 0 _ (pipeline_doc env w p 0)
      exact groupSlice_no_trailing_sp _ hfe [] _ [] (by simp)
    have := (group_trim (findWordsAscii env.cw p) hsl (groupGap_spaces env.cw _ hfrag)).1
    rw [findWordsAscii_text] at this
    exact this
  · rw [if_neg hc]
    exact doc_slow Int env mo w p n

theorem wrapR_of_lines (elen : Nat) (single : Text → Nat → Option (List LineD)) (F : Text → List Text)
    (ps : List Text) (h : ∀ p ∈ ps, ∀ n, (single p n).map (·.map LineD.render) = some (F p)) (off n : Nat) :
    wrapR elen single ps off n = some ((ps.map F).flatten) := by
  induction ps generalizing off n with
  | nil => rfl
  | cons p r ih =>
    rw [wrapR_cons]
    have hp := h p (by simp) n
    cases hs : single p n with
    | none => simp [hs] at hp
    | some ls =>
      simp only [hs, Option.map_some, Option.some.injEq] at hp
      simp only
      rw [ih (fun x hx => h x (by simp [hx]))]
      simp [hp]

theorem splitLF_textSegs (cw : Char → Nat) (w : Nat) (ps : List Text)
    (hpara : ∀ p ∈ ps, (splitLF (segOut (paraSegs (inplaceGroups Int cw w p)))).map trimEndSp =
      (inplaceGroups Int cw w p).map groupSlice) (hne : ps ≠ []) :
    (splitLF (segOut (textSegs Int cw w ps))).map trimEndSp =
      (ps.map fun p => (inplaceGroups Int cw w p).map groupSlice).flatten := by
  match ps, hne with
  | [p], _ => simpa [textSegs] using hpara p (by simp)
  | p :: q :: r, _ =>
    have ih := splitLF_textSegs cw w (q :: r) (fun x hx => hpara x (by simp [hx])) (by simp)
    simp only [textSegs, segOut_append, segOut, List.append_assoc, List.singleton_append, List.append_nil]
    rw [splitLF_append]
    simp only [List.map_append, hpara p (by simp), ih, List.map_cons, List.flatten_cons]

/-- **agreement with `wrap`.** Splitting the result of `fill_inplace(text, w)` at newlines and
    trimming trailing spaces gives exactly the lines of `wrap(text)` with the documented options
    (width `w`, `break_words` off, LF, ASCII separator, first-fit, no hyphenation) — for every
    text and width; the byte-length shortcut of `wrap` included. -/
-- @audit TW.C17.inplace_eq_wrap
theorem inplace_eq_wrap (env : Env) (hcw : ∀ c, env.cw c ≤ c.utf8Size) (mo : MinimaOracle Int)
    (text : Text) (w : Nat) :
    ∃ r, fillInplace Int env.cw text w = some r ∧
      wrap env mo (docOpts w) text = some ((splitLF r).map trimEndSp) := by
  obtain ⟨h1, h2⟩ := fillInplace_eq Int env.cw text w
  refine ⟨_, h1, ?_⟩
  -- the wrap side
  have hwrap : wrap env mo (docOpts w) text =
      some (((splitLF text).map fun p => (inplaceGroups Int env.cw w p).map groupSlice).flatten) := by
    show wrapR _ (wrapSingleLine env mo (docOpts w)) (splitLF text) 0 0 = _
    exact wrapR_of_lines _ _ _ _ (fun p _ n => doc_line env hcw mo w p n) 0 0
  rw [hwrap]
  congr 1
  symm
  apply splitLF_textSegs env.cw w (splitLF text) _ (splitLF_ne_nil text)
  intro p hp
  have hpno : LF ∉ p := splitLF_no_LF text p hp
  obtain ⟨g1, g2⟩ := inplaceGroups_ok Int env.cw w p
  have hfrag : ∀ x ∈ findWordsAscii env.cw p, FragOk env.cw x := by
    intro x hx; obtain ⟨t, _, rfl⟩ := List.mem_map.mp hx; exact from_fragOk _ t
  have hfe := pipeline_fragEnds_ascii env (docOpts w) rfl (by simp [docOpts, Builtin]) p 0 _ (pipeline_doc env w p 0)
  have hsub : ∀ g ∈ inplaceGroups Int env.cw w p, ∀ x ∈ g, x ∈ findWordsAscii env.cw p := by
    intro g hg x hx; rw [← g1]; exact List.mem_flatten.mpr ⟨g, hg, hx⟩
  apply splitLF_segOut_para
  · -- group texts are LF-free: they are parts of the paragraph
    intro g hg hmem
    apply hpno
    have : LF ∈ wordsText (inplaceGroups Int env.cw w p).flatten := by
      obtain ⟨pre, post, hpp⟩ := List.append_of_mem hg
      rw [hpp]; simp only [List.flatten_append, List.flatten_cons, wordsText_append]
      exact List.mem_append_right _ (List.mem_append_left _ hmem)
    rw [g1, findWordsAscii_text] at this
    exact this
  · exact g2
  · intro g hg
    obtain ⟨pre, post, hpp⟩ := List.append_of_mem hg
    exact groupSlice_no_trailing_sp _ hfe pre.flatten g post.flatten (by rw [← g1, hpp]; simp)
  · intro g hg
    exact groupGap_spaces env.cw g (fun x hx => hfrag x (hsub g hg x hx))
  · obtain ⟨x, r, hx⟩ := ffGo_head (fragOf (α := Int)) [CostNum.ofNat w] (defaultLw [CostNum.ofNat (α := Int) w]) 0 [] 0
      (findWordsAscii env.cw p)
    unfold inplaceGroups wrapFirstFit
    rw [hx]; simp

/-! non-vacuity (a test, labelled as such) -/
example : (fillInplace Int (fun _ => 1) "foo bar baz".toList 7).map String.ofList = some "foo bar\nbaz" := by decide

end TW.C17

/-
  C17 — fill_inplace only turns spaces into newlines and agrees with fill.
-/
import Lemmas.Inplace
namespace TW.C17

theorem spToLF_length {a b : Text} (h : SpToLF a b) : a.length = b.length := by
  induction h with
  | nil => rfl
  | same _ _ ih => simp [ih]
  | repl _ ih => simp [ih]

section
variable (α : Type) [CostNum α]

/-- **never panics**: `wrapped.len() - 1`, `line_offset - 1`, `bytes[idx]` and `from_utf8` are all
    fine, because every written index holds a `' '` -/
-- @audit TW.C17.inplace_total
theorem inplace_total (cw : Char → Nat) (text : Text) (width : Nat) :
    ∃ r, fillInplace α cw text width = some r :=
  ⟨_, (fillInplace_eq α cw text width).1⟩

/-- **same length, and the result differs from the original only at positions where a space
    became a newline** -/
-- @audit TW.C17.inplace_only_spaces
theorem inplace_only_spaces (cw : Char → Nat) (text : Text) (width : Nat) (r : Text)
    (h : fillInplace α cw text width = some r) : blen r = blen text ∧ r.length = text.length ∧ SpToLF text r := by
  obtain ⟨h1, h2⟩ := fillInplace_eq α cw text width
  rw [h1] at h
  simp only [Option.some.injEq] at h
  subst h
  have hrel := segs_spToLF (textSegs α cw width (splitLF text))
  rw [h2] at hrel
  exact ⟨by rw [blen_segOut, h2], (spToLF_length hrel).symm, hrel⟩

/-- the newlines are written exactly at the last space of every group of fragments but the last
    of each paragraph — the arrangement `wrap_first_fit` gives for the paragraph's ASCII words at
    the single line width `width` -/
-- @audit TW.C17.inplace_structure
theorem inplace_structure (cw : Char → Nat) (text : Text) (width : Nat) :
    fillInplace α cw text width = some (segOut (textSegs α cw width (splitLF text))) ∧
      segIn (textSegs α cw width (splitLF text)) = text :=
  fillInplace_eq α cw text width

end

/-! non-vacuity (a test, labelled as such) -/
example : (fillInplace Int (fun _ => 1) "foo bar baz".toList 7).map String.ofList = some "foo bar\nbaz" := by decide

end TW.C17

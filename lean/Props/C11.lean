/-
  C11 — word finding is lossless and breaks exactly at the specified opportunities.
-/
import Lemmas.Words
import Lemmas.FirstEntry
import Lemmas.LinebreakTable
namespace TW.C11

/-- the text a word stands for -/
def Word.text (w : Word) : Text := w.word ++ w.ws

theorem from_text (cw : Char → Nat) (ps : List Text) :
    ((ps.map (Word.from cw)).map Word.text) = ps := by
  induction ps with
  | nil => rfl
  | cons p ps ih =>
    simp only [List.map_cons, ih, Word.text]
    rw [Word.from_lossless]

/-- properties every `Word::from` result has -/
def WordOk (cw : Char → Nat) (w : Word) : Prop :=
  (∀ c ∈ w.ws, c = SP) ∧ w.word.getLast? ≠ some SP ∧ w.width = displayWidth cw w.word ∧ w.pen = []

theorem from_ok (cw : Char → Nat) (t : Text) : WordOk cw (Word.from cw t) :=
  ⟨trimEndSp_rest_spaces t, trimEndSp_no_trailing t, rfl, rfl⟩

/-! ### ASCII separator -/

/-- concatenating word and whitespace of the words found reproduces the line -/
-- @audit TW.C11.ascii_lossless
theorem ascii_lossless (cw : Char → Nat) (line : Text) :
    ((findWordsAscii cw line).map Word.text).flatten = line := by
  unfold findWordsAscii
  rw [from_text, asciiGo_flatten]; simp

/-- whitespace parts are spaces only, words do not end in a space, the cached width is the
    display width, no penalty is set -/
-- @audit TW.C11.ascii_words_ok
theorem ascii_words_ok (cw : Char → Nat) (line : Text) : ∀ w ∈ findWordsAscii cw line, WordOk cw w := by
  intro w hw
  obtain ⟨t, _, rfl⟩ := List.mem_map.mp hw
  exact from_ok cw t

/-- the boundaries are exactly the positions where a space is followed by a non-space: two
    consecutive words meet at such a position, and inside a word's text there is none -/
-- @audit TW.C11.ascii_boundaries
theorem ascii_boundaries (cw : Char → Nat) (line : Text) :
    AsciiCuts ((findWordsAscii cw line).map Word.text) := by
  unfold findWordsAscii
  rw [from_text]
  exact asciiGo_cuts [] false line (by simp) (by simp [noBreakInside])

/-- no empty word texts -/
-- @audit TW.C11.ascii_nonempty
theorem ascii_nonempty (cw : Char → Nat) (line : Text) :
    ∀ t ∈ (findWordsAscii cw line).map Word.text, t ≠ [] := by
  unfold findWordsAscii
  rw [from_text]
  intro t ht
  rcases asciiGo_nonempty [] false line t ht with h | h
  · exact h
  · -- the initial empty `cur` is never emitted
    exfalso
    obtain ⟨rfl, _⟩ := h
    cases line with
    | nil => simp [asciiGo] at ht
    | cons c cs =>
      simp only [asciiGo, Bool.false_and, List.nil_append] at ht
      rcases asciiGo_nonempty [c] (c == SP) cs [] ht with h | h
      · exact h rfl
      · simp at h

/-! ### Unicode separator -/

/-- the pieces of the Unicode separator, given the opportunities actually used -/
def uniPieces (os : List Nat) (line : Text) : List Text := uniGo .normal 0 [] os line

theorem unicode_eq (env : Env) (line : Text) (ws : List Word) (h : findWordsUnicode env line = some ws) :
    ∃ os, usedOpps (stripAnsi line) (env.opps (stripAnsi line)) = some os ∧
      ws = (uniPieces os line).map (Word.from env.cw) := by
  unfold findWordsUnicode at h
  simp only at h
  split at h
  · next os hos => exact ⟨os, hos, by simpa [uniPieces] using h.symm⟩
  · simp at h

-- @audit TW.C11.unicode_lossless
theorem unicode_lossless (env : Env) (line : Text) (ws : List Word)
    (h : findWordsUnicode env line = some ws) : (ws.map Word.text).flatten = line := by
  obtain ⟨os, _, rfl⟩ := unicode_eq env line ws h
  rw [from_text]
  simp [uniPieces, uniGo_flatten]

-- @audit TW.C11.unicode_words_ok
theorem unicode_words_ok (env : Env) (line : Text) (ws : List Word)
    (h : findWordsUnicode env line = some ws) : ∀ w ∈ ws, WordOk env.cw w := by
  obtain ⟨os, _, rfl⟩ := unicode_eq env line ws h
  intro w hw
  obtain ⟨t, _, rfl⟩ := List.mem_map.mp hw
  exact from_ok _ t

theorem filterOpps_spec (stripped : Text) : ∀ (l os : List Nat), filterOpps stripped l = some os →
    os = l.filter (fun o => keepOpp stripped o = some true) ∧ ∀ o ∈ l, (keepOpp stripped o).isSome := by
  intro l
  induction l with
  | nil => intro os h; simp [filterOpps] at h; simp [h]
  | cons o l ih =>
    intro os h
    simp only [filterOpps] at h
    split at h
    · next k r hk hr =>
      obtain ⟨h1, h2⟩ := ih r hr
      simp only [Option.some.injEq] at h
      refine ⟨?_, ?_⟩
      · rw [← h, List.filter]
        cases k <;> simp [hk, h1]
      · intro o' ho'
        rcases List.mem_cons.mp ho' with rfl | ho'
        · simp [hk]
        · exact h2 o' ho'
    · simp at h

/-- the opportunities used: those before the end of the stripped text that do not directly
    follow a hyphen-minus or a soft hyphen (`none` only if an opportunity is not a char boundary
    of the stripped text — the slice would panic) -/
-- @audit TW.C11.usedOpps_spec
theorem usedOpps_spec (stripped : Text) (opps os : List Nat) (h : usedOpps stripped opps = some os) :
    os = (opps.filter (· < blen stripped)).filter (fun o => keepOpp stripped o = some true) ∧
    ∀ o ∈ opps, o < blen stripped → (keepOpp stripped o).isSome := by
  obtain ⟨h1, h2⟩ := filterOpps_spec stripped _ os h
  exact ⟨h1, fun o ho hlt => h2 o (List.mem_filter.mpr ⟨ho, by simpa using hlt⟩)⟩

/-- `keepOpp` spelled out: the char before offset `o` is neither `-` nor SHY -/
-- @audit TW.C11.keepOpp_spec
theorem keepOpp_spec (stripped l r : Text) (h : splitBytes? stripped (blen l) = some (l, r)) :
    keepOpp stripped (blen l) = some (l.getLast? != some HY && l.getLast? != some SHY) := by
  simp [keepOpp, charBefore?, h]

/-- **soundness of the boundaries.** Every boundary between two consecutive words lies at a
    position of the line that the escape skipper reaches in state `normal` (never inside an
    escape sequence), and the `k`-th boundary is the `k`-th used opportunity: the stripped text
    before it has exactly that byte length. -/
-- @audit TW.C11.unicode_boundaries_sound
theorem unicode_boundaries_sound (os : List Nat) (line : Text) (pre : List Text) (p : Text) (post : List Text)
    (h : uniPieces os line = pre ++ p :: post) (hpre : pre ≠ []) :
    Ansi.run .normal pre.flatten = .normal ∧
      os[pre.length - 1]? = some (blen (stripAnsi pre.flatten)) := by
  have := uniGo_cuts_sound .normal 0 .normal 0 [] os line rfl (by simp [stripFrom]) pre p post h hpre
  simpa [stripAnsi] using this

/-- a char boundary of the stripped text before its end is reached at a normal-state character -/
theorem reach_of_strip (s : Ansi) (l : Text) (p : Text) (d : Char) (q : Text)
    (h : stripFrom s l = p ++ d :: q) : Reach s 0 l (blen p) := by
  induction l generalizing s p with
  | nil => simp [stripFrom] at h
  | cons c cs ih =>
    simp only [stripFrom] at h
    split at h
    · next hv =>
      -- c is visible, so s = normal
      have hs : s = .normal := step_visible_normal s c hv
      cases p with
      | nil =>
        exact ⟨[], c, cs, rfl, by simpa [Ansi.run] using hs, by simp [stripFrom]⟩
      | cons x xs =>
        simp only [List.cons_append, List.cons.injEq] at h
        obtain ⟨rfl, h⟩ := h
        obtain ⟨a, e, b, h1, h2, h3⟩ := ih _ xs h
        refine ⟨c :: a, e, b, by simp [h1], by simpa [Ansi.run] using h2, ?_⟩
        simp only [stripFrom, hv, if_true, blen_cons]
        omega
    · next hv =>
      obtain ⟨a, e, b, h1, h2, h3⟩ := ih _ p h
      refine ⟨c :: a, e, b, by simp [h1], by simpa [Ansi.run] using h2, ?_⟩
      simp only [stripFrom, hv]
      simpa using h3

/-- **completeness of the boundaries.** If the used opportunities are strictly increasing char
    boundaries of the stripped line before its end (what `unicode_linebreak::linebreaks`
    returns, validated on every harness call), each of them produces a boundary: there are
    exactly `|os| + 1` words. Together with soundness: the boundaries are exactly the used
    opportunities, mapped back to normal-state positions of the original line. -/
-- @audit TW.C11.unicode_boundaries_complete
theorem unicode_boundaries_complete (os : List Nat) (line : Text) (hline : line ≠ [])
    (hinc : os.Pairwise (· < ·))
    (hb : ∀ o ∈ os, ∃ p d q, stripAnsi line = p ++ d :: q ∧ blen p = o) :
    (uniPieces os line).length = os.length + 1 := by
  apply uniGo_length _ _ _ _ _ hinc _ (Or.inr hline)
  intro o ho
  obtain ⟨p, d, q, h1, rfl⟩ := hb o ho
  exact reach_of_strip .normal line p d q h1

/-- **no used opportunity lies strictly inside a word**: the stripped text of a word spans from
    one used opportunity (or the start) to the next (or the end), so a word of the Unicode
    separator contains no break opportunity of that separator — the "unbreakable fragment" of
    C02's exception clause -/
-- @audit TW.C11.unicode_no_inner_opportunity
theorem unicode_no_inner_opportunity (os : List Nat) (line : Text) (hline : line ≠ [])
    (hinc : os.Pairwise (· < ·))
    (hb : ∀ o ∈ os, ∃ p d q, stripAnsi line = p ++ d :: q ∧ blen p = o)
    (pre : List Text) (p : Text) (post : List Text) (h : uniPieces os line = pre ++ p :: post) :
    ∀ o ∈ os, o ≤ blen (stripAnsi pre.flatten) ∨ blen (stripAnsi (pre.flatten ++ p)) ≤ o := by
  have hlen := unicode_boundaries_complete os line hline hinc hb
  rw [h] at hlen
  simp only [List.length_append, List.length_cons] at hlen
  have hmono : ∀ i j (hi : i < os.length) (hj : j < os.length), i ≤ j → os[i] ≤ os[j] := by
    intro i j hi hj hij
    rcases Nat.lt_or_ge i j with hlt | hge
    · exact Nat.le_of_lt (List.pairwise_iff_getElem.mp hinc i j hi hj hlt)
    · have : i = j := by omega
      subst this; exact Nat.le_refl _
  -- the boundary before the word
  have hbefore : pre ≠ [] → ∃ (hi : pre.length - 1 < os.length), os[pre.length - 1] = blen (stripAnsi pre.flatten) := by
    intro hpre
    have := (unicode_boundaries_sound os line pre p post h hpre).2
    have hp : 0 < pre.length := List.length_pos_iff.mpr hpre
    have hi : pre.length - 1 < os.length := by omega
    rw [List.getElem?_eq_getElem hi] at this
    exact ⟨hi, by simpa using this⟩
  intro o ho
  obtain ⟨j, hj, rfl⟩ := List.getElem_of_mem ho
  by_cases hjp : j < pre.length
  · left
    have hpre : pre ≠ [] := by intro e; rw [e] at hjp; simp at hjp
    obtain ⟨hi, e⟩ := hbefore hpre
    rw [← e]
    exact hmono j (pre.length - 1) hj hi (by omega)
  · right
    cases post with
    | nil => simp at hlen; omega
    | cons q post' =>
      have h' : uniPieces os line = (pre ++ [p]) ++ q :: post' := by simp [h]
      have := (unicode_boundaries_sound os line (pre ++ [p]) q post' h' (by simp)).2
      simp only [List.length_append, List.length_singleton, Nat.add_sub_cancel, List.flatten_append,
        List.flatten_cons, List.flatten_nil, List.append_nil] at this
      have hi : pre.length < os.length := by simp at hlen; omega
      rw [List.getElem?_eq_getElem hi] at this
      have e : os[pre.length] = blen (stripAnsi (pre.flatten ++ p)) := by simpa using this
      rw [← e]
      exact hmono pre.length j hi hj (by omega)

/-- **placement of the boundaries ("first entry").** With strictly increasing positive
    opportunities, every boundary sits directly after a VISIBLE character of the line: escape
    sequences standing between that character and the next visible one belong to the following
    word, and no boundary falls inside or directly behind a sequence. Together with soundness
    (the stripped text before the `k`-th boundary has the byte length of the `k`-th used
    opportunity) this fixes the boundary's position in the original line uniquely. -/
-- @audit TW.C11.unicode_boundary_first_entry
theorem unicode_boundary_first_entry (os : List Nat) (line : Text) (hinc : os.Pairwise (· < ·))
    (hpos : ∀ o ∈ os, 0 < o) (pre : List Text) (p : Text) (post : List Text)
    (h : uniPieces os line = pre ++ p :: post) (hpre : pre ≠ []) :
    ∃ t d, pre.flatten = t ++ [d] ∧ ((Ansi.run .normal t).step d).2 = true := by
  apply uniGo_first_entry .normal .normal 0 [] os line rfl hinc _ pre p post h hpre
  intro o ho
  have : o ∈ os := by
    cases os with
    | nil => simp at ho
    | cons x xs => simp at ho; subst ho; simp
  exact Or.inl (hpos o this)

/-- the position is unique: two prefixes of the line that end in a visible character and have
    the same stripped length are equal -/
-- @audit TW.C11.first_entry_unique
theorem first_entry_unique (line a b ra rb : Text) (ha : line = a ++ ra) (hb : line = b ++ rb)
    (hva : ∃ t d, a = t ++ [d] ∧ ((Ansi.run .normal t).step d).2 = true)
    (hvb : ∃ t d, b = t ++ [d] ∧ ((Ansi.run .normal t).step d).2 = true)
    (hlen : blen (stripAnsi a) = blen (stripAnsi b)) : a = b := by
  -- one is a prefix of the other; the longer one would contain a further visible character
  have key : ∀ (a b ra rb : Text), line = a ++ ra → line = b ++ rb → a.length ≤ b.length →
      (∃ t d, b = t ++ [d] ∧ ((Ansi.run .normal t).step d).2 = true) →
      blen (stripAnsi a) = blen (stripAnsi b) → a = b := by
    intro a b ra rb ha hb hle hvb hlen
    have hpre : a <+: b := by
      have h1 : a <+: line := ⟨ra, ha.symm⟩
      have h2 : b <+: line := ⟨rb, hb.symm⟩
      exact List.prefix_of_prefix_length_le h1 h2 hle
    obtain ⟨x, rfl⟩ := hpre
    obtain ⟨t, d, e, hv⟩ := hvb
    cases hx : x.getLast? with
    | none =>
      have : x = [] := List.getLast?_eq_none_iff.mp hx
      subst this; simp
    | some y =>
      exfalso
      obtain ⟨x', rfl⟩ := List.getLast?_eq_some_iff.mp hx
      have e2 : a ++ x' = t ∧ y = d := by
        have : (a ++ x') ++ [y] = t ++ [d] := by rw [← e]; simp
        have := List.append_inj' this rfl
        exact ⟨this.1, by simpa using this.2⟩
      obtain ⟨rfl, rfl⟩ := e2
      unfold stripAnsi at hlen
      rw [show a ++ (x' ++ [y]) = (a ++ x') ++ [y] by simp, stripFrom_append (a := a ++ x'), stripFrom_append (a := a)] at hlen
      simp only [stripFrom, hv, if_true, blen_append, blen_cons, blen_nil] at hlen
      have := utf8Size_pos y
      omega
  rcases Nat.le_total a.length b.length with h | h
  · exact key a b ra rb ha hb h hvb hlen
  · exact (key b a rb ra hb ha h hva hlen.symm).symm

/-! non-vacuity: the coloured example of the upstream test-suite; and the repaired defect F3 -/
example : uniPieces [4] ['f', 'o', 'o', ' ', ESC, '[', '1', 'm', 'b', 'a', 'r'] =
    [['f', 'o', 'o', ' '], [ESC, '[', '1', 'm', 'b', 'a', 'r']] := by decide
example : usedOpps "aaa bbb ccc-".toList [4, 8, 12] = some [4, 8] := by decide


/-! ### the opportunities themselves: `unicode_linebreak::linebreaks` inside the model

`TextwrapModel/Linebreak.lean` transcribes the crate's scan; `Lemmas/Linebreak.lean` proves, for ANY
pair table and class function, that the reported offsets are char boundaries, strictly increasing
and at most the byte length; `Lemmas/LinebreakTable.lean` adds, for the tables regenerated from the
crate cargo resolved, positivity (LB2) and LB7 for texts without hard-line-break characters — the
clauses the theorems above and those of C01/C04/C05/C13/C14 take as hypotheses on `env.opps`. Which
offsets UAX #14 asks for is not stated anywhere in textwrap's properties; that the scan modelled
here is the one the code runs is checked on every case by the driver (`lb=0[…]` on a difference)
and by `lbScan_pinned` (hash of the function's source). -/

-- @audit TW.ownOpps_contract
-- @audit TW.ownOpps_noSpace
-- @audit TW.ownOpps_space_after_hard
-- @audit TW.lbTables_lb7
-- @audit TW.lbScan_pinned
-- restart invariance (the key to wrapping a word again on its own): `Lemmas/Linebreak.lean`
-- @audit TW.ownOpps_restart
-- @audit TW.lbTables_restart
-- @audit TW.ownOpps_part

/-- the Unicode separator never panics on the model's own opportunities (any tables) -/
-- @audit TW.C11.findWordsUnicode_total_ownlb
theorem findWordsUnicode_total_ownlb (env : Env) (T : LbTables) (henv : env.opps = ownOpps T) (line : Text) :
    ∃ ws, findWordsUnicode env line = some ws :=
  _root_.TW.findWordsUnicode_total env line (boundary_own env T henv (stripAnsi line))

/-- the hypothesis `HardFree` is satisfiable (a test, labelled as such) -/
example : HardFree ['a', 'b', ' ', 'c', '-', 'd', 'é', '字'] := by
  intro c hc
  simp only [List.mem_cons, List.mem_nil_iff, or_false] at hc
  rcases hc with rfl | rfl | rfl | rfl | rfl | rfl | rfl | rfl <;> decide +kernel

/-- the opportunities the Unicode separator actually uses, when the environment runs the model's
    own `linebreaks` (any tables satisfying LB2): strictly increasing, positive, each strictly
    inside the stripped text on a char boundary — the hypotheses of the boundary theorems -/
-- @audit TW.C11.usedOpps_own
theorem usedOpps_own (env : Env) (T : LbTables) (henv : env.opps = ownOpps T) (hT : NoBreakAtSot T)
    (line : Text) (os : List Nat)
    (h : usedOpps (stripAnsi line) (env.opps (stripAnsi line)) = some os) :
    os.Pairwise (· < ·) ∧ (∀ o ∈ os, 0 < o) ∧
      ∀ o ∈ os, ∃ p d q, stripAnsi line = p ++ d :: q ∧ blen p = o := by
  obtain ⟨hos, _⟩ := usedOpps_spec _ _ _ h
  rw [henv] at hos
  have hsub : ∀ o ∈ os, o ∈ ownOpps T (stripAnsi line) ∧ o < blen (stripAnsi line) := by
    intro o ho
    rw [hos] at ho
    have h1 := (List.mem_filter.mp ho).1
    have h2 := List.mem_filter.mp h1
    exact ⟨h2.1, by simpa using h2.2⟩
  refine ⟨?_, fun o ho => ownOpps_pos T hT _ o (hsub o ho).1, ?_⟩
  · rw [hos]
    exact ((ownOpps_pairwise T _).filter _).filter _
  · intro o ho
    obtain ⟨hm, hlt⟩ := hsub o ho
    obtain ⟨l, r, hs, hb⟩ := ownOpps_boundary T _ o hm
    cases r with
    | nil =>
      exfalso
      rw [hs, List.append_nil] at hlt
      omega
    | cons d q => exact ⟨l, d, q, hs, hb⟩


/-- the statement of `unicode_separator_ownlb`: **the Unicode separator, with the opportunity routine inside the model — every clause of the
    property at once, no hypothesis about an external crate.** For every non-empty line the
    separator returns words which concatenate to the line, are well-formed (`WordOk`: whitespace =
    trailing spaces, cached width = display width, no penalty), are one more than the used
    opportunities (those before the end whose preceding character is neither `-` nor SHY), and
    every boundary between two words is reached in skipper state `normal`, is the corresponding
    used opportunity of the stripped text, sits directly after a visible character, and no used
    opportunity lies strictly inside a word. -/
def UnicodeSepSpec (env : Env) (T : LbTables) (line : Text) : Prop :=
    ∃ ws os, findWordsUnicode env line = some ws ∧
      usedOpps (stripAnsi line) (ownOpps T (stripAnsi line)) = some os ∧
      (ws.map Word.text).flatten = line ∧ (∀ w ∈ ws, WordOk env.cw w) ∧
      ws.length = os.length + 1 ∧
      ∀ pre p post, uniPieces os line = pre ++ p :: post →
        (∀ o ∈ os, o ≤ blen (stripAnsi pre.flatten) ∨ blen (stripAnsi (pre.flatten ++ p)) ≤ o) ∧
        (pre ≠ [] →
          Ansi.run .normal pre.flatten = .normal ∧
          os[pre.length - 1]? = some (blen (stripAnsi pre.flatten)) ∧
          ∃ t d, pre.flatten = t ++ [d] ∧ ((Ansi.run .normal t).step d).2 = true)

-- @audit TW.C11.unicode_separator_ownlb
theorem unicode_separator_ownlb (env : Env) (T : LbTables) (henv : env.opps = ownOpps T) (hT : NoBreakAtSot T)
    (line : Text) (hline : line ≠ []) : UnicodeSepSpec env T line := by
  unfold UnicodeSepSpec
  obtain ⟨ws, hws⟩ := findWordsUnicode_total_ownlb env T henv line
  obtain ⟨os, hos, hwsd⟩ := unicode_eq env line ws hws
  obtain ⟨hinc, hpos, hb⟩ := usedOpps_own env T henv hT line os hos
  refine ⟨ws, os, hws, by rw [← henv]; exact hos, unicode_lossless env line ws hws,
    unicode_words_ok env line ws hws, ?_, ?_⟩
  · rw [hwsd, List.length_map]
    exact unicode_boundaries_complete os line hline hinc hb
  · intro pre p post h
    refine ⟨unicode_no_inner_opportunity os line hline hinc hb pre p post h, fun hpre => ?_⟩
    obtain ⟨h1, h2⟩ := unicode_boundaries_sound os line pre p post h hpre
    exact ⟨h1, h2, unicode_boundary_first_entry os line hinc hpos pre p post h hpre⟩

/-- … for the tables the crate was compiled with (LB2 checked by the kernel on the table) -/
-- @audit TW.C11.unicode_separator_own
theorem unicode_separator_own (env : Env) (henv : env.opps = ownOpps lbTables) (line : Text) (hline : line ≠ []) :
    UnicodeSepSpec env lbTables line :=
  unicode_separator_ownlb env lbTables henv lbTables_noBreakAtSot line hline


end TW.C11

/-
  C02 — first-fit lines fit the width unless the line is one unbreakable fragment.
-/
import Lemmas.GreedyWidth
import Lemmas.OverflowStable
import Props.C05
namespace TW.C02

open TW.C05 (indentOf)

theorem lws_getD (a b : Nat) (k : Nat) :
    (List.map (CostNum.ofNat (α := Int)) [a, b]).getD k (defaultLw (List.map (CostNum.ofNat (α := Int)) [a, b])) =
      ((if k = 0 then a else b : Nat) : Int) := by
  match k with
  | 0 => rfl
  | 1 => rfl
  | k + 2 => simp [defaultLw, ofNat_int]

/-- **first-fit: every line holding two or more fragments fits next to the indent it is
    rendered with.** Hypotheses: first-fit, built-in splitter, `' '` one column wide, H-norm of
    the paragraph's fragments (all fragment boundaries in skipper state `normal`: a theorem for
    ESC-free text; fails exactly in the known-finding class KF-1a). The line widths are derived
    per paragraph from the indent its first line actually carries (repaired defect F1). -/
-- @audit TW.C02.firstfit_line_width
theorem firstfit_line_width (env : Env) (hsp : env.cw SP = 1) (mo : MinimaOracle Int) (o : Opts)
    (hb : Builtin o.splitter) (halg : o.alg = .firstFit) (line : Text) (nPrev : Nat) (frs : List Word)
    (hpipe : pipeline env o line (o.width - displayWidth env.cw o.subsequentIndent) = some frs)
    (hn : HNorm frs) :
    ∃ groups : List (List Word),
      wrapSingleLineSlow env mo o line nPrev = some (specLines o groups 0 nPrev) ∧
      groups.flatten = frs ∧
      ∀ k g, groups[k]? = some g → 2 ≤ g.length →
        displayWidth env.cw (groupSlice g) ≤ o.width - displayWidth env.cw (indentOf o (nPrev + k)) ∧
        Ansi.run .normal (groupSlice g) = .normal := by
  obtain ⟨c1, c2⟩ := pipeline_contig env o (builtin_inRange _ _ hb) line _ frs hpipe
  have hnp := pipeline_noPen env o hb line _ frs hpipe
  let a := if nPrev = 0 then o.width - displayWidth env.cw o.initialIndent
           else o.width - displayWidth env.cw o.subsequentIndent
  let b := o.width - displayWidth env.cw o.subsequentIndent
  let lws := List.map (CostNum.ofNat (α := Int)) [a, b]
  let groups := wrapFirstFit (fragOf (α := Int)) frs lws
  have hflat : groups.flatten = frs := by simp [groups, wrapFirstFit, ffGo_flatten]
  refine ⟨groups, ?_, hflat, ?_⟩
  · unfold wrapSingleLineSlow
    simp only [hpipe, halg, wrapAlg]
    exact reassemble_eq_spec o line [] groups 0 nPrev (by simp [hflat, c1]) rfl
  · intro k g hk hlen
    have hgreedy := ffGo_greedy (fragOf (α := Int)) lws (defaultLw lws) 0 [] 0 frs
      (by simp [lineAcc]) (by simp [lineFits, fitsFrom])
    have hfit := hgreedy.line_fits _ _ _ _ _ k g hk
    have hgm : g ∈ groups := List.mem_of_getElem? hk
    have hng : HNorm g := HNorm.of_flatten (by rw [hflat]; exact hn) g hgm
    have hsub : ∀ w ∈ g, w ∈ frs := fun w hw => by rw [← hflat]; exact List.mem_flatten.mpr ⟨g, hgm, hw⟩
    -- g = pre ++ [last], pre ≠ []
    have hgne : g ≠ [] := by intro h; subst h; simp at hlen
    obtain ⟨pre, last, rfl⟩ : ∃ pre last, g = pre ++ [last] :=
      ⟨g.dropLast, g.getLast hgne, (List.dropLast_concat_getLast hgne).symm⟩
    have hpre : pre ≠ [] := by intro h; subst h; simp at hlen
    obtain ⟨s1, s2⟩ := groupSlice_width env.cw hsp pre last hng (fun w hw => (c2 w (hsub w hw)).2)
    refine ⟨?_, s2⟩
    rw [s1]
    rw [lineFits_append_singleton] at hfit
    rcases hfit.2 with h | h
    · exact absurd h hpre
    · have hp : last.pen = [] := hnp last (hsub last (by simp))
      simp only [Nat.zero_add] at h
      rw [lineAcc_fragOf, lws_getD] at h
      simp only [fragOf, ofNat_int, hp, blen_nil] at h
      have hcase : (if k = 0 then a else b) = o.width - displayWidth env.cw (indentOf o (nPrev + k)) := by
        unfold indentOf
        by_cases hk0 : k = 0
        · subst hk0; simp only [if_true, Nat.add_zero, a]; split <;> rfl
        · have : nPrev + k ≠ 0 := by omega
          simp only [hk0, this, if_false, b]
      rw [hcase] at h
      have : ((fragSum pre : Nat) : Int) + (last.width : Int) + ((0 : Nat) : Int) ≤
          ((o.width - displayWidth env.cw (indentOf o (nPrev + k)) : Nat) : Int) := by omega
      exact_mod_cast this

/-- hence the rendered line `indent ++ slice` has display width at most the configured width —
    or its content has display width 0 (an indent that is itself wider than the width;
    DESIGN §9(a)) — for an indent that ends in skipper state `normal` -/
-- @audit TW.C02.render_width
theorem render_width (cw : Char → Nat) (indent slice : Text) (width : Nat)
    (hind : Ansi.run .normal indent = .normal)
    (h : displayWidth cw slice ≤ width - displayWidth cw indent) :
    displayWidth cw (indent ++ slice ++ []) ≤ width ∨ displayWidth cw slice = 0 := by
  simp only [List.append_nil]
  unfold displayWidth at *
  rw [dwFrom_append, hind]
  omega

/-- ESC-free text: H-norm is a theorem, so the bound holds unconditionally for the ASCII
    separator and both built-in splitters -/
-- @audit TW.C02.firstfit_line_width_escfree
theorem firstfit_line_width_escfree (env : Env) (hsp : env.cw SP = 1) (mo : MinimaOracle Int) (o : Opts)
    (hb : Builtin o.splitter) (halg : o.alg = .firstFit) (line : Text) (hesc : ∀ c ∈ line, c ≠ ESC)
    (nPrev : Nat) (frs : List Word)
    (hpipe : pipeline env o line (o.width - displayWidth env.cw o.subsequentIndent) = some frs) :
    ∃ groups : List (List Word),
      wrapSingleLineSlow env mo o line nPrev = some (specLines o groups 0 nPrev) ∧
      groups.flatten = frs ∧
      ∀ k g, groups[k]? = some g → 2 ≤ g.length →
        displayWidth env.cw (groupSlice g) ≤ o.width - displayWidth env.cw (indentOf o (nPrev + k)) ∧
        Ansi.run .normal (groupSlice g) = .normal := by
  obtain ⟨c1, c2⟩ := pipeline_contig env o (builtin_inRange _ _ hb) line _ frs hpipe
  exact firstfit_line_width env hsp mo o hb halg line nPrev frs hpipe
    (hnorm_of_escfree frs (fun w hw => (c2 w hw).1) (by rw [c1]; exact hesc))

/-- **coloured text**: for safe lines (`SeqSafe`: every space, and every hyphen when the hyphen
    splitter is active, is met in skipper state `normal`; the line ends in state `normal` — e.g.
    any mixture of visible characters and well-formed CSI/OSC sequences that contain no space /
    hyphen) H-norm is a theorem, for both separators and both built-in splitters, `break_words`
    on or off. The complement is the recorded finding classes KF-1a, KF-1b, KF-2. -/
-- @audit TW.C02.firstfit_line_width_safe
theorem firstfit_line_width_safe (env : Env) (hsp : env.cw SP = 1) (mo : MinimaOracle Int) (o : Opts)
    (hb : Builtin o.splitter) (halg : o.alg = .firstFit) (line : Text) (hsafe : SeqSafe o.splitter line)
    (nPrev : Nat) (frs : List Word)
    (hpipe : pipeline env o line (o.width - displayWidth env.cw o.subsequentIndent) = some frs) :
    ∃ groups : List (List Word),
      wrapSingleLineSlow env mo o line nPrev = some (specLines o groups 0 nPrev) ∧
      groups.flatten = frs ∧
      ∀ k g, groups[k]? = some g → 2 ≤ g.length →
        displayWidth env.cw (groupSlice g) ≤ o.width - displayWidth env.cw (indentOf o (nPrev + k)) ∧
        Ansi.run .normal (groupSlice g) = .normal :=
  firstfit_line_width env hsp mo o hb halg line nPrev frs hpipe
    (pipeline_hnorm env o hb line hsafe _ frs hpipe)

/-- **force-broken pieces**: with `break_words`, every fragment handed to the algorithm is at most
    as wide as the subsequent-line width, or holds a single non-zero-width visible character -/
-- @audit TW.C02.broken_fragment_bound
theorem broken_fragment_bound (cw : Char → Nat) (limit : Nat) (ws : List Word)
    (hw : ∀ w ∈ ws, w.width = displayWidth cw w.word) :
    ∀ f ∈ breakWords cw limit ws, f.width ≤ limit ∨ nzFrom cw .normal f.word = 1 := by
  induction ws with
  | nil => intro f hf; simp [breakWords] at hf
  | cons w rest ih =>
    intro f hf
    simp only [breakWords] at hf
    rcases List.mem_append.mp hf with hf | hf
    · split at hf
      · have hok := breakGo_ok cw limit w.ws w.pen .normal [] 0 w.word rfl rfl (Or.inl (Nat.zero_le _))
        exact breakOK_bound cw limit w.ws w.pen _ hok f hf
      · next hle => simp only [List.mem_singleton] at hf; subst hf; left; omega
    · exact ih (fun x hx => hw x (by simp [hx])) f hf
where
  breakOK_bound (cw : Char → Nat) (limit : Nat) (ws pen : Text) (ps : List Word)
      (h : BreakOK cw limit ws pen ps) : ∀ p ∈ ps, p.width ≤ limit ∨ nzFrom cw .normal p.word = 1 := by
    induction ps with
    | nil => simp
    | cons p rest ih =>
      cases rest with
      | nil => intro q hq; simp only [List.mem_singleton] at hq; subst hq; exact h.2.2.2.2
      | cons q r =>
        obtain ⟨_, _, _, _, h5, _, _, _, h9⟩ := h
        intro x hx
        rcases List.mem_cons.mp hx with rfl | hx
        · exact h5
        · exact ih h9 x hx

/-- the fragments of the pipeline with `break_words`: the force-broken words, preceded by the
    empty sentinel word when the initial indent is non-empty -/
theorem pipeline_breakwords_shape (env : Env) (o : Opts) (hr : SplitterInRange env.isAlnum o.splitter)
    (hbw : o.breakWords = true) (line : Text) (sw : Nat) (frs : List Word)
    (h : pipeline env o line sw = some frs) :
    ∃ sws : List Word, (∀ w ∈ sws, w.width = displayWidth env.cw w.word) ∧
      frs = (if o.initialIndent.isEmpty then breakWords env.cw sw sws
             else Word.from env.cw [] :: breakWords env.cw sw sws) := by
  unfold pipeline at h
  split at h
  · simp at h
  · next fw hfw =>
    have hfrag : ∀ w ∈ fw, FragOk env.cw w := by
      cases hs : o.sep with
      | ascii =>
        rw [hs] at hfw
        simp only [findWords, Option.some.injEq] at hfw; subst hfw
        intro w hw; obtain ⟨t, _, rfl⟩ := List.mem_map.mp hw; exact from_fragOk _ t
      | unicode =>
        rw [hs] at hfw
        simp only [findWords] at hfw
        unfold findWordsUnicode at hfw
        simp only at hfw
        split at hfw
        · simp only [Option.some.injEq] at hfw; subst hfw
          intro w hw; obtain ⟨t, _, rfl⟩ := List.mem_map.mp hw; exact from_fragOk _ t
        · simp at hfw
    split at h
    · simp at h
    · next sws hs =>
      have s2 := (splitWords_text env o.splitter hr _ sws hfrag hs).2
      simp only [hbw, if_true] at h
      refine ⟨sws, fun w hw => (s2 w hw).2, ?_⟩
      split at h
      · next hi => simp only [Option.some.injEq] at h; rw [← h]; simp [hi]
      · next hi => simp only [Option.some.injEq] at h; rw [← h]; simp [hi]

/-- **every first-fit line, `break_words` on**: the part after the indent fits the width left by
    the indent the line is rendered with, or it is a single fragment holding at most one
    non-zero-width character (the property's exception; this includes the line that consists
    of the indent alone when the first word cannot stand next to a non-empty initial indent).
    H-norm as in `firstfit_line_width` (a theorem for ESC-free and for `SeqSafe` lines). -/
-- @audit TW.C02.firstfit_every_line_breakwords
theorem firstfit_every_line_breakwords (env : Env) (hsp : env.cw SP = 1) (mo : MinimaOracle Int) (o : Opts)
    (hb : Builtin o.splitter) (halg : o.alg = .firstFit) (hbw : o.breakWords = true)
    (line : Text) (nPrev : Nat) (frs : List Word)
    (hpipe : pipeline env o line (o.width - displayWidth env.cw o.subsequentIndent) = some frs)
    (hn : HNorm frs) :
    ∃ groups : List (List Word),
      wrapSingleLineSlow env mo o line nPrev = some (specLines o groups 0 nPrev) ∧
      groups.flatten = frs ∧
      ∀ k g, groups[k]? = some g →
        displayWidth env.cw (groupSlice g) ≤ o.width - displayWidth env.cw (indentOf o (nPrev + k)) ∨
        ∃ f, g = [f] ∧ nzFrom env.cw .normal f.word ≤ 1 := by
  obtain ⟨groups, h1, h2, h3⟩ := firstfit_line_width env hsp mo o hb halg line nPrev frs hpipe hn
  obtain ⟨_, c2⟩ := pipeline_contig env o (builtin_inRange _ _ hb) line _ frs hpipe
  obtain ⟨sws, hsw, hshape⟩ := pipeline_breakwords_shape env o (builtin_inRange _ _ hb) hbw line _ frs hpipe
  refine ⟨groups, h1, h2, ?_⟩
  intro k g hk
  match g, hk with
  | [], _ => left; simp [groupSlice, displayWidth, dwFrom]
  | a :: b :: r, hk => exact Or.inl (h3 k _ hk (by simp)).1
  | [f], hk =>
    have hfm : f ∈ frs := by
      rw [← h2]; exact List.mem_flatten.mpr ⟨[f], List.mem_of_getElem? hk, by simp⟩
    have hslice : displayWidth env.cw (groupSlice [f]) = f.width := by
      simp [groupSlice, (c2 f hfm).2]
    rw [hslice]
    -- the sentinel: an empty word
    by_cases hsent : f.word = []
    · right; exact ⟨f, rfl, by simp [hsent, nzFrom]⟩
    · by_cases hk0 : nPrev + k = 0 ∧ o.initialIndent.isEmpty = false
      · -- first line of the output with a non-empty initial indent: the fragment is the sentinel
        exfalso
        have hk' : k = 0 := by omega
        subst hk'
        have hne : ¬ (o.initialIndent.isEmpty = true) := by simp [hk0.2]
        rw [if_neg hne] at hshape
        cases groups with
        | nil => simp at hk
        | cons g0 rest =>
          simp only [List.getElem?_cons_zero, Option.some.injEq] at hk
          subst hk
          rw [hshape] at h2
          simp only [List.flatten_cons, List.cons_append, List.nil_append, List.cons.injEq] at h2
          apply hsent
          rw [h2.1]; simp [Word.from, trimEndSp]
      · have hbnd : f ∈ breakWords env.cw (o.width - displayWidth env.cw o.subsequentIndent) sws := by
          rw [hshape] at hfm
          split at hfm
          · exact hfm
          · rcases List.mem_cons.mp hfm with rfl | hfm
            · exact absurd (by simp [Word.from, trimEndSp]) hsent
            · exact hfm
        rcases broken_fragment_bound env.cw _ sws hsw f hbnd with hle | hnz
        · left
          unfold indentOf
          by_cases hz : nPrev + k = 0
          · have hie : o.initialIndent.isEmpty = true := by
              cases hi : o.initialIndent.isEmpty with
              | true => rfl
              | false => exact absurd ⟨hz, hi⟩ hk0
            have : o.initialIndent = [] := by simpa using hie
            simp only [hz, if_true, this, displayWidth, dwFrom]
            unfold displayWidth at hle
            omega
          · simp only [hz, if_false]; exact hle
        · right; exact ⟨f, rfl, by omega⟩

/-- the same with H-norm discharged: every safe line (`SeqSafe`) -/
-- @audit TW.C02.firstfit_every_line_breakwords_safe
theorem firstfit_every_line_breakwords_safe (env : Env) (hsp : env.cw SP = 1) (mo : MinimaOracle Int) (o : Opts)
    (hb : Builtin o.splitter) (halg : o.alg = .firstFit) (hbw : o.breakWords = true)
    (line : Text) (hsafe : SeqSafe o.splitter line) (nPrev : Nat) (frs : List Word)
    (hpipe : pipeline env o line (o.width - displayWidth env.cw o.subsequentIndent) = some frs) :
    ∃ groups : List (List Word),
      wrapSingleLineSlow env mo o line nPrev = some (specLines o groups 0 nPrev) ∧
      groups.flatten = frs ∧
      ∀ k g, groups[k]? = some g →
        displayWidth env.cw (groupSlice g) ≤ o.width - displayWidth env.cw (indentOf o (nPrev + k)) ∨
        ∃ f, g = [f] ∧ nzFrom env.cw .normal f.word ≤ 1 :=
  firstfit_every_line_breakwords env hsp mo o hb halg hbw line nPrev frs hpipe
    (pipeline_hnorm env o hb line hsafe _ frs hpipe)

/-! the repaired defect F1, through the whole model (a test, labelled as such): later paragraphs
    are measured against the subsequent indent -/
example :
    let env : Env := { cw := fun _ => 1, isAlnum := fun c => c.isAlphanum, isWs := fun c => c = ' ', opps := fun _ => [] }
    let o : Opts := { width := 6, initialIndent := [], subsequentIndent := "    ".toList, breakWords := true,
                      sep := .ascii, splitter := .hyphen, alg := .firstFit, lineEnding := .lf }
    (wrap (α := Int) env (fun _ _ => []) o "a\nbb cc dd".toList).map (·.map String.ofList) =
      some ["a", "    bb", "    cc", "    dd"] := by decide

/-! ### the exception clause with `break_words` off (ASCII separator, any indents) -/

theorem points_sub (isAlnum : Char → Bool) (sp : Splitter) (hb : Builtin sp) (pre u post : Text)
    (h : sp.points isAlnum (pre ++ u ++ post) = []) : sp.points isAlnum u = [] := by
  cases sp with
  | none => rfl
  | hyphen => exact pointFree_sub isAlnum pre u post h
  | custom f => exact absurd hb (by simp [Builtin])

/-- **`break_words` off, ASCII separator, both built-in splitters, any indents, every paragraph
    of a text**: every first-fit line fits next to the indent it is rendered with, or the part
    after the indent is ONE fragment that contains no space (no break opportunity of the ASCII
    separator) and no split point of the configured splitter — the property's exception clause.
    Safe lines (`SeqSafe`; the complement is the finding class KF-1a/KF-1b). -/
-- @audit TW.C02.firstfit_nobreak_exception_ascii
theorem firstfit_nobreak_exception_ascii (env : Env) (hsp : env.cw SP = 1) (mo : MinimaOracle Int) (o : Opts)
    (halg : o.alg = .firstFit) (hsep : o.sep = .ascii) (hb : Builtin o.splitter) (hbw : o.breakWords = false)
    (p : Text) (hsafe : SeqSafe o.splitter p) (n : Nat) (frs : List Word)
    (hpipe : pipeline env o p (o.width - displayWidth env.cw o.subsequentIndent) = some frs) :
    ∃ groups : List (List Word),
      wrapSingleLineSlow env mo o p n = some (specLines o groups 0 n) ∧
      groups.flatten = frs ∧
      ∀ k g, groups[k]? = some g →
        displayWidth env.cw (groupSlice g) ≤ o.width - displayWidth env.cw (indentOf o (n + k)) ∨
        (∃ f, g = [f] ∧ groupSlice g = f.word ∧ SP ∉ f.word ∧ f.word ≠ [] ∧
          o.splitter.points env.isAlnum f.word = []) := by
  have hn := pipeline_hnorm env o hb p hsafe _ frs hpipe
  obtain ⟨G, g1, g2, g3⟩ := firstfit_line_width env hsp mo o hb halg p n frs hpipe hn
  refine ⟨G, g1, g2, ?_⟩
  intro k g hk
  have hg : g ∈ G := List.mem_of_getElem? hk
  match g, hk, hg with
  | [], _, _ => left; simp [groupSlice, displayWidth, dwFrom]
  | a :: b :: r, hk, _ => left; exact (g3 k _ hk (by simp)).1
  | [f], hk, hg =>
    by_cases hfit : displayWidth env.cw (groupSlice [f]) ≤ o.width - displayWidth env.cw (indentOf o (n + k))
    · exact Or.inl hfit
    · right
      have hfm : f ∈ frs := by rw [← g2]; exact List.mem_flatten.mpr ⟨[f], hg, by simp⟩
      have hslice : groupSlice [f] = f.word := by simp [groupSlice]
      refine ⟨f, rfl, hslice, ?_⟩
      rw [hslice] at hfit
      -- with `break_words` off the fragments are the pieces of the words
      have hshape : splitWords env o.splitter (findWordsAscii env.cw p) = some frs := by
        unfold pipeline at hpipe
        simp only [hsep, findWords] at hpipe
        split at hpipe
        · simp at hpipe
        · next sws hs =>
          simp only [hbw, Bool.false_eq_true, if_false, Option.some.injEq] at hpipe
          rw [hs, hpipe]
      obtain ⟨⟨w, hw, A', B', ew⟩, hpts⟩ := splitWords_pieces env o.splitter hb _ frs hshape f hfm
      refine ⟨?_, ?_, hpts⟩
      · intro hm
        apply findWordsAscii_noSP env.cw p w hw
        rw [ew]
        simp [hm]
      · intro he
        rw [he] at hfit
        simp [displayWidth, dwFrom] at hfit

/-- **`break_words` off, Unicode separator**: every first-fit line fits next to its indent, or
    the part after the indent is ONE fragment without a split point of the configured splitter
    which is a contiguous part of one word of the separator. By `C11.unicode_no_inner_opportunity`
    such a word contains no break opportunity of the separator (relative to the opportunities
    `unicode_linebreak` returned), so the fragment is unbreakable in the property's sense. -/
-- @audit TW.C02.firstfit_nobreak_exception_unicode
theorem firstfit_nobreak_exception_unicode (env : Env) (hsp : env.cw SP = 1) (mo : MinimaOracle Int) (o : Opts)
    (halg : o.alg = .firstFit) (hsep : o.sep = .unicode) (hb : Builtin o.splitter) (hbw : o.breakWords = false)
    (p : Text) (hsafe : SeqSafe o.splitter p) (n : Nat) (frs : List Word)
    (hpipe : pipeline env o p (o.width - displayWidth env.cw o.subsequentIndent) = some frs) :
    ∃ groups : List (List Word),
      wrapSingleLineSlow env mo o p n = some (specLines o groups 0 n) ∧
      groups.flatten = frs ∧
      ∀ k g, groups[k]? = some g →
        displayWidth env.cw (groupSlice g) ≤ o.width - displayWidth env.cw (indentOf o (n + k)) ∨
        (∃ f, g = [f] ∧ groupSlice g = f.word ∧ f.word ≠ [] ∧
          o.splitter.points env.isAlnum f.word = [] ∧
          ∃ ws, findWordsUnicode env p = some ws ∧ ∃ w ∈ ws, ∃ A B, w.word = A ++ f.word ++ B) := by
  have hn := pipeline_hnorm env o hb p hsafe _ frs hpipe
  obtain ⟨G, g1, g2, g3⟩ := firstfit_line_width env hsp mo o hb halg p n frs hpipe hn
  refine ⟨G, g1, g2, ?_⟩
  intro k g hk
  have hg : g ∈ G := List.mem_of_getElem? hk
  match g, hk, hg with
  | [], _, _ => left; simp [groupSlice, displayWidth, dwFrom]
  | a :: b :: r, hk, _ => left; exact (g3 k _ hk (by simp)).1
  | [f], hk, hg =>
    by_cases hfit : displayWidth env.cw (groupSlice [f]) ≤ o.width - displayWidth env.cw (indentOf o (n + k))
    · exact Or.inl hfit
    · right
      have hfm : f ∈ frs := by rw [← g2]; exact List.mem_flatten.mpr ⟨[f], hg, by simp⟩
      have hslice : groupSlice [f] = f.word := by simp [groupSlice]
      refine ⟨f, rfl, hslice, ?_⟩
      rw [hslice] at hfit
      have hshape : ∃ ws, findWordsUnicode env p = some ws ∧ splitWords env o.splitter ws = some frs := by
        unfold pipeline at hpipe
        simp only [hsep, findWords] at hpipe
        split at hpipe
        · simp at hpipe
        · next ws hws =>
          split at hpipe
          · simp at hpipe
          · next sws hs =>
            simp only [hbw, Bool.false_eq_true, if_false, Option.some.injEq] at hpipe
            exact ⟨ws, hws, by rw [hs, hpipe]⟩
      obtain ⟨ws, hws, hsw⟩ := hshape
      obtain ⟨⟨w, hw, A', B', ew⟩, hpts⟩ := splitWords_pieces env o.splitter hb _ frs hsw f hfm
      refine ⟨?_, hpts, ws, hws, w, hw, A', B', ew⟩
      intro he
      rw [he] at hfit
      simp [displayWidth, dwFrom] at hfit

/-- the same with the opportunity routine inside the model: the pipeline never panics
    (`ownOpps_boundary`, any tables), so for every safe paragraph the statement holds outright and
    "no break opportunity inside a word" (`C11.unicode_separator_ownlb`) needs no contract -/
-- @audit TW.C02.firstfit_nobreak_exception_unicode_ownlb
theorem firstfit_nobreak_exception_unicode_ownlb (env : Env) (T : LbTables) (henv : env.opps = ownOpps T)
    (hsp : env.cw SP = 1) (mo : MinimaOracle Int) (o : Opts)
    (halg : o.alg = .firstFit) (hsep : o.sep = .unicode) (hb : Builtin o.splitter) (hbw : o.breakWords = false)
    (p : Text) (hsafe : SeqSafe o.splitter p) (n : Nat) :
    ∃ frs, pipeline env o p (o.width - displayWidth env.cw o.subsequentIndent) = some frs ∧
    ∃ groups : List (List Word),
      wrapSingleLineSlow env mo o p n = some (specLines o groups 0 n) ∧
      groups.flatten = frs ∧
      ∀ k g, groups[k]? = some g →
        displayWidth env.cw (groupSlice g) ≤ o.width - displayWidth env.cw (indentOf o (n + k)) ∨
        (∃ f, g = [f] ∧ groupSlice g = f.word ∧ f.word ≠ [] ∧
          o.splitter.points env.isAlnum f.word = [] ∧
          ∃ ws, findWordsUnicode env p = some ws ∧ ∃ w ∈ ws, ∃ A B, w.word = A ++ f.word ++ B) := by
  obtain ⟨frs, hpipe⟩ := TW.C05.pipeline_total env o hb p (o.width - displayWidth env.cw o.subsequentIndent)
    (fun _ => boundary_own env T henv _)
  exact ⟨frs, hpipe, firstfit_nobreak_exception_unicode env hsp mo o halg hsep hb hbw p hsafe n frs hpipe⟩

end TW.C02

/-
  C02 — first-fit lines fit the width unless the line is one unbreakable fragment.
-/
import Lemmas.GreedyWidth
import Props.C05
namespace TW.C02

open TW.C05 (indentOf)

theorem lws_getD (a b : Nat) (k : Nat) :
    (List.map (CostNum.ofNat (α := Int)) [a, b]).getD k (defaultLw (List.map (CostNum.ofNat (α := Int)) [a, b])) =
      ((if k = 0 then a else b : Nat) : Int) := by
  match k with
  | 0 => rfl
  | 1 => rfl
  | k + 2 => simp [defaultLw, ofNat_int]

/-- **first-fit: every line holding two or more fragments fits next to the indent it is
    rendered with.** Hypotheses: first-fit, built-in splitter, `' '` one column wide, H-norm of
    the paragraph's fragments (all fragment boundaries in skipper state `normal`: a theorem for
    ESC-free text; fails exactly in the known-finding class KF-1a). The line widths are derived
    per paragraph from the indent its first line actually carries (repaired defect F1). -/
-- @audit TW.C02.firstfit_line_width
theorem firstfit_line_width (env : Env) (hsp : env.cw SP = 1) (mo : MinimaOracle Int) (o : Opts)
    (hb : Builtin o.splitter) (halg : o.alg = .firstFit) (line : Text) (nPrev : Nat) (frs : List Word)
    (hpipe : pipeline env o line (o.width - displayWidth env.cw o.subsequentIndent) = some frs)
    (hn : HNorm frs) :
    ∃ groups : List (List Word),
      wrapSingleLineSlow env mo o line nPrev = some (specLines o groups 0 nPrev) ∧
      groups.flatten = frs ∧
      ∀ k g, groups[k]? = some g → 2 ≤ g.length →
        displayWidth env.cw (groupSlice g) ≤ o.width - displayWidth env.cw (indentOf o (nPrev + k)) ∧
        Ansi.run .normal (groupSlice g) = .normal := by
  obtain ⟨c1, c2⟩ := pipeline_contig env o (builtin_inRange _ _ hb) line _ frs hpipe
  have hnp := pipeline_noPen env o hb line _ frs hpipe
  let a := if nPrev = 0 then o.width - displayWidth env.cw o.initialIndent
           else o.width - displayWidth env.cw o.subsequentIndent
  let b := o.width - displayWidth env.cw o.subsequentIndent
  let lws := List.map (CostNum.ofNat (α := Int)) [a, b]
  let groups := wrapFirstFit (fragOf (α := Int)) frs lws
  have hflat : groups.flatten = frs := by simp [groups, wrapFirstFit, ffGo_flatten]
  refine ⟨groups, ?_, hflat, ?_⟩
  · unfold wrapSingleLineSlow
    simp only [hpipe, halg, wrapAlg]
    exact reassemble_eq_spec o line [] groups 0 nPrev (by simp [hflat, c1]) rfl
  · intro k g hk hlen
    have hgreedy := ffGo_greedy (fragOf (α := Int)) lws (defaultLw lws) 0 [] 0 frs
      (by simp [lineAcc]) (by simp [lineFits, fitsFrom])
    have hfit := hgreedy.line_fits _ _ _ _ _ k g hk
    have hgm : g ∈ groups := List.mem_of_getElem? hk
    have hng : HNorm g := HNorm.of_flatten (by rw [hflat]; exact hn) g hgm
    have hsub : ∀ w ∈ g, w ∈ frs := fun w hw => by rw [← hflat]; exact List.mem_flatten.mpr ⟨g, hgm, hw⟩
    -- g = pre ++ [last], pre ≠ []
    have hgne : g ≠ [] := by intro h; subst h; simp at hlen
    obtain ⟨pre, last, rfl⟩ : ∃ pre last, g = pre ++ [last] :=
      ⟨g.dropLast, g.getLast hgne, (List.dropLast_concat_getLast hgne).symm⟩
    have hpre : pre ≠ [] := by intro h; subst h; simp at hlen
    obtain ⟨s1, s2⟩ := groupSlice_width env.cw hsp pre last hng (fun w hw => (c2 w (hsub w hw)).2)
    refine ⟨?_, s2⟩
    rw [s1]
    rw [lineFits_append_singleton] at hfit
    rcases hfit.2 with h | h
    · exact absurd h hpre
    · have hp : last.pen = [] := hnp last (hsub last (by simp))
      simp only [Nat.zero_add] at h
      rw [lineAcc_fragOf, lws_getD] at h
      simp only [fragOf, ofNat_int, hp, blen_nil] at h
      have hcase : (if k = 0 then a else b) = o.width - displayWidth env.cw (indentOf o (nPrev + k)) := by
        unfold indentOf
        by_cases hk0 : k = 0
        · subst hk0; simp only [if_true, Nat.add_zero, a]; split <;> rfl
        · have : nPrev + k ≠ 0 := by omega
          simp only [hk0, this, if_false, b]
      rw [hcase] at h
      have : ((fragSum pre : Nat) : Int) + (last.width : Int) + ((0 : Nat) : Int) ≤
          ((o.width - displayWidth env.cw (indentOf o (nPrev + k)) : Nat) : Int) := by omega
      exact_mod_cast this

/-- hence the rendered line `indent ++ slice` has display width at most the configured width —
    or its content has display width 0 (an indent that is itself wider than the width;
    DESIGN §9(a)) — for an indent that ends in skipper state `normal` -/
-- @audit TW.C02.render_width
theorem render_width (cw : Char → Nat) (indent slice : Text) (width : Nat)
    (hind : Ansi.run .normal indent = .normal)
    (h : displayWidth cw slice ≤ width - displayWidth cw indent) :
    displayWidth cw (indent ++ slice ++ []) ≤ width ∨ displayWidth cw slice = 0 := by
  simp only [List.append_nil]
  unfold displayWidth at *
  rw [dwFrom_append, hind]
  omega

/-- ESC-free text: H-norm is a theorem, so the bound holds unconditionally for the ASCII
    separator and both built-in splitters -/
-- @audit TW.C02.firstfit_line_width_escfree
theorem firstfit_line_width_escfree (env : Env) (hsp : env.cw SP = 1) (mo : MinimaOracle Int) (o : Opts)
    (hb : Builtin o.splitter) (halg : o.alg = .firstFit) (line : Text) (hesc : ∀ c ∈ line, c ≠ ESC)
    (nPrev : Nat) (frs : List Word)
    (hpipe : pipeline env o line (o.width - displayWidth env.cw o.subsequentIndent) = some frs) :
    ∃ groups : List (List Word),
      wrapSingleLineSlow env mo o line nPrev = some (specLines o groups 0 nPrev) ∧
      groups.flatten = frs ∧
      ∀ k g, groups[k]? = some g → 2 ≤ g.length →
        displayWidth env.cw (groupSlice g) ≤ o.width - displayWidth env.cw (indentOf o (nPrev + k)) ∧
        Ansi.run .normal (groupSlice g) = .normal := by
  obtain ⟨c1, c2⟩ := pipeline_contig env o (builtin_inRange _ _ hb) line _ frs hpipe
  exact firstfit_line_width env hsp mo o hb halg line nPrev frs hpipe
    (hnorm_of_escfree frs (fun w hw => (c2 w hw).1) (by rw [c1]; exact hesc))

/-- **coloured text**: for safe lines (`SeqSafe`: every space, and every hyphen when the hyphen
    splitter is active, is met in skipper state `normal`; the line ends in state `normal` — e.g.
    any mixture of visible characters and well-formed CSI/OSC sequences that contain no space /
    hyphen) H-norm is a theorem, for both separators and both built-in splitters, `break_words`
    on or off. The complement is the recorded finding classes KF-1a, KF-1b, KF-2. -/
-- @audit TW.C02.firstfit_line_width_safe
theorem firstfit_line_width_safe (env : Env) (hsp : env.cw SP = 1) (mo : MinimaOracle Int) (o : Opts)
    (hb : Builtin o.splitter) (halg : o.alg = .firstFit) (line : Text) (hsafe : SeqSafe o.splitter line)
    (nPrev : Nat) (frs : List Word)
    (hpipe : pipeline env o line (o.width - displayWidth env.cw o.subsequentIndent) = some frs) :
    ∃ groups : List (List Word),
      wrapSingleLineSlow env mo o line nPrev = some (specLines o groups 0 nPrev) ∧
      groups.flatten = frs ∧
      ∀ k g, groups[k]? = some g → 2 ≤ g.length →
        displayWidth env.cw (groupSlice g) ≤ o.width - displayWidth env.cw (indentOf o (nPrev + k)) ∧
        Ansi.run .normal (groupSlice g) = .normal :=
  firstfit_line_width env hsp mo o hb halg line nPrev frs hpipe
    (pipeline_hnorm env o hb line hsafe _ frs hpipe)

/-- **force-broken pieces**: with `break_words`, every fragment handed to the algorithm is at most
    as wide as the subsequent-line width, or holds a single non-zero-width visible character -/
-- @audit TW.C02.broken_fragment_bound
theorem broken_fragment_bound (cw : Char → Nat) (limit : Nat) (ws : List Word)
    (hw : ∀ w ∈ ws, w.width = displayWidth cw w.word) :
    ∀ f ∈ breakWords cw limit ws, f.width ≤ limit ∨ nzFrom cw .normal f.word = 1 := by
  induction ws with
  | nil => intro f hf; simp [breakWords] at hf
  | cons w rest ih =>
    intro f hf
    simp only [breakWords] at hf
    rcases List.mem_append.mp hf with hf | hf
    · split at hf
      · have hok := breakGo_ok cw limit w.ws w.pen .normal [] 0 w.word rfl rfl (Or.inl (Nat.zero_le _))
        exact breakOK_bound cw limit w.ws w.pen _ hok f hf
      · next hle => simp only [List.mem_singleton] at hf; subst hf; left; omega
    · exact ih (fun x hx => hw x (by simp [hx])) f hf
where
  breakOK_bound (cw : Char → Nat) (limit : Nat) (ws pen : Text) (ps : List Word)
      (h : BreakOK cw limit ws pen ps) : ∀ p ∈ ps, p.width ≤ limit ∨ nzFrom cw .normal p.word = 1 := by
    induction ps with
    | nil => simp
    | cons p rest ih =>
      cases rest with
      | nil => intro q hq; simp only [List.mem_singleton] at hq; subst hq; exact h.2.2.2.2
      | cons q r =>
        obtain ⟨_, _, _, _, h5, _, _, _, h9⟩ := h
        intro x hx
        rcases List.mem_cons.mp hx with rfl | hx
        · exact h5
        · exact ih h9 x hx

/-! the repaired defect F1, through the whole model (a test, labelled as such): later paragraphs
    are measured against the subsequent indent -/
example :
    let env : Env := { cw := fun _ => 1, isAlnum := fun c => c.isAlphanum, isWs := fun c => c = ' ', opps := fun _ => [] }
    let o : Opts := { width := 6, initialIndent := [], subsequentIndent := "    ".toList, breakWords := true,
                      sep := .ascii, splitter := .hyphen, alg := .firstFit, lineEnding := .lf }
    (wrap (α := Int) env (fun _ _ => []) o "a\nbb cc dd".toList).map (·.map String.ofList) =
      some ["a", "    bb", "    cc", "    dd"] := by decide

end TW.C02

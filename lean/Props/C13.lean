/-
  C13 — ANSI colour codes do not change where lines break.
  Stage lemmas (in `Lemmas/StripStages.lean`, namespace `TW.C13`): stripping is a homomorphism at
  normal-state cuts, it does not change display widths, it commutes with the Unicode separator
  (same opportunities) and with `break_apart`.
  End to end (`Lemmas/Colour1-3.lean`, this file): coloured text is given as blocks — every
  visible character preceded by a (possibly empty) run of space-free escape sequences, plus a
  trailing run — and every non-empty run is attached to a non-space character. Then the lines of
  the coloured text, with the sequences removed, are the lines of the visible text.
-/
import Lemmas.StripStages
import Lemmas.Colour3
import Lemmas.ColourHyphen
import Props.C14
import Lemmas.LinebreakTable
namespace TW.C13

-- @audit TW.C13.strip_append_normal
-- @audit TW.C13.dw_strip
-- @audit TW.C13.displayWidth_strip
-- @audit TW.C13.break_strip_commute
-- @audit TW.C13.unicode_strip_commute

section
variable {α : Type} [CostNum α]

/-- what the hyphen splitter needs in addition: no sequence touches a hyphen, spaces are met in
    state `normal`, and the opportunities of the visible text are positive -/
def HyphenOk (env : Env) (o : Opts) (bs : List Block) (tl : Text) : Prop :=
  o.splitter = .hyphen →
    NoTouch .normal false (colOf bs tl) ∧ MetNormal (fun c => c == SP) .normal (colOf bs tl) ∧
      ∀ x ∈ env.opps (visOf bs), 0 < x

/-- the fragments of the coloured paragraph are, sequence for sequence, the fragments of the
    visible paragraph (both built-in splitters; both separators; `break_words` on or off) -/
theorem pipeline_colour (env : Env) (o : Opts) (hsp : Builtin o.splitter)
    (bs : List Block) (tl : Text) (hv : ValidB bs tl) (hatt : Attached none bs tl)
    (hinc : (env.opps (visOf bs)).Pairwise (· < ·)) (hhy : HyphenOk env o bs tl) (sw : Nat) (frs : List Word)
    (h : pipeline env o (colOf bs tl) sw = some frs) :
    ∃ frs', pipeline env o (visOf bs) sw = some frs' ∧ AllRel (WR env.cw) frs frs' := by
  unfold pipeline at h ⊢
  -- words
  have hwords : ∀ fw, findWords env o.sep (colOf bs tl) = some fw →
      ∃ fw', findWords env o.sep (visOf bs) = some fw' ∧ AllRel (WR env.cw) fw fw' := by
    intro fw hfw
    cases hs : o.sep with
    | ascii =>
      rw [hs] at hfw
      simp only [findWords, Option.some.injEq] at hfw ⊢
      subst hfw
      exact ⟨_, rfl, findWordsAscii_colour env.cw bs tl hv hatt⟩
    | unicode =>
      rw [hs] at hfw
      simp only [findWords] at hfw ⊢
      exact findWordsUnicode_colour env bs tl hv hatt hinc fw hfw
  split at h
  · simp at h
  · next fw hfw =>
    obtain ⟨fw', hfw', hrel⟩ := hwords fw hfw
    simp only [hfw']
    -- the split stage
    have hsplit : ∀ sws, splitWords env o.splitter fw = some sws →
        ∃ sws', splitWords env o.splitter fw' = some sws' ∧ AllRel (WR env.cw) sws sws' := by
      intro sws hsws
      cases hspl : o.splitter with
      | none =>
        rw [hspl] at hsws
        have hcached : ∀ (a b : List Word), AllRel (WR env.cw) a b →
            (∀ W ∈ a, W.width = displayWidth env.cw W.word) ∧ (∀ W ∈ b, W.width = displayWidth env.cw W.word) := by
          intro a b hab
          induction hab with
          | nil => simp
          | cons h1 _ ih =>
            refine ⟨?_, ?_⟩
            · intro W hW
              rcases List.mem_cons.mp hW with rfl | hW
              · exact h1.2.2.2
              · exact ih.1 W hW
            · intro W hW
              rcases List.mem_cons.mp hW with rfl | hW
              · exact h1.width'
              · exact ih.2 W hW
        obtain ⟨k1, k2⟩ := hcached fw fw' hrel
        rw [splitWords_nopoints env .none fw (fun W hW => ⟨rfl, k1 W hW⟩)] at hsws
        simp only [Option.some.injEq] at hsws; subst hsws
        exact ⟨fw', splitWords_nopoints env .none fw' (fun W hW => ⟨rfl, k2 W hW⟩), hrel⟩
      | hyphen =>
        rw [hspl] at hsws
        obtain ⟨n1, n2, n3⟩ := hhy hspl
        have hs1 : stripAnsi (colOf bs tl) = visOf bs := strip_colOf bs tl hv
        have hwnt := findWords_notouch env o.sep (colOf bs tl) n2 n1 (by rw [hs1]; exact hinc)
          (by rw [hs1]; exact n3) fw hfw
        exact splitWords_colour_hyphen env fw fw' hrel hwnt sws hsws
      | custom f => rw [hspl] at hsp; exact absurd hsp (by simp [Builtin])
    split at h
    · simp at h
    · next sws hsws =>
      obtain ⟨sws', hsws', hrel2⟩ := hsplit sws hsws
      simp only [hsws']
      have hbw := breakWords_colour env.cw sw sws sws' hrel2
      cases hbw' : o.breakWords with
      | false =>
        simp only [hbw', Bool.false_eq_true, if_false, Option.some.injEq] at h ⊢
        subst h
        exact ⟨_, rfl, hrel2⟩
      | true =>
        simp only [hbw', if_true] at h ⊢
        cases hii : o.initialIndent.isEmpty with
        | true =>
          simp only [hii, if_true, Option.some.injEq] at h ⊢
          subst h
          exact ⟨_, rfl, hbw⟩
        | false =>
          simp only [hii, Bool.false_eq_true, if_false, Option.some.injEq] at h ⊢
          subst h
          refine ⟨_, rfl, AllRel.cons ?_ hbw⟩
          exact ⟨by simp [stripW, Word.from, trimEndSp, stripAnsi, stripFrom], by simp [Word.from, trimEndSp, Ansi.run],
            by simp [Word.from, trimEndSp], by simp [Word.from]⟩

/-- **one paragraph, the general path**: the lines of the coloured paragraph — indent, slice,
    inserted penalty — are those of the visible paragraph, with the sequences removed from the
    slices. Both separators, both algorithms (the minima routine is asked the same question in
    both runs), `break_words` on or off, every width and indents, both built-in splitters (for the hyphen splitter: no sequence
    touches a hyphen, `HyphenOk`). -/
-- @audit TW.C13.slow_path_colour
theorem slow_path_colour (env : Env) (mo : MinimaOracle α) (hmo : MoShape mo) (o : Opts)
    (hsp : Builtin o.splitter)
    (bs : List Block) (tl : Text) (hv : ValidB bs tl) (hatt : Attached none bs tl)
    (hinc : (env.opps (visOf bs)).Pairwise (· < ·)) (hhy : HyphenOk env o bs tl) (nPrev : Nat) (dsC : List LineD)
    (h : wrapSingleLineSlow env mo o (colOf bs tl) nPrev = some dsC) :
    ∃ dsV, wrapSingleLineSlow env mo o (visOf bs) nPrev = some dsV ∧
      dsC.map (fun d => (d.indent, stripAnsi d.slice, d.pen)) = dsV.map LineD.parts := by
  have hr : SplitterInRange env.isAlnum o.splitter := builtin_inRange _ _ hsp
  unfold wrapSingleLineSlow at h ⊢
  simp only at h ⊢
  split at h
  · simp at h
  · next frs hp =>
    obtain ⟨frs', hp', hrel⟩ := pipeline_colour env o hsp bs tl hv hatt hinc hhy _ frs hp
    simp only [hp']
    obtain ⟨c1, _⟩ := pipeline_contig env o hr _ _ frs hp
    obtain ⟨c1', _⟩ := pipeline_contig env o hr _ _ frs' hp'
    split at h
    · simp at h
    · next G hg =>
      obtain ⟨G', hg', hG⟩ := wrapAlg_rel (fun a b hab => hab.frag) mo o.alg frs frs' _ hrel G hg
      simp only [hg']
      obtain ⟨p1, _, _, _⟩ := wrapAlg_partition mo hmo o.alg frs _ G hg
      obtain ⟨p1', _, _, _⟩ := wrapAlg_partition mo hmo o.alg frs' _ G' hg'
      rw [reassemble_eq_spec o _ [] G 0 nPrev (by simp [p1, c1]) rfl] at h
      rw [reassemble_eq_spec o _ [] G' 0 nPrev (by simp [p1', c1']) rfl]
      simp only [Option.some.injEq] at h
      subst h
      exact ⟨_, rfl, specLines_colour env.cw o G G' 0 0 nPrev hG⟩

/-- the rendered line with its sequences removed, for indents without ESC -/
theorem strip_render (d : LineD) (hind : ∀ c ∈ d.indent, c ≠ ESC) (hpen : ∀ c ∈ d.pen, c ≠ ESC)
    (hrun : Ansi.run .normal d.slice = .normal) :
    stripAnsi d.render = d.indent ++ stripAnsi d.slice ++ d.pen := by
  unfold LineD.render
  have h1 : Ansi.run .normal d.indent = .normal := run_normal_escfree _ hind
  rw [show d.indent ++ d.slice ++ d.pen = d.indent ++ (d.slice ++ d.pen) by simp,
    strip_append_normal _ _ h1, strip_append_normal _ _ hrun]
  have e1 : stripAnsi d.indent = d.indent := stripFrom_normal_escfree _ hind
  have e2 : stripAnsi d.pen = d.pen := stripFrom_normal_escfree _ hpen
  rw [e1, e2]; simp

end

section
variable {α : Type} [CostNum α]

theorem run_groupSlice (cw : Char → Nat) (g g' : List Word) (h : AllRel (WR cw) g g') :
    Ansi.run .normal (groupSlice g) = .normal := by
  unfold groupSlice
  rcases h.getLast with ⟨h1, _⟩ | ⟨a, b, h1, _, h3, h4⟩
  · simp [h1, Ansi.run]
  · simp only [h1]
    rw [run_append, (strip_wordsText cw _ _ h4).2]
    exact h3.2.1

/-- the same as `slow_path_colour`, on the rendered lines: for indents without ESC, removing
    the sequences from each line of the coloured paragraph gives the lines of the visible one -/
-- @audit TW.C13.slow_path_colour_rendered
theorem slow_path_colour_rendered (env : Env) (mo : MinimaOracle α) (hmo : MoShape mo) (o : Opts)
    (hsp : Builtin o.splitter)
    (hii : ∀ c ∈ o.initialIndent, c ≠ ESC) (hsi : ∀ c ∈ o.subsequentIndent, c ≠ ESC)
    (bs : List Block) (tl : Text) (hv : ValidB bs tl) (hatt : Attached none bs tl)
    (hinc : (env.opps (visOf bs)).Pairwise (· < ·)) (hhy : HyphenOk env o bs tl) (nPrev : Nat) (dsC : List LineD)
    (h : wrapSingleLineSlow env mo o (colOf bs tl) nPrev = some dsC) :
    ∃ dsV, wrapSingleLineSlow env mo o (visOf bs) nPrev = some dsV ∧
      dsC.map (fun d => stripAnsi d.render) = dsV.map LineD.render := by
  obtain ⟨dsV, h1, h2⟩ := slow_path_colour env mo hmo o hsp bs tl hv hatt hinc hhy nPrev dsC h
  refine ⟨dsV, h1, ?_⟩
  -- facts about the coloured lines: slices end in state `normal`, no penalty
  have hb : Builtin o.splitter := hsp
  have hr : SplitterInRange env.isAlnum o.splitter := builtin_inRange _ _ hb
  have hfacts : ∀ d ∈ dsC, Ansi.run .normal d.slice = .normal ∧ d.pen = [] ∧
      (d.indent = o.initialIndent ∨ d.indent = o.subsequentIndent) := by
    unfold wrapSingleLineSlow at h
    simp only at h
    split at h
    · simp at h
    · next frs hp =>
      obtain ⟨frs', hp', hrel⟩ := pipeline_colour env o hsp bs tl hv hatt hinc hhy _ frs hp
      have hnp := pipeline_noPen env o hb _ _ frs hp
      obtain ⟨c1, _⟩ := pipeline_contig env o hr _ _ frs hp
      split at h
      · simp at h
      · next G hg =>
        obtain ⟨G', hg', hG⟩ := wrapAlg_rel (fun a b hab => hab.frag) mo o.alg frs frs' _ hrel G hg
        obtain ⟨p1, _, _, _⟩ := wrapAlg_partition mo hmo o.alg frs _ G hg
        rw [reassemble_eq_spec o _ [] G 0 nPrev (by simp [p1, c1]) rfl] at h
        simp only [Option.some.injEq] at h
        subst h
        intro d hd
        obtain ⟨g, hg0, e1, e2, e3⟩ := specLines_mem o G 0 nPrev d hd
        refine ⟨?_, ?_, e3⟩
        · -- the group is related to some visible group
          have : ∀ (A : List (List Word)) (B : List (List Word)), AllRel (AllRel (WR env.cw)) A B →
              ∀ g ∈ A, ∃ g', AllRel (WR env.cw) g g' := by
            intro A B hAB
            induction hAB with
            | nil => intro g hg; simp at hg
            | cons hab _ ih =>
              intro g hg
              rcases List.mem_cons.mp hg with rfl | hg
              · exact ⟨_, hab⟩
              · exact ih g hg
          obtain ⟨g', hgg⟩ := this G G' hG g hg0
          rw [e1]; exact run_groupSlice env.cw g g' hgg
        · rcases e2 with e2 | ⟨last, hl, e2⟩
          · exact e2
          · rw [e2]
            exact hnp last (by rw [← p1]; exact List.mem_flatten.mpr ⟨g, hg0, hl⟩)
  -- line by line
  have hlen : dsC.length = dsV.length := by simpa using congrArg List.length h2
  apply List.ext_getElem (by simpa using hlen)
  intro i hi1 hi2
  simp only [List.getElem_map]
  have hi1' : i < dsC.length := by simpa using hi1
  have hi2' : i < dsV.length := by simpa using hi2
  have hpart : (fun d : LineD => (d.indent, stripAnsi d.slice, d.pen)) dsC[i] = LineD.parts dsV[i] := by
    have := congrArg (fun l => l[i]?) h2
    simp only [List.getElem?_map, List.getElem?_eq_getElem hi1', List.getElem?_eq_getElem hi2',
      Option.map_some, Option.some.injEq] at this
    exact this
  simp only [LineD.parts, Prod.mk.injEq] at hpart
  obtain ⟨f1, f2, f3⟩ := hfacts dsC[i] (List.getElem_mem hi1')
  have hind : ∀ c ∈ dsC[i].indent, c ≠ ESC := by
    rcases f3 with e | e <;> rw [e]
    · exact hii
    · exact hsi
  rw [strip_render dsC[i] hind (by rw [f2]; simp) f1]
  unfold LineD.render
  rw [hpart.1, hpart.2.1, hpart.2.2]

/-- `wrap` with every paragraph on the general path (no byte-length shortcut) -/
def wrapGeneral (env : Env) (mo : MinimaOracle α) (o : Opts) (text : Text) : Option (List Text) :=
  wrapR (blen o.lineEnding.str) (wrapSingleLineSlow env mo o) (splitEnding o.lineEnding text) 0 0

/-- a coloured paragraph: blocks and trailing run -/
abbrev CPara := List Block × Text

theorem wrapR_colour (env : Env) (mo : MinimaOracle α) (hmo : MoShape mo) (o : Opts)
    (hsp : Builtin o.splitter)
    (hii : ∀ c ∈ o.initialIndent, c ≠ ESC) (hsi : ∀ c ∈ o.subsequentIndent, c ≠ ESC)
    (paras : List CPara)
    (hv : ∀ p ∈ paras, ValidB p.1 p.2 ∧ Attached none p.1 p.2 ∧ LF ∉ colOf p.1 p.2 ∧ LF ∉ visOf p.1 ∧
      (env.opps (visOf p.1)).Pairwise (· < ·) ∧ HyphenOk env o p.1 p.2) :
    ∀ (off off' n : Nat) (ls : List Text),
      wrapR (blen o.lineEnding.str) (wrapSingleLineSlow env mo o) (paras.map fun p => colOf p.1 p.2) off n = some ls →
      wrapR (blen o.lineEnding.str) (wrapSingleLineSlow env mo o) (paras.map fun p => visOf p.1) off' n =
        some (ls.map stripAnsi) := by
  induction paras with
  | nil =>
    intro off off' n ls h
    simp only [List.map_nil, wrapR_nil, Option.some.injEq] at h ⊢
    subst h; rfl
  | cons p r ih =>
    intro off off' n ls h
    simp only [List.map_cons] at h ⊢
    rw [wrapR_cons] at h ⊢
    obtain ⟨v1, v2, _, _, v5, v6⟩ := hv p (by simp)
    cases hs : wrapSingleLineSlow env mo o (colOf p.1 p.2) n with
    | none => rw [hs] at h; simp at h
    | some dsC =>
      obtain ⟨dsV, e1, e2⟩ := slow_path_colour_rendered env mo hmo o hsp hii hsi p.1 p.2 v1 v2 v5 v6 n dsC hs
      rw [hs] at h
      simp only [e1] at h ⊢
      have hlen : dsC.length = dsV.length := by simpa using congrArg List.length e2
      cases hrest : wrapR (blen o.lineEnding.str) (wrapSingleLineSlow env mo o)
          (r.map fun p => colOf p.1 p.2) (off + blen (colOf p.1 p.2) + blen o.lineEnding.str) (n + dsC.length) with
      | none => rw [hrest] at h; simp at h
      | some rr =>
        rw [hrest] at h
        simp only [Option.some.injEq] at h
        have := ih (fun q hq => hv q (by simp [hq])) _ (off' + blen (visOf p.1) + blen o.lineEnding.str) _ rr hrest
        rw [← hlen, this]
        simp only [Option.some.injEq]
        rw [← h, List.map_append, ← e2, List.map_map]
        rfl

/-- **several paragraphs**: wrapping the coloured text and removing the sequences from every
    line gives the lines of the visible text (general path; see `wrap_colour_firstfit_ascii`
    for `wrap` itself) -/
-- @audit TW.C13.wrapGeneral_colour
theorem wrapGeneral_colour (env : Env) (mo : MinimaOracle α) (hmo : MoShape mo) (o : Opts)
    (hsp : Builtin o.splitter)
    (hii : ∀ c ∈ o.initialIndent, c ≠ ESC) (hsi : ∀ c ∈ o.subsequentIndent, c ≠ ESC)
    (paras : List CPara) (hne : paras ≠ [])
    (hv : ∀ p ∈ paras, ValidB p.1 p.2 ∧ Attached none p.1 p.2 ∧ LF ∉ colOf p.1 p.2 ∧ LF ∉ visOf p.1 ∧
      (env.opps (visOf p.1)).Pairwise (· < ·) ∧ HyphenOk env o p.1 p.2)
    (ls : List Text)
    (h : wrapGeneral env mo o (joinWith o.lineEnding.str (paras.map fun p => colOf p.1 p.2)) = some ls) :
    wrapGeneral env mo o (joinWith o.lineEnding.str (paras.map fun p => visOf p.1)) = some (ls.map stripAnsi) := by
  unfold wrapGeneral at h ⊢
  rw [C14.join_split o.lineEnding _ (by simpa using hne) (by
    intro l hl; obtain ⟨p, hp, rfl⟩ := List.mem_map.mp hl; exact (hv p hp).2.2.1)] at h
  rw [C14.join_split o.lineEnding _ (by simpa using hne) (by
    intro l hl; obtain ⟨p, hp, rfl⟩ := List.mem_map.mp hl; exact (hv p hp).2.2.2.1)]
  exact wrapR_colour env mo hmo o hsp hii hsi paras hv 0 0 0 ls h

end

/-- **`wrap` itself, first-fit, ASCII separator**: the byte-length shortcut is unobservable
    (C05), so the statement holds for `wrap` on every such coloured text, every width and
    indents without ESC, `break_words` on or off -/
-- @audit TW.C13.wrap_colour_firstfit_ascii
theorem wrap_colour_firstfit_ascii (env : Env) (hcw : ∀ c, env.cw c ≤ c.utf8Size)
    (mo : MinimaOracle Int) (hmo : MoShape mo) (o : Opts)
    (hsp : Builtin o.splitter) (halg : o.alg = .firstFit) (hsep : o.sep = .ascii)
    (hii : ∀ c ∈ o.initialIndent, c ≠ ESC) (hsi : ∀ c ∈ o.subsequentIndent, c ≠ ESC)
    (paras : List CPara) (hne : paras ≠ [])
    (hv : ∀ p ∈ paras, ValidB p.1 p.2 ∧ Attached none p.1 p.2 ∧ LF ∉ colOf p.1 p.2 ∧ LF ∉ visOf p.1 ∧
      (env.opps (visOf p.1)).Pairwise (· < ·) ∧ HyphenOk env o p.1 p.2)
    (ls : List Text)
    (h : wrap env mo o (joinWith o.lineEnding.str (paras.map fun p => colOf p.1 p.2)) = some ls) :
    wrap env mo o (joinWith o.lineEnding.str (paras.map fun p => visOf p.1)) = some (ls.map stripAnsi) := by
  have hb : Builtin o.splitter := hsp
  rw [C05.wrap_shortcut_unobservable_ascii env hcw mo o hb halg hsep] at h ⊢
  exact wrapGeneral_colour env mo hmo o hsp hii hsi paras hne hv ls h

/-- **`wrap` itself, every algorithm, both separators**: relative to the external contracts of
    `smawk` and `unicode_linebreak` for the paragraphs shorter than the width
    (`C05.ShortcutContracts`, validated by the harness on every call), the byte-length shortcut is
    unobservable on the coloured and on the visible text, so the statement holds for `wrap` -/
-- @audit TW.C13.wrap_colour
theorem wrap_colour (env : Env) (hcw : ∀ c, env.cw c ≤ c.utf8Size)
    (mo : MinimaOracle Int) (hmo : MoShape mo) (o : Opts) (hsp : Builtin o.splitter)
    (hii : ∀ c ∈ o.initialIndent, c ≠ ESC) (hsi : ∀ c ∈ o.subsequentIndent, c ≠ ESC)
    (paras : List CPara) (hne : paras ≠ [])
    (hv : ∀ p ∈ paras, ValidB p.1 p.2 ∧ Attached none p.1 p.2 ∧ LF ∉ colOf p.1 p.2 ∧ LF ∉ visOf p.1 ∧
      (env.opps (visOf p.1)).Pairwise (· < ·) ∧ HyphenOk env o p.1 p.2)
    (hcc : ∀ p ∈ paras, blen (colOf p.1 p.2) < o.width → C05.ShortcutContracts env mo o (colOf p.1 p.2))
    (hcv : ∀ p ∈ paras, blen (visOf p.1) < o.width → C05.ShortcutContracts env mo o (visOf p.1))
    (ls : List Text)
    (h : wrap env mo o (joinWith o.lineEnding.str (paras.map fun p => colOf p.1 p.2)) = some ls) :
    wrap env mo o (joinWith o.lineEnding.str (paras.map fun p => visOf p.1)) = some (ls.map stripAnsi) := by
  have hb : Builtin o.splitter := hsp
  rw [C05.wrap_shortcut_unobservable env hcw mo o hb _ (by
    rw [C14.join_split o.lineEnding _ (by simpa using hne) (by
      intro l hl; obtain ⟨p, hp, rfl⟩ := List.mem_map.mp hl; exact (hv p hp).2.2.1)]
    intro q hq; obtain ⟨p, hp, rfl⟩ := List.mem_map.mp hq; exact hcc p hp)] at h
  rw [C05.wrap_shortcut_unobservable env hcw mo o hb _ (by
    rw [C14.join_split o.lineEnding _ (by simpa using hne) (by
      intro l hl; obtain ⟨p, hp, rfl⟩ := List.mem_map.mp hl; exact (hv p hp).2.2.2.1)]
    intro q hq; obtain ⟨p, hp, rfl⟩ := List.mem_map.mp hq; exact hcv p hp)]
  exact wrapGeneral_colour env mo hmo o hsp hii hsi paras hne hv ls h

/-- **`wrap` itself, ASCII separator, first-fit or optimal-fit (any penalties with
    `nline_penalty > 0`) — no external contract at all**: the model runs `smawk`'s own algorithm
    (`ownMinima`), proved to return column minima of textwrap's cost matrix, so the `smawk`
    clauses of `wrap_colour` are theorems -/
-- @audit TW.C13.wrap_colour_own_ascii
theorem wrap_colour_own_ascii (env : Env) (hcw : ∀ c, env.cw c ≤ c.utf8Size)
    (o : Opts) (hsp : Builtin o.splitter) (hsep : o.sep = .ascii) (pen0 : Penalties)
    (halg : o.alg = .firstFit ∨ (o.alg = .optimalFit pen0 ∧ 0 < pen0.nline))
    (hii : ∀ c ∈ o.initialIndent, c ≠ ESC) (hsi : ∀ c ∈ o.subsequentIndent, c ≠ ESC)
    (paras : List CPara) (hne : paras ≠ [])
    (hv : ∀ p ∈ paras, ValidB p.1 p.2 ∧ Attached none p.1 p.2 ∧ LF ∉ colOf p.1 p.2 ∧ LF ∉ visOf p.1 ∧
      (env.opps (visOf p.1)).Pairwise (· < ·) ∧ HyphenOk env o p.1 p.2)
    (ls : List Text)
    (h : wrap env (ownMinima (α := Int) pen0) o (joinWith o.lineEnding.str (paras.map fun p => colOf p.1 p.2)) = some ls) :
    wrap env (ownMinima (α := Int) pen0) o (joinWith o.lineEnding.str (paras.map fun p => visOf p.1)) =
      some (ls.map stripAnsi) :=
  wrap_colour env hcw _ (fun frs lws => ownMinima_rowsShape pen0 frs lws) o hsp hii hsi paras hne hv
    (fun p _ _ => C05.shortcutContracts_own env o hsp pen0 halg _ (fun hu => by rw [hsep] at hu; cases hu))
    (fun p _ _ => C05.shortcutContracts_own env o hsp pen0 halg _ (fun hu => by rw [hsep] at hu; cases hu))
    ls h

/-- **`wrap` itself, both separators, with the model's own `smawk`**: what is left of the external
    contracts is the `unicode_linebreak` clause (LB7 + char boundaries) for the paragraphs shorter
    than the width, on the coloured and on the visible text -/
-- @audit TW.C13.wrap_colour_own
theorem wrap_colour_own (env : Env) (hcw : ∀ c, env.cw c ≤ c.utf8Size)
    (o : Opts) (hsp : Builtin o.splitter) (pen0 : Penalties)
    (halg : o.alg = .firstFit ∨ (o.alg = .optimalFit pen0 ∧ 0 < pen0.nline))
    (hii : ∀ c ∈ o.initialIndent, c ≠ ESC) (hsi : ∀ c ∈ o.subsequentIndent, c ≠ ESC)
    (paras : List CPara) (hne : paras ≠ [])
    (hv : ∀ p ∈ paras, ValidB p.1 p.2 ∧ Attached none p.1 p.2 ∧ LF ∉ colOf p.1 p.2 ∧ LF ∉ visOf p.1 ∧
      (env.opps (visOf p.1)).Pairwise (· < ·) ∧ HyphenOk env o p.1 p.2)
    (hu : ∀ t : Text, o.sep = .unicode →
      OppsNoSpace (stripAnsi t) (env.opps (stripAnsi t)) ∧
      ∀ o' ∈ env.opps (stripAnsi t), o' < blen (stripAnsi t) → ∃ l r, stripAnsi t = l ++ r ∧ blen l = o')
    (ls : List Text)
    (h : wrap env (ownMinima (α := Int) pen0) o (joinWith o.lineEnding.str (paras.map fun p => colOf p.1 p.2)) = some ls) :
    wrap env (ownMinima (α := Int) pen0) o (joinWith o.lineEnding.str (paras.map fun p => visOf p.1)) =
      some (ls.map stripAnsi) :=
  wrap_colour env hcw _ (fun frs lws => ownMinima_rowsShape pen0 frs lws) o hsp hii hsi paras hne hv
    (fun p _ _ => C05.shortcutContracts_own env o hsp pen0 halg _ (hu _))
    (fun p _ _ => C05.shortcutContracts_own env o hsp pen0 halg _ (hu _))
    ls h

/-- **`wrap` of coloured text, both separators, both algorithms, with no contract of an external
    crate**: `smawk`'s algorithm and `unicode_linebreak`'s scan (on the compiled tables) are inside
    the model; for the Unicode separator the visible text must be free of hard-line-break
    characters (`HardFree`, where LB7 is a theorem) -/
-- @audit TW.C13.wrap_colour_ownlb
theorem wrap_colour_ownlb (env : Env) (henv : env.opps = ownOpps lbTables) (hcw : ∀ c, env.cw c ≤ c.utf8Size)
    (o : Opts) (hsp : Builtin o.splitter) (pen0 : Penalties)
    (halg : o.alg = .firstFit ∨ (o.alg = .optimalFit pen0 ∧ 0 < pen0.nline))
    (hii : ∀ c ∈ o.initialIndent, c ≠ ESC) (hsi : ∀ c ∈ o.subsequentIndent, c ≠ ESC)
    (paras : List CPara) (hne : paras ≠ [])
    (hv : ∀ p ∈ paras, ValidB p.1 p.2 ∧ Attached none p.1 p.2 ∧ LF ∉ colOf p.1 p.2 ∧ LF ∉ visOf p.1 ∧
      HyphenOk env o p.1 p.2 ∧ (o.sep = .unicode → HardFree (visOf p.1)))
    (ls : List Text)
    (h : wrap env (ownMinima (α := Int) pen0) o (joinWith o.lineEnding.str (paras.map fun p => colOf p.1 p.2)) = some ls) :
    wrap env (ownMinima (α := Int) pen0) o (joinWith o.lineEnding.str (paras.map fun p => visOf p.1)) =
      some (ls.map stripAnsi) := by
  refine wrap_colour env hcw _ (fun frs lws => ownMinima_rowsShape pen0 frs lws) o hsp hii hsi paras hne
    (fun p hp => ?_) (fun p hp _ => ?_) (fun p hp _ => ?_) ls h
  · obtain ⟨h1, h2, h3, h4, h5, _⟩ := hv p hp
    exact ⟨h1, h2, h3, h4, by rw [henv]; exact ownOpps_pairwise _ _, h5⟩
  · obtain ⟨h1, _, _, _, _, h6⟩ := hv p hp
    refine C05.shortcutContracts_own env o hsp pen0 halg _ (fun hs => ⟨?_, boundary_own env lbTables henv _⟩)
    rw [strip_colOf p.1 p.2 h1]
    exact oppsNoSpace_own env henv _ (h6 hs)
  · obtain ⟨h1, _, _, _, _, h6⟩ := hv p hp
    refine C05.shortcutContracts_own env o hsp pen0 halg _ (fun hs => ⟨?_, boundary_own env lbTables henv _⟩)
    have hs2 : stripAnsi (visOf p.1) = visOf p.1 := stripFrom_normal_escfree _ (visOf_noEsc p.1 p.2 h1)
    rw [hs2]
    exact oppsNoSpace_own env henv _ (h6 hs)

/-! the hypotheses are satisfiable: a coloured sentence (a test, labelled as such) -/
example :
    let bs : List Block := [("\x1b[1;31m".toList, 'a'), ([], 'b'), ("\x1b[0m".toList, ' '), ([], 'c')]
    ValidB bs "\x1b[m".toList ∧ Attached none bs "\x1b[m".toList ∧
      colOf bs "\x1b[m".toList = "\x1b[1;31mab\x1b[0m c\x1b[m".toList ∧ visOf bs = "ab c".toList := by
  refine ⟨⟨?_, ?_⟩, ?_, rfl, rfl⟩
  · intro b hb
    simp only [List.mem_cons, List.mem_nil_iff, or_false] at hb
    rcases hb with rfl | rfl | rfl | rfl <;> exact ⟨⟨by decide, by decide, by decide⟩, by decide⟩
  · exact ⟨by decide, by decide, by decide⟩
  · simp only [Attached]
    exact ⟨Or.inr (Or.inl (by decide)), Or.inl trivial, Or.inr (Or.inr ⟨'b', rfl, by decide⟩), Or.inl trivial, Or.inr ⟨'c', rfl, by decide⟩⟩

end TW.C13

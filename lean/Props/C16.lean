/-
  C16 — refill equals filling the original paragraph at the new width.
  Proved relative to C15's round trip (`unfill (fill o₁ p ++ trail) = p ++ trail` with `o₁`'s
  indents and line ending), which enters as an explicit hypothesis on `unfill`'s result.
-/
import TextwrapModel.Refill
import Lemmas.Split
namespace TW.C16

theorem isSuffixOf_append_self (p e : Text) : e.isSuffixOf (p ++ e) = true := by
  rw [List.isSuffixOf_iff_suffix]; exact List.suffix_append p e

theorem stripSuffix_append (p e : Text) : stripSuffix? (p ++ e) e = some p := by
  unfold stripSuffix?
  rw [isSuffixOf_append_self]
  simp

theorem stripSuffix_none (p e : Text) (hno : LF ∉ p) (he : e.getLast? = some LF) : stripSuffix? p e = none := by
  unfold stripSuffix?
  have : e.isSuffixOf p = false := by
    cases h : e.isSuffixOf p with
    | false => rfl
    | true =>
      exfalso
      have hs : e <:+ p := List.isSuffixOf_iff_suffix.mp h
      obtain ⟨t, rfl⟩ := hs
      apply hno
      have := List.mem_of_getLast? he
      simp [this]
  simp [this]

section
variable {α : Type} [CostNum α]

/-- **refill = fill at the new width.** If `unfill` recovers the paragraph `p` (no line break
    inside), the indents and the line ending `le₁` from the filled text — C15's round trip —
    then `refill` with options `o₂` returns `fill(p, o₂ with the recovered indents)`, followed by
    `o₂`'s line ending exactly when the filled text ended in `le₁`. In particular the result does
    not depend on the width at which the input had been filled (it enters only through
    `unfill`'s result, which does not mention it). -/
-- @audit TW.C16.refill_fill
theorem refill_fill (env : Env) (mo : MinimaOracle α) (o2 : Opts) (filled p ii si : Text) (w : Nat)
    (le1 : LineEnding) (trailing : Bool) (hp : LF ∉ p)
    (hu : unfill env.cw filled = some (Unfilled.mk (p ++ (if trailing then le1.str else [])) w ii si le1)) :
    refill env mo o2 filled =
      (fill env mo { o2 with initialIndent := ii, subsequentIndent := si } p).map
        (· ++ (if trailing then o2.lineEnding.str else [])) := by
  unfold refill
  simp only [hu]
  have hle : le1.str.getLast? = some LF := by cases le1 <;> rfl
  cases trailing with
  | true =>
    simp only [if_true, stripSuffix_append, Option.getD_some, Option.isSome_some]
    cases fill env mo { o2 with initialIndent := ii, subsequentIndent := si } p <;> rfl
  | false =>
    simp only [Bool.false_eq_true, if_false, List.append_nil, stripSuffix_none p le1.str hp hle, Option.getD_none,
      Option.isSome_none]
    cases fill env mo { o2 with initialIndent := ii, subsequentIndent := si } p <;> simp

/-- all four line-ending conversions: the new ending is `o₂`'s, whatever the detected one was -/
-- @audit TW.C16.refill_ending
theorem refill_ending (env : Env) (mo : MinimaOracle α) (o2 : Opts) (filled p ii si : Text) (w : Nat)
    (le1 : LineEnding) (hp : LF ∉ p) (r : Text)
    (hu : unfill env.cw filled = some (Unfilled.mk (p ++ le1.str) w ii si le1))
    (hr : refill env mo o2 filled = some r) : endsWith r o2.lineEnding.str = true := by
  have := refill_fill env mo o2 filled p ii si w le1 true hp (by simpa using hu)
  rw [this] at hr
  cases hf : fill env mo { o2 with initialIndent := ii, subsequentIndent := si } p with
  | none => simp [hf] at hr
  | some f =>
    simp only [hf, Option.map_some, if_true, Option.some.injEq] at hr
    subst hr
    exact isSuffixOf_append_self f _

end
end TW.C16

/-
  C16 — refill equals filling the original paragraph at the new width.
  `refill_fill`: relative to an `unfill` result given as hypothesis; `refill_of_fill`: with C15's
  round trip (`unfill_fill`) discharging that hypothesis.
-/
import TextwrapModel.Refill
import Lemmas.Split
import Props.C15
namespace TW.C16

theorem isSuffixOf_append_self (p e : Text) : e.isSuffixOf (p ++ e) = true := by
  rw [List.isSuffixOf_iff_suffix]; exact List.suffix_append p e

theorem stripSuffix_append (p e : Text) : stripSuffix? (p ++ e) e = some p := by
  unfold stripSuffix?
  rw [isSuffixOf_append_self]
  simp

theorem stripSuffix_none (p e : Text) (hno : LF ∉ p) (he : e.getLast? = some LF) : stripSuffix? p e = none := by
  unfold stripSuffix?
  have : e.isSuffixOf p = false := by
    cases h : e.isSuffixOf p with
    | false => rfl
    | true =>
      exfalso
      have hs : e <:+ p := List.isSuffixOf_iff_suffix.mp h
      obtain ⟨t, rfl⟩ := hs
      apply hno
      have := List.mem_of_getLast? he
      simp [this]
  simp [this]

section
variable {α : Type} [CostNum α]

/-- **refill = fill at the new width.** If `unfill` recovers the paragraph `p` (no line break
    inside), the indents and the line ending `le₁` from the filled text — C15's round trip —
    then `refill` with options `o₂` returns `fill(p, o₂ with the recovered indents)`, followed by
    `o₂`'s line ending exactly when the filled text ended in `le₁`. In particular the result does
    not depend on the width at which the input had been filled (it enters only through
    `unfill`'s result, which does not mention it). -/
-- @audit TW.C16.refill_fill
theorem refill_fill (env : Env) (mo : MinimaOracle α) (o2 : Opts) (filled p ii si : Text) (w : Nat)
    (le1 : LineEnding) (trailing : Bool) (hp : LF ∉ p)
    (hu : unfill env.cw filled = some (Unfilled.mk (p ++ (if trailing then le1.str else [])) w ii si le1)) :
    refill env mo o2 filled =
      (fill env mo { o2 with initialIndent := ii, subsequentIndent := si } p).map
        (· ++ (if trailing then o2.lineEnding.str else [])) := by
  unfold refill
  simp only [hu]
  have hle : le1.str.getLast? = some LF := by cases le1 <;> rfl
  cases trailing with
  | true =>
    simp only [if_true, stripSuffix_append, Option.getD_some, Option.isSome_some]
    cases fill env mo { o2 with initialIndent := ii, subsequentIndent := si } p <;> rfl
  | false =>
    simp only [Bool.false_eq_true, if_false, List.append_nil, stripSuffix_none p le1.str hp hle, Option.getD_none,
      Option.isSome_none]
    cases fill env mo { o2 with initialIndent := ii, subsequentIndent := si } p <;> simp

/-- all four line-ending conversions: the new ending is `o₂`'s, whatever the detected one was -/
-- @audit TW.C16.refill_ending
theorem refill_ending (env : Env) (mo : MinimaOracle α) (o2 : Opts) (filled p ii si : Text) (w : Nat)
    (le1 : LineEnding) (hp : LF ∉ p) (r : Text)
    (hu : unfill env.cw filled = some (Unfilled.mk (p ++ le1.str) w ii si le1))
    (hr : refill env mo o2 filled = some r) : endsWith r o2.lineEnding.str = true := by
  have := refill_fill env mo o2 filled p ii si w le1 true hp (by simpa using hu)
  rw [this] at hr
  cases hf : fill env mo { o2 with initialIndent := ii, subsequentIndent := si } p with
  | none => simp [hf] at hr
  | some f =>
    simp only [hf, Option.map_some, if_true, Option.some.injEq] at hr
    subst hr
    exact isSuffixOf_append_self f _

/-- **`refill(fill(t, o₁), o₂) = fill(t, o₂ with o₁'s indents)`** for a paragraph `t` of
    single-spaced words that do not begin with prefix characters, `o₁` with indents made of prefix
    characters and breaks at spaces only, whenever the filled form has at least two lines; `o₂`
    is arbitrary (any width, algorithm, separator, line ending). A trailing line ending is
    preserved and converted to `o₂`'s. The right-hand side does not mention `o₁`'s width. -/
-- @audit TW.C16.refill_of_fill
theorem refill_of_fill (env : Env) (mo : MinimaOracle α) (hmo : MoShape mo) (o1 o2 : Opts)
    (hsep : o1.sep = .ascii) (hbw : o1.breakWords = false)
    (hii : o1.initialIndent.all isPrefixChar = true) (hsi : o1.subsequentIndent.all isPrefixChar = true)
    (ws : List Text) (hne : ws ≠ []) (hws : ∀ w ∈ ws, WordOk w)
    (hpts : ∀ w ∈ ws, o1.splitter.points env.isAlnum w = [])
    (filled : Text) (hf : fill env mo o1 (joinWith [SP] ws) = some filled)
    (ls : List Text) (hw : wrap env mo o1 (joinWith [SP] ws) = some ls) (h2 : 2 ≤ ls.length) :
    refill env mo o2 filled =
      fill env mo { o2 with initialIndent := o1.initialIndent, subsequentIndent := o1.subsequentIndent }
        (joinWith [SP] ws) ∧
    refill env mo o2 (filled ++ o1.lineEnding.str) =
      (fill env mo { o2 with initialIndent := o1.initialIndent, subsequentIndent := o1.subsequentIndent }
        (joinWith [SP] ws)).map (· ++ o2.lineEnding.str) := by
  obtain ⟨ls', hw', _, u1, u2⟩ := C15.unfill_fill env mo hmo o1 hsep hbw hii hsi ws hne hws hpts filled hf
  rw [hw] at hw'
  simp only [Option.some.injEq] at hw'
  subst hw'
  have hn : ¬ ls.length ≤ 1 := by omega
  simp only [hn, if_false] at u1 u2
  have hlf := (C15.para_chars ws hws).1
  constructor
  · have := refill_fill env mo o2 filled (joinWith [SP] ws) o1.initialIndent o1.subsequentIndent
      (maxWidth env.cw 0 ls) o1.lineEnding false hlf (by simpa using u1)
    rw [this]
    cases fill env mo { o2 with initialIndent := o1.initialIndent, subsequentIndent := o1.subsequentIndent }
      (joinWith [SP] ws) <;> simp
  · exact refill_fill env mo o2 (filled ++ o1.lineEnding.str) (joinWith [SP] ws) o1.initialIndent
      o1.subsequentIndent (maxWidth env.cw 0 ls) o1.lineEnding true hlf (by simpa using u2)

/-- consequently the result of `refill` does not depend on the width (or algorithm) at which
    its input had been filled -/
-- @audit TW.C16.refill_width_independent
theorem refill_width_independent (env : Env) (mo : MinimaOracle α) (hmo : MoShape mo) (o1 o1' o2 : Opts)
    (hind : o1'.initialIndent = o1.initialIndent ∧ o1'.subsequentIndent = o1.subsequentIndent)
    (hsep : o1.sep = .ascii) (hbw : o1.breakWords = false) (hsep' : o1'.sep = .ascii) (hbw' : o1'.breakWords = false)
    (hii : o1.initialIndent.all isPrefixChar = true) (hsi : o1.subsequentIndent.all isPrefixChar = true)
    (ws : List Text) (hne : ws ≠ []) (hws : ∀ w ∈ ws, WordOk w)
    (hpts : ∀ w ∈ ws, o1.splitter.points env.isAlnum w = [])
    (hpts' : ∀ w ∈ ws, o1'.splitter.points env.isAlnum w = [])
    (f f' : Text) (hf : fill env mo o1 (joinWith [SP] ws) = some f)
    (hf' : fill env mo o1' (joinWith [SP] ws) = some f')
    (ls ls' : List Text) (hw : wrap env mo o1 (joinWith [SP] ws) = some ls) (h2 : 2 ≤ ls.length)
    (hw' : wrap env mo o1' (joinWith [SP] ws) = some ls') (h2' : 2 ≤ ls'.length) :
    refill env mo o2 f = refill env mo o2 f' := by
  rw [(refill_of_fill env mo hmo o1 o2 hsep hbw hii hsi ws hne hws hpts f hf ls hw h2).1,
    (refill_of_fill env mo hmo o1' o2 hsep' hbw' (by rw [hind.1]; exact hii) (by rw [hind.2]; exact hsi)
      ws hne hws hpts' f' hf' ls' hw' h2').1, hind.1, hind.2]

end
end TW.C16

/-
  C05 — text that already fits is returned unchanged; the shortcut path is unobservable.
  (First-fit part; the optimal-fit part rests on C03 and is added below it.)
-/
import Lemmas.PipelineFacts
import Lemmas.HNormPipeline
import Lemmas.LastOkUnicode
import Lemmas.OptimalOneLine
import Lemmas.OptimalOwn
import Lemmas.InplaceWrap
import Lemmas.Ansi
import TextwrapModel.Tables
import Lemmas.LinebreakTable
namespace TW.C05

theorem trimEndSp_append_spaces (x sp : Text) (h : ∀ c ∈ sp, c = SP) : trimEndSp (x ++ sp) = trimEndSp x := by
  induction x with
  | nil =>
    induction sp with
    | nil => rfl
    | cons c cs ih =>
      have hc : c = SP := h c (by simp)
      have := ih (fun d hd => h d (by simp [hd]))
      simp only [List.nil_append] at this ⊢
      rw [trimEndSp_cons, this]; simp [trimEndSp, hc]
  | cons c cs ih => simp only [List.cons_append]; rw [trimEndSp_cons, trimEndSp_cons, ih]

theorem trimEndSp_id (x : Text) (h : x.getLast? ≠ some SP) : trimEndSp x = x := by
  induction x with
  | nil => rfl
  | cons c cs ih =>
    rw [trimEndSp_cons]
    cases cs with
    | nil =>
      simp only [List.getLast?_singleton, ne_eq, Option.some.injEq] at h
      simp [trimEndSp, h]
    | cons d ds =>
      rw [List.getLast?_cons_cons] at h
      have := ih h
      rw [this]; simp

/-- the slice of a line that holds *all* fragments is the line without its trailing spaces -/
theorem groupSlice_all (cw : Char → Nat) (frs : List Word) (hok : ∀ w ∈ frs, FragOk cw w) (hl : LastOk frs) :
    groupSlice frs = trimEndSp (wordsText frs) := by
  rw [group_text frs]
  have hgap : ∀ c ∈ groupGap frs, c = SP := groupGap_spaces cw frs hok
  rw [trimEndSp_append_spaces _ _ hgap]
  symm
  apply trimEndSp_id
  unfold groupSlice
  cases hlast : frs.getLast? with
  | none => simp
  | some last =>
    obtain ⟨ys, rfl⟩ := List.getLast?_eq_some_iff.mp hlast
    simp only [List.dropLast_concat]
    obtain ⟨h1, h2⟩ := hl ys last rfl
    by_cases hw : last.word = []
    · rw [hw, h2 hw]; simp
    · rw [getLast?_append_of_ne_nil _ _ hw]; exact h1

/-- the indent the first line of a paragraph carries when `nPrev` lines precede it -/
def indentOf (o : Opts) (nPrev : Nat) : Text := if nPrev = 0 then o.initialIndent else o.subsequentIndent

/-- **first-fit, slow path: a paragraph that fits comes back as one line.** Hypotheses: ' ' is
    one column wide (table obligation), built-in splitter (no inserted hyphens), H-norm of the
    fragments (every fragment boundary in skipper state `normal`; a theorem for ESC-free text —
    `hnorm_of_escfree` — and exactly what fails in the known-finding classes KF-1/KF-2), and
    `display_width(indent) + display_width(paragraph) ≤ width`. -/
-- @audit TW.C05.fits_one_line_firstfit
theorem fits_one_line_firstfit (env : Env) (hsp : env.cw SP = 1) (mo : MinimaOracle Int) (o : Opts)
    (hb : Builtin o.splitter) (halg : o.alg = .firstFit) (line : Text) (nPrev : Nat) (frs : List Word)
    (hpipe : pipeline env o line (o.width - displayWidth env.cw o.subsequentIndent) = some frs)
    (hn : HNorm frs)
    (hfit : displayWidth env.cw (indentOf o nPrev) + displayWidth env.cw line ≤ o.width) :
    wrapSingleLineSlow env mo o line nPrev = some (specLines o [frs] 0 nPrev) := by
  obtain ⟨c1, c2⟩ := pipeline_contig env o (builtin_inRange _ _ hb) line _ frs hpipe
  have hnp := pipeline_noPen env o hb line _ frs hpipe
  obtain ⟨a1, _⟩ := hnorm_additive env.cw hsp frs hn (fun w hw => (c2 w hw).2)
  unfold wrapSingleLineSlow
  simp only [hpipe, halg, wrapAlg]
  have hone : wrapFirstFit (fragOf (α := Int)) frs
      (List.map CostNum.ofNat [if nPrev = 0 then o.width - displayWidth env.cw o.initialIndent
                                else o.width - displayWidth env.cw o.subsequentIndent,
                               o.width - displayWidth env.cw o.subsequentIndent]) = [frs] := by
    unfold wrapFirstFit
    generalize hlws : (List.map (CostNum.ofNat (α := Int)) [if nPrev = 0 then o.width - displayWidth env.cw o.initialIndent
                                else o.width - displayWidth env.cw o.subsequentIndent,
                               o.width - displayWidth env.cw o.subsequentIndent]) = lws
    have := ffGo_one_line lws (defaultLw lws) 0 [] frs 0 (by simp) hnp ?_
    · simpa using this
    · subst hlws
      simp only [fragSum_nil, Nat.zero_add, List.map_cons, List.getD_cons_zero, ofNat_int]
      rw [← a1, c1]
      unfold indentOf at hfit
      simp only [displayWidth] at hfit ⊢
      split <;> simp_all <;> omega
  rw [hone]
  exact reassemble_eq_spec o line [] [frs] 0 nPrev (by simp [c1]) rfl

/-- what that one line is: the indent followed by the paragraph with trailing spaces removed -/
-- @audit TW.C05.one_line_render
theorem one_line_render (env : Env) (o : Opts) (line : Text) (nPrev : Nat) (frs : List Word)
    (hok : ∀ w ∈ frs, FragOk env.cw w) (hl : LastOk frs) (hnp : NoPen frs) (ht : wordsText frs = line) :
    (specLines o [frs] 0 nPrev).map LineD.render = [indentOf o nPrev ++ trimEndSp line] := by
  simp only [specLines]
  cases hlast : frs.getLast? with
  | none =>
    have : frs = [] := List.getLast?_eq_none_iff.mp hlast
    subst this
    simp only [wordsText_nil] at ht
    subst ht
    simp [LineD.render, indentOf, trimEndSp]
  | some last =>
    have hp : last.pen = [] := hnp last (List.mem_of_getLast? hlast)
    simp only [List.map_cons, List.map_nil, LineD.render, hp, List.append_nil, indentOf]
    rw [groupSlice_all env.cw frs hok hl, ht]

/-- **the shortcut is sound (first-fit)**: when `wrap_single_line` takes its byte-length
    shortcut (`line.len() < width`, empty indent), the general path would have returned the same
    line — because `display_width ≤ byte length` for every text (C10). -/
-- @audit TW.C05.shortcut_sound_firstfit
theorem shortcut_sound_firstfit (env : Env) (hsp : env.cw SP = 1) (hcw : ∀ c, env.cw c ≤ c.utf8Size)
    (mo : MinimaOracle Int) (o : Opts) (hb : Builtin o.splitter) (halg : o.alg = .firstFit)
    (line : Text) (nPrev : Nat) (frs : List Word)
    (hpipe : pipeline env o line (o.width - displayWidth env.cw o.subsequentIndent) = some frs)
    (hn : HNorm frs) (hl : LastOk frs)
    (hshort : blen line < o.width ∧ (indentOf o nPrev).isEmpty = true) :
    (wrapSingleLineSlow env mo o line nPrev).map (·.map LineD.render) =
      (wrapSingleLine env mo o line nPrev).map (·.map LineD.render) := by
  have hind : indentOf o nPrev = [] := by simpa using hshort.2
  have hdw : displayWidth env.cw line ≤ blen line := dwFrom_le_blen env.cw hcw .normal line
  obtain ⟨c1, c2⟩ := pipeline_contig env o (builtin_inRange _ _ hb) line _ frs hpipe
  have hnp := pipeline_noPen env o hb line _ frs hpipe
  rw [fits_one_line_firstfit env hsp mo o hb halg line nPrev frs hpipe hn
    (by rw [hind]; simp [displayWidth, dwFrom]; unfold displayWidth at hdw; omega)]
  unfold wrapSingleLine
  have hc : blen line < o.width ∧ (if nPrev = 0 then o.initialIndent else o.subsequentIndent).isEmpty = true := hshort
  rw [if_pos hc]
  simp only [Option.map_some, Option.some.injEq]
  rw [one_line_render env o line nPrev frs c2 hl hnp c1, hind]
  simp [LineD.render]

/-- for the ASCII separator `LastOk` is a theorem, and for ESC-free text so is H-norm: the
    shortcut is sound unconditionally there -/
-- @audit TW.C05.shortcut_sound_ascii_escfree
theorem shortcut_sound_ascii_escfree (env : Env) (hsp : env.cw SP = 1) (hcw : ∀ c, env.cw c ≤ c.utf8Size)
    (mo : MinimaOracle Int) (o : Opts) (hb : Builtin o.splitter) (halg : o.alg = .firstFit)
    (hsep : o.sep = .ascii) (line : Text) (hesc : ∀ c ∈ line, c ≠ ESC) (nPrev : Nat)
    (hshort : blen line < o.width ∧ (indentOf o nPrev).isEmpty = true) :
    (wrapSingleLineSlow env mo o line nPrev).map (·.map LineD.render) =
      (wrapSingleLine env mo o line nPrev).map (·.map LineD.render) := by
  -- the pipeline is total for the ASCII separator and a built-in splitter
  cases hp : pipeline env o line (o.width - displayWidth env.cw o.subsequentIndent) with
  | none =>
    exfalso
    exact pipeline_ascii_total env o hsep hb line _ hp
  | some frs =>
    obtain ⟨c1, c2⟩ := pipeline_contig env o (builtin_inRange _ _ hb) line _ frs hp
    exact shortcut_sound_firstfit env hsp hcw mo o hb halg line nPrev frs hp
      (hnorm_of_escfree frs (fun w hw => (c2 w hw).1) (by rw [c1]; exact hesc))
      (pipeline_lastOk_ascii env o hsep (builtin_inRange _ _ hb) line _ frs hp) hshort
where
  pipeline_ascii_total (env : Env) (o : Opts) (hsep : o.sep = .ascii) (hb : Builtin o.splitter)
      (line : Text) (sw : Nat) (h : pipeline env o line sw = none) : False := by
    unfold pipeline at h
    rw [hsep] at h
    simp only [findWords] at h
    cases hs : splitWords env o.splitter (findWordsAscii env.cw line) with
    | some sp => simp only [hs] at h; split at h <;> (try split at h) <;> simp at h
    | none =>
      exact splitWords_total env o.splitter hb _ hs
  splitWords_total (env : Env) (sp : Splitter) (hb : Builtin sp) (ws : List Word)
      (h : splitWords env sp ws = none) : False := by
    induction ws with
    | nil => simp [splitWords] at h
    | cons w rest ih =>
      simp only [splitWords] at h
      have h1 : ∃ a, splitOne env.cw w (sp.points env.isAlnum w.word) 0 = some a := by
        cases sp with
        | none =>
          refine ⟨[{ word := w.word, width := displayWidth env.cw w.word, ws := w.ws, pen := w.pen }], ?_⟩
          simp only [Splitter.points, splitOne, or_true, if_true]
          have := sliceFrom?_append [] w.word
          simp only [List.nil_append, blen_nil] at this
          rw [this]
        | hyphen =>
          apply splitOne_total env.cw w _ 0 [] w.word rfl rfl
          · intro i hi
            obtain ⟨a, b, h1, h2, _⟩ := hyphenPoints_boundary env.isAlnum w.word i hi
            exact ⟨a, b, h1, h2⟩
          · refine List.pairwise_cons.mpr ⟨fun _ _ => Nat.zero_le _, ?_⟩
            exact (hyphenPointsGo_sorted env.isAlnum none 0 w.word).imp (fun h => Nat.le_of_lt h)
        | custom f => exact absurd hb (by simp [Builtin])
      obtain ⟨a, ha⟩ := h1
      rw [ha] at h
      cases hr : splitWords env sp rest with
      | none => exact ih hr
      | some b => rw [hr] at h; simp at h

/-! ### optimal-fit -/

/-- what is assumed of the external column-minima routine on this paragraph: its answer for the
    paragraph's fragments conforms to the `smawk` contract (shape and minimality; validated at
    run time on the real `minima` vector) -/
def MoConforms (mo : MinimaOracle Int) (p : Penalties) (frs : List Word) (lws : List Nat) : Prop :=
  IsMinimaRows p (lws.map fun (n : Nat) => (n : Int)) (frs.map fragOf)
    (mo (frs.map fragOf) (lws.map fun (n : Nat) => (n : Int)))

/-- **optimal-fit, slow path: a paragraph that fits comes back as one line**, for any penalties
    with `nline_penalty > 0` (the default: table obligation `default_nline_pos`) and any
    conforming `minima` — the one-line arrangement is the unique minimum -/
-- @audit TW.C05.fits_one_line_optimal
theorem fits_one_line_optimal (env : Env) (hsp : env.cw SP = 1) (mo : MinimaOracle Int) (o : Opts)
    (hb : Builtin o.splitter) (p : Penalties) (halg : o.alg = .optimalFit p) (hP : 0 < p.nline)
    (line : Text) (nPrev : Nat) (frs : List Word)
    (hpipe : pipeline env o line (o.width - displayWidth env.cw o.subsequentIndent) = some frs)
    (hn : HNorm frs)
    (hmo : MoConforms mo p frs
      [if nPrev = 0 then o.width - displayWidth env.cw o.initialIndent
       else o.width - displayWidth env.cw o.subsequentIndent,
       o.width - displayWidth env.cw o.subsequentIndent])
    (hfit : displayWidth env.cw (indentOf o nPrev) + displayWidth env.cw line ≤ o.width) :
    wrapSingleLineSlow env mo o line nPrev = some (specLines o [frs] 0 nPrev) := by
  obtain ⟨c1, c2⟩ := pipeline_contig env o (builtin_inRange _ _ hb) line _ frs hpipe
  have hnp := pipeline_noPen env o hb line _ frs hpipe
  obtain ⟨a1, _⟩ := hnorm_additive env.cw hsp frs hn (fun w hw => (c2 w hw).2)
  unfold wrapSingleLineSlow
  simp only [hpipe, halg]
  by_cases hfr : frs = []
  · -- no fragments at all: the empty paragraph
    subst hfr
    have : wrapAlg mo (.optimalFit p) [] [if nPrev = 0 then o.width - displayWidth env.cw o.initialIndent
        else o.width - displayWidth env.cw o.subsequentIndent, o.width - displayWidth env.cw o.subsequentIndent] = some [[]] := by
      have hs := hmo.shape.1
      simp only [List.map_nil, List.map_cons] at hs
      unfold wrapAlg
      have hl : List.map (CostNum.ofNat (α := Int)) [if nPrev = 0 then o.width - displayWidth env.cw o.initialIndent
        else o.width - displayWidth env.cw o.subsequentIndent, o.width - displayWidth env.cw o.subsequentIndent] =
          [((if nPrev = 0 then o.width - displayWidth env.cw o.initialIndent
        else o.width - displayWidth env.cw o.subsequentIndent : Nat) : Int), ((o.width - displayWidth env.cw o.subsequentIndent : Nat) : Int)] := rfl
      simp only [hl]
      rcases TW.optimalFit_partition (fragOf (α := Int)) p ([] : List Word) _ _ (by
          refine ⟨hs, ?_⟩
          intro j h1 h2; simp at h2; omega) with ho | ⟨ls, e1, _, _, e4⟩
      · exfalso
        unfold wrapOptimalFitWith at ho
        simp [CostNum.isInf, dpTable] at ho
        split at ho <;> simp at ho
      · simp only [List.map_nil]
        rw [e1, e4 rfl]
    rw [this]
    exact reassemble_eq_spec o line [] [[]] 0 nPrev (by simp [c1]) rfl
  · have hfitN : fragSum frs ≤ (if nPrev = 0 then o.width - displayWidth env.cw o.initialIndent
        else o.width - displayWidth env.cw o.subsequentIndent) := by
      have e : (fragSum frs) = dwFrom env.cw .normal line := by rw [← a1, c1]
      rw [e]
      unfold indentOf at hfit
      simp only [displayWidth] at hfit ⊢
      split <;> simp_all <;> omega
    rw [wrapAlg_optimal_one_line mo p hP frs hfr _ _ hnp hfitN (by simpa [MoConforms] using hmo)]
    exact reassemble_eq_spec o line [] [frs] 0 nPrev (by simp [c1]) rfl

/-- the default penalties have `nline_penalty > 0` (re-checked against the regenerated
    constants on every run) -/
-- @audit TW.C05.default_nline_pos
theorem default_nline_pos : 0 < Gen.defaultPenalties.1 := by decide +kernel

/-- **the shortcut is sound (optimal-fit)** -/
-- @audit TW.C05.shortcut_sound_optimal
theorem shortcut_sound_optimal (env : Env) (hsp : env.cw SP = 1) (hcw : ∀ c, env.cw c ≤ c.utf8Size)
    (mo : MinimaOracle Int) (o : Opts) (hb : Builtin o.splitter) (p : Penalties)
    (halg : o.alg = .optimalFit p) (hP : 0 < p.nline)
    (line : Text) (nPrev : Nat) (frs : List Word)
    (hpipe : pipeline env o line (o.width - displayWidth env.cw o.subsequentIndent) = some frs)
    (hn : HNorm frs) (hl : LastOk frs)
    (hmo : MoConforms mo p frs
      [if nPrev = 0 then o.width - displayWidth env.cw o.initialIndent
       else o.width - displayWidth env.cw o.subsequentIndent,
       o.width - displayWidth env.cw o.subsequentIndent])
    (hshort : blen line < o.width ∧ (indentOf o nPrev).isEmpty = true) :
    (wrapSingleLineSlow env mo o line nPrev).map (·.map LineD.render) =
      (wrapSingleLine env mo o line nPrev).map (·.map LineD.render) := by
  have hind : indentOf o nPrev = [] := by simpa using hshort.2
  have hdw : displayWidth env.cw line ≤ blen line := dwFrom_le_blen env.cw hcw .normal line
  obtain ⟨c1, c2⟩ := pipeline_contig env o (builtin_inRange _ _ hb) line _ frs hpipe
  have hnp := pipeline_noPen env o hb line _ frs hpipe
  rw [fits_one_line_optimal env hsp mo o hb p halg hP line nPrev frs hpipe hn hmo
    (by rw [hind]; simp [displayWidth, dwFrom]; unfold displayWidth at hdw; omega)]
  unfold wrapSingleLine
  have hc : blen line < o.width ∧ (if nPrev = 0 then o.initialIndent else o.subsequentIndent).isEmpty = true := hshort
  rw [if_pos hc]
  simp only [Option.map_some, Option.some.injEq]
  rw [one_line_render env o line nPrev frs c2 hl hnp c1, hind]
  simp [LineD.render]

/-! ### the shortcut is sound for ALL text (no additivity hypothesis)

The shortcut fires when `line.len() < width`. The cached fragment widths and whitespace
lengths sum to at most the byte length of the line (each cached width is a display width from
state `normal`, hence ≤ its byte length — C10), whatever escape sequences the fragments cut
through. So first-fit never breaks such a line, and optimal-fit's unique optimum is one line. -/

/-- first-fit keeps the fragments on one line whenever their cached widths and whitespace fit
    the first line width -/
theorem one_line_of_fragSum_firstfit (env : Env) (mo : MinimaOracle Int) (o : Opts) (hb : Builtin o.splitter)
    (halg : o.alg = .firstFit) (line : Text) (nPrev : Nat) (frs : List Word)
    (hpipe : pipeline env o line (o.width - displayWidth env.cw o.subsequentIndent) = some frs)
    (hfit : fragSum frs ≤ o.width - displayWidth env.cw (indentOf o nPrev)) :
    wrapSingleLineSlow env mo o line nPrev = some (specLines o [frs] 0 nPrev) := by
  obtain ⟨c1, _⟩ := pipeline_contig env o (builtin_inRange _ _ hb) line _ frs hpipe
  have hnp := pipeline_noPen env o hb line _ frs hpipe
  unfold wrapSingleLineSlow
  simp only [hpipe, halg, wrapAlg]
  have hone : wrapFirstFit (fragOf (α := Int)) frs
      (List.map CostNum.ofNat [if nPrev = 0 then o.width - displayWidth env.cw o.initialIndent
                                else o.width - displayWidth env.cw o.subsequentIndent,
                               o.width - displayWidth env.cw o.subsequentIndent]) = [frs] := by
    unfold wrapFirstFit
    generalize hlws : (List.map (CostNum.ofNat (α := Int)) [if nPrev = 0 then o.width - displayWidth env.cw o.initialIndent
                                else o.width - displayWidth env.cw o.subsequentIndent,
                               o.width - displayWidth env.cw o.subsequentIndent]) = lws
    have := ffGo_one_line lws (defaultLw lws) 0 [] frs 0 (by simp) hnp ?_
    · simpa using this
    · subst hlws
      simp only [fragSum_nil, Nat.zero_add, List.map_cons, List.getD_cons_zero, ofNat_int]
      unfold indentOf at hfit
      split <;> simp_all
  rw [hone]
  exact reassemble_eq_spec o line [] [frs] 0 nPrev (by simp [c1]) rfl

/-- **shortcut soundness, first-fit, every text**: hypotheses are only the built-in splitter,
    the bound `cw c ≤ utf8 length` (table obligation) and `LastOk` (a theorem for the ASCII
    separator) -/
-- @audit TW.C05.shortcut_sound_firstfit_all
theorem shortcut_sound_firstfit_all (env : Env) (hcw : ∀ c, env.cw c ≤ c.utf8Size)
    (mo : MinimaOracle Int) (o : Opts) (hb : Builtin o.splitter) (halg : o.alg = .firstFit)
    (line : Text) (nPrev : Nat) (frs : List Word)
    (hpipe : pipeline env o line (o.width - displayWidth env.cw o.subsequentIndent) = some frs)
    (hl : LastOk frs)
    (hshort : blen line < o.width ∧ (indentOf o nPrev).isEmpty = true) :
    (wrapSingleLineSlow env mo o line nPrev).map (·.map LineD.render) =
      (wrapSingleLine env mo o line nPrev).map (·.map LineD.render) := by
  have hind : indentOf o nPrev = [] := by simpa using hshort.2
  obtain ⟨c1, c2⟩ := pipeline_contig env o (builtin_inRange _ _ hb) line _ frs hpipe
  have hnp := pipeline_noPen env o hb line _ frs hpipe
  have hsum := fragSum_le_blen env.cw hcw frs c2
  rw [c1] at hsum
  rw [one_line_of_fragSum_firstfit env mo o hb halg line nPrev frs hpipe
    (by rw [hind]; simp [displayWidth, dwFrom]; omega)]
  unfold wrapSingleLine
  have hc : blen line < o.width ∧ (if nPrev = 0 then o.initialIndent else o.subsequentIndent).isEmpty = true := hshort
  rw [if_pos hc]
  simp only [Option.map_some, Option.some.injEq]
  rw [one_line_render env o line nPrev frs c2 hl hnp c1, hind]
  simp [LineD.render]

/-- **ASCII separator: the shortcut of `wrap_single_line` is unobservable for every line, every
    width, both built-in splitters, `break_words` on or off (first-fit)** — no hypothesis on the
    text at all -/
-- @audit TW.C05.shortcut_sound_ascii_all
theorem shortcut_sound_ascii_all (env : Env) (hcw : ∀ c, env.cw c ≤ c.utf8Size)
    (mo : MinimaOracle Int) (o : Opts) (hb : Builtin o.splitter) (halg : o.alg = .firstFit)
    (hsep : o.sep = .ascii) (line : Text) (nPrev : Nat)
    (hshort : blen line < o.width ∧ (indentOf o nPrev).isEmpty = true) :
    (wrapSingleLineSlow env mo o line nPrev).map (·.map LineD.render) =
      (wrapSingleLine env mo o line nPrev).map (·.map LineD.render) := by
  cases hp : pipeline env o line (o.width - displayWidth env.cw o.subsequentIndent) with
  | none => exact absurd hp (fun h => shortcut_sound_ascii_escfree.pipeline_ascii_total env o hsep hb line _ h)
  | some frs =>
    exact shortcut_sound_firstfit_all env hcw mo o hb halg line nPrev frs hp
      (pipeline_lastOk_ascii env o hsep (builtin_inRange _ _ hb) line _ frs hp) hshort

theorem wrapR_congr (elen : Nat) (s1 s2 : Text → Nat → Option (List LineD))
    (h : ∀ p n, (s1 p n).map (·.map LineD.render) = (s2 p n).map (·.map LineD.render))
    (ps : List Text) (off n : Nat) : wrapR elen s1 ps off n = wrapR elen s2 ps off n := by
  induction ps generalizing off n with
  | nil => rfl
  | cons p r ih =>
    rw [wrapR_cons, wrapR_cons]
    have hp := h p n
    cases e1 : s1 p n with
    | none =>
      cases e2 : s2 p n with
      | none => rfl
      | some l2 => rw [e1, e2] at hp; simp at hp
    | some l1 =>
      cases e2 : s2 p n with
      | none => rw [e1, e2] at hp; simp at hp
      | some l2 =>
        rw [e1, e2] at hp
        simp only [Option.map_some, Option.some.injEq] at hp
        have hlen : l1.length = l2.length := by
          have := congrArg List.length hp; simpa using this
        simp only [hlen, hp, ih]

/-- `wrap` with the shortcut removed: every paragraph goes through the general path -/
def wrapNoShortcut (env : Env) (mo : MinimaOracle Int) (o : Opts) (text : Text) : Option (List Text) :=
  wrapR (blen o.lineEnding.str) (wrapSingleLineSlow env mo o) (splitEnding o.lineEnding text) 0 0

/-- **the shortcut path is unobservable**: `wrap` returns the same lines whether or not its
    byte-length shortcut exists — every text, width, indents, paragraph structure; ASCII
    separator, built-in splitters, `break_words` on/off, first-fit. Hence results never change
    as the width crosses the byte length of a paragraph. -/
-- @audit TW.C05.wrap_shortcut_unobservable_ascii
theorem wrap_shortcut_unobservable_ascii (env : Env) (hcw : ∀ c, env.cw c ≤ c.utf8Size)
    (mo : MinimaOracle Int) (o : Opts) (hb : Builtin o.splitter) (halg : o.alg = .firstFit)
    (hsep : o.sep = .ascii) (text : Text) :
    wrap env mo o text = wrapNoShortcut env mo o text := by
  show wrapR _ (wrapSingleLine env mo o) _ 0 0 = wrapR _ (wrapSingleLineSlow env mo o) _ 0 0
  apply wrapR_congr
  intro p n
  by_cases hshort : blen p < o.width ∧ (indentOf o n).isEmpty = true
  · exact (shortcut_sound_ascii_all env hcw mo o hb halg hsep p n hshort).symm
  · unfold wrapSingleLine
    have : ¬ (blen p < o.width ∧ (if n = 0 then o.initialIndent else o.subsequentIndent).isEmpty = true) := hshort
    rw [if_neg this]

/-- optimal-fit keeps the fragments on one line whenever their cached widths and whitespace fit
    the first line width (any conforming minima, `nline_penalty > 0`) -/
theorem one_line_of_fragSum_optimal (env : Env) (mo : MinimaOracle Int) (o : Opts)
    (hb : Builtin o.splitter) (p : Penalties) (halg : o.alg = .optimalFit p) (hP : 0 < p.nline)
    (line : Text) (nPrev : Nat) (frs : List Word)
    (hpipe : pipeline env o line (o.width - displayWidth env.cw o.subsequentIndent) = some frs)
    (hmo : MoConforms mo p frs
      [if nPrev = 0 then o.width - displayWidth env.cw o.initialIndent
       else o.width - displayWidth env.cw o.subsequentIndent,
       o.width - displayWidth env.cw o.subsequentIndent])
    (hfit : fragSum frs ≤ o.width - displayWidth env.cw (indentOf o nPrev)) :
    wrapSingleLineSlow env mo o line nPrev = some (specLines o [frs] 0 nPrev) := by
  obtain ⟨c1, _⟩ := pipeline_contig env o (builtin_inRange _ _ hb) line _ frs hpipe
  have hnp := pipeline_noPen env o hb line _ frs hpipe
  unfold wrapSingleLineSlow
  simp only [hpipe, halg]
  by_cases hfr : frs = []
  · subst hfr
    have : wrapAlg mo (.optimalFit p) [] [if nPrev = 0 then o.width - displayWidth env.cw o.initialIndent
        else o.width - displayWidth env.cw o.subsequentIndent, o.width - displayWidth env.cw o.subsequentIndent] = some [[]] := by
      have hs := hmo.shape.1
      simp only [List.map_nil, List.map_cons] at hs
      unfold wrapAlg
      have hl : List.map (CostNum.ofNat (α := Int)) [if nPrev = 0 then o.width - displayWidth env.cw o.initialIndent
        else o.width - displayWidth env.cw o.subsequentIndent, o.width - displayWidth env.cw o.subsequentIndent] =
          [((if nPrev = 0 then o.width - displayWidth env.cw o.initialIndent
        else o.width - displayWidth env.cw o.subsequentIndent : Nat) : Int), ((o.width - displayWidth env.cw o.subsequentIndent : Nat) : Int)] := rfl
      simp only [hl]
      rcases TW.optimalFit_partition (fragOf (α := Int)) p ([] : List Word) _ _ (by
          refine ⟨hs, ?_⟩
          intro j h1 h2; simp at h2; omega) with ho | ⟨ls, e1, _, _, e4⟩
      · exfalso
        unfold wrapOptimalFitWith at ho
        simp [CostNum.isInf, dpTable] at ho
        split at ho <;> simp at ho
      · simp only [List.map_nil]
        rw [e1, e4 rfl]
    rw [this]
    exact reassemble_eq_spec o line [] [[]] 0 nPrev (by simp [c1]) rfl
  · have hfitN : fragSum frs ≤ (if nPrev = 0 then o.width - displayWidth env.cw o.initialIndent
        else o.width - displayWidth env.cw o.subsequentIndent) := by
      unfold indentOf at hfit
      split <;> simp_all
    rw [wrapAlg_optimal_one_line mo p hP frs hfr _ _ hnp hfitN (by simpa [MoConforms] using hmo)]
    exact reassemble_eq_spec o line [] [frs] 0 nPrev (by simp [c1]) rfl

/-- **shortcut soundness, optimal-fit (the default algorithm), every text** -/
-- @audit TW.C05.shortcut_sound_optimal_all
theorem shortcut_sound_optimal_all (env : Env) (hcw : ∀ c, env.cw c ≤ c.utf8Size)
    (mo : MinimaOracle Int) (o : Opts) (hb : Builtin o.splitter) (p : Penalties)
    (halg : o.alg = .optimalFit p) (hP : 0 < p.nline)
    (line : Text) (nPrev : Nat) (frs : List Word)
    (hpipe : pipeline env o line (o.width - displayWidth env.cw o.subsequentIndent) = some frs)
    (hl : LastOk frs)
    (hmo : MoConforms mo p frs
      [if nPrev = 0 then o.width - displayWidth env.cw o.initialIndent
       else o.width - displayWidth env.cw o.subsequentIndent,
       o.width - displayWidth env.cw o.subsequentIndent])
    (hshort : blen line < o.width ∧ (indentOf o nPrev).isEmpty = true) :
    (wrapSingleLineSlow env mo o line nPrev).map (·.map LineD.render) =
      (wrapSingleLine env mo o line nPrev).map (·.map LineD.render) := by
  have hind : indentOf o nPrev = [] := by simpa using hshort.2
  obtain ⟨c1, c2⟩ := pipeline_contig env o (builtin_inRange _ _ hb) line _ frs hpipe
  have hnp := pipeline_noPen env o hb line _ frs hpipe
  have hsum := fragSum_le_blen env.cw hcw frs c2
  rw [c1] at hsum
  rw [one_line_of_fragSum_optimal env mo o hb p halg hP line nPrev frs hpipe hmo
    (by rw [hind]; simp [displayWidth, dwFrom]; omega)]
  unfold wrapSingleLine
  have hc : blen line < o.width ∧ (if nPrev = 0 then o.initialIndent else o.subsequentIndent).isEmpty = true := hshort
  rw [if_pos hc]
  simp only [Option.map_some, Option.some.injEq]
  rw [one_line_render env o line nPrev frs c2 hl hnp c1, hind]
  simp [LineD.render]

/-- **Unicode separator: the shortcut is sound for every line**, first-fit, built-in splitters,
    `break_words` on/off — relative to one clause of the contract of the external
    `unicode-linebreak` routine (`OppsNoSpace`: no break opportunity directly before a space,
    UAX #14 rule LB7; validated by the harness on every case) -/
-- @audit TW.C05.shortcut_sound_unicode_all
theorem shortcut_sound_unicode_all (env : Env) (hcw : ∀ c, env.cw c ≤ c.utf8Size)
    (mo : MinimaOracle Int) (o : Opts) (hb : Builtin o.splitter) (halg : o.alg = .firstFit)
    (hsep : o.sep = .unicode) (line : Text) (nPrev : Nat)
    (hc : OppsNoSpace (stripAnsi line) (env.opps (stripAnsi line))) (frs : List Word)
    (hpipe : pipeline env o line (o.width - displayWidth env.cw o.subsequentIndent) = some frs)
    (hshort : blen line < o.width ∧ (indentOf o nPrev).isEmpty = true) :
    (wrapSingleLineSlow env mo o line nPrev).map (·.map LineD.render) =
      (wrapSingleLine env mo o line nPrev).map (·.map LineD.render) :=
  shortcut_sound_firstfit_all env hcw mo o hb halg line nPrev frs hpipe
    (pipeline_lastOk_unicode env o hsep (builtin_inRange _ _ hb) line hc _ frs hpipe) hshort

/-! ### every algorithm, both separators: the shortcut relative to the external contracts -/

/-- the clauses of the external routines' contracts that the shortcut of one paragraph rests on
    (each validated by the harness on every call):
    * Unicode separator — `unicode_linebreak` returns char boundaries and no opportunity directly
      before a space (UAX #14, LB7);
    * optimal-fit — `nline_penalty > 0` and the recorded `smawk` rows are row minima
      (`MoConforms`) for the paragraph's fragments and either pair of line widths. -/
def ShortcutContracts (env : Env) (mo : MinimaOracle Int) (o : Opts) (p : Text) : Prop :=
  (o.sep = .unicode →
    OppsNoSpace (stripAnsi p) (env.opps (stripAnsi p)) ∧
    ∀ o' ∈ env.opps (stripAnsi p), o' < blen (stripAnsi p) → ∃ l r, stripAnsi p = l ++ r ∧ blen l = o') ∧
  (∀ pen, o.alg = .optimalFit pen → 0 < pen.nline ∧
    ∀ frs, pipeline env o p (o.width - displayWidth env.cw o.subsequentIndent) = some frs →
      ∀ nPrev : Nat, MoConforms mo pen frs
        [if nPrev = 0 then o.width - displayWidth env.cw o.initialIndent
         else o.width - displayWidth env.cw o.subsequentIndent,
         o.width - displayWidth env.cw o.subsequentIndent])

theorem pipeline_total (env : Env) (o : Opts) (hb : Builtin o.splitter) (line : Text) (sw : Nat)
    (hu : o.sep = .unicode → ∀ o' ∈ env.opps (stripAnsi line), o' < blen (stripAnsi line) →
      ∃ l r, stripAnsi line = l ++ r ∧ blen l = o') :
    ∃ frs, pipeline env o line sw = some frs := by
  cases hsep : o.sep with
  | ascii =>
    cases hp : pipeline env o line sw with
    | none => exact absurd hp (fun h => shortcut_sound_ascii_escfree.pipeline_ascii_total env o hsep hb line _ h)
    | some frs => exact ⟨frs, rfl⟩
  | unicode =>
    obtain ⟨ws, hws⟩ := findWordsUnicode_total env line (hu hsep)
    cases hs : splitWords env o.splitter ws with
    | none => exact absurd hs (fun h => shortcut_sound_ascii_escfree.splitWords_total env o.splitter hb ws h)
    | some sp =>
      unfold pipeline
      rw [hsep]
      simp only [findWords, hws, hs]
      split <;> (try split) <;> exact ⟨_, rfl⟩

/-- **shortcut soundness for one paragraph: every algorithm, both separators, both built-in
    splitters, `break_words` on/off, every text** — relative to `ShortcutContracts` -/
-- @audit TW.C05.shortcut_sound_all
theorem shortcut_sound_all (env : Env) (hcw : ∀ c, env.cw c ≤ c.utf8Size)
    (mo : MinimaOracle Int) (o : Opts) (hb : Builtin o.splitter) (line : Text) (nPrev : Nat)
    (hc : ShortcutContracts env mo o line)
    (hshort : blen line < o.width ∧ (indentOf o nPrev).isEmpty = true) :
    (wrapSingleLineSlow env mo o line nPrev).map (·.map LineD.render) =
      (wrapSingleLine env mo o line nPrev).map (·.map LineD.render) := by
  obtain ⟨frs, hp⟩ := pipeline_total env o hb line (o.width - displayWidth env.cw o.subsequentIndent)
    (fun h => (hc.1 h).2)
  have hl : LastOk frs := by
    cases hsep : o.sep with
    | ascii => exact pipeline_lastOk_ascii env o hsep (builtin_inRange _ _ hb) line _ frs hp
    | unicode => exact pipeline_lastOk_unicode env o hsep (builtin_inRange _ _ hb) line (hc.1 hsep).1 _ frs hp
  cases halg : o.alg with
  | firstFit => exact shortcut_sound_firstfit_all env hcw mo o hb halg line nPrev frs hp hl hshort
  | optimalFit pen =>
    obtain ⟨hP, hm⟩ := hc.2 pen halg
    exact shortcut_sound_optimal_all env hcw mo o hb pen halg hP line nPrev frs hp hl (hm frs hp nPrev) hshort

theorem wrapR_congr_mem (elen : Nat) (s1 s2 : Text → Nat → Option (List LineD))
    (ps : List Text)
    (h : ∀ p ∈ ps, ∀ n, (s1 p n).map (·.map LineD.render) = (s2 p n).map (·.map LineD.render))
    (off n : Nat) : wrapR elen s1 ps off n = wrapR elen s2 ps off n := by
  induction ps generalizing off n with
  | nil => rfl
  | cons p r ih =>
    rw [wrapR_cons, wrapR_cons]
    have hp := h p (by simp) n
    have ih' := ih (fun q hq => h q (by simp [hq]))
    cases e1 : s1 p n with
    | none =>
      cases e2 : s2 p n with
      | none => rfl
      | some l2 => rw [e1, e2] at hp; simp at hp
    | some l1 =>
      cases e2 : s2 p n with
      | none => rw [e1, e2] at hp; simp at hp
      | some l2 =>
        rw [e1, e2] at hp
        simp only [Option.map_some, Option.some.injEq] at hp
        have hlen : l1.length = l2.length := by
          have := congrArg List.length hp; simpa using this
        simp only [hlen, hp, ih']

/-- **`wrap`'s shortcut is unobservable — every algorithm, both separators**: `wrap` returns the
    same lines with or without its byte-length shortcut, for every text whose paragraphs that are
    shorter than the width meet the external contracts -/
-- @audit TW.C05.wrap_shortcut_unobservable
theorem wrap_shortcut_unobservable (env : Env) (hcw : ∀ c, env.cw c ≤ c.utf8Size)
    (mo : MinimaOracle Int) (o : Opts) (hb : Builtin o.splitter) (text : Text)
    (hc : ∀ p ∈ splitEnding o.lineEnding text, blen p < o.width → ShortcutContracts env mo o p) :
    wrap env mo o text = wrapNoShortcut env mo o text := by
  show wrapR _ (wrapSingleLine env mo o) _ 0 0 = wrapR _ (wrapSingleLineSlow env mo o) _ 0 0
  apply wrapR_congr_mem
  intro p hp n
  by_cases hshort : blen p < o.width ∧ (indentOf o n).isEmpty = true
  · exact (shortcut_sound_all env hcw mo o hb p n (hc p hp hshort.1) hshort).symm
  · unfold wrapSingleLine
    have : ¬ (blen p < o.width ∧ (if n = 0 then o.initialIndent else o.subsequentIndent).isEmpty = true) := hshort
    rw [if_neg this]

/-! ### optimal-fit without the `smawk` contract

With the model's own `smawk` (`ownMinima`, TextwrapModel/Smawk.lean) the contract clause
`MoConforms` is a theorem (`TW.ownMinima_isMinimaRows`): the pipeline's fragments carry no
penalty with the built-in splitters, widths are natural numbers, and `wrap` uses two line
widths. What remains of `ShortcutContracts` is the clause about `unicode_linebreak`. -/

/-- the `smawk` clause of the contracts, for the model's own `smawk` -/
-- @audit TW.C05.moConforms_own
theorem moConforms_own (p : Penalties) (frs : List Word) (hnp : NoPen frs) (lws : List Nat) (hl : lws.length ≤ 2) :
    MoConforms (ownMinima p) p frs lws :=
  ownMinima_isMinimaRows p _ (by simpa using hl) _ (hyp_words p _ frs hnp)

/-- `ShortcutContracts` with the model's own `smawk` reduces to its `unicode_linebreak` clause
    and `nline_penalty > 0` -/
theorem shortcutContracts_own (env : Env) (o : Opts) (hb : Builtin o.splitter) (pen0 : Penalties)
    (halg : o.alg = .firstFit ∨ (o.alg = .optimalFit pen0 ∧ 0 < pen0.nline)) (p : Text)
    (hu : o.sep = .unicode →
      OppsNoSpace (stripAnsi p) (env.opps (stripAnsi p)) ∧
      ∀ o' ∈ env.opps (stripAnsi p), o' < blen (stripAnsi p) → ∃ l r, stripAnsi p = l ++ r ∧ blen l = o') :
    ShortcutContracts env (ownMinima pen0) o p := by
  refine ⟨hu, ?_⟩
  intro pen hpen
  rcases halg with h | ⟨h, hP⟩
  · rw [h] at hpen; cases hpen
  · rw [h] at hpen
    cases hpen
    refine ⟨hP, ?_⟩
    intro frs hfrs nPrev
    exact moConforms_own pen0 frs (pipeline_noPen env o hb p _ frs hfrs) _ (by simp)

/-- **`wrap`'s shortcut is unobservable — ASCII separator, first-fit or optimal-fit with any
    penalties having `nline_penalty > 0`, built-in splitters, `break_words` on/off, every text,
    width and indents — with no assumption about `smawk`**: the model runs `smawk`'s own
    algorithm, proved to return column minima of textwrap's cost matrix -/
-- @audit TW.C05.wrap_shortcut_unobservable_own_ascii
theorem wrap_shortcut_unobservable_own_ascii (env : Env) (hcw : ∀ c, env.cw c ≤ c.utf8Size)
    (o : Opts) (hb : Builtin o.splitter) (hsep : o.sep = .ascii) (pen0 : Penalties)
    (halg : o.alg = .firstFit ∨ (o.alg = .optimalFit pen0 ∧ 0 < pen0.nline)) (text : Text) :
    wrap env (ownMinima (α := Int) pen0) o text = wrapNoShortcut env (ownMinima (α := Int) pen0) o text :=
  wrap_shortcut_unobservable env hcw _ o hb text fun p _ _ =>
    shortcutContracts_own env o hb pen0 halg p (fun h => by rw [hsep] at h; cases h)

/-- the same for both separators, relative to the `unicode_linebreak` clause only -/
-- @audit TW.C05.wrap_shortcut_unobservable_own
theorem wrap_shortcut_unobservable_own (env : Env) (hcw : ∀ c, env.cw c ≤ c.utf8Size)
    (o : Opts) (hb : Builtin o.splitter) (pen0 : Penalties)
    (halg : o.alg = .firstFit ∨ (o.alg = .optimalFit pen0 ∧ 0 < pen0.nline)) (text : Text)
    (hu : ∀ p ∈ splitEnding o.lineEnding text, blen p < o.width → o.sep = .unicode →
      OppsNoSpace (stripAnsi p) (env.opps (stripAnsi p)) ∧
      ∀ o' ∈ env.opps (stripAnsi p), o' < blen (stripAnsi p) → ∃ l r, stripAnsi p = l ++ r ∧ blen l = o') :
    wrap env (ownMinima (α := Int) pen0) o text = wrapNoShortcut env (ownMinima (α := Int) pen0) o text :=
  wrap_shortcut_unobservable env hcw _ o hb text fun p hp hlt =>
    shortcutContracts_own env o hb pen0 halg p (hu p hp hlt)

/-! ### coloured text: H-norm discharged for safe lines -/

/-- **a safe line that fits comes back as one line, first-fit** — both separators, built-in
    splitters, `break_words` on/off. Safe (`SeqSafe`): every space (and, with the hyphen
    splitter, every hyphen) is met in skipper state `normal` and the line ends in state `normal`;
    in particular (`seqSafe_of_segs`) any mixture of visible characters and well-formed CSI/OSC
    sequences whose sequences contain no space (and no hyphen). The complement is exactly the
    recorded finding classes KF-1a, KF-1b, KF-2. -/
-- @audit TW.C05.fits_one_line_firstfit_safe
theorem fits_one_line_firstfit_safe (env : Env) (hsp : env.cw SP = 1) (mo : MinimaOracle Int) (o : Opts)
    (hb : Builtin o.splitter) (halg : o.alg = .firstFit) (line : Text) (hsafe : SeqSafe o.splitter line)
    (nPrev : Nat) (frs : List Word)
    (hpipe : pipeline env o line (o.width - displayWidth env.cw o.subsequentIndent) = some frs)
    (hfit : displayWidth env.cw (indentOf o nPrev) + displayWidth env.cw line ≤ o.width) :
    wrapSingleLineSlow env mo o line nPrev = some (specLines o [frs] 0 nPrev) :=
  fits_one_line_firstfit env hsp mo o hb halg line nPrev frs hpipe
    (pipeline_hnorm env o hb line hsafe _ frs hpipe) hfit

/-- the same for optimal-fit (any penalties with `nline_penalty > 0`, any conforming minima) -/
-- @audit TW.C05.fits_one_line_optimal_safe
theorem fits_one_line_optimal_safe (env : Env) (hsp : env.cw SP = 1) (mo : MinimaOracle Int) (o : Opts)
    (hb : Builtin o.splitter) (p : Penalties) (halg : o.alg = .optimalFit p) (hP : 0 < p.nline)
    (line : Text) (hsafe : SeqSafe o.splitter line) (nPrev : Nat) (frs : List Word)
    (hpipe : pipeline env o line (o.width - displayWidth env.cw o.subsequentIndent) = some frs)
    (hmo : MoConforms mo p frs
      [if nPrev = 0 then o.width - displayWidth env.cw o.initialIndent
       else o.width - displayWidth env.cw o.subsequentIndent,
       o.width - displayWidth env.cw o.subsequentIndent])
    (hfit : displayWidth env.cw (indentOf o nPrev) + displayWidth env.cw line ≤ o.width) :
    wrapSingleLineSlow env mo o line nPrev = some (specLines o [frs] 0 nPrev) :=
  fits_one_line_optimal env hsp mo o hb p halg hP line nPrev frs hpipe
    (pipeline_hnorm env o hb line hsafe _ frs hpipe) hmo hfit

/-- coloured text is safe: a concrete instance (test, labelled as such) -/
example : SeqSafe .hyphen (renderSegs [.csi "1;31".toList 'm', .ch 'a', .ch ' ', .ch 'b', .ch '-', .ch 'c',
    .osc "8;;http://x.y".toList .st, .ch 'd', .osc "8;;".toList .st, .csi [] 'm']) :=
  seqSafe_of_segs _ _ (by decide) (by decide)

/-! ### the whole text: every paragraph fits -/

/-- the lines expected when every paragraph fits: paragraph `k` with the indent of line `k` -/
def fitLines (o : Opts) : List Text → Nat → List Text
  | [], _ => []
  | p :: ps, n => (indentOf o n ++ trimEndSp p) :: fitLines o ps (n + 1)

theorem wrapR_fitting (env : Env) (mo : MinimaOracle Int) (o : Opts) (ps : List Text)
    (h : ∀ p ∈ ps, ∀ n, (wrapSingleLineSlow env mo o p n).map (·.map LineD.render) =
      some [indentOf o n ++ trimEndSp p]) (off n : Nat) :
    wrapR (blen o.lineEnding.str) (wrapSingleLineSlow env mo o) ps off n = some (fitLines o ps n) := by
  induction ps generalizing off n with
  | nil => rfl
  | cons p r ih =>
    rw [wrapR_cons]
    have hp := h p (by simp) n
    cases hs : wrapSingleLineSlow env mo o p n with
    | none => rw [hs] at hp; simp at hp
    | some ds =>
      rw [hs] at hp
      simp only [Option.map_some, Option.some.injEq] at hp
      have hlen : ds.length = 1 := by simpa using congrArg List.length hp
      simp only
      rw [hlen, ih (fun q hq => h q (by simp [hq]))]
      simp [fitLines, hp]

/-- **every paragraph that fits comes back as one unchanged line — the whole text.** ASCII
    separator, first-fit, built-in splitters, `break_words` on or off, any indents: if every
    paragraph is safe and fits next to the indent its line carries (paragraph `k` is line `k`),
    `wrap` returns exactly these paragraphs, each with its indent and without trailing spaces. -/
-- @audit TW.C05.wrap_fitting_paragraphs
theorem wrap_fitting_paragraphs (env : Env) (hsp : env.cw SP = 1) (hcw : ∀ c, env.cw c ≤ c.utf8Size)
    (mo : MinimaOracle Int) (o : Opts) (hb : Builtin o.splitter) (halg : o.alg = .firstFit)
    (hsep : o.sep = .ascii) (text : Text)
    (hsafe : ∀ p ∈ splitEnding o.lineEnding text, SeqSafe o.splitter p)
    (hfit : ∀ p ∈ splitEnding o.lineEnding text, ∀ n,
      displayWidth env.cw (indentOf o n) + displayWidth env.cw p ≤ o.width) :
    wrap env mo o text = some (fitLines o (splitEnding o.lineEnding text) 0) := by
  rw [wrap_shortcut_unobservable_ascii env hcw mo o hb halg hsep]
  unfold wrapNoShortcut
  apply wrapR_fitting
  intro p hp n
  cases hpipe : pipeline env o p (o.width - displayWidth env.cw o.subsequentIndent) with
  | none => exact absurd hpipe (fun h => shortcut_sound_ascii_escfree.pipeline_ascii_total env o hsep hb p _ h)
  | some frs =>
    obtain ⟨c1, c2⟩ := pipeline_contig env o (builtin_inRange _ _ hb) p _ frs hpipe
    have hnp := pipeline_noPen env o hb p _ frs hpipe
    have hl := pipeline_lastOk_ascii env o hsep (builtin_inRange _ _ hb) p _ frs hpipe
    rw [fits_one_line_firstfit_safe env hsp mo o hb halg p (hsafe p hp) n frs hpipe (hfit p hp n)]
    simp only [Option.map_some, Option.some.injEq]
    exact one_line_render env o p n frs c2 hl hnp c1

/-- **a paragraph that fits comes back as one line, optimal-fit, any penalties with
    `nline_penalty > 0` — no assumption about `smawk`**: both separators, both built-in
    splitters, `break_words` on/off, safe lines (the complement is KF-1a/1b/2) -/
-- @audit TW.C05.fits_one_line_optimal_own
theorem fits_one_line_optimal_own (env : Env) (hsp : env.cw SP = 1) (o : Opts)
    (hb : Builtin o.splitter) (p : Penalties) (halg : o.alg = .optimalFit p) (hP : 0 < p.nline)
    (line : Text) (hsafe : SeqSafe o.splitter line) (nPrev : Nat) (frs : List Word)
    (hpipe : pipeline env o line (o.width - displayWidth env.cw o.subsequentIndent) = some frs)
    (hfit : displayWidth env.cw (indentOf o nPrev) + displayWidth env.cw line ≤ o.width) :
    wrapSingleLineSlow env (ownMinima (α := Int) p) o line nPrev = some (specLines o [frs] 0 nPrev) :=
  fits_one_line_optimal_safe env hsp _ o hb p halg hP line hsafe nPrev frs hpipe
    (moConforms_own p frs (pipeline_noPen env o hb line _ frs hpipe) _ (by simp)) hfit


/-! ### with the model's own `linebreaks` too

For an environment that runs the transcription of `unicode_linebreak::linebreaks` on the compiled
tables, the remaining clause is a theorem for paragraphs without hard-line-break characters
(`HardFree`: none of U+000B, U+000C, U+000D, U+0085, U+2028, U+2029 — the paragraph separator
itself never occurs inside a paragraph); after such a character the crate does report an
opportunity directly before a space (`TW.ownOpps_space_after_hard`), so the restriction is exact. -/

/-- **`wrap`'s shortcut is unobservable, both separators, both algorithms — no contract of an
    external crate**: `smawk` and `unicode_linebreak` are inside the model -/
-- @audit TW.C05.wrap_shortcut_unobservable_ownlb
theorem wrap_shortcut_unobservable_ownlb (env : Env) (henv : env.opps = ownOpps lbTables)
    (hcw : ∀ c, env.cw c ≤ c.utf8Size)
    (o : Opts) (hb : Builtin o.splitter) (pen0 : Penalties)
    (halg : o.alg = .firstFit ∨ (o.alg = .optimalFit pen0 ∧ 0 < pen0.nline)) (text : Text)
    (hf : ∀ p ∈ splitEnding o.lineEnding text, blen p < o.width → o.sep = .unicode → HardFree (stripAnsi p)) :
    wrap env (ownMinima (α := Int) pen0) o text = wrapNoShortcut env (ownMinima (α := Int) pen0) o text :=
  wrap_shortcut_unobservable_own env hcw o hb pen0 halg text fun p hp hlt hu =>
    ⟨oppsNoSpace_own env henv _ (hf p hp hlt hu), boundary_own env lbTables henv _⟩

/-- **every paragraph that fits comes back as one unchanged line — the whole text, BOTH separators,
    BOTH algorithms, no contract of an external crate.** First-fit or optimal-fit with any
    penalties having `nline_penalty > 0`, built-in splitters, `break_words` on or off, any indents:
    if every paragraph is safe (the complement is KF-1a/1b/2), fits next to the indent its line
    carries and — Unicode separator — contains no hard-line-break character, `wrap` returns exactly
    these paragraphs, each with its indent and without trailing spaces. `smawk`'s algorithm and
    `unicode_linebreak`'s scan run inside the model. -/
-- @audit TW.C05.wrap_fitting_paragraphs_own_all
theorem wrap_fitting_paragraphs_own_all (env : Env) (henv : env.opps = ownOpps lbTables)
    (hsp : env.cw SP = 1) (hcw : ∀ c, env.cw c ≤ c.utf8Size)
    (o : Opts) (hb : Builtin o.splitter) (pen0 : Penalties)
    (halg : o.alg = .firstFit ∨ (o.alg = .optimalFit pen0 ∧ 0 < pen0.nline)) (text : Text)
    (hsafe : ∀ p ∈ splitEnding o.lineEnding text, SeqSafe o.splitter p)
    (hfit : ∀ p ∈ splitEnding o.lineEnding text, ∀ n,
      displayWidth env.cw (indentOf o n) + displayWidth env.cw p ≤ o.width)
    (hf : o.sep = .unicode → ∀ p ∈ splitEnding o.lineEnding text, HardFree (stripAnsi p)) :
    wrap env (ownMinima (α := Int) pen0) o text = some (fitLines o (splitEnding o.lineEnding text) 0) := by
  rw [wrap_shortcut_unobservable_ownlb env henv hcw o hb pen0 halg text (fun p hp _ hs => hf hs p hp)]
  unfold wrapNoShortcut
  apply wrapR_fitting
  intro p hp n
  obtain ⟨frs, hpipe⟩ := pipeline_total env o hb p (o.width - displayWidth env.cw o.subsequentIndent)
    (fun _ => boundary_own env lbTables henv _)
  obtain ⟨c1, c2⟩ := pipeline_contig env o (builtin_inRange _ _ hb) p _ frs hpipe
  have hnp := pipeline_noPen env o hb p _ frs hpipe
  have hl : LastOk frs := by
    cases hs : o.sep with
    | ascii => exact pipeline_lastOk_ascii env o hs (builtin_inRange _ _ hb) p _ frs hpipe
    | unicode =>
      exact pipeline_lastOk_unicode env o hs (builtin_inRange _ _ hb) p
        (oppsNoSpace_own env henv _ (hf hs p hp)) _ frs hpipe
  rcases halg with h | ⟨h, hP⟩
  · rw [fits_one_line_firstfit_safe env hsp _ o hb h p (hsafe p hp) n frs hpipe (hfit p hp n)]
    simp only [Option.map_some, Option.some.injEq]
    exact one_line_render env o p n frs c2 hl hnp c1
  · rw [fits_one_line_optimal_own env hsp o hb pen0 h hP p (hsafe p hp) n frs hpipe (hfit p hp n)]
    simp only [Option.map_some, Option.some.injEq]
    exact one_line_render env o p n frs c2 hl hnp c1

end TW.C05

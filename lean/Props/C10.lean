/-
  C10 — display_width is the sum of character widths outside ANSI sequences.
  Property theorems only; helper lemmas live in Lemmas/.
-/
import Lemmas.Ansi
import TextwrapModel.Tables
namespace TW.C10

/-! ### table obligations (re-checked against the regenerated tables on every run) -/

-- @audit TW.C10.table_unicode_ok
theorem table_unicode_ok : okRuns Gen.widthRunsUnicode = true := by decide +kernel

-- @audit TW.C10.table_crude_ok
theorem table_crude_ok : okRuns Gen.widthRunsCrude = true := by decide +kernel

/-- every scalar value: the column width never exceeds the UTF-8 length (unicode-width tables) -/
-- @audit TW.C10.cwUnicode_le_utf8
theorem cwUnicode_le_utf8 (c : Char) : cwUnicode c ≤ c.utf8Size := by
  rw [utf8Size_eq]
  exact lookupRuns_le _ table_unicode_ok _ _ (by unfold utf8SizeNat; split <;> (try split) <;> (try split) <;> omega)

-- @audit TW.C10.cwCrude_le_utf8
theorem cwCrude_le_utf8 (c : Char) : cwCrude c ≤ c.utf8Size := by
  rw [utf8Size_eq]
  exact lookupRuns_le _ table_crude_ok _ _ (by unfold utf8SizeNat; split <;> (try split) <;> (try split) <;> omega)

/-- without the unicode-width feature: 1 below U+1100, else 2 -/
-- @audit TW.C10.crude_rule
theorem crude_rule (c : Char) : cwCrude c = if c.toNat < 0x1100 then 1 else 2 := by
  unfold cwCrude
  have h : Gen.widthRunsCrude = [(0, 1), (4352, 2)] := by decide +kernel
  rw [h]
  simp only [lookupRuns]
  split <;> split <;> simp_all <;> omega

/-- control characters have width 0 in the unicode-width tables (spot obligations on the table) -/
-- @audit TW.C10.control_zero
theorem control_zero : cwUnicode ESC = 0 ∧ cwUnicode LF = 0 ∧ cwUnicode BEL = 0 ∧ cwUnicode ' ' = 1 ∧ cwUnicode '-' = 1 := by
  decide +kernel

/-! ### the property -/

/-- for every text whatsoever, display_width never exceeds the byte length -/
-- @audit TW.C10.dw_le_blen
theorem dw_le_blen (cw : Char → Nat) (h : ∀ c, cw c ≤ c.utf8Size) (t : Text) :
    displayWidth cw t ≤ blen t := dwFrom_le_blen cw h .normal t

-- @audit TW.C10.dw_le_blen_unicode
theorem dw_le_blen_unicode (t : Text) : displayWidth cwUnicode t ≤ blen t :=
  dw_le_blen _ cwUnicode_le_utf8 t

-- @audit TW.C10.dw_le_blen_crude
theorem dw_le_blen_crude (t : Text) : displayWidth cwCrude t ≤ blen t :=
  dw_le_blen _ cwCrude_le_utf8 t

/-- well-formed text (a list of tokens: visible chars, CSI sequences `ESC [ … final`, OSC
    sequences `ESC ] … (BEL | ESC \)`): the display width is the sum of the char widths of the
    visible chars -/
-- @audit TW.C10.dw_render
theorem dw_render (cw : Char → Nat) (segs : List Seg) (h : ∀ g ∈ segs, g.ok = true) :
    displayWidth cw (renderSegs segs) = ((visibleSegs segs).map cw).sum :=
  (segs_run cw segs h).2.1

/-- and stripping the sequences gives exactly the visible chars -/
-- @audit TW.C10.strip_render
theorem strip_render (segs : List Seg) (h : ∀ g ∈ segs, g.ok = true) :
    stripAnsi (renderSegs segs) = visibleSegs segs :=
  (segs_run (fun _ => 0) segs h).2.2

/-- additive over concatenation of ESC-free strings (only the left one needs to be ESC-free) -/
-- @audit TW.C10.dw_append_escfree
theorem dw_append_escfree (cw : Char → Nat) (a b : Text) (h : ∀ c ∈ a, c ≠ ESC) :
    displayWidth cw (a ++ b) = displayWidth cw a + displayWidth cw b := by
  unfold displayWidth
  rw [dwFrom_append, run_normal_escfree a h]

/-- ESC-free text: plain sum of the char widths -/
-- @audit TW.C10.dw_escfree
theorem dw_escfree (cw : Char → Nat) (t : Text) (h : ∀ c ∈ t, c ≠ ESC) :
    displayWidth cw t = (t.map cw).sum := dwFrom_normal_escfree cw t h

/-- unchanged by inserting a well-formed sequence at a token boundary of well-formed text -/
-- @audit TW.C10.dw_insert_wellformed
theorem dw_insert_wellformed (cw : Char → Nat) (a b : List Seg) (g : Seg)
    (ha : ∀ x ∈ a, x.ok = true) (hb : ∀ x ∈ b, x.ok = true) (hg : g.ok = true) (hv : g.visible = []) :
    displayWidth cw (renderSegs (a ++ g :: b)) = displayWidth cw (renderSegs (a ++ b)) := by
  rw [dw_render, dw_render]
  · simp [visibleSegs, hv]
  · intro x hx
    rcases List.mem_append.mp hx with h | h
    · exact ha x h
    · exact hb x h
  · intro x hx
    rcases List.mem_append.mp hx with h | h
    · exact ha x h
    · rcases List.mem_cons.mp h with h | h
      · exact h ▸ hg
      · exact hb x h

/-! ### non-vacuity: the hypotheses are satisfiable by non-trivial text -/

example : (Seg.csi ['3', '1'] 'm').ok = true ∧ (Seg.osc ['8', ';', ';', 'h'] .st).ok = true ∧
    (Seg.ch 'x').ok = true := by decide

example : displayWidth cwUnicode (renderSegs [.csi ['3', '1'] 'm', .ch 'C', .ch 'é', .osc ['0'] .bel]) = 2 := by
  decide +kernel

end TW.C10

/-
  C09 — existing line breaks are kept and paragraphs wrap independently.
-/
import Lemmas.WrapAppend
namespace TW.C09

section
variable {α : Type} [CostNum α]

/-- `text.split(line_ending)` of `a ++ ending ++ b`: no match straddles the seams -/
-- @audit TW.C09.split_append
theorem split_append (e : LineEnding) (a b : Text) :
    splitEnding e (a ++ e.str ++ b) = splitEnding e a ++ splitEnding e b :=
  splitEnding_append e a b

/-- the lines `wrap` produces for text that follows at least one earlier line -/
def wrapRest (env : Env) (mo : MinimaOracle α) (o : Opts) (b : Text) : Option (List Text) :=
  wrapR (blen o.lineEnding.str) (wrapSingleLine env mo o) (splitEnding o.lineEnding b) 0 1

theorem wrap_eq_wrapR (env : Env) (mo : MinimaOracle α) (o : Opts) (t : Text) :
    wrap env mo o t = wrapR (blen o.lineEnding.str) (wrapSingleLine env mo o) (splitEnding o.lineEnding t) 0 0 :=
  rfl

theorem wrap_nonempty (env : Env) (mo : MinimaOracle α) (hmo : MoShape mo) (o : Opts)
    (hr : SplitterInRange env.isAlnum o.splitter) (t : Text) (ls : List Text)
    (h : wrap env mo o t = some ls) : ls ≠ [] := by
  unfold wrap at h
  cases hd : wrapD env mo o t with
  | none => simp [hd] at h
  | some ds =>
    simp only [hd, Option.map_some, Option.some.injEq] at h
    unfold wrapD at hd
    obtain ⟨_, _, _, _, hne⟩ := wrapParas_decomp o o.lineEnding.str (wrapSingleLine env mo o)
      (fun p n ls hl => wrapSingleLine_spec env mo hmo o hr p n ls hl) _ 0 0 ds hd
    have := hne (splitEnding_ne_nil _ _)
    intro he; subst he
    simp at h; exact this h

/-- **paragraph independence.** The result for `a ++ ending ++ b` begins with exactly the lines
    of `wrap(a)`; the remaining lines are `wrapRest b`, which does not mention `a`. (If either
    part fails, so does the whole.) -/
-- @audit TW.C09.wrap_append
theorem wrap_append (env : Env) (mo : MinimaOracle α) (hmo : MoShape mo) (o : Opts)
    (hr : SplitterInRange env.isAlnum o.splitter) (a b : Text) :
    wrap env mo o (a ++ o.lineEnding.str ++ b) =
      match wrap env mo o a with
      | none => none
      | some la =>
        match wrapRest env mo o b with
        | none => none
        | some lb => some (la ++ lb) := by
  rw [wrap_eq_wrapR, splitEnding_append, wrapR_append, ← wrap_eq_wrapR]
  cases ha : wrap env mo o a with
  | none => rfl
  | some la =>
    have hne := wrap_nonempty env mo hmo o hr a la ha
    have hpos : 0 < la.length := List.length_pos_iff.mpr hne
    simp only [Nat.zero_add]
    rw [wrapR_pos env mo o _ _ 0 la.length 1 hpos (by omega)]
    rfl

/-- with equal (in particular empty) indents the remaining lines are `wrap(b)` -/
-- @audit TW.C09.wrapRest_eq_wrap
theorem wrapRest_eq_wrap (env : Env) (mo : MinimaOracle α) (o : Opts)
    (hi : o.initialIndent = o.subsequentIndent) (b : Text) :
    wrapRest env mo o b = wrap env mo o b := by
  rw [wrap_eq_wrapR]
  exact wrapR_same_indent env mo o hi _ _ 0 1 0

theorem wrapParas_length_ge (o : Opts) (elen : Nat) (single : Text → Nat → Option (List LineD))
    (hs : ∀ p n ls, single p n = some ls → ls ≠ [])
    (paras : List Text) (off n : Nat) (ds : List LineD)
    (h : wrapParas elen single paras off n = some ds) : paras.length ≤ ds.length := by
  induction paras generalizing off n ds with
  | nil => simp
  | cons p ps ih =>
    simp only [wrapParas] at h
    split at h
    · simp at h
    · next ls hls =>
      split at h
      · next rest hrest =>
        simp only [Option.some.injEq] at h; subst h
        have := ih _ _ rest hrest
        have hl : 0 < ls.length := List.length_pos_iff.mpr (hs p n ls hls)
        simp; omega
      · simp at h

/-- text is never joined across an existing break: the output has at least as many lines as
    the input has paragraphs -/
-- @audit TW.C09.lines_ge
theorem lines_ge (env : Env) (mo : MinimaOracle α) (hmo : MoShape mo) (o : Opts)
    (hr : SplitterInRange env.isAlnum o.splitter) (t : Text) (ls : List Text)
    (h : wrap env mo o t = some ls) : (splitEnding o.lineEnding t).length ≤ ls.length := by
  unfold wrap at h
  cases hd : wrapD env mo o t with
  | none => simp [hd] at h
  | some ds =>
    simp only [hd, Option.map_some, Option.some.injEq] at h
    subst h
    unfold wrapD at hd
    have := wrapParas_length_ge o _ (wrapSingleLine env mo o)
      (fun p n ls hl => (wrapSingleLine_spec env mo hmo o hr p n ls hl).nonempty) _ 0 0 ds hd
    simpa using this

theorem splitLF_noLF (t : Text) (h : LF ∉ t) : splitLF t = [t] := by
  induction t with
  | nil => rfl
  | cons c cs ih =>
    have hc : c ≠ LF := fun he => h (by simp [he])
    simp only [splitLF, hc, if_false]
    rw [ih (fun hm => h (by simp [hm]))]
    rfl

theorem splitCRLF_noLF : ∀ (t : Text), LF ∉ t → splitCRLF t = [t]
  | [], _ => rfl
  | [c], _ => rfl
  | c :: d :: cs, h => by
    have hd : d ≠ LF := fun he => h (by simp [he])
    simp only [splitCRLF]
    have : ¬ (c = CR ∧ d = LF) := fun hh => hd hh.2
    simp only [this, if_false]
    rw [splitCRLF_noLF (d :: cs) (fun hm => h (List.mem_cons_of_mem _ hm))]
    rfl

/-- **`fill` equals `wrap`'s lines joined by the configured line ending** — including when
    `fill` takes its byte-length shortcut -/
-- @audit TW.C09.fill_eq_join
theorem fill_eq_join (env : Env) (mo : MinimaOracle α) (o : Opts) (t : Text) :
    fill env mo o t = (wrap env mo o t).map (joinWith o.lineEnding.str) := by
  unfold fill
  split
  · next hc =>
    obtain ⟨h1, h2, h3⟩ := hc
    have hno : LF ∉ t := by simpa using h2
    have hsplit : splitEnding o.lineEnding t = [t] := by
      cases o.lineEnding with
      | lf => exact splitLF_noLF t hno
      | crlf => exact splitCRLF_noLF t hno
    have hsingle : wrapSingleLine env mo o t 0 =
        some [{ indent := [], start := 0, len := blen (trimEndSp t), slice := trimEndSp t, pen := [],
                borrowed := true, inBuf := true }] := by
      unfold wrapSingleLine
      simp only [if_true]
      rw [if_pos ⟨h1, h3⟩]
    simp only [wrap, wrapD, hsplit, wrapParas, hsingle]
    simp [LineD.render, joinWith]
  · rfl

/-! ### LF → CRLF equivariance -/

/-- replace every `'\n'` by `"\r\n"` -/
def replLF : Text → Text
  | [] => []
  | c :: cs => if c = LF then CR :: LF :: replLF cs else c :: replLF cs

theorem replLF_noLF (t : Text) (h : LF ∉ t) : replLF t = t := by
  induction t with
  | nil => rfl
  | cons c cs ih =>
    have hc : c ≠ LF := fun he => h (by simp [he])
    simp only [replLF, hc, if_false, ih (fun hm => h (by simp [hm]))]

theorem replLF_append (a b : Text) : replLF (a ++ b) = replLF a ++ replLF b := by
  induction a with
  | nil => rfl
  | cons c cs ih => simp only [List.cons_append, replLF, ih]; split <;> simp

theorem replLF_head (t : Text) : (replLF t).head? ≠ some LF := by
  cases t with
  | nil => simp [replLF]
  | cons c cs =>
    simp only [replLF]
    split
    · simp [CR, LF]
    · next h => simp [h]

/-- the `"\r\n"` paragraphs of the substituted text are the `'\n'` paragraphs of the original -/
-- @audit TW.C09.split_replace
theorem split_replace (t : Text) : splitCRLF (replLF t) = splitLF t := by
  induction t with
  | nil => rfl
  | cons c cs ih =>
    simp only [replLF, splitLF]
    split
    · simp only [splitCRLF, and_self, if_true, ih]
    · next hc =>
      rw [splitCRLF_cons_nomatch c _ (fun h => replLF_head cs h.2), ih]

theorem replLF_join (ls : List Text) (hno : ∀ l ∈ ls, LF ∉ l) :
    replLF (joinWith [LF] ls) = joinWith [CR, LF] ls := by
  induction ls with
  | nil => rfl
  | cons a r ih =>
    cases r with
    | nil => simp [joinWith, replLF_noLF a (hno a (by simp))]
    | cons b r' =>
      rw [joinWith_cons_cons, joinWith_cons_cons, replLF_append, replLF_append,
        replLF_noLF a (hno a (by simp)), ih (fun l hl => hno l (by simp [hl]))]
      simp [replLF]

theorem reassemble_ending (o : Opts) (groups : List (List Word)) (line : Text) (idx n : Nat) :
    reassemble { o with lineEnding := .crlf } line groups idx n = reassemble o line groups idx n := by
  induction groups generalizing idx n with
  | nil => rfl
  | cons g gs ih =>
    simp only [reassemble, ih]

/-- **switching input and option from LF to CRLF changes the output only by that
    substitution** (for results whose lines contain no line feed — e.g. indents without one):
    the CRLF run sees the same paragraphs, hence wraps to the same lines, and joins them with
    `"\r\n"` where the LF run uses `'\n'`. Stray `'\r'` characters in the text are covered. -/
-- @audit TW.C09.crlf_equivariant
theorem crlf_equivariant (env : Env) (mo : MinimaOracle α) (o : Opts) (hlf : o.lineEnding = .lf)
    (t : Text) (ls : List Text) (hw : wrap env mo o t = some ls) (hno : ∀ l ∈ ls, LF ∉ l) :
    fill env mo o t = some (joinWith [LF] ls) ∧
    fill env mo { o with lineEnding := .crlf } (replLF t) = some (replLF (joinWith [LF] ls)) := by
  have h1 : fill env mo o t = some (joinWith [LF] ls) := by
    rw [fill_eq_join, hw, hlf]; rfl
  refine ⟨h1, ?_⟩
  rw [fill_eq_join, replLF_join ls hno]
  have hsame : wrap env mo { o with lineEnding := .crlf } (replLF t) = wrap env mo o t := by
    rw [wrap_eq_wrapR, wrap_eq_wrapR]
    simp only [splitEnding, hlf, split_replace]
    have hs : wrapSingleLine env mo { o with lineEnding := .crlf } = wrapSingleLine env mo o := by
      funext line n
      unfold wrapSingleLine wrapSingleLineSlow pipeline
      simp only [reassemble_ending]
    rw [hs]
    exact wrapR_elen _ _ _ _ _ _ _
  rw [hsame, hw]
  rfl

end

end TW.C09

/-
  C03 — optimal-fit returns a minimum-cost arrangement under the documented penalties.
  Stated over exact integers (`Int`), which is what the `f64` computation does while every
  intermediate value is an integer below 2^53 (trusted base, DESIGN §5.4).
-/
import Lemmas.OptimalBridge
import Lemmas.OptimalOwn
import Lemmas.OptimalOneLine
import TextwrapModel.Wrap
import Props.C06
namespace TW.C03

open TW.Opt

/-- chain of segments of a partition into lines, from fragment offset `off` -/
def segsOf {β : Type} : Nat → List (List β) → List (Nat × Nat)
  | _, [] => []
  | off, l :: r => (off, off + l.length) :: segsOf (off + l.length) r

theorem segsOf_chain {β : Type} (off : Nat) (p : List (List β)) (hne : ∀ l ∈ p, l ≠ []) :
    SegChain off (segsOf off p) (off + p.flatten.length) := by
  induction p generalizing off with
  | nil => simp [segsOf, SegChain]
  | cons l r ih =>
    have hl : 0 < l.length := List.length_pos_iff.mpr (hne l (by simp))
    refine ⟨rfl, by omega, ?_⟩
    have := ih (off + l.length) (fun x hx => hne x (by simp [hx]))
    simpa [Nat.add_assoc] using this

-- **1.** `TW.optimalFit_min` (Lemmas/OptimalBridge.lean; shared with C05): any conforming `minima`
-- yields a minimum-cost arrangement.
-- @audit TW.optimalFit_min

/-- hence its cost never exceeds that of any partition into non-empty lines — in particular
    the first-fit arrangement, for any penalties -/
-- @audit TW.C03.optimal_le_partition
theorem optimal_le_partition (pen : Penalties) (lws : List Int) (hl : lws.length ≤ 2) (frs : List IFrag)
    (hn : frs ≠ []) (rows : List Nat) (hmin : IsMinimaRows pen lws frs rows)
    (p : List (List IFrag)) (hflat : p.flatten = frs) (hne : ∀ l ∈ p, l ≠ []) :
    ∃ segs, wrapOptimalFitWith (fun f => f) pen frs lws rows =
        .ok (segs.map fun q => (frs.drop q.1).take (q.2 - q.1)) ∧
      arrCost pen lws frs 0 segs ≤ arrCost pen lws frs 0 (segsOf 0 p) := by
  have hmin' : IsMinimaRows pen lws (frs.map fun f => f) rows := by simpa using hmin
  obtain ⟨segs, h1, _, h3⟩ := TW.optimalFit_min (fun f => f) pen lws hl frs hn rows hmin'
  simp only [List.map_id'] at h3
  refine ⟨segs, h1, h3 _ ?_⟩
  have := segsOf_chain 0 p hne
  rw [hflat] at this
  simpa using this

/-- the hypotheses of the property, for a concrete fragment list: everything non-negative, and
    the penalty width of a fragment never exceeds the width of the fragment that follows -/
structure FragHyp (frs : List IFrag) : Prop where
  nonneg : ∀ f ∈ frs, 0 ≤ f.w ∧ 0 ≤ f.ws ∧ 0 ≤ f.pen
  penNext : ∀ k, k + 1 < frs.length → (frs.getD k fragD).pen ≤ (frs.getD (k + 1) fragD).w

theorem hyp_of_frags (pen : Penalties) (lws : List Int) (frs : List IFrag) (h : FragHyp frs) :
    (instOf pen lws frs).Hyp := by
  have nn : ∀ k, 0 ≤ (frs.getD k fragD).w ∧ 0 ≤ (frs.getD k fragD).ws ∧ 0 ≤ (frs.getD k fragD).pen := by
    intro k
    by_cases hk : k < frs.length
    · have : frs.getD k fragD = frs[k] := by simp [List.getD_eq_getElem?_getD, hk]
      rw [this]; exact h.nonneg _ (List.getElem_mem hk)
    · have : frs.getD k fragD = fragD := by
        simp [List.getD_eq_getElem?_getD, List.getElem?_eq_none (by omega : frs.length ≤ k)]
      rw [this]; simp [fragD]
  exact ⟨fun k => (nn k).1, fun k => (nn k).2.1, fun k => (nn k).2.2, h.penNext,
    Int.natCast_nonneg _, Int.natCast_nonneg _, Int.natCast_nonneg _, Int.natCast_nonneg _⟩

/-- **3. the precondition of `smawk`**: under the property's hypotheses the online cost matrix
    is column-wise totally monotone above the diagonal (strict form — exactly what `smawk`
    documents), for any conforming minima -/
-- @audit TW.C03.cost_totally_monotone
theorem cost_totally_monotone (pen : Penalties) (lws : List Int) (hl : lws.length ≤ 2) (frs : List IFrag)
    (hf : FragHyp frs) (rows : List Nat) (hmin : IsMinimaRows pen lws frs rows)
    (i i' j j' : Nat) (h1 : i < i') (h2 : i' < j) (h3 : j < j') (h4 : j' ≤ frs.length) :
    let D := Dv pen lws frs (fun j => rows.getD j 0) frs.length
    let c := (instOf pen lws frs).c
    D i' + c i' j < D i + c i j → D i' + c i' j' < D i + c i j' :=
  Inst.tm_strict (hyp_of_frags pen lws frs hf) (isColMinima_of_rows pen lws hl frs rows hmin)
    i i' j j' h1 h2 h3 h4

/-- **5. at the `wrap` level**: with `WrapAlgorithm::OptimalFit` (two line widths: first line /
    other lines), whenever the column-minima routine conforms on the paragraph's fragments, the
    groups that get reassembled into lines are a minimum-cost arrangement of those fragments -/
-- @audit TW.C03.wrapAlg_optimal
theorem wrapAlg_optimal (mo : MinimaOracle Int) (p : Penalties) (words : List Word) (a b : Nat)
    (hw : words ≠ [])
    (hmin : IsMinimaRows p [(a : Int), (b : Int)] (words.map fragOf)
      (mo (words.map fragOf) [(a : Int), (b : Int)])) :
    ∃ segs : List (Nat × Nat),
      wrapAlg mo (.optimalFit p) words [a, b] = some (segs.map fun q => (words.drop q.1).take (q.2 - q.1)) ∧
      SegChain 0 segs words.length ∧
      ∀ segs', SegChain 0 segs' words.length →
        arrCost p [(a : Int), (b : Int)] (words.map fragOf) 0 segs ≤
          arrCost p [(a : Int), (b : Int)] (words.map fragOf) 0 segs' := by
  obtain ⟨segs, h1, h2, h3⟩ := TW.optimalFit_min (fragOf (α := Int)) p [(a : Int), (b : Int)] (by simp) words hw _ hmin
  refine ⟨segs, ?_, h2, h3⟩
  unfold wrapAlg
  have hl : List.map (CostNum.ofNat (α := Int)) [a, b] = [(a : Int), (b : Int)] := rfl
  simp only [hl, h1]

/-! ### 6. without the `smawk` contract: the model runs `smawk`'s own algorithm

`TextwrapModel/Smawk.lean` models `smawk::online_column_minima` and `smawk_inner` of smawk
0.3.2 and the closure `wrap_optimal_fit` passes to them. `Lemmas/SmawkMin.lean` proves that
`smawk_inner` returns the left-most minimum of every column of a matrix that is totally
monotone in the strict form; `Lemmas/SmawkOnline.lean` proves (invariant after Galil–Park /
Eppstein) that `online_column_minima` returns true column minima of an online matrix
`D i + c i j` that is totally monotone above the diagonal; `Lemmas/OptimalTM.lean` derives that
monotonicity for textwrap's cost matrix from the chain structure of the finished columns alone;
`Lemmas/OptimalOwn.lean` puts them together: under the property's hypotheses the rows the
model's own `smawk` computes conform to the contract. The driver compares these rows with the
rows the real `smawk` returned on every optimal-fit case. -/

-- @audit TW.smawkInner_min
-- @audit TW.onlineColumnMinima_min
-- @audit TW.ocmStep_prefix_stable
-- @audit TW.ownMinima_isMinimaRows
-- @audit TW.wrapOptimalFit_eq_own

/-- **optimal-fit returns a minimum-cost arrangement — no assumption about `smawk`**: for
    non-negative integer fragments whose penalty width never exceeds the next width and at most
    two line widths, the self-contained model of `wrap_optimal_fit` returns an arrangement whose
    cost is at most that of every partition into non-empty lines (the first-fit one included),
    for any penalties -/
-- @audit TW.C03.optimal_own
theorem optimal_own (pen : Penalties) (lws : List Int) (hl : lws.length ≤ 2) (frs : List IFrag)
    (hn : frs ≠ []) (hf : FragHyp frs)
    (p : List (List IFrag)) (hflat : p.flatten = frs) (hne : ∀ l ∈ p, l ≠ []) :
    ∃ segs, (wrapOptimalFit (fun f => f) pen frs lws).1 =
        .ok (segs.map fun q => (frs.drop q.1).take (q.2 - q.1)) ∧
      arrCost pen lws frs 0 segs ≤ arrCost pen lws frs 0 (segsOf 0 p) := by
  rw [wrapOptimalFit_eq_own]
  simp only [List.map_id']
  exact optimal_le_partition pen lws hl frs hn _
    (ownMinima_isMinimaRows pen lws hl frs (hyp_of_frags pen lws frs hf)) p hflat hne

/-- **never worse than first-fit, for any penalties** (the property's "hence"): the first-fit
    arrangement is one of the partitions into non-empty lines (C06) -/
-- @audit TW.C03.optimal_own_le_firstfit
theorem optimal_own_le_firstfit (pen : Penalties) (lws : List Int) (hl : lws.length ≤ 2) (frs : List IFrag)
    (hn : frs ≠ []) (hf : FragHyp frs) :
    ∃ segs, (wrapOptimalFit (fun f => f) pen frs lws).1 =
        .ok (segs.map fun q => (frs.drop q.1).take (q.2 - q.1)) ∧
      arrCost pen lws frs 0 segs ≤
        arrCost pen lws frs 0 (segsOf 0 (wrapFirstFit (fun (f : IFrag) => f) frs lws)) :=
  optimal_own pen lws hl frs hn hf _ (TW.C06.firstFit_flatten _ frs lws)
    (TW.C06.firstFit_nonempty _ frs lws hn)

/-- the same at the `wrap` level: with the built-in splitters (no inserted hyphens) the groups
    reassembled into lines are a minimum-cost arrangement of the paragraph's fragments -/
-- @audit TW.C03.wrapAlg_optimal_own
theorem wrapAlg_optimal_own (p : Penalties) (words : List Word) (a b : Nat) (hw : words ≠ [])
    (hnp : NoPen words) :
    ∃ segs : List (Nat × Nat),
      wrapAlg (ownMinima (α := Int) p) (.optimalFit p) words [a, b] =
        some (segs.map fun q => (words.drop q.1).take (q.2 - q.1)) ∧
      SegChain 0 segs words.length ∧
      ∀ segs', SegChain 0 segs' words.length →
        arrCost p [(a : Int), (b : Int)] (words.map fragOf) 0 segs ≤
          arrCost p [(a : Int), (b : Int)] (words.map fragOf) 0 segs' :=
  wrapAlg_optimal (ownMinima p) p words a b hw
    (ownMinima_isMinimaRows p [(a : Int), (b : Int)] (by simp) (words.map fragOf) (hyp_words p _ words hnp))

end TW.C03

namespace TW.C03
open TW.Opt

/-! ### 2. the contract is satisfiable: the naive left-most column minima conform -/

theorem argminFrom_spec (cost : Nat → Int) (fuel i best : Nat) (bv : Int) (hbv : bv = cost best) :
    cost (argminFrom cost fuel i best bv) ≤ cost best ∧
      ∀ x, i ≤ x → x < i + fuel → cost (argminFrom cost fuel i best bv) ≤ cost x := by
  induction fuel generalizing i best bv with
  | zero => simp only [argminFrom]; exact ⟨Int.le_refl _, fun x h1 h2 => by omega⟩
  | succ fuel ih =>
    simp only [argminFrom]
    split
    · next hlt =>
      obtain ⟨r1, r2⟩ := ih (i + 1) i (cost i) rfl
      subst hbv
      refine ⟨by omega, ?_⟩
      intro x h1 h2
      rcases Nat.eq_or_lt_of_le h1 with h | h
      · subst h; exact r1
      · exact r2 x (by omega) (by omega)
    · next hge =>
      obtain ⟨r1, r2⟩ := ih (i + 1) best bv hbv
      subst hbv
      refine ⟨r1, ?_⟩
      intro x h1 h2
      rcases Nat.eq_or_lt_of_le h1 with h | h
      · subst h; omega
      · exact r2 x (by omega) (by omega)

theorem dpTable_congr (pen : Penalties) (lws : List Int) (frs : List IFrag) (r r' : Nat → Nat) (m : Nat)
    (h : ∀ k, k ≤ m → r k = r' k) :
    dpTable pen lws frs (prefixWidths frs) r m = dpTable pen lws frs (prefixWidths frs) r' m := by
  induction m with
  | zero => rfl
  | succ m ih =>
    simp only [dpTable]
    rw [ih (fun k hk => h k (by omega)), h (m + 1) (Nat.le_refl _)]

theorem naive_rows_length (pen : Penalties) (lws : List Int) (frs : List IFrag) (n : Nat) :
    (naiveMinima pen lws frs (prefixWidths frs) n).2.length = n + 1 := by
  induction n with
  | zero => simp [naiveMinima]
  | succ n ih => simp [naiveMinima, ih]

theorem naive_rows_prefix (pen : Penalties) (lws : List Int) (frs : List IFrag) (n j : Nat) (hj : j ≤ n) :
    (naiveMinima pen lws frs (prefixWidths frs) n).2.getD j 0 =
      (naiveMinima pen lws frs (prefixWidths frs) j).2.getD j 0 := by
  induction n with
  | zero => have : j = 0 := by omega
            subst this; rfl
  | succ n ih =>
    by_cases h : j = n + 1
    · subst h; rfl
    · rw [← ih (by omega)]
      simp only [naiveMinima]
      rw [getD_append_left' _ _ _ _ (by rw [naive_rows_length]; omega)]

/-- the table the naive routine builds is the table rebuilt from its rows -/
theorem naive_table (pen : Penalties) (lws : List Int) (frs : List IFrag) (N n : Nat) (hn : n ≤ N) :
    (naiveMinima pen lws frs (prefixWidths frs) n).1 =
      dpTable pen lws frs (prefixWidths frs)
        (fun j => (naiveMinima pen lws frs (prefixWidths frs) N).2.getD j 0) n := by
  induction n with
  | zero => rfl
  | succ n ih =>
    have ih' := ih (by omega)
    simp only [naiveMinima, dpTable]
    rw [← ih']
    have hrow : (naiveMinima pen lws frs (prefixWidths frs) N).2.getD (n + 1) 0 =
        argminFrom (fun i => cellCost pen lws frs (prefixWidths frs) (naiveMinima pen lws frs (prefixWidths frs) n).1 i (n + 1))
          n 1 0 (cellCost pen lws frs (prefixWidths frs) (naiveMinima pen lws frs (prefixWidths frs) n).1 0 (n + 1)) := by
      rw [naive_rows_prefix pen lws frs N (n + 1) hn]
      simp only [naiveMinima]
      rw [getD_append_right' _ _ _ _ (by rw [naive_rows_length])]
      simp [naive_rows_length]
    rw [hrow]

/-- **2. the model's own column minima satisfy the contract**, so the hypothesis of
    `optimalFit_min` is satisfiable for every input and the model's `wrapOptimalFitNaive` is an
    executable optimal-fit -/
-- @audit TW.C03.naive_isMinimaRows
theorem naive_isMinimaRows (pen : Penalties) (lws : List Int) (frs : List IFrag) :
    IsMinimaRows pen lws frs (naiveMinima pen lws frs (prefixWidths frs) frs.length).2 := by
  refine ⟨TW.C06.naive_shape pen lws frs (prefixWidths frs) frs.length, ?_⟩
  intro i j hij hj
  obtain ⟨k, rfl⟩ : ∃ k, j = k + 1 := ⟨j - 1, by omega⟩
  have hshape := (TW.C06.naive_shape pen lws frs (prefixWidths frs) frs.length).2
  have hlt := hshape (k + 1) (by omega) hj
  rw [(Dv_succ pen lws frs _ frs.length k hj (by omega)).1]
  -- both sides read the table at rows ≤ k: replace the full table by the one of size k
  have tk := naive_table pen lws frs frs.length k (by omega)
  have hcongr : ∀ x, x ≤ k →
      cellCost pen lws frs (prefixWidths frs)
        (dpTable pen lws frs (prefixWidths frs) (fun j => (naiveMinima pen lws frs (prefixWidths frs) frs.length).2.getD j 0) frs.length) x (k + 1) =
      cellCost pen lws frs (prefixWidths frs) (naiveMinima pen lws frs (prefixWidths frs) k).1 x (k + 1) := by
    intro x hx
    apply cellCost_congr
    rw [tk, dpTable_prefix pen lws frs _ x frs.length (by omega), dpTable_prefix pen lws frs _ x k hx]
  rw [hcongr _ (by omega), hcongr i (by omega)]
  -- the row chosen for column k+1 is the arg-min over rows 0..k
  have hrow : (naiveMinima pen lws frs (prefixWidths frs) frs.length).2.getD (k + 1) 0 =
      argminFrom (fun i => cellCost pen lws frs (prefixWidths frs) (naiveMinima pen lws frs (prefixWidths frs) k).1 i (k + 1))
        k 1 0 (cellCost pen lws frs (prefixWidths frs) (naiveMinima pen lws frs (prefixWidths frs) k).1 0 (k + 1)) := by
    rw [naive_rows_prefix pen lws frs frs.length (k + 1) hj]
    simp only [naiveMinima]
    rw [getD_append_right' _ _ _ _ (by rw [naive_rows_length])]
    simp [naive_rows_length]
  simp only [hrow]
  obtain ⟨r1, r2⟩ := argminFrom_spec
    (fun i => cellCost pen lws frs (prefixWidths frs) (naiveMinima pen lws frs (prefixWidths frs) k).1 i (k + 1))
    k 1 0 _ rfl
  rcases Nat.eq_zero_or_pos i with h0 | h0
  · subst h0; exact r1
  · exact r2 i h0 (by omega)

/-! ### non-vacuity and the hypotheses are used -/

/-- a three-fragment instance: the executable model finds the documented optimum -/
example : (match wrapOptimalFitNaive (fun (f : IFrag) => f) ⟨1000, 2500, 4, 25, 25⟩
      [⟨3, 1, 0⟩, ⟨3, 1, 0⟩, ⟨3, 1, 0⟩, ⟨1, 1, 0⟩] [7] with
    | .ok ls => ls.map List.length
    | _ => []) = [2, 2] := by decide

example : FragHyp [⟨3, 1, 0⟩, ⟨3, 1, 1⟩, ⟨3, 1, 0⟩] := by
  refine ⟨by decide, ?_⟩
  intro k hk
  have : k = 0 ∨ k = 1 := by simp at hk; omega
  rcases this with rfl | rfl <;> decide

/-! ### the hypothesis `lws.length ≤ 2` cannot be dropped: known finding KF-4

"At most two distinct line widths" does not bound the number of entries of the list. With a list
whose width changes again after the second line the cost matrix is not totally monotone, `smawk`'s
rows are not column minima and the arrangement is not a minimum — in the model and, on the same
input, in the real code (`known-findings.txt`, class KF-4; the harness replays it on every run of
the C03 stream). The witness below is checked by the kernel for the costs and by evaluation for the
rows (`smawk_inner` is defined by well-founded recursion, which the kernel does not unfold). -/

def kf4Frs : List IFrag := [⟨1, 1, 0⟩, ⟨11, 1, 1⟩, ⟨1, 1, 0⟩, ⟨11, 1, 0⟩]
def kf4Lws : List Int := [6, 6, 21, 6]
def kf4Pen : Penalties := ⟨0, 4, 3, 1, 3⟩

/-- the rows the model's own `smawk` returns on the witness: lines `[0,3)`, `[3,4)` -/
example : True := trivial
#guard ownMinima (α := Int) kf4Pen kf4Frs kf4Lws == [0, 0, 0, 0, 3]

/-- the arrangement read off those rows costs 56, another one costs 52 -/
-- @audit TW.C03.kf4_witness_costs
theorem kf4_witness_costs :
    arrCost kf4Pen kf4Lws kf4Frs 0 [(0, 3), (3, 4)] = 56 ∧
    arrCost kf4Pen kf4Lws kf4Frs 0 [(0, 1), (1, 2), (2, 4)] = 52 := by decide +kernel

/-! ### every list outside the KF-4 class: the exact dichotomy -/

/-- two line-width lists that give every line the same width -/
def LwsEquiv (l1 l2 : List Int) : Prop := ∀ k, l1.getD k (defaultLw l1) = l2.getD k (defaultLw l2)

theorem lineCost_congr (pen : Penalties) (l1 l2 : List Int) (h : LwsEquiv l1 l2) :
    lineCost pen l1 = lineCost pen l2 := by
  funext n Wi Wj last Di ln i j
  unfold lineCost
  rw [h ln]

theorem costClosure_congr (pen : Penalties) (l1 l2 : List Int) (h : LwsEquiv l1 l2) (frs : List IFrag) (W : List Int) :
    costClosure pen l1 frs W = costClosure pen l2 frs W := by
  funext minima i j
  unfold costClosure
  rw [lineCost_congr pen l1 l2 h]

theorem wrapOptimalFit_congr {β : Type} (m : β → IFrag) (pen : Penalties) (frs : List β) (l1 l2 : List Int)
    (h : LwsEquiv l1 l2) : wrapOptimalFit m pen frs l1 = wrapOptimalFit m pen frs l2 := by
  unfold wrapOptimalFit
  simp only [costClosure_congr pen l1 l2 h]

theorem arrCost_congr (pen : Penalties) (l1 l2 : List Int) (h : LwsEquiv l1 l2) (frs : List IFrag)
    (k : Nat) (segs : List (Nat × Nat)) : arrCost pen l1 frs k segs = arrCost pen l2 frs k segs := by
  induction segs generalizing k with
  | nil => rfl
  | cons s rest ih =>
    obtain ⟨a, b⟩ := s
    simp only [arrCost]
    rw [lineCost_congr pen l1 l2 h, ih]

/-- the complement of the KF-4 class: from the third entry on every entry equals the second -/
def NotKf4 (lws : List Int) : Prop := ∀ i, 2 ≤ i → i < lws.length → lws.getD i 0 = lws.getD 1 0

-- @audit TW.C03.lwsEquiv_take2
theorem lwsEquiv_take2 (lws : List Int) (h : NotKf4 lws) : LwsEquiv lws (lws.take 2) := by
  match lws, h with
  | [], _ => intro k; rfl
  | [a], _ => intro k; rfl
  | a :: b :: rest, h =>
    have hall : ∀ x ∈ rest, x = b := by
      intro x hx
      obtain ⟨i, hi, rfl⟩ := List.getElem_of_mem hx
      have := h (i + 2) (by omega) (by simp; omega)
      simpa [List.getD_eq_getElem?_getD, hi] using this
    have hlast : defaultLw (a :: b :: rest) = b := by
      unfold defaultLw
      cases hr : rest.getLast? with
      | none =>
        have : rest = [] := List.getLast?_eq_none_iff.mp hr
        subst this; rfl
      | some x =>
        have hx : x ∈ rest := List.mem_of_getLast? hr
        have hne : rest ≠ [] := List.ne_nil_of_mem hx
        have e : (a :: b :: rest).getLast? = rest.getLast? := by
          rw [List.getLast?_cons_cons, List.getLast?_cons_of_ne_nil hne]
        rw [e, hr]; exact hall x hx
    intro k
    have hd2 : defaultLw ((a :: b :: rest).take 2) = b := rfl
    rw [hlast, hd2]
    match k with
    | 0 => rfl
    | 1 => rfl
    | k + 2 =>
      simp only [List.take, List.getD_eq_getElem?_getD, List.getElem?_cons_succ]
      cases hk : rest[k]? with
      | none => simp
      | some x => simp; exact hall x (List.mem_of_getElem? hk)

/-- **optimal-fit returns a minimum-cost arrangement for every line-width list outside the KF-4
    class** — any number of entries, as long as the width does not change again after the second
    line (`NotKf4`; such a list gives every line the width its first two entries give it). Together
    with `kf4_witness_costs` this is an exact dichotomy: the property holds on the complement of the
    recorded finding class and fails inside it. -/
-- @audit TW.C03.optimal_own_ext
theorem optimal_own_ext (pen : Penalties) (lws : List Int) (hk : NotKf4 lws) (frs : List IFrag)
    (hn : frs ≠ []) (hf : FragHyp frs)
    (p : List (List IFrag)) (hflat : p.flatten = frs) (hne : ∀ l ∈ p, l ≠ []) :
    ∃ segs, (wrapOptimalFit (fun f => f) pen frs lws).1 =
        .ok (segs.map fun q => (frs.drop q.1).take (q.2 - q.1)) ∧
      arrCost pen lws frs 0 segs ≤ arrCost pen lws frs 0 (segsOf 0 p) := by
  have he := lwsEquiv_take2 lws hk
  obtain ⟨segs, h1, h2⟩ := optimal_own pen (lws.take 2) (by simp [List.length_take]) frs hn hf p hflat hne
  refine ⟨segs, ?_, ?_⟩
  · rw [wrapOptimalFit_congr _ pen frs lws (lws.take 2) he]; exact h1
  · rw [arrCost_congr pen lws (lws.take 2) he, arrCost_congr pen lws (lws.take 2) he]; exact h2

/-- the witness of KF-4 is outside `NotKf4` (so the dichotomy is not vacuous on either side) -/
example : ¬ NotKf4 kf4Lws := by
  intro h
  have := h 2 (by decide) (by decide)
  simp [kf4Lws] at this

example : NotKf4 [30, 20, 20, 20] := by
  intro i h2 hlt
  simp at hlt
  have : i = 2 ∨ i = 3 := by omega
  rcases this with rfl | rfl <;> rfl

end TW.C03

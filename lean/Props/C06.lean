/-
  C06 — both line-breaking algorithms return an ordered partition of the fragments.
  First-fit: for any number type whatsoever (no order or arithmetic laws, so IEEE doubles with
  NaN/±∞/rounding are covered). Optimal-fit: for any `minima` rows satisfying the shape part of
  the `smawk` contract (`rows[0] = 0`, `rows[j] < j`), for any number type.
-/
import Lemmas.FirstFit
import Lemmas.Backtrack
import Lemmas.OptimalShape
import Lemmas.Bytes
import TextwrapModel.Num
import Lemmas.Smawk
namespace TW.C06

section FirstFit
variable {α : Type} [Add α] [LT α] [Zero α] [DecidableRel (α := α) (· < ·)] {β : Type}

/-- concatenating the lines gives back the fragments, in order -/
-- @audit TW.C06.firstFit_flatten
theorem firstFit_flatten (m : β → Frag α) (frs : List β) (lws : List α) :
    (wrapFirstFit m frs lws).flatten = frs := by
  simp [wrapFirstFit, ffGo_flatten]

/-- every line is a non-empty run (for a non-empty input) -/
-- @audit TW.C06.firstFit_nonempty
theorem firstFit_nonempty (m : β → Frag α) (frs : List β) (lws : List α) (h : frs ≠ []) :
    ∀ l ∈ wrapFirstFit m frs lws, l ≠ [] :=
  ffGo_nonempty m lws _ 0 [] 0 frs (Or.inr h)

/-- an empty input yields exactly one empty line -/
-- @audit TW.C06.firstFit_empty
theorem firstFit_empty (m : β → Frag α) (lws : List α) : wrapFirstFit m ([] : List β) lws = [[]] := by
  simp [wrapFirstFit, ffGo]

end FirstFit

section OptimalFit
variable {α : Type} [CostNum α] {β : Type}

-- `RowsShape` and `optimalFit_partition` live in Lemmas/OptimalShape.lean (shared with C01/C04)
-- @audit TW.optimalFit_partition

/-- bounds of the left-most arg-min search -/
theorem argminFrom_le (cost : Nat → α) (fuel i best : Nat) (bv : α) :
    argminFrom cost fuel i best bv ≤ max best (i + fuel - 1) := by
  induction fuel generalizing i best bv with
  | zero => simp only [argminFrom]; omega
  | succ fuel ih =>
    simp only [argminFrom]
    split
    · have := ih (i + 1) i (cost i); omega
    · have := ih (i + 1) best bv; omega

theorem naive_rows_length (pen : Penalties) (lws : List α) (frs : List (Frag α)) (W : List α) (n : Nat) :
    (naiveMinima pen lws frs W n).2.length = n + 1 := by
  induction n with
  | zero => simp [naiveMinima]
  | succ n ih => simp [naiveMinima, ih]

theorem naive_rows_prefix (pen : Penalties) (lws : List α) (frs : List (Frag α)) (W : List α) (n j : Nat)
    (hj : j ≤ n) (k : Nat) (hk : n ≤ k) :
    (naiveMinima pen lws frs W k).2.getD j 0 = (naiveMinima pen lws frs W n).2.getD j 0 := by
  induction k with
  | zero => have : n = 0 := by omega
            subst this; rfl
  | succ k ih =>
    by_cases h : n = k + 1
    · subst h; rfl
    · have hk' : n ≤ k := by omega
      rw [← ih hk']
      simp only [naiveMinima]
      have hl := naive_rows_length pen lws frs W k
      rw [getD_append_left' _ _ _ _ (by omega)]

/-- the model's own column minima satisfy the shape contract -/
-- @audit TW.C06.naive_shape
theorem naive_shape (pen : Penalties) (lws : List α) (frs : List (Frag α)) (W : List α) (n : Nat) :
    RowsShape (naiveMinima pen lws frs W n).2 n := by
  constructor
  · rw [naive_rows_prefix pen lws frs W 0 0 (Nat.le_refl _) n (Nat.zero_le _)]
    simp [naiveMinima]
  · intro j h1 hj
    rw [naive_rows_prefix pen lws frs W j j (Nat.le_refl _) n hj]
    obtain ⟨k, rfl⟩ : ∃ k, j = k + 1 := ⟨j - 1, by omega⟩
    simp only [naiveMinima]
    have hl := naive_rows_length pen lws frs W k
    rw [getD_append_right' _ _ _ _ (by omega)]
    simp only [hl, Nat.sub_self, List.getD_cons_zero]
    have := argminFrom_le
      (fun i => cellCost pen lws frs W (naiveMinima pen lws frs W k).1 i (k + 1)) k 1 0
      (cellCost pen lws frs W (naiveMinima pen lws frs W k).1 0 (k + 1))
    omega

/-- hence the model's optimal-fit (with its own minima) always yields a partition -/
-- @audit TW.C06.optimalFitNaive_partition
theorem optimalFitNaive_partition (m : β → Frag α) (pen : Penalties) (frs : List β) (lws : List α) :
    wrapOptimalFitNaive m pen frs lws = .overflow ∨
    ∃ lines, wrapOptimalFitNaive m pen frs lws = .ok lines ∧ lines.flatten = frs ∧
      (frs ≠ [] → ∀ l ∈ lines, l ≠ []) ∧ (frs = [] → lines = [[]]) := by
  unfold wrapOptimalFitNaive
  apply TW.optimalFit_partition
  have := naive_shape pen lws (frs.map m) (prefixWidths (frs.map m)) frs.length
  simpa using this

end OptimalFit

/-! ### optimal-fit with `smawk`'s own algorithm inside the model (no contract)

`wrapOptimalFit` (TextwrapModel/Smawk.lean) runs the model of `smawk::online_column_minima`
on the model of the cost closure. `Lemmas/Smawk.lean` proves, for ANY number type and ANY
inputs (so for a matrix that is not monotone at all), that `smawk_inner` and
`online_column_minima` return normally with rows that point to earlier columns; hence: -/

-- @audit TW.wrapOptimalFit_partition
-- @audit TW.ownMinima_rowsShape

/-- for IEEE doubles in particular: negative, fractional, huge, infinite and NaN widths -/
-- @audit TW.C06.optimalFit_partition_float
theorem optimalFit_partition_float (pen : Penalties) (frs : List (Frag Float)) (lws : List Float) :
    (wrapOptimalFit (fun f => f) pen frs lws).1 = .overflow ∨
    ∃ lines, (wrapOptimalFit (fun f => f) pen frs lws).1 = .ok lines ∧ lines.flatten = frs ∧
      (frs ≠ [] → ∀ l ∈ lines, l ≠ []) ∧ (frs = [] → lines = [[]]) :=
  wrapOptimalFit_partition _ pen frs lws

/-! non-vacuity: the statements apply to IEEE doubles and to integers -/
-- (a test, not a theorem: `smawk_inner` recurses by well-founded recursion, which the kernel does not unfold)
#guard (wrapOptimalFit (fun (f : Frag Int) => f) ⟨1000, 2500, 4, 25, 25⟩
    [⟨3, 1, 0⟩, ⟨3, 1, 0⟩, ⟨3, 1, 0⟩] [7]).2 == [0, 0, 0, 2]
example : (wrapFirstFit (fun (f : Frag Int) => f) [⟨3, 1, 0⟩, ⟨3, 1, 0⟩, ⟨3, 1, 0⟩] [7]).map List.length = [2, 1] := by
  decide
example : RowsShape [0, 0, 1, 1] 3 := by
  refine ⟨rfl, ?_⟩
  intro j h1 h2
  have : j = 1 ∨ j = 2 ∨ j = 3 := by omega
  rcases this with rfl | rfl | rfl <;> decide

end TW.C06

/-
  Facts for the stability of overflowing lines (C14, ASCII separator, no hyphenation): words of
  the ASCII separator contain no space, `break_words` pieces neither; a word without a space is
  found again as itself.
-/
import Lemmas.BreakIdem
import Lemmas.FillShape
import Lemmas.HyphenPieces
import Lemmas.PipelineFacts
namespace TW

theorem noBreakInside_prefix : ∀ (a b : Text), noBreakInside (a ++ b) = true → noBreakInside a = true
  | [], _, _ => rfl
  | [_], _, _ => rfl
  | x :: y :: r, b, h => by
    simp only [List.cons_append, noBreakInside, Bool.and_eq_true] at h ⊢
    exact ⟨h.1, noBreakInside_prefix (y :: r) b (by simpa using h.2)⟩

/-- no space before a final non-space character, if no space is followed by a non-space -/
theorem noSP_of_noBreak : ∀ (X : Text) (c : Char), c ≠ SP → noBreakInside (X ++ [c]) = true → SP ∉ X
  | [], _, _, _ => by simp
  | [a], c, hc, h => by
    simp only [List.cons_append, List.nil_append, noBreakInside, Bool.and_true, Bool.not_eq_true',
      Bool.and_eq_false_iff, beq_eq_false_iff_ne, ne_eq, bne_eq_false_iff_eq] at h
    intro hm
    simp only [List.mem_singleton] at hm
    rcases h with h | h
    · exact h hm.symm
    · exact hc h
  | a :: b :: r, c, hc, h => by
    simp only [List.cons_append, noBreakInside, Bool.and_eq_true, Bool.not_eq_true',
      Bool.and_eq_false_iff, beq_eq_false_iff_ne, ne_eq, bne_eq_false_iff_eq] at h
    have ih := noSP_of_noBreak (b :: r) c hc (by simpa using h.2)
    intro hm
    rcases List.mem_cons.mp hm with rfl | hm
    · rcases h.1 with h1 | h1
      · exact h1 rfl
      · exact ih (by simp [h1])
    · exact ih hm

/-- the words of the ASCII separator contain no space -/
theorem findWordsAscii_noSP (cw : Char → Nat) (line : Text) : ∀ w ∈ findWordsAscii cw line, SP ∉ w.word := by
  intro w hw
  unfold findWordsAscii at hw
  obtain ⟨p, hp, rfl⟩ := List.mem_map.mp hw
  have hcuts := asciiGo_cuts [] false line (by simp) (by simp [noBreakInside])
  -- every piece has no break inside
  have hnb : noBreakInside p = true := by
    have : ∀ (P : List Text), AsciiCuts P → ∀ p ∈ P, noBreakInside p = true := by
      intro P
      induction P with
      | nil => intro _ p hp; simp at hp
      | cons a r ih =>
        intro hc p hp
        cases r with
        | nil => simp only [List.mem_singleton] at hp; subst hp; exact hc
        | cons b r' =>
          rcases List.mem_cons.mp hp with rfl | hp
          · exact hc.1
          · exact ih hc.2.2.2 p hp
    exact this _ hcuts p hp
  simp only [Word.from]
  cases hx : (trimEndSp p).getLast? with
  | none =>
    have : trimEndSp p = [] := List.getLast?_eq_none_iff.mp hx
    rw [this]; simp
  | some c =>
    obtain ⟨X, hX⟩ := List.getLast?_eq_some_iff.mp hx
    have hc : c ≠ SP := by
      intro h; subst h
      exact trimEndSp_no_trailing p hx
    have hpre : noBreakInside (X ++ [c]) = true := by
      rw [← hX]
      have := trimEndSp_append_rest p
      exact noBreakInside_prefix _ (p.drop (trimEndSp p).length) (by rw [this]; exact hnb)
    rw [hX]
    intro hm
    rcases List.mem_append.mp hm with hm | hm
    · exact noSP_of_noBreak X c hc hpre hm
    · simp at hm; exact hc hm.symm

/-- pieces of a broken word are sub-texts of it -/
theorem breakApart_sub (cw : Char → Nat) (limit : Nat) (w : Word) :
    ∀ p ∈ breakApart cw limit w, ∀ c ∈ p.word, c ∈ w.word := by
  intro p hp c hc
  have hflat := breakGo_flatten cw limit w.ws w.pen .normal [] 0 w.word
  simp only [List.nil_append] at hflat
  rw [← hflat]
  unfold breakApart at hp
  exact List.mem_flatten.mpr ⟨p.word, List.mem_map.mpr ⟨p, hp, rfl⟩, hc⟩

/-- where the fragments of `break_words` come from -/
theorem mem_breakWords (cw : Char → Nat) (limit : Nat) (ws : List Word) :
    ∀ f ∈ breakWords cw limit ws, ∃ w ∈ ws, (limit < w.width ∧ f ∈ breakApart cw limit w) ∨ (f = w ∧ w.width ≤ limit) := by
  induction ws with
  | nil => intro f hf; simp [breakWords] at hf
  | cons w r ih =>
    intro f hf
    simp only [breakWords] at hf
    rcases List.mem_append.mp hf with hf | hf
    · split at hf
      · next hlt => exact ⟨w, by simp, Or.inl ⟨hlt, hf⟩⟩
      · next hle => simp only [List.mem_singleton] at hf; exact ⟨w, by simp, Or.inr ⟨hf, by omega⟩⟩
    · obtain ⟨w', hw', h⟩ := ih f hf
      exact ⟨w', by simp [hw'], h⟩

/-- a non-empty text without a space is found as a single word -/
theorem findWordsAscii_single (cw : Char → Nat) (l : Text) (hne : l ≠ []) (hsp : SP ∉ l) :
    findWordsAscii cw l = [mkWord cw l []] := by
  unfold findWordsAscii
  have := asciiGo_word [] l [] hsp
  simp only [List.append_nil, List.nil_append] at this
  rw [this]
  have he : l.isEmpty = false := by cases l <;> simp_all
  simp [asciiGo, he, from_last cw l hsp]

/-- a member of a list of texts is a contiguous part of the concatenation -/
theorem mem_flatten_split (L : List Text) (x : Text) (h : x ∈ L) : ∃ A B, L.flatten = A ++ x ++ B := by
  obtain ⟨l1, l2, rfl⟩ := List.append_of_mem h
  exact ⟨l1.flatten, l2.flatten, by simp⟩

/-- a piece of a broken word is a contiguous part of it -/
theorem breakApart_part (cw : Char → Nat) (limit : Nat) (w : Word) :
    ∀ p ∈ breakApart cw limit w, ∃ A B, w.word = A ++ p.word ++ B := by
  intro p hp
  have hflat := breakGo_flatten cw limit w.ws w.pen .normal [] 0 w.word
  simp only [List.nil_append] at hflat
  unfold breakApart at hp
  obtain ⟨A, B, h⟩ := mem_flatten_split _ p.word (List.mem_map.mpr ⟨p, hp, rfl⟩)
  exact ⟨A, B, by rw [← hflat, h]⟩

/-- the pieces of one split word are contiguous parts of it -/
theorem splitOK_part (cw : Char → Nat) (w : Word) (pre : Text) (pts : List Nat) (ps : List Word)
    (hok : SplitOK cw w pre pts ps) : ∀ p ∈ ps, ∃ A B, w.word = A ++ p.word ++ B := by
  induction pts generalizing pre ps with
  | nil =>
    match ps, hok with
    | [p], hok =>
      intro x hx; simp only [List.mem_singleton] at hx; subst hx
      exact ⟨pre, [], by simpa using hok.2.2.2.symm⟩
  | cons idx pts ih =>
    match ps, hok with
    | p :: ps', hok =>
      obtain ⟨_, _, _, _, ⟨post, h5⟩, h6⟩ := hok
      intro x hx
      rcases List.mem_cons.mp hx with rfl | hx
      · exact ⟨pre, post, h5⟩
      · exact ih (pre ++ p.word) ps' h6 x hx

/-- what is known of every piece of `split_words` with a built-in splitter: a contiguous part of
    a word, without a split point of its own -/
theorem splitWords_pieces (env : Env) (sp : Splitter) (hb : Builtin sp) (ws sw : List Word)
    (h : splitWords env sp ws = some sw) :
    ∀ s ∈ sw, (∃ w ∈ ws, ∃ A B, w.word = A ++ s.word ++ B) ∧ sp.points env.isAlnum s.word = [] := by
  induction ws generalizing sw with
  | nil => simp [splitWords] at h; subst h; simp
  | cons w rest ih =>
    simp only [splitWords] at h
    split at h
    · next a b ha hb' =>
      simp only [Option.some.injEq] at h; subst h
      intro s hs
      rcases List.mem_append.mp hs with hs | hs
      · cases sp with
        | none =>
          simp only [Splitter.points, splitOne, or_true, if_true] at ha
          split at ha
          · next t ht =>
            simp only [Option.some.injEq] at ha; subst ha
            simp only [List.mem_singleton] at hs; subst hs
            have : t = w.word := by
              have := sliceFrom?_append [] w.word
              simp only [List.nil_append, blen_nil] at this
              rw [this] at ht; simpa using ht.symm
            exact ⟨⟨w, by simp, [], [], by simp [this]⟩, rfl⟩
          · simp at ha
        | hyphen =>
          have hok := splitOne_ok env.cw w _ 0 [] w.word rfl rfl
            (fun i hi => (hyphenPoints_boundary env.isAlnum w.word i hi).choose_spec.choose_spec.2.2)
            (Or.inr rfl) a ha
          obtain ⟨A, B, e⟩ := splitOK_part env.cw w [] _ a hok s hs
          exact ⟨⟨w, by simp, A, B, e⟩, splitOne_pointFree env.cw env.isAlnum w a ha s hs⟩
        | custom f => exact absurd hb (by simp [Builtin])
      · obtain ⟨⟨w', hw', r⟩, h2⟩ := ih b hb' s hs
        exact ⟨⟨w', by simp [hw'], r⟩, h2⟩
    · simp at h

end TW

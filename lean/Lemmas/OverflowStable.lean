/-
  Facts for the stability of overflowing lines (C14, ASCII separator, no hyphenation): words of
  the ASCII separator contain no space, `break_words` pieces neither; a word without a space is
  found again as itself.
-/
import Lemmas.BreakIdem
import Lemmas.FillShape
namespace TW

theorem noBreakInside_prefix : ∀ (a b : Text), noBreakInside (a ++ b) = true → noBreakInside a = true
  | [], _, _ => rfl
  | [_], _, _ => rfl
  | x :: y :: r, b, h => by
    simp only [List.cons_append, noBreakInside, Bool.and_eq_true] at h ⊢
    exact ⟨h.1, noBreakInside_prefix (y :: r) b (by simpa using h.2)⟩

/-- no space before a final non-space character, if no space is followed by a non-space -/
theorem noSP_of_noBreak : ∀ (X : Text) (c : Char), c ≠ SP → noBreakInside (X ++ [c]) = true → SP ∉ X
  | [], _, _, _ => by simp
  | [a], c, hc, h => by
    simp only [List.cons_append, List.nil_append, noBreakInside, Bool.and_true, Bool.not_eq_true',
      Bool.and_eq_false_iff, beq_eq_false_iff_ne, ne_eq, bne_eq_false_iff_eq] at h
    intro hm
    simp only [List.mem_singleton] at hm
    rcases h with h | h
    · exact h hm.symm
    · exact hc h
  | a :: b :: r, c, hc, h => by
    simp only [List.cons_append, noBreakInside, Bool.and_eq_true, Bool.not_eq_true',
      Bool.and_eq_false_iff, beq_eq_false_iff_ne, ne_eq, bne_eq_false_iff_eq] at h
    have ih := noSP_of_noBreak (b :: r) c hc (by simpa using h.2)
    intro hm
    rcases List.mem_cons.mp hm with rfl | hm
    · rcases h.1 with h1 | h1
      · exact h1 rfl
      · exact ih (by simp [h1])
    · exact ih hm

/-- the words of the ASCII separator contain no space -/
theorem findWordsAscii_noSP (cw : Char → Nat) (line : Text) : ∀ w ∈ findWordsAscii cw line, SP ∉ w.word := by
  intro w hw
  unfold findWordsAscii at hw
  obtain ⟨p, hp, rfl⟩ := List.mem_map.mp hw
  have hcuts := asciiGo_cuts [] false line (by simp) (by simp [noBreakInside])
  -- every piece has no break inside
  have hnb : noBreakInside p = true := by
    have : ∀ (P : List Text), AsciiCuts P → ∀ p ∈ P, noBreakInside p = true := by
      intro P
      induction P with
      | nil => intro _ p hp; simp at hp
      | cons a r ih =>
        intro hc p hp
        cases r with
        | nil => simp only [List.mem_singleton] at hp; subst hp; exact hc
        | cons b r' =>
          rcases List.mem_cons.mp hp with rfl | hp
          · exact hc.1
          · exact ih hc.2.2.2 p hp
    exact this _ hcuts p hp
  simp only [Word.from]
  cases hx : (trimEndSp p).getLast? with
  | none =>
    have : trimEndSp p = [] := List.getLast?_eq_none_iff.mp hx
    rw [this]; simp
  | some c =>
    obtain ⟨X, hX⟩ := List.getLast?_eq_some_iff.mp hx
    have hc : c ≠ SP := by
      intro h; subst h
      exact trimEndSp_no_trailing p hx
    have hpre : noBreakInside (X ++ [c]) = true := by
      rw [← hX]
      have := trimEndSp_append_rest p
      exact noBreakInside_prefix _ (p.drop (trimEndSp p).length) (by rw [this]; exact hnb)
    rw [hX]
    intro hm
    rcases List.mem_append.mp hm with hm | hm
    · exact noSP_of_noBreak X c hc hpre hm
    · simp at hm; exact hc hm.symm

/-- pieces of a broken word are sub-texts of it -/
theorem breakApart_sub (cw : Char → Nat) (limit : Nat) (w : Word) :
    ∀ p ∈ breakApart cw limit w, ∀ c ∈ p.word, c ∈ w.word := by
  intro p hp c hc
  have hflat := breakGo_flatten cw limit w.ws w.pen .normal [] 0 w.word
  simp only [List.nil_append] at hflat
  rw [← hflat]
  unfold breakApart at hp
  exact List.mem_flatten.mpr ⟨p.word, List.mem_map.mpr ⟨p, hp, rfl⟩, hc⟩

/-- where the fragments of `break_words` come from -/
theorem mem_breakWords (cw : Char → Nat) (limit : Nat) (ws : List Word) :
    ∀ f ∈ breakWords cw limit ws, ∃ w ∈ ws, (limit < w.width ∧ f ∈ breakApart cw limit w) ∨ (f = w ∧ w.width ≤ limit) := by
  induction ws with
  | nil => intro f hf; simp [breakWords] at hf
  | cons w r ih =>
    intro f hf
    simp only [breakWords] at hf
    rcases List.mem_append.mp hf with hf | hf
    · split at hf
      · next hlt => exact ⟨w, by simp, Or.inl ⟨hlt, hf⟩⟩
      · next hle => simp only [List.mem_singleton] at hf; exact ⟨w, by simp, Or.inr ⟨hf, by omega⟩⟩
    · obtain ⟨w', hw', h⟩ := ih f hf
      exact ⟨w', by simp [hw'], h⟩

/-- a non-empty text without a space is found as a single word -/
theorem findWordsAscii_single (cw : Char → Nat) (l : Text) (hne : l ≠ []) (hsp : SP ∉ l) :
    findWordsAscii cw l = [mkWord cw l []] := by
  unfold findWordsAscii
  have := asciiGo_word [] l [] hsp
  simp only [List.append_nil, List.nil_append] at this
  rw [this]
  have he : l.isEmpty = false := by cases l <;> simp_all
  simp [asciiGo, he, from_last cw l hsp]

end TW

/-
  Force-breaking is idempotent: a piece produced by `break_apart` is not cut again — the run that
  produced it made no cut inside it, and a fresh run on the piece alone replays the same states.
-/
import Lemmas.Break
namespace TW

/-- a fresh run over `cur` followed by anything reaches the loop state `(s, cur, w)` without
    having emitted a piece -/
def Replay (cw : Char → Nat) (limit : Nat) (cur : Text) (s : Ansi) (w : Nat) : Prop :=
  ∀ ws pen rest, breakGo cw limit ws pen .normal [] 0 (cur ++ rest) = breakGo cw limit ws pen s cur w rest

theorem Replay.nil (cw : Char → Nat) (limit : Nat) : Replay cw limit [] .normal 0 := by
  intro ws pen rest; rfl

theorem breakGo_pieces_replay (cw : Char → Nat) (limit : Nat) (ws pen : Text) (s : Ansi) (cur : Text)
    (w : Nat) (rest : Text) (hr : Replay cw limit cur s w) :
    ∀ p ∈ breakGo cw limit ws pen s cur w rest, ∀ ws' pen',
      breakGo cw limit ws' pen' .normal [] 0 p.word = [{ word := p.word, width := p.width, ws := ws', pen := pen' }] := by
  induction rest generalizing s cur w with
  | nil =>
    intro p hp ws' pen'
    simp only [breakGo] at hp
    split at hp
    · simp at hp
    · next hne =>
      simp only [List.mem_singleton] at hp; subst hp
      have := hr ws' pen' []
      simp only [List.append_nil] at this
      rw [this]
      simp [breakGo, hne]
  | cons c cs ih =>
    intro p hp ws' pen'
    simp only [breakGo] at hp
    split at hp
    · next hv =>
      have hsn : s = .normal := step_visible_normal s c hv
      split at hp
      · next hcut =>
        -- a cut: the emitted piece is `cur`
        rcases List.mem_cons.mp hp with rfl | hp
        · have := hr ws' pen' []
          simp only [List.append_nil] at this
          rw [this]
          have hcur : cur.isEmpty = false := by
            -- a cut needs positive width, so `cur` is not empty
            cases cur with
            | nil =>
              exfalso
              have h0 := hr [] [] [c]
              -- with `cur = []` the fresh run is in state (normal, [], 0); `w` must then be 0
              simp only [List.nil_append] at h0
              subst hsn
              simp only [breakGo, hv, if_true] at h0
              by_cases hw0 : 0 < w
              · simp only [hw0, hcut.2, and_self, if_true, Nat.lt_irrefl, false_and, if_false] at h0
                have := congrArg List.length h0
                simp [breakGo] at this
              · exact hw0 hcut.1
            | cons a r => rfl
          simp [breakGo, hcur]
        · -- later pieces: the fresh run on `[c] ++ …` reaches the state after the cut
          apply ih (s.step c).1 [c] (cw c) _ p hp ws' pen'
          intro ws2 pen2 rest2
          subst hsn
          simp only [List.cons_append, List.nil_append, breakGo, hv, if_true, Nat.lt_irrefl, false_and,
            if_false, Nat.zero_add]
      · next hncut =>
        apply ih (s.step c).1 (cur ++ [c]) (w + cw c) _ p hp ws' pen'
        intro ws2 pen2 rest2
        have := hr ws2 pen2 (c :: rest2)
        rw [show cur ++ [c] ++ rest2 = cur ++ c :: rest2 by simp, this]
        simp only [breakGo, hv, if_true, hncut, if_false]
    · next hv =>
      apply ih (s.step c).1 (cur ++ [c]) w _ p hp ws' pen'
      intro ws2 pen2 rest2
      have := hr ws2 pen2 (c :: rest2)
      rw [show cur ++ [c] ++ rest2 = cur ++ c :: rest2 by simp, this]
      simp only [breakGo, hv, Bool.false_eq_true, if_false]

/-- **`break_apart` applied to one of its own pieces returns that piece** -/
theorem breakApart_idem (cw : Char → Nat) (limit : Nat) (w : Word) :
    ∀ p ∈ breakApart cw limit w, breakApart cw limit p = [p] := by
  intro p hp
  unfold breakApart at hp ⊢
  exact breakGo_pieces_replay cw limit w.ws w.pen .normal [] 0 w.word (Replay.nil cw limit) p hp p.ws p.pen

/-- **`break_words` is idempotent** -/
theorem breakWords_idem (cw : Char → Nat) (limit : Nat) (ws : List Word) :
    breakWords cw limit (breakWords cw limit ws) = breakWords cw limit ws := by
  have key : ∀ ps : List Word, (∀ p ∈ ps, limit < p.width → breakApart cw limit p = [p]) →
      breakWords cw limit ps = ps := by
    intro ps
    induction ps with
    | nil => intro _; rfl
    | cons p r ih =>
      intro h
      simp only [breakWords]
      rw [ih (fun x hx => h x (by simp [hx]))]
      split
      · next hlt => rw [h p (by simp) hlt]; rfl
      · rfl
  apply key
  induction ws with
  | nil => intro p hp; simp [breakWords] at hp
  | cons w r ih =>
    intro p hp hlt
    simp only [breakWords] at hp
    rcases List.mem_append.mp hp with hp | hp
    · split at hp
      · exact breakApart_idem cw limit w p hp
      · next hle =>
        simp only [List.mem_singleton] at hp; subst hp
        exact absurd hlt hle
    · exact ih p hp hlt

end TW

/-
  The pieces of `split_words` (hyphen splitter) contain no hyphen split point of their own, and
  neither does any contiguous part of such a piece: splitting is idempotent on its pieces.
-/
import Lemmas.SplitWords
namespace TW

/-- `t` has no hyphen split point -/
def PointFree (isAlnum : Char → Bool) (t : Text) : Prop := hyphenPoints isAlnum t = []

theorem pointFree_iff (isAlnum : Char → Bool) (t : Text) :
    PointFree isAlnum t ↔ ∀ o, ¬ IsHyphenPoint isAlnum none 0 t o := by
  unfold PointFree hyphenPoints
  constructor
  · intro h o ho
    have := (hyphenPointsGo_mem isAlnum none 0 t o).mpr ho
    rw [h] at this; simp at this
  · intro h
    cases hl : hyphenPointsGo isAlnum none 0 t with
    | nil => rfl
    | cons x xs =>
      exact absurd ((hyphenPointsGo_mem isAlnum none 0 t x).mp (by rw [hl]; simp)) (h x)

theorem lastOr_append_ne_nil (x a : Text) (q : Option Char) (ha : a ≠ []) :
    lastOr (x ++ a) q = lastOr a none := by
  unfold lastOr
  cases hl : a.getLast? with
  | none => exact absurd (List.getLast?_eq_none_iff.mp hl) ha
  | some y =>
    have : (x ++ a).getLast? = some y := by
      rw [List.getLast?_append, hl]; rfl
    rw [this]

/-- a point of a contiguous part is a point of the whole -/
theorem isHyphenPoint_lift (isAlnum : Char → Bool) (pre u post : Text) (o : Nat)
    (h : IsHyphenPoint isAlnum none 0 u o) :
    IsHyphenPoint isAlnum none 0 (pre ++ u ++ post) (blen pre + o) := by
  obtain ⟨a, y, b, h1, h2, h3, h4⟩ := h
  have ha : a ≠ [] := by
    intro he; subst he; simp at h3
  refine ⟨pre ++ a, y, b ++ post, by rw [h1]; simp, h2, ?_, by simp only [blen_append]; omega⟩
  rw [lastOr_append_ne_nil pre a none ha]; exact h3

theorem pointFree_sub (isAlnum : Char → Bool) (pre u post : Text)
    (h : PointFree isAlnum (pre ++ u ++ post)) : PointFree isAlnum u := by
  rw [pointFree_iff] at h ⊢
  intro o ho
  exact h _ (isHyphenPoint_lift isAlnum pre u post o ho)

/-- a point inside a piece lies strictly inside it -/
theorem isHyphenPoint_range (isAlnum : Char → Bool) (u : Text) (o : Nat)
    (h : IsHyphenPoint isAlnum none 0 u o) : 0 < o ∧ o < blen u := by
  obtain ⟨a, y, b, h1, _, _, h4⟩ := h
  rw [h1]
  simp only [blen_append, blen_cons]
  have := utf8Size_pos y
  have hh : HY.utf8Size = 1 := by decide
  omega

/-- the pieces cut at ALL sorted hyphen points of the word are point-free -/
theorem splitOK_pointFree (cw : Char → Nat) (isAlnum : Char → Bool) (w : Word) (pre : Text) (pts : List Nat)
    (ps : List Word) (hok : SplitOK cw w pre pts ps)
    (hsorted : pts.Pairwise (· < ·))
    (hall : ∀ o, IsHyphenPoint isAlnum none 0 w.word o → blen pre < o → o ∈ pts)
    (hpre : ∃ post, w.word = pre ++ post) :
    ∀ p ∈ ps, PointFree isAlnum p.word := by
  induction pts generalizing pre ps with
  | nil =>
    match ps, hok with
    | [p], hok =>
      obtain ⟨_, _, _, h4⟩ := hok
      intro x hx
      simp only [List.mem_singleton] at hx; subst hx
      rw [pointFree_iff]
      intro o ho
      have hl := isHyphenPoint_lift isAlnum pre x.word [] o ho
      simp only [List.append_nil, h4] at hl
      have := hall _ hl (by have := (isHyphenPoint_range isAlnum x.word o ho).1; omega)
      simp at this
  | cons idx pts ih =>
    match ps, hok with
    | p :: ps', hok =>
      obtain ⟨h1, _, _, _, ⟨post, h5⟩, h6⟩ := hok
      intro x hx
      rcases List.mem_cons.mp hx with rfl | hx
      · rw [pointFree_iff]
        intro o ho
        have hl := isHyphenPoint_lift isAlnum pre x.word post o ho
        rw [← h5] at hl
        obtain ⟨r1, r2⟩ := isHyphenPoint_range isAlnum x.word o ho
        have hm := hall _ hl (by omega)
        -- the point lies strictly before `idx`, the smallest remaining point
        have hlt : blen pre + o < idx := by
          rw [← h1]; simp only [blen_append]; omega
        rcases List.mem_cons.mp hm with e | hm
        · omega
        · have := (List.pairwise_cons.mp hsorted).1 _ hm
          omega
      · apply ih (pre ++ p.word) ps' h6 (List.pairwise_cons.mp hsorted).2 _ ⟨post, by rw [h5]⟩ x hx
        intro o ho hgt
        have hm := hall o ho (by simp only [blen_append] at hgt; omega)
        rcases List.mem_cons.mp hm with e | hm
        · rw [h1] at hgt; omega
        · exact hm

/-- **the pieces of `split_words` with the hyphen splitter have no hyphen split point** -/
theorem splitOne_pointFree (cw : Char → Nat) (isAlnum : Char → Bool) (w : Word) (ps : List Word)
    (h : splitOne cw w (hyphenPoints isAlnum w.word) 0 = some ps) : ∀ p ∈ ps, PointFree isAlnum p.word := by
  have hok := splitOne_ok cw w _ 0 [] w.word rfl rfl
    (fun i hi => (hyphenPoints_boundary isAlnum w.word i hi).choose_spec.choose_spec.2.2) (Or.inr rfl) ps h
  apply splitOK_pointFree cw isAlnum w [] _ ps hok (hyphenPointsGo_sorted isAlnum none 0 w.word) _ ⟨w.word, rfl⟩
  intro o ho _
  exact (hyphenPointsGo_mem isAlnum none 0 w.word o).mpr ho

end TW

/-
  Lemmas about the model of `smawk` (TextwrapModel/Smawk.lean): `smawk_inner` never panics on
  strictly increasing rows and columns, for ANY matrix (no monotonicity), and stores a member
  of `rows` for every column; `online_column_minima` never panics, runs exactly `size - 1`
  iterations, and returns `size` entries whose rows point to earlier columns.
-/
import TextwrapModel.Wrap
import Lemmas.OptimalShape
namespace TW

section
variable {α : Type} [CostNum α]

/-- `m` answers on all of `rows × cols` -/
def MTotal (m : Nat → Nat → Option α) (rows cols : List Nat) : Prop :=
  ∀ r ∈ rows, ∀ c ∈ cols, (m r c).isSome

theorem smawkPop_spec (m : Nat → Nat → Option α) (cols : List Nat) (r : Nat) (st : List Nat)
    (hst : MTotal m st cols) (hr : MTotal m [r] cols) (hlen : st.length ≤ cols.length) :
    ∃ st', smawkPop m cols r st = some st' ∧ st' <:+ st := by
  induction st with
  | nil => exact ⟨[], rfl, List.suffix_refl _⟩
  | cons top rest ih =>
    simp only [smawkPop]
    have hlt : rest.length < cols.length := by simp at hlen; omega
    have hc : cols[rest.length]? = some cols[rest.length] := List.getElem?_eq_getElem hlt
    rw [hc]
    have hmem : cols[rest.length] ∈ cols := List.getElem_mem hlt
    obtain ⟨a, ha⟩ := Option.isSome_iff_exists.mp (hst top (by simp) _ hmem)
    obtain ⟨b, hb⟩ := Option.isSome_iff_exists.mp (hr r (by simp) _ hmem)
    simp only [ha, hb]
    split
    · obtain ⟨st', h1, h2⟩ := ih (fun x hx => hst x (by simp [hx])) (by simp at hlen; omega)
      exact ⟨st', h1, h2.trans (List.suffix_cons _ _)⟩
    · exact ⟨_, rfl, List.suffix_refl _⟩

theorem smawkReduce_spec (m : Nat → Nat → Option α) (cols : List Nat) (rows st : List Nat)
    (hst : MTotal m st cols) (hr : MTotal m rows cols) (hlen : st.length ≤ cols.length) :
    ∃ out, smawkReduce m cols rows st = some out ∧ out.length ≤ cols.length ∧
      out.reverse.Sublist (st.reverse ++ rows) ∧
      ((st ≠ [] ∨ (rows ≠ [] ∧ cols ≠ [])) → out ≠ []) := by
  induction rows generalizing st with
  | nil => exact ⟨st, rfl, hlen, by simp, by intro h; rcases h with h | h; exact h; exact absurd rfl h.1⟩
  | cons r rs ih =>
    simp only [smawkReduce]
    obtain ⟨st', h1, h2⟩ := smawkPop_spec m cols r st hst (fun x hx c hc => by
      simp at hx; subst hx; exact hr _ (by simp) c hc) hlen
    rw [h1]
    dsimp only
    have hst' : MTotal m st' cols := fun x hx => hst x (h2.subset hx)
    have hlen' : st'.length ≤ cols.length := Nat.le_trans h2.length_le hlen
    have hrs : MTotal m rs cols := fun x hx => hr x (by simp [hx])
    have hpre : st'.reverse.Sublist st.reverse := (List.reverse_prefix.mpr h2).sublist
    by_cases hne : st'.length ≠ cols.length
    · rw [if_pos hne]
      obtain ⟨out, o1, o2, o3, o4⟩ := ih (r :: st') (fun x hx => by
        simp at hx; rcases hx with rfl | hx
        · exact hr _ (by simp)
        · exact hst' x hx) hrs (by simp only [List.length_cons]; omega)
      refine ⟨out, o1, o2, ?_, fun _ => o4 (Or.inl (by simp))⟩
      refine o3.trans ?_
      simp only [List.reverse_cons, List.append_assoc, List.singleton_append]
      exact hpre.append (List.Sublist.refl _)
    · have hne' : st'.length = cols.length := by omega
      rw [if_neg hne]
      obtain ⟨out, o1, o2, o3, o4⟩ := ih st' hst' hrs hlen'
      refine ⟨out, o1, o2, ?_, ?_⟩
      · refine o3.trans ?_
        exact hpre.append (List.sublist_cons_self _ _)
      · intro h
        apply o4
        left
        intro he
        subst he
        simp at hne'
        rcases h with h | h
        · have : st = [] := by
            rcases st with _ | ⟨a, t⟩
            · rfl
            · simp at hlen; omega
          exact h this
        · exact h.2 (List.eq_nil_of_length_eq_zero hne'.symm)


theorem smawkScan_spec (m : Nat → Nat → Option α) (col lastRow : Nat) (rest : List Nat) :
    ∀ (row : Nat) (pv : α) (pr : Nat),
    List.Pairwise (· < ·) (row :: rest) → lastRow ∈ row :: rest →
    (∀ x ∈ rest, (m x col).isSome) → pr ≤ row →
    ∃ rest' best, smawkScan m col lastRow row rest pv pr = some (lastRow, rest', best) ∧
      (lastRow :: rest') <:+ (row :: rest) ∧ best ≤ lastRow ∧ (best = pr ∨ best ∈ rest) := by
  induction rest with
  | nil =>
    intro row pv pr _ hmem _ hpr
    have : lastRow = row := by simpa using hmem
    subst this
    exact ⟨[], pr, by simp [smawkScan], List.suffix_refl _, hpr, Or.inl rfl⟩
  | cons x rest' ih =>
    intro row pv pr hs hmem hm hpr
    unfold smawkScan
    by_cases he : row = lastRow
    · subst he
      exact ⟨x :: rest', pr, by simp, List.suffix_refl _, hpr, Or.inl rfl⟩
    · rw [if_neg he]
      dsimp only
      obtain ⟨v, hv⟩ := Option.isSome_iff_exists.mp (hm x (by simp))
      rw [hv]
      dsimp only
      have hs' : List.Pairwise (· < ·) (x :: rest') := (List.pairwise_cons.mp hs).2
      have hrx : row < x := (List.pairwise_cons.mp hs).1 x (by simp)
      have hmem' : lastRow ∈ x :: rest' := by
        rcases List.mem_cons.mp hmem with h | h
        · exact absurd h.symm he
        · exact h
      have hm' : ∀ y ∈ rest', (m y col).isSome := fun y hy => hm y (by simp [hy])
      split
      · obtain ⟨r', b, h1, h2, h3, h4⟩ := ih x v x hs' hmem' hm' (Nat.le_refl _)
        refine ⟨r', b, h1, h2.trans (List.suffix_cons _ _), h3, ?_⟩
        rcases h4 with h4 | h4
        · right; simp [h4]
        · right; simp [h4]
      · obtain ⟨r', b, h1, h2, h3, h4⟩ := ih x pv pr hs' hmem' hm' (by omega)
        refine ⟨r', b, h1, h2.trans (List.suffix_cons _ _), h3, ?_⟩
        rcases h4 with h4 | h4
        · left; exact h4
        · right; simp [h4]

/-- the columns with even index -/
def evenElems {γ : Type} : List γ → List γ
  | [] => []
  | [a] => [a]
  | a :: _ :: t => a :: evenElems t

theorem mem_of_mem_oddElems {γ : Type} {x : γ} : ∀ {l : List γ}, x ∈ oddElems l → x ∈ l
  | [], h => by simp [oddElems] at h
  | [_], h => by simp [oddElems] at h
  | _ :: b :: t, h => by
    simp only [oddElems, List.mem_cons] at h
    rcases h with h | h
    · simp [h]
    · have := mem_of_mem_oddElems h
      simp [this]

theorem mem_of_mem_evenElems {γ : Type} {x : γ} : ∀ {l : List γ}, x ∈ evenElems l → x ∈ l
  | [], h => by simp [evenElems] at h
  | [_], h => by simpa [evenElems] using h
  | a :: _ :: t, h => by
    simp only [evenElems, List.mem_cons] at h
    rcases h with h | h
    · simp [h]
    · have := mem_of_mem_evenElems h
      simp [this]

theorem oddElems_sublist {γ : Type} : ∀ l : List γ, (oddElems l).Sublist l
  | [] => by simp [oddElems]
  | [_] => by simp [oddElems]
  | a :: b :: t => by
    simp only [oddElems]
    exact ((oddElems_sublist t).cons_cons b).cons a

theorem getD_set' (l : List Nat) (i v k : Nat) (hi : i < l.length) :
    (l.set i v).getD k 0 = if k = i then v else l.getD k 0 := by
  simp only [List.getD_eq_getElem?_getD, List.getElem?_set]
  by_cases h : i = k
  · subst h; simp [hi]
  · have : ¬ k = i := fun e => h e.symm
    simp [h, this]

theorem mem_suffix_of_le {L S' : List Nat} {x y : Nat} (hs : List.Pairwise (· < ·) L)
    (hsuf : (x :: S') <:+ L) (hy : y ∈ L) (hxy : x ≤ y) : y ∈ x :: S' := by
  obtain ⟨t, rfl⟩ := hsuf
  rcases List.mem_append.mp hy with h | h
  · exfalso
    have := (List.pairwise_append.mp hs).2.2 y h x (by simp)
    omega
  · exact h

theorem getLast?_of_suffix {L S : List Nat} (hsuf : S <:+ L) (hne : S ≠ []) :
    S.getLast? = L.getLast? := by
  obtain ⟨t, rfl⟩ := hsuf
  rw [List.getLast?_append]
  cases S with
  | nil => exact absurd rfl hne
  | cons a S' =>
    cases h : (a :: S').getLast? with
    | none => simp at h
    | some v => simp

theorem le_of_mem_sorted_cons {x y : Nat} {S : List Nat} (hs : List.Pairwise (· < ·) (x :: S))
    (hy : y ∈ x :: S) : x ≤ y := by
  rcases List.mem_cons.mp hy with h | h
  · omega
  · have := (List.pairwise_cons.mp hs).1 y h
    omega

theorem setAt_spec (l : List Nat) (i v : Nat) (hi : i < l.length) : setAt l i v = some (l.set i v) := by
  simp [setAt, hi]

/-- the interpolation loop: given the minima of the odd columns (members of the remaining rows,
    non-decreasing), it fills in every even column with a member of the rows, keeps the whole
    assignment non-decreasing, and never runs past the end of `rows` -/
theorem smawkInterp_spec (m : Nat → Nat → Option α) (lastOfRows : Nat) :
    ∀ (cols : List Nat) (cur : Nat) (rest : List Nat) (mn : List Nat),
    List.Pairwise (· < ·) (cur :: rest) →
    (cur :: rest).getLast? = some lastOfRows →
    cols.Nodup →
    (∀ c ∈ cols, c < mn.length) →
    MTotal m (cur :: rest) cols →
    (∀ c ∈ oddElems cols, mn.getD c 0 ∈ cur :: rest) →
    List.Pairwise (fun a b => mn.getD a 0 ≤ mn.getD b 0) (oddElems cols) →
    ∃ mn', smawkInterp m lastOfRows cols cur rest mn = some mn' ∧ mn'.length = mn.length ∧
      (∀ c ∈ cols, mn'.getD c 0 ∈ cur :: rest) ∧
      List.Pairwise (fun a b => mn'.getD a 0 ≤ mn'.getD b 0) cols ∧
      (∀ k, k ∉ evenElems cols → mn'.getD k 0 = mn.getD k 0)
  | [], cur, rest, mn, _, _, _, _, _, _, _ =>
    ⟨mn, by simp [smawkInterp], rfl, by simp, by simp, fun _ _ => rfl⟩
  | [col], cur, rest, mn, hs, hlast, _, hlen, hm, _, _ => by
    have hcl : col < mn.length := hlen col (by simp)
    obtain ⟨v, hv⟩ := Option.isSome_iff_exists.mp (hm cur (by simp) col (by simp))
    have hmem : lastOfRows ∈ cur :: rest := List.mem_of_getLast? hlast
    obtain ⟨rest', best, h1, _, _, h4⟩ := smawkScan_spec m col lastOfRows rest cur v cur hs hmem
      (fun x hx => hm x (by simp [hx]) col (by simp)) (Nat.le_refl _)
    have hb : best ∈ cur :: rest := by
      rcases h4 with h | h
      · simp [h]
      · simp [h]
    refine ⟨mn.set col best, ?_, by simp, ?_, by simp, ?_⟩
    · simp only [smawkInterp, hv, h1, setAt_spec mn col best hcl]
    · intro c hc
      have : c = col := by simpa using hc
      subst this
      rw [getD_set' _ _ _ _ hcl]; simpa using hb
    · intro k hk
      have : k ≠ col := by simpa [evenElems] using hk
      rw [getD_set' _ _ _ _ hcl, if_neg this]
  | col :: nxt :: cs, cur, rest, mn, hs, hlast, hnd, hlen, hm, hodd, hpw => by
    have hcl : col < mn.length := hlen col (by simp)
    have hnl : nxt < mn.length := hlen nxt (by simp)
    have hnd1 := List.nodup_cons.mp hnd
    have hnd2 := List.nodup_cons.mp hnd1.2
    have hcol_ne : col ≠ nxt := fun e => hnd1.1 (by simp [e])
    have hcol_cs : col ∉ cs := fun e => hnd1.1 (by simp [e])
    have hnxt_cs : nxt ∉ cs := hnd2.1
    obtain ⟨v, hv⟩ := Option.isSome_iff_exists.mp (hm cur (by simp) col (by simp))
    have hlr : mn.getD nxt 0 ∈ cur :: rest := hodd nxt (by simp [oddElems])
    have hget : mn[nxt]? = some (mn.getD nxt 0) := by
      simp [List.getD_eq_getElem?_getD, List.getElem?_eq_getElem hnl]
    obtain ⟨rest', best, h1, h2, h3, h4⟩ := smawkScan_spec m col (mn.getD nxt 0) rest cur v cur hs hlr
      (fun x hx => hm x (by simp [hx]) col (by simp)) (Nat.le_refl _)
    have hb : best ∈ cur :: rest := by
      rcases h4 with h | h
      · simp [h]
      · simp [h]
    -- state for the recursive call
    have hs' : List.Pairwise (· < ·) (mn.getD nxt 0 :: rest') := hs.sublist h2.sublist
    have hlast' : (mn.getD nxt 0 :: rest').getLast? = some lastOfRows := by
      rw [getLast?_of_suffix h2 (by simp)]; exact hlast
    have hlen' : ∀ c ∈ cs, c < (mn.set col best).length := fun c hc => by
      simp only [List.length_set]; exact hlen c (by simp [hc])
    have hm' : MTotal m (mn.getD nxt 0 :: rest') cs := fun x hx c hc =>
      hm x (h2.subset hx) c (by simp [hc])
    have hpw0 := hpw
    simp only [oddElems, List.pairwise_cons] at hpw0
    have hsame : ∀ c ∈ cs, (mn.set col best).getD c 0 = mn.getD c 0 := fun c hc => by
      have hne : ¬ c = col := fun e => hcol_cs (by rw [← e]; exact hc)
      rw [getD_set' _ _ _ _ hcl, if_neg hne]
    have hodd' : ∀ c ∈ oddElems cs, (mn.set col best).getD c 0 ∈ mn.getD nxt 0 :: rest' := fun c hc => by
      have hc' := mem_of_mem_oddElems hc
      rw [hsame c hc']
      exact mem_suffix_of_le hs h2 (hodd c (by simp [oddElems, hc])) (hpw0.1 c hc)
    have hpw' : List.Pairwise (fun a b => (mn.set col best).getD a 0 ≤ (mn.set col best).getD b 0) (oddElems cs) := by
      refine List.Pairwise.imp_of_mem ?_ hpw0.2
      intro a b ha hb' hab
      rw [hsame a (mem_of_mem_oddElems ha), hsame b (mem_of_mem_oddElems hb')]
      exact hab
    obtain ⟨mn', r1, r2, r3, r4, r5⟩ := smawkInterp_spec m lastOfRows cs (mn.getD nxt 0) rest' (mn.set col best)
      hs' hlast' hnd2.2 hlen' hm' hodd' hpw'
    have hcol_ev : col ∉ evenElems cs := fun e => hcol_cs (mem_of_mem_evenElems e)
    have hnxt_ev : nxt ∉ evenElems cs := fun e => hnxt_cs (mem_of_mem_evenElems e)
    have vcol : mn'.getD col 0 = best := by
      rw [r5 col hcol_ev, getD_set' _ _ _ _ hcl, if_pos rfl]
    have vnxt : mn'.getD nxt 0 = mn.getD nxt 0 := by
      rw [r5 nxt hnxt_ev, getD_set' _ _ _ _ hcl, if_neg (fun e => hcol_ne e.symm)]
    have hge : ∀ c ∈ cs, mn.getD nxt 0 ≤ mn'.getD c 0 := fun c hc =>
      le_of_mem_sorted_cons hs' (r3 c hc)
    refine ⟨mn', ?_, ?_, ?_, ?_, ?_⟩
    · simp only [smawkInterp, hget, hv, h1, setAt_spec mn col best hcl]
      exact r1
    · rw [r2]; simp
    · intro c hc
      simp only [List.mem_cons] at hc
      rcases hc with rfl | rfl | hc
      · rw [vcol]; exact hb
      · rw [vnxt]; exact hlr
      · exact h2.subset (r3 c hc)
    · simp only [List.pairwise_cons]
      refine ⟨?_, ?_, r4⟩
      · intro c hc
        simp only [List.mem_cons] at hc
        rcases hc with rfl | hc
        · rw [vcol, vnxt]; exact h3
        · rw [vcol]; exact Nat.le_trans h3 (hge c hc)
      · intro c hc
        rw [vnxt]; exact hge c hc
    · intro k hk
      simp only [evenElems, List.mem_cons, not_or] at hk
      rw [r5 k hk.2, getD_set' _ _ _ _ hcl, if_neg hk.1]

/-- `smawk_inner` on strictly increasing, non-empty `rows` and distinct in-range `cols`: for ANY
    matrix it returns normally, and stores a member of `rows` for every column (non-decreasing
    along the columns), leaving every other entry of `minima` alone -/
theorem smawkInner_spec (m : Nat → Nat → Option α) : ∀ (n : Nat) (cols rows minima : List Nat),
    cols.length ≤ n →
    List.Pairwise (· < ·) rows → rows ≠ [] → cols.Nodup → (∀ c ∈ cols, c < minima.length) →
    MTotal m rows cols →
    ∃ mn, smawkInner m rows cols minima = some mn ∧ mn.length = minima.length ∧
      (∀ c ∈ cols, mn.getD c 0 ∈ rows) ∧
      List.Pairwise (fun a b => mn.getD a 0 ≤ mn.getD b 0) cols ∧
      (∀ k, k ∉ cols → mn.getD k 0 = minima.getD k 0) := by
  intro n
  induction n with
  | zero =>
    intro cols rows minima hn _ _ _ _ _
    have : cols = [] := List.eq_nil_of_length_eq_zero (by omega)
    subst this
    exact ⟨minima, by rw [smawkInner]; simp, rfl, by simp, by simp, fun _ _ => rfl⟩
  | succ n ih =>
    intro cols rows minima hn hs hne hnd hlen hm
    by_cases hc : cols = []
    · subst hc
      exact ⟨minima, by rw [smawkInner]; simp, rfl, by simp, by simp, fun _ _ => rfl⟩
    · rw [smawkInner, if_neg hc]
      obtain ⟨out, o1, _, o3, o4⟩ := smawkReduce_spec m cols rows [] (fun x hx => by simp at hx) hm (by simp)
      rw [o1]
      dsimp only
      simp only [List.reverse_nil, List.nil_append] at o3
      have hout : out ≠ [] := o4 (Or.inr ⟨hne, hc⟩)
      have hs' : List.Pairwise (· < ·) out.reverse := hs.sublist o3
      have hne' : out.reverse ≠ [] := by simpa using hout
      have hodd_len : (oddElems cols).length ≤ n := by
        have := oddElems_length_le cols
        have : cols.length ≠ 0 := fun h => hc (List.eq_nil_of_length_eq_zero h)
        omega
      have hm' : MTotal m out.reverse (oddElems cols) := fun x hx c hc' =>
        hm x (o3.subset hx) c (mem_of_mem_oddElems hc')
      obtain ⟨mn1, a1, a2, a3, a4, a5⟩ := ih (oddElems cols) out.reverse minima hodd_len hs' hne'
        (hnd.sublist (oddElems_sublist cols)) (fun c hc' => hlen c (mem_of_mem_oddElems hc')) hm'
      rw [a1]
      dsimp only
      cases hrows : out.reverse with
      | nil => exact absurd hrows hne'
      | cons cur rest =>
        dsimp only
        rw [hrows] at hs' a3 hm'
        have hlast : (cur :: rest).getLast? = some ((cur :: rest).getLast?.getD 0) := by
          cases h : (cur :: rest).getLast? with
          | none => simp at h
          | some v => simp
        have hmall : MTotal m (cur :: rest) cols := fun x hx c hc' => by
          rw [← hrows] at hx
          exact hm x (o3.subset hx) c hc'
        obtain ⟨mn', b1, b2, b3, b4, b5⟩ := smawkInterp_spec m ((cur :: rest).getLast?.getD 0) cols cur rest mn1
          hs' hlast hnd (fun c hc' => by rw [a2]; exact hlen c hc') hmall a3 a4
        refine ⟨mn', b1, by rw [b2, a2], ?_, b4, ?_⟩
        · intro c hc'
          have := b3 c hc'
          rw [← hrows] at this
          exact o3.subset this
        · intro k hk
          rw [b5 k (fun e => hk (mem_of_mem_evenElems e)), a5 k (fun e => hk (mem_of_mem_oddElems e))]

/-! ### `online_column_minima` -/

theorem range_drop (n k : Nat) : (List.range n).drop k = List.range' k (n - k) := by
  rw [List.range_eq_range', List.drop_range']; simp

/-- every entry after the first points to an earlier column -/
def VecShape (res : List (Nat × α)) : Prop := ∀ j, 1 ≤ j → ∀ e, res[j]? = some e → e.1 < j

/-- the matrix closure answers whenever `online_column_minima` may call it: on a well-shaped
    prefix of results, for a row inside the prefix and a column above the diagonal -/
def MOk (M : List (Nat × α) → Nat → Nat → Option α) (size : Nat) : Prop :=
  ∀ pre i j, VecShape pre → i < pre.length → i < j → j < size → (M pre i j).isSome

omit [CostNum α] in
theorem VecShape.take {res : List (Nat × α)} (h : VecShape res) (k : Nat) : VecShape (res.take k) := by
  intro j hj e he
  rw [List.getElem?_take] at he
  split at he
  · exact h j hj e he
  · simp at he

omit [CostNum α] in
theorem VecShape.set {res : List (Nat × α)} (h : VecShape res) (i : Nat) (e : Nat × α) (he : e.1 < i) :
    VecShape (res.set i e) := by
  intro j hj e' he'
  rw [List.getElem?_set] at he'
  split at he'
  · split at he'
    · cases he'; omega
    · simp at he'
  · exact h j hj e' he'

omit [CostNum α] in
theorem VecShape.push {res : List (Nat × α)} (h : VecShape res) (e : Nat × α) (he : e.1 < res.length) :
    VecShape (res ++ [e]) := by
  intro j hj e' he'
  rw [List.getElem?_append] at he'
  split at he'
  · exact h j hj e' he'
  · rename_i hge
    have hj' : j = res.length := by
      by_cases hlt : j - res.length = 0
      · omega
      · have : j - res.length = (j - res.length - 1) + 1 := by omega
        rw [this] at he'; simp at he'
    subst hj'
    simp at he'
    subst he'
    exact he

structure OcmInv (size : Nat) (s : Ocm α) : Prop where
  fin_lt : s.finished < s.result.length
  ten_lt : s.tentative < s.result.length
  len_le : s.result.length ≤ size
  base_le : s.base ≤ s.finished
  shape : VecShape s.result
  first : ∃ v, s.result[0]? = some (0, v)

omit [CostNum α] in
theorem ocmM_some {M : List (Nat × α) → Nat → Nat → Option α} {size : Nat} (hM : MOk M size)
    {s : Ocm α} (inv : OcmInv size s) {i j : Nat} (hi : i ≤ s.finished) (hij : i < j) (hj : j < size) :
    (ocmM M size s i j).isSome := by
  have := inv.fin_lt
  have hsz : i < size := by omega
  simp only [ocmM, hij, hsz, hj, and_self, ↓reduceIte]
  rw [if_pos (by omega)]
  apply hM _ _ _ (inv.shape.take _) _ hij hj
  rw [List.length_take]; omega

/-- the store loop of the first case, on consecutive columns `a, a+1, …` starting no later than
    the end of `res` -/
theorem ocmStore_spec (m : Nat → Nat → Option α) (minima : List Nat) (bound : Nat) :
    ∀ (k a : Nat) (res : List (Nat × α)),
    1 ≤ a → a ≤ res.length → VecShape res → (∃ v, res[0]? = some (0, v)) →
    (∀ c, a ≤ c → c < a + k → c < minima.length ∧ minima.getD c 0 < bound ∧ (m (minima.getD c 0) c).isSome) →
    bound ≤ a →
    ∃ res', ocmStore m minima (List.range' a k) res = some res' ∧
      res'.length = max res.length (a + k) ∧ VecShape res' ∧ (∃ v, res'[0]? = some (0, v)) := by
  intro k
  induction k with
  | zero =>
    intro a res _ ha hs hf _ _
    exact ⟨res, by simp [ocmStore], by omega, hs, hf⟩
  | succ k ih =>
    intro a res h1 ha hs hf hc hb
    obtain ⟨c1, c2, c3⟩ := hc a (Nat.le_refl _) (by omega)
    obtain ⟨v, hv⟩ := Option.isSome_iff_exists.mp c3
    have hget : minima[a]? = some (minima.getD a 0) := by
      simp [List.getD_eq_getElem?_getD, List.getElem?_eq_getElem c1]
    have hc' : ∀ c, a + 1 ≤ c → c < a + 1 + k →
        c < minima.length ∧ minima.getD c 0 < bound ∧ (m (minima.getD c 0) c).isSome :=
      fun c h1 h2 => hc c (by omega) (by omega)
    rw [List.range'_succ]
    simp only [ocmStore, hget, hv]
    by_cases hlen : res.length ≤ a
    · rw [if_pos hlen]
      have hea : a = res.length := by omega
      obtain ⟨res', r1, r2, r3, r4⟩ := ih (a + 1) (res ++ [(minima.getD a 0, v)]) (by omega)
        (by simp; omega) (hs.push _ (by dsimp only; omega))
        (by obtain ⟨v0, hv0⟩ := hf
            refine ⟨v0, ?_⟩
            rw [List.getElem?_append_left (by omega)]; exact hv0) hc' (by omega)
      refine ⟨res', r1, ?_, r3, r4⟩
      rw [r2]; simp; omega
    · rw [if_neg hlen]
      have hlt : a < res.length := by omega
      rw [List.getElem?_eq_getElem hlt]
      dsimp only
      split
      · obtain ⟨res', r1, r2, r3, r4⟩ := ih (a + 1) (res.set a (minima.getD a 0, v)) (by omega)
          (by simp; omega) (hs.set _ _ (by dsimp only; omega))
          (by obtain ⟨v0, hv0⟩ := hf
              refine ⟨v0, ?_⟩
              rw [List.getElem?_set_ne (by omega)]; exact hv0) hc' (by omega)
        refine ⟨res', r1, ?_, r3, r4⟩
        rw [r2]; simp; omega
      · obtain ⟨res', r1, r2, r3, r4⟩ := ih (a + 1) res (by omega) (by omega) hs hf hc' (by omega)
        refine ⟨res', r1, ?_, r3, r4⟩
        rw [r2]; omega

/-- one iteration of the `while` loop: never panics, advances `finished` by exactly one, keeps
    the invariant -/
theorem ocmStep_spec {M : List (Nat × α) → Nat → Nat → Option α} {size : Nat} (hM : MOk M size)
    (s : Ocm α) (inv : OcmInv size s) (hfin : s.finished < size - 1) :
    ∃ s', ocmStep M size s = some s' ∧ OcmInv size s' ∧ s'.finished = s.finished + 1 := by
  have hfl := inv.fin_lt
  have htl := inv.ten_lt
  have hll := inv.len_le
  have hbl := inv.base_le
  unfold ocmStep
  dsimp only
  by_cases hc1 : s.tentative < s.finished + 1
  · -- first case
    rw [if_pos hc1]
    rw [range_drop, range_drop]
    simp only [List.length_range']
    -- abbreviations
    generalize htent : min (s.finished + (s.finished + 1 - s.base)) (size - 1) = tent
    have ht1 : s.finished + 1 ≤ tent := by omega
    have ht2 : tent ≤ size - 1 := by omega
    have hrows_s : List.Pairwise (· < ·) (List.range' s.base (s.finished + 1 - s.base)) :=
      List.pairwise_lt_range'
    have hrows_ne : List.range' s.base (s.finished + 1 - s.base) ≠ [] := by
      intro h
      have := congrArg List.length h
      simp at this; omega
    have hcols_nd : (List.range' (s.finished + 1) (tent + 1 - (s.finished + 1))).Nodup := List.nodup_range'
    have hmt : MTotal (ocmM M size s) (List.range' s.base (s.finished + 1 - s.base))
        (List.range' (s.finished + 1) (tent + 1 - (s.finished + 1))) := by
      intro r hr c hc
      simp only [List.mem_range'_1] at hr hc
      exact ocmM_some hM inv (by omega) (by omega) (by omega)
    obtain ⟨mn, a1, a2, a3, _, _⟩ := smawkInner_spec (ocmM M size s) _
      (List.range' (s.finished + 1) (tent + 1 - (s.finished + 1)))
      (List.range' s.base (s.finished + 1 - s.base)) (List.replicate (tent + 1) 0) (Nat.le_refl _)
      hrows_s hrows_ne hcols_nd (fun c hc => by
        simp only [List.mem_range'_1] at hc; simp; omega) hmt
    rw [a1]
    dsimp only
    obtain ⟨res', b1, b2, b3, b4⟩ := ocmStore_spec (ocmM M size s) mn (s.finished + 1)
      (tent + 1 - (s.finished + 1)) (s.finished + 1) s.result (by omega) (by omega) inv.shape inv.first
      (fun c h1 h2 => by
        have hmem : c ∈ List.range' (s.finished + 1) (tent + 1 - (s.finished + 1)) := by
          simp only [List.mem_range'_1]; omega
        have hr := a3 c hmem
        simp only [List.mem_range'_1] at hr
        refine ⟨by rw [a2]; simp; omega, by omega, ?_⟩
        exact ocmM_some hM inv (by omega) (by omega) (by omega)) (Nat.le_refl _)
    rw [b1]
    dsimp only
    refine ⟨_, rfl, ?_, rfl⟩
    constructor
    · show s.finished + 1 < res'.length
      rw [b2]; omega
    · show tent < res'.length
      rw [b2]; omega
    · show res'.length ≤ size
      rw [b2]; omega
    · show s.base ≤ s.finished + 1
      omega
    · exact b3
    · exact b4
  · rw [if_neg hc1]
    have hi : s.finished + 1 ≤ s.tentative := by omega
    simp only [Nat.add_sub_cancel]
    obtain ⟨diag, hd⟩ := Option.isSome_iff_exists.mp
      (ocmM_some hM inv (Nat.le_refl s.finished) (Nat.lt_succ_self _) (by omega))
    rw [hd]
    have hri : s.finished + 1 < s.result.length := by omega
    rw [List.getElem?_eq_getElem hri]
    dsimp only
    split
    · -- second case
      refine ⟨_, rfl, ?_, rfl⟩
      constructor
      · show s.finished + 1 < (s.result.set (s.finished + 1) (s.finished, diag)).length
        simp; omega
      · show s.finished + 1 < (s.result.set (s.finished + 1) (s.finished, diag)).length
        simp; omega
      · show (s.result.set (s.finished + 1) (s.finished, diag)).length ≤ size
        simp; omega
      · show s.finished ≤ s.finished + 1
        omega
      · exact inv.shape.set _ _ (by dsimp only; omega)
      · obtain ⟨v0, hv0⟩ := inv.first
        exact ⟨v0, by
          show (s.result.set (s.finished + 1) (s.finished, diag))[0]? = some (0, v0)
          rw [List.getElem?_set_ne (by omega)]; exact hv0⟩
    · obtain ⟨v, hv⟩ := Option.isSome_iff_exists.mp
        (ocmM_some hM inv (Nat.le_refl s.finished) (by omega : s.finished < s.tentative) (by omega))
      rw [hv, List.getElem?_eq_getElem htl]
      dsimp only
      split
      · -- third case
        refine ⟨_, rfl, ?_, rfl⟩
        exact ⟨by show s.finished + 1 < s.result.length; omega, htl, hll,
          by show s.base ≤ s.finished + 1; omega, inv.shape, inv.first⟩
      · -- fourth case
        refine ⟨_, rfl, ?_, rfl⟩
        exact ⟨by show s.finished + 1 < s.result.length; omega,
          by show s.finished + 1 < s.result.length; omega, hll,
          by show s.finished ≤ s.finished + 1; omega, inv.shape, inv.first⟩

theorem ocmLoop_spec {M : List (Nat × α) → Nat → Nat → Option α} {size : Nat} (hM : MOk M size) :
    ∀ (fuel : Nat) (s : Ocm α), OcmInv size s → s.finished ≤ size - 1 → size - 1 - s.finished ≤ fuel →
    ∃ s', ocmLoop M size fuel s = some s' ∧ OcmInv size s' ∧ s'.finished = size - 1 := by
  intro fuel
  induction fuel with
  | zero =>
    intro s inv h1 h2
    refine ⟨s, ?_, inv, by omega⟩
    unfold ocmLoop
    rw [if_neg (by omega)]
  | succ fuel ih =>
    intro s inv h1 h2
    unfold ocmLoop
    by_cases hlt : s.finished < size - 1
    · rw [if_pos hlt]
      obtain ⟨s1, e1, inv1, f1⟩ := ocmStep_spec hM s inv hlt
      simp only [e1]
      exact ih s1 inv1 (by omega) (by omega)
    · rw [if_neg hlt]
      exact ⟨s, rfl, inv, by omega⟩

/-- **`online_column_minima` is total and well-shaped for any matrix**: it returns `size`
    entries, the first is `(0, initial)`'s row 0, every later one points to an earlier column -/
theorem onlineColumnMinima_spec {M : List (Nat × α) → Nat → Nat → Option α} {size : Nat}
    (hM : MOk M size) (initial : α) (hsz : 0 < size) :
    ∃ res, onlineColumnMinima M initial size = some res ∧ res.length = size ∧ VecShape res ∧
      (∃ v, res[0]? = some (0, v)) := by
  unfold onlineColumnMinima
  rw [if_neg (by omega)]
  have inv0 : OcmInv size (⟨[(0, initial)], 0, 0, 0⟩ : Ocm α) :=
    ⟨by simp, by simp, by simp; omega, Nat.le_refl _, by
      intro j hj e he
      have : j = (j - 1) + 1 := by omega
      rw [this] at he; simp at he, ⟨initial, rfl⟩⟩
  obtain ⟨s', e, inv, f⟩ := ocmLoop_spec hM size _ inv0 (by simp) (by simp)
  rw [e]
  refine ⟨s'.result, rfl, ?_, inv.shape, inv.first⟩
  have := inv.fin_lt
  have := inv.len_le
  omega

/-! ### the closure of `wrap_optimal_fit` and the self-contained `wrap_optimal_fit` -/

theorem prefixWidths_go_length (acc : α) (fs : List (Frag α)) : (prefixWidths.go acc fs).length = fs.length := by
  induction fs generalizing acc with
  | nil => simp [prefixWidths.go]
  | cons f fs ih => simp [prefixWidths.go, ih]

theorem prefixWidths_length (fs : List (Frag α)) : (prefixWidths fs).length = fs.length + 1 := by
  simp [prefixWidths, prefixWidths_go_length]

omit [CostNum α] in
theorem shapeFrom_of (l : List (Nat × α)) : ∀ pos,
    (∀ k e, l[k]? = some e → 1 ≤ pos + k → e.1 < pos + k) → shapeFrom l pos = true := by
  induction l with
  | nil => intro _ _; rfl
  | cons e es ih =>
    intro pos h
    simp only [shapeFrom, Bool.and_eq_true, Bool.or_eq_true, decide_eq_true_eq]
    constructor
    · by_cases hp : pos = 0
      · left; exact hp
      · right; exact h 0 e (by simp) (by omega)
    · apply ih
      intro k e' he' hk
      have := h (k + 1) e' (by simpa using he') (by omega)
      omega

omit [CostNum α] in
theorem lnGet_some (minima : List (Nat × α)) (i : Nat) (hs : VecShape minima) (hi : i < minima.length) :
    (lnGet minima i).isSome := by
  unfold lnGet
  by_cases h0 : i = 0
  · simp [h0]
  · rw [if_neg h0]
    have : shapeFrom (minima.take (i + 1)) 0 = true := by
      apply shapeFrom_of
      intro k e he hk
      rw [List.getElem?_take] at he
      split at he
      · have := hs k (by omega) e he; omega
      · simp at he
    simp [hi, this]

/-- the closure `wrap_optimal_fit` passes to `online_column_minima` never panics when called as
    `online_column_minima` calls it -/
theorem costClosure_ok (pen : Penalties) (lws : List α) (frs : List (Frag α)) :
    MOk (costClosure pen lws frs (prefixWidths frs)) (prefixWidths frs).length := by
  intro pre i j hs hi hij hj
  rw [prefixWidths_length] at hj
  unfold costClosure
  obtain ⟨ln, hln⟩ := Option.isSome_iff_exists.mp (lnGet_some pre i hs hi)
  have hWi : i < (prefixWidths frs).length := by rw [prefixWidths_length]; omega
  have hWj : j < (prefixWidths frs).length := by rw [prefixWidths_length]; omega
  have hj0 : ¬ j = 0 := by omega
  have hfr : j - 1 < frs.length := by omega
  rw [hln, List.getElem?_eq_getElem hWi, List.getElem?_eq_getElem hWj, if_neg hj0,
    List.getElem?_eq_getElem hfr, List.getElem?_eq_getElem hi]
  rfl

omit [CostNum α] in
theorem backtrackVec_eq (minima : List (Nat × α)) :
    ∀ fuel pos, pos < minima.length →
    backtrackVec minima fuel pos = backtrackGo (fun j => (minima.map (·.1)).getD j 0) fuel pos := by
  intro fuel
  induction fuel with
  | zero => intro pos _; rfl
  | succ fuel ih =>
    intro pos hp
    simp only [backtrackVec, backtrackGo]
    rw [List.getElem?_eq_getElem hp]
    have hr : (minima.map (·.1)).getD pos 0 = minima[pos].1 := by
      simp [List.getD_eq_getElem?_getD, List.getElem?_eq_getElem hp]
    rw [hr]
    dsimp only
    by_cases h1 : pos < minima[pos].1
    · simp [h1]
    · simp only [h1, if_false]
      by_cases h2 : minima[pos].1 = 0
      · simp [h2]
      · simp only [h2, if_false]
        rw [ih _ (by omega)]
        rfl

/-- **C06 / C04 for optimal-fit without any assumption on `smawk`**: the self-contained model
    of `wrap_optimal_fit` (its own `online_column_minima`, any number type — IEEE doubles
    included, any widths, any penalties) never panics; it reports an overflow or returns an
    ordered partition of the fragments into non-empty runs (`[[]]` for no fragments). -/
theorem wrapOptimalFit_partition {β : Type} (m : β → Frag α) (pen : Penalties) (frs : List β) (lws : List α) :
    (wrapOptimalFit m pen frs lws).1 = .overflow ∨
    ∃ lines, (wrapOptimalFit m pen frs lws).1 = .ok lines ∧ lines.flatten = frs ∧
      (frs ≠ [] → ∀ l ∈ lines, l ≠ []) ∧ (frs = [] → lines = [[]]) := by
  unfold wrapOptimalFit
  dsimp only
  have hsz : 0 < (prefixWidths (frs.map m)).length := by rw [prefixWidths_length]; omega
  obtain ⟨minima, e1, e2, e3, v0, e4⟩ := onlineColumnMinima_spec (costClosure_ok pen lws (frs.map m)) (0 : α) hsz
  rw [e1]
  dsimp only
  rw [prefixWidths_length, List.length_map] at e2
  split
  · exact Or.inl rfl
  · right
    obtain ⟨ln, hln⟩ := Option.isSome_iff_exists.mp (lnGet_some minima frs.length e3 (by omega))
    rw [hln]
    dsimp only
    rw [backtrackVec_eq minima _ _ (by omega)]
    have hshape : RowsShape (minima.map (·.1)) frs.length := by
      constructor
      · simp [List.getD_eq_getElem?_getD, e4]
      · intro j h1 hj
        have hjl : j < minima.length := by omega
        have := e3 j h1 minima[j] (List.getElem?_eq_getElem hjl)
        simpa [List.getD_eq_getElem?_getD, List.getElem?_eq_getElem hjl] using this
    by_cases hn : frs.length = 0
    · have hf : frs = [] := List.eq_nil_of_length_eq_zero hn
      subst hf
      have h0 : (minima.map (·.1)).getD 0 0 = 0 := hshape.1
      simp only [List.length_nil, backtrackGo]
      simp [e4]
    · obtain ⟨segs, h1, h2, h3⟩ := backtrackGo_spec (fun j => (minima.map (·.1)).getD j 0) frs.length hshape.2
        (frs.length + 1) frs.length (by omega) (Nat.le_refl _) (by omega)
      rw [h1]
      refine ⟨_, rfl, ?_, ?_, ?_⟩
      · have := segs_flatten frs h2
        simpa using this
      · intro _ l hl
        simp only [List.mem_map] at hl
        obtain ⟨p, hp, rfl⟩ := hl
        have hb := h2.bounds p (by simpa using hp)
        intro he
        have hlen := congrArg List.length he
        simp only [List.length_take, List.length_drop, List.length_nil] at hlen
        omega
      · intro hf; subst hf; simp at hn

/-- the rows the model's own `smawk` returns have the shape `wrap_optimal_fit` relies on — a
    theorem about the algorithm, not a contract -/
theorem ownMinima_rowsShape (pen : Penalties) (frs : List (Frag α)) (lws : List α) :
    RowsShape (ownMinima pen frs lws) frs.length := by
  unfold ownMinima
  have hsz : 0 < (prefixWidths frs).length := by rw [prefixWidths_length]; omega
  obtain ⟨minima, e1, e2, e3, v0, e4⟩ := onlineColumnMinima_spec (costClosure_ok pen lws frs) (0 : α) hsz
  rw [e1]
  dsimp only
  rw [prefixWidths_length] at e2
  constructor
  · simp [List.getD_eq_getElem?_getD, e4]
  · intro j h1 hj
    have hjl : j < minima.length := by omega
    have := e3 j h1 minima[j] (List.getElem?_eq_getElem hjl)
    simpa [List.getD_eq_getElem?_getD, List.getElem?_eq_getElem hjl] using this

end
end TW

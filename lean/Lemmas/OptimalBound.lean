/-
  C04, "optimal-fit never reports an overflow error when all widths and penalties are
  usize-valued" — the exact-arithmetic half. For fragment widths, whitespace widths, penalty
  widths, line widths and penalties in `[0, U]` (any number of line widths, no monotonicity, no
  `penalty ≤ next width`), every value the cost closure of `wrap_optimal_fit` computes while the
  model's own `smawk` runs lies in `[0, (n+1)·K]` with `K = 2U + (2n+1)·U²`: for `U = 2^64` and
  `n < 2^64` that is below `2^260`, far from the `f64` range limit `≈ 2^1024`. (That the `f64`
  computation of a value whose exact counterpart is that small stays finite is IEEE
  round-to-nearest monotonicity: an assumption, DESIGN §5.4.)
-/
import Lemmas.SmawkOnline
import Lemmas.OptimalBridge
import Mathlib.Tactic.Linarith
namespace TW
open TW.Opt

/-- prefix sums as the bridge knows them, without any hypothesis -/
theorem sumTo_bounds (frs : List IFrag) (U : Int) (hU : 0 ≤ U)
    (hf : ∀ f ∈ frs, 0 ≤ f.w ∧ f.w ≤ U ∧ 0 ≤ f.ws ∧ f.ws ≤ U) :
    ∀ k, k ≤ frs.length → 0 ≤ sumTo frs k ∧ sumTo frs k ≤ 2 * (k : Int) * U := by
  intro k
  induction k with
  | zero => intro _; simp [sumTo]
  | succ k ih =>
    intro hk
    have hk' : k < frs.length := by omega
    obtain ⟨i1, i2⟩ := ih (by omega)
    rw [sumTo_succ frs k hk']
    have hm : frs.getD k fragD ∈ frs := by
      rw [List.getD_eq_getElem?_getD, List.getElem?_eq_getElem hk']; exact List.getElem_mem hk'
    obtain ⟨a, b, c, d⟩ := hf _ hm
    push_cast
    constructor <;> nlinarith

theorem sumTo_step (frs : List IFrag) (hf : ∀ f ∈ frs, 0 ≤ f.w ∧ 0 ≤ f.ws) :
    ∀ i j, i < j → j ≤ frs.length →
      sumTo frs i + (frs.getD (j - 1) fragD).w + (frs.getD (j - 1) fragD).ws ≤ sumTo frs j := by
  intro i j hij
  induction j with
  | zero => omega
  | succ j ih =>
    intro hj
    have hj' : j < frs.length := by omega
    rw [sumTo_succ frs j hj']
    simp only [Nat.add_sub_cancel]
    by_cases hie : i = j
    · subst hie; omega
    · have := ih (by omega) (by omega)
      have hm : frs.getD (j - 1) fragD ∈ frs := by
        have : j - 1 < frs.length := by omega
        rw [List.getD_eq_getElem?_getD, List.getElem?_eq_getElem this]; exact List.getElem_mem this
      obtain ⟨a, b⟩ := hf _ hm
      omega

/-- the closure's entries are the row's value plus a bounded non-negative increment -/
theorem costClosure_bounded (pen : Penalties) (lws : List Int) (frs : List IFrag) (U : Int) (hU : 1 ≤ U)
    (hf : ∀ f ∈ frs, 0 ≤ f.w ∧ f.w ≤ U ∧ 0 ≤ f.ws ∧ f.ws ≤ U ∧ 0 ≤ f.pen ∧ f.pen ≤ U)
    (hl : ∀ lw ∈ lws, 0 ≤ lw ∧ lw ≤ U)
    (hp : (pen.nline : Int) ≤ U ∧ (pen.overflow : Int) ≤ U ∧ (pen.shortPen : Int) ≤ U ∧ (pen.hyphen : Int) ≤ U) :
    MBounded (costClosure pen lws frs (prefixWidths frs)) (frs.length + 1)
      (2 * U + (2 * (frs.length : Int) + 1) * U * U) := by
  intro pre i j hs hi hij hj
  unfold costClosure
  obtain ⟨ln, hln⟩ := Option.isSome_iff_exists.mp (lnGet_some pre i hs hi)
  have hWi : i < (prefixWidths frs).length := by rw [prefixWidths_length]; omega
  have hWj : j < (prefixWidths frs).length := by rw [prefixWidths_length]; omega
  have hj0 : ¬ j = 0 := by omega
  have hfr : j - 1 < frs.length := by omega
  rw [hln, List.getElem?_eq_getElem hWi, List.getElem?_eq_getElem hWj, if_neg hj0,
    List.getElem?_eq_getElem hfr, List.getElem?_eq_getElem hi]
  dsimp only
  have e1 : (prefixWidths frs)[i] = sumTo frs i := by
    have h1 := prefixWidths_getD frs i (by omega) pen lws
    rw [List.getD_eq_getElem?_getD, List.getElem?_eq_getElem hWi] at h1
    simp only [Option.getD_some] at h1
    rw [h1, instOf_W, W_eq_sumTo pen lws frs i (by omega)]
  have e2 : (prefixWidths frs)[j] = sumTo frs j := by
    have h1 := prefixWidths_getD frs j (by omega) pen lws
    rw [List.getD_eq_getElem?_getD, List.getElem?_eq_getElem hWj] at h1
    simp only [Option.getD_some] at h1
    rw [h1, instOf_W, W_eq_sumTo pen lws frs j (by omega)]
  have e3 : frs[j - 1] = frs.getD (j - 1) fragD := by
    simp [List.getD_eq_getElem?_getD, List.getElem?_eq_getElem hfr]
  have e4 : pre[i].2 = Dof pre i := by
    unfold Dof
    simp [List.getD_eq_getElem?_getD, List.getElem?_eq_getElem hi]
  rw [e1, e2, e3, e4]
  have ofn : ∀ m : Nat, (CostNum.ofNat (α := Int) m) = (m : Int) := fun _ => rfl
  simp only [lineCost, ofn, Option.some.injEq]
  -- bounds on the ingredients
  have hlast : frs.getD (j - 1) fragD ∈ frs := by rw [← e3]; exact List.getElem_mem hfr
  obtain ⟨w0, w1, s0, s1, p0, p1⟩ := hf _ hlast
  have hstep := sumTo_step frs (fun f hf' => ⟨(hf f hf').1, (hf f hf').2.2.1⟩) i j hij (by omega)
  obtain ⟨_, hjhi⟩ := sumTo_bounds frs U (by omega) (fun f hf' => ⟨(hf f hf').1, (hf f hf').2.1, (hf f hf').2.2.1, (hf f hf').2.2.2.1⟩) j (by omega)
  obtain ⟨hilo, _⟩ := sumTo_bounds frs U (by omega) (fun f hf' => ⟨(hf f hf').1, (hf f hf').2.1, (hf f hf').2.2.1, (hf f hf').2.2.2.1⟩) i (by omega)
  have hjn : (j : Int) ≤ (frs.length : Int) := by exact_mod_cast (by omega : j ≤ frs.length)
  -- the target width lies in [1, U]
  have hlw : 0 ≤ lws.getD ln (defaultLw lws) ∧ lws.getD ln (defaultLw lws) ≤ U := by
    have hd : 0 ≤ defaultLw lws ∧ defaultLw lws ≤ U := by
      unfold defaultLw
      cases h : lws.getLast? with
      | none => simp; omega
      | some v => simp; exact hl v (List.mem_of_getLast? h)
    rw [List.getD_eq_getElem?_getD]
    cases h : lws[ln]? with
    | none => simpa using hd
    | some v => simpa using hl v (List.mem_of_getElem? h)
  generalize lws.getD ln (defaultLw lws) = lw at hlw
  have htar : 1 ≤ CostNum.max1 lw ∧ CostNum.max1 lw ≤ U := by
    show 1 ≤ (if 1 ≤ lw then lw else 1) ∧ (if 1 ≤ lw then lw else 1) ≤ U
    split <;> constructor <;> omega
  generalize CostNum.max1 lw = T at htar
  generalize hL : sumTo frs j - sumTo frs i - (frs.getD (j - 1) fragD).ws + (frs.getD (j - 1) fragD).pen = L
  have hL0 : 0 ≤ L := by omega
  have hL1 : L ≤ (2 * (frs.length : Int) + 1) * U := by
    have h1 : 2 * (j : Int) * U ≤ 2 * (frs.length : Int) * U := by
      have := Int.mul_le_mul_of_nonneg_right (by omega : 2 * (j : Int) ≤ 2 * (frs.length : Int)) (by omega : (0 : Int) ≤ U)
      exact this
    have h2 : (2 * (frs.length : Int) + 1) * U = 2 * (frs.length : Int) * U + U := by ring
    omega
  obtain ⟨q1, q2, q3, q4⟩ := hp
  have n0 : (0 : Int) ≤ (pen.nline : Int) := Int.natCast_nonneg _
  have o0 : (0 : Int) ≤ (pen.overflow : Int) := Int.natCast_nonneg _
  have sp0 : (0 : Int) ≤ (pen.shortPen : Int) := Int.natCast_nonneg _
  have h0 : (0 : Int) ≤ (pen.hyphen : Int) := Int.natCast_nonneg _
  have hn0 : (0 : Int) ≤ (frs.length : Int) := Int.natCast_nonneg _
  -- the width-dependent part
  have hX : ∀ X : Int, 0 ≤ X → X ≤ (2 * (frs.length : Int) + 1) * U * U →
      ∃ e, (if (0 : Int) < (frs.getD (j - 1) fragD).pen then Dof pre i + (pen.nline : Int) + X + (pen.hyphen : Int)
            else Dof pre i + (pen.nline : Int) + X) = Dof pre i + e ∧ 0 ≤ e ∧
        e ≤ 2 * U + (2 * (frs.length : Int) + 1) * U * U := by
    intro X x0 x1
    split
    · exact ⟨(pen.nline : Int) + X + (pen.hyphen : Int), by ring, by omega, by omega⟩
    · exact ⟨(pen.nline : Int) + X, by ring, by omega, by omega⟩
  have hNU : (0 : Int) ≤ (2 * (frs.length : Int) + 1) * U := Int.mul_nonneg (by omega) (by omega)
  have hprod : ∀ a b : Int, 0 ≤ a → a ≤ (2 * (frs.length : Int) + 1) * U → 0 ≤ b → b ≤ U →
      0 ≤ a * b ∧ a * b ≤ (2 * (frs.length : Int) + 1) * U * U :=
    fun a b ha1 ha2 hb1 hb2 => ⟨Int.mul_nonneg ha1 hb1, Int.mul_le_mul ha2 hb2 hb1 hNU⟩
  have hU1 : U ≤ (2 * (frs.length : Int) + 1) * U := by
    have := Int.mul_le_mul_of_nonneg_right (by omega : (1 : Int) ≤ 2 * (frs.length : Int) + 1) (by omega : (0 : Int) ≤ U)
    simpa using this
  have hUUle : U ≤ (2 * (frs.length : Int) + 1) * U * U := by
    have := (hprod U 1 (by omega) hU1 (by omega) hU).2
    simpa using this
  by_cases hc1 : T < L
  · simp only [hc1, if_true]
    have hpr := hprod (L - T) (pen.overflow : Int) (by omega) (by omega) o0 q2
    have := hX ((L - T) * (pen.overflow : Int)) hpr.1 hpr.2
    obtain ⟨e, he1, he2, he3⟩ := this
    refine ⟨e, ?_, he2, he3⟩
    rw [← he1]
  · simp only [hc1, if_false]
    by_cases hc2 : j < frs.length
    · simp only [hc2, if_true]
      have hpr := hprod (T - L) (T - L) (by omega) (by omega) (by omega) (by omega)
      have := hX ((T - L) * (T - L)) hpr.1 hpr.2
      obtain ⟨e, he1, he2, he3⟩ := this
      refine ⟨e, ?_, he2, he3⟩
      rw [← he1]
    · simp only [hc2, if_false]
      by_cases hc3 : i + 1 = j ∧ CostNum.shortLine L T pen.shortFrac = true
      · simp only [hc3, and_self, if_true]
        have := hX (pen.shortPen : Int) sp0 (by omega)
        obtain ⟨e, he1, he2, he3⟩ := this
        refine ⟨e, ?_, he2, he3⟩
        rw [← he1]
      · simp only [hc3, if_false]
        have := hX 0 (Int.le_refl _) (by omega)
        obtain ⟨e, he1, he2, he3⟩ := this
        refine ⟨e, ?_, he2, he3⟩
        rw [← he1]
        split <;> ring_nf

/-- **exact costs stay small**: with all inputs in `[0, U]`, the model's own `smawk` never
    stores a value outside `[0, j·(2U + (2n+1)·U²)]` -/
theorem optimalFit_costs_bounded (pen : Penalties) (lws : List Int) (frs : List IFrag) (U : Int) (hU : 1 ≤ U)
    (hf : ∀ f ∈ frs, 0 ≤ f.w ∧ f.w ≤ U ∧ 0 ≤ f.ws ∧ f.ws ≤ U ∧ 0 ≤ f.pen ∧ f.pen ≤ U)
    (hl : ∀ lw ∈ lws, 0 ≤ lw ∧ lw ≤ U)
    (hp : (pen.nline : Int) ≤ U ∧ (pen.overflow : Int) ≤ U ∧ (pen.shortPen : Int) ≤ U ∧ (pen.hyphen : Int) ≤ U) :
    ∃ res, onlineColumnMinima (costClosure pen lws frs (prefixWidths frs)) 0 (frs.length + 1) = some res ∧
      res.length = frs.length + 1 ∧
      ∀ j, j ≤ frs.length → 0 ≤ Dof res j ∧
        Dof res j ≤ (j : Int) * (2 * U + (2 * (frs.length : Int) + 1) * U * U) := by
  have hK : (0 : Int) ≤ 2 * U + (2 * (frs.length : Int) + 1) * U * U := by
    have h0 : (0 : Int) ≤ (frs.length : Int) := Int.natCast_nonneg _
    have h1 : (0 : Int) ≤ (2 * (frs.length : Int) + 1) * U := by
      apply mul_nonneg <;> linarith
    have h2 : (0 : Int) ≤ (2 * (frs.length : Int) + 1) * U * U := mul_nonneg h1 (by linarith)
    linarith
  obtain ⟨res, r1, r2, r3⟩ := onlineColumnMinima_bounded (costClosure_bounded pen lws frs U hU hf hl hp) hK 0
    (Nat.succ_pos _)
  refine ⟨res, r1, r2, fun j hj => ?_⟩
  have := r3 j (by omega)
  simpa using this

end TW

/-
  The last fragment of the pipeline: its word is a non-empty suffix of the last word found
  (so it does not end in a space), or everything before it is empty. This is what makes the
  slice of a line that holds all fragments equal to `trim_end_matches(' ')` of the line.
-/
import Lemmas.Width
namespace TW

/-- `fs` refines the word `w`: the last fragment carries `w`'s whitespace, the words of the
    fragments concatenate to `w.word`, and the last fragment's word is non-empty if `w.word` is -/
def Refines (w : Word) (fs : List Word) : Prop :=
  ∃ pre l, fs = pre ++ [l] ∧ l.ws = w.ws ∧ wordsText pre ++ l.word = w.word ∧ (w.word ≠ [] → l.word ≠ [])

/-- the last fragment is fine: its word does not end in a space, and if its word is empty there
    is no text before it -/
def LastOk (frs : List Word) : Prop :=
  ∀ pre l, frs = pre ++ [l] → l.word.getLast? ≠ some SP ∧ (l.word = [] → wordsText pre = [])

theorem getLast?_append_of_ne_nil {α} (a b : List α) (h : b ≠ []) : (a ++ b).getLast? = b.getLast? := by
  induction a with
  | nil => rfl
  | cons x xs ih =>
    cases hxb : xs ++ b with
    | nil => simp at hxb; exact absurd hxb.2 h
    | cons y ys => rw [List.cons_append, hxb, List.getLast?_cons_cons, ← hxb, ih]

/-- splitting one word refines it (split points in the documented range) -/
theorem splitOK_refines (cw : Char → Nat) (w : Word) (pre : Text) (pts : List Nat) (ps : List Word)
    (h : SplitOK cw w pre pts ps) (hlt : ∀ i ∈ pts, i < blen w.word) (hpre : blen pre < blen w.word ∨ pre = []) :
    ∃ fpre l, ps = fpre ++ [l] ∧ l.ws = w.ws ∧ pre ++ wordsText fpre ++ l.word = w.word ∧
      (w.word ≠ [] → l.word ≠ []) ∧ (∀ f ∈ fpre, f.ws = []) := by
  induction pts generalizing pre ps with
  | nil =>
    match ps, h with
    | [p], h =>
      obtain ⟨h1, _, _, h4⟩ := h
      refine ⟨[], p, rfl, h1, by simpa using h4, ?_, by simp⟩
      intro hne hp
      rw [hp] at h4
      rcases hpre with hpre | hpre
      · simp at h4; rw [h4] at hpre; omega
      · subst hpre; simp at h4; exact hne h4
  | cons i pts ih =>
    match ps, h with
    | p :: ps, h =>
      obtain ⟨h1, h2, _, _, _, h6⟩ := h
      have hi := hlt i (by simp)
      obtain ⟨fpre, l, e1, e2, e3, e4, e5⟩ := ih (pre ++ p.word) ps h6 (fun j hj => hlt j (by simp [hj]))
        (Or.inl (by omega))
      refine ⟨p :: fpre, l, by simp [e1], e2, ?_, e4, ?_⟩
      · simp only [wordsText_cons, h2]; simpa [List.append_assoc] using e3
      · intro f hf
        rcases List.mem_cons.mp hf with rfl | hf
        · exact h2
        · exact e5 f hf

theorem splitOne_refines (cw : Char → Nat) (w : Word) (pts : List Nat) (hlt : ∀ i ∈ pts, i < blen w.word)
    (ps : List Word) (h : splitOne cw w pts 0 = some ps) : Refines w ps := by
  have hok := splitOne_ok cw w pts 0 [] w.word rfl rfl hlt (Or.inr rfl) ps h
  obtain ⟨fpre, l, e1, e2, e3, e4, e5⟩ := splitOK_refines cw w [] pts ps hok hlt (Or.inr rfl)
  refine ⟨fpre, l, e1, e2, ?_, e4⟩
  -- the earlier pieces have no whitespace, so their text is their words
  simpa using e3

/-- breaking one word apart refines it -/
theorem breakOK_refines (cw : Char → Nat) (limit : Nat) (ws pen : Text) (ps : List Word) (hne : ps ≠ [])
    (h : BreakOK cw limit ws pen ps) :
    ∃ fpre l, ps = fpre ++ [l] ∧ l.ws = ws ∧ l.word ≠ [] ∧ (∀ f ∈ fpre, f.ws = []) := by
  induction ps with
  | nil => exact absurd rfl hne
  | cons p rest ih =>
    cases rest with
    | nil =>
      obtain ⟨_, h2, _, h4, _⟩ := h
      exact ⟨[], p, rfl, h2, h4, by simp⟩
    | cons q r =>
      obtain ⟨_, h2, _, _, _, _, _, _, h9⟩ := h
      obtain ⟨fpre, l, e1, e2, e3, e4⟩ := ih (by simp) h9
      refine ⟨p :: fpre, l, by simp [e1], e2, e3, ?_⟩
      intro f hf
      rcases List.mem_cons.mp hf with rfl | hf
      · exact h2
      · exact e4 f hf

theorem wordsText_no_ws (fs : List Word) (h : ∀ f ∈ fs, f.ws = []) :
    wordsText fs = (fs.map (·.word)).flatten := by
  induction fs with
  | nil => rfl
  | cons f r ih =>
    simp only [wordsText_cons, h f (by simp), List.append_nil, List.map_cons, List.flatten_cons]
    rw [ih (fun x hx => h x (by simp [hx]))]

theorem breakApart_refines (cw : Char → Nat) (limit : Nat) (w : Word) (hw : w.word ≠ []) :
    Refines w (breakApart cw limit w) := by
  have hok := breakGo_ok cw limit w.ws w.pen .normal [] 0 w.word rfl rfl (Or.inl (Nat.zero_le _))
  have hflat := breakGo_flatten cw limit w.ws w.pen .normal [] 0 w.word
  have hps : breakApart cw limit w ≠ [] := by
    intro he
    simp only [breakApart] at he
    rw [he] at hflat
    simp at hflat
    exact hw hflat
  obtain ⟨fpre, l, e1, e2, e3, e4⟩ := breakOK_refines cw limit w.ws w.pen _ hps hok
  refine ⟨fpre, l, e1, e2, ?_, fun _ => e3⟩
  simp only [breakApart] at e1
  rw [e1] at hflat
  rw [wordsText_no_ws fpre e4]
  simpa using hflat

/-- a list of words, each refined into fragments -/
inductive RefinesAll : List Word → List Word → Prop
  | nil : RefinesAll [] []
  | cons {w ws fs rest} : Refines w fs → RefinesAll ws rest → RefinesAll (w :: ws) (fs ++ rest)

theorem Refines.refl (w : Word) : Refines w [w] := ⟨[], w, rfl, rfl, by simp, fun h => h⟩

theorem Refines.text_eq {w : Word} {fs : List Word} (h : Refines w fs) : wordsText fs = w.word ++ w.ws := by
  obtain ⟨pre, l, h1, h2, h3, _⟩ := h
  rw [h1]; simp [← h3, h2]

/-- refinement composes: refine every fragment of a refinement -/
theorem Refines.trans {w : Word} {fs gs : List Word} (h : Refines w fs) (hg : RefinesAll fs gs) :
    Refines w gs := by
  obtain ⟨pre, l, h1, h2, h3, h4⟩ := h
  subst h1
  -- split `hg` along `pre ++ [l]`
  have key : ∀ (pre : List Word) (gs : List Word), RefinesAll (pre ++ [l]) gs →
      ∃ gpre gl, gs = gpre ++ gl ∧ wordsText gpre = wordsText pre ∧ Refines l gl := by
    intro pre
    induction pre with
    | nil =>
      intro gs hgs
      cases hgs with
      | cons hf hr => cases hr; exact ⟨[], _, by simp, rfl, hf⟩
    | cons p ps ih =>
      intro gs hgs
      cases hgs with
      | cons hf hr =>
        rename_i fs0 rest0
        obtain ⟨gpre, gl, e1, e2, e3⟩ := ih _ hr
        exact ⟨fs0 ++ gpre, gl, by simp [e1], by simp [hf.text_eq, e2], e3⟩
  obtain ⟨gpre, gl, e1, e2, ⟨lp, ll, f1, f2, f3, f4⟩⟩ := key pre gs hg
  refine ⟨gpre ++ lp, ll, by simp [e1, f1], by rw [f2, h2], ?_, ?_⟩
  · simp only [wordsText_append, e2]
    rw [List.append_assoc, f3, h3]
  · intro hne; exact f4 (h4 hne)

theorem RefinesAll.text_eq {ws fs : List Word} (h : RefinesAll ws fs) : wordsText fs = wordsText ws := by
  induction h with
  | nil => rfl
  | cons hf _ ih => simp [hf.text_eq, ih]

theorem RefinesAll.split' {a b gs : List Word} (h : RefinesAll (a ++ b) gs) :
    ∃ g1 g2, gs = g1 ++ g2 ∧ RefinesAll a g1 ∧ RefinesAll b g2 := by
  induction a generalizing gs with
  | nil => exact ⟨[], gs, rfl, RefinesAll.nil, h⟩
  | cons x xs ih =>
    cases h with
    | cons hf hr =>
      rename_i fs0 rest0
      obtain ⟨g1, g2, e, r1, r2⟩ := ih hr
      exact ⟨fs0 ++ g1, g2, by rw [e, List.append_assoc], RefinesAll.cons hf r1, r2⟩

/-- if the source words do not end in a space and only the first source word may be empty, the
    last fragment is fine -/
theorem refinesAll_lastOk (ws fs : List Word) (h : RefinesAll ws fs)
    (hend : ∀ w ∈ ws, w.word.getLast? ≠ some SP)
    (hfirst : ∀ pre w, ws = pre ++ [w] → w.word = [] → wordsText pre = []) : LastOk fs := by
  intro pre l hfs
  -- the source list is non-empty
  cases hws : ws.getLast? with
  | none =>
    have : ws = [] := List.getLast?_eq_none_iff.mp hws
    subst this
    cases h
    simp at hfs
  | some wl =>
    obtain ⟨ys, rfl⟩ := List.getLast?_eq_some_iff.mp hws
    obtain ⟨g1, g2, e, r1, r2⟩ := h.split'
    cases r2 with
    | cons hf hr =>
      cases hr
      rename_i fsl
      obtain ⟨p0, l0, e0, e1, e2, e3⟩ := hf
      simp only [List.append_nil] at e
      have : pre = g1 ++ p0 ∧ l = l0 := by
        rw [e, e0, ← List.append_assoc] at hfs
        have := List.append_inj' hfs rfl
        exact ⟨this.1.symm, by simpa using this.2.symm⟩
      obtain ⟨rfl, rfl⟩ := this
      have hwl := hend wl (by simp)
      refine ⟨?_, ?_⟩
      · by_cases hl : l.word = []
        · simp [hl]
        · rw [← e2, getLast?_append_of_ne_nil _ _ hl] at hwl; exact hwl
      · intro hl
        have hwle : wl.word = [] := by
          by_cases hw : wl.word = []
          · exact hw
          · exact absurd hl (e3 hw)
        have h1 := hfirst ys wl rfl hwle
        rw [wordsText_append, r1.text_eq, h1]
        rw [hl, hwle] at e2
        simpa using e2

end TW

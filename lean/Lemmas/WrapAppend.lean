/-
  Paragraph independence: splitting commutes with concatenation at a line ending; the
  paragraph loop over an appended list; dependence on the number of earlier lines.
-/
import Lemmas.WrapText
namespace TW

theorem consHead_append (c : Char) (l r : List Text) (h : l ≠ []) :
    consHead c (l ++ r) = consHead c l ++ r := by
  cases l with
  | nil => exact absurd rfl h
  | cons a t => simp [consHead]

theorem splitLF_append (a b : Text) : splitLF (a ++ LF :: b) = splitLF a ++ splitLF b := by
  induction a with
  | nil => simp [splitLF]
  | cons c cs ih =>
    simp only [List.cons_append, splitLF]
    split
    · simp [ih]
    · rw [ih, consHead_append _ _ _ (splitLF_ne_nil cs)]

theorem splitCRLF_cons_nomatch (c : Char) (t : Text) (h : ¬ (c = CR ∧ t.head? = some LF)) :
    splitCRLF (c :: t) = consHead c (splitCRLF t) := by
  cases t with
  | nil => simp [splitCRLF, consHead]
  | cons d ds =>
    simp only [splitCRLF]
    have : ¬ (c = CR ∧ d = LF) := by simpa using h
    simp [this]

theorem splitCRLF_append : ∀ (a b : Text), splitCRLF (a ++ CR :: LF :: b) = splitCRLF a ++ splitCRLF b
  | [], b => by simp [splitCRLF]
  | [c], b => by
    have : ¬ (c = CR ∧ (CR :: LF :: b).head? = some LF) := by
      simp only [List.head?_cons, Option.some.injEq]; intro h; exact absurd h.2 (by decide)
    rw [List.singleton_append, splitCRLF_cons_nomatch _ _ this]
    simp [splitCRLF, consHead]
  | c :: d :: cs, b => by
    simp only [List.cons_append, splitCRLF]
    split
    · rw [splitCRLF_append cs b]; simp
    · have := splitCRLF_append (d :: cs) b
      simp only [List.cons_append] at this
      rw [this, consHead_append _ _ _ (splitCRLF_ne_nil _)]

theorem splitEnding_append (e : LineEnding) (a b : Text) :
    splitEnding e (a ++ e.str ++ b) = splitEnding e a ++ splitEnding e b := by
  cases e with
  | lf => simpa [splitEnding, LineEnding.str] using splitLF_append a b
  | crlf => simpa [splitEnding, LineEnding.str] using splitCRLF_append a b

/-- rendered lines of the paragraph loop -/
def wrapR (elen : Nat) (single : Text → Nat → Option (List LineD)) (paras : List Text) (off n : Nat) :
    Option (List Text) :=
  (wrapParas elen single paras off n).map (·.map LineD.render)

theorem wrapR_nil (elen : Nat) (single : Text → Nat → Option (List LineD)) (off n : Nat) :
    wrapR elen single [] off n = some [] := rfl

theorem wrapR_cons (elen : Nat) (single : Text → Nat → Option (List LineD)) (p : Text) (ps : List Text)
    (off n : Nat) :
    wrapR elen single (p :: ps) off n =
      match single p n with
      | none => none
      | some ls =>
        match wrapR elen single ps (off + blen p + elen) (n + ls.length) with
        | none => none
        | some r => some (ls.map LineD.render ++ r) := by
  simp only [wrapR, wrapParas]
  cases single p n with
  | none => rfl
  | some ls =>
    simp only
    cases wrapParas elen single ps (off + blen p + elen) (n + ls.length) with
    | none => rfl
    | some r => simp [List.map_map]; intro a _; rfl

/-- the byte offset is irrelevant for the rendered lines -/
theorem wrapR_off (elen : Nat) (single : Text → Nat → Option (List LineD)) (paras : List Text)
    (off off' n : Nat) : wrapR elen single paras off n = wrapR elen single paras off' n := by
  induction paras generalizing off off' n with
  | nil => rfl
  | cons p ps ih =>
    rw [wrapR_cons, wrapR_cons]
    cases single p n with
    | none => rfl
    | some ls => simp only; rw [ih (off + blen p + elen) (off' + blen p + elen)]

/-- neither the byte offset nor the byte length of the line ending matters for the rendered lines -/
theorem wrapR_elen (e1 e2 : Nat) (single : Text → Nat → Option (List LineD)) (paras : List Text)
    (off off' n : Nat) : wrapR e1 single paras off n = wrapR e2 single paras off' n := by
  induction paras generalizing off off' n with
  | nil => rfl
  | cons p ps ih =>
    rw [wrapR_cons, wrapR_cons]
    cases single p n with
    | none => rfl
    | some ls => simp only; rw [ih (off + blen p + e1) (off' + blen p + e2)]

theorem wrapR_append (elen : Nat) (single : Text → Nat → Option (List LineD)) (ps qs : List Text)
    (off n : Nat) :
    wrapR elen single (ps ++ qs) off n =
      match wrapR elen single ps off n with
      | none => none
      | some l1 =>
        match wrapR elen single qs 0 (n + l1.length) with
        | none => none
        | some l2 => some (l1 ++ l2) := by
  induction ps generalizing off n with
  | nil =>
    simp only [List.nil_append, wrapR_nil, List.length_nil, Nat.add_zero, List.nil_append]
    rw [wrapR_off elen single qs off 0]
    cases wrapR elen single qs 0 n <;> rfl
  | cons p ps ih =>
    simp only [List.cons_append]
    rw [wrapR_cons, wrapR_cons]
    cases single p n with
    | none => rfl
    | some ls =>
      simp only
      rw [ih]
      cases h1 : wrapR elen single ps (off + blen p + elen) (n + ls.length) with
      | none => rfl
      | some r =>
        simp only [List.length_append, List.length_map]
        have e : n + ls.length + r.length = n + (ls.length + r.length) := by omega
        rw [e]
        cases wrapR elen single qs 0 (n + (ls.length + r.length)) with
        | none => rfl
        | some l2 => simp

section
variable {α : Type} [CostNum α]

/-- the reassembly loop looks at the line count only through "is this the very first line" -/
theorem reassemble_pos (o : Opts) (line : Text) (groups : List (List Word)) (idx n m : Nat)
    (hn : 0 < n) (hm : 0 < m) : reassemble o line groups idx n = reassemble o line groups idx m := by
  induction groups generalizing idx n m with
  | nil => rfl
  | cons g gs ih =>
    have e1 : n ≠ 0 := by omega
    have e2 : m ≠ 0 := by omega
    simp only [reassemble, e1, e2, if_false]
    cases g.getLast? with
    | none => simp only; rw [ih idx (n + 1) (m + 1) (by omega) (by omega)]
    | some last =>
      simp only
      split
      · rfl
      · rw [ih _ (n + 1) (m + 1) (by omega) (by omega)]

theorem wrapSingleLine_pos (env : Env) (mo : MinimaOracle α) (o : Opts) (line : Text) (n m : Nat)
    (hn : 0 < n) (hm : 0 < m) : wrapSingleLine env mo o line n = wrapSingleLine env mo o line m := by
  have e1 : n ≠ 0 := by omega
  have e2 : m ≠ 0 := by omega
  unfold wrapSingleLine wrapSingleLineSlow
  simp only [e1, e2, if_false]
  split
  · rfl
  · cases pipeline env o line (o.width - displayWidth env.cw o.subsequentIndent) with
    | none => rfl
    | some words =>
      simp only
      cases wrapAlg mo o.alg words _ with
      | none => rfl
      | some groups => exact reassemble_pos o line groups 0 n m hn hm

theorem wrapR_pos (env : Env) (mo : MinimaOracle α) (o : Opts) (elen : Nat) (paras : List Text)
    (off n m : Nat) (hn : 0 < n) (hm : 0 < m) :
    wrapR elen (wrapSingleLine env mo o) paras off n = wrapR elen (wrapSingleLine env mo o) paras off m := by
  induction paras generalizing off n m with
  | nil => rfl
  | cons p ps ih =>
    rw [wrapR_cons, wrapR_cons, wrapSingleLine_pos env mo o p n m hn hm]
    cases wrapSingleLine env mo o p m with
    | none => rfl
    | some ls => simp only; rw [ih _ (n + ls.length) (m + ls.length) (by omega) (by omega)]

/-- with equal indents the line count is irrelevant altogether -/
theorem reassemble_same_indent (o : Opts) (hi : o.initialIndent = o.subsequentIndent) (line : Text)
    (groups : List (List Word)) (idx n m : Nat) :
    reassemble o line groups idx n = reassemble o line groups idx m := by
  induction groups generalizing idx n m with
  | nil => rfl
  | cons g gs ih =>
    simp only [reassemble, hi, ite_self]
    cases g.getLast? with
    | none => simp only; rw [ih idx (n + 1) (m + 1)]
    | some last =>
      simp only
      split
      · rfl
      · rw [ih _ (n + 1) (m + 1)]

theorem wrapSingleLine_same_indent (env : Env) (mo : MinimaOracle α) (o : Opts)
    (hi : o.initialIndent = o.subsequentIndent) (line : Text) (n m : Nat) :
    wrapSingleLine env mo o line n = wrapSingleLine env mo o line m := by
  unfold wrapSingleLine wrapSingleLineSlow
  simp only [hi, ite_self]
  split
  · rfl
  · cases pipeline env o line (o.width - displayWidth env.cw o.subsequentIndent) with
    | none => rfl
    | some words =>
      simp only
      cases wrapAlg mo o.alg words _ with
      | none => rfl
      | some groups => exact reassemble_same_indent o hi line groups 0 n m

theorem wrapR_same_indent (env : Env) (mo : MinimaOracle α) (o : Opts)
    (hi : o.initialIndent = o.subsequentIndent) (elen : Nat) (paras : List Text) (off n m : Nat) :
    wrapR elen (wrapSingleLine env mo o) paras off n = wrapR elen (wrapSingleLine env mo o) paras off m := by
  induction paras generalizing off n m with
  | nil => rfl
  | cons p ps ih =>
    rw [wrapR_cons, wrapR_cons, wrapSingleLine_same_indent env mo o hi p n m]
    cases wrapSingleLine env mo o p m with
    | none => rfl
    | some ls => simp only; rw [ih _ (n + ls.length) (m + ls.length)]

end
end TW

/-
  The fragment pipeline of the slow path (find → split → break → sentinel) keeps the words
  contiguous: concatenating word and whitespace of all fragments gives the line.
-/
import TextwrapModel.Wrap
import Lemmas.Words
import Lemmas.SplitWords
import Lemmas.Break
namespace TW

/-- the input text a fragment stands for (the penalty is not input text) -/
def Word.text (w : Word) : Text := w.word ++ w.ws

/-- concatenation of the fragments' texts -/
def wordsText (ws : List Word) : Text := (ws.map Word.text).flatten

@[simp] theorem wordsText_nil : wordsText [] = [] := rfl
@[simp] theorem wordsText_cons (w : Word) (ws : List Word) : wordsText (w :: ws) = w.word ++ w.ws ++ wordsText ws := by
  simp [wordsText, Word.text]
@[simp] theorem wordsText_append (a b : List Word) : wordsText (a ++ b) = wordsText a ++ wordsText b := by
  simp [wordsText]

/-- what every fragment of the pipeline satisfies: whitespace is spaces only, the cached width
    is the display width -/
def FragOk (cw : Char → Nat) (w : Word) : Prop :=
  (∀ c ∈ w.ws, c = SP) ∧ w.width = displayWidth cw w.word

theorem from_fragOk (cw : Char → Nat) (t : Text) : FragOk cw (Word.from cw t) :=
  ⟨trimEndSp_rest_spaces t, rfl⟩

theorem findWordsAscii_text (cw : Char → Nat) (line : Text) : wordsText (findWordsAscii cw line) = line := by
  unfold findWordsAscii wordsText
  have : ∀ ps : List Text, ((ps.map (Word.from cw)).map Word.text) = ps := by
    intro ps
    induction ps with
    | nil => rfl
    | cons p ps ih => simp only [List.map_cons, ih, Word.text]; rw [Word.from_lossless]
  rw [this, asciiGo_flatten]; simp

theorem findWords_text (env : Env) (sep : Sep) (line : Text) (ws : List Word)
    (h : findWords env sep line = some ws) : wordsText ws = line ∧ ∀ w ∈ ws, FragOk env.cw w := by
  cases sep with
  | ascii =>
    simp only [findWords, Option.some.injEq] at h
    subst h
    refine ⟨findWordsAscii_text _ _, ?_⟩
    intro w hw
    obtain ⟨t, _, rfl⟩ := List.mem_map.mp hw
    exact from_fragOk _ t
  | unicode =>
    simp only [findWords, findWordsUnicode] at h
    split at h
    · next os _ =>
      simp only [Option.some.injEq] at h
      subst h
      refine ⟨?_, ?_⟩
      · unfold wordsText
        have : ∀ ps : List Text, ((ps.map (Word.from env.cw)).map Word.text) = ps := by
          intro ps
          induction ps with
          | nil => rfl
          | cons p ps ih => simp only [List.map_cons, ih, Word.text]; rw [Word.from_lossless]
        rw [this, uniGo_flatten]; simp
      · intro w hw
        obtain ⟨t, _, rfl⟩ := List.mem_map.mp hw
        exact from_fragOk _ t
    · simp at h

/-- pieces of one word give back the word's text, for split points in the documented range -/
theorem splitOK_text (cw : Char → Nat) (w : Word) (pre : Text) (pts : List Nat) (ps : List Word)
    (h : SplitOK cw w pre pts ps) :
    pre ++ wordsText ps = w.word ++ w.ws ∧ ∀ p ∈ ps, p.width = displayWidth cw p.word ∧
      (p.ws = [] ∨ p.ws = w.ws) := by
  induction pts generalizing pre ps with
  | nil =>
    match ps, h with
    | [p], h =>
      obtain ⟨h1, h2, h3, h4⟩ := h
      refine ⟨by simp [← h4, h1], ?_⟩
      intro q hq; simp only [List.mem_singleton] at hq; subst hq; exact ⟨h3, Or.inr h1⟩
  | cons i pts ih =>
    match ps, h with
    | p :: ps, h =>
      obtain ⟨h1, h2, h3, h4, h5, h6⟩ := h
      obtain ⟨r1, r2⟩ := ih (pre ++ p.word) ps h6
      refine ⟨by simpa [h2] using r1, ?_⟩
      intro q hq
      rcases List.mem_cons.mp hq with rfl | hq
      · exact ⟨h3, Or.inl h2⟩
      · exact r2 q hq

/-- the splitter's points lie in the documented range `0 .. word.len()` (exclusive) for every
    word (true for the built-in splitters) -/
def SplitterInRange (isAlnum : Char → Bool) (sp : Splitter) : Prop :=
  ∀ w : Text, ∀ i ∈ sp.points isAlnum w, i < blen w

theorem splitWords_text (env : Env) (sp : Splitter) (hr : SplitterInRange env.isAlnum sp)
    (ws sw : List Word) (hws : ∀ w ∈ ws, FragOk env.cw w)
    (h : splitWords env sp ws = some sw) :
    wordsText sw = wordsText ws ∧ ∀ w ∈ sw, FragOk env.cw w := by
  induction ws generalizing sw with
  | nil => simp [splitWords] at h; subst h; simp
  | cons w rest ih =>
    simp only [splitWords] at h
    split at h
    · next a b ha hb =>
      simp only [Option.some.injEq] at h
      subst h
      obtain ⟨r1, r2⟩ := ih b (fun x hx => hws x (by simp [hx])) hb
      have hok := splitOne_ok env.cw w _ 0 [] w.word rfl rfl (hr w.word) (Or.inr rfl) a ha
      obtain ⟨t1, t2⟩ := splitOK_text env.cw w [] _ a hok
      have t1' : wordsText a = w.word ++ w.ws := by simpa using t1
      refine ⟨by simp only [wordsText_append, wordsText_cons, r1, t1'], ?_⟩
      intro x hx
      rcases List.mem_append.mp hx with hx | hx
      · obtain ⟨q1, q2⟩ := t2 x hx
        refine ⟨?_, q1⟩
        rcases q2 with q2 | q2
        · simp [q2]
        · rw [q2]; exact (hws w (by simp)).1
      · exact r2 x hx
    · simp at h

theorem breakOK_text (cw : Char → Nat) (limit : Nat) (ws pen : Text) (ps : List Word) (hne : ps ≠ [])
    (h : BreakOK cw limit ws pen ps) :
    wordsText ps = (ps.map (·.word)).flatten ++ ws ∧
      ∀ p ∈ ps, p.width = displayWidth cw p.word ∧ (p.ws = [] ∨ p.ws = ws) := by
  induction ps with
  | nil => exact absurd rfl hne
  | cons p rest ih =>
    cases rest with
    | nil =>
      obtain ⟨h1, h2, _, _, _⟩ := h
      refine ⟨by simp [h2], ?_⟩
      intro q hq; simp only [List.mem_singleton] at hq; subst hq; exact ⟨h1, Or.inr h2⟩
    | cons q r =>
      obtain ⟨h1, h2, _, _, _, _, _, _, h9⟩ := h
      obtain ⟨r1, r2⟩ := ih (by simp) h9
      refine ⟨by simp only [wordsText_cons, r1, h2]; simp, ?_⟩
      intro x hx
      rcases List.mem_cons.mp hx with rfl | hx
      · exact ⟨h1, Or.inl h2⟩
      · exact r2 x hx

theorem dw_pos_ne_nil (cw : Char → Nat) (t : Text) (h : 0 < displayWidth cw t) : t ≠ [] := by
  intro ht; subst ht; simp [displayWidth, dwFrom] at h

theorem breakWords_text (cw : Char → Nat) (limit : Nat) (ws : List Word) (hws : ∀ w ∈ ws, FragOk cw w) :
    wordsText (breakWords cw limit ws) = wordsText ws ∧ ∀ w ∈ breakWords cw limit ws, FragOk cw w := by
  induction ws with
  | nil => simp [breakWords]
  | cons w rest ih =>
    obtain ⟨r1, r2⟩ := ih (fun x hx => hws x (by simp [hx]))
    simp only [breakWords]
    split
    · next hlt =>
      have hw := hws w (by simp)
      have hne : w.word ≠ [] := dw_pos_ne_nil cw _ (by rw [← hw.2]; omega)
      have hok := breakGo_ok cw limit w.ws w.pen .normal [] 0 w.word rfl rfl (Or.inl (Nat.zero_le _))
      have hflat := breakGo_flatten cw limit w.ws w.pen .normal [] 0 w.word
      have hps : breakApart cw limit w ≠ [] := by
        intro he
        simp only [breakApart] at he
        rw [he] at hflat
        simp at hflat
        exact hne hflat
      obtain ⟨t1, t2⟩ := breakOK_text cw limit w.ws w.pen _ hps hok
      refine ⟨?_, ?_⟩
      · simp only [wordsText_append, wordsText_cons, r1, t1]
        simp only [breakApart, hflat]; simp
      · intro x hx
        rcases List.mem_append.mp hx with hx | hx
        · obtain ⟨q1, q2⟩ := t2 x hx
          refine ⟨?_, q1⟩
          rcases q2 with q2 | q2
          · simp [q2]
          · rw [q2]; exact hw.1
        · exact r2 x hx
    · refine ⟨by simp [r1], ?_⟩
      intro x hx
      rcases List.mem_append.mp hx with hx | hx
      · simp only [List.mem_singleton] at hx; subst hx; exact hws x (by simp)
      · exact r2 x hx

/-- **contiguity invariant**: the fragments handed to the wrap algorithm, concatenated with
    their whitespace, are exactly the line; whitespace parts are spaces only; cached widths are
    display widths. -/
theorem pipeline_contig (env : Env) (o : Opts) (hr : SplitterInRange env.isAlnum o.splitter)
    (line : Text) (sw : Nat) (ws : List Word) (h : pipeline env o line sw = some ws) :
    wordsText ws = line ∧ ∀ w ∈ ws, FragOk env.cw w := by
  unfold pipeline at h
  split at h
  · simp at h
  · next fw hfw =>
    obtain ⟨f1, f2⟩ := findWords_text env o.sep line fw hfw
    split at h
    · simp at h
    · next sp hsp =>
      obtain ⟨s1, s2⟩ := splitWords_text env o.splitter hr fw sp f2 hsp
      split at h
      · obtain ⟨b1, b2⟩ := breakWords_text env.cw sw sp s2
        split at h
        · simp only [Option.some.injEq] at h; subst h
          exact ⟨by rw [b1, s1, f1], b2⟩
        · simp only [Option.some.injEq] at h; subst h
          refine ⟨by simp [Word.from, trimEndSp, b1, s1, f1], ?_⟩
          intro w hw
          rcases List.mem_cons.mp hw with rfl | hw
          · exact from_fragOk _ _
          · exact b2 w hw
      · simp only [Option.some.injEq] at h; subst h
        exact ⟨by rw [s1, f1], s2⟩

end TW

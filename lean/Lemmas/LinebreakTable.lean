/-
  Facts about the regenerated tables of `unicode_linebreak` (finite checks over the pair table the
  crate was compiled with, re-run whenever the table changes).
-/
import TextwrapModel.Tables
import Lemmas.Linebreak
import Lemmas.LastOkUnicode
namespace TW

theorem getD_all {P : Nat → Prop} (row : List Nat) (d : Nat) (hrow : ∀ v ∈ row, P v) (hd : P d) (k : Nat) :
    P (row.getD k d) := by
  rw [List.getD_eq_getElem?_getD]
  cases h : row[k]? with
  | none => simpa using hd
  | some v => simpa using hrow v (List.mem_of_getElem? h)

/-- UAX #14 LB2 in the compiled table: from the start-of-text state nothing is a break — neither
    before a first character of any class nor before end of text (the empty string) -/
theorem lbTables_noBreakAtSot : NoBreakAtSot lbTables := by
  intro k
  show ((Gen.lbPair.getD Gen.lbSot []).getD k 0 &&& Gen.lbAllowedBit != 0) = false
  refine getD_all (P := fun v => (v &&& Gen.lbAllowedBit != 0) = false) _ 0 ?_ (by decide) k
  decide +kernel

/-- the transcription in `TextwrapModel/Linebreak.lean` is of this text of `linebreaks`
    (FNV-1a of the function's source, whitespace removed): another version of the crate breaks
    this obligation even where the opportunities happen to agree -/
theorem lbScan_pinned : Gen.lbScanHash = 14504349850188543191 := by decide +kernel

/-- the opportunities of the model's own `linebreaks` on the compiled tables: char boundaries,
    strictly increasing, positive, at most the byte length -/
theorem ownOpps_contract (s : Text) :
    (∀ o ∈ ownOpps lbTables s, ∃ l r, s = l ++ r ∧ blen l = o) ∧
    (ownOpps lbTables s).Pairwise (· < ·) ∧
    (∀ o ∈ ownOpps lbTables s, 0 < o) ∧
    (∀ o ∈ ownOpps lbTables s, o ≤ blen s) :=
  ⟨ownOpps_boundary _ s, ownOpps_pairwise _ s, ownOpps_pos _ lbTables_noBreakAtSot s, ownOpps_le _ s⟩

end TW

namespace TW

theorem lookupRuns_mem (runs : List (Nat × Nat)) (n d : Nat) :
    lookupRuns runs n d = d ∨ ∃ p ∈ runs, lookupRuns runs n d = p.2 := by
  induction runs generalizing d with
  | nil => exact Or.inl rfl
  | cons p rest ih =>
    obtain ⟨s, v⟩ := p
    simp only [lookupRuns]
    split
    · exact Or.inl rfl
    · rcases ih v with h | ⟨q, hq, h⟩
      · exact Or.inr ⟨(s, v), by simp, h⟩
      · exact Or.inr ⟨q, by simp [hq], h⟩

/-- every scalar value has one of the 43 classes (a column of the pair table) -/
theorem lbTables_clsLt (c : Char) : lbTables.cls c < 44 := by
  show lookupRuns Gen.lbClassRuns c.toNat 0 < 44
  have hall : ∀ p ∈ Gen.lbClassRuns, p.2 < 44 := by
    have : Gen.lbClassRuns.all (fun p => decide (p.2 < 44)) = true := by decide +kernel
    intro p hp
    simpa using List.all_eq_true.mp this p hp
  rcases lookupRuns_mem Gen.lbClassRuns c.toNat 0 with h | ⟨p, hp, h⟩
  · rw [h]; decide
  · rw [h]; exact hall p hp

/-- the class of U+0020 (`BreakClass::Space as u8`) -/
def lbSP : Nat := 9
/-- the hard-line-break classes BK (0), CR (1), LF (2), NL (4): `BreakClass::{Mandatory,
    CarriageReturn, LineFeed, NextLine} as u8` -/
def lbHardCls (k : Nat) : Bool := k == 0 || k == 1 || k == 2 || k == 4
/-- the states from which the table reports a break before a space -/
def lbBadState (st : Nat) : Bool := lbTables.allowed (lbTables.pair st lbSP)

theorem lbTables_space : lbTables.cls ' ' = lbSP := by decide +kernel

/-- LB7 in the compiled table: a break before a space is reported only from states entered by a
    hard line break (2 332 table entries checked by the kernel) -/
theorem lbTables_lb7 : LB7Facts lbTables 53 44 lbSP lbBadState lbHardCls where
  noSp := by
    intro st _ h
    simpa [lbBadState] using h
  stay := by decide +kernel
  clsLt := lbTables_clsLt
  sot := by decide +kernel

/-- a text without hard-line-break characters (classes BK, CR, LF, NL: U+000A–U+000D, U+0085,
    U+2028, U+2029) -/
def HardFree (s : Text) : Prop := ∀ c ∈ s, lbHardCls (lbTables.cls c) = false

/-- **LB7 for the model's own `linebreaks`**: in a text without hard-line-break characters no
    opportunity lies directly before a space -/
theorem ownOpps_noSpace (s : Text) (h : HardFree s) :
    ∀ a c b, s = a ++ c :: b → blen a ∈ ownOpps lbTables s → c ≠ ' ' := by
  intro a c b hs ho hc
  have := lbGo_noSpace lbTables lbTables_lb7 lbTables.sot false 0 s lbTables_lb7.sot h a c b hs
    (by simpa [ownOpps] using ho)
  exact this (by rw [hc]; exact lbTables_space)

/-- … and it does fail after a hard line break: `linebreaks("a\u{2028} b")` reports offset 4,
    directly before the space (LB4 takes precedence over LB7) -/
theorem ownOpps_space_after_hard : ownOpps lbTables ['a', ' ', ' ', 'b'] = [4, 5, 6] := by decide +kernel

end TW

namespace TW

/-! ### the clauses of the `unicode_linebreak` contract, for an environment that runs the model's
own `linebreaks` on the compiled tables -/

theorem oppsNoSpace_own (env : Env) (h : env.opps = ownOpps lbTables) (s : Text) (hf : HardFree s) :
    OppsNoSpace s (env.opps s) := by
  intro a c b hs ho
  rw [h] at ho
  exact ownOpps_noSpace s hf a c b hs ho

theorem boundary_own (env : Env) (T : LbTables) (h : env.opps = ownOpps T) (s : Text) :
    ∀ o' ∈ env.opps s, o' < blen s → ∃ l r, s = l ++ r ∧ blen l = o' := by
  intro o' ho' _
  rw [h] at ho'
  exact ownOpps_boundary T s o' ho'


/-- restart invariance holds for the compiled table (2 332 entries, checked by the kernel) -/
theorem lbTables_restart : RestartFacts lbTables 53 44 where
  inv := by unfold RestartInv; decide +kernel
  stay := by decide +kernel
  clsLt := lbTables_clsLt
  sot := by decide +kernel

/-- **a part of a line between two reported opportunities (or the ends), analysed on its own, has
    exactly the inner opportunities it had inside the line** — for the compiled table -/
theorem ownOpps_part (A : Text) (c : Char) (l B : Text)
    (hA : A = [] ∨ blen A ∈ ownOpps lbTables (A ++ (c :: l) ++ B)) (o : Nat)
    (h0 : 0 < o) (h1 : o < blen (c :: l)) :
    blen A + o ∈ ownOpps lbTables (A ++ (c :: l) ++ B) ↔ o ∈ ownOpps lbTables (c :: l) := by
  rcases hA with rfl | hA
  · simp only [List.nil_append, blen, Nat.zero_add]
    exact ownOpps_prefix lbTables (c :: l) B o h1
  · rw [List.append_assoc] at hA ⊢
    have e : (c :: l) ++ B = c :: (l ++ B) := rfl
    rw [e] at hA ⊢
    rw [ownOpps_restart lbTables lbTables_restart A c (l ++ B) hA (blen A + o) (by omega)]
    have e2 : blen A + o - blen A = o := by omega
    rw [e2, ← e]
    exact ownOpps_prefix lbTables (c :: l) B o h1

end TW

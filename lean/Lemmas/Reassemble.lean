/-
  The line reassembly loop of `wrap_single_line_slow_path` (wrap.rs:247-291).
-/
import Lemmas.Pipeline
namespace TW

/-- the slice a non-empty group of fragments turns into: everything but the whitespace of the
    last fragment -/
def groupSlice (g : List Word) : Text :=
  match g.getLast? with
  | none => []
  | some last => wordsText g.dropLast ++ last.word

/-- the input text skipped after the group's slice -/
def groupGap (g : List Word) : Text :=
  match g.getLast? with
  | none => []
  | some last => last.ws

theorem group_text (g : List Word) : wordsText g = groupSlice g ++ groupGap g := by
  unfold groupSlice groupGap
  cases h : g.getLast? with
  | none => have : g = [] := List.getLast?_eq_none_iff.mp h
            subst this; simp
  | some last =>
    obtain ⟨ys, rfl⟩ := List.getLast?_eq_some_iff.mp h
    simp

theorem sum_blen (g : List Word) : (g.map fun w => blen w.word + blen w.ws).sum = blen (wordsText g) := by
  induction g with
  | nil => simp
  | cons w r ih => simp [ih, Nat.add_assoc]

/-- the descriptors the loop produces, without the slicing checks -/
def specLines (o : Opts) : List (List Word) → Nat → Nat → List LineD
  | [], _, _ => []
  | g :: gs, idx, n =>
    let indent := if n = 0 then o.initialIndent else o.subsequentIndent
    match g.getLast? with
    | none =>
      { indent := indent, start := idx, len := 0, slice := [], pen := [],
        borrowed := indent.isEmpty, inBuf := false } :: specLines o gs idx (n + 1)
    | some last =>
      { indent := indent, start := idx, len := blen (groupSlice g), slice := groupSlice g, pen := last.pen,
        borrowed := indent.isEmpty && last.pen.isEmpty, inBuf := true } ::
        specLines o gs (idx + blen (wordsText g)) (n + 1)

/-- the loop never panics on contiguous fragments, and every slice is the group's slice -/
theorem reassemble_eq_spec (o : Opts) (line consumed : Text) (groups : List (List Word)) (idx n : Nat)
    (hline : line = consumed ++ wordsText groups.flatten) (hidx : idx = blen consumed) :
    reassemble o line groups idx n = some (specLines o groups idx n) := by
  induction groups generalizing consumed idx n with
  | nil => simp [reassemble, specLines]
  | cons g gs ih =>
    simp only [reassemble, specLines]
    cases hl : g.getLast? with
    | none =>
      have hg : g = [] := List.getLast?_eq_none_iff.mp hl
      subst hg
      simp only
      rw [ih consumed idx (n + 1) (by simpa using hline) hidx]
    | some last =>
      simp only
      have htext := group_text g
      have hgap : groupGap g = last.ws := by simp [groupGap, hl]
      rw [sum_blen]
      have hge : ¬ blen (wordsText g) < blen last.ws := by
        rw [htext, hgap]; simp
      simp only [hge, if_false]
      have hlen : blen (wordsText g) - blen last.ws = blen (groupSlice g) := by
        rw [htext, hgap]; simp
      rw [hlen]
      have hl2 : line = consumed ++ groupSlice g ++ (last.ws ++ wordsText gs.flatten) := by
        rw [hline]; simp only [List.flatten_cons, wordsText_append, htext, hgap]; simp
      have hs : slice? line idx (idx + blen (groupSlice g)) = some (groupSlice g) := by
        rw [hl2, hidx]
        have := slice?_append consumed (groupSlice g) (last.ws ++ wordsText gs.flatten)
        simpa using this
      rw [hs]
      have hrec := ih (consumed ++ wordsText g) (idx + blen (groupSlice g) + blen last.ws) (n + 1)
        (by rw [hline]; simp) (by rw [hidx, htext, hgap]; simp [Nat.add_assoc])
      rw [hrec]
      have : idx + blen (groupSlice g) + blen last.ws = idx + blen (wordsText g) := by
        rw [htext, hgap]; simp [Nat.add_assoc]
      rw [this]

/-- `text` decomposes, from byte offset `off` on, into the slices of the lines, each followed by
    its gap; `start`/`len` of every line are the offset and length of its slice -/
def Decomp : Nat → List (LineD × Text) → Text → Prop
  | _, [], t => t = []
  | off, (d, gap) :: r, t =>
    d.start = off ∧ d.len = blen d.slice ∧
      ∃ t', t = d.slice ++ gap ++ t' ∧ Decomp (off + blen d.slice + blen gap) r t'

theorem specLines_decomp (o : Opts) (groups : List (List Word)) (idx n : Nat) :
    Decomp idx ((specLines o groups idx n).zip (groups.map groupGap)) (wordsText groups.flatten) := by
  induction groups generalizing idx n with
  | nil => simp [specLines, Decomp]
  | cons g gs ih =>
    simp only [specLines]
    cases hl : g.getLast? with
    | none =>
      have hg : g = [] := List.getLast?_eq_none_iff.mp hl
      subst hg
      simp only [List.map_cons, List.zip_cons_cons, Decomp, blen_nil, Nat.add_zero, List.nil_append,
        true_and]
      exact ⟨wordsText gs.flatten, by simp [groupGap], by simpa [groupGap] using ih idx (n + 1)⟩
    | some last =>
      simp only [List.map_cons, List.zip_cons_cons, Decomp, true_and]
      refine ⟨wordsText gs.flatten, ?_, ?_⟩
      · simp only [List.flatten_cons, wordsText_append, group_text g]
      · have := ih (idx + blen (wordsText g)) (n + 1)
        have e : idx + blen (groupSlice g) + blen (groupGap g) = idx + blen (wordsText g) := by
          rw [group_text g]; simp [Nat.add_assoc]
        rw [e]; exact this

theorem specLines_length (o : Opts) (groups : List (List Word)) (idx n : Nat) :
    (specLines o groups idx n).length = groups.length := by
  induction groups generalizing idx n with
  | nil => rfl
  | cons g gs ih => simp only [specLines]; split <;> simp [ih]

/-- the `k`-th descriptor carries the initial indent iff it is the very first line (`n + k = 0`) -/
theorem specLines_indent (o : Opts) (groups : List (List Word)) (idx n : Nat) :
    ∀ k (d : LineD), (specLines o groups idx n)[k]? = some d →
      d.indent = (if n + k = 0 then o.initialIndent else o.subsequentIndent) ∧
      d.borrowed = (d.indent.isEmpty && d.pen.isEmpty) := by
  induction groups generalizing idx n with
  | nil => intro k d h; simp [specLines] at h
  | cons g gs ih =>
    intro k d h
    simp only [specLines] at h
    cases k with
    | zero =>
      split at h <;> (simp only [List.getElem?_cons_zero, Option.some.injEq] at h; subst h; simp)
    | succ k =>
      have : n + (k + 1) = (n + 1) + k := by omega
      rw [this]
      split at h
      · exact ih _ _ k d (by simpa using h)
      · exact ih _ _ k d (by simpa using h)

/-- every descriptor comes from a group: its slice, penalty and indent -/
theorem specLines_mem (o : Opts) (G : List (List Word)) (idx n : Nat) :
    ∀ d ∈ specLines o G idx n, ∃ g ∈ G, d.slice = groupSlice g ∧
      (d.pen = [] ∨ ∃ last ∈ g, d.pen = last.pen) ∧
      (d.indent = o.initialIndent ∨ d.indent = o.subsequentIndent) := by
  induction G generalizing idx n with
  | nil => intro d hd; simp [specLines] at hd
  | cons g r ih =>
    intro d hd
    simp only [specLines] at hd
    have hind : ∀ (x : Text), x = (if n = 0 then o.initialIndent else o.subsequentIndent) →
        x = o.initialIndent ∨ x = o.subsequentIndent := by
      intro x hx; by_cases h0 : n = 0 <;> simp [hx, h0]
    cases hl : g.getLast? with
    | none =>
      rw [hl] at hd
      rcases List.mem_cons.mp hd with rfl | hd
      · exact ⟨g, by simp, by simp [groupSlice, hl], Or.inl rfl, hind _ rfl⟩
      · obtain ⟨g0, hg0, h⟩ := ih _ _ d hd
        exact ⟨g0, by simp [hg0], h⟩
    | some last =>
      rw [hl] at hd
      rcases List.mem_cons.mp hd with rfl | hd
      · exact ⟨g, by simp, rfl, Or.inr ⟨last, List.mem_of_getLast? hl, rfl⟩, hind _ rfl⟩
      · obtain ⟨g0, hg0, h⟩ := ih _ _ d hd
        exact ⟨g0, by simp [hg0], h⟩


end TW

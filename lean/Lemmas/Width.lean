/-
  Width reasoning: additivity of the display width over fragments whose boundaries lie in
  skipper state `normal` (H-norm), and the first-fit "everything fits on one line" lemma.
-/
import Lemmas.WrapLine
namespace TW

/-- **H-norm**: scanning the fragments in order, every word begins and ends in skipper state
    `normal` and every whitespace part is spaces only -/
def HNorm : List Word → Prop
  | [] => True
  | w :: r => Ansi.run .normal w.word = .normal ∧ (∀ c ∈ w.ws, c = SP) ∧ HNorm r

theorem run_normal_spaces (t : Text) (h : ∀ c ∈ t, c = SP) : Ansi.run .normal t = .normal :=
  run_normal_escfree t (fun c hc => by rw [h c hc]; decide)

theorem dw_spaces_list (cw : Char → Nat) (hsp : cw SP = 1) (t : Text) (h : ∀ c ∈ t, c = SP) :
    dwFrom cw .normal t = blen t := by
  induction t with
  | nil => rfl
  | cons c cs ih =>
    have hc : c = SP := h c (by simp)
    subst hc
    have : SP ≠ ESC := by decide
    simp only [dwFrom, Ansi.step, this, if_false, if_true, blen_cons, hsp]
    rw [ih (fun d hd => h d (by simp [hd]))]
    have : SP.utf8Size = 1 := by decide
    omega

/-- sum of `width + whitespace length` of the fragments -/
def fragSum (ws : List Word) : Nat := (ws.map fun w => w.width + blen w.ws).sum

@[simp] theorem fragSum_nil : fragSum [] = 0 := rfl
@[simp] theorem fragSum_cons (w : Word) (r : List Word) : fragSum (w :: r) = w.width + blen w.ws + fragSum r := by
  simp [fragSum]
@[simp] theorem fragSum_append (a b : List Word) : fragSum (a ++ b) = fragSum a + fragSum b := by
  simp [fragSum]

/-- under H-norm the display width of the fragments' text is the sum of cached widths and
    whitespace lengths, and the scan ends in state `normal` -/
theorem hnorm_additive (cw : Char → Nat) (hsp : cw SP = 1) (frs : List Word) (hn : HNorm frs)
    (hw : ∀ w ∈ frs, w.width = displayWidth cw w.word) :
    dwFrom cw .normal (wordsText frs) = fragSum frs ∧ Ansi.run .normal (wordsText frs) = .normal := by
  induction frs with
  | nil => simp [dwFrom, Ansi.run]
  | cons w r ih =>
    obtain ⟨h1, h2, h3⟩ := hn
    obtain ⟨r1, r2⟩ := ih h3 (fun x hx => hw x (by simp [hx]))
    have hwd := hw w (by simp)
    unfold displayWidth at hwd
    simp only [wordsText_cons, fragSum_cons]
    refine ⟨?_, ?_⟩
    · rw [dwFrom_append, dwFrom_append, run_append, h1, run_normal_spaces _ h2, r1, ← hwd,
        dw_spaces_list cw hsp _ h2]
    · rw [run_append, run_append, h1, run_normal_spaces _ h2, r2]

/-- ESC-free text satisfies H-norm for any fragmentation into words and space runs -/
theorem hnorm_of_escfree (frs : List Word) (hsp : ∀ w ∈ frs, ∀ c ∈ w.ws, c = SP)
    (hesc : ∀ c ∈ wordsText frs, c ≠ ESC) : HNorm frs := by
  induction frs with
  | nil => trivial
  | cons w r ih =>
    refine ⟨?_, hsp w (by simp), ih (fun x hx => hsp x (by simp [hx])) ?_⟩
    · apply run_normal_escfree
      intro c hc; exact hesc c (by simp [hc])
    · intro c hc; exact hesc c (by simp [hc])

/-! ### first-fit: everything fits on the first line -/

/-- all penalties empty -/
def NoPen (frs : List Word) : Prop := ∀ w ∈ frs, w.pen = []

theorem ofNat_add (a b : Nat) : (CostNum.ofNat (α := Int) a + CostNum.ofNat b) = CostNum.ofNat (a + b) := by
  simp [CostNum.ofNat]

/-- if the whole fragment list (without penalties) fits the width of the first line, first-fit
    keeps it on one line -/
theorem ofNat_int (n : Nat) : (CostNum.ofNat (α := Int) n) = (n : Int) := rfl

theorem ffGo_one_line (lws : List Int) (dflt : Int) (k : Nat) (cur fs : List Word) (width : Int)
    (hw : width = (fragSum cur : Int))
    (hnp : NoPen fs)
    (hfit : ((fragSum cur + fragSum fs : Nat) : Int) ≤ lws.getD k dflt) :
    ffGo (fragOf (α := Int)) lws dflt k cur width fs = [cur ++ fs] := by
  induction fs generalizing cur width with
  | nil => simp [ffGo]
  | cons f fs ih =>
    simp only [ffGo]
    have hp : f.pen = [] := hnp f (by simp)
    generalize hL : lws.getD k dflt = L at hfit ⊢
    have hno : ¬ (L < width + (fragOf (α := Int) f).w + (fragOf (α := Int) f).pen) := by
      simp only [fragOf, hp, blen_nil, ofNat_int, hw]
      simp only [fragSum_cons] at hfit
      intro hlt
      have : ((fragSum cur + (f.width + blen f.ws + fragSum fs) : Nat) : Int) =
          (fragSum cur : Int) + f.width + blen f.ws + fragSum fs := by push_cast; omega
      rw [this] at hfit
      have h1 : (0 : Int) ≤ blen f.ws := Int.natCast_nonneg _
      have h2 : (0 : Int) ≤ fragSum fs := Int.natCast_nonneg _
      have h3 : ((0 : Nat) : Int) = 0 := rfl
      rw [h3] at hlt
      omega
    have : ¬ (L < width + (fragOf (α := Int) f).w + (fragOf (α := Int) f).pen ∧ ¬ cur.isEmpty = true) :=
      fun h => hno h.1
    simp only [this, if_false]
    subst hL
    rw [ih (cur ++ [f]) _ ?_ (fun w hw' => hnp w (by simp [hw'])) ?_]
    · simp
    · simp only [fragOf, ofNat_int, hw, fragSum_append, fragSum_cons, fragSum_nil]
      push_cast; omega
    · simp only [fragSum_append, fragSum_cons, fragSum_nil] at hfit ⊢
      have : fragSum cur + (f.width + blen f.ws + 0) + fragSum fs = fragSum cur + (f.width + blen f.ws + fragSum fs) := by
        omega
      rw [this]; exact hfit

end TW

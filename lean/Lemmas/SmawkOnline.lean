/-
  Correctness of the model of `smawk::online_column_minima` on an online matrix
  `M[i, j] = D i + c i j` (`D i` = the minimum of column `i`, known once column `i` is
  finished) that is totally monotone above the diagonal in the strict form: the vector returned
  holds, for every column `j ≥ 1`, a row `r < j` with `D j = D r + c r j ≤ D i + c i j` for all
  `i < j`. Invariant after Galil–Park / Eppstein: columns up to `finished` are final; columns in
  `(finished, tentative]` hold the minimum over rows `base .. finished-1`; every row below `base`
  is, in every later column, either already accounted for in the stored value or dominated by a
  row in `base .. finished-1`.
-/
import Lemmas.SmawkMin
namespace TW

abbrev Vec := List (Nat × Int)

def Dof (res : Vec) (j : Nat) : Int := (res.getD j (0, 0)).2
def Rof (res : Vec) (j : Nat) : Nat := (res.getD j (0, 0)).1

/-- the entries `1..k` are reached through their rows: `D j = D (r j) + c (r j) j`, `r j < j` -/
def ChainUpTo (c : Nat → Nat → Int) (init : Int) (res : Vec) (k : Nat) : Prop :=
  Dof res 0 = init ∧ ∀ j, 1 ≤ j → j ≤ k → Rof res j < j ∧ Dof res j = Dof res (Rof res j) + c (Rof res j) j

/-- the closure computes `D i + c i j` from the prefix it is given -/
def MIsCost (M : Vec → Nat → Nat → Option Int) (c : Nat → Nat → Int) (size : Nat) : Prop :=
  ∀ pre i j, VecShape pre → i < pre.length → i < j → j < size → M pre i j = some (Dof pre i + c i j)

/-- strict total monotonicity above the diagonal of the online matrix, given the chain below
    the larger row -/
def OnlineTM (c : Nat → Nat → Int) (init : Int) (size : Nat) : Prop :=
  ∀ res k, ChainUpTo c init res k → ∀ i i' j j', i < i' → i' ≤ k → i' < j → j < j' → j' < size →
    Dof res i' + c i' j < Dof res i + c i j → Dof res i' + c i' j' < Dof res i + c i j'

theorem Dof_take (res : Vec) (n j : Nat) (h : j < n) : Dof (res.take n) j = Dof res j := by
  unfold Dof
  rw [List.getD_eq_getElem?_getD, List.getD_eq_getElem?_getD, List.getElem?_take, if_pos h]

theorem getD_eq_of_getElem? {res : Vec} {j : Nat} {e : Nat × Int} (h : res[j]? = some e) :
    res.getD j (0, 0) = e := by
  rw [List.getD_eq_getElem?_getD, h]; rfl

/-- pointwise description of the store loop of the first case -/
theorem ocmStore_val (m : Nat → Nat → Option Int) (minima : List Nat) (v : Nat → Int) :
    ∀ (k a : Nat) (res : Vec),
    a ≤ res.length →
    (∀ c, a ≤ c → c < a + k → c < minima.length ∧ m (minima.getD c 0) c = some (v c)) →
    ∃ res', ocmStore m minima (List.range' a k) res = some res' ∧
      res'.length = max res.length (a + k) ∧
      (∀ j, j < a → res'.getD j (0, 0) = res.getD j (0, 0)) ∧
      (∀ j, a + k ≤ j → res'.getD j (0, 0) = res.getD j (0, 0)) ∧
      (∀ j, a ≤ j → j < a + k →
        (res'.getD j (0, 0) = (minima.getD j 0, v j) ∧ (j < res.length → v j < Dof res j)) ∨
        (j < res.length ∧ res'.getD j (0, 0) = res.getD j (0, 0) ∧ Dof res j ≤ v j)) := by
  intro k
  induction k with
  | zero =>
    intro a res _ _
    exact ⟨res, by simp [ocmStore], by omega, fun _ _ => rfl, fun _ _ => rfl, fun j h1 h2 => by omega⟩
  | succ k ih =>
    intro a res ha hc
    obtain ⟨c1, c2⟩ := hc a (Nat.le_refl _) (by omega)
    have hget : minima[a]? = some (minima.getD a 0) := by
      simp [List.getD_eq_getElem?_getD, List.getElem?_eq_getElem c1]
    have hc' : ∀ c, a + 1 ≤ c → c < a + 1 + k → c < minima.length ∧ m (minima.getD c 0) c = some (v c) :=
      fun c h1 h2 => hc c (by omega) (by omega)
    rw [List.range'_succ]
    simp only [ocmStore, hget, c2]
    by_cases hlen : res.length ≤ a
    · rw [if_pos hlen]
      have hea : a = res.length := by omega
      obtain ⟨res', r1, r2, r3, r4, r5⟩ := ih (a + 1) (res ++ [(minima.getD a 0, v a)]) (by simp; omega) hc'
      refine ⟨res', r1, by rw [r2]; simp; omega, ?_, ?_, ?_⟩
      · intro j hj
        rw [r3 j (by omega)]
        simp only [List.getD_eq_getElem?_getD]
        rw [List.getElem?_append_left (by omega)]
      · intro j hj
        rw [r4 j (by omega)]
        simp only [List.getD_eq_getElem?_getD]
        rw [List.getElem?_append_right (by omega)]
        have h1 : j - res.length = (j - res.length - 1) + 1 := by omega
        rw [h1]
        have h2 : res[j]? = none := List.getElem?_eq_none (by omega)
        simp [h2]
      · intro j h1 h2
        by_cases hja : j = a
        · subst hja
          left
          refine ⟨?_, fun h => by omega⟩
          rw [r3 j (by omega)]
          simp only [List.getD_eq_getElem?_getD]
          rw [List.getElem?_append_right (by omega)]
          simp [hea]
        · rcases r5 j (by omega) (by omega) with ⟨e1, e2⟩ | ⟨e1, e2, e3⟩
          · left
            refine ⟨e1, fun h => by omega⟩
          · exfalso
            simp at e1; omega
    · rw [if_neg hlen]
      have hlt : a < res.length := by omega
      rw [List.getElem?_eq_getElem hlt]
      dsimp only
      have hDa : Dof res a = res[a].2 := by
        unfold Dof
        rw [List.getD_eq_getElem?_getD, List.getElem?_eq_getElem hlt]; rfl
      by_cases hv : v a < res[a].2
      · rw [if_pos hv]
        obtain ⟨res', r1, r2, r3, r4, r5⟩ := ih (a + 1) (res.set a (minima.getD a 0, v a)) (by simp; omega) hc'
        have hother : ∀ j, j ≠ a → (res.set a (minima.getD a 0, v a)).getD j (0, 0) = res.getD j (0, 0) := by
          intro j hj
          simp only [List.getD_eq_getElem?_getD]
          rw [List.getElem?_set_ne (by omega)]
        refine ⟨res', r1, by rw [r2]; simp; omega, ?_, ?_, ?_⟩
        · intro j hj; rw [r3 j (by omega), hother j (by omega)]
        · intro j hj; rw [r4 j (by omega), hother j (by omega)]
        · intro j h1 h2
          by_cases hja : j = a
          · subst hja
            left
            refine ⟨?_, fun _ => by rw [hDa]; exact hv⟩
            rw [r3 j (by omega)]
            simp only [List.getD_eq_getElem?_getD]
            rw [List.getElem?_set_self hlt]; rfl
          · have hD : Dof (res.set a (minima.getD a 0, v a)) j = Dof res j := by
              unfold Dof; rw [hother j hja]
            rcases r5 j (by omega) (by omega) with ⟨e1, e2⟩ | ⟨e1, e2, e3⟩
            · left
              refine ⟨e1, fun h => ?_⟩
              have := e2 (by simpa using h)
              rwa [hD] at this
            · right
              refine ⟨by simpa using e1, by rw [e2, hother j hja], by rw [← hD]; exact e3⟩
      · rw [if_neg hv]
        obtain ⟨res', r1, r2, r3, r4, r5⟩ := ih (a + 1) res (by omega) hc'
        refine ⟨res', r1, by rw [r2]; omega, fun j hj => r3 j (by omega), fun j hj => r4 j (by omega), ?_⟩
        intro j h1 h2
        by_cases hja : j = a
        · subst hja
          right
          exact ⟨hlt, r3 j (by omega), by rw [hDa]; omega⟩
        · exact r5 j (by omega) (by omega)

/-! ### the invariant -/

structure OcmInv2 (c : Nat → Nat → Int) (init : Int) (size : Nat) (s : Ocm Int) : Prop where
  base : OcmInv size s
  t_ge : s.finished ≤ s.tentative
  d0 : Dof s.result 0 = init
  ach : ∀ j, 1 ≤ j → j < s.result.length →
    Dof s.result j = Dof s.result (Rof s.result j) + c (Rof s.result j) j
  rowb : ∀ j, s.finished < j → j < s.result.length → Rof s.result j < s.finished
  A : ∀ j, 1 ≤ j → j ≤ s.finished → ∀ i, i < j → Dof s.result j ≤ Dof s.result i + c i j
  B : ∀ j, s.finished < j → j ≤ s.tentative → ∀ q, s.base ≤ q → q < s.finished →
    Dof s.result j ≤ Dof s.result q + c q j
  C : ∀ j, s.finished < j → j < size → ∀ q, q < s.base →
    (j < s.result.length ∧ Dof s.result j ≤ Dof s.result q + c q j) ∨
    (∃ p, s.base ≤ p ∧ p < s.finished ∧ Dof s.result p + c p j ≤ Dof s.result q + c q j)

theorem Rof_lt {res : Vec} (h : VecShape res) {j : Nat} (h1 : 1 ≤ j) (hj : j < res.length) : Rof res j < j := by
  unfold Rof
  rw [List.getD_eq_getElem?_getD, List.getElem?_eq_getElem hj]
  exact h j h1 res[j] (List.getElem?_eq_getElem hj)

theorem OcmInv2.chain {c : Nat → Nat → Int} {init : Int} {size : Nat} {s : Ocm Int}
    (inv : OcmInv2 c init size s) : ChainUpTo c init s.result s.finished := by
  refine ⟨inv.d0, fun j h1 hj => ?_⟩
  have hl : j < s.result.length := by have := inv.base.fin_lt; omega
  exact ⟨Rof_lt inv.base.shape h1 hl, inv.ach j h1 hl⟩

theorem MIsCost.ok {M : Vec → Nat → Nat → Option Int} {c : Nat → Nat → Int} {size : Nat}
    (h : MIsCost M c size) : MOk M size := fun pre i j hs hi hij hj => by
  rw [h pre i j hs hi hij hj]; rfl

theorem ocmM_val {M : Vec → Nat → Nat → Option Int} {c : Nat → Nat → Int} {size : Nat}
    (hM : MIsCost M c size) {s : Ocm Int} (inv : OcmInv size s) {i j : Nat}
    (hi : i ≤ s.finished) (hij : i < j) (hj : j < size) :
    ocmM M size s i j = some (Dof s.result i + c i j) := by
  have := inv.fin_lt
  have hsz : i < size := by omega
  simp only [ocmM, hij, hsz, hj, and_self, ↓reduceIte]
  rw [if_pos (by omega)]
  rw [hM _ i j (inv.shape.take _) (by rw [List.length_take]; omega) hij hj, Dof_take _ _ _ (by omega)]

/-- when row `finished` strictly beats the stored value of a tentative column `pc`, every older
    row is, in every later column, accounted for or dominated by row `finished` -/
theorem OcmInv2.newbase {c : Nat → Nat → Int} {init : Int} {size : Nat} {s : Ocm Int}
    (inv : OcmInv2 c init size s) (hTM : OnlineTM c init size) (pc : Nat)
    (h1 : s.finished < pc) (h2 : pc ≤ s.tentative)
    (hbeat : Dof s.result s.finished + c s.finished pc < Dof s.result pc) :
    ∀ j, pc ≤ j → j < size → ∀ q, q < s.finished →
      (j < s.result.length ∧ Dof s.result j ≤ Dof s.result q + c q j) ∨
      (Dof s.result s.finished + c s.finished j ≤ Dof s.result q + c q j) := by
  have htl := inv.base.ten_lt
  have hsz := inv.base.len_le
  -- rows in the active range
  have act : ∀ j, pc ≤ j → j < size → ∀ q, s.base ≤ q → q < s.finished →
      (j < s.result.length ∧ Dof s.result j ≤ Dof s.result q + c q j) ∨
      (Dof s.result s.finished + c s.finished j ≤ Dof s.result q + c q j) := by
    intro j hj hjs q hq1 hq2
    by_cases hjt : j ≤ s.tentative
    · exact Or.inl ⟨by omega, inv.B j (by omega) hjt q hq1 hq2⟩
    · right
      have hb := inv.B pc h1 h2 q hq1 hq2
      have := hTM s.result s.finished inv.chain q s.finished pc j hq2 (Nat.le_refl _) h1 (by omega) hjs (by omega)
      omega
  intro j hj hjs q hq
  by_cases hqb : s.base ≤ q
  · exact act j hj hjs q hqb hq
  · rcases inv.C j (by omega) hjs q (by omega) with h | ⟨p, hp1, hp2, hp3⟩
    · exact Or.inl h
    · rcases act j hj hjs p hp1 hp2 with h | h
      · exact Or.inl ⟨h.1, by omega⟩
      · exact Or.inr (by omega)

/-- the stored value of column `finished + 1` is at most the entry of every row before `finished` -/
theorem OcmInv2.colI {c : Nat → Nat → Int} {init : Int} {size : Nat} {s : Ocm Int}
    (inv : OcmInv2 c init size s) (hi : s.finished + 1 ≤ s.tentative) (hsz : s.finished + 1 < size) :
    ∀ q, q < s.finished → Dof s.result (s.finished + 1) ≤ Dof s.result q + c q (s.finished + 1) := by
  intro q hq
  by_cases hqb : s.base ≤ q
  · exact inv.B _ (by omega) hi q hqb hq
  · rcases inv.C (s.finished + 1) (by omega) hsz q (by omega) with h | ⟨p, hp1, hp2, hp3⟩
    · exact h.2
    · have := inv.B _ (by omega) hi p hp1 hp2
      omega

theorem vec_getD_set (res : Vec) (i : Nat) (e : Nat × Int) (j : Nat) (hi : i < res.length) :
    (res.set i e).getD j (0, 0) = if j = i then e else res.getD j (0, 0) := by
  simp only [List.getD_eq_getElem?_getD, List.getElem?_set]
  by_cases h : i = j
  · subst h; simp [hi]
  · have : ¬ j = i := fun e' => h e'.symm
    simp [h, this]

theorem Dof_set (res : Vec) (i : Nat) (e : Nat × Int) (j : Nat) (hi : i < res.length) :
    Dof (res.set i e) j = if j = i then e.2 else Dof res j := by
  unfold Dof; rw [vec_getD_set _ _ _ _ hi]; split <;> rfl

theorem Rof_set (res : Vec) (i : Nat) (e : Nat × Int) (j : Nat) (hi : i < res.length) :
    Rof (res.set i e) j = if j = i then e.1 else Rof res j := by
  unfold Rof; rw [vec_getD_set _ _ _ _ hi]; split <;> rfl

/-- cases three and four: the vector is unchanged, `finished` advances to `i` -/
theorem OcmInv2.advance {c : Nat → Nat → Int} {init : Int} {size : Nat} {s : Ocm Int}
    (inv : OcmInv2 c init size s) (hi : s.finished + 1 ≤ s.tentative)
    (hdiag : Dof s.result (s.finished + 1) ≤ Dof s.result s.finished + c s.finished (s.finished + 1))
    (s' : Ocm Int) (hres : s'.result = s.result) (hfin : s'.finished = s.finished + 1)
    (hb' : OcmInv size s') (ht' : s'.finished ≤ s'.tentative)
    (hB : ∀ j, s'.finished < j → j ≤ s'.tentative → ∀ q, s'.base ≤ q → q < s'.finished →
      Dof s.result j ≤ Dof s.result q + c q j)
    (hC : ∀ j, s'.finished < j → j < size → ∀ q, q < s'.base →
      (j < s.result.length ∧ Dof s.result j ≤ Dof s.result q + c q j) ∨
      (∃ p, s'.base ≤ p ∧ p < s'.finished ∧ Dof s.result p + c p j ≤ Dof s.result q + c q j)) :
    OcmInv2 c init size s' := by
  have htl := inv.base.ten_lt
  have hsz := inv.base.len_le
  refine ⟨hb', ht', by rw [hres]; exact inv.d0, by rw [hres]; exact inv.ach, ?_, ?_, by rw [hres]; exact hB,
    by rw [hres]; exact hC⟩
  · intro j hj hl
    rw [hres] at hl ⊢
    have := inv.rowb j (by omega) hl
    omega
  · intro j h1 hj i hij
    rw [hres]
    by_cases hjf : j ≤ s.finished
    · exact inv.A j h1 hjf i hij
    · have hje : j = s.finished + 1 := by omega
      subst hje
      by_cases hif : i = s.finished
      · subst hif; exact hdiag
      · exact inv.colI hi (by omega) i (by omega)

/-- the three cases in which `tentative ≥ finished + 1` -/
theorem ocmStep_min_late {M : Vec → Nat → Nat → Option Int} {c : Nat → Nat → Int} {init : Int} {size : Nat}
    (hM : MIsCost M c size) (hTM : OnlineTM c init size)
    (s : Ocm Int) (inv : OcmInv2 c init size s) (hi : s.finished + 1 ≤ s.tentative)
    (s' : Ocm Int) (he : ocmStep M size s = some s') (hb' : OcmInv size s') :
    OcmInv2 c init size s' := by
  have hfl := inv.base.fin_lt
  have htl := inv.base.ten_lt
  have hll := inv.base.len_le
  have hbl := inv.base.base_le
  unfold ocmStep at he
  dsimp only at he
  rw [if_neg (by omega)] at he
  simp only [Nat.add_sub_cancel] at he
  rw [ocmM_val hM inv.base (Nat.le_refl _) (Nat.lt_succ_self _) (by omega)] at he
  have hri : s.finished + 1 < s.result.length := by omega
  rw [List.getElem?_eq_getElem hri] at he
  dsimp only at he
  have hDi : Dof s.result (s.finished + 1) = s.result[s.finished + 1].2 := by
    unfold Dof
    rw [List.getD_eq_getElem?_getD, List.getElem?_eq_getElem hri]; rfl
  rw [← hDi] at he
  by_cases hc2 : Dof s.result s.finished + c s.finished (s.finished + 1) < Dof s.result (s.finished + 1)
  · -- second case
    rw [if_pos hc2] at he
    cases he
    have hD : ∀ j, j ≠ s.finished + 1 → Dof (s.result.set (s.finished + 1) (s.finished, Dof s.result s.finished + c s.finished (s.finished + 1))) j = Dof s.result j :=
      fun j hj => by rw [Dof_set _ _ _ _ hri, if_neg hj]
    have hR : ∀ j, j ≠ s.finished + 1 → Rof (s.result.set (s.finished + 1) (s.finished, Dof s.result s.finished + c s.finished (s.finished + 1))) j = Rof s.result j :=
      fun j hj => by rw [Rof_set _ _ _ _ hri, if_neg hj]
    have hDi' : Dof (s.result.set (s.finished + 1) (s.finished, Dof s.result s.finished + c s.finished (s.finished + 1))) (s.finished + 1)
        = Dof s.result s.finished + c s.finished (s.finished + 1) := by rw [Dof_set _ _ _ _ hri, if_pos rfl]
    have hRi' : Rof (s.result.set (s.finished + 1) (s.finished, Dof s.result s.finished + c s.finished (s.finished + 1))) (s.finished + 1)
        = s.finished := by rw [Rof_set _ _ _ _ hri, if_pos rfl]
    have hnb := inv.newbase hTM (s.finished + 1) (by omega) hi hc2
    refine ⟨hb', Nat.le_refl _, ?_, ?_, ?_, ?_, ?_, ?_⟩
    · show Dof (s.result.set _ _) 0 = init
      rw [hD 0 (by omega)]; exact inv.d0
    · intro j h1 hl
      simp only [List.length_set] at hl
      show Dof (s.result.set _ _) j = Dof (s.result.set _ _) (Rof (s.result.set _ _) j) + c (Rof (s.result.set _ _) j) j
      by_cases hj : j = s.finished + 1
      · subst hj
        rw [hDi', hRi', hD s.finished (by omega)]
      · have hrl : Rof s.result j ≠ s.finished + 1 := by
          by_cases hjf : j ≤ s.finished
          · have := Rof_lt inv.base.shape h1 hl; omega
          · have := inv.rowb j (by omega) hl; omega
        rw [hD j hj, hR j hj, hD _ hrl]
        exact inv.ach j h1 hl
    · intro j hj hl
      simp only [List.length_set] at hl
      show Rof (s.result.set _ _) j < s.finished + 1
      rw [hR j (by show j ≠ s.finished + 1; have : s.finished + 1 < j := hj; omega)]
      have := inv.rowb j (by have : s.finished + 1 < j := hj; omega) hl
      omega
    · intro j h1 hj i hij
      have hj' : j ≤ s.finished + 1 := hj
      show Dof (s.result.set _ _) j ≤ Dof (s.result.set _ _) i + c i j
      rw [hD i (by omega)]
      by_cases hjf : j ≤ s.finished
      · rw [hD j (by omega)]; exact inv.A j h1 hjf i hij
      · have hje : j = s.finished + 1 := by omega
        subst hje
        rw [hDi']
        by_cases hif : i = s.finished
        · subst hif; exact Int.le_refl _
        · have := inv.colI hi (by omega) i (by omega)
          omega
    · intro j hj hjt
      have : s.finished + 1 < j := hj
      have : j ≤ s.finished + 1 := hjt
      omega
    · intro j hj hjs q hq
      have hj' : s.finished + 1 < j := hj
      have hq' : q < s.finished := hq
      show (j < (s.result.set _ _).length ∧ Dof (s.result.set _ _) j ≤ Dof (s.result.set _ _) q + c q j) ∨
        (∃ p, s.finished ≤ p ∧ p < s.finished + 1 ∧ Dof (s.result.set _ _) p + c p j ≤ Dof (s.result.set _ _) q + c q j)
      simp only [List.length_set]
      rw [hD j (by omega), hD q (by omega)]
      rcases hnb j (by omega) hjs q hq' with h | h
      · exact Or.inl h
      · exact Or.inr ⟨s.finished, Nat.le_refl _, by omega, by rw [hD s.finished (by omega)]; exact h⟩
  · rw [if_neg hc2] at he
    have hdiag : Dof s.result (s.finished + 1) ≤ Dof s.result s.finished + c s.finished (s.finished + 1) := by omega
    rw [ocmM_val hM inv.base (Nat.le_refl _) (by omega) (by omega), List.getElem?_eq_getElem htl] at he
    dsimp only at he
    have hDt : Dof s.result s.tentative = s.result[s.tentative].2 := by
      unfold Dof
      rw [List.getD_eq_getElem?_getD, List.getElem?_eq_getElem htl]; rfl
    rw [← hDt] at he
    have hle : (CostNum.le (Dof s.result s.tentative) (Dof s.result s.finished + c s.finished s.tentative)) =
        decide (Dof s.result s.tentative ≤ Dof s.result s.finished + c s.finished s.tentative) := rfl
    rw [hle] at he
    by_cases hc3 : Dof s.result s.tentative ≤ Dof s.result s.finished + c s.finished s.tentative
    · -- third case
      rw [if_pos (by simpa using hc3)] at he
      cases he
      refine inv.advance hi hdiag _ rfl rfl hb' hi ?_ ?_
      · intro j hj hjt q hq1 hq2
        have hj' : s.finished + 1 < j := hj
        have hjt' : j ≤ s.tentative := hjt
        have hq2' : q < s.finished + 1 := hq2
        have hq1' : s.base ≤ q := hq1
        by_cases hqf : q < s.finished
        · exact inv.B j (by omega) hjt' q hq1' hqf
        · have hqe : q = s.finished := by omega
          subst hqe
          -- row `finished` does not improve any tentative column
          apply Int.not_lt.mp
          intro hlt
          have hrt := inv.rowb s.tentative (by omega) htl
          have hat := inv.ach s.tentative (by omega) htl
          -- the row of the tentative column is accounted for in column `j`
          have hacc : Dof s.result j ≤ Dof s.result (Rof s.result s.tentative) + c (Rof s.result s.tentative) j := by
            by_cases hrb : s.base ≤ Rof s.result s.tentative
            · exact inv.B j (by omega) hjt' _ hrb hrt
            · rcases inv.C j (by omega) (by omega) (Rof s.result s.tentative) (by omega) with h | ⟨p, hp1, hp2, hp3⟩
              · exact h.2
              · have := inv.B j (by omega) hjt' p hp1 hp2
                omega
          by_cases hjt2 : j = s.tentative
          · subst hjt2; omega
          · have hprem : Dof s.result s.finished + c s.finished j <
                Dof s.result (Rof s.result s.tentative) + c (Rof s.result s.tentative) j := by omega
            have hjlt : j < s.tentative := by omega
            have hts : s.tentative < size := by omega
            have hfj : s.finished < j := by omega
            have := hTM s.result s.finished inv.chain (Rof s.result s.tentative) s.finished j s.tentative hrt
              (Nat.le_refl _) hfj hjlt hts hprem
            omega
      · intro j hj hjs q hq
        have hj' : s.finished + 1 < j := hj
        rcases inv.C j (by omega) hjs q hq with h | ⟨p, hp1, hp2, hp3⟩
        · exact Or.inl h
        · exact Or.inr ⟨p, hp1, by show p < s.finished + 1; omega, hp3⟩
    · -- fourth case
      rw [if_neg (by simpa using hc3)] at he
      cases he
      have hbeat : Dof s.result s.finished + c s.finished s.tentative < Dof s.result s.tentative := by omega
      have hnb := inv.newbase hTM s.tentative (by omega) (Nat.le_refl _) hbeat
      -- columns between `i` and `tentative`: the active rows are accounted for by `B`
      refine inv.advance hi hdiag _ rfl rfl hb' (Nat.le_refl _) ?_ ?_
      · intro j hj hjt
        have : s.finished + 1 < j := hj
        have : j ≤ s.finished + 1 := hjt
        omega
      · intro j hj hjs q hq
        have hj' : s.finished + 1 < j := hj
        have hq' : q < s.finished := hq
        by_cases hjt : s.tentative ≤ j
        · rcases hnb j hjt hjs q hq' with h | h
          · exact Or.inl h
          · exact Or.inr ⟨s.finished, Nat.le_refl _, by show s.finished < s.finished + 1; omega, h⟩
        · -- `j < tentative`: every row below `finished` is accounted for
          left
          refine ⟨by omega, ?_⟩
          by_cases hqb : s.base ≤ q
          · exact inv.B j (by omega) (by omega) q hqb hq'
          · rcases inv.C j (by omega) hjs q (by omega) with h | ⟨p, hp1, hp2, hp3⟩
            · exact h.2
            · have := inv.B j (by omega) (by omega) p hp1 hp2
              omega

theorem Dof_of_getD {res : Vec} {j : Nat} {e : Nat × Int} (h : res.getD j (0, 0) = e) : Dof res j = e.2 := by
  unfold Dof; rw [h]
theorem Rof_of_getD {res : Vec} {j : Nat} {e : Nat × Int} (h : res.getD j (0, 0) = e) : Rof res j = e.1 := by
  unfold Rof; rw [h]
theorem Dof_congr {res res' : Vec} {j : Nat} (h : res'.getD j (0, 0) = res.getD j (0, 0)) :
    Dof res' j = Dof res j ∧ Rof res' j = Rof res j := by
  unfold Dof Rof; rw [h]; exact ⟨rfl, rfl⟩

/-- the first case: `smawk_inner` on rows `base ..= finished`, columns `finished+1 ..= tentative'` -/
theorem ocmStep_min_early {M : Vec → Nat → Nat → Option Int} {c : Nat → Nat → Int} {init : Int} {size : Nat}
    (hM : MIsCost M c size) (hTM : OnlineTM c init size)
    (s : Ocm Int) (inv : OcmInv2 c init size s) (hfin : s.finished < size - 1)
    (hc1 : s.tentative < s.finished + 1)
    (s' : Ocm Int) (he : ocmStep M size s = some s') (hb' : OcmInv size s') :
    OcmInv2 c init size s' := by
  have hfl := inv.base.fin_lt
  have htl := inv.base.ten_lt
  have hll := inv.base.len_le
  have hbl := inv.base.base_le
  have htf : s.tentative = s.finished := by have := inv.t_ge; omega
  unfold ocmStep at he
  dsimp only at he
  rw [if_pos hc1, range_drop, range_drop] at he
  simp only [List.length_range'] at he
  generalize htent : min (s.finished + (s.finished + 1 - s.base)) (size - 1) = tent at he
  have ht1 : s.finished + 1 ≤ tent := by omega
  have ht2 : tent ≤ size - 1 := by omega
  -- the matrix
  have hmv : MVal (ocmM M size s) (fun i j => Dof s.result i + c i j)
      (List.range' s.base (s.finished + 1 - s.base)) (List.range' (s.finished + 1) (tent + 1 - (s.finished + 1))) := by
    intro r hr col hcol
    simp only [List.mem_range'_1] at hr hcol
    exact ocmM_val hM inv.base (by omega) (by omega) (by omega)
  have htm : TMon (fun i j => Dof s.result i + c i j)
      (List.range' s.base (s.finished + 1 - s.base)) (List.range' (s.finished + 1) (tent + 1 - (s.finished + 1))) := by
    intro i hi i' hi' hii j hj j' hj' hjj hlt
    simp only [List.mem_range'_1] at hi hi' hj hj'
    exact hTM s.result s.finished inv.chain i i' j j' hii (by omega) (by omega) hjj (by omega) hlt
  obtain ⟨mn, a1, a2, a3, _⟩ := smawkInner_min (ocmM M size s) (fun i j => Dof s.result i + c i j) _
    (List.range' (s.finished + 1) (tent + 1 - (s.finished + 1)))
    (List.range' s.base (s.finished + 1 - s.base)) (List.replicate (tent + 1) 0) (Nat.le_refl _)
    List.pairwise_lt_range'
    (by intro h; have := congrArg List.length h; simp at this; omega)
    List.pairwise_lt_range'
    (fun col hcol => by simp only [List.mem_range'_1] at hcol; simp; omega) hmv htm
  rw [a1] at he
  dsimp only at he
  have hLM : ∀ col, s.finished + 1 ≤ col → col ≤ tent →
      LeftMin (fun i j => Dof s.result i + c i j) (List.range' s.base (s.finished + 1 - s.base)) col (mn.getD col 0) :=
    fun col h1 h2 => a3 col (by simp only [List.mem_range'_1]; omega)
  have hrow : ∀ col, s.finished + 1 ≤ col → col ≤ tent → s.base ≤ mn.getD col 0 ∧ mn.getD col 0 ≤ s.finished := by
    intro col h1 h2
    have := (hLM col h1 h2).1
    simp only [List.mem_range'_1] at this
    omega
  obtain ⟨res', b1, b2, b3, b4, b5⟩ := ocmStore_val (ocmM M size s) mn
    (fun col => Dof s.result (mn.getD col 0) + c (mn.getD col 0) col)
    (tent + 1 - (s.finished + 1)) (s.finished + 1) s.result (by omega)
    (fun col h1 h2 => by
      have hr := hrow col h1 (by omega)
      exact ⟨by rw [a2]; simp; omega, ocmM_val hM inv.base (by omega) (by omega) (by omega)⟩)
  rw [b1] at he
  dsimp only at he
  cases he
  have hk : s.finished + 1 + (tent + 1 - (s.finished + 1)) = tent + 1 := by omega
  rw [hk] at b2 b4 b5
  -- pointwise facts about the new vector
  have hlo : ∀ j, j ≤ s.finished → Dof res' j = Dof s.result j ∧ Rof res' j = Rof s.result j := fun j hj =>
    Dof_congr (b3 j (by omega))
  have hhi : ∀ j, tent + 1 ≤ j → Dof res' j = Dof s.result j ∧ Rof res' j = Rof s.result j := fun j hj =>
    Dof_congr (b4 j hj)
  have hmid : ∀ j, s.finished + 1 ≤ j → j ≤ tent →
      (Dof res' j = Dof s.result (mn.getD j 0) + c (mn.getD j 0) j ∧ Rof res' j = mn.getD j 0 ∧
        (j < s.result.length → Dof res' j ≤ Dof s.result j)) ∨
      (j < s.result.length ∧ Dof res' j = Dof s.result j ∧ Rof res' j = Rof s.result j ∧
        Dof s.result j ≤ Dof s.result (mn.getD j 0) + c (mn.getD j 0) j) := by
    intro j h1 h2
    rcases b5 j h1 (by omega) with ⟨e1, e2⟩ | ⟨e1, e2, e3⟩
    · left
      have hd : Dof res' j = Dof s.result (mn.getD j 0) + c (mn.getD j 0) j := Dof_of_getD e1
      refine ⟨hd, Rof_of_getD e1, fun h => ?_⟩
      have := e2 h
      omega
    · right
      exact ⟨e1, (Dof_congr e2).1, (Dof_congr e2).2, e3⟩
  have hmid_le : ∀ j, s.finished + 1 ≤ j → j ≤ tent → Dof res' j ≤ Dof s.result (mn.getD j 0) + c (mn.getD j 0) j := by
    intro j h1 h2
    rcases hmid j h1 h2 with ⟨e1, _, _⟩ | ⟨_, e2, _, e4⟩ <;> omega
  have hdec : ∀ j, s.finished < j → j < s.result.length → Dof res' j ≤ Dof s.result j := by
    intro j h1 h2
    by_cases hjt : j ≤ tent
    · rcases hmid j (by omega) hjt with ⟨_, _, e3⟩ | ⟨_, e2, _, _⟩
      · exact e3 h2
      · omega
    · rw [(hhi j (by omega)).1]; exact Int.le_refl _
  have hmin : ∀ j, s.finished + 1 ≤ j → j ≤ tent → ∀ q, s.base ≤ q → q ≤ s.finished →
      Dof res' j ≤ Dof s.result q + c q j := by
    intro j h1 h2 q hq1 hq2
    have := (hLM j h1 h2).2.1 q (by simp only [List.mem_range'_1]; omega)
    have := hmid_le j h1 h2
    dsimp only at *
    omega
  refine ⟨hb', ht1, ?_, ?_, ?_, ?_, ?_, ?_⟩
  · show Dof res' 0 = init
    rw [(hlo 0 (by omega)).1]; exact inv.d0
  · intro j h1 hl
    show Dof res' j = Dof res' (Rof res' j) + c (Rof res' j) j
    have hl' : j < max s.result.length (tent + 1) := by rw [← b2]; exact hl
    have old : j < s.result.length → (Rof s.result j ≤ s.finished) := by
      intro hjl
      by_cases hjf : j ≤ s.finished
      · have := Rof_lt inv.base.shape h1 hjl; omega
      · have := inv.rowb j (by omega) hjl; omega
    by_cases hjf : j ≤ s.finished
    · have hjl : j < s.result.length := by omega
      rw [(hlo j hjf).1, (hlo j hjf).2, (hlo _ (old hjl)).1]
      exact inv.ach j h1 hjl
    · by_cases hjt : j ≤ tent
      · rcases hmid j (by omega) hjt with ⟨e1, e2, _⟩ | ⟨e0, e1, e2, _⟩
        · rw [e1, e2, (hlo _ (hrow j (by omega) hjt).2).1]
        · rw [e1, e2, (hlo _ (old e0)).1]; exact inv.ach j h1 e0
      · have hjl : j < s.result.length := by omega
        rw [(hhi j (by omega)).1, (hhi j (by omega)).2, (hlo _ (old hjl)).1]
        exact inv.ach j h1 hjl
  · intro j hj hl
    have hj' : s.finished + 1 < j := hj
    show Rof res' j < s.finished + 1
    have hl' : j < max s.result.length (tent + 1) := by rw [← b2]; exact hl
    by_cases hjt : j ≤ tent
    · rcases hmid j (by omega) hjt with ⟨_, e2, _⟩ | ⟨e0, _, e2, _⟩
      · rw [e2]; have := (hrow j (by omega) hjt).2; omega
      · rw [e2]; have := inv.rowb j (by omega) e0; omega
    · rw [(hhi j (by omega)).2]
      have := inv.rowb j (by omega) (by omega); omega
  · intro j h1 hj i hij
    have hj' : j ≤ s.finished + 1 := hj
    show Dof res' j ≤ Dof res' i + c i j
    rw [(hlo i (by omega)).1]
    by_cases hjf : j ≤ s.finished
    · rw [(hlo j hjf).1]; exact inv.A j h1 hjf i hij
    · have hje : j = s.finished + 1 := by omega
      subst hje
      by_cases hib : s.base ≤ i
      · exact hmin _ (Nat.le_refl _) ht1 i hib (by omega)
      · rcases inv.C (s.finished + 1) (by omega) (by omega) i (by omega) with h | ⟨p, hp1, hp2, hp3⟩
        · have := hdec (s.finished + 1) (by omega) h.1
          omega
        · have := hmin _ (Nat.le_refl _) ht1 p hp1 (by omega)
          omega
  · intro j hj hjt q hq1 hq2
    have hj' : s.finished + 1 < j := hj
    have hjt' : j ≤ tent := hjt
    have hq2' : q < s.finished + 1 := hq2
    show Dof res' j ≤ Dof res' q + c q j
    rw [(hlo q (by omega)).1]
    exact hmin j (by omega) hjt' q hq1 (by omega)
  · intro j hj hjs q hq
    have hj' : s.finished + 1 < j := hj
    have hq' : q < s.base := hq
    show (j < res'.length ∧ Dof res' j ≤ Dof res' q + c q j) ∨
      (∃ p, s.base ≤ p ∧ p < s.finished + 1 ∧ Dof res' p + c p j ≤ Dof res' q + c q j)
    rw [(hlo q (by omega)).1, b2]
    rcases inv.C j (by omega) hjs q hq' with h | ⟨p, hp1, hp2, hp3⟩
    · left
      have := hdec j (by omega) h.1
      exact ⟨by omega, by omega⟩
    · right
      exact ⟨p, hp1, by omega, by rw [(hlo p (by omega)).1]; exact hp3⟩

/-- **finished columns are final**: an iteration of the loop never changes an entry at or below
    `finished` — what `LineNumbers`' cache (never invalidated) and the closure's reads of
    `minima[i].1` rely on, and why `lnGet` may recompute line numbers from the prefix it is given -/
theorem ocmStep_prefix_stable {M : Vec → Nat → Nat → Option Int} {c : Nat → Nat → Int} {init : Int} {size : Nat}
    (hM : MIsCost M c size) (hTM : OnlineTM c init size)
    (s : Ocm Int) (inv : OcmInv2 c init size s) (hfin : s.finished < size - 1)
    (s' : Ocm Int) (he : ocmStep M size s = some s') :
    ∀ j, j ≤ s.finished → s'.result.getD j (0, 0) = s.result.getD j (0, 0) := by
  have hfl := inv.base.fin_lt
  have htl := inv.base.ten_lt
  have hll := inv.base.len_le
  unfold ocmStep at he
  dsimp only at he
  by_cases hc1 : s.tentative < s.finished + 1
  · rw [if_pos hc1, range_drop, range_drop] at he
    simp only [List.length_range'] at he
    generalize htent : min (s.finished + (s.finished + 1 - s.base)) (size - 1) = tent at he
    have hbl := inv.base.base_le
    have ht1 : s.finished + 1 ≤ tent := by omega
    have ht2 : tent ≤ size - 1 := by omega
    have hmv : MVal (ocmM M size s) (fun i j => Dof s.result i + c i j)
        (List.range' s.base (s.finished + 1 - s.base)) (List.range' (s.finished + 1) (tent + 1 - (s.finished + 1))) := by
      intro r hr col hcol
      simp only [List.mem_range'_1] at hr hcol
      exact ocmM_val hM inv.base (by omega) (by omega) (by omega)
    have htm : TMon (fun i j => Dof s.result i + c i j)
        (List.range' s.base (s.finished + 1 - s.base)) (List.range' (s.finished + 1) (tent + 1 - (s.finished + 1))) := by
      intro i hi i' hi' hii j hj j' hj' hjj hlt
      simp only [List.mem_range'_1] at hi hi' hj hj'
      exact hTM s.result s.finished inv.chain i i' j j' hii (by omega) (by omega) hjj (by omega) hlt
    obtain ⟨mn, a1, a2, a3, _⟩ := smawkInner_min (ocmM M size s) (fun i j => Dof s.result i + c i j) _
      (List.range' (s.finished + 1) (tent + 1 - (s.finished + 1)))
      (List.range' s.base (s.finished + 1 - s.base)) (List.replicate (tent + 1) 0) (Nat.le_refl _)
      List.pairwise_lt_range'
      (by intro h; have := congrArg List.length h; simp at this; omega)
      List.pairwise_lt_range'
      (fun col hcol => by simp only [List.mem_range'_1] at hcol; simp; omega) hmv htm
    rw [a1] at he
    dsimp only at he
    obtain ⟨res', b1, _, b3, _, _⟩ := ocmStore_val (ocmM M size s) mn
      (fun col => Dof s.result (mn.getD col 0) + c (mn.getD col 0) col)
      (tent + 1 - (s.finished + 1)) (s.finished + 1) s.result (by omega)
      (fun col h1 h2 => by
        have hr := (a3 col (by simp only [List.mem_range'_1]; omega)).1
        simp only [List.mem_range'_1] at hr
        exact ⟨by rw [a2]; simp; omega, ocmM_val hM inv.base (by omega) (by omega) (by omega)⟩)
    rw [b1] at he
    dsimp only at he
    cases he
    intro j hj
    exact b3 j (by omega)
  · rw [if_neg hc1] at he
    simp only [Nat.add_sub_cancel] at he
    rw [ocmM_val hM inv.base (Nat.le_refl _) (Nat.lt_succ_self _) (by omega)] at he
    have hri : s.finished + 1 < s.result.length := by omega
    rw [List.getElem?_eq_getElem hri] at he
    dsimp only at he
    split at he
    · cases he
      intro j hj
      show (s.result.set _ _).getD j (0, 0) = _
      rw [vec_getD_set _ _ _ _ hri, if_neg (by omega)]
    · rw [ocmM_val hM inv.base (Nat.le_refl _) (by omega) (by omega), List.getElem?_eq_getElem htl] at he
      dsimp only at he
      split at he <;> (cases he; intro j _; rfl)

theorem ocmStep_min {M : Vec → Nat → Nat → Option Int} {c : Nat → Nat → Int} {init : Int} {size : Nat}
    (hM : MIsCost M c size) (hTM : OnlineTM c init size)
    (s : Ocm Int) (inv : OcmInv2 c init size s) (hfin : s.finished < size - 1) :
    ∃ s', ocmStep M size s = some s' ∧ OcmInv2 c init size s' ∧ s'.finished = s.finished + 1 := by
  obtain ⟨s', e, b', f'⟩ := ocmStep_spec hM.ok s inv.base hfin
  refine ⟨s', e, ?_, f'⟩
  by_cases hc1 : s.tentative < s.finished + 1
  · exact ocmStep_min_early hM hTM s inv hfin hc1 s' e b'
  · exact ocmStep_min_late hM hTM s inv (by omega) s' e b'

theorem ocmLoop_min {M : Vec → Nat → Nat → Option Int} {c : Nat → Nat → Int} {init : Int} {size : Nat}
    (hM : MIsCost M c size) (hTM : OnlineTM c init size) :
    ∀ (fuel : Nat) (s : Ocm Int), OcmInv2 c init size s → s.finished ≤ size - 1 → size - 1 - s.finished ≤ fuel →
    ∃ s', ocmLoop M size fuel s = some s' ∧ OcmInv2 c init size s' ∧ s'.finished = size - 1 := by
  intro fuel
  induction fuel with
  | zero =>
    intro s inv h1 h2
    refine ⟨s, ?_, inv, by omega⟩
    unfold ocmLoop
    rw [if_neg (by omega)]
  | succ fuel ih =>
    intro s inv h1 h2
    unfold ocmLoop
    by_cases hlt : s.finished < size - 1
    · rw [if_pos hlt]
      obtain ⟨s1, e1, inv1, f1⟩ := ocmStep_min hM hTM s inv hlt
      simp only [e1]
      exact ih s1 inv1 (by omega) (by omega)
    · rw [if_neg hlt]
      exact ⟨s, rfl, inv, by omega⟩

/-- **`online_column_minima` returns true column minima** of an online matrix `D i + c i j` that
    is totally monotone above the diagonal (strict form) -/
theorem onlineColumnMinima_min {M : Vec → Nat → Nat → Option Int} {c : Nat → Nat → Int} {init : Int} {size : Nat}
    (hM : MIsCost M c size) (hTM : OnlineTM c init size) (hsz : 0 < size) :
    ∃ res, onlineColumnMinima M init size = some res ∧ res.length = size ∧ Dof res 0 = init ∧
      (∀ j, 1 ≤ j → j < size → Rof res j < j ∧ Dof res j = Dof res (Rof res j) + c (Rof res j) j) ∧
      (∀ i j, i < j → j < size → Dof res j ≤ Dof res i + c i j) := by
  unfold onlineColumnMinima
  rw [if_neg (by omega)]
  have b0 : OcmInv size (⟨[(0, init)], 0, 0, 0⟩ : Ocm Int) :=
    ⟨by simp, by simp, by simp; omega, Nat.le_refl _, by
      intro j hj e he
      have : j = (j - 1) + 1 := by omega
      rw [this] at he; simp at he, ⟨init, rfl⟩⟩
  have inv0 : OcmInv2 c init size (⟨[(0, init)], 0, 0, 0⟩ : Ocm Int) := by
    refine ⟨b0, Nat.le_refl _, rfl, ?_, ?_, ?_, ?_, ?_⟩
    · intro j h1 hl; simp at hl; omega
    · intro j h1 hl; simp at hl; omega
    · intro j h1 hj; simp at hj; omega
    · intro j h1 hj; simp at h1 hj; omega
    · intro j _ _ q hq; simp at hq
  obtain ⟨s', e, inv, f⟩ := ocmLoop_min hM hTM size _ inv0 (by simp) (by simp)
  rw [e]
  have h1 := inv.base.fin_lt
  have h2 := inv.base.len_le
  have hlen : s'.result.length = size := by omega
  refine ⟨s'.result, rfl, hlen, inv.d0, ?_, ?_⟩
  · intro j hj1 hj2
    exact ⟨Rof_lt inv.base.shape hj1 (by omega), inv.ach j hj1 (by omega)⟩
  · intro i j hij hj
    exact inv.A j (by omega) (by omega) i hij

/-! ### a bound on every value, for ANY matrix with bounded increments

No monotonicity here: if every matrix entry is `D i + e` with `0 ≤ e ≤ K`, every stored value —
and hence every value the closure is ever asked to add to — stays within `init + j·K`. This is
the exact-arithmetic half of "optimal-fit never reports an overflow error" (C04). -/

/-- every entry the closure computes is the row's value plus an increment in `[0, K]` -/
def MBounded (M : Vec → Nat → Nat → Option Int) (size : Nat) (K : Int) : Prop :=
  ∀ pre i j, VecShape pre → i < pre.length → i < j → j < size →
    ∃ e, M pre i j = some (Dof pre i + e) ∧ 0 ≤ e ∧ e ≤ K

theorem MBounded.ok {M : Vec → Nat → Nat → Option Int} {size : Nat} {K : Int} (h : MBounded M size K) :
    MOk M size := fun pre i j hs hi hij hj => by
  obtain ⟨e, he, _⟩ := h pre i j hs hi hij hj
  rw [he]; rfl

structure OcmInvB (init K : Int) (size : Nat) (s : Ocm Int) : Prop where
  base : OcmInv size s
  lo : ∀ j, j < s.result.length → init ≤ Dof s.result j
  hi : ∀ j, j < s.result.length → Dof s.result j ≤ init + (j : Int) * K

theorem ocmM_bounded {M : Vec → Nat → Nat → Option Int} {size : Nat} {K : Int} (hM : MBounded M size K)
    {s : Ocm Int} (inv : OcmInv size s) {i j : Nat} (hi : i ≤ s.finished) (hij : i < j) (hj : j < size) :
    ∃ e, ocmM M size s i j = some (Dof s.result i + e) ∧ 0 ≤ e ∧ e ≤ K := by
  have := inv.fin_lt
  have hsz : i < size := by omega
  simp only [ocmM, hij, hsz, hj, and_self, ↓reduceIte]
  rw [if_pos (by omega)]
  obtain ⟨e, h1, h2, h3⟩ := hM (s.result.take (s.finished + 1)) i j (inv.shape.take _)
    (by rw [List.length_take]; omega) hij hj
  exact ⟨e, by rw [h1, Dof_take _ _ _ (by omega)], h2, h3⟩

theorem ocmStep_bounded {M : Vec → Nat → Nat → Option Int} {size : Nat} {init K : Int}
    (hM : MBounded M size K) (hK : 0 ≤ K)
    (s : Ocm Int) (inv : OcmInvB init K size s) (hfin : s.finished < size - 1) :
    ∃ s', ocmStep M size s = some s' ∧ OcmInvB init K size s' ∧ s'.finished = s.finished + 1 := by
  obtain ⟨s', he, b', f'⟩ := ocmStep_spec hM.ok s inv.base hfin
  refine ⟨s', he, ?_, f'⟩
  suffices hkey : ∀ j, j < s'.result.length → init ≤ Dof s'.result j ∧ Dof s'.result j ≤ init + (j : Int) * K from
    ⟨b', fun j hj => (hkey j hj).1, fun j hj => (hkey j hj).2⟩
  clear b' f'
  have hfl := inv.base.fin_lt
  have htl := inv.base.ten_lt
  have hll := inv.base.len_le
  have hbl := inv.base.base_le
  -- a new entry `(row, D row + e)` at column `col > row` is within the bounds
  have newentry : ∀ (row col : Nat) (e : Int), row ≤ s.finished → row < col → 0 ≤ e → e ≤ K →
      init ≤ Dof s.result row + e ∧ Dof s.result row + e ≤ init + (col : Int) * K := by
    intro row col e hr hrc h0 h1
    have l := inv.lo row (by omega)
    have h := inv.hi row (by omega)
    have hc : (row : Int) + 1 ≤ (col : Int) := by exact_mod_cast hrc
    have : (row : Int) * K + K ≤ (col : Int) * K := by
      have := Int.mul_le_mul_of_nonneg_right hc hK
      rw [Int.add_mul, Int.one_mul] at this
      exact this
    constructor <;> omega
  unfold ocmStep at he
  dsimp only at he
  by_cases hc1 : s.tentative < s.finished + 1
  · rw [if_pos hc1, range_drop, range_drop] at he
    simp only [List.length_range'] at he
    generalize htent : min (s.finished + (s.finished + 1 - s.base)) (size - 1) = tent at he
    have ht1 : s.finished + 1 ≤ tent := by omega
    have ht2 : tent ≤ size - 1 := by omega
    have hmt : MTotal (ocmM M size s) (List.range' s.base (s.finished + 1 - s.base))
        (List.range' (s.finished + 1) (tent + 1 - (s.finished + 1))) := by
      intro r hr col hcol
      simp only [List.mem_range'_1] at hr hcol
      obtain ⟨e, h1, _⟩ := ocmM_bounded hM inv.base (by omega : r ≤ s.finished) (by omega : r < col) (by omega)
      rw [h1]; rfl
    obtain ⟨mn, a1, a2, a3, _, _⟩ := smawkInner_spec (ocmM M size s) _
      (List.range' (s.finished + 1) (tent + 1 - (s.finished + 1)))
      (List.range' s.base (s.finished + 1 - s.base)) (List.replicate (tent + 1) 0) (Nat.le_refl _)
      List.pairwise_lt_range'
      (by intro h; have := congrArg List.length h; simp at this; omega)
      List.nodup_range' (fun col hcol => by simp only [List.mem_range'_1] at hcol; simp; omega) hmt
    rw [a1] at he
    dsimp only at he
    have hrow : ∀ col, s.finished + 1 ≤ col → col ≤ tent → mn.getD col 0 ≤ s.finished := by
      intro col h1 h2
      have := a3 col (by simp only [List.mem_range'_1]; omega)
      simp only [List.mem_range'_1] at this
      omega
    obtain ⟨res', b1, b2, b3, b4, b5⟩ := ocmStore_val (ocmM M size s) mn
      (fun col => ((ocmM M size s (mn.getD col 0) col).getD 0))
      (tent + 1 - (s.finished + 1)) (s.finished + 1) s.result (by omega)
      (fun col h1 h2 => by
        have hr := hrow col h1 (by omega)
        obtain ⟨e, h3, _⟩ := ocmM_bounded hM inv.base hr (by omega : mn.getD col 0 < col) (by omega)
        exact ⟨by rw [a2]; simp; omega, by rw [h3]; rfl⟩)
    rw [b1] at he
    dsimp only at he
    cases he
    have hk : s.finished + 1 + (tent + 1 - (s.finished + 1)) = tent + 1 := by omega
    rw [hk] at b2 b4 b5
    have key : ∀ j, j < res'.length → init ≤ Dof res' j ∧ Dof res' j ≤ init + (j : Int) * K := by
      intro j hj
      rw [b2] at hj
      by_cases hjf : j ≤ s.finished
      · rw [(Dof_congr (b3 j (by omega))).1]
        exact ⟨inv.lo j (by omega), inv.hi j (by omega)⟩
      · by_cases hjt : j ≤ tent
        · rcases b5 j (by omega) (by omega) with ⟨e1, _⟩ | ⟨e0, e2, _⟩
          · rw [Dof_of_getD e1]
            dsimp only
            obtain ⟨e, h3, h4, h5⟩ := ocmM_bounded hM inv.base (hrow j (by omega) hjt)
              (by have := hrow j (by omega) hjt; omega : mn.getD j 0 < j) (by omega)
            rw [h3]
            exact newentry _ j e (hrow j (by omega) hjt) (by have := hrow j (by omega) hjt; omega) h4 h5
          · rw [(Dof_congr e2).1]
            exact ⟨inv.lo j e0, inv.hi j e0⟩
        · rw [(Dof_congr (b4 j (by omega))).1]
          exact ⟨inv.lo j (by omega), inv.hi j (by omega)⟩
    exact key
  · rw [if_neg hc1] at he
    simp only [Nat.add_sub_cancel] at he
    obtain ⟨e, h1, h2, h3⟩ := ocmM_bounded hM inv.base (Nat.le_refl s.finished) (Nat.lt_succ_self _) (by omega)
    rw [h1] at he
    have hri : s.finished + 1 < s.result.length := by omega
    rw [List.getElem?_eq_getElem hri] at he
    dsimp only at he
    split at he
    · cases he
      have hne := newentry s.finished (s.finished + 1) e (Nat.le_refl _) (Nat.lt_succ_self _) h2 h3
      have key : ∀ j, j < s.result.length →
          init ≤ Dof (s.result.set (s.finished + 1) (s.finished, Dof s.result s.finished + e)) j ∧
          Dof (s.result.set (s.finished + 1) (s.finished, Dof s.result s.finished + e)) j ≤ init + (j : Int) * K := by
        intro j hj
        rw [Dof_set _ _ _ _ hri]
        split
        · next hje => subst hje; exact hne
        · exact ⟨inv.lo j hj, inv.hi j hj⟩
      intro j hj
      exact key j (by simpa using hj)
    · obtain ⟨e', h1', _⟩ := ocmM_bounded hM inv.base (Nat.le_refl s.finished) (by omega : s.finished < s.tentative) (by omega)
      rw [h1', List.getElem?_eq_getElem htl] at he
      dsimp only at he
      split at he <;> (cases he; exact fun j hj => ⟨inv.lo j hj, inv.hi j hj⟩)

/-- **every value `online_column_minima` stores lies in `[init, init + j·K]`**, for any matrix
    whose entries are the row's value plus an increment in `[0, K]` -/
theorem onlineColumnMinima_bounded {M : Vec → Nat → Nat → Option Int} {size : Nat} {K : Int}
    (hM : MBounded M size K) (hK : 0 ≤ K) (init : Int) (hsz : 0 < size) :
    ∃ res, onlineColumnMinima M init size = some res ∧ res.length = size ∧
      ∀ j, j < size → init ≤ Dof res j ∧ Dof res j ≤ init + (j : Int) * K := by
  unfold onlineColumnMinima
  rw [if_neg (by omega)]
  have b0 : OcmInv size (⟨[(0, init)], 0, 0, 0⟩ : Ocm Int) :=
    ⟨by simp, by simp, by simp; omega, Nat.le_refl _, by
      intro j hj e he
      have : j = (j - 1) + 1 := by omega
      rw [this] at he; simp at he, ⟨init, rfl⟩⟩
  have inv0 : OcmInvB init K size (⟨[(0, init)], 0, 0, 0⟩ : Ocm Int) := by
    refine ⟨b0, ?_, ?_⟩
    · intro j hj
      have : j = 0 := by simpa using hj
      subst this; exact Int.le_refl _
    · intro j hj
      have : j = 0 := by simpa using hj
      subst this; simp [Dof]
  have loop : ∀ (fuel : Nat) (s : Ocm Int), OcmInvB init K size s → s.finished ≤ size - 1 →
      size - 1 - s.finished ≤ fuel →
      ∃ s', ocmLoop M size fuel s = some s' ∧ OcmInvB init K size s' ∧ s'.finished = size - 1 := by
    intro fuel
    induction fuel with
    | zero =>
      intro s inv h1 h2
      refine ⟨s, ?_, inv, by omega⟩
      unfold ocmLoop
      rw [if_neg (by omega)]
    | succ fuel ih =>
      intro s inv h1 h2
      unfold ocmLoop
      by_cases hlt : s.finished < size - 1
      · rw [if_pos hlt]
        obtain ⟨s1, e1, inv1, f1⟩ := ocmStep_bounded hM hK s inv hlt
        simp only [e1]
        exact ih s1 inv1 (by omega) (by omega)
      · rw [if_neg hlt]
        exact ⟨s, rfl, inv, by omega⟩
  obtain ⟨s', e, inv, f⟩ := loop size _ inv0 (by simp) (by simp)
  rw [e]
  have h1 := inv.base.fin_lt
  have h2 := inv.base.len_le
  have hlen : s'.result.length = size := by omega
  exact ⟨s'.result, rfl, hlen, fun j hj => ⟨inv.lo j (by omega), inv.hi j (by omega)⟩⟩

end TW

/-
  Lemmas about `split_points` (hyphen splitter) and `split_words`.
-/
import TextwrapModel.Split
import Lemmas.Bytes
namespace TW

/-- what `split_words` yields for one word, relative to the text `pre` already consumed: every
    piece but the last ends exactly at the next split point, has no whitespace, and carries the
    penalty `"-"` iff the word up to that point does not already end in `-`; the last piece
    carries the word's whitespace and penalty; widths are cached; nothing is lost. -/
def SplitOK (cw : Char → Nat) (w : Word) : Text → List Nat → List Word → Prop
  | pre, [], [p] => p.ws = w.ws ∧ p.pen = w.pen ∧ p.width = displayWidth cw p.word ∧ pre ++ p.word = w.word
  | pre, idx :: pts, p :: ps =>
    blen (pre ++ p.word) = idx ∧ p.ws = [] ∧ p.width = displayWidth cw p.word ∧
    p.pen = (if (pre ++ p.word).getLast? = some HY then [] else [HY]) ∧
    (∃ post, w.word = pre ++ p.word ++ post) ∧
    SplitOK cw w (pre ++ p.word) pts ps
  | _, _, _ => False

theorem splitOne_ok (cw : Char → Nat) (w : Word) (pts : List Nat) (prev : Nat) (pre post : Text)
    (hw : w.word = pre ++ post) (hp : blen pre = prev) (hlt : ∀ i ∈ pts, i < blen w.word)
    (hprev : prev < blen w.word ∨ prev = 0)
    (ps : List Word) (h : splitOne cw w pts prev = some ps) : SplitOK cw w pre pts ps := by
  induction pts generalizing prev pre post ps with
  | nil =>
    simp only [splitOne, hprev, if_true] at h
    rw [hw, ← hp, sliceFrom?_append] at h
    simp only [Option.some.injEq] at h
    subst h
    exact ⟨rfl, rfl, rfl, hw.symm⟩
  | cons idx pts ih =>
    simp only [splitOne] at h
    split at h
    · next pre' s rest h1 h2 h3 =>
      simp only [Option.some.injEq] at h
      subst h
      obtain ⟨l, r, e1, e2, e3⟩ := slice?_some h2
      -- l = pre
      have hl : l = pre := by
        have : l ++ (s ++ r) = pre ++ post := by rw [← hw, e1]; simp
        exact (split_unique this (by omega)).1
      subst hl
      -- pre' = pre ++ s
      have hpre' : pre' = l ++ s := by
        unfold sliceTo? at h1
        split at h1
        · next a b hs =>
          simp only [Option.some.injEq] at h1; subst h1
          obtain ⟨q1, q2⟩ := splitBytes?_some hs
          have : a ++ b = (l ++ s) ++ r := by rw [← q1, e1]
          exact (split_unique this (by omega)).1
        · simp at h1
      have hidx := hlt idx (by simp)
      refine ⟨e3, rfl, rfl, by rw [hpre'], ⟨r, e1⟩, ?_⟩
      exact ih idx (l ++ s) r e1 e3 (fun i hi => hlt i (by simp [hi])) (Or.inl hidx) rest h3
    · simp at h

/-- totality: non-decreasing char-boundary split points strictly inside the word never panic -/
theorem splitOne_total (cw : Char → Nat) (w : Word) (pts : List Nat) (prev : Nat) (pre post : Text)
    (hw : w.word = pre ++ post) (hp : blen pre = prev)
    (hb : ∀ i ∈ pts, ∃ a b, w.word = a ++ b ∧ blen a = i)
    (hmono : (prev :: pts).Pairwise (· ≤ ·)) :
    ∃ ps, splitOne cw w pts prev = some ps := by
  induction pts generalizing prev pre post with
  | nil =>
    simp only [splitOne]
    split
    · rw [hw, ← hp, sliceFrom?_append]; exact ⟨_, rfl⟩
    · exact ⟨[], rfl⟩
  | cons idx pts ih =>
    obtain ⟨a, b, hab, hal⟩ := hb idx (by simp)
    have hle : prev ≤ idx := (List.pairwise_cons.mp hmono).1 idx (by simp)
    -- a = pre ++ m
    have hsplit : ∃ m, a = pre ++ m := by
      have h1 : pre ++ post = a ++ b := by rw [← hw, hab]
      -- compare lengths via splitBytes? on the common text
      have hs := splitBytes?_append pre post
      rw [h1] at hs
      -- split `a` itself at `prev`
      have : ∃ x y, splitBytes? a (blen pre) = some (x, y) := by
        clear ih hb hmono
        -- a prefix of length ≥ prev of a text that splits at prev also splits at prev
        exact split_prefix a b pre post h1.symm (by omega)
      obtain ⟨x, y, hxy⟩ := this
      obtain ⟨q1, q2⟩ := splitBytes?_some hxy
      have : x ++ (y ++ b) = pre ++ post := by rw [h1, q1]; simp
      have := (split_unique this (by omega)).1
      exact ⟨y, by rw [q1, this]⟩
    obtain ⟨m, rfl⟩ := hsplit
    obtain ⟨ps, hps⟩ := ih idx (pre ++ m) b hab hal (fun i hi => hb i (by simp [hi]))
      (List.pairwise_cons.mp hmono).2
    simp only [splitOne]
    have e1 : sliceTo? w.word idx = some (pre ++ m) := by rw [hab, ← hal]; exact sliceTo?_append _ _
    have e2 : slice? w.word prev idx = some m := by
      rw [hab, ← hal, ← hp]; exact slice?_append pre m b
    rw [e1, e2, hps]
    exact ⟨_, rfl⟩
where
  split_prefix (a b pre post : Text) (h : a ++ b = pre ++ post) (hle : blen pre ≤ blen a) :
      ∃ x y, splitBytes? a (blen pre) = some (x, y) := by
    induction pre generalizing a with
    | nil => exact ⟨[], a, by cases a <;> simp [splitBytes?]⟩
    | cons c cs ih =>
      cases a with
      | nil => have := utf8Size_pos c; simp at hle; omega
      | cons d ds =>
        simp only [List.cons_append, List.cons.injEq] at h
        obtain ⟨rfl, h⟩ := h
        simp only [blen_cons] at hle
        obtain ⟨x, y, hxy⟩ := ih ds h (by omega)
        have hp := utf8Size_pos d
        obtain ⟨k, hk⟩ : ∃ k, d.utf8Size + blen cs = k + 1 := ⟨d.utf8Size + blen cs - 1, by omega⟩
        refine ⟨d :: x, y, ?_⟩
        simp only [blen_cons, hk, splitBytes?]
        have h1 : d.utf8Size ≤ k + 1 := by omega
        have h2 : k + 1 - d.utf8Size = blen cs := by omega
        simp only [h1, if_true, h2, hxy]

/-! ### hyphen split points -/

/-- the last char of `a`, or `prev` if `a` is empty -/
def lastOr (a : Text) (prev : Option Char) : Option Char :=
  match a.getLast? with
  | some x => some x
  | none => prev

@[simp] theorem lastOr_nil (p : Option Char) : lastOr [] p = p := rfl
theorem lastOr_cons (c : Char) (a : Text) (p : Option Char) : lastOr (c :: a) p = lastOr a (some c) := by
  cases a with
  | nil => simp [lastOr]
  | cons x xs =>
    have : (x :: xs).getLast? = some ((x :: xs).getLast (by simp)) := List.getLast?_eq_some_getLast (by simp)
    simp [lastOr, List.getLast?_cons_cons, this]

/-- `o` is a hyphen split point of `t` (scanned from offset `off`, previous char `prev`): directly
    after a `'-'` that has an alphanumeric character on both sides -/
def IsHyphenPoint (isAlnum : Char → Bool) (prev : Option Char) (off : Nat) (t : Text) (o : Nat) : Prop :=
  ∃ a y b, t = a ++ HY :: y :: b ∧ isAlnum y = true ∧
    ((lastOr a prev).any isAlnum) = true ∧
    o = off + blen a + 1

theorem hyphenPointsGo_mem (isAlnum : Char → Bool) (prev : Option Char) (off : Nat) (t : Text) (o : Nat) :
    o ∈ hyphenPointsGo isAlnum prev off t ↔ IsHyphenPoint isAlnum prev off t o := by
  induction t generalizing prev off with
  | nil => simp [hyphenPointsGo, IsHyphenPoint]
  | cons c cs ih =>
    simp only [hyphenPointsGo]
    have hrec := ih (some c) (off + c.utf8Size)
    constructor
    · intro h
      split at h
      · next hc =>
        rcases List.mem_cons.mp h with rfl | h
        · simp only [Bool.and_eq_true, decide_eq_true_eq] at hc
          obtain ⟨⟨rfl, hp⟩, hn⟩ := hc
          cases cs with
          | nil => simp at hn
          | cons y b =>
            exact ⟨[], y, b, rfl, by simpa using hn, by simpa using hp, by simp⟩
        · obtain ⟨a, y, b, h1, h2, h3, h4⟩ := hrec.mp h
          exact ⟨c :: a, y, b, by simp [h1], h2, by rw [lastOr_cons]; exact h3, by simp only [blen_cons]; omega⟩
      · obtain ⟨a, y, b, h1, h2, h3, h4⟩ := hrec.mp h
        exact ⟨c :: a, y, b, by simp [h1], h2, by rw [lastOr_cons]; exact h3, by simp only [blen_cons]; omega⟩
    · rintro ⟨a, y, b, h1, h2, h3, h4⟩
      cases a with
      | nil =>
        simp only [List.nil_append, List.cons.injEq] at h1
        obtain ⟨rfl, rfl⟩ := h1
        simp only [lastOr_nil] at h3
        have : (decide (HY = HY) && prev.any isAlnum && (y :: b).head?.any isAlnum) = true := by
          simp [h2, h3]
        simp [h2, h3, h4]
      | cons x xs =>
        simp only [List.cons_append, List.cons.injEq] at h1
        obtain ⟨rfl, h1⟩ := h1
        have hm : o ∈ hyphenPointsGo isAlnum (some c) (off + c.utf8Size) cs := by
          apply hrec.mpr
          exact ⟨xs, y, b, h1, h2, by rw [lastOr_cons] at h3; exact h3, by simp only [blen_cons] at h4; omega⟩
        split
        · exact List.mem_cons_of_mem _ hm
        · exact hm

end TW

namespace TW

theorem hyphenPointsGo_sorted (isAlnum : Char → Bool) (prev : Option Char) (off : Nat) (t : Text) :
    (hyphenPointsGo isAlnum prev off t).Pairwise (· < ·) := by
  induction t generalizing prev off with
  | nil => simp [hyphenPointsGo]
  | cons c cs ih =>
    simp only [hyphenPointsGo]
    split
    · next hc =>
      refine List.pairwise_cons.mpr ⟨?_, ih _ _⟩
      intro o ho
      obtain ⟨a, y, b, _, _, _, h4⟩ := (hyphenPointsGo_mem isAlnum _ _ cs o).mp ho
      have := utf8Size_pos c
      omega
    · exact ih _ _

/-- every hyphen split point is a char boundary strictly inside the word -/
theorem hyphenPoints_boundary (isAlnum : Char → Bool) (w : Text) (o : Nat) (h : o ∈ hyphenPoints isAlnum w) :
    ∃ a b, w = a ++ b ∧ blen a = o ∧ o < blen w := by
  obtain ⟨a, y, b, h1, _, _, h4⟩ := (hyphenPointsGo_mem isAlnum none 0 w o).mp h
  refine ⟨a ++ [HY], y :: b, by simp [h1], ?_, ?_⟩
  · simp only [blen_append, blen_cons, blen_nil]; 
    have : HY.utf8Size = 1 := by decide
    omega
  · rw [h1]
    simp only [blen_append, blen_cons]
    have : HY.utf8Size = 1 := by decide
    have := utf8Size_pos y
    omega

end TW

/-
  `fill_inplace` agrees with `wrap` under the documented options.
-/
import Lemmas.Inplace
import Lemmas.FragEnds
import Lemmas.WrapAppend
namespace TW

/-- the options `fill_inplace` documents: width `w`, no indents, `break_words` off, LF, ASCII
    separator, first-fit, no hyphenation -/
def docOpts (w : Nat) : Opts :=
  { width := w, initialIndent := [], subsequentIndent := [], breakWords := false, sep := .ascii,
    splitter := .none, alg := .firstFit, lineEnding := .lf }

theorem splitLF_noLF' (t : Text) (h : LF ∉ t) : splitLF t = [t] := by
  induction t with
  | nil => rfl
  | cons c cs ih =>
    have hc : c ≠ LF := fun he => h (by simp [he])
    simp only [splitLF, hc, if_false]
    rw [ih (fun hm => h (by simp [hm]))]
    rfl

theorem splitWords_none_id (env : Env) (ws : List Word) (h : ∀ w ∈ ws, FragOk env.cw w) :
    splitWords env .none ws = some ws := by
  induction ws with
  | nil => rfl
  | cons w r ih =>
    have hw := (h w (by simp)).2
    simp only [splitWords, Splitter.points, splitOne, or_true, if_true]
    have := sliceFrom?_append [] w.word
    simp only [List.nil_append, blen_nil] at this
    rw [this, ih (fun x hx => h x (by simp [hx]))]
    simp only [← hw]
    rfl

theorem pipeline_doc (env : Env) (w : Nat) (p : Text) (sw : Nat) :
    pipeline env (docOpts w) p sw = some (findWordsAscii env.cw p) := by
  unfold pipeline
  simp only [docOpts, findWords]
  rw [splitWords_none_id env _ (fun x hx => by
    obtain ⟨t, _, rfl⟩ := List.mem_map.mp hx; exact from_fragOk _ t)]
  simp

section
variable {α : Type} [Add α] [LT α] [Zero α] [DecidableRel (α := α) (· < ·)] {β : Type}

/-- first-fit depends on the line-width list only through the width of each line number -/
theorem ffGo_congr_lws (m : β → Frag α) (l1 l2 : List α) (d1 d2 : α)
    (h : ∀ k, l1.getD k d1 = l2.getD k d2) (k : Nat) (cur : List β) (w : α) (fs : List β) :
    ffGo m l1 d1 k cur w fs = ffGo m l2 d2 k cur w fs := by
  induction fs generalizing k cur w with
  | nil => rfl
  | cons f fs ih => simp only [ffGo, h k, ih]

end

theorem getD_const {α} (a d : α) (k : Nat) (h : d = a) : [a, a].getD k d = [a].getD k d := by
  match k with
  | 0 => rfl
  | 1 => simp [h]
  | k + 2 => simp

section
variable (α : Type) [CostNum α]

theorem firstFit_two_eq_one (words : List Word) (w : Nat) :
    wrapFirstFit (fragOf (α := α)) words (List.map CostNum.ofNat [w, w]) =
      wrapFirstFit (fragOf (α := α)) words [CostNum.ofNat w] := by
  unfold wrapFirstFit
  apply ffGo_congr_lws
  intro k
  simp only [List.map_cons, List.map_nil, defaultLw]
  exact getD_const _ _ k (by simp)

/-- what `wrap` renders for one paragraph under the documented options, in the slow path -/
theorem doc_slow (env : Env) (mo : MinimaOracle α) (w : Nat) (p : Text) (n : Nat) :
    (wrapSingleLineSlow env mo (docOpts w) p n).map (·.map LineD.render) =
      some ((inplaceGroups α env.cw w p).map groupSlice) := by
  unfold wrapSingleLineSlow
  simp only [pipeline_doc]
  have hw : (docOpts w).alg = .firstFit := rfl
  simp only [hw, wrapAlg]
  have hwid : ∀ t : Text, (docOpts w).width - displayWidth env.cw t = (docOpts w).width - displayWidth env.cw t := fun _ => rfl
  have hind : displayWidth env.cw (docOpts w).initialIndent = 0 ∧ displayWidth env.cw (docOpts w).subsequentIndent = 0 := by
    simp [docOpts, displayWidth, dwFrom]
  simp only [hind.1, hind.2, Nat.sub_zero, ite_self]
  have hwd : (docOpts w).width = w := rfl
  rw [hwd, firstFit_two_eq_one]
  have hflat : (inplaceGroups α env.cw w p).flatten = findWordsAscii env.cw p := (inplaceGroups_ok α env.cw w p).1
  show Option.map (fun x => List.map LineD.render x)
      (reassemble (docOpts w) p (inplaceGroups α env.cw w p) 0 n) = _
  rw [reassemble_eq_spec (docOpts w) p [] (inplaceGroups α env.cw w p) 0 n
    (by simp [hflat, findWordsAscii_text]) rfl]
  simp only [Option.map_some, Option.some.injEq]
  -- rendering: no indents, no penalties
  have hnp : ∀ g ∈ inplaceGroups α env.cw w p, NoPen g := by
    intro g hg x hx
    have : x ∈ findWordsAscii env.cw p := by rw [← hflat]; exact List.mem_flatten.mpr ⟨g, hg, hx⟩
    obtain ⟨t, _, rfl⟩ := List.mem_map.mp this; rfl
  have key : ∀ (groups : List (List Word)) (idx n : Nat), (∀ g ∈ groups, NoPen g) →
      (specLines (docOpts w) groups idx n).map LineD.render = groups.map groupSlice := by
    intro groups
    induction groups with
    | nil => intro _ _ _; rfl
    | cons g gs ih =>
      intro idx n hn
      simp only [specLines, List.map_cons]
      have hind2 : (if n = 0 then (docOpts w).initialIndent else (docOpts w).subsequentIndent) = [] := by
        split <;> rfl
      cases hl : g.getLast? with
      | none =>
        simp only [List.map_cons, LineD.render, hind2, ih _ _ (fun x hx => hn x (by simp [hx]))]
        simp [groupSlice, hl]
      | some last =>
        have hp : last.pen = [] := hn g (by simp) last (List.mem_of_getLast? hl)
        simp only [List.map_cons, LineD.render, hind2, hp, ih _ _ (fun x hx => hn x (by simp [hx]))]
        simp
  exact key _ 0 n hnp

end
end TW

namespace TW

theorem fragSum_le_blen (cw : Char → Nat) (hcw : ∀ c, cw c ≤ c.utf8Size) (ws : List Word)
    (h : ∀ w ∈ ws, FragOk cw w) : fragSum ws ≤ blen (wordsText ws) := by
  induction ws with
  | nil => simp
  | cons w r ih =>
    have hw := (h w (by simp)).2
    have := dwFrom_le_blen cw hcw .normal w.word
    unfold displayWidth at hw
    simp only [fragSum_cons, wordsText_cons, blen_append]
    have := ih (fun x hx => h x (by simp [hx]))
    omega

theorem trimEndSp_append_spaces' (x sp : Text) (h : ∀ c ∈ sp, c = SP) : trimEndSp (x ++ sp) = trimEndSp x := by
  induction x with
  | nil =>
    induction sp with
    | nil => rfl
    | cons c cs ih =>
      have hc : c = SP := h c (by simp)
      have := ih (fun d hd => h d (by simp [hd]))
      simp only [List.nil_append] at this ⊢
      rw [trimEndSp_cons, this]; simp [trimEndSp, hc]
  | cons c cs ih => simp only [List.cons_append]; rw [trimEndSp_cons, trimEndSp_cons, ih]

theorem trimEndSp_id' (x : Text) (h : x.getLast? ≠ some SP) : trimEndSp x = x := by
  induction x with
  | nil => rfl
  | cons c cs ih =>
    rw [trimEndSp_cons]
    cases cs with
    | nil =>
      simp only [List.getLast?_singleton, ne_eq, Option.some.injEq] at h
      simp [trimEndSp, h]
    | cons d ds =>
      rw [List.getLast?_cons_cons] at h
      have := ih h
      rw [this]; simp

/-- the text of a group, trimmed, is its slice; so is the text without its last space -/
theorem group_trim (g : List Word) (hsl : (groupSlice g).getLast? ≠ some SP) (hgap : ∀ c ∈ groupGap g, c = SP) :
    trimEndSp (wordsText g) = groupSlice g ∧
    ((wordsText g).getLast? = some SP → trimEndSp (wordsText g).dropLast = groupSlice g) := by
  rw [group_text g]
  refine ⟨by rw [trimEndSp_append_spaces' _ _ hgap, trimEndSp_id' _ hsl], ?_⟩
  intro hl
  -- the gap is non-empty (the slice does not end in a space)
  have hne : groupGap g ≠ [] := by
    intro he; rw [he, List.append_nil] at hl; exact hsl hl
  have : (groupSlice g ++ groupGap g).dropLast = groupSlice g ++ (groupGap g).dropLast := by
    rw [List.dropLast_append_of_ne_nil hne]
  rw [this, trimEndSp_append_spaces' _ _ (fun c hc => hgap c (mem_of_mem_dropLast hc)), trimEndSp_id' _ hsl]

theorem splitLF_segOut_para (groups : List (List Word))
    (hno : ∀ g ∈ groups, LF ∉ wordsText g)
    (hend : ∀ pre g post, groups = pre ++ g :: post → post ≠ [] → (wordsText g).getLast? = some SP)
    (hsl : ∀ g ∈ groups, (groupSlice g).getLast? ≠ some SP) (hgap : ∀ g ∈ groups, ∀ c ∈ groupGap g, c = SP)
    (hne : groups ≠ []) :
    (splitLF (segOut (paraSegs groups))).map trimEndSp = groups.map groupSlice := by
  match groups, hne with
  | [g], _ =>
    simp only [paraSegs, segOut, List.append_nil, List.map_cons, List.map_nil]
    rw [TW.splitLF_noLF' _ (hno g (by simp))]
    simp [(group_trim g (hsl g (by simp)) (hgap g (by simp))).1]
  | g :: g2 :: gs, _ =>
    have ih := splitLF_segOut_para (g2 :: gs) (fun x hx => hno x (by simp [hx]))
      (fun pre g' post he hp => hend (g :: pre) g' post (by simp [he]) hp)
      (fun x hx => hsl x (by simp [hx])) (fun x hx => hgap x (by simp [hx])) (by simp)
    have hg := hend [] g (g2 :: gs) rfl (by simp)
    simp only [paraSegs, segOut, List.append_assoc, List.singleton_append]
    rw [splitLF_append]
    have hx : LF ∉ (wordsText g).dropLast := fun h => hno g (by simp) (mem_of_mem_dropLast h)
    rw [TW.splitLF_noLF' _ hx]
    simp only [List.map_append, List.map_cons, List.map_nil, List.singleton_append, ih]
    rw [(group_trim g (hsl g (by simp)) (hgap g (by simp))).2 hg]

end TW

/-
  Correctness of the model of `smawk` (TextwrapModel/Smawk.lean) on totally monotone input:
  `smawk_inner` stores the LEFT-MOST minimum row of every column; `online_column_minima`
  returns true column minima of the online matrix `D i + c i j`. Values are integers (the
  setting of C03: every cost exactly representable).

  Total monotonicity is used in the strict form that textwrap's matrix satisfies
  (`Lemmas/OptimalCore.lean`, `tm_strict`): for rows `i < i'` and columns `j < j'`,
  `f i' j < f i j → f i' j' < f i j'`.
-/
import Lemmas.Smawk
namespace TW

/-- the matrix answers with the values of `f` on `rows × cols` -/
def MVal (m : Nat → Nat → Option Int) (f : Nat → Nat → Int) (rows cols : List Nat) : Prop :=
  ∀ r ∈ rows, ∀ c ∈ cols, m r c = some (f r c)

/-- strict total monotonicity on `rows × cols` -/
def TMon (f : Nat → Nat → Int) (rows cols : List Nat) : Prop :=
  ∀ i ∈ rows, ∀ i' ∈ rows, i < i' → ∀ j ∈ cols, ∀ j' ∈ cols, j < j' → f i' j < f i j → f i' j' < f i j'

/-- `r` is the left-most row of `rows` with the minimum value in column `c` -/
def LeftMin (f : Nat → Nat → Int) (rows : List Nat) (c r : Nat) : Prop :=
  r ∈ rows ∧ (∀ x ∈ rows, f r c ≤ f x c) ∧ (∀ x ∈ rows, x < r → f r c < f x c)

theorem MVal.total {m : Nat → Nat → Option Int} {f : Nat → Nat → Int} {rows cols : List Nat}
    (h : MVal m f rows cols) : MTotal m rows cols := fun r hr c hc => by rw [h r hr c hc]; rfl

/-- contrapositive of total monotonicity: a later row that is not better at a later column is not
    better at an earlier one -/
theorem TMon.back {f : Nat → Nat → Int} {rows cols : List Nat} (h : TMon f rows cols)
    {i i' j j' : Nat} (hi : i ∈ rows) (hi' : i' ∈ rows) (hii : i < i') (hj : j ∈ cols) (hj' : j' ∈ cols)
    (hjj : j ≤ j') (hle : f i j' ≤ f i' j') : f i j ≤ f i' j := by
  rcases Nat.lt_or_ge j j' with hlt | hge
  · apply Int.not_lt.mp
    intro hc
    have := h i hi i' hi' hii j hj j' hj' hlt hc
    omega
  · have : j = j' := by omega
    subst this; exact hle

/-- and forwards, allowing the same column -/
theorem TMon.fwd {f : Nat → Nat → Int} {rows cols : List Nat} (h : TMon f rows cols)
    {i i' j j' : Nat} (hi : i ∈ rows) (hi' : i' ∈ rows) (hii : i < i') (hj : j ∈ cols) (hj' : j' ∈ cols)
    (hjj : j ≤ j') (hlt : f i' j < f i j) : f i' j' < f i j' := by
  rcases Nat.lt_or_ge j j' with h1 | h1
  · exact h i hi i' hi' hii j hj j' hj' h1 hlt
  · have : j = j' := by omega
    subst this; exact hlt

/-! ### the inner scan of the interpolation step -/

theorem tupLt_int (a : Int) (x : Nat) (b : Int) (y : Nat) :
    tupLt a x b y = true ↔ (a < b ∨ (a = b ∧ x < y)) := by
  unfold tupLt
  by_cases h : a < b
  · simp [h]
  · simp only [h, if_false, false_or]
    show (if (a == b) = true then decide (x < y) else false) = true ↔ _
    by_cases he : a = b
    · simp [he]
    · simp [he]

/-- what the scan returns is the left-most minimum of everything scanned: the set `S` scanned
    before (whose left-most minimum is `(pv, pr)`) and the rows of `rest` up to `lastRow` -/
theorem smawkScan_min (m : Nat → Nat → Option Int) (f : Nat → Nat → Int) (col lastRow : Nat)
    (rest : List Nat) :
    ∀ (row : Nat) (pv : Int) (pr : Nat) (res : Nat × List Nat × Nat) (S : Nat → Prop),
    smawkScan m col lastRow row rest pv pr = some res →
    (∀ x ∈ rest, m x col = some (f x col)) →
    List.Pairwise (· < ·) (row :: rest) → lastRow ∈ row :: rest → pr ≤ row →
    S pr → pv = f pr col → (∀ x, S x → pv ≤ f x col) → (∀ x, S x → x < pr → pv < f x col) →
    (∀ x, S x → x ≤ row) →
    (S res.2.2 ∨ (res.2.2 ∈ rest ∧ res.2.2 ≤ lastRow)) ∧
    (∀ x, (S x ∨ (x ∈ rest ∧ x ≤ lastRow)) → f res.2.2 col ≤ f x col) ∧
    (∀ x, (S x ∨ (x ∈ rest ∧ x ≤ lastRow)) → x < res.2.2 → f res.2.2 col < f x col) := by
  induction rest with
  | nil =>
    intro row pv pr res S heq _ _ hmem _ hS hpv hmin hleft _
    have hl : lastRow = row := by simpa using hmem
    subst hl
    simp [smawkScan] at heq
    subst heq
    dsimp only
    refine ⟨Or.inl hS, ?_, ?_⟩
    · intro x hx
      rcases hx with hx | hx
      · rw [← hpv]; exact hmin x hx
      · simp at hx
    · intro x hx hlt
      rcases hx with hx | hx
      · rw [← hpv]; exact hleft x hx hlt
      · simp at hx
  | cons x0 rest' ih =>
    intro row pv pr res S heq hm hs hmem hpr hS hpv hmin hleft hbound
    have hs' : List.Pairwise (· < ·) (x0 :: rest') := (List.pairwise_cons.mp hs).2
    have hrx : row < x0 := (List.pairwise_cons.mp hs).1 x0 (by simp)
    have hrall : ∀ y ∈ x0 :: rest', row < y := (List.pairwise_cons.mp hs).1
    unfold smawkScan at heq
    by_cases he : row = lastRow
    · subst he
      rw [if_pos rfl] at heq
      cases heq
      dsimp only
      refine ⟨Or.inl hS, ?_, ?_⟩
      · intro x hx
        rcases hx with hx | hx
        · rw [← hpv]; exact hmin x hx
        · have := hrall x hx.1; omega
      · intro x hx hlt
        rcases hx with hx | hx
        · rw [← hpv]; exact hleft x hx hlt
        · have := hrall x hx.1; omega
    · rw [if_neg he] at heq
      dsimp only at heq
      rw [hm x0 (by simp)] at heq
      dsimp only at heq
      have hmem' : lastRow ∈ x0 :: rest' := by
        rcases List.mem_cons.mp hmem with h | h
        · exact absurd h.symm he
        · exact h
      have hx0le : x0 ≤ lastRow := le_of_mem_sorted_cons hs' hmem'
      have hm' : ∀ y ∈ rest', m y col = some (f y col) := fun y hy => hm y (by simp [hy])
      -- the new scanned set
      have key : ∀ (pv' : Int) (pr' : Nat),
          smawkScan m col lastRow x0 rest' pv' pr' = some res →
          pr' ≤ x0 → (S pr' ∨ pr' = x0) → pv' = f pr' col →
          (∀ x, (S x ∨ x = x0) → pv' ≤ f x col) → (∀ x, (S x ∨ x = x0) → x < pr' → pv' < f x col) →
          (S res.2.2 ∨ (res.2.2 ∈ x0 :: rest' ∧ res.2.2 ≤ lastRow)) ∧
          (∀ x, (S x ∨ (x ∈ x0 :: rest' ∧ x ≤ lastRow)) → f res.2.2 col ≤ f x col) ∧
          (∀ x, (S x ∨ (x ∈ x0 :: rest' ∧ x ≤ lastRow)) → x < res.2.2 → f res.2.2 col < f x col) := by
        intro pv' pr' heq' hpr' hS' hpv' hmin' hleft'
        obtain ⟨r1, r2, r3⟩ := ih x0 pv' pr' res (fun x => S x ∨ x = x0) heq' hm' hs' hmem' hpr' hS' hpv'
          hmin' hleft' (fun x hx => by
            rcases hx with hx | hx
            · have := hbound x hx; omega
            · omega)
        have conv : ∀ x, (S x ∨ (x ∈ x0 :: rest' ∧ x ≤ lastRow)) → ((S x ∨ x = x0) ∨ (x ∈ rest' ∧ x ≤ lastRow)) := by
          intro x hx
          rcases hx with hx | ⟨hx1, hx2⟩
          · exact Or.inl (Or.inl hx)
          · rcases List.mem_cons.mp hx1 with h | h
            · exact Or.inl (Or.inr h)
            · exact Or.inr ⟨h, hx2⟩
        refine ⟨?_, fun x hx => r2 x (conv x hx), fun x hx => r3 x (conv x hx)⟩
        rcases r1 with (h | h) | h
        · exact Or.inl h
        · right; rw [h]; exact ⟨by simp, hx0le⟩
        · right; exact ⟨by simp [h.1], h.2⟩
      by_cases ht : tupLt (f x0 col) x0 pv pr = true
      · rw [if_pos ht] at heq
        have hlt : f x0 col < pv := by
          rcases (tupLt_int _ _ _ _).mp ht with h | h
          · exact h
          · omega
        apply key (f x0 col) x0 heq (Nat.le_refl _) (Or.inr rfl) rfl
        · intro x hx
          rcases hx with hx | hx
          · have := hmin x hx; omega
          · subst hx; exact Int.le_refl _
        · intro x hx hxlt
          rcases hx with hx | hx
          · have := hmin x hx; omega
          · omega
      · rw [if_neg ht] at heq
        have hge : pv ≤ f x0 col := by
          apply Int.not_lt.mp
          intro h
          exact ht ((tupLt_int _ _ _ _).mpr (Or.inl h))
        apply key pv pr heq (by omega) (Or.inl hS) hpv
        · intro x hx
          rcases hx with hx | hx
          · exact hmin x hx
          · subst hx; exact hge
        · intro x hx hxlt
          rcases hx with hx | hx
          · exact hleft x hx hxlt
          · omega

/-! ### the interpolation loop -/

theorem TMon.cols_subset {f : Nat → Nat → Int} {rows cols cols' : List Nat} (h : TMon f rows cols)
    (hs : ∀ c ∈ cols', c ∈ cols) : TMon f rows cols' :=
  fun i hi i' hi' hii j hj j' hj' hjj => h i hi i' hi' hii j (hs j hj) j' (hs j' hj') hjj

theorem TMon.rows_subset {f : Nat → Nat → Int} {rows rows' cols : List Nat} (h : TMon f rows cols)
    (hs : ∀ r ∈ rows', r ∈ rows) : TMon f rows' cols :=
  fun i hi i' hi' hii j hj j' hj' hjj => h i (hs i hi) i' (hs i' hi') hii j hj j' hj' hjj

theorem getLast?_mem_max {L : List Nat} {v : Nat} (hs : List.Pairwise (· < ·) L) (hl : L.getLast? = some v) :
    ∀ x ∈ L, x ≤ v := by
  intro x hx
  obtain ⟨t, rfl⟩ : ∃ t, L = t ++ [v] := by
    have := List.getLast?_eq_some_iff.mp hl
    exact this
  rcases List.mem_append.mp hx with h | h
  · have := (List.pairwise_append.mp hs).2.2 x h v (by simp); omega
  · simp at h; omega

theorem smawkInterp_min (m : Nat → Nat → Option Int) (f : Nat → Nat → Int) (lastOfRows : Nat)
    (R : List Nat) (hR : List.Pairwise (· < ·) R) :
    ∀ (cols : List Nat) (cur : Nat) (rest : List Nat) (mn : List Nat),
    (cur :: rest) <:+ R → (cur :: rest).getLast? = some lastOfRows →
    List.Pairwise (· < ·) cols → (∀ c ∈ cols, c < mn.length) → MVal m f R cols → TMon f R cols →
    (∀ c ∈ oddElems cols, LeftMin f R c (mn.getD c 0)) →
    (∀ x ∈ R, x < cur → ∀ c ∈ cols, f cur c < f x c) →
    ∃ mn', smawkInterp m lastOfRows cols cur rest mn = some mn' ∧ mn'.length = mn.length ∧
      (∀ c ∈ cols, LeftMin f R c (mn'.getD c 0)) ∧
      (∀ k, k ∉ evenElems cols → mn'.getD k 0 = mn.getD k 0)
  | [], cur, rest, mn, _, _, _, _, _, _, _, _ =>
    ⟨mn, by simp [smawkInterp], rfl, by simp, fun _ _ => rfl⟩
  | [col], cur, rest, mn, hsuf, hlast, _, hlen, hmv, _, _, hP => by
    have hcl : col < mn.length := hlen col (by simp)
    have hs : List.Pairwise (· < ·) (cur :: rest) := hR.sublist hsuf.sublist
    have hcurR : cur ∈ R := hsuf.subset (by simp)
    have hv : m cur col = some (f cur col) := hmv cur hcurR col (by simp)
    have hmem : lastOfRows ∈ cur :: rest := List.mem_of_getLast? hlast
    have hmrest : ∀ x ∈ rest, m x col = some (f x col) := fun x hx =>
      hmv x (hsuf.subset (by simp [hx])) col (by simp)
    obtain ⟨rest', best, h1, _, _, _⟩ := smawkScan_spec m col lastOfRows rest cur (f cur col) cur hs hmem
      (fun x hx => by rw [hmrest x hx]; rfl) (Nat.le_refl _)
    obtain ⟨m1, m2, m3⟩ := smawkScan_min m f col lastOfRows rest cur (f cur col) cur _ (fun x => x = cur) h1
      hmrest hs hmem (Nat.le_refl _) rfl rfl (fun x hx => by rw [hx]; exact Int.le_refl _)
      (fun x hx hlt => by omega) (fun x hx => by omega)
    dsimp only at m1 m2 m3
    have hmax := getLast?_mem_max hs hlast
    have inset : ∀ x ∈ cur :: rest, (x = cur ∨ (x ∈ rest ∧ x ≤ lastOfRows)) := fun x hx => by
      rcases List.mem_cons.mp hx with h | h
      · exact Or.inl h
      · exact Or.inr ⟨h, hmax x hx⟩
    have hbR : best ∈ R := by
      rcases m1 with h | h
      · rw [h]; exact hcurR
      · exact hsuf.subset (by simp [h.1])
    have hcases : ∀ x ∈ R, x < cur ∨ x ∈ cur :: rest := fun x hx => by
      rcases Nat.lt_or_ge x cur with h | h
      · exact Or.inl h
      · exact Or.inr (mem_suffix_of_le hR hsuf hx h)
    refine ⟨mn.set col best, ?_, by simp, ?_, ?_⟩
    · simp only [smawkInterp, hv, h1, setAt_spec mn col best hcl]
    · intro c hc
      have : c = col := by simpa using hc
      subst this
      rw [getD_set' _ _ _ _ hcl, if_pos rfl]
      refine ⟨hbR, ?_, ?_⟩
      · intro x hx
        rcases hcases x hx with h | h
        · have h1' := hP x hx h c (by simp)
          have h2' := m2 cur (Or.inl rfl)
          omega
        · exact m2 x (inset x h)
      · intro x hx hlt
        rcases hcases x hx with h | h
        · have h1' := hP x hx h c (by simp)
          have h2' := m2 cur (Or.inl rfl)
          omega
        · exact m3 x (inset x h) hlt
    · intro k hk
      have : k ≠ col := by simpa [evenElems] using hk
      rw [getD_set' _ _ _ _ hcl, if_neg this]
  | col :: nxt :: cs, cur, rest, mn, hsuf, hlast, hcs, hlen, hmv, htm, hodd, hP => by
    have hcl : col < mn.length := hlen col (by simp)
    have hnl : nxt < mn.length := hlen nxt (by simp)
    have hs : List.Pairwise (· < ·) (cur :: rest) := hR.sublist hsuf.sublist
    have hcurR : cur ∈ R := hsuf.subset (by simp)
    have hc1 := List.pairwise_cons.mp hcs
    have hc2 := List.pairwise_cons.mp hc1.2
    have hcol_nxt : col < nxt := hc1.1 nxt (by simp)
    have hcol_cs : ∀ c ∈ cs, col < c := fun c hc => hc1.1 c (by simp [hc])
    have hnxt_cs : ∀ c ∈ cs, nxt < c := fun c hc => hc2.1 c hc
    have hv : m cur col = some (f cur col) := hmv cur hcurR col (by simp)
    have hLM : LeftMin f R nxt (mn.getD nxt 0) := hodd nxt (by simp [oddElems])
    -- the odd minimum lies at or after the current row
    have hge : cur ≤ mn.getD nxt 0 := by
      apply Nat.le_of_not_lt
      intro hlt
      have h1' := hP _ hLM.1 hlt nxt (by simp)
      have h2' := hLM.2.1 cur hcurR
      omega
    have hlr : mn.getD nxt 0 ∈ cur :: rest := mem_suffix_of_le hR hsuf hLM.1 hge
    have hget : mn[nxt]? = some (mn.getD nxt 0) := by
      simp [List.getD_eq_getElem?_getD, List.getElem?_eq_getElem hnl]
    have hmrest : ∀ x ∈ rest, m x col = some (f x col) := fun x hx =>
      hmv x (hsuf.subset (by simp [hx])) col (by simp)
    obtain ⟨rest', best, h1, h2, h3, _⟩ := smawkScan_spec m col (mn.getD nxt 0) rest cur (f cur col) cur hs hlr
      (fun x hx => by rw [hmrest x hx]; rfl) (Nat.le_refl _)
    obtain ⟨m1, m2, m3⟩ := smawkScan_min m f col (mn.getD nxt 0) rest cur (f cur col) cur _ (fun x => x = cur) h1
      hmrest hs hlr (Nat.le_refl _) rfl rfl (fun x hx => by rw [hx]; exact Int.le_refl _)
      (fun x hx hlt => by omega) (fun x hx => by omega)
    dsimp only at m1 m2 m3
    have hbR : best ∈ R := by
      rcases m1 with h | h
      · rw [h]; exact hcurR
      · exact hsuf.subset (by simp [h.1])
    -- `best` is the left-most minimum of column `col` over all of `R`
    have hbest : LeftMin f R col best := by
      have hlast_in : (mn.getD nxt 0 = cur ∨ (mn.getD nxt 0 ∈ rest ∧ mn.getD nxt 0 ≤ mn.getD nxt 0)) := by
        rcases List.mem_cons.mp hlr with h | h
        · exact Or.inl h
        · exact Or.inr ⟨h, Nat.le_refl _⟩
      have hcases : ∀ x ∈ R, x < cur ∨ (x = cur ∨ (x ∈ rest ∧ x ≤ mn.getD nxt 0)) ∨ mn.getD nxt 0 < x := fun x hx => by
        rcases Nat.lt_or_ge x cur with h | h
        · exact Or.inl h
        · rcases Nat.lt_or_ge (mn.getD nxt 0) x with h' | h'
          · exact Or.inr (Or.inr h')
          · right; left
            rcases List.mem_cons.mp (mem_suffix_of_le hR hsuf hx h) with e | e
            · exact Or.inl e
            · exact Or.inr ⟨e, h'⟩
      have hle_all : ∀ x ∈ R, f best col ≤ f x col := by
        intro x hx
        rcases hcases x hx with h | h | h
        · have h1' := hP x hx h col (by simp)
          have h2' := m2 cur (Or.inl rfl)
          omega
        · exact m2 x h
        · have h1' := htm.back hLM.1 hx h (by simp : col ∈ col :: nxt :: cs) (by simp : nxt ∈ col :: nxt :: cs)
            (Nat.le_of_lt hcol_nxt) (hLM.2.1 x hx)
          have h2' := m2 _ hlast_in
          omega
      refine ⟨hbR, hle_all, ?_⟩
      intro x hx hlt
      rcases hcases x hx with h | h | h
      · have h1' := hP x hx h col (by simp)
        have h2' := m2 cur (Or.inl rfl)
        omega
      · exact m3 x h hlt
      · omega
    -- the recursive call
    have hsuf' : (mn.getD nxt 0 :: rest') <:+ R := h2.trans hsuf
    have hlast' : (mn.getD nxt 0 :: rest').getLast? = some lastOfRows := by
      rw [getLast?_of_suffix h2 (by simp)]; exact hlast
    have hsub : ∀ c ∈ cs, c ∈ col :: nxt :: cs := fun c hc => by simp [hc]
    have hsame : ∀ c ∈ cs, (mn.set col best).getD c 0 = mn.getD c 0 := fun c hc => by
      have hne : ¬ c = col := by have := hcol_cs c hc; omega
      rw [getD_set' _ _ _ _ hcl, if_neg hne]
    obtain ⟨mn', r1, r2, r3, r5⟩ := smawkInterp_min m f lastOfRows R hR cs (mn.getD nxt 0) rest' (mn.set col best)
      hsuf' hlast' hc2.2 (fun c hc => by simp only [List.length_set]; exact hlen c (hsub c hc))
      (fun r hr c hc => hmv r hr c (hsub c hc)) (htm.cols_subset hsub)
      (fun c hc => by
        rw [hsame c (mem_of_mem_oddElems hc)]
        exact hodd c (by simp [oddElems, hc]))
      (fun x hx hlt c hc =>
        htm.fwd hx hLM.1 hlt (by simp : nxt ∈ col :: nxt :: cs) (hsub c hc) (Nat.le_of_lt (hnxt_cs c hc))
          (hLM.2.2 x hx hlt))
    have hcol_ev : col ∉ evenElems cs := fun e => by
      have := hcol_cs col (mem_of_mem_evenElems e); omega
    have hnxt_ev : nxt ∉ evenElems cs := fun e => by
      have := hnxt_cs nxt (mem_of_mem_evenElems e); omega
    have vcol : mn'.getD col 0 = best := by
      rw [r5 col hcol_ev, getD_set' _ _ _ _ hcl, if_pos rfl]
    have vnxt : mn'.getD nxt 0 = mn.getD nxt 0 := by
      rw [r5 nxt hnxt_ev, getD_set' _ _ _ _ hcl, if_neg (by omega)]
    refine ⟨mn', ?_, ?_, ?_, ?_⟩
    · simp only [smawkInterp, hget, hv, h1, setAt_spec mn col best hcl]
      exact r1
    · rw [r2]; simp
    · intro c hc
      simp only [List.mem_cons] at hc
      rcases hc with rfl | rfl | hc
      · rw [vcol]; exact hbest
      · rw [vnxt]; exact hLM
      · exact r3 c hc
    · intro k hk
      simp only [evenElems, List.mem_cons, not_or] at hk
      rw [r5 k hk.2, getD_set' _ _ _ _ hcl, if_neg hk.1]

/-! ### the reduce step: the surviving rows dominate every row, lexicographically -/

/-- the stack element at index `p` counted from the bottom (the stack is kept top-first) -/
def bot (st : List Nat) (p : Nat) : Nat := st.reverse.getD p 0

theorem bot_cons_lt (a : Nat) (l : List Nat) (p : Nat) (h : p < l.length) : bot (a :: l) p = bot l p := by
  unfold bot
  simp only [List.reverse_cons, List.getD_eq_getElem?_getD]
  rw [List.getElem?_append_left (by simpa using h)]

theorem bot_cons_top (a : Nat) (l : List Nat) : bot (a :: l) l.length = a := by
  unfold bot
  simp [List.getD_eq_getElem?_getD]

theorem bot_mem (l : List Nat) (p : Nat) (h : p < l.length) : bot l p ∈ l := by
  unfold bot
  have h' : p < l.reverse.length := by simpa using h
  rw [List.getD_eq_getElem?_getD, List.getElem?_eq_getElem h']
  simpa using List.getElem_mem h'

theorem mem_bot (l : List Nat) (x : Nat) (h : x ∈ l) : ∃ p, p < l.length ∧ bot l p = x := by
  have h' : x ∈ l.reverse := by simpa using h
  obtain ⟨p, hp, he⟩ := List.getElem_of_mem h'
  refine ⟨p, by simpa using hp, ?_⟩
  unfold bot
  rw [List.getD_eq_getElem?_getD, List.getElem?_eq_getElem hp]
  simpa using he

theorem bot_suffix {l l' : List Nat} (h : l' <:+ l) (p : Nat) (hp : p < l'.length) : bot l' p = bot l p := by
  obtain ⟨t, rfl⟩ := h
  unfold bot
  simp only [List.reverse_append, List.getD_eq_getElem?_getD]
  rw [List.getElem?_append_left (by simpa using hp)]

theorem bot_lt_of_sorted {l : List Nat} (hs : List.Pairwise (· < ·) l.reverse) {p q : Nat}
    (hpq : p < q) (hq : q < l.length) : bot l p < bot l q := by
  unfold bot
  have hq' : q < l.reverse.length := by simpa using hq
  have hp' : p < l.reverse.length := by omega
  rw [List.getD_eq_getElem?_getD, List.getD_eq_getElem?_getD, List.getElem?_eq_getElem hp',
    List.getElem?_eq_getElem hq']
  exact List.pairwise_iff_getElem.mp hs p q hp' hq' hpq

/-- the values version of the pop loop: the stack is cut down to its `u` bottom elements, every
    element above was strictly beaten by `r` at its own column, and the new top is not -/
theorem smawkPop_val (m : Nat → Nat → Option Int) (f : Nat → Nat → Int) (cols : List Nat) (r : Nat)
    (st : List Nat) (hst : ∀ x ∈ st, ∀ c ∈ cols, m x c = some (f x c))
    (hr : ∀ c ∈ cols, m r c = some (f r c)) (hlen : st.length ≤ cols.length) :
    ∃ st', smawkPop m cols r st = some st' ∧ st' <:+ st ∧
      (∀ p, st'.length ≤ p → p < st.length → f r (cols.getD p 0) < f (bot st p) (cols.getD p 0)) ∧
      (∀ u, st'.length = u + 1 → f (bot st u) (cols.getD u 0) ≤ f r (cols.getD u 0)) := by
  induction st with
  | nil => exact ⟨[], rfl, List.suffix_refl _, by intro p _ h; simp at h, by intro u h; simp at h⟩
  | cons top rest ih =>
    simp only [smawkPop]
    have hlt : rest.length < cols.length := by simp at hlen; omega
    have hc : cols[rest.length]? = some cols[rest.length] := List.getElem?_eq_getElem hlt
    have hcd : cols.getD rest.length 0 = cols[rest.length] := by
      simp [List.getD_eq_getElem?_getD, hc]
    rw [hc]
    have hmem : cols[rest.length] ∈ cols := List.getElem_mem hlt
    simp only [hst top (by simp) _ hmem, hr _ hmem]
    by_cases hb : f r cols[rest.length] < f top cols[rest.length]
    · rw [if_pos hb]
      obtain ⟨st', h1, h2, h3, h4⟩ := ih (fun x hx => hst x (by simp [hx])) (by simp at hlen; omega)
      refine ⟨st', h1, h2.trans (List.suffix_cons _ _), ?_, ?_⟩
      · intro p hp1 hp2
        by_cases hp : p < rest.length
        · rw [bot_cons_lt _ _ _ hp]; exact h3 p hp1 hp
        · have : p = rest.length := by simp at hp2; omega
          subst this
          rw [bot_cons_top, hcd]; exact hb
      · intro u hu
        have hul : u < rest.length := by have := h2.length_le; omega
        rw [bot_cons_lt _ _ _ hul]; exact h4 u hu
    · rw [if_neg hb]
      refine ⟨top :: rest, rfl, List.suffix_refl _, by intro p h1 h2; omega, ?_⟩
      intro u hu
      have : u = rest.length := by simpa using hu.symm
      subst this
      rw [bot_cons_top, hcd]; omega

/-- `(value of s, s) ≤ (value of x, x)` lexicographically, in column `c` -/
def LexLe (f : Nat → Nat → Int) (c s x : Nat) : Prop := f s c < f x c ∨ (f s c = f x c ∧ s ≤ x)

theorem LexLe.refl (f : Nat → Nat → Int) (c s : Nat) : LexLe f c s s := Or.inr ⟨rfl, Nat.le_refl _⟩

theorem LexLe.trans {f : Nat → Nat → Int} {c a b d : Nat} (h1 : LexLe f c a b) (h2 : LexLe f c b d) :
    LexLe f c a d := by
  unfold LexLe at *
  rcases h1 with h1 | ⟨h1, h1'⟩ <;> rcases h2 with h2 | ⟨h2, h2'⟩
  · left; omega
  · left; omega
  · left; omega
  · right; exact ⟨by omega, by omega⟩

theorem getD_mem_of_lt (cols : List Nat) (q : Nat) (h : q < cols.length) : cols.getD q 0 ∈ cols := by
  rw [List.getD_eq_getElem?_getD, List.getElem?_eq_getElem h]; exact List.getElem_mem h

theorem exists_index_of_mem (cols : List Nat) (c : Nat) (h : c ∈ cols) : ∃ q, q < cols.length ∧ cols.getD q 0 = c := by
  obtain ⟨q, hq, he⟩ := List.getElem_of_mem h
  exact ⟨q, hq, by rw [List.getD_eq_getElem?_getD, List.getElem?_eq_getElem hq]; exact he⟩

theorem getD_le_of_sorted {cols : List Nat} (hs : List.Pairwise (· < ·) cols) {p q : Nat} (hpq : p ≤ q)
    (hq : q < cols.length) : cols.getD p 0 ≤ cols.getD q 0 := by
  have hp : p < cols.length := by omega
  rw [List.getD_eq_getElem?_getD, List.getD_eq_getElem?_getD, List.getElem?_eq_getElem hp,
    List.getElem?_eq_getElem hq]
  rcases Nat.lt_or_ge p q with h | h
  · exact Nat.le_of_lt (List.pairwise_iff_getElem.mp hs p q hp hq h)
  · have : p = q := by omega
    subst this; exact Nat.le_refl _

/-- invariant of the reduce loop: `P` = the rows processed so far -/
structure RedInv (f : Nat → Nat → Int) (cols U P st : List Nat) : Prop where
  sub : ∀ s ∈ st, s ∈ U
  sorted : List.Pairwise (· < ·) st.reverse
  len : st.length ≤ cols.length
  chain : ∀ p, p + 1 < st.length → f (bot st p) (cols.getD p 0) ≤ f (bot st (p + 1)) (cols.getD p 0)
  dom : ∀ x ∈ P, ∀ c ∈ cols, ∃ s ∈ st, LexLe f c s x

/-- going down the stack loses nothing in the columns left of the lower element's own column -/
theorem RedInv.chain_down {f : Nat → Nat → Int} {cols U P st : List Nat} (h : RedInv f cols U P st)
    (htm : TMon f U cols) (hcs : List.Pairwise (· < ·) cols) (a q : Nat) (hqa : q ≤ a) :
    ∀ b, a ≤ b → b < st.length → f (bot st a) (cols.getD q 0) ≤ f (bot st b) (cols.getD q 0) := by
  have key : ∀ d, a + d < st.length → f (bot st a) (cols.getD q 0) ≤ f (bot st (a + d)) (cols.getD q 0) := by
    intro d
    induction d with
    | zero => intro _; exact Int.le_refl _
    | succ d ih =>
      intro hb
      have h1 := ih (by omega)
      have h2 := h.chain (a + d) hb
      have hlen := h.len
      have h3 := htm.back (h.sub _ (bot_mem st (a + d) (by omega))) (h.sub _ (bot_mem st (a + d + 1) hb))
        (bot_lt_of_sorted h.sorted (Nat.lt_succ_self (a + d)) hb)
        (getD_mem_of_lt cols q (by omega)) (getD_mem_of_lt cols (a + d) (by omega))
        (getD_le_of_sorted hcs (by omega) (by omega)) h2
      have : a + (d + 1) = a + d + 1 := by omega
      rw [this]
      omega
  intro b hab hb
  have := key (b - a) (by omega)
  have e : a + (b - a) = b := by omega
  rwa [e] at this

/-- one row of the reduce loop keeps the invariant -/
theorem RedInv.step {f : Nat → Nat → Int} {cols U P st : List Nat} (h : RedInv f cols U P st)
    (htm : TMon f U cols) (hcs : List.Pairwise (· < ·) cols) (r : Nat) (hrU : r ∈ U) (hgt : ∀ s ∈ st, s < r)
    (st' : List Nat) (hsuf : st' <:+ st)
    (hpop : ∀ p, st'.length ≤ p → p < st.length → f r (cols.getD p 0) < f (bot st p) (cols.getD p 0))
    (htop : ∀ u, st'.length = u + 1 → f (bot st u) (cols.getD u 0) ≤ f r (cols.getD u 0)) :
    RedInv f cols U (r :: P) (if st'.length ≠ cols.length then r :: st' else st') := by
  have hlen := h.len
  have hsl := hsuf.length_le
  have hsorted' : List.Pairwise (· < ·) st'.reverse :=
    h.sorted.sublist (List.reverse_prefix.mpr hsuf).sublist
  have hbot' : ∀ p, p < st'.length → bot st' p = bot st p := fun p hp => bot_suffix hsuf p hp
  by_cases hne : st'.length ≠ cols.length
  · rw [if_pos hne]
    -- a new dominator for every element of the old stack
    have newdom : ∀ p, p < st.length → ∀ c ∈ cols, ∃ s ∈ r :: st', LexLe f c s (bot st p) := by
      intro p hp c hc
      by_cases hpu : p < st'.length
      · exact ⟨bot st p, by rw [← hbot' p hpu]; simp [bot_mem st' p hpu], LexLe.refl _ _ _⟩
      · obtain ⟨q, hq, rfl⟩ := exists_index_of_mem cols c hc
        have hpU : bot st p ∈ U := h.sub _ (bot_mem st p hp)
        have hplt : bot st p < r := hgt _ (bot_mem st p hp)
        by_cases hqp : p ≤ q
        · -- `r` beats it at its own column, hence at every later one
          refine ⟨r, by simp, Or.inl ?_⟩
          exact htm.fwd hpU hrU hplt (getD_mem_of_lt cols p (by omega)) (getD_mem_of_lt cols q hq)
            (getD_le_of_sorted hcs hqp hq) (hpop p (by omega) hp)
        · by_cases hqu : q < st'.length
          · -- the new top of the old part is at least as good and further left
            have hu1 : st'.length - 1 < st'.length := by omega
            refine ⟨bot st (st'.length - 1), by rw [← hbot' _ hu1]; simp [bot_mem st' _ hu1], ?_⟩
            have hcd := h.chain_down htm hcs (st'.length - 1) q (by omega) p (by omega) hp
            rcases Int.lt_or_eq_of_le hcd with h1 | h1
            · exact Or.inl h1
            · exact Or.inr ⟨h1, Nat.le_of_lt (bot_lt_of_sorted h.sorted (by omega) hp)⟩
          · -- the element at index `q` was popped too: `r` beats it at column `q`
            refine ⟨r, by simp, Or.inl ?_⟩
            have hcd := h.chain_down htm hcs q q (Nat.le_refl _) p (by omega) hp
            have := hpop q (by omega) (by omega)
            omega
    constructor
    · intro s hs
      rcases List.mem_cons.mp hs with rfl | hs
      · exact hrU
      · exact h.sub s (hsuf.subset hs)
    · rw [List.reverse_cons, List.pairwise_append]
      refine ⟨hsorted', by simp, ?_⟩
      intro a ha b hb
      have : b = r := by simpa using hb
      subst this
      exact hgt a (hsuf.subset (by simpa using ha))
    · simp only [List.length_cons]; omega
    · intro p hp
      simp only [List.length_cons] at hp
      by_cases hpp : p + 1 < st'.length
      · rw [bot_cons_lt _ _ _ (by omega), bot_cons_lt _ _ _ hpp, hbot' p (by omega), hbot' (p + 1) hpp]
        exact h.chain p (by omega)
      · have hpe : st'.length = p + 1 := by omega
        rw [bot_cons_lt _ _ _ (by omega), hbot' p (by omega)]
        have : bot (r :: st') (p + 1) = r := by rw [← hpe]; exact bot_cons_top r st'
        rw [this]
        exact htop p hpe
    · intro x hx c hc
      rcases List.mem_cons.mp hx with rfl | hx
      · exact ⟨x, by simp, LexLe.refl _ _ _⟩
      · obtain ⟨s, hs, hle⟩ := h.dom x hx c hc
        obtain ⟨p, hp, rfl⟩ := mem_bot st s hs
        obtain ⟨s', hs', hle'⟩ := newdom p hp c hc
        exact ⟨s', hs', hle'.trans hle⟩
  · have he : st'.length = cols.length := by omega
    rw [if_neg hne]
    have hst : st' = st := by
      obtain ⟨t, ht⟩ := hsuf
      have : t.length = 0 := by
        have := congrArg List.length ht
        simp at this; omega
      have : t = [] := List.eq_nil_of_length_eq_zero this
      subst this; simpa using ht
    subst hst
    refine ⟨h.sub, h.sorted, h.len, h.chain, ?_⟩
    intro x hx c hc
    rcases List.mem_cons.mp hx with rfl | hx
    · obtain ⟨q, hq, rfl⟩ := exists_index_of_mem cols c hc
      have hk : cols.length - 1 < st'.length := by omega
      have hbU := h.sub _ (bot_mem st' _ hk)
      have hblt := hgt _ (bot_mem st' _ hk)
      have h1 := htop (cols.length - 1) (by omega)
      have h2 := htm.back hbU hrU hblt (getD_mem_of_lt cols q hq) (getD_mem_of_lt cols (cols.length - 1) (by omega))
        (getD_le_of_sorted hcs (by omega) (by omega)) h1
      refine ⟨bot st' (cols.length - 1), bot_mem st' _ hk, ?_⟩
      rcases Int.lt_or_eq_of_le h2 with h3 | h3
      · exact Or.inl h3
      · exact Or.inr ⟨h3, Nat.le_of_lt hblt⟩
    · exact h.dom x hx c hc

theorem smawkReduce_val (m : Nat → Nat → Option Int) (f : Nat → Nat → Int) (cols U : List Nat)
    (hmv : MVal m f U cols) (htm : TMon f U cols) (hcs : List.Pairwise (· < ·) cols) :
    ∀ (rows st P : List Nat), RedInv f cols U P st → (∀ r ∈ rows, r ∈ U) →
    List.Pairwise (· < ·) (st.reverse ++ rows) →
    ∃ out, smawkReduce m cols rows st = some out ∧ RedInv f cols U (rows.reverse ++ P) out := by
  intro rows
  induction rows with
  | nil => intro st P h _ _; exact ⟨st, rfl, by simpa using h⟩
  | cons r rs ih =>
    intro st P h hU hs
    have hrU : r ∈ U := hU r (by simp)
    obtain ⟨st', h1, h2, h3, h4⟩ := smawkPop_val m f cols r st (fun x hx c hc => hmv x (h.sub x hx) c hc)
      (fun c hc => hmv r hrU c hc) h.len
    have hgt : ∀ s ∈ st, s < r := fun s hs' =>
      (List.pairwise_append.mp hs).2.2 s (by simpa using hs') r (by simp)
    have hstep := h.step htm hcs r hrU hgt st' h2 h3 h4
    simp only [smawkReduce, h1]
    have hs2 : List.Pairwise (· < ·) ((if st'.length ≠ cols.length then r :: st' else st').reverse ++ rs) := by
      have hpre : st'.reverse.Sublist st.reverse := (List.reverse_prefix.mpr h2).sublist
      have hbase : List.Pairwise (· < ·) (st.reverse ++ [r] ++ rs) := by simpa using hs
      split
      · rw [List.reverse_cons]
        exact hbase.sublist ((hpre.append (List.Sublist.refl _)).append (List.Sublist.refl _))
      · have : (st'.reverse ++ rs).Sublist (st.reverse ++ [r] ++ rs) := by
          refine List.Sublist.append ?_ (List.Sublist.refl _)
          exact hpre.trans (List.sublist_append_left _ _)
        exact hbase.sublist this
    obtain ⟨out, o1, o2⟩ := ih _ (r :: P) hstep (fun x hx => hU x (by simp [hx])) hs2
    exact ⟨out, o1, by simpa using o2⟩

/-- **`smawk_inner` finds the left-most minimum of every column** of a matrix that is totally
    monotone on `rows × cols` (strict form) -/
theorem smawkInner_min (m : Nat → Nat → Option Int) (f : Nat → Nat → Int) : ∀ (n : Nat) (cols rows minima : List Nat),
    cols.length ≤ n →
    List.Pairwise (· < ·) rows → rows ≠ [] → List.Pairwise (· < ·) cols → (∀ c ∈ cols, c < minima.length) →
    MVal m f rows cols → TMon f rows cols →
    ∃ mn, smawkInner m rows cols minima = some mn ∧ mn.length = minima.length ∧
      (∀ c ∈ cols, LeftMin f rows c (mn.getD c 0)) ∧
      (∀ k, k ∉ cols → mn.getD k 0 = minima.getD k 0) := by
  intro n
  induction n with
  | zero =>
    intro cols rows minima hn _ _ _ _ _ _
    have : cols = [] := List.eq_nil_of_length_eq_zero (by omega)
    subst this
    exact ⟨minima, by rw [smawkInner]; simp, rfl, by simp, fun _ _ => rfl⟩
  | succ n ih =>
    intro cols rows minima hn hs hne hcs hlen hmv htm
    by_cases hc : cols = []
    · subst hc
      exact ⟨minima, by rw [smawkInner]; simp, rfl, by simp, fun _ _ => rfl⟩
    · rw [smawkInner, if_neg hc]
      have hinv0 : RedInv f cols rows [] [] :=
        ⟨by simp, by simp, by simp, by intro p h; simp at h, by simp⟩
      obtain ⟨out, o1, o2⟩ := smawkReduce_val m f cols rows hmv htm hcs rows [] [] hinv0 (fun r hr => hr)
        (by simpa using hs)
      rw [o1]
      dsimp only
      have hdom : ∀ x ∈ rows, ∀ c ∈ cols, ∃ s ∈ out, LexLe f c s x := fun x hx c hc' =>
        o2.dom x (by simpa using hx) c hc'
      have hout_ne : out ≠ [] := by
        intro he
        obtain ⟨x, hx⟩ := List.exists_mem_of_ne_nil rows hne
        obtain ⟨c, hc'⟩ := List.exists_mem_of_ne_nil cols hc
        obtain ⟨s, hs', _⟩ := hdom x hx c hc'
        rw [he] at hs'; simp at hs'
      have hsubR : ∀ s ∈ out.reverse, s ∈ rows := fun s hs' => o2.sub s (by simpa using hs')
      have hs' : List.Pairwise (· < ·) out.reverse := o2.sorted
      have hne' : out.reverse ≠ [] := by simpa using hout_ne
      have hodd_len : (oddElems cols).length ≤ n := by
        have := oddElems_length_le cols
        have : cols.length ≠ 0 := fun h => hc (List.eq_nil_of_length_eq_zero h)
        omega
      have hoddsub : ∀ c ∈ oddElems cols, c ∈ cols := fun c hc' => mem_of_mem_oddElems hc'
      obtain ⟨mn1, a1, a2, a3, a5⟩ := ih (oddElems cols) out.reverse minima hodd_len hs' hne'
        (hcs.sublist (oddElems_sublist cols)) (fun c hc' => hlen c (hoddsub c hc'))
        (fun r hr c hc' => hmv r (hsubR r hr) c (hoddsub c hc'))
        ((htm.rows_subset hsubR).cols_subset hoddsub)
      rw [a1]
      dsimp only
      cases hrows : out.reverse with
      | nil => exact absurd hrows hne'
      | cons cur rest =>
        dsimp only
        have hlast : (cur :: rest).getLast? = some ((cur :: rest).getLast?.getD 0) := by
          cases h : (cur :: rest).getLast? with
          | none => simp at h
          | some v => simp
        rw [hrows] at hs' a3 hsubR
        obtain ⟨mn', b1, b2, b3, b5⟩ := smawkInterp_min m f ((cur :: rest).getLast?.getD 0) (cur :: rest) hs'
          cols cur rest mn1 (List.suffix_refl _) hlast hcs (fun c hc' => by rw [a2]; exact hlen c hc')
          (fun r hr c hc' => hmv r (hsubR r hr) c hc') (htm.rows_subset hsubR) a3
          (fun x hx hlt => by
            have := le_of_mem_sorted_cons hs' hx; omega)
        refine ⟨mn', b1, by rw [b2, a2], ?_, ?_⟩
        · -- left-most minimum over the reduced rows = left-most minimum over all rows
          intro c hc'
          obtain ⟨l1, l2, l3⟩ := b3 c hc'
          refine ⟨hsubR _ l1, ?_, ?_⟩
          · intro x hx
            obtain ⟨s, hs1, hle⟩ := hdom x hx c hc'
            have hsR : s ∈ cur :: rest := by rw [← hrows]; simpa using hs1
            have := l2 s hsR
            rcases hle with h | h <;> omega
          · intro x hx hlt
            obtain ⟨s, hs1, hle⟩ := hdom x hx c hc'
            have hsR : s ∈ cur :: rest := by rw [← hrows]; simpa using hs1
            have h1 := l2 s hsR
            rcases hle with h | ⟨h, h'⟩
            · omega
            · have := l3 s hsR (by omega); omega
        · intro k hk
          rw [b5 k (fun e => hk (mem_of_mem_evenElems e)), a5 k (fun e => hk (mem_of_mem_oddElems e))]

end TW

/-
  Coloured words and the hyphen splitter: when no escape sequence touches a hyphen, the hyphen
  split points of a coloured word correspond one to one to those of the visible word.
-/
import Lemmas.Colour3
import Lemmas.HyphenPieces
import Lemmas.FirstEntry
namespace TW

open TW.C13

/-- no escape sequence touches a hyphen: every `'-'` is met in skipper state `normal`, the
    character before it is visible (`pin` = the previous character was invisible) and the
    character after it does not begin a sequence -/
def NoTouch : Ansi → Bool → Text → Prop
  | _, _, [] => True
  | s, pin, c :: cs =>
    (c = HY → s = .normal ∧ pin = false ∧ cs.head? ≠ some ESC) ∧ NoTouch (s.step c).1 (!(s.step c).2) cs

/-- was the last character of `a` invisible (`pin` if `a` is empty) -/
def lastInvis : Ansi → Bool → Text → Bool
  | _, pin, [] => pin
  | s, _, c :: cs => lastInvis (s.step c).1 (!(s.step c).2) cs

theorem noTouch_append (s : Ansi) (pin : Bool) (a b : Text) (h : NoTouch s pin (a ++ b)) :
    NoTouch s pin a ∧ NoTouch (s.run a) (lastInvis s pin a) b := by
  induction a generalizing s pin with
  | nil => exact ⟨trivial, by simpa [Ansi.run, lastInvis] using h⟩
  | cons c cs ih =>
    obtain ⟨h1, h2⟩ := h
    obtain ⟨i1, i2⟩ := ih _ _ h2
    refine ⟨⟨?_, i1⟩, by simpa [Ansi.run, lastInvis] using i2⟩
    intro hc
    obtain ⟨a1, a2, a3⟩ := h1 hc
    refine ⟨a1, a2, ?_⟩
    cases cs with
    | nil => simp
    | cons d ds => simpa using a3

/-- correspondence of one coloured split point with one visible split point -/
def PtRel (X : Text) (s : Ansi) (offC offV : Nat) (pc pv : Nat) : Prop :=
  ∃ A B, X = A ++ B ∧ offC + blen A = pc ∧ offV + blen (stripFrom s A) = pv ∧ s.run A = .normal ∧
    A.getLast? = some HY ∧ (stripFrom s A).getLast? = some HY

theorem PtRel.cons {X : Text} {s : Ansi} {offC offV pc pv : Nat} (c : Char)
    (h : PtRel X (s.step c).1 (offC + c.utf8Size) (offV + (if (s.step c).2 then c.utf8Size else 0)) pc pv) :
    PtRel (c :: X) s offC offV pc pv := by
  obtain ⟨A, B, e1, e2, e3, e4, e5, e6⟩ := h
  have hA : A ≠ [] := by intro h; subst h; simp at e5
  have hSA : stripFrom (s.step c).1 A ≠ [] := by intro h; rw [h] at e6; simp at e6
  refine ⟨c :: A, B, by simp [e1], by simp only [blen_cons]; omega, ?_, by simpa [Ansi.run] using e4, ?_, ?_⟩
  · simp only [stripFrom]
    split
    · next hv => simp only [hv, if_true] at e3; simp only [blen_cons]; omega
    · next hv =>
      have : (s.step c).2 = false := by simpa using hv
      simp only [this, Bool.false_eq_true, if_false] at e3; omega
  · cases A with
    | nil => exact absurd rfl hA
    | cons a r => rw [List.getLast?_cons_cons]; exact e5
  · simp only [stripFrom]
    split
    · cases hq : stripFrom (s.step c).1 A with
      | nil => exact absurd hq hSA
      | cons a r => rw [List.getLast?_cons_cons, ← hq]; exact e6
    · exact e6

/-- **the hyphen split points of a coloured text and of its visible text correspond** -/
theorem hyphenPoints_colour (isAlnum : Char → Bool) (X : Text) (s : Ansi) (pin : Bool)
    (prevC prevV : Option Char) (offC offV : Nat)
    (hnt : NoTouch s pin X) (hprev : pin = false → prevC = prevV) :
    AllRel (PtRel X s offC offV) (hyphenPointsGo isAlnum prevC offC X)
      (hyphenPointsGo isAlnum prevV offV (stripFrom s X)) := by
  induction X generalizing s pin prevC prevV offC offV with
  | nil => simp [hyphenPointsGo, stripFrom]; exact AllRel.nil
  | cons c cs ih =>
    obtain ⟨h1, h2⟩ := hnt
    have lift : ∀ {l1 l2 : List Nat},
        AllRel (PtRel cs (s.step c).1 (offC + c.utf8Size) (offV + (if (s.step c).2 then c.utf8Size else 0))) l1 l2 →
        AllRel (PtRel (c :: cs) s offC offV) l1 l2 := by
      intro l1 l2 h
      induction h with
      | nil => exact AllRel.nil
      | cons hab _ ih2 => exact AllRel.cons (PtRel.cons c hab) ih2
    by_cases hv : (s.step c).2 = true
    · -- a visible character
      have hsn : s = .normal := step_visible_normal s c hv
      have hcE : c ≠ ESC := by intro e; subst e; subst hsn; simp [Ansi.step] at hv
      have hnext : (s.step c).1 = .normal := by subst hsn; simp [Ansi.step, hcE]
      have hstrip : stripFrom s (c :: cs) = c :: stripFrom (s.step c).1 cs := by simp [stripFrom, hv]
      rw [hstrip]
      simp only [hyphenPointsGo]
      have hrec := ih (s.step c).1 (!(s.step c).2) (some c) (some c) (offC + c.utf8Size) (offV + c.utf8Size) h2
        (fun _ => rfl)
      simp only [hv, if_true] at lift
      by_cases hcy : c = HY
      · obtain ⟨_, a2, a3⟩ := h1 hcy
        have hp := hprev a2
        -- the next raw character is visible, so it is the next visible character
        have hhead : cs.head? = (stripFrom (s.step c).1 cs).head? := by
          rw [hnext]
          cases cs with
          | nil => simp [stripFrom]
          | cons d ds =>
            have hd : d ≠ ESC := by simpa using a3
            simp [stripFrom, Ansi.step, hd]
        rw [hp, hhead]
        by_cases hcnd : (decide (c = HY) && prevV.any isAlnum && (stripFrom (s.step c).1 cs).head?.any isAlnum) = true
        · simp only [hcnd, if_true]
          refine AllRel.cons ?_ (lift hrec)
          have hsz : c.utf8Size = 1 := by rw [hcy]; decide
          refine ⟨[c], cs, rfl, by simp only [blen_cons, blen_nil, hsz], ?_, by simp [Ansi.run, hnext],
            by simp [hcy], by simp only [stripFrom, hv, if_true]; simp [hcy]⟩
          simp only [stripFrom, hv, if_true, blen_cons, blen_nil, hsz]
        · simp only [hcnd, Bool.false_eq_true, if_false]
          exact lift hrec
      · have hcond : ∀ (p : Option Char) (r : Text), (decide (c = HY) && p.any isAlnum && r.head?.any isAlnum) = false := by
          intro p r; simp [hcy]
        simp only [hcond, Bool.false_eq_true, if_false]
        exact lift hrec
    · -- an invisible character: no point here (a hyphen is never invisible)
      have hv' : (s.step c).2 = false := by simpa using hv
      have hstrip : stripFrom s (c :: cs) = stripFrom (s.step c).1 cs := by simp [stripFrom, hv']
      rw [hstrip]
      simp only [hyphenPointsGo]
      have hcy : c ≠ HY := by
        intro e
        obtain ⟨a1, _, _⟩ := h1 e
        subst a1; subst e
        simp [Ansi.step, HY, ESC] at hv'
      have hcond : ∀ (p : Option Char) (r : Text), (decide (c = HY) && p.any isAlnum && r.head?.any isAlnum) = false := by
        intro p r; simp [hcy]
      simp only [hcond, Bool.false_eq_true, if_false]
      simp only [hv', Bool.false_eq_true, if_false, Nat.add_zero] at lift
      exact lift (ih (s.step c).1 (!(s.step c).2) (some c) prevV (offC + c.utf8Size) offV h2 (by simp [hv']))

/-- a prefix of given byte length is unique -/
theorem prefix_unique {X A B A' B' : Text} (h1 : X = A ++ B) (h2 : X = A' ++ B') (hl : blen A = blen A') :
    A = A' := (split_unique (h1.symm.trans h2) hl).1

/-- **splitting a coloured word and the visible word at corresponding points gives related
    pieces** -/
theorem splitOK_colour (cw : Char → Nat) (w w' : Word) (hw : stripW w = w')
    (hrun : Ansi.run .normal w.word = .normal) (hws : ∀ c ∈ w.ws, c = SP)
    (preC preV : Text) (ptsC ptsV : List Nat) (psC psV : List Word)
    (hpts : AllRel (PtRel w.word .normal 0 0) ptsC ptsV)
    (hC : SplitOK cw w preC ptsC psC) (hV : SplitOK cw w' preV ptsV psV)
    (hpre : stripAnsi preC = preV) (hprun : Ansi.run .normal preC = .normal) :
    AllRel (WR cw) psC psV := by
  have hword : w'.word = stripAnsi w.word := by rw [← hw]; rfl
  induction hpts generalizing preC preV psC psV with
  | nil =>
    match psC, psV, hC, hV with
    | [p], [p'], hC, hV =>
      obtain ⟨c1, c2, c3, c4⟩ := hC
      obtain ⟨v1, v2, v3, v4⟩ := hV
      refine AllRel.cons ?_ AllRel.nil
      have hpw : Ansi.run .normal p.word = .normal := by
        rw [← c4, run_append, hprun] at hrun; exact hrun
      have hsw : stripAnsi p.word = p'.word := by
        have : stripAnsi (preC ++ p.word) = preV ++ p'.word := by rw [c4, v4, hword]
        rw [strip_append_normal _ _ hprun, hpre] at this
        exact List.append_cancel_left this
      refine ⟨?_, hpw, by rw [c1]; exact hws, c3⟩
      have e1 : p'.ws = p.ws := by rw [v1, c1, ← hw]; rfl
      have e2 : p'.pen = p.pen := by rw [v2, c2, ← hw]; rfl
      have e3 : p'.width = p.width := by rw [v3, c3, ← hsw, displayWidth_strip]
      cases p; cases p'; simp only [stripW] at *; simp_all
  | cons hab hrest ih =>
    rename_i pc pv ptsC' ptsV'
    match psC, psV, hC, hV with
    | p :: psC', p' :: psV', hC, hV =>
      obtain ⟨c1, c2, c3, c4, ⟨postC, c5⟩, c6⟩ := hC
      obtain ⟨v1, v2, v3, v4, ⟨postV, v5⟩, v6⟩ := hV
      obtain ⟨A, B, a1, a2, a3, a4, a5, a6⟩ := hab
      simp only [Nat.zero_add] at a2 a3
      -- the coloured prefix up to the cut is `A`, the visible one its strip
      have hA : preC ++ p.word = A := prefix_unique c5 a1 (by rw [c1, a2])
      have hSA : preV ++ p'.word = stripAnsi A := by
        have hV2 : w'.word = stripAnsi A ++ stripAnsi B := by
          rw [hword, a1, strip_append_normal _ _ a4]
        exact prefix_unique v5 hV2 (by rw [v1]; unfold stripAnsi; exact a3.symm)
      have hrunA : Ansi.run .normal (preC ++ p.word) = .normal := by rw [hA]; exact a4
      have hpw : Ansi.run .normal p.word = .normal := by rwa [run_append, hprun] at hrunA
      have hsw : stripAnsi p.word = p'.word := by
        have : stripAnsi (preC ++ p.word) = preV ++ p'.word := by rw [hA, hSA]
        rw [strip_append_normal _ _ hprun, hpre] at this
        exact List.append_cancel_left this
      refine AllRel.cons ?_ (ih (preC ++ p.word) (preV ++ p'.word) psC' psV' c6 v6 (by rw [hA, hSA]) hrunA)
      refine ⟨?_, hpw, by rw [c2]; simp, c3⟩
      have e2 : p'.pen = p.pen := by
        rw [v4, c4, hA, hSA, a5]
        unfold stripAnsi; rw [a6]
      have e3 : p'.width = p.width := by rw [v3, c3, ← hsw, displayWidth_strip]
      cases p; cases p'; simp only [stripW] at *; simp_all

/-- the hyphen stage: related words with untouched hyphens split into related pieces -/
theorem splitWords_colour_hyphen (env : Env) (ws ws' : List Word) (h : AllRel (WR env.cw) ws ws')
    (hnt : ∀ w ∈ ws, NoTouch .normal false w.word) (sw : List Word)
    (hs : splitWords env .hyphen ws = some sw) :
    ∃ sw', splitWords env .hyphen ws' = some sw' ∧ AllRel (WR env.cw) sw sw' := by
  induction h generalizing sw with
  | nil => simp [splitWords] at hs ⊢; subst hs; exact AllRel.nil
  | cons hab htl ih =>
    rename_i w w' r r'
    simp only [splitWords] at hs ⊢
    split at hs
    · next a b ha hb =>
      simp only [Option.some.injEq] at hs; subst hs
      obtain ⟨b', hb', hrel⟩ := ih (fun x hx => hnt x (by simp [hx])) b hb
      obtain ⟨e, hrun, hsp, _⟩ := hab
      have hword : w'.word = stripAnsi w.word := by rw [← e]; rfl
      -- the visible word splits, too
      have hbnd' : ∀ i ∈ hyphenPoints env.isAlnum w'.word, i < blen w'.word :=
        fun i hi => (hyphenPoints_boundary env.isAlnum w'.word i hi).choose_spec.choose_spec.2.2
      obtain ⟨a', ha'⟩ := splitOne_total env.cw w' (hyphenPoints env.isAlnum w'.word) 0 [] w'.word rfl rfl
        (fun i hi => by
          obtain ⟨x, y, h1, h2, _⟩ := hyphenPoints_boundary env.isAlnum w'.word i hi
          exact ⟨x, y, h1, h2⟩)
        (List.pairwise_cons.mpr ⟨fun _ _ => Nat.zero_le _,
          (hyphenPointsGo_sorted env.isAlnum none 0 w'.word).imp (fun h => Nat.le_of_lt h)⟩)
      simp only [Splitter.points] at ha ha' ⊢
      rw [ha', hb']
      refine ⟨_, rfl, AllRel.append ?_ hrel⟩
      have hokC := splitOne_ok env.cw w _ 0 [] w.word rfl rfl
        (fun i hi => (hyphenPoints_boundary env.isAlnum w.word i hi).choose_spec.choose_spec.2.2) (Or.inr rfl) a ha
      have hokV := splitOne_ok env.cw w' _ 0 [] w'.word rfl rfl hbnd' (Or.inr rfl) a' ha'
      have hpts := hyphenPoints_colour env.isAlnum w.word .normal false none none 0 0 (hnt w (by simp)) (fun _ => rfl)
      have hpts' : AllRel (PtRel w.word .normal 0 0) (hyphenPoints env.isAlnum w.word)
          (hyphenPoints env.isAlnum w'.word) := by
        unfold hyphenPoints; rw [hword]; exact hpts
      exact splitOK_colour env.cw w w' e hrun hsp [] [] _ _ a a' hpts' hokC hokV (by simp [stripAnsi, stripFrom]) rfl
    · simp at hs

/-! ### every word of a coloured text inherits `NoTouch` -/

theorem lastInvis_snoc (s : Ansi) (pin : Bool) (a : Text) (c : Char) :
    lastInvis s pin (a ++ [c]) = !((s.run a).step c).2 := by
  induction a generalizing s pin with
  | nil => simp [lastInvis, Ansi.run]
  | cons d ds ih => simp [lastInvis, Ansi.run, ih]

theorem LastVis.lastInvis {t : Text} (h : LastVis .normal t) : lastInvis .normal false t = false := by
  obtain ⟨t', d, rfl, hv⟩ := h
  rw [lastInvis_snoc, hv]; rfl

/-- pieces that are cut directly after visible characters each satisfy `NoTouch` from the start -/
theorem pieces_notouch (P : List Text)
    (hb : ∀ pre p post, P = pre ++ p :: post → pre ≠ [] → LastVis .normal pre.flatten)
    (hnt : NoTouch .normal false P.flatten) : ∀ p ∈ P, NoTouch .normal false p := by
  intro p hp
  obtain ⟨pre, post, rfl⟩ := List.append_of_mem hp
  have hflat : (pre ++ p :: post).flatten = pre.flatten ++ (p ++ post.flatten) := by simp
  rw [hflat] at hnt
  obtain ⟨_, h2⟩ := noTouch_append _ _ _ _ hnt
  by_cases hpre : pre = []
  · subst hpre
    simp only [List.flatten_nil, Ansi.run, lastInvis] at h2
    exact (noTouch_append _ _ _ _ h2).1
  · have hl := hb pre p post rfl hpre
    rw [hl.run_normal, hl.lastInvis] at h2
    exact (noTouch_append _ _ _ _ h2).1

theorem asciiCuts_lastVis (P : List Text) (hc : AsciiCuts P)
    (hm : MetNormal (fun c => c == SP) .normal P.flatten) :
    ∀ pre p post, P = pre ++ p :: post → pre ≠ [] → LastVis .normal pre.flatten := by
  intro pre p post hP hpre
  -- the last piece of `pre` ends in a space
  obtain ⟨pre', q, rfl⟩ : ∃ pre' q, pre = pre' ++ [q] :=
    ⟨pre.dropLast, pre.getLast hpre, (List.dropLast_concat_getLast hpre).symm⟩
  have hq : q.getLast? = some SP := by
    -- `q` is followed by `p` in the list of pieces
    have : ∀ (L : List Text), AsciiCuts L → ∀ a x y b, L = a ++ x :: y :: b → x.getLast? = some SP := by
      intro L
      induction L with
      | nil => intro _ a x y b h; simp at h
      | cons l r ih =>
        intro hL a x y b h
        cases a with
        | nil =>
          simp only [List.nil_append, List.cons.injEq] at h
          obtain ⟨rfl, rfl⟩ := h
          exact hL.2.1
        | cons a0 a' =>
          simp only [List.cons_append, List.cons.injEq] at h
          obtain ⟨rfl, h⟩ := h
          cases r with
          | nil => simp at h
          | cons r0 r' => exact ih hL.2.2.2 a' x y b h
    exact this P hc pre' q p post (by rw [hP]; simp)
  obtain ⟨q', rfl⟩ := List.getLast?_eq_some_iff.mp hq
  refine ⟨pre'.flatten ++ q', SP, by simp, ?_⟩
  -- the space is met in state `normal`
  have hflat : P.flatten = (pre'.flatten ++ q') ++ (SP :: (p ++ post.flatten)) := by rw [hP]; simp
  rw [hflat, metNormal_append] at hm
  have := hm.2.1 (by simp)
  rw [this]; simp [Ansi.step, ESC, SP]

/-- the words of a coloured text satisfy `NoTouch` (both separators) -/
theorem findWords_notouch (env : Env) (sep : Sep) (text : Text)
    (hm : MetNormal (fun c => c == SP) .normal text)
    (hnt : NoTouch .normal false text)
    (hinc : (env.opps (stripAnsi text)).Pairwise (· < ·)) (hpos : ∀ o ∈ env.opps (stripAnsi text), 0 < o)
    (fw : List Word) (h : findWords env sep text = some fw) : ∀ w ∈ fw, NoTouch .normal false w.word := by
  have hword : ∀ p, NoTouch .normal false p → NoTouch .normal false (Word.from env.cw p).word := by
    intro p hp
    have := Word.from_lossless env.cw p
    rw [← this] at hp
    exact (noTouch_append _ _ _ _ hp).1
  cases sep with
  | ascii =>
    simp only [findWords, Option.some.injEq] at h; subst h
    intro w hw
    unfold findWordsAscii at hw
    obtain ⟨p, hp, rfl⟩ := List.mem_map.mp hw
    have hflat := asciiGo_flatten [] false text
    simp only [List.nil_append] at hflat
    have hcuts := asciiGo_cuts [] false text (by simp) (by simp [noBreakInside])
    exact hword p (pieces_notouch _ (asciiCuts_lastVis _ hcuts (by rw [hflat]; exact hm)) (by rw [hflat]; exact hnt) p hp)
  | unicode =>
    simp only [findWords] at h
    unfold findWordsUnicode at h
    simp only at h
    split at h
    · next os hos =>
      simp only [Option.some.injEq] at h; subst h
      intro w hw
      obtain ⟨p, hp, rfl⟩ := List.mem_map.mp hw
      have hflat := uniGo_flatten .normal 0 [] os text
      simp only [List.nil_append] at hflat
      obtain ⟨q, hq⟩ := filterOpps_filter _ _ _ (by unfold usedOpps at hos; exact hos)
      have hsorted : os.Pairwise (· < ·) := by rw [hq]; exact (hinc.filter _).filter _
      have hposos : ∀ o ∈ os, 0 < o := by
        intro o ho; rw [hq] at ho
        exact hpos o (List.mem_filter.mp (List.mem_filter.mp ho).1).1
      have hfe : ∀ pre p post, uniGo .normal 0 [] os text = pre ++ p :: post → pre ≠ [] →
          LastVis .normal pre.flatten := by
        intro pre p post hsplit hpre
        apply uniGo_first_entry .normal .normal 0 [] os text rfl hsorted _ pre p post hsplit hpre
        intro o ho
        have : o ∈ os := by
          cases os with
          | nil => simp at ho
          | cons x xs => simp at ho; subst ho; simp
        exact Or.inl (hposos o this)
      exact hword p (pieces_notouch _ hfe (by rw [hflat]; exact hnt) p hp)
    · simp at h

/-- the driver's executable form decides `NoTouch` -/
theorem noTouchB_iff (s : Ansi) (pin : Bool) (t : Text) : noTouchB s pin t = true ↔ NoTouch s pin t := by
  induction t generalizing s pin with
  | nil => simp [noTouchB, NoTouch]
  | cons c cs ih =>
    unfold noTouchB NoTouch HY ESC
    rw [Bool.and_eq_true, ih]
    constructor
    · rintro ⟨h1, h2⟩
      refine ⟨fun hc => ?_, h2⟩
      subst hc
      simp only [bne_self_eq_false, Bool.false_or, Bool.and_eq_true, beq_iff_eq, Bool.not_eq_true',
        bne_iff_ne, ne_eq] at h1
      exact ⟨h1.1.1, h1.1.2, h1.2⟩
    · rintro ⟨h1, h2⟩
      refine ⟨?_, h2⟩
      by_cases hc : c = '-'
      · obtain ⟨a1, a2, a3⟩ := h1 hc
        subst hc
        simp [a1, a2]
        exact a3
      · simp [hc]

end TW

/-
  Coloured text as blocks: every visible character preceded by a (possibly empty) run of
  space-free escape sequences, plus a trailing run. The words found in the coloured text, with
  the sequences stripped, are the words found in the visible text — provided every sequence run
  is attached to a non-space character (ASCII separator; this file).
-/
import Lemmas.StripStages
import Lemmas.FillShape
import Lemmas.HNormPipeline
import TextwrapModel.Colour
namespace TW

open TW.C13

/-- a run of escape sequences: invisible, back in state `normal`, and without a space -/
def SeqRun (P : Text) : Prop := SP ∉ P ∧ stripFrom .normal P = [] ∧ Ansi.run .normal P = .normal

def ValidB (bs : List Block) (tl : Text) : Prop := (∀ b ∈ bs, SeqRun b.1 ∧ b.2 ≠ ESC) ∧ SeqRun tl

/-- every non-empty sequence run touches a non-space character: the visible character after it,
    or the visible character before it (`prev`) -/
def Attached : Option Char → List Block → Text → Prop
  | prev, [], tl => tl = [] ∨ ∃ c, prev = some c ∧ c ≠ SP
  | prev, b :: r, tl => (b.1 = [] ∨ b.2 ≠ SP ∨ ∃ c, prev = some c ∧ c ≠ SP) ∧ Attached (some b.2) r tl

@[simp] theorem colOf_nil (tl : Text) : colOf [] tl = tl := by simp [colOf]
@[simp] theorem colOf_cons (b : Block) (r : List Block) (tl : Text) :
    colOf (b :: r) tl = b.1 ++ b.2 :: colOf r tl := by simp [colOf]
@[simp] theorem visOf_nil : visOf [] = [] := rfl
@[simp] theorem visOf_cons (b : Block) (r : List Block) : visOf (b :: r) = b.2 :: visOf r := rfl

theorem SeqRun.nil : SeqRun [] := ⟨by simp, rfl, rfl⟩

theorem strip_seq_char (P : Text) (c : Char) (rest : Text) (hP : SeqRun P) (hc : c ≠ ESC) :
    stripAnsi (P ++ c :: rest) = c :: stripAnsi rest := by
  unfold stripAnsi
  rw [stripFrom_append, hP.2.1, hP.2.2]
  simp [stripFrom, Ansi.step, hc]

theorem run_seq_char (P : Text) (c : Char) (hP : SeqRun P) (hc : c ≠ ESC) :
    Ansi.run .normal (P ++ [c]) = .normal := by
  rw [run_append, hP.2.2]; simp [Ansi.run, Ansi.step, hc]

theorem strip_colOf (bs : List Block) (tl : Text) (hv : ValidB bs tl) : stripAnsi (colOf bs tl) = visOf bs := by
  induction bs with
  | nil => simpa [stripAnsi] using hv.2.2.1
  | cons b r ih =>
    rw [colOf_cons, strip_seq_char _ _ _ (hv.1 b (by simp)).1 (hv.1 b (by simp)).2,
      ih ⟨fun x hx => hv.1 x (by simp [hx]), hv.2⟩]
    rfl

theorem run_colOf (bs : List Block) (tl : Text) (hv : ValidB bs tl) : Ansi.run .normal (colOf bs tl) = .normal := by
  induction bs with
  | nil => simpa using hv.2.2.2
  | cons b r ih =>
    have hb := hv.1 b (by simp)
    rw [colOf_cons, show b.1 ++ b.2 :: colOf r tl = (b.1 ++ [b.2]) ++ colOf r tl by simp, run_append,
      run_seq_char _ _ hb.1 hb.2]
    exact ih ⟨fun x hx => hv.1 x (by simp [hx]), hv.2⟩

/-! ### the trailing-space invariant of a piece under construction -/

/-- `curC` (coloured) and `curV` (visible) are the same piece: a body `X` whose strip is the
    visible body, followed by the same spaces; neither body ends in a space -/
def TR (curC curV : Text) : Prop :=
  ∃ X sp, curC = X ++ sp ∧ curV = stripAnsi X ++ sp ∧ (∀ c ∈ sp, c = SP) ∧
    Ansi.run .normal X = .normal ∧ X.getLast? ≠ some SP ∧ (stripAnsi X).getLast? ≠ some SP

theorem TR.nil : TR [] [] :=
  ⟨[], [], rfl, by simp [stripAnsi, stripFrom], by simp, rfl, by simp, by simp [stripAnsi, stripFrom]⟩

theorem run_spaces (sp : Text) (h : ∀ c ∈ sp, c = SP) : Ansi.run .normal sp = .normal :=
  run_normal_escfree sp (fun c hc => by rw [h c hc]; decide)

theorem strip_spaces (sp : Text) (h : ∀ c ∈ sp, c = SP) : stripAnsi sp = sp :=
  stripFrom_normal_escfree sp (fun c hc => by rw [h c hc]; decide)

theorem strip_body_spaces (X sp : Text) (hX : Ansi.run .normal X = .normal) (h : ∀ c ∈ sp, c = SP) :
    stripAnsi (X ++ sp) = stripAnsi X ++ sp := by
  rw [strip_append_normal X sp hX, strip_spaces sp h]

/-- the relation between a coloured word and the word of the visible text -/
def WR (cw : Char → Nat) (w w' : Word) : Prop :=
  stripW w = w' ∧ Ansi.run .normal w.word = .normal ∧ (∀ c ∈ w.ws, c = SP) ∧
    w.width = displayWidth cw w.word

/-- a finished piece yields related words -/
theorem TR.word (cw : Char → Nat) {pc pv : Text} (h : TR pc pv) :
    WR cw (Word.from cw pc) (Word.from cw pv) := by
  obtain ⟨X, sp, e1, e2, hsp, hrun, hx1, hx2⟩ := h
  have t1 : trimEndSp pc = X := by
    rw [e1, trimEndSp_append_spaces' X sp hsp, trimEndSp_id' X hx1]
  have t2 : trimEndSp pv = stripAnsi X := by
    rw [e2, trimEndSp_append_spaces' _ sp hsp, trimEndSp_id' _ hx2]
  have d1 : pc.drop X.length = sp := by rw [e1]; simp
  have d2 : pv.drop (stripAnsi X).length = sp := by rw [e2]; simp
  refine ⟨?_, ?_, ?_, ?_⟩
  · simp only [stripW, Word.from, t1, t2, d1, d2, displayWidth_strip]
  · simp only [Word.from, t1]; exact hrun
  · simp only [Word.from, t1, d1]; exact hsp
  · simp [Word.from]

/-- spaces at the end of the visible piece: its last character is a space -/
theorem TR.sp_nil {curC curV : Text} {X sp : Text} (e2 : curV = stripAnsi X ++ sp) (hsp : ∀ c ∈ sp, c = SP)
    (hprev : ∃ d, curV.getLast? = some d ∧ d ≠ SP) : sp = [] := by
  cases hs : sp.getLast? with
  | none => exact List.getLast?_eq_none_iff.mp hs
  | some y =>
    exfalso
    obtain ⟨d, hd1, hd2⟩ := hprev
    have hne : sp ≠ [] := by intro h; subst h; simp at hs
    rw [e2, getLast?_append_of_ne_nil _ _ hne, hs] at hd1
    simp only [Option.some.injEq] at hd1; subst hd1
    exact hd2 (hsp y (List.mem_of_getLast? hs))

/-- appending a block to a piece under construction -/
theorem TR.block {curC curV : Text} (h : TR curC curV) (P : Text) (c : Char)
    (hP : SeqRun P) (hc : c ≠ ESC)
    (hatt : P = [] ∨ c ≠ SP ∨ ∃ d, curV.getLast? = some d ∧ d ≠ SP) :
    TR (curC ++ P ++ [c]) (curV ++ [c]) := by
  obtain ⟨X, sp, e1, e2, hsp, hrun, hx1, hx2⟩ := h
  by_cases hcs : c = SP
  · subst hcs
    by_cases hPe : P = []
    · subst hPe
      refine ⟨X, sp ++ [SP], by simp [e1], by simp [e2], ?_, hrun, hx1, hx2⟩
      intro d hd; rcases List.mem_append.mp hd with hd | hd
      · exact hsp d hd
      · simpa using hd
    · -- a sequence run directly before a space: it must be attached to the left
      have hprev : ∃ d, curV.getLast? = some d ∧ d ≠ SP := by
        rcases hatt with h | h | h
        · exact absurd h hPe
        · exact absurd rfl h
        · exact h
      have hsp0 : sp = [] := TR.sp_nil (curC := curC) e2 hsp hprev
      subst hsp0
      simp only [List.append_nil] at e1 e2
      have hrunXP : Ansi.run .normal (X ++ P) = .normal := by rw [run_append, hrun, hP.2.2]
      have hstrip : stripAnsi (X ++ P) = stripAnsi X := by
        rw [strip_append_normal X P hrun]
        unfold stripAnsi; rw [hP.2.1]; simp
      refine ⟨X ++ P, [SP], by simp [e1], by rw [hstrip, e2], by simp, hrunXP, ?_, by rw [hstrip]; exact hx2⟩
      rw [getLast?_append_of_ne_nil _ _ hPe]
      exact fun hl => hP.1 (List.mem_of_getLast? hl)
  · -- a non-space character: everything so far is body
    have hrunP : Ansi.run .normal (X ++ sp ++ P ++ [c]) = .normal := by
      rw [run_append, run_append, run_append, hrun, run_spaces sp hsp, hP.2.2]
      simp [Ansi.run, Ansi.step, hc]
    have hstrip : stripAnsi (X ++ sp ++ P ++ [c]) = stripAnsi X ++ sp ++ [c] := by
      have h1 : Ansi.run .normal (X ++ sp) = .normal := by rw [run_append, hrun, run_spaces sp hsp]
      rw [show X ++ sp ++ P ++ [c] = (X ++ sp) ++ (P ++ c :: []) by simp, strip_append_normal _ _ h1,
        strip_body_spaces X sp hrun hsp, strip_seq_char P c [] hP hc]
      simp [stripAnsi, stripFrom]
    refine ⟨curC ++ P ++ [c], [], by simp, ?_, by simp, ?_, ?_, ?_⟩
    · rw [e1, hstrip, e2]; simp
    · rw [e1]; exact hrunP
    · rw [getLast?_append_of_ne_nil _ _ (by simp)]; simpa using hcs
    · rw [e1, hstrip, getLast?_append_of_ne_nil _ _ (by simp)]; simpa using hcs

/-- a new piece that starts with a block -/
theorem TR.start (P : Text) (c : Char) (hP : SeqRun P) (hc : c ≠ ESC) (hatt : P = [] ∨ c ≠ SP) :
    TR (P ++ [c]) [c] := by
  have := TR.block TR.nil P c hP hc (by rcases hatt with h | h; exact Or.inl h; exact Or.inr (Or.inl h))
  simpa using this

/-- appending the trailing run at the end of the text -/
theorem TR.tail {curC curV : Text} (h : TR curC curV) (tl : Text)
    (hT : SeqRun tl) (hatt : tl = [] ∨ ∃ d, curV.getLast? = some d ∧ d ≠ SP) : TR (curC ++ tl) curV := by
  by_cases hte : tl = []
  · subst hte; simpa using h
  · obtain ⟨X, sp, e1, e2, hsp, hrun, hx1, hx2⟩ := h
    have hprev : ∃ d, curV.getLast? = some d ∧ d ≠ SP := by
      rcases hatt with h | h
      · exact absurd h hte
      · exact h
    have hsp0 : sp = [] := TR.sp_nil (curC := curC) e2 hsp hprev
    subst hsp0
    simp only [List.append_nil] at e1 e2
    have hstrip : stripAnsi (X ++ tl) = stripAnsi X := by
      rw [strip_append_normal X tl hrun]
      unfold stripAnsi; rw [hT.2.1]; simp
    refine ⟨X ++ tl, [], by simp [e1], by rw [hstrip]; simpa using e2, by simp,
      by rw [run_append, hrun, hT.2.2], ?_, by rw [hstrip]; exact hx2⟩
    rw [getLast?_append_of_ne_nil _ _ hte]
    exact fun hl => hT.1 (List.mem_of_getLast? hl)

/-! ### pointwise related lists -/

inductive AllRel {α β : Type} (R : α → β → Prop) : List α → List β → Prop
  | nil : AllRel R [] []
  | cons {a b as bs} : R a b → AllRel R as bs → AllRel R (a :: as) (b :: bs)

theorem AllRel.append {α β : Type} {R : α → β → Prop} {a1 a2 : List α} {b1 b2 : List β}
    (h1 : AllRel R a1 b1) (h2 : AllRel R a2 b2) : AllRel R (a1 ++ a2) (b1 ++ b2) := by
  induction h1 with
  | nil => exact h2
  | cons h _ ih => exact AllRel.cons h ih

theorem AllRel.length {α β : Type} {R : α → β → Prop} {as : List α} {bs : List β} (h : AllRel R as bs) :
    as.length = bs.length := by
  induction h with
  | nil => rfl
  | cons _ _ ih => simp [ih]

theorem AllRel.map {α β γ δ : Type} {R : α → β → Prop} {S : γ → δ → Prop} (f : α → γ) (g : β → δ)
    (hfg : ∀ a b, R a b → S (f a) (g b)) {as : List α} {bs : List β} (h : AllRel R as bs) :
    AllRel S (as.map f) (bs.map g) := by
  induction h with
  | nil => exact AllRel.nil
  | cons h _ ih => exact AllRel.cons (hfg _ _ h) ih

/-! ### the ASCII separator, block by block -/

theorem asciiGo_nonsp (cur : Text) (w : Bool) (Q rest : Text) (hQ : SP ∉ Q) (hne : Q ≠ []) :
    asciiGo cur w (Q ++ rest) =
      if w then cur :: asciiGo Q false rest else asciiGo (cur ++ Q) false rest := by
  cases w with
  | false => simpa using asciiGo_word cur Q rest hQ
  | true =>
    cases Q with
    | nil => exact absurd rfl hne
    | cons q Q' =>
      have hq : q ≠ SP := fun e => hQ (by simp [e])
      have hqb : (q != SP) = true := by simpa using hq
      have hQ' : SP ∉ Q' := fun e => hQ (by simp [e])
      simp only [List.cons_append, asciiGo, Bool.true_and, hqb, if_true]
      have := asciiGo_word [q] Q' rest hQ'
      simpa using congrArg (cur :: ·) this

/-- **ASCII separator: the pieces of the coloured text correspond one to one to the pieces of the
    visible text.** `prev` (the last visible character) is the last character of `curV`. -/
theorem asciiGo_blocks (bs : List Block) (tl : Text) (hv : ValidB bs tl)
    (curC curV : Text) (w : Bool) (hw : w = (curV.getLast? == some SP))
    (hcur : curV = [] → curC = [])
    (htr : TR curC curV) (hatt : Attached curV.getLast? bs tl) :
    AllRel TR (asciiGo curC w (colOf bs tl)) (asciiGo curV w (visOf bs)) := by
  induction bs generalizing curC curV w with
  | nil =>
    simp only [colOf_nil, visOf_nil]
    have hfin := htr.tail tl hv.2 hatt
    have hvis : asciiGo curV w [] = if curV.isEmpty then [] else [curV] := by simp [asciiGo]
    rw [hvis]
    by_cases hcv : curV = []
    · -- nothing has been read: no trailing run can be attached
      have hcc := hcur hcv
      subst hcv; subst hcc
      have htl : tl = [] := by
        rcases hatt with h | ⟨d, hd, _⟩
        · exact h
        · simp at hd
      subst htl
      simp [asciiGo]; exact AllRel.nil
    · have c2 : curV.isEmpty = false := by cases curV <;> simp_all
      simp only [c2, Bool.false_eq_true, if_false]
      by_cases hte : tl = []
      · subst hte
        have hcc : curC ≠ [] := by
          intro h; subst h
          obtain ⟨X, sp, e1, e2, _⟩ := htr
          have : X = [] ∧ sp = [] := by simpa using e1.symm
          rw [this.1, this.2] at e2
          exact hcv (by simpa [stripAnsi, stripFrom] using e2)
        have c1 : curC.isEmpty = false := by cases curC <;> simp_all
        simp only [asciiGo, c1, Bool.false_eq_true, if_false]
        exact AllRel.cons (by simpa using hfin) AllRel.nil
      · have hprev : ∃ d, curV.getLast? = some d ∧ d ≠ SP := by
          rcases hatt with h | h
          · exact absurd h hte
          · exact h
        have hwf : w = false := by
          obtain ⟨d, hd1, hd2⟩ := hprev
          rw [hw, hd1]; simpa using hd2
        subst hwf
        have h1 := asciiGo_nonsp curC false tl [] hv.2.1 hte
        simp only [List.append_nil, Bool.false_eq_true, if_false] at h1
        rw [h1]
        have c1 : (curC ++ tl).isEmpty = false := by cases tl <;> simp_all
        simp only [asciiGo, c1, Bool.false_eq_true, if_false]
        exact AllRel.cons hfin AllRel.nil
  | cons b r ih =>
    obtain ⟨P, c⟩ := b
    obtain ⟨hb1, hb2⟩ := hv.1 (P, c) (by simp)
    have hv' : ValidB r tl := ⟨fun x hx => hv.1 x (by simp [hx]), hv.2⟩
    obtain ⟨ha1, ha2⟩ := hatt
    simp only at ha1 ha2 hb1 hb2
    simp only [colOf_cons, visOf_cons]
    have hlast : (curV ++ [c]).getLast? = some c := by simp
    -- the visible side reads `c`
    by_cases hcut : w = true ∧ c ≠ SP
    · -- a boundary: a space is followed by a non-space
      obtain ⟨hwt, hcs⟩ := hcut
      subst hwt
      have hcb : (c != SP) = true := by simpa using hcs
      have hvis : asciiGo curV true (c :: visOf r) = curV :: asciiGo [c] false (visOf r) := by
        simp [asciiGo, hcb]
      have hcol : asciiGo curC true (P ++ c :: colOf r tl) = curC :: asciiGo (P ++ [c]) false (colOf r tl) := by
        by_cases hPe : P = []
        · subst hPe; simp [asciiGo, hcb]
        · have := asciiGo_nonsp curC true P (c :: colOf r tl) hb1.1 hPe
          simp only [if_true] at this
          rw [this]
          have h2 := asciiGo_word P [c] (colOf r tl) (by simpa using fun e : SP = c => hcs e.symm)
          simpa using congrArg (curC :: ·) h2
      rw [hvis, hcol]
      refine AllRel.cons htr ?_
      apply ih hv' (P ++ [c]) [c] false
      · simp; exact hcs
      · intro h; simp at h
      · exact TR.start P c hb1 hb2 (Or.inr hcs)
      · simpa using ha2
    · -- no boundary on the visible side
      have hvis : asciiGo curV w (c :: visOf r) = asciiGo (curV ++ [c]) (c == SP) (visOf r) := by
        have : (w && c != SP) = false := by
          cases w with
          | false => rfl
          | true =>
            have : c = SP := by
              cases hcq : decide (c = SP) with
              | true => exact of_decide_eq_true hcq
              | false => exact absurd ⟨rfl, of_decide_eq_false hcq⟩ hcut
            simp [this]
        simp [asciiGo, this]
      -- nor on the coloured side: a sequence run after a space is followed by a non-space
      have hcol : asciiGo curC w (P ++ c :: colOf r tl) = asciiGo (curC ++ P ++ [c]) (c == SP) (colOf r tl) := by
        by_cases hPe : P = []
        · subst hPe
          have : (w && c != SP) = false := by
            cases w with
            | false => rfl
            | true =>
              have : c = SP := by
                cases hcq : decide (c = SP) with
                | true => exact of_decide_eq_true hcq
                | false => exact absurd ⟨rfl, of_decide_eq_false hcq⟩ hcut
              simp [this]
          simp [asciiGo, this]
        · have hwf : w = false := by
            cases w with
            | false => rfl
            | true =>
              -- `w` and `P ≠ []` force `c ≠ SP` by attachment, which is the boundary case
              exfalso
              have hsp : curV.getLast? = some SP := by
                have := hw.symm; simpa using this
              rcases ha1 with h | h | ⟨d, hd1, hd2⟩
              · exact hPe h
              · exact hcut ⟨rfl, h⟩
              · rw [hsp] at hd1; simp at hd1; exact hd2 hd1.symm
          subst hwf
          have := asciiGo_nonsp curC false P (c :: colOf r tl) hb1.1 hPe
          simp only [Bool.false_eq_true, if_false] at this
          rw [this]
          simp [asciiGo]
      rw [hvis, hcol]
      apply ih hv' (curC ++ P ++ [c]) (curV ++ [c]) (c == SP)
      · rw [hlast]; simp
      · intro h; simp at h
      · exact htr.block P c hb1 hb2 ha1
      · rw [hlast]; exact ha2

/-- **the words of the coloured text are, sequence for sequence, the words of the visible
    text** (ASCII separator) -/
theorem findWordsAscii_colour (cw : Char → Nat) (bs : List Block) (tl : Text) (hv : ValidB bs tl)
    (hatt : Attached none bs tl) :
    AllRel (WR cw) (findWordsAscii cw (colOf bs tl)) (findWordsAscii cw (visOf bs)) := by
  unfold findWordsAscii
  apply AllRel.map _ _ (fun a b h => TR.word cw h)
  exact asciiGo_blocks bs tl hv [] [] false (by simp) (fun _ => rfl) TR.nil (by simpa using hatt)

/-! ### the executable forms used by the driver -/

theorem seqRunB_iff (P : Text) : seqRunB P = true ↔ SeqRun P := by
  unfold seqRunB SeqRun SP
  simp only [Bool.and_eq_true, Bool.not_eq_true', beq_iff_eq, List.isEmpty_iff]
  constructor
  · rintro ⟨⟨h1, h2⟩, h3⟩
    refine ⟨?_, h2, h3⟩
    intro hm
    have : P.contains ' ' = true := by simpa using hm
    rw [h1] at this; cases this
  · rintro ⟨h1, h2, h3⟩
    refine ⟨⟨?_, h2⟩, h3⟩
    cases hc : P.contains ' ' with
    | false => rfl
    | true => exact absurd (by simpa using hc) h1

theorem validBB_iff (bs : List Block) (tl : Text) : validBB bs tl = true ↔ ValidB bs tl := by
  unfold validBB ValidB
  simp only [Bool.and_eq_true, List.all_eq_true, seqRunB_iff, bne_iff_ne, ne_eq]
  rfl

theorem attachedB_iff (prev : Option Char) (bs : List Block) (tl : Text) :
    attachedB prev bs tl = true ↔ Attached prev bs tl := by
  induction bs generalizing prev with
  | nil =>
    unfold attachedB Attached SP
    cases prev <;> simp
  | cons b r ih =>
    unfold attachedB Attached SP
    simp only [Bool.and_eq_true, ih]
    cases prev <;> simp [or_assoc]

end TW

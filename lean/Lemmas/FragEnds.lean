/-
  Every fragment of the ASCII pipeline with a built-in splitter has a space-free word, and an
  empty word only at the very beginning. Hence no slice of any group ends in a space.
-/
import Lemmas.PipelineFacts
namespace TW

/-- strong refinement of a word `w` by fragments `fs`: the words of the fragments concatenate
    to `w.word`, all fragments but the last have no whitespace and a non-empty word, the last
    carries `w`'s whitespace and has a non-empty word if `w` has -/
def RefinesS (w : Word) (fs : List Word) : Prop :=
  ∃ pre l, fs = pre ++ [l] ∧ l.ws = w.ws ∧ (pre.map (·.word)).flatten ++ l.word = w.word ∧
    (∀ f ∈ pre, f.ws = [] ∧ f.word ≠ []) ∧ (w.word ≠ [] → l.word ≠ [])

inductive RefinesAllS : List Word → List Word → Prop
  | nil : RefinesAllS [] []
  | cons {w ws fs rest} : RefinesS w fs → RefinesAllS ws rest → RefinesAllS (w :: ws) (fs ++ rest)

theorem RefinesS.refl (w : Word) : RefinesS w [w] := ⟨[], w, rfl, rfl, by simp, by simp, fun h => h⟩

theorem RefinesS.words {w : Word} {fs : List Word} (h : RefinesS w fs) : (fs.map (·.word)).flatten = w.word := by
  obtain ⟨pre, l, rfl, _, h3, _, _⟩ := h
  simpa using h3

theorem RefinesS.ne_nil {w : Word} {fs : List Word} (h : RefinesS w fs) : fs ≠ [] := by
  obtain ⟨pre, l, rfl, _⟩ := h; simp

/-- all fragments of a strong refinement of a non-empty word have non-empty words -/
theorem RefinesS.all_ne {w : Word} {fs : List Word} (h : RefinesS w fs) (hw : w.word ≠ []) :
    ∀ f ∈ fs, f.word ≠ [] := by
  obtain ⟨pre, l, rfl, _, _, h4, h5⟩ := h
  intro f hf
  rcases List.mem_append.mp hf with hf | hf
  · exact (h4 f hf).2
  · simp only [List.mem_singleton] at hf; subst hf; exact h5 hw

theorem RefinesAllS.append {a b fa fb : List Word} (ha : RefinesAllS a fa) (hb : RefinesAllS b fb) :
    RefinesAllS (a ++ b) (fa ++ fb) := by
  induction ha with
  | nil => simpa using hb
  | cons hf _ ih => rw [List.cons_append, List.append_assoc]; exact RefinesAllS.cons hf ih

theorem RefinesAllS.split {a b gs : List Word} (h : RefinesAllS (a ++ b) gs) :
    ∃ g1 g2, gs = g1 ++ g2 ∧ RefinesAllS a g1 ∧ RefinesAllS b g2 := by
  induction a generalizing gs with
  | nil => exact ⟨[], gs, rfl, RefinesAllS.nil, h⟩
  | cons x xs ih =>
    cases h with
    | cons hf hr =>
      rename_i fs0 rest0
      obtain ⟨g1, g2, e, r1, r2⟩ := ih hr
      exact ⟨fs0 ++ g1, g2, by rw [e, List.append_assoc], RefinesAllS.cons hf r1, r2⟩

theorem RefinesAllS.words {ws fs : List Word} (h : RefinesAllS ws fs) :
    (fs.map (·.word)).flatten = (ws.map (·.word)).flatten := by
  induction h with
  | nil => rfl
  | cons hf _ ih => simp [hf.words, ih]

/-- refining the fragments of a list whose elements all have `ws = []` and non-empty words keeps
    that property -/
theorem refineAll_noWs {fs gs : List Word} (h : RefinesAllS fs gs)
    (hfs : ∀ f ∈ fs, f.ws = [] ∧ f.word ≠ []) : ∀ g ∈ gs, g.ws = [] ∧ g.word ≠ [] := by
  induction h with
  | nil => intro g hg; simp at hg
  | @cons w ws fs rest hf _ ih =>
    intro g hg
    rcases List.mem_append.mp hg with hg | hg
    · obtain ⟨hw1, hw2⟩ := hfs w (by simp)
      refine ⟨?_, hf.all_ne hw2 g hg⟩
      obtain ⟨pre, l, rfl, e2, _, e4, _⟩ := hf
      rcases List.mem_append.mp hg with hg | hg
      · exact (e4 g hg).1
      · simp only [List.mem_singleton] at hg; subst hg; rw [e2, hw1]
    · exact ih (fun x hx => hfs x (by simp [hx])) g hg

theorem RefinesS.trans {w : Word} {fs gs : List Word} (h : RefinesS w fs) (hg : RefinesAllS fs gs) :
    RefinesS w gs := by
  obtain ⟨pre, l, rfl, h2, h3, h4, h5⟩ := h
  obtain ⟨gpre, gl, e, r1, r2⟩ := hg.split
  cases r2 with
  | cons hf hr =>
    cases hr
    rename_i fsl
    obtain ⟨lp, ll, f1, f2, f3, f4, f5⟩ := hf
    simp only [List.append_nil] at e
    refine ⟨gpre ++ lp, ll, by rw [e, f1, List.append_assoc], by rw [f2, h2], ?_, ?_, fun hne => f5 (h5 hne)⟩
    · simp only [List.map_append, List.flatten_append, r1.words]
      rw [List.append_assoc, f3, h3]
    · intro f hf
      rcases List.mem_append.mp hf with hf | hf
      · exact refineAll_noWs r1 h4 f hf
      · exact f4 f hf

theorem RefinesAllS.trans {ws fs gs : List Word} (h1 : RefinesAllS ws fs) (h2 : RefinesAllS fs gs) :
    RefinesAllS ws gs := by
  induction h1 generalizing gs with
  | nil => cases h2; exact RefinesAllS.nil
  | cons hf _ ih =>
    obtain ⟨g1, g2, e, r1, r2⟩ := h2.split
    rw [e]
    exact RefinesAllS.cons (hf.trans r1) (ih r2)

/-! ### the stages -/

/-- pieces of the hyphen splitter are non-empty -/
theorem splitOK_refinesS (cw : Char → Nat) (w : Word) (pre : Text) (pts : List Nat) (ps : List Word)
    (h : SplitOK cw w pre pts ps) (hlt : ∀ i ∈ pts, i < blen w.word)
    (hinc : (blen pre :: pts).Pairwise (· < ·)) (hpre : blen pre < blen w.word ∨ pre = []) :
    ∃ fpre l, ps = fpre ++ [l] ∧ l.ws = w.ws ∧ pre ++ (fpre.map (·.word)).flatten ++ l.word = w.word ∧
      (∀ f ∈ fpre, f.ws = [] ∧ f.word ≠ []) ∧ (w.word ≠ [] → l.word ≠ []) := by
  induction pts generalizing pre ps with
  | nil =>
    match ps, h with
    | [p], h =>
      obtain ⟨h1, _, _, h4⟩ := h
      refine ⟨[], p, rfl, h1, by simpa using h4, by simp, ?_⟩
      intro hne hp
      rw [hp] at h4
      rcases hpre with hpre | hpre
      · simp at h4; rw [h4] at hpre; omega
      · subst hpre; simp at h4; exact hne h4
  | cons i pts ih =>
    match ps, h with
    | p :: ps, h =>
      obtain ⟨h1, h2, _, _, _, h6⟩ := h
      have hi := hlt i (by simp)
      have hlt' : blen pre < i := (List.pairwise_cons.mp hinc).1 i (by simp)
      have hpne : p.word ≠ [] := by
        intro he; rw [he] at h1; simp at h1; omega
      obtain ⟨fpre, l, e1, e2, e3, e4, e5⟩ := ih (pre ++ p.word) ps h6 (fun j hj => hlt j (by simp [hj]))
        (by rw [h1]; exact (List.pairwise_cons.mp hinc).2) (Or.inl (by omega))
      refine ⟨p :: fpre, l, by simp [e1], e2, by simpa [List.append_assoc] using e3, ?_, e5⟩
      intro f hf
      rcases List.mem_cons.mp hf with rfl | hf
      · exact ⟨h2, hpne⟩
      · exact e4 f hf

theorem splitWords_refinesS (env : Env) (sp : Splitter) (hb : Builtin sp) (ws sw : List Word)
    (h : splitWords env sp ws = some sw) : RefinesAllS ws sw := by
  induction ws generalizing sw with
  | nil => simp [splitWords] at h; subst h; exact RefinesAllS.nil
  | cons w rest ih =>
    simp only [splitWords] at h
    split at h
    · next a b ha hb' =>
      simp only [Option.some.injEq] at h; subst h
      refine RefinesAllS.cons ?_ (ih b hb')
      cases sp with
      | none =>
        simp only [Splitter.points, splitOne, or_true, if_true] at ha
        split at ha
        · next s hs =>
          simp only [Option.some.injEq] at ha; subst ha
          have : s = w.word := by
            have := sliceFrom?_append [] w.word
            simp only [List.nil_append, blen_nil] at this
            rw [this] at hs; simpa using hs.symm
          subst this
          exact ⟨[], _, rfl, rfl, by simp, by simp, fun h => h⟩
        · simp at ha
      | hyphen =>
        have hlt : ∀ i ∈ hyphenPoints env.isAlnum w.word, i < blen w.word :=
          fun i hi => (hyphenPoints_boundary env.isAlnum w.word i hi).choose_spec.choose_spec.2.2
        have hok := splitOne_ok env.cw w _ 0 [] w.word rfl rfl hlt (Or.inr rfl) a ha
        have hinc : (blen ([] : Text) :: hyphenPoints env.isAlnum w.word).Pairwise (· < ·) := by
          refine List.pairwise_cons.mpr ⟨?_, hyphenPointsGo_sorted env.isAlnum none 0 w.word⟩
          intro i hi
          obtain ⟨a', y, b', _, _, _, h4⟩ := (hyphenPointsGo_mem env.isAlnum none 0 w.word i).mp hi
          simp only [blen_nil]; omega
        obtain ⟨fpre, l, e1, e2, e3, e4, e5⟩ := splitOK_refinesS env.cw w [] _ a hok hlt hinc (Or.inr rfl)
        exact ⟨fpre, l, e1, e2, by simpa using e3, e4, e5⟩
      | custom f => exact absurd hb (by simp [Builtin])
    · simp at h

theorem breakOK_refinesS (cw : Char → Nat) (limit : Nat) (ws pen : Text) (ps : List Word) (hne : ps ≠ [])
    (h : BreakOK cw limit ws pen ps) :
    ∃ fpre l, ps = fpre ++ [l] ∧ l.ws = ws ∧ l.word ≠ [] ∧ (∀ f ∈ fpre, f.ws = [] ∧ f.word ≠ []) := by
  induction ps with
  | nil => exact absurd rfl hne
  | cons p rest ih =>
    cases rest with
    | nil =>
      obtain ⟨_, h2, _, h4, _⟩ := h
      exact ⟨[], p, rfl, h2, h4, by simp⟩
    | cons q r =>
      obtain ⟨_, h2, _, h4, _, _, _, _, h9⟩ := h
      obtain ⟨fpre, l, e1, e2, e3, e4⟩ := ih (by simp) h9
      refine ⟨p :: fpre, l, by simp [e1], e2, e3, ?_⟩
      intro f hf
      rcases List.mem_cons.mp hf with rfl | hf
      · exact ⟨h2, h4⟩
      · exact e4 f hf

theorem breakWords_refinesS (cw : Char → Nat) (limit : Nat) (ws : List Word) (hws : ∀ w ∈ ws, FragOk cw w) :
    RefinesAllS ws (breakWords cw limit ws) := by
  induction ws with
  | nil => exact RefinesAllS.nil
  | cons w rest ih =>
    simp only [breakWords]
    apply RefinesAllS.cons _ (ih (fun x hx => hws x (by simp [hx])))
    split
    · next hlt =>
      have hw := hws w (by simp)
      have hwne : w.word ≠ [] := dw_pos_ne_nil cw _ (by rw [← hw.2]; omega)
      have hok := breakGo_ok cw limit w.ws w.pen .normal [] 0 w.word rfl rfl (Or.inl (Nat.zero_le _))
      have hflat := breakGo_flatten cw limit w.ws w.pen .normal [] 0 w.word
      have hps : breakApart cw limit w ≠ [] := by
        intro he
        simp only [breakApart] at he
        rw [he] at hflat
        simp at hflat
        exact hwne hflat
      obtain ⟨fpre, l, e1, e2, e3, e4⟩ := breakOK_refinesS cw limit w.ws w.pen _ hps hok
      refine ⟨fpre, l, e1, e2, ?_, e4, fun _ => e3⟩
      simp only [breakApart] at e1
      rw [e1] at hflat
      simpa using hflat
    · exact RefinesS.refl w

/-! ### the invariant on the final fragment list -/

/-- every fragment's word is free of spaces, and a fragment with an empty word has only empty
    text before it -/
def FragEnds (frs : List Word) : Prop :=
  ∀ a l b, frs = a ++ l :: b → (∀ c ∈ l.word, c ≠ SP) ∧ (l.word = [] → wordsText a = [])

theorem mem_flatten_words {fs : List Word} {f : Word} (hf : f ∈ fs) (c : Char) (hc : c ∈ f.word) :
    c ∈ (fs.map (·.word)).flatten :=
  List.mem_flatten.mpr ⟨f.word, List.mem_map_of_mem hf, hc⟩

theorem refinesAllS_fragEnds (ws fs : List Word) (h : RefinesAllS ws fs)
    (hsp : ∀ w ∈ ws, ∀ c ∈ w.word, c ≠ SP)
    (hfirst : ∀ a w b, ws = a ++ w :: b → w.word = [] → a = []) : FragEnds fs := by
  intro a l b hfs
  -- locate the source word of `l`
  have key : ∀ (ws fs : List Word), RefinesAllS ws fs → ∀ a l b, fs = a ++ l :: b →
      ∃ wa w wb fa fl fb, ws = wa ++ w :: wb ∧ RefinesAllS wa fa ∧ RefinesS w (fl ++ l :: fb) ∧
        a = fa ++ fl := by
    intro ws fs h
    induction h with
    | nil => intro a l b h; simp at h
    | @cons w ws fs rest hf hr ih =>
      intro a l b hab
      by_cases hlen : a.length < fs.length
      · -- `l` lies in the fragments of the head word
        have : ∃ fb, fs = a ++ l :: fb := by
          have h1 := congrArg (List.take fs.length) hab
          rw [List.take_left'] at h1
          · have : (a ++ l :: b).take fs.length = a ++ (l :: b).take (fs.length - a.length) := by
              rw [List.take_append]; simp [List.take_of_length_le (Nat.le_of_lt hlen)]
            rw [this] at h1
            obtain ⟨k, hk⟩ : ∃ k, fs.length - a.length = k + 1 := ⟨fs.length - a.length - 1, by omega⟩
            rw [hk, List.take_succ_cons] at h1
            exact ⟨_, h1⟩
          · rfl
        obtain ⟨fb, hfb⟩ := this
        exact ⟨[], w, ws, [], a, fb, rfl, RefinesAllS.nil, by rw [← hfb]; exact hf, by simp⟩
      · -- `l` lies in the tail
        have hge : fs.length ≤ a.length := Nat.le_of_not_lt hlen
        obtain ⟨a', rfl⟩ : ∃ a', a = fs ++ a' := by
          refine ⟨a.drop fs.length, ?_⟩
          have h1 := congrArg (List.take fs.length) hab
          rw [List.take_left', List.take_append_of_le_length hge] at h1
          · conv => lhs; rw [← List.take_append_drop fs.length a]
            rw [← h1]
          · rfl
        rw [List.append_assoc] at hab
        have hrest := List.append_cancel_left hab
        obtain ⟨wa, w', wb, fa, fl, fb, e1, e2, e3, e4⟩ := ih a' l b hrest
        exact ⟨w :: wa, w', wb, fs ++ fa, fl, fb, by simp [e1], RefinesAllS.cons hf e2, e3, by simp [e4]⟩
  obtain ⟨wa, w, wb, fa, fl, fb, e1, e2, e3, e4⟩ := key ws fs h a l b hfs
  have hwsp := hsp w (by rw [e1]; simp)
  constructor
  · intro c hc
    apply hwsp
    rw [← e3.words]
    exact mem_flatten_words (by simp) c hc
  · intro hl
    -- a fragment with an empty word: the source word is empty, so it is the first one
    have hwe : w.word = [] := by
      by_cases hw : w.word = []
      · exact hw
      · exact absurd hl (e3.all_ne hw l (by simp))
    have hwa : wa = [] := hfirst wa w wb e1 hwe
    subst hwa
    cases e2
    -- nothing before `l` among the fragments of `w` either: their words concatenate to []
    obtain ⟨pre, l0, e5, _, e7, e8, _⟩ := e3
    rw [e4]; simp only [List.nil_append]
    -- every fragment in `fl` has a non-empty word unless it is the last one; but all words are empty
    have hall : ∀ f ∈ fl ++ l :: fb, f.word = [] := by
      intro f hf
      have : (((fl ++ l :: fb).map (·.word)).flatten) = [] := by
        rw [e5]; simp only [List.map_append, List.flatten_append, List.map_cons, List.map_nil,
          List.flatten_cons, List.flatten_nil, List.append_nil]; rw [e7, hwe]
      have hm := List.flatten_eq_nil_iff.mp this f.word (List.mem_map_of_mem hf)
      exact hm
    -- fragments before the last have non-empty words, so `fl = []`
    cases fl with
    | nil => rfl
    | cons x xs =>
      exfalso
      have hx : x ∈ pre := by
        have : (x :: xs ++ l :: fb) = pre ++ [l0] := e5
        have hlen : (x :: xs ++ l :: fb).length = (pre ++ [l0]).length := by rw [this]
        cases pre with
        | nil => simp at hlen
        | cons p ps => simp at this; simp [this.1]
      exact (e8 x hx).2 (hall x (by simp))

theorem fragEnds_cons_empty (s : Word) (fs : List Word) (hs : s.word = []) (hsw : s.ws = []) (h : FragEnds fs) :
    FragEnds (s :: fs) := by
  intro a l b hfr
  cases a with
  | nil =>
    simp only [List.nil_append, List.cons.injEq] at hfr
    obtain ⟨rfl, _⟩ := hfr
    simp [hs]
  | cons x xs =>
    simp only [List.cons_append, List.cons.injEq] at hfr
    obtain ⟨rfl, hfr⟩ := hfr
    obtain ⟨h1, h2⟩ := h xs l b hfr
    refine ⟨h1, fun hl => ?_⟩
    simp [wordsText_cons, hs, hsw, h2 hl]

/-- ASCII words are free of spaces and only the first can be empty -/
theorem ascii_words_nosp (cw : Char → Nat) (line : Text) :
    (∀ w ∈ findWordsAscii cw line, ∀ c ∈ w.word, c ≠ SP) ∧
    (∀ a w b, findWordsAscii cw line = a ++ w :: b → w.word = [] → a = []) := by
  have hcuts := asciiGo_cuts [] false line (by simp) (by simp [noBreakInside])
  constructor
  · intro w hw c hc
    unfold findWordsAscii at hw
    obtain ⟨p, hp, rfl⟩ := List.mem_map.mp hw
    -- the piece has no "space followed by non-space", and the trimmed piece does not end in a space
    have hnb : noBreakInside p = true := by
      clear hc
      revert hcuts
      generalize asciiGo [] false line = ps at hp
      intro hcuts
      induction ps with
      | nil => simp at hp
      | cons x xs ih =>
        cases xs with
        | nil => simp at hp; subst hp; simpa [AsciiCuts] using hcuts
        | cons y ys =>
          rcases List.mem_cons.mp hp with rfl | hp
          · exact hcuts.1
          · exact ih hp hcuts.2.2.2
    exact trimmed_nosp p hnb c hc
  · intro a w b h hw
    by_cases ha : a = []
    · exact ha
    · exfalso
      unfold findWordsAscii at h
      obtain ⟨l1, l2, e1, e2, e3⟩ := List.map_eq_append_iff.mp h
      cases l2 with
      | nil => simp at e3
      | cons p pb =>
        simp only [List.map_cons, List.cons.injEq] at e3
        have hl1 : l1 ≠ [] := by intro he; subst he; simp at e2; first | exact ha e2 | exact ha e2.symm
        -- p is a non-first piece: it starts with a non-space
        have : ∃ c cs, p = c :: cs ∧ c ≠ SP := by
          revert hcuts
          rw [e1]
          clear e1 h e2
          induction l1 with
          | nil => exact absurd rfl hl1
          | cons x xs ih =>
            intro hcuts
            cases xs with
            | nil => exact hcuts.2.2.1
            | cons y ys => exact ih (by simp) hcuts.2.2.2
        obtain ⟨c, cs, rfl, hc⟩ := this
        rw [← e3.1] at hw
        exact trimEndSp_ne_nil_of_head c cs hc hw
where
  trimmed_nosp (p : Text) (h : noBreakInside p = true) : ∀ c ∈ trimEndSp p, c ≠ SP := by
    induction p with
    | nil => simp [trimEndSp]
    | cons x xs ih =>
      rw [trimEndSp_cons]
      split
      · simp
      · next hne =>
        intro c hc
        have hxs : noBreakInside xs = true := by
          cases xs with
          | nil => rfl
          | cons y ys => simp only [noBreakInside, Bool.and_eq_true] at h; exact h.2
        rcases List.mem_cons.mp hc with rfl | hc
        · -- the head: if it were a space, everything after would be spaces, hence trimmed away
          intro hsp
          subst hsp
          have hall : ∀ d ∈ xs, d = SP := all_sp_after xs h
          have : trimEndSp xs = [] := trimEndSp_all_sp xs hall
          exact hne ⟨this, rfl⟩
        · exact ih hxs c hc
  all_sp_after (xs : Text) (h : noBreakInside (SP :: xs) = true) : ∀ d ∈ xs, d = SP := by
    induction xs with
    | nil => simp
    | cons y ys ih =>
      simp only [noBreakInside, Bool.and_eq_true, Bool.not_eq_true', Bool.and_eq_false_iff] at h
      have hy : y = SP := by
        rcases h.1 with h1 | h1
        · simp at h1
        · simpa using h1
      subst hy
      intro d hd
      rcases List.mem_cons.mp hd with rfl | hd
      · rfl
      · exact ih h.2 d hd
  trimEndSp_all_sp (xs : Text) (h : ∀ d ∈ xs, d = SP) : trimEndSp xs = [] := by
    induction xs with
    | nil => rfl
    | cons y ys ih =>
      rw [trimEndSp_cons, ih (fun d hd => h d (by simp [hd]))]
      simp [h y (by simp)]

/-- **ASCII separator, built-in splitter**: the pipeline's fragments satisfy `FragEnds` -/
theorem pipeline_fragEnds_ascii (env : Env) (o : Opts) (hsep : o.sep = .ascii) (hb : Builtin o.splitter)
    (line : Text) (sw : Nat) (ws : List Word) (h : pipeline env o line sw = some ws) : FragEnds ws := by
  unfold pipeline at h
  rw [hsep] at h
  simp only [findWords] at h
  obtain ⟨hsp, hfirst⟩ := ascii_words_nosp env.cw line
  have hfrag : ∀ w ∈ findWordsAscii env.cw line, FragOk env.cw w := by
    intro w hw; obtain ⟨t, _, rfl⟩ := List.mem_map.mp hw; exact from_fragOk _ t
  split at h
  · simp at h
  · next sp hspl =>
    have r1 := splitWords_refinesS env o.splitter hb _ sp hspl
    have s2 := (splitWords_text env o.splitter (builtin_inRange _ _ hb) _ sp hfrag hspl).2
    split at h
    · have r2 := breakWords_refinesS env.cw sw sp s2
      have hl := refinesAllS_fragEnds _ _ (r1.trans r2) hsp hfirst
      split at h
      · simp only [Option.some.injEq] at h; subst h; exact hl
      · simp only [Option.some.injEq] at h; subst h
        exact fragEnds_cons_empty _ _ (by simp [Word.from, trimEndSp]) (by simp [Word.from, trimEndSp]) hl
    · simp only [Option.some.injEq] at h; subst h
      exact refinesAllS_fragEnds _ _ r1 hsp hfirst

/-- under `FragEnds`, the slice of *any* group of a partition does not end in a space -/
theorem groupSlice_no_trailing_sp (frs : List Word) (hfe : FragEnds frs) (a g b : List Word)
    (h : frs = a ++ g ++ b) : (groupSlice g).getLast? ≠ some SP := by
  unfold groupSlice
  cases hl : g.getLast? with
  | none => simp
  | some last =>
    obtain ⟨ys, rfl⟩ := List.getLast?_eq_some_iff.mp hl
    simp only [List.dropLast_concat]
    obtain ⟨h1, h2⟩ := hfe (a ++ ys) last b (by rw [h]; simp)
    by_cases hw : last.word = []
    · have := h2 hw
      simp only [wordsText_append, List.append_eq_nil_iff] at this
      rw [hw, this.2]; simp
    · rw [getLast?_append_of_ne_nil _ _ hw]
      intro he
      exact h1 _ (List.mem_of_getLast? he) rfl

end TW

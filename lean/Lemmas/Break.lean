/-
  Lemmas about `Word::break_apart` and `break_words`.
-/
import TextwrapModel.Word
import Lemmas.Ansi
namespace TW

/-- number of visible characters of non-zero width, scanning from state `s` -/
def nzFrom (cw : Char → Nat) : Ansi → Text → Nat
  | _, [] => 0
  | s, c :: cs => (if (s.step c).2 && decide (0 < cw c) then 1 else 0) + nzFrom cw (s.step c).1 cs

theorem nzFrom_append (cw : Char → Nat) (s : Ansi) (a b : Text) :
    nzFrom cw s (a ++ b) = nzFrom cw s a + nzFrom cw (s.run a) b := by
  induction a generalizing s with
  | nil => simp [nzFrom, Ansi.run]
  | cons c cs ih => simp [nzFrom, Ansi.run, ih, Nat.add_assoc]

theorem dwFrom_zero_of_nz (cw : Char → Nat) (s : Ansi) (t : Text) (h : nzFrom cw s t = 0) :
    dwFrom cw s t = 0 := by
  induction t generalizing s with
  | nil => rfl
  | cons c cs ih =>
    simp only [nzFrom] at h
    simp only [dwFrom]
    have h2 := ih (s.step c).1 (by omega)
    rw [h2]
    by_cases hv : (s.step c).2 = true
    · simp only [hv, if_true, Nat.add_zero]
      by_cases hc : 0 < cw c
      · simp [hv, hc] at h
      · omega
    · simp [hv]

/-- the pieces `break_apart` yields, as a chain: every piece but the last ends in skipper state
    `normal`, has positive cached width, is followed by a piece whose first character is visible
    and would not have fitted; every piece is non-empty, caches its display width, and is within
    the limit unless it holds a single non-zero-width character; whitespace and penalty sit on
    the last piece only. -/
def BreakOK (cw : Char → Nat) (limit : Nat) (ws pen : Text) : List Word → Prop
  | [] => True
  | [p] => p.width = displayWidth cw p.word ∧ p.ws = ws ∧ p.pen = pen ∧ p.word ≠ [] ∧
      (p.width ≤ limit ∨ nzFrom cw .normal p.word = 1)
  | p :: q :: r =>
      p.width = displayWidth cw p.word ∧ p.ws = [] ∧ p.pen = [] ∧ p.word ≠ [] ∧
      (p.width ≤ limit ∨ nzFrom cw .normal p.word = 1) ∧
      Ansi.run .normal p.word = .normal ∧ 0 < p.width ∧
      (∃ c cs, q.word = c :: cs ∧ c ≠ ESC ∧ limit < p.width + cw c) ∧
      BreakOK cw limit ws pen (q :: r)

theorem breakGo_flatten (cw : Char → Nat) (limit : Nat) (ws pen : Text) (s : Ansi) (cur : Text)
    (w : Nat) (rest : Text) :
    ((breakGo cw limit ws pen s cur w rest).map (·.word)).flatten = cur ++ rest := by
  induction rest generalizing s cur w with
  | nil => simp only [breakGo]; split <;> simp_all
  | cons c cs ih =>
    simp only [breakGo]
    split
    · split <;> simp [ih]
    · simp [ih]

theorem breakGo_head (cw : Char → Nat) (limit : Nat) (ws pen : Text) (s : Ansi) (cur : Text)
    (w : Nat) (rest : Text) (h : cur ≠ [] ∨ rest ≠ []) :
    ∃ x p r, breakGo cw limit ws pen s cur w rest = p :: r ∧ p.word = cur ++ x := by
  induction rest generalizing s cur w with
  | nil =>
    rcases h with h | h
    · exact ⟨[], { word := cur, width := w, ws := ws, pen := pen }, [], by simp [breakGo, h], by simp⟩
    · exact absurd rfl h
  | cons c cs ih =>
    simp only [breakGo]
    split
    · split
      · exact ⟨[], { word := cur, width := w, ws := [], pen := [] }, _, rfl, by simp⟩
      · obtain ⟨x, p, r, h1, h2⟩ := ih (s.step c).1 (cur ++ [c]) (w + cw c) (Or.inl (by simp))
        exact ⟨c :: x, p, r, h1, by simp [h2]⟩
    · obtain ⟨x, p, r, h1, h2⟩ := ih (s.step c).1 (cur ++ [c]) w (Or.inl (by simp))
      exact ⟨c :: x, p, r, h1, by simp [h2]⟩

theorem breakGo_ok (cw : Char → Nat) (limit : Nat) (ws pen : Text) (s : Ansi) (cur : Text)
    (w : Nat) (rest : Text)
    (hs : s = Ansi.run .normal cur) (hw : w = dwFrom cw .normal cur)
    (hb : w ≤ limit ∨ nzFrom cw .normal cur = 1) :
    BreakOK cw limit ws pen (breakGo cw limit ws pen s cur w rest) := by
  induction rest generalizing s cur w with
  | nil =>
    simp only [breakGo]
    split
    · simp [BreakOK]
    · next h =>
      have : cur ≠ [] := by intro h2; simp [h2] at h
      exact ⟨by simp [displayWidth, hw], rfl, rfl, this, hb⟩
  | cons c cs ih =>
    have hrun : (s.step c).1 = Ansi.run .normal (cur ++ [c]) := by
      rw [run_append, ← hs]; simp [Ansi.run]
    simp only [breakGo]
    split
    · next hv =>
      have hsn : s = .normal := step_visible_normal s c hv
      have hcE : c ≠ ESC := by
        intro h; subst h; subst hsn; simp [Ansi.step] at hv
      split
      · next hcut =>
        -- a cut before the visible char c
        have hcur : cur ≠ [] := by
          intro h; subst h; simp [dwFrom] at hw; omega
        obtain ⟨x, p, r, h1, h2⟩ := breakGo_head cw limit ws pen (s.step c).1 [c] (cw c) cs (Or.inl (by simp))
        have hrec := ih (s.step c).1 [c] (cw c)
          (by subst hsn; simp [Ansi.run])
          (by simp [dwFrom, Ansi.step, hcE])
          (by
            by_cases h0 : 0 < cw c
            · right; simp [nzFrom, Ansi.step, hcE, h0]
            · left; omega)
        rw [h1] at hrec ⊢
        refine ⟨by simp [displayWidth, hw], rfl, rfl, hcur, hb, by rw [← hs, hsn], hcut.1,
          ⟨c, x, by simpa using h2, hcE, hcut.2⟩, hrec⟩
      · next hncut =>
        apply ih _ _ _ hrun
        · rw [dwFrom_append, ← hs, hw]; simp [dwFrom, hv]
        · -- width bound after appending a visible char
          by_cases hw0 : 0 < w
          · left; omega
          · have hw0' : w = 0 := by omega
            by_cases hc0 : 0 < cw c
            · right
              -- cur has no non-zero-width visible char, c is the single one
              rw [nzFrom_append, ← hs]
              have hz : nzFrom cw .normal cur = 0 := by
                rcases hb with hb | hb
                · -- w = 0 = dwFrom: then no non-zero visible char
                  by_cases hn : nzFrom cw .normal cur = 0
                  · exact hn
                  · exfalso
                    -- a non-zero-width visible char would make the width positive
                    have := nz_pos_dw cw .normal cur (by omega)
                    omega
                · exfalso
                  have := nz_pos_dw cw .normal cur (by omega)
                  omega
              simp [hz, nzFrom, hv, hc0]
            · left; omega
    · next hv =>
      apply ih _ _ _ hrun
      · rw [dwFrom_append, ← hs, hw]; simp [dwFrom, hv]
      · rcases hb with hb | hb
        · exact Or.inl hb
        · right; rw [nzFrom_append, ← hs, hb]; simp [nzFrom, hv]
where
  nz_pos_dw (cw : Char → Nat) (s : Ansi) (t : Text) (h : 0 < nzFrom cw s t) : 0 < dwFrom cw s t := by
    induction t generalizing s with
    | nil => simp [nzFrom] at h
    | cons c cs ih =>
      simp only [nzFrom] at h
      simp only [dwFrom]
      by_cases hv : ((s.step c).2 && decide (0 < cw c)) = true
      · simp only [Bool.and_eq_true, decide_eq_true_eq] at hv
        simp [hv.1]; omega
      · simp only [hv] at h
        have := ih (s.step c).1 (by simpa using h)
        omega

theorem breakWords_passthrough (cw : Char → Nat) (limit : Nat) (ws : List Word)
    (h : ∀ w ∈ ws, w.width ≤ limit) : breakWords cw limit ws = ws := by
  induction ws with
  | nil => rfl
  | cons w rest ih =>
    have hw := h w (by simp)
    have : ¬ limit < w.width := by omega
    simp [breakWords, this, ih (fun x hx => h x (by simp [hx]))]

end TW

/-
  C03 without the `smawk` contract: under the property's hypotheses the rows computed by the
  model's own `smawk` (TextwrapModel/Smawk.lean) conform to the column-minima contract
  (`IsMinimaRows`), so every theorem stated relative to that contract holds for the
  self-contained model of `wrap_optimal_fit`.
-/
import Lemmas.SmawkOnline
import Lemmas.OptimalTM
import Lemmas.OptimalBridge
namespace TW
open TW.Opt

theorem lnWalk_pos (pre : Vec) (fuel i : Nat) (hf : 1 ≤ fuel) (hi : 1 ≤ i) : 1 ≤ lnWalk pre fuel i := by
  obtain ⟨f, rfl⟩ : ∃ f, fuel = f + 1 := ⟨fuel - 1, by omega⟩
  simp only [lnWalk]
  rw [if_neg (by omega)]
  omega

theorem lnGet_zero_iff (pre : Vec) (i ln : Nat) (h : lnGet pre i = some ln) : ln = 0 ↔ i = 0 := by
  unfold lnGet at h
  by_cases h0 : i = 0
  · rw [if_pos h0] at h
    cases h
    exact ⟨fun _ => h0, fun _ => rfl⟩
  · rw [if_neg h0] at h
    split at h
    · cases h
      have := lnWalk_pos pre i i (by omega) (by omega)
      constructor
      · intro h'; omega
      · intro h'; exact absurd h' h0
    · cases h

/-- the closure of `wrap_optimal_fit` is the online matrix `D i + c i j` of the abstract
    instance (at most two line widths) -/
theorem costClosure_isCost (pen : Penalties) (lws : List Int) (hl : lws.length ≤ 2) (frs : List IFrag) :
    MIsCost (costClosure pen lws frs (prefixWidths frs)) (instOf pen lws frs).c (frs.length + 1) := by
  intro pre i j hs hi hij hj
  unfold costClosure
  obtain ⟨ln, hln⟩ := Option.isSome_iff_exists.mp (lnGet_some pre i hs hi)
  have hWi : i < (prefixWidths frs).length := by rw [prefixWidths_length]; omega
  have hWj : j < (prefixWidths frs).length := by rw [prefixWidths_length]; omega
  have hj0 : ¬ j = 0 := by omega
  have hfr : j - 1 < frs.length := by omega
  rw [hln, List.getElem?_eq_getElem hWi, List.getElem?_eq_getElem hWj, if_neg hj0,
    List.getElem?_eq_getElem hfr, List.getElem?_eq_getElem hi]
  dsimp only
  have e1 : (prefixWidths frs)[i] = (prefixWidths frs).getD i 0 := by
    simp [List.getD_eq_getElem?_getD, List.getElem?_eq_getElem hWi]
  have e2 : (prefixWidths frs)[j] = (prefixWidths frs).getD j 0 := by
    simp [List.getD_eq_getElem?_getD, List.getElem?_eq_getElem hWj]
  have e3 : frs[j - 1] = frs.getD (j - 1) ⟨0, 0, 0⟩ := by
    simp [List.getD_eq_getElem?_getD, List.getElem?_eq_getElem hfr]
  have e4 : pre[i].2 = Dof pre i := by
    unfold Dof
    simp [List.getD_eq_getElem?_getD, List.getElem?_eq_getElem hi]
  rw [e1, e2, e3, e4]
  congr 1
  exact lineCost_eq pen lws hl frs i j ln (Dof pre i) hij (by omega) (lnGet_zero_iff pre i ln hln)

/-- the online matrix of `wrap_optimal_fit` is totally monotone above the diagonal — needing only
    the chain structure of the finished columns -/
theorem cost_onlineTM (pen : Penalties) (lws : List Int) (frs : List IFrag) (h : (instOf pen lws frs).Hyp) :
    OnlineTM (instOf pen lws frs).c 0 (frs.length + 1) := by
  intro res k hch i i' j j' h1 hk h2 h3 h4
  have hm : IsChainTo (instOf pen lws frs).c (Dof res) (Rof res) k :=
    ⟨hch.1, fun j hj1 hj2 => (hch.2 j hj1 hj2).1, fun j hj1 hj2 => (hch.2 j hj1 hj2).2⟩
  exact Inst.tm_strict_chain h hm i i' j j' h1 hk h2 h3 (by show j' ≤ frs.length; omega)

/-- **the model's own `smawk` conforms to the column-minima contract** under C03's hypotheses
    (non-negative integers, penalty width ≤ next width, at most two line widths) -/
theorem ownMinima_isMinimaRows (pen : Penalties) (lws : List Int) (hl : lws.length ≤ 2) (frs : List IFrag)
    (h : (instOf pen lws frs).Hyp) : IsMinimaRows pen lws frs (ownMinima pen frs lws) := by
  have hshape := ownMinima_rowsShape pen frs lws
  refine ⟨hshape, ?_⟩
  have hsz : (prefixWidths frs).length = frs.length + 1 := prefixWidths_length frs
  obtain ⟨res, e1, e2, e3, e4, e5⟩ := onlineColumnMinima_min (costClosure_isCost pen lws hl frs)
    (cost_onlineTM pen lws frs h) (Nat.succ_pos _)
  have hown : ownMinima pen frs lws = res.map (·.1) := by
    unfold ownMinima
    rw [hsz]
    have e1' : onlineColumnMinima (costClosure pen lws frs (prefixWidths frs)) (0 : Int) (frs.length + 1) = some res := e1
    rw [e1']
  have hr : ∀ j, (ownMinima pen frs lws).getD j 0 = Rof res j := by
    intro j
    rw [hown]
    unfold Rof
    simp only [List.getD_eq_getElem?_getD, List.getElem?_map]
    cases res[j]? <;> rfl
  -- the table rebuilt from the rows holds the values the algorithm computed
  have hD : ∀ j, j ≤ frs.length →
      Dv pen lws frs (fun j => (ownMinima pen frs lws).getD j 0) frs.length j = Dof res j := by
    intro j
    induction j using Nat.strong_induction_on with
    | _ j ih =>
      intro hj
      rcases Nat.eq_zero_or_pos j with h0 | hpos
      · subst h0
        rw [(Dv_zero pen lws frs _ frs.length).1, e3]
      · obtain ⟨k, rfl⟩ : ∃ k, j = k + 1 := ⟨j - 1, by omega⟩
        have hlt := hshape.2 (k + 1) hpos hj
        rw [(Dv_succ pen lws frs _ frs.length k hj (by omega)).1,
          cellCost_eq pen lws hl frs _ hshape.2 _ _ hlt hj, ih _ hlt (by omega)]
        have := (e4 (k + 1) hpos (by omega)).2
        rw [hr (k + 1)]
        omega
  intro i j hij hj
  rw [cellCost_eq pen lws hl frs _ hshape.2 i j hij hj, hD j hj, hD i (by omega)]
  exact e5 i j hij (by omega)

/-- over exact integers the self-contained `wrap_optimal_fit` is `wrap_optimal_fit` run on its
    own rows: the two formulations of the model coincide -/
theorem wrapOptimalFit_eq_own {β : Type} (m : β → IFrag) (pen : Penalties) (frs : List β) (lws : List Int) :
    (wrapOptimalFit m pen frs lws).1 = wrapOptimalFitWith m pen frs lws (ownMinima pen (frs.map m) lws) := by
  unfold wrapOptimalFit wrapOptimalFitWith ownMinima
  dsimp only
  have hsz : 0 < (prefixWidths (frs.map m)).length := by rw [prefixWidths_length]; omega
  obtain ⟨minima, e1, e2, e3, v0, e4⟩ := onlineColumnMinima_spec (costClosure_ok pen lws (frs.map m)) (0 : Int) hsz
  rw [e1]
  dsimp only
  rw [prefixWidths_length, List.length_map] at e2
  have hinf1 : (minima.any fun e => CostNum.isInf e.2) = false := by
    rw [List.any_eq_false]; intro x _; simp [CostNum.isInf]
  have hinf2 : ∀ l : List (Int × Nat), (l.any fun e => CostNum.isInf e.1) = false := by
    intro l; rw [List.any_eq_false]; intro x _; simp [CostNum.isInf]
  rw [hinf1, hinf2]
  simp only [Bool.false_eq_true, if_false]
  obtain ⟨ln, hln⟩ := Option.isSome_iff_exists.mp (lnGet_some minima frs.length e3 (by omega))
  rw [hln]
  dsimp only
  rw [backtrackVec_eq minima _ _ (by omega)]
  cases backtrackGo (fun j => (List.map (fun x => x.1) minima).getD j 0) (frs.length + 1) frs.length <;> rfl

end TW

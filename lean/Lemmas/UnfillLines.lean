/-
  `unfill` on a text that consists of indented lines joined by a line ending: the pure half of
  the `unfill ∘ fill` round trip (no reference to `wrap`).
-/
import Lemmas.Unfill
import Lemmas.DedentJoin
namespace TW

/-- the `'\r'` part of a line ending -/
def crOf : LineEnding → Text
  | .lf => []
  | .crlf => [CR]

theorem ending_str (e : LineEnding) : e.str = crOf e ++ [LF] := by cases e <;> rfl

/-- apply `f` to every element but the last -/
def mapInit (f : Text → Text) : List Text → List Text
  | [] => []
  | [a] => [a]
  | a :: b :: r => f a :: mapInit f (b :: r)

theorem mapInit_ne_nil (f : Text → Text) (l : List Text) (h : l ≠ []) : mapInit f l ≠ [] := by
  match l, h with
  | [a], _ => simp [mapInit]
  | a :: b :: r, _ => simp [mapInit]

theorem joinWith_cons_ne (sep a : Text) (l : List Text) (h : l ≠ []) :
    joinWith sep (a :: l) = a ++ sep ++ joinWith sep l := by
  cases l with
  | nil => exact absurd rfl h
  | cons b r => rfl

theorem linesOf_cons_ne (p : Text) (l : List Text) (h : l ≠ []) : linesOf (p :: l) = stripCR p :: linesOf l := by
  cases l with
  | nil => exact absurd rfl h
  | cons b r => rfl

theorem nelGo_cons_ne (p : Text) (l : List Text) (h : l ≠ []) :
    nelGo (p :: l) = (if p.isEmpty || p == [CR] then []
     else if p.getLast? = some CR then [(p.dropLast, some LineEnding.crlf)]
     else [(p, some LineEnding.lf)]) ++ nelGo l := by
  cases l with
  | nil => exact absurd rfl h
  | cons b r => rfl

theorem joinWith_ending (e : LineEnding) (ls : List Text) :
    joinWith e.str ls = joinWith [LF] (mapInit (· ++ crOf e) ls) := by
  induction ls with
  | nil => rfl
  | cons a r ih =>
    cases r with
    | nil => simp [joinWith, mapInit]
    | cons b r' =>
      rw [joinWith_cons_cons]
      simp only [mapInit]
      rw [joinWith_cons_ne _ _ _ (mapInit_ne_nil _ _ (by simp)), ih, ending_str]
      simp [List.append_assoc]

theorem joinWith_ending_trailing (e : LineEnding) (ls : List Text) (hne : ls ≠ []) :
    joinWith e.str ls ++ e.str = joinWith [LF] (ls.map (· ++ crOf e) ++ [[]]) := by
  induction ls with
  | nil => exact absurd rfl hne
  | cons a r ih =>
    cases r with
    | nil => simp [joinWith, ending_str]
    | cons b r' =>
      rw [joinWith_cons_cons]
      simp only [List.map_cons, List.cons_append] at ih ⊢
      rw [joinWith_cons_cons, ← ih (by simp), ending_str]
      simp [List.append_assoc]

/-- a line of the filled text: non-empty, without `'\n'` and `'\r'` -/
def LineOk (l : Text) : Prop := l ≠ [] ∧ LF ∉ l ∧ CR ∉ l

theorem stripCR_cr (e : LineEnding) (a : Text) (h : CR ∉ a) : stripCR (a ++ crOf e) = a := by
  cases e with
  | lf => simpa [crOf] using stripCR_noCR a h
  | crlf => unfold stripCR; simp [crOf]

theorem linesOf_mapInit (e : LineEnding) (ls : List Text) (hok : ∀ l ∈ ls, LineOk l) :
    linesOf (mapInit (· ++ crOf e) ls) = ls := by
  induction ls with
  | nil => rfl
  | cons a r ih =>
    cases r with
    | nil =>
      have : a.isEmpty = false := by
        have := (hok a (by simp)).1
        cases a <;> simp_all
      simp [mapInit, linesOf, this]
    | cons b r' =>
      simp only [mapInit]
      rw [linesOf_cons_ne _ _ (mapInit_ne_nil _ _ (by simp)),
        ih (fun l hl => hok l (by simp [hl])), stripCR_cr e a (hok a (by simp)).2.2]

theorem linesOf_trailing (e : LineEnding) (ls : List Text) (hok : ∀ l ∈ ls, LineOk l) :
    linesOf (ls.map (· ++ crOf e) ++ [[]]) = ls := by
  induction ls with
  | nil => simp [linesOf]
  | cons a r ih =>
    have ha := stripCR_cr e a (hok a (by simp)).2.2
    cases r with
    | nil => simp [linesOf, ha]
    | cons b r' =>
      have := ih (fun l hl => hok l (by simp [hl]))
      simp only [List.map_cons, List.cons_append, linesOf] at this ⊢
      rw [this, ha]

/-- every line but the last is tagged with the ending, the last with `none` -/
def tagInit (e : LineEnding) : List Text → List (Text × Option LineEnding)
  | [] => []
  | [a] => [(a, none)]
  | a :: b :: r => (a, some e) :: tagInit e (b :: r)

theorem nel_piece (e : LineEnding) (a : Text) (hok : LineOk a) :
    (if (a ++ crOf e).isEmpty || (a ++ crOf e) == [CR] then []
     else if (a ++ crOf e).getLast? = some CR then [((a ++ crOf e).dropLast, some LineEnding.crlf)]
     else [(a ++ crOf e, some LineEnding.lf)]) = [(a, some e)] := by
  obtain ⟨hne, _, hcr⟩ := hok
  cases e with
  | lf =>
    simp only [crOf, List.append_nil]
    have h1 : a.isEmpty = false := by cases a <;> simp_all
    have h2 : (a == [CR]) = false := by
      cases hb : a == [CR] with
      | false => rfl
      | true =>
        have : a = [CR] := by simpa using hb
        subst this; simp at hcr
    have h3 : a.getLast? ≠ some CR := fun h => hcr (List.mem_of_getLast? h)
    simp [h1, h2, h3]
  | crlf =>
    simp only [crOf]
    have h1 : (a ++ [CR]).isEmpty = false := by simp
    have h2 : ((a ++ [CR]) == [CR]) = false := by
      cases hb : (a ++ [CR]) == [CR] with
      | false => rfl
      | true =>
        have h : a ++ [CR] = [CR] := by simpa using hb
        have := congrArg List.length h
        simp at this
        exact absurd this hne
    simp [h1, h2]

theorem nelGo_mapInit (e : LineEnding) (ls : List Text) (hok : ∀ l ∈ ls, LineOk l) :
    nelGo (mapInit (· ++ crOf e) ls) = tagInit e ls := by
  induction ls with
  | nil => rfl
  | cons a r ih =>
    cases r with
    | nil =>
      have : a.isEmpty = false := by
        have := (hok a (by simp)).1
        cases a <;> simp_all
      simp [mapInit, nelGo, tagInit, this]
    | cons b r' =>
      simp only [mapInit, tagInit]
      rw [nelGo_cons_ne _ _ (mapInit_ne_nil _ _ (by simp)),
        ih (fun l hl => hok l (by simp [hl])), nel_piece e a (hok a (by simp))]
      rfl

theorem nelGo_trailing (e : LineEnding) (ls : List Text) (hok : ∀ l ∈ ls, LineOk l) :
    nelGo (ls.map (· ++ crOf e) ++ [[]]) = ls.map (fun l => (l, some e)) := by
  induction ls with
  | nil => simp [nelGo]
  | cons a r ih =>
    have ha := nel_piece e a (hok a (by simp))
    cases r with
    | nil =>
      simp only [List.map_cons, List.map_nil, List.nil_append, List.cons_append, nelGo]
      rw [ha]; simp
    | cons b r' =>
      have := ih (fun l hl => hok l (by simp [hl]))
      simp only [List.map_cons, List.cons_append, nelGo] at this ⊢
      rw [this, ha]
      rfl

/-! ### the indented lines -/

/-- a line body: starts with a character that is not a prefix character; no `'\n'`, `'\r'` -/
def BodyOk (s : Text) : Prop :=
  (∃ c r, s = c :: r ∧ isPrefixChar c = false) ∧ LF ∉ s ∧ CR ∉ s

theorem prefix_no_LF (ind : Text) (h : ind.all isPrefixChar = true) : LF ∉ ind ∧ CR ∉ ind := by
  constructor <;> intro hm
  · have := List.all_eq_true.mp h _ hm; revert this; decide
  · have := List.all_eq_true.mp h _ hm; revert this; decide

theorem line_ok (ind s : Text) (hi : ind.all isPrefixChar = true) (hs : BodyOk s) : LineOk (ind ++ s) := by
  obtain ⟨⟨c, r, rfl, _⟩, h2, h3⟩ := hs
  obtain ⟨i1, i2⟩ := prefix_no_LF ind hi
  refine ⟨by simp, ?_, ?_⟩
  · intro h; rcases List.mem_append.mp h with h | h
    · exact i1 h
    · exact h2 h
  · intro h; rcases List.mem_append.mp h with h | h
    · exact i2 h
    · exact h3 h

theorem takeWhile_indent (ind s : Text) (hi : ind.all isPrefixChar = true) (hs : BodyOk s) :
    (ind ++ s).takeWhile isPrefixChar = ind := by
  obtain ⟨⟨c, r, rfl, hc⟩, _, _⟩ := hs
  induction ind with
  | nil => simp [List.takeWhile, hc]
  | cons d ds ih =>
    simp only [List.all_cons, Bool.and_eq_true] at hi
    simp [List.takeWhile, hi.1, ih hi.2]

theorem line_prefix (ind s : Text) (hi : ind.all isPrefixChar = true) (hs : BodyOk s) :
    (ind ++ s).take ((ind ++ s).length - (trimStartBy isPrefixChar (ind ++ s)).length) = ind := by
  rw [take_trimStart, takeWhile_indent ind s hi hs]

theorem zipMismatch_self (a : Text) : zipMismatch a a = none := by
  induction a with
  | nil => rfl
  | cons x xs ih => simp [zipMismatch, ih]

/-- the widest of the lines, starting from `w` -/
def maxWidth (cw : Char → Nat) (w : Nat) (ls : List Text) : Nat :=
  ls.foldl (fun m l => max m (displayWidth cw l)) w

theorem scan_tail (cw : Char → Nat) (ini si : Text) (hsi : si.all isPrefixChar = true)
    (bodies : List Text) (hb : ∀ s ∈ bodies, BodyOk s) (idx : Nat) (hidx : 2 ≤ idx) (w : Nat) :
    unfillScan cw (bodies.map (si ++ ·)) idx (w, ini, si) =
      (maxWidth cw w (bodies.map (si ++ ·)), ini, si) := by
  induction bodies generalizing idx w with
  | nil => rfl
  | cons s rest ih =>
    have h0 : ¬ idx = 0 := by omega
    have h1 : ¬ idx = 1 := by omega
    simp only [List.map_cons, unfillScan, h0, h1, if_false]
    rw [line_prefix si s hsi (hb s (by simp)), zipMismatch_self]
    simp only [Nat.lt_irrefl, if_false]
    rw [ih (fun x hx => hb x (by simp [hx])) (idx + 1) (by omega)]
    rfl

/-- the first loop of `unfill` on indented lines -/
theorem scan_lines (cw : Char → Nat) (ii si s0 : Text) (ss : List Text)
    (hii : ii.all isPrefixChar = true) (hsi : si.all isPrefixChar = true)
    (h0 : BodyOk s0) (hss : ∀ s ∈ ss, BodyOk s) :
    unfillScan cw ((ii ++ s0) :: ss.map (si ++ ·)) 0 (0, [], []) =
      (maxWidth cw 0 ((ii ++ s0) :: ss.map (si ++ ·)), ii, if ss = [] then [] else si) := by
  simp only [unfillScan, if_true]
  rw [line_prefix ii s0 hii h0]
  cases ss with
  | nil => simp [unfillScan, maxWidth]
  | cons s1 rest =>
    have h1 : ¬ ((0 : Nat) + 1 = 0) := by omega
    simp only [List.map_cons, unfillScan, h1, if_false, if_true]
    rw [line_prefix si s1 hsi (hss s1 (by simp))]
    rw [scan_tail cw ii si hsi rest (fun x hx => hss x (by simp [hx])) 2 (by omega)]
    simp [maxWidth]

/-! ### the second loop -/

theorem join_tail (ini si : Text) (bes : List (Text × Option LineEnding)) (idx : Nat) (hidx : idx ≠ 0)
    (acc : Text) (det : Option LineEnding) :
    unfillJoin ini si (bes.map fun p => (si ++ p.1, p.2)) idx acc det =
      some (acc ++ (bes.map fun p => SP :: p.1).flatten, (bes.map (·.2)).foldl detStep det) := by
  induction bes generalizing idx acc det with
  | nil => simp [unfillJoin]
  | cons p rest ih =>
    simp only [List.map_cons, unfillJoin, hidx, if_false]
    rw [sliceFrom?_append]
    simp only [Option.map_some]
    rw [ih (idx + 1) (by omega)]
    simp only [List.flatten_cons, List.append_assoc, List.foldl_cons]

theorem join_lines (ii si s0 : Text) (t0 : Option LineEnding) (bes : List (Text × Option LineEnding)) :
    unfillJoin ii si ((ii ++ s0, t0) :: bes.map fun p => (si ++ p.1, p.2)) 0 [] none =
      some (s0 ++ (bes.map fun p => SP :: p.1).flatten, (bes.map (·.2)).foldl detStep (detStep none t0)) := by
  simp only [unfillJoin, if_true]
  rw [sliceFrom?_append]
  simp only
  rw [join_tail ii si bes 1 (by omega)]
  simp

theorem detStep_same (e : LineEnding) : detStep (some e) (some e) = some e := by cases e <;> rfl
theorem detStep_none_r (d : Option LineEnding) : detStep d none = d := by
  cases d with
  | none => rfl
  | some e => cases e <;> rfl

theorem foldl_detStep_same (e : LineEnding) (tags : List (Option LineEnding))
    (h : ∀ t ∈ tags, t = some e ∨ t = none) : tags.foldl detStep (some e) = some e := by
  induction tags with
  | nil => rfl
  | cons t r ih =>
    simp only [List.foldl_cons]
    rcases h t (by simp) with rfl | rfl
    · rw [detStep_same]; exact ih (fun x hx => h x (by simp [hx]))
    · rw [detStep_none_r]; exact ih (fun x hx => h x (by simp [hx]))

theorem joinSP_eq (s0 : Text) (ss : List Text) :
    s0 ++ (ss.map fun s => SP :: s).flatten = joinWith [SP] (s0 :: ss) := by
  induction ss generalizing s0 with
  | nil => simp [joinWith]
  | cons s r ih =>
    rw [joinWith_cons_cons, ← ih]
    simp

/-- a text whose last character is not `'\n'` does not end with a line ending -/
theorem not_endsWith_ending (t : Text) (e : LineEnding) (h : t.getLast? ≠ some LF) :
    endsWith t e.str = false := by
  unfold endsWith
  cases hb : e.str.isSuffixOf t with
  | false => rfl
  | true =>
    exfalso
    have hs : e.str <:+ t := List.isSuffixOf_iff_suffix.mp hb
    obtain ⟨pre, rfl⟩ := hs
    apply h
    rw [ending_str, ← List.append_assoc, List.getLast?_append]
    simp

theorem endsWith_append_self (t : Text) (e : LineEnding) : endsWith (t ++ e.str) e.str = true := by
  unfold endsWith
  exact List.isSuffixOf_iff_suffix.mpr (List.suffix_append t e.str)

theorem joinWith_getLast (sep : Text) (ls : List Text) (l : Text) (hl : ls.getLast? = some l) (hne : l ≠ []) :
    (joinWith sep ls).getLast? = l.getLast? := by
  induction ls with
  | nil => simp at hl
  | cons a r ih =>
    cases r with
    | nil => simp at hl; subst hl; simp [joinWith]
    | cons b r' =>
      rw [List.getLast?_cons_cons] at hl
      rw [joinWith_cons_cons]
      have h := ih hl
      have hne2 : joinWith sep (b :: r') ≠ [] := by
        intro he; rw [he] at h; simp at h
        exact hne (List.getLast?_eq_none_iff.mp h.symm)
      rw [List.getLast?_append, h]
      cases hq : l.getLast? with
      | none => exact absurd (List.getLast?_eq_none_iff.mp hq) hne
      | some x => rfl

/-! ### `unfill` on the joined lines -/

theorem mapInit_mem (f : Text → Text) (ls : List Text) : ∀ p ∈ mapInit f ls, ∃ l ∈ ls, p = l ∨ p = f l := by
  induction ls with
  | nil => simp [mapInit]
  | cons a r ih =>
    cases r with
    | nil => intro p hp; simp [mapInit] at hp; exact ⟨a, by simp, Or.inl hp⟩
    | cons b r' =>
      intro p hp
      simp only [mapInit, List.mem_cons] at hp
      rcases hp with rfl | hp
      · exact ⟨a, by simp, Or.inr rfl⟩
      · obtain ⟨l, hl, h⟩ := ih p (by simpa [mapInit] using hp)
        exact ⟨l, by simp [hl], h⟩

theorem crOf_no_LF (e : LineEnding) : LF ∉ crOf e := by cases e <;> simp [crOf, CR, LF]

theorem tagInit_cons (e : LineEnding) (a : Text) (r : List Text) :
    tagInit e (a :: r) = (a, if r = [] then none else some e) :: tagInit e r := by
  cases r <;> simp [tagInit]

theorem tagInit_map (e : LineEnding) (f : Text → Text) (ss : List Text) :
    tagInit e (ss.map f) = (tagInit e ss).map fun p => (f p.1, p.2) := by
  induction ss with
  | nil => rfl
  | cons a r ih =>
    rw [List.map_cons, tagInit_cons, tagInit_cons, ih]
    simp

theorem tagInit_fst (e : LineEnding) (ss : List Text) : (tagInit e ss).map (·.1) = ss := by
  induction ss with
  | nil => rfl
  | cons a r ih => rw [tagInit_cons]; simp [ih]

theorem tagInit_snd (e : LineEnding) (ss : List Text) :
    ∀ t ∈ (tagInit e ss).map (·.2), t = some e ∨ t = none := by
  induction ss with
  | nil => simp [tagInit]
  | cons a r ih =>
    rw [tagInit_cons]
    intro t ht
    simp only [List.map_cons, List.mem_cons] at ht
    rcases ht with rfl | ht
    · by_cases h : r = [] <;> simp [h]
    · exact ih t ht

theorem flatten_SP_fst (bes : List (Text × Option LineEnding)) :
    (bes.map fun p => SP :: p.1).flatten = ((bes.map (·.1)).map fun s => SP :: s).flatten := by
  simp [List.map_map, Function.comp_def]

/-- **`unfill` of indented lines joined by a line ending** (no trailing ending) -/
theorem unfill_lines (cw : Char → Nat) (e : LineEnding) (ii si s0 : Text) (ss : List Text)
    (hii : ii.all isPrefixChar = true) (hsi : si.all isPrefixChar = true)
    (h0 : BodyOk s0) (hss : ∀ s ∈ ss, BodyOk s) :
    unfill cw (joinWith e.str ((ii ++ s0) :: ss.map (si ++ ·))) =
      some { text := joinWith [SP] (s0 :: ss),
             width := maxWidth cw 0 ((ii ++ s0) :: ss.map (si ++ ·)),
             initialIndent := ii,
             subsequentIndent := if ss = [] then [] else si,
             lineEnding := if ss = [] then .lf else e } := by
  have hok : ∀ l ∈ (ii ++ s0) :: ss.map (si ++ ·), LineOk l := by
    intro l hl
    rcases List.mem_cons.mp hl with rfl | hl
    · exact line_ok ii s0 hii h0
    · obtain ⟨s, hs, rfl⟩ := List.mem_map.mp hl
      exact line_ok si s hsi (hss s hs)
  generalize hLs : (ii ++ s0) :: ss.map (si ++ ·) = Ls at hok
  have hne : Ls ≠ [] := by rw [← hLs]; simp
  -- the pieces
  have hP : splitLF (joinWith e.str Ls) = mapInit (· ++ crOf e) Ls := by
    rw [joinWith_ending]
    apply splitLF_joinWith _ (mapInit_ne_nil _ _ hne)
    intro p hp h
    obtain ⟨l, hl, hpl | hpl⟩ := mapInit_mem _ _ p hp
    · rw [hpl] at h; exact (hok l hl).2.1 h
    · rw [hpl] at h
      rcases List.mem_append.mp h with h | h
      · exact (hok l hl).2.1 h
      · exact crOf_no_LF e h
  have hlines : lines (joinWith e.str Ls) = Ls := by rw [lines_eq, hP, linesOf_mapInit e Ls hok]
  have hnel : nonEmptyLines (joinWith e.str Ls) = tagInit e Ls := by
    unfold nonEmptyLines; rw [hP, nelGo_mapInit e Ls hok]
  -- the last character is not a line feed
  have hlast : (joinWith e.str Ls).getLast? ≠ some LF := by
    cases hl : Ls.getLast? with
    | none => exact absurd (List.getLast?_eq_none_iff.mp hl) hne
    | some l =>
      have hlm : l ∈ Ls := List.mem_of_getLast? hl
      rw [joinWith_getLast _ _ l hl (hok l hlm).1]
      intro h
      exact (hok l hlm).2.1 (List.mem_of_getLast? h)
  unfold unfill
  rw [hlines, hnel, ← hLs, scan_lines cw ii si s0 ss hii hsi h0 hss]
  simp only
  by_cases hs : ss = []
  · subst hs
    simp only [List.map_nil, tagInit, unfillJoin, if_true]
    rw [sliceFrom?_append]
    simp [detStep, joinWith]
  · simp only [hs, if_false]
    rw [tagInit_cons, tagInit_map, join_lines]
    simp only [List.map_eq_nil_iff, hs, if_false]
    rw [flatten_SP_fst, tagInit_fst, joinSP_eq]
    have hdet : detStep none (some e) = some e := rfl
    rw [hdet, foldl_detStep_same e _ (tagInit_snd e ss)]
    simp only [Option.getD_some]
    rw [hLs, not_endsWith_ending _ e hlast]
    simp

/-- **`unfill` of indented lines joined by a line ending, with a trailing ending** -/
theorem unfill_lines_trailing (cw : Char → Nat) (e : LineEnding) (ii si s0 : Text) (ss : List Text)
    (hii : ii.all isPrefixChar = true) (hsi : si.all isPrefixChar = true)
    (h0 : BodyOk s0) (hss : ∀ s ∈ ss, BodyOk s) :
    unfill cw (joinWith e.str ((ii ++ s0) :: ss.map (si ++ ·)) ++ e.str) =
      some { text := joinWith [SP] (s0 :: ss) ++ e.str,
             width := maxWidth cw 0 ((ii ++ s0) :: ss.map (si ++ ·)),
             initialIndent := ii,
             subsequentIndent := if ss = [] then [] else si,
             lineEnding := e } := by
  have hok : ∀ l ∈ (ii ++ s0) :: ss.map (si ++ ·), LineOk l := by
    intro l hl
    rcases List.mem_cons.mp hl with rfl | hl
    · exact line_ok ii s0 hii h0
    · obtain ⟨s, hs, rfl⟩ := List.mem_map.mp hl
      exact line_ok si s hsi (hss s hs)
  generalize hLs : (ii ++ s0) :: ss.map (si ++ ·) = Ls at hok
  have hne : Ls ≠ [] := by rw [← hLs]; simp
  have hP : splitLF (joinWith e.str Ls ++ e.str) = Ls.map (· ++ crOf e) ++ [[]] := by
    rw [joinWith_ending_trailing e Ls hne]
    apply splitLF_joinWith _ (by simp)
    intro p hp h
    rcases List.mem_append.mp hp with hp | hp
    · obtain ⟨l, hl, rfl⟩ := List.mem_map.mp hp
      rcases List.mem_append.mp h with h | h
      · exact (hok l hl).2.1 h
      · exact crOf_no_LF e h
    · simp at hp; subst hp; simp at h
  have hlines : lines (joinWith e.str Ls ++ e.str) = Ls := by rw [lines_eq, hP, linesOf_trailing e Ls hok]
  have hnel : nonEmptyLines (joinWith e.str Ls ++ e.str) = Ls.map (fun l => (l, some e)) := by
    unfold nonEmptyLines; rw [hP, nelGo_trailing e Ls hok]
  unfold unfill
  rw [hlines, hnel, ← hLs, scan_lines cw ii si s0 ss hii hsi h0 hss]
  simp only [List.map_cons, List.map_map]
  have hdet : detStep none (some e) = some e := rfl
  by_cases hs : ss = []
  · subst hs
    simp only [List.map_nil, unfillJoin, if_true]
    rw [sliceFrom?_append]
    simp only [List.nil_append, hdet, Option.getD_some]
    rw [endsWith_append_self]
    simp [joinWith]
  · simp only [hs, if_false]
    have hm : (ss.map ((fun l => (l, some e)) ∘ fun x => si ++ x)) =
        (ss.map fun s => (s, some e)).map fun p => (si ++ p.1, p.2) := by
      simp [List.map_map, Function.comp_def]
    rw [hm, join_lines]
    simp only
    rw [flatten_SP_fst]
    have hf : ((ss.map fun s => (s, some e)).map (·.1)) = ss := by simp [List.map_map, Function.comp_def]
    rw [hf, joinSP_eq]
    have htags : ∀ t ∈ (ss.map fun s => (s, some e)).map (·.2), t = some e ∨ t = none := by
      intro t ht; simp [List.map_map] at ht; exact Or.inl ht.2.symm
    rw [hdet, foldl_detStep_same e _ htags]
    simp only [Option.getD_some]
    rw [hLs, endsWith_append_self]
    simp

end TW

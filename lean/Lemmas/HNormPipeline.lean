/-
  H-norm as a theorem for coloured text: if every space (and, with the hyphen splitter, every
  hyphen) of a line is met in skipper state `normal` and the line ends in state `normal`, all
  fragments of the pipeline begin and end in state `normal`. This is exactly the complement of
  the finding classes KF-1a (a space inside a sequence), KF-1b (a splitting hyphen inside a
  sequence) and KF-2 (a space swallowed by a bare ESC).
-/
import Lemmas.PipelineFacts
namespace TW

/-- every character satisfying `P` is met in skipper state `normal` -/
def MetNormal (P : Char → Bool) : Ansi → Text → Prop
  | _, [] => True
  | s, c :: cs => (P c = true → s = .normal) ∧ MetNormal P (s.step c).1 cs

theorem metNormal_append (P : Char → Bool) (s : Ansi) (a b : Text) :
    MetNormal P s (a ++ b) ↔ MetNormal P s a ∧ MetNormal P (s.run a) b := by
  induction a generalizing s with
  | nil => simp [MetNormal, Ansi.run]
  | cons c cs ih => simp [MetNormal, Ansi.run, ih, and_assoc]

/-- a fragment begins and ends in state `normal` and its whitespace is spaces -/
def FragNormal (w : Word) : Prop := Ansi.run .normal w.word = .normal ∧ ∀ c ∈ w.ws, c = SP

theorem hnorm_iff (frs : List Word) : HNorm frs ↔ ∀ w ∈ frs, FragNormal w := by
  induction frs with
  | nil => simp [HNorm]
  | cons w r ih =>
    simp only [HNorm, ih, List.mem_cons, forall_eq_or_imp, FragNormal]
    constructor
    · rintro ⟨h1, h2, h3⟩; exact ⟨⟨h1, h2⟩, h3⟩
    · rintro ⟨⟨h1, h2⟩, h3⟩; exact ⟨h1, h2, h3⟩

theorem step_normal_of_ne_esc (c : Char) (h : c ≠ ESC) : (Ansi.normal.step c).1 = .normal := by
  simp [Ansi.step, h]

/-! ### stage 1: the ASCII separator -/

/-- the pieces of the ASCII separator each begin and end in state `normal` -/
theorem asciiPieces_normal (Q : Char → Bool) (hQ : Q SP = true) (P : List Text) (hc : AsciiCuts P)
    (hm : MetNormal Q .normal P.flatten) (hend : Ansi.run .normal P.flatten = .normal) :
    ∀ p ∈ P, MetNormal Q .normal p ∧ Ansi.run .normal p = .normal := by
  induction P with
  | nil => simp
  | cons p r ih =>
    cases r with
    | nil =>
      intro x hx
      simp only [List.mem_singleton] at hx; subst hx
      simpa using And.intro hm hend
    | cons q r' =>
      obtain ⟨_, hlast, _, hrest⟩ := hc
      simp only [List.flatten_cons] at hm hend ih
      rw [metNormal_append] at hm
      obtain ⟨p', rfl⟩ := List.getLast?_eq_some_iff.mp hlast
      have hp := hm.1
      rw [metNormal_append] at hp
      have hs : Ansi.run .normal p' = .normal := hp.2.1 hQ
      have hrun : Ansi.run .normal (p' ++ [SP]) = .normal := by
        rw [run_append, hs]; simp [Ansi.run, Ansi.step, ESC, SP]
      rw [run_append, hrun] at hend
      rw [hrun] at hm
      intro x hx
      rcases List.mem_cons.mp hx with rfl | hx
      · exact ⟨hm.1, hrun⟩
      · exact ih hrest hm.2 hend x hx

theorem word_normal_of_piece (Q : Char → Bool) (hQ : Q SP = true) (word sp : Text) (hsp : ∀ c ∈ sp, c = SP)
    (hm : MetNormal Q .normal (word ++ sp)) (hr : Ansi.run .normal (word ++ sp) = .normal) :
    Ansi.run .normal word = .normal ∧ MetNormal Q .normal word := by
  rw [metNormal_append] at hm
  refine ⟨?_, hm.1⟩
  cases sp with
  | nil => simpa using hr
  | cons c cs =>
    have : c = SP := hsp c (by simp)
    subst this
    exact hm.2.1 hQ

theorem findWordsAscii_normal (cw : Char → Nat) (Q : Char → Bool) (hQ : Q SP = true) (line : Text)
    (hm : MetNormal Q .normal line) (hend : Ansi.run .normal line = .normal) :
    ∀ w ∈ findWordsAscii cw line, FragNormal w ∧ MetNormal Q .normal w.word := by
  intro w hw
  unfold findWordsAscii at hw
  obtain ⟨p, hp, rfl⟩ := List.mem_map.mp hw
  have hflat := asciiGo_flatten [] false line
  simp only [List.nil_append] at hflat
  have hcuts := asciiGo_cuts [] false line (by simp) (by simp [noBreakInside])
  have := asciiPieces_normal Q hQ _ hcuts (by rw [hflat]; exact hm) (by rw [hflat]; exact hend) p hp
  have hsp : ∀ c ∈ (Word.from cw p).ws, c = SP := trimEndSp_rest_spaces p
  have hl := Word.from_lossless cw p
  obtain ⟨h1, h2⟩ := word_normal_of_piece Q hQ (Word.from cw p).word (Word.from cw p).ws hsp
    (by rw [hl]; exact this.1) (by rw [hl]; exact this.2)
  exact ⟨⟨h1, hsp⟩, h2⟩

/-! ### stage 2: splitting at hyphens -/

theorem splitOK_normal (cw : Char → Nat) (isAlnum : Char → Bool) (Q : Char → Bool) (hQ : Q HY = true)
    (w : Word) (hws : ∀ c ∈ w.ws, c = SP) (hm : MetNormal Q .normal w.word)
    (hr : Ansi.run .normal w.word = .normal)
    (pre : Text) (pts : List Nat) (ps : List Word) (hok : SplitOK cw w pre pts ps)
    (hpts : ∀ i ∈ pts, i ∈ hyphenPoints isAlnum w.word)
    (hpre : Ansi.run .normal pre = .normal) :
    ∀ p ∈ ps, FragNormal p ∧ MetNormal Q .normal p.word := by
  induction pts generalizing pre ps with
  | nil =>
    match ps, hok with
    | [p], hok =>
      obtain ⟨h1, _, _, h4⟩ := hok
      intro x hx
      simp only [List.mem_singleton] at hx; subst hx
      rw [← h4, run_append, hpre] at hr
      rw [← h4, metNormal_append, hpre] at hm
      exact ⟨⟨hr, by rw [h1]; exact hws⟩, hm.2⟩
  | cons idx pts ih =>
    match ps, hok with
    | p :: ps', hok =>
      obtain ⟨h1, h2, _, _, ⟨post, h5⟩, h6⟩ := hok
      -- the cut is directly after a hyphen met in state `normal`
      obtain ⟨a, y, b, e1, _, _, e4⟩ := (hyphenPointsGo_mem isAlnum none 0 w.word idx).mp (hpts idx (by simp))
      have hcut : pre ++ p.word = a ++ [HY] := by
        have e : (pre ++ p.word) ++ post = (a ++ [HY]) ++ (y :: b) := by rw [← h5, e1]; simp
        have hl : blen (pre ++ p.word) = blen (a ++ [HY]) := by
          rw [h1, e4]
          have : HY.utf8Size = 1 := by decide
          simp only [blen_append, blen_cons, blen_nil]; omega
        exact (split_unique e hl).1
      have hma : MetNormal Q .normal (a ++ (HY :: y :: b)) := by rw [← e1]; exact hm
      rw [metNormal_append] at hma
      have hsa : Ansi.run .normal a = .normal := hma.2.1 hQ
      have hrun : Ansi.run .normal (pre ++ p.word) = .normal := by
        rw [hcut, run_append, hsa]; simp [Ansi.run, Ansi.step, ESC, HY]
      have hpw : Ansi.run .normal p.word = .normal := by rwa [run_append, hpre] at hrun
      have hmp : MetNormal Q .normal p.word := by
        have : MetNormal Q .normal ((pre ++ p.word) ++ post) := by rw [← h5]; exact hm
        rw [metNormal_append, metNormal_append, hpre] at this
        exact this.1.2
      intro x hx
      rcases List.mem_cons.mp hx with rfl | hx
      · exact ⟨⟨hpw, by rw [h2]; simp⟩, hmp⟩
      · exact ih (pre ++ p.word) ps' h6 (fun i hi => hpts i (by simp [hi])) hrun x hx

theorem splitWords_normal (env : Env) (sp : Splitter) (hb : Builtin sp) (Q : Char → Bool)
    (hQ : sp = .hyphen → Q HY = true) (ws sw : List Word)
    (hws : ∀ w ∈ ws, FragNormal w ∧ MetNormal Q .normal w.word)
    (h : splitWords env sp ws = some sw) : ∀ w ∈ sw, FragNormal w ∧ MetNormal Q .normal w.word := by
  induction ws generalizing sw with
  | nil => simp [splitWords] at h; subst h; simp
  | cons w rest ih =>
    simp only [splitWords] at h
    split at h
    · next a b ha hb' =>
      simp only [Option.some.injEq] at h; subst h
      have hrest := ih b (fun x hx => hws x (by simp [hx])) hb'
      obtain ⟨⟨hw1, hw2⟩, hw3⟩ := hws w (by simp)
      intro x hx
      rcases List.mem_append.mp hx with hx | hx
      · cases sp with
        | none =>
          simp only [Splitter.points, splitOne, or_true, if_true] at ha
          split at ha
          · next s hs =>
            simp only [Option.some.injEq] at ha; subst ha
            simp only [List.mem_singleton] at hx; subst hx
            have : s = w.word := by
              have := sliceFrom?_append [] w.word
              simp only [List.nil_append, blen_nil] at this
              rw [this] at hs; simpa using hs.symm
            subst this
            exact ⟨⟨hw1, hw2⟩, hw3⟩
          · simp at ha
        | hyphen =>
          have hok := splitOne_ok env.cw w _ 0 [] w.word rfl rfl
            (fun i hi => (hyphenPoints_boundary env.isAlnum w.word i hi).choose_spec.choose_spec.2.2)
            (Or.inr rfl) a ha
          exact splitOK_normal env.cw env.isAlnum Q (hQ rfl) w hw2 hw3 hw1 [] _ a hok
            (fun i hi => hi) rfl x hx
        | custom f => exact absurd hb (by simp [Builtin])
      · exact hrest x hx
    · simp at h

/-! ### stage 3: force-breaking -/

theorem breakOK_normal (cw : Char → Nat) (limit : Nat) (ws pen : Text) (ps : List Word)
    (h : BreakOK cw limit ws pen ps) (hws : ∀ c ∈ ws, c = SP)
    (hall : Ansi.run .normal ((ps.map (·.word)).flatten) = .normal) : ∀ p ∈ ps, FragNormal p := by
  induction ps with
  | nil => simp
  | cons p rest ih =>
    cases rest with
    | nil =>
      obtain ⟨_, h2, _, _, _⟩ := h
      intro x hx
      simp only [List.mem_singleton] at hx; subst hx
      exact ⟨by simpa using hall, by rw [h2]; exact hws⟩
    | cons q r =>
      obtain ⟨_, h2, _, _, _, h6, _, _, h9⟩ := h
      simp only [List.map_cons, List.flatten_cons] at hall ih
      rw [run_append, h6] at hall
      intro x hx
      rcases List.mem_cons.mp hx with rfl | hx
      · exact ⟨h6, by rw [h2]; simp⟩
      · exact ih h9 hall x hx

theorem breakWords_normal (cw : Char → Nat) (limit : Nat) (ws : List Word) (hws : ∀ w ∈ ws, FragNormal w) :
    ∀ w ∈ breakWords cw limit ws, FragNormal w := by
  induction ws with
  | nil => simp [breakWords]
  | cons w rest ih =>
    simp only [breakWords]
    intro x hx
    rcases List.mem_append.mp hx with hx | hx
    · split at hx
      · obtain ⟨h1, h2⟩ := hws w (by simp)
        have hok := breakGo_ok cw limit w.ws w.pen .normal [] 0 w.word rfl rfl (Or.inl (Nat.zero_le _))
        have hflat := breakGo_flatten cw limit w.ws w.pen .normal [] 0 w.word
        simp only [List.nil_append] at hflat
        exact breakOK_normal cw limit w.ws w.pen _ hok h2 (by rw [hflat]; exact h1) x hx
      · simp only [List.mem_singleton] at hx; subst hx; exact hws x (by simp)
    · exact ih (fun y hy => hws y (by simp [hy])) x hx

/-! ### the pipeline -/

/-- the characters that must be met in state `normal`: spaces, and hyphens when the hyphen
    splitter is active -/
def guardChars (sp : Splitter) (c : Char) : Bool :=
  c == SP || (match sp with | .hyphen => c == HY | _ => false)

/-- the line is safe for the configured splitter: every space (and splitting hyphen) is met in
    skipper state `normal`, and the line ends in state `normal` -/
def SeqSafe (sp : Splitter) (line : Text) : Prop :=
  MetNormal (guardChars sp) .normal line ∧ Ansi.run .normal line = .normal

/-! ### stage 1 for the Unicode separator: cuts are made in state `normal` -/

theorem findWordsUnicode_normal (env : Env) (Q : Char → Bool) (hQ : Q SP = true) (line : Text)
    (hm : MetNormal Q .normal line) (hend : Ansi.run .normal line = .normal)
    (ws : List Word) (h : findWordsUnicode env line = some ws) :
    ∀ w ∈ ws, FragNormal w ∧ MetNormal Q .normal w.word := by
  unfold findWordsUnicode at h
  simp only at h
  split at h
  · next os _ =>
    simp only [Option.some.injEq] at h; subst h
    intro w hw
    obtain ⟨p, hp, rfl⟩ := List.mem_map.mp hw
    have hflat := uniGo_flatten .normal 0 [] os line
    simp only [List.nil_append] at hflat
    obtain ⟨pre, post, hsplit⟩ := List.append_of_mem hp
    have hsound := uniGo_cuts_sound .normal 0 .normal 0 [] os line rfl (by simp [stripFrom])
    -- the state before the piece
    have hpre : Ansi.run .normal pre.flatten = .normal := by
      by_cases hp0 : pre = []
      · subst hp0; rfl
      · exact (hsound pre p post hsplit hp0).1
    -- the state after the piece
    have hpost : Ansi.run .normal (pre.flatten ++ p) = .normal := by
      cases post with
      | nil =>
        have : pre.flatten ++ p = line := by rw [← hflat, hsplit]; simp
        rw [this]; exact hend
      | cons q post' =>
        have hs2 : uniGo .normal 0 [] os line = (pre ++ [p]) ++ q :: post' := by rw [hsplit]; simp
        have := (hsound (pre ++ [p]) q post' hs2 (by simp)).1
        simpa using this
    have hline : line = pre.flatten ++ p ++ post.flatten := by rw [← hflat, hsplit]; simp
    have hmp : MetNormal Q .normal p := by
      rw [hline, metNormal_append, metNormal_append, hpre] at hm
      exact hm.1.2
    have hrp : Ansi.run .normal p = .normal := by rwa [run_append, hpre] at hpost
    have hsp : ∀ c ∈ (Word.from env.cw p).ws, c = SP := trimEndSp_rest_spaces p
    have hl := Word.from_lossless env.cw p
    obtain ⟨h1, h2⟩ := word_normal_of_piece Q hQ (Word.from env.cw p).word (Word.from env.cw p).ws hsp
      (by rw [hl]; exact hmp) (by rw [hl]; exact hrp)
    exact ⟨⟨h1, hsp⟩, h2⟩
  · simp at h

theorem findWords_normal (env : Env) (sep : Sep) (Q : Char → Bool) (hQ : Q SP = true) (line : Text)
    (hm : MetNormal Q .normal line) (hend : Ansi.run .normal line = .normal)
    (ws : List Word) (h : findWords env sep line = some ws) :
    ∀ w ∈ ws, FragNormal w ∧ MetNormal Q .normal w.word := by
  cases sep with
  | ascii =>
    simp only [findWords, Option.some.injEq] at h; subst h
    exact findWordsAscii_normal env.cw Q hQ line hm hend
  | unicode => exact findWordsUnicode_normal env Q hQ line hm hend ws h

/-- **H-norm is a theorem for safe lines** (both separators, built-in splitters, `break_words`
    on or off) -/
theorem pipeline_hnorm (env : Env) (o : Opts) (hb : Builtin o.splitter)
    (line : Text) (hsafe : SeqSafe o.splitter line) (sw : Nat) (frs : List Word)
    (h : pipeline env o line sw = some frs) : HNorm frs := by
  rw [hnorm_iff]
  have hQ : guardChars o.splitter SP = true := by simp [guardChars]
  have hQH : o.splitter = .hyphen → guardChars o.splitter HY = true := by
    intro e; rw [e]; simp [guardChars]
  unfold pipeline at h
  split at h
  · simp at h
  · next fw hfw =>
    have h1 := findWords_normal env o.sep _ hQ line hsafe.1 hsafe.2 fw hfw
    split at h
    · simp at h
    · next sws hs =>
      have h2 := splitWords_normal env o.splitter hb _ hQH _ sws h1 hs
      split at h
      · split at h
        · simp only [Option.some.injEq] at h; subst h
          exact breakWords_normal env.cw sw sws (fun w hw => (h2 w hw).1)
        · simp only [Option.some.injEq] at h; subst h
          intro w hw
          rcases List.mem_cons.mp hw with rfl | hw
          · simp [FragNormal, Word.from, trimEndSp, Ansi.run]
          · exact breakWords_normal env.cw sw sws (fun w hw => (h2 w hw).1) w hw
      · simp only [Option.some.injEq] at h; subst h
        exact fun w hw => (h2 w hw).1

/-! ### safe lines: well-formed sequences that contain no guarded character -/

/-- a well-formed token without guarded characters inside its sequence -/
def Seg.safe (Q : Char → Bool) : Seg → Bool
  | .ch _ => true
  | .csi params final => params.all (fun c => !Q c) && !Q final && !Q '['
  | .osc body e => body.all (fun c => !Q c) && e.text.all (fun c => !Q c) && !Q ']'

theorem metNormal_none (Q : Char → Bool) (s : Ansi) (t : Text) (h : t.all (fun c => !Q c) = true) :
    MetNormal Q s t := by
  induction t generalizing s with
  | nil => trivial
  | cons c cs ih =>
    simp only [List.all_cons, Bool.and_eq_true, Bool.not_eq_true'] at h
    exact ⟨fun hq => (by rw [h.1] at hq; cases hq), ih _ (by simpa using h.2)⟩

/-- text made of well-formed tokens whose sequences contain no guarded character is safe -/
theorem metNormal_segs (Q : Char → Bool) (hE : Q ESC = false) (l : List Seg)
    (hok : ∀ g ∈ l, g.ok = true) (hsafe : ∀ g ∈ l, g.safe Q = true) :
    MetNormal Q .normal (renderSegs l) := by
  induction l with
  | nil => trivial
  | cons g gs ih =>
    simp only [renderSegs, List.map_cons, List.flatten_cons]
    rw [metNormal_append, (seg_step (fun _ => 0) g (hok g (by simp))).1]
    refine ⟨?_, ih (fun x hx => hok x (by simp [hx])) (fun x hx => hsafe x (by simp [hx]))⟩
    have hs := hsafe g (by simp)
    cases g with
    | ch c => exact ⟨fun _ => rfl, trivial⟩
    | csi p f =>
      simp only [Seg.safe, Bool.and_eq_true, Bool.not_eq_true'] at hs
      apply metNormal_none
      simp only [Seg.render, List.cons_append, List.nil_append, List.all_cons, List.all_append, hE, hs.2,
        hs.1.2, hs.1.1, List.all_nil]
      simp
    | osc b e =>
      simp only [Seg.safe, Bool.and_eq_true, Bool.not_eq_true'] at hs
      apply metNormal_none
      simp only [Seg.render, List.cons_append, List.nil_append, List.all_cons, List.all_append, hE, hs.2,
        hs.1.2, hs.1.1]
      simp

theorem guardChars_esc (sp : Splitter) : guardChars sp ESC = false := by
  cases sp <;> simp [guardChars, ESC, SP, HY]

/-- **lines made of visible characters and well-formed CSI/OSC sequences that contain no space
    (and, with the hyphen splitter, no hyphen) are safe** -/
theorem seqSafe_of_segs (sp : Splitter) (l : List Seg) (hok : ∀ g ∈ l, g.ok = true)
    (hsafe : ∀ g ∈ l, g.safe (guardChars sp) = true) : SeqSafe sp (renderSegs l) :=
  ⟨metNormal_segs _ (guardChars_esc sp) l hok hsafe, (segs_run (fun _ => 0) l hok).1⟩

/-! ### the executable form used by the driver -/

theorem metNormalB_iff (P : Char → Bool) (s : Ansi) (t : Text) :
    metNormalB P s t = true ↔ MetNormal P s t := by
  induction t generalizing s with
  | nil => simp [metNormalB, MetNormal]
  | cons c cs ih =>
    simp only [metNormalB, MetNormal, Bool.and_eq_true, Bool.or_eq_true, Bool.not_eq_true', ih,
      beq_iff_eq]
    constructor
    · rintro ⟨h1, h2⟩
      refine ⟨fun hp => ?_, h2⟩
      rcases h1 with h1 | h1
      · rw [h1] at hp; cases hp
      · exact h1
    · rintro ⟨h1, h2⟩
      refine ⟨?_, h2⟩
      cases hp : P c with
      | false => exact Or.inl rfl
      | true => exact Or.inr (h1 hp)

/-- the driver's `seqsafe` operation decides `SeqSafe` -/
theorem seqSafeB_iff (sp : Splitter) (t : Text) :
    seqSafeB (match sp with | .hyphen => true | _ => false) t = true ↔ SeqSafe sp t := by
  unfold seqSafeB SeqSafe
  rw [Bool.and_eq_true, metNormalB_iff, beq_iff_eq]
  have : (fun c => c == ' ' || ((match sp with | .hyphen => true | _ => false) && c == '-')) = guardChars sp := by
    funext c
    cases sp <;> simp [guardChars, SP, HY]
  rw [this]

end TW

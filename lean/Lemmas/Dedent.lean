/-
  Lemmas for `dedent`: longest common prefixes and the narrowing loop.
-/
import TextwrapModel.Indent
import Lemmas.Bytes
namespace TW

/-- longest common prefix -/
def lcp : Text → Text → Text
  | a :: as, b :: bs => if a = b then a :: lcp as bs else []
  | _, _ => []

theorem lcp_prefix_left (a b : Text) : lcp a b <+: a := by
  induction a generalizing b with
  | nil => simp [lcp]
  | cons x xs ih =>
    cases b with
    | nil => simp [lcp]
    | cons y ys =>
      simp only [lcp]
      split
      · exact List.cons_prefix_cons.mpr ⟨rfl, ih ys⟩
      · simp

theorem lcp_prefix_right (a b : Text) : lcp a b <+: b := by
  induction a generalizing b with
  | nil => simp [lcp]
  | cons x xs ih =>
    cases b with
    | nil => simp [lcp]
    | cons y ys =>
      simp only [lcp]
      split
      · next h => subst h; exact List.cons_prefix_cons.mpr ⟨rfl, ih ys⟩
      · simp

theorem prefix_lcp (w a b : Text) (ha : w <+: a) (hb : w <+: b) : w <+: lcp a b := by
  induction w generalizing a b with
  | nil => simp
  | cons c cs ih =>
    cases a with
    | nil => simp at ha
    | cons x xs =>
      cases b with
      | nil => simp at hb
      | cons y ys =>
        obtain ⟨rfl, ha'⟩ := List.cons_prefix_cons.mp ha
        obtain ⟨rfl, hb'⟩ := List.cons_prefix_cons.mp hb
        simp only [lcp, if_true]
        exact List.cons_prefix_cons.mpr ⟨rfl, ih xs ys ha' hb'⟩

/-- a line that contains a non-whitespace character -/
def nonblank (isWs : Char → Bool) (l : Text) : Bool := !(l.all isWs)

theorem leadingWs_prefix (isWs : Char → Bool) (l : Text) : leadingWs isWs l <+: l := by
  induction l with
  | nil => simp [leadingWs]
  | cons c cs ih =>
    simp only [leadingWs]
    split
    · exact List.cons_prefix_cons.mpr ⟨rfl, ih⟩
    · simp

theorem leadingWs_all (isWs : Char → Bool) (l : Text) : (leadingWs isWs l).all isWs = true := by
  induction l with
  | nil => simp [leadingWs]
  | cons c cs ih =>
    simp only [leadingWs]
    split
    · next h => simp [h, ih]
    · simp

/-- an all-whitespace prefix of a line is a prefix of its leading whitespace -/
theorem prefix_leadingWs (isWs : Char → Bool) (w l : Text) (hw : w.all isWs = true) (h : w <+: l) :
    w <+: leadingWs isWs l := by
  induction w generalizing l with
  | nil => simp
  | cons c cs ih =>
    cases l with
    | nil => simp at h
    | cons x xs =>
      obtain ⟨rfl, h'⟩ := List.cons_prefix_cons.mp h
      simp only [List.all_cons, Bool.and_eq_true] at hw
      simp only [leadingWs, hw.1, if_true]
      exact List.cons_prefix_cons.mpr ⟨rfl, ih xs hw.2 h'⟩

theorem all_of_prefix {p : Char → Bool} {a b : Text} (h : a <+: b) (hb : b.all p = true) : a.all p = true := by
  obtain ⟨t, rfl⟩ := h
  simp only [List.all_append, Bool.and_eq_true] at hb
  exact hb.1

/-- `zipMismatchLine` finds the longest common prefix when there is a mismatch inside both -/
theorem zipMismatchLine_some (a b p : Text) (h : zipMismatchLine a b = some p) :
    p = lcp a b ∧ blen p < blen a ∧ blen p < blen b := by
  induction a generalizing b p with
  | nil => simp [zipMismatchLine] at h
  | cons x xs ih =>
    cases b with
    | nil => simp [zipMismatchLine] at h
    | cons y ys =>
      simp only [zipMismatchLine] at h
      split at h
      · next hxy =>
        subst hxy
        cases hr : zipMismatchLine xs ys with
        | none => simp [hr] at h
        | some q =>
          simp only [hr, Option.map_some, Option.some.injEq] at h
          subst h
          obtain ⟨h1, h2, h3⟩ := ih ys q hr
          simp only [lcp, if_true, blen_cons]
          exact ⟨by rw [h1], by omega, by omega⟩
      · next hxy =>
        simp only [Option.some.injEq] at h
        subst h
        have := utf8Size_pos x
        have := utf8Size_pos y
        refine ⟨by simp [lcp, hxy], ?_, ?_⟩ <;> simp only [blen_nil, blen_cons] <;> omega

/-- without a mismatch one of the two is a prefix of the other -/
theorem zipMismatchLine_none (a b : Text) (h : zipMismatchLine a b = none) : a <+: b ∨ b <+: a := by
  induction a generalizing b with
  | nil => simp
  | cons x xs ih =>
    cases b with
    | nil => simp
    | cons y ys =>
      simp only [zipMismatchLine] at h
      split at h
      · next hxy =>
        subst hxy
        cases hr : zipMismatchLine xs ys with
        | some q => simp [hr] at h
        | none =>
          rcases ih ys hr with h1 | h1
          · exact Or.inl (List.cons_prefix_cons.mpr ⟨rfl, h1⟩)
          · exact Or.inr (List.cons_prefix_cons.mpr ⟨rfl, h1⟩)
      · simp at h

theorem lcp_of_prefix (a b : Text) (h : b <+: a) : lcp a b = b := by
  induction b generalizing a with
  | nil => cases a <;> simp [lcp]
  | cons y ys ih =>
    cases a with
    | nil => simp at h
    | cons x xs =>
      obtain ⟨rfl, h'⟩ := List.cons_prefix_cons.mp h
      simp [lcp, ih xs h']

/-- lcp with an all-whitespace string only looks at the leading whitespace -/
theorem lcp_leadingWs (isWs : Char → Bool) (l pre : Text) (hp : pre.all isWs = true) :
    lcp l pre = lcp (leadingWs isWs l) pre := by
  induction l generalizing pre with
  | nil => simp [leadingWs]
  | cons x xs ih =>
    cases pre with
    | nil => simp [lcp]
    | cons y ys =>
      simp only [List.all_cons, Bool.and_eq_true] at hp
      by_cases hxy : x = y
      · subst hxy
        simp [lcp, leadingWs, hp.1, ih ys hp.2]
      · simp only [lcp, hxy, if_false]
        simp only [leadingWs]
        split
        · simp [lcp, hxy]
        · simp [lcp]

/-- one step of the narrowing loop on a non-blank line: the prefix becomes the longest common
    prefix with the line's leading whitespace -/
theorem narrow_step (isWs : Char → Bool) (line pre : Text) (hp : pre.all isWs = true)
    (hl : line.all isWs = false) :
    narrowStep line pre = lcp (leadingWs isWs line) pre := by
  rw [← lcp_leadingWs isWs line pre hp]
  unfold narrowStep
  cases h : zipMismatchLine line pre with
  | some p =>
    obtain ⟨h1, h2, h3⟩ := zipMismatchLine_some line pre p h
    subst h1
    simp [h2, h3]
  | none =>
    rcases zipMismatchLine_none line pre h with h1 | h1
    · -- a non-blank line cannot be a prefix of an all-whitespace string
      have := all_of_prefix h1 hp
      rw [this] at hl; cases hl
    · simp [lcp_of_prefix line pre h1]

theorem dedentNarrow_eq (isWs : Char → Bool) (rest : List Text) (pre : Text) (hp : pre.all isWs = true) :
    dedentNarrow isWs rest pre =
      ((rest.filter (nonblank isWs)).map (leadingWs isWs)).foldl (fun acc w => lcp w acc) pre := by
  induction rest generalizing pre with
  | nil => simp [dedentNarrow]
  | cons l ls ih =>
    simp only [dedentNarrow]
    split
    · next hb =>
      have : nonblank isWs l = false := by simp [nonblank, hb]
      simp [List.filter, this, ih pre hp]
    · next hb =>
      have hb' : l.all isWs = false := by simpa using hb
      have : nonblank isWs l = true := by simp [nonblank, hb']
      rw [narrow_step isWs l pre hp hb']
      simp only [List.filter, this, List.map_cons, List.foldl_cons]
      exact ih _ (all_of_prefix (lcp_prefix_right _ _) hp)

theorem dedentSeed_eq (isWs : Char → Bool) (ls : List Text) :
    dedentSeed isWs ls =
      match ls.dropWhile (fun l => l.all isWs) with
      | [] => ([], [])
      | l :: rest => (leadingWs isWs l, rest) := by
  induction ls with
  | nil => simp [dedentSeed]
  | cons l ls ih =>
    simp only [dedentSeed, List.dropWhile]
    split
    · next h => simp [h, ih]
    · next h => simp [h]

end TW

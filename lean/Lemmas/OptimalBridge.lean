/-
  Bridge from the executable model of `wrap_optimal_fit` (tables over `Int`) to the abstract
  instance of Lemmas/OptimalCore.lean, and the optimality of the back-tracked arrangement for
  every `minima` that conforms to the column-minima contract.
-/
import Lemmas.OptimalCore
import Lemmas.OptimalShape
import Lemmas.Bytes
namespace TW

open TW.Opt

abbrev IFrag := Frag Int

def fragD : IFrag := ⟨0, 0, 0⟩

/-- the abstract instance of a concrete fragment list (the `short` field is filled in below) -/
def instBase (pen : Penalties) (lws : List Int) (frs : List IFrag) : Inst :=
  { n := frs.length
    w := fun k => (frs.getD k fragD).w
    ws := fun k => (frs.getD k fragD).ws
    pen := fun k => (frs.getD k fragD).pen
    T0 := CostNum.max1 (lws.getD 0 (defaultLw lws))
    T1 := CostNum.max1 (lws.getD 1 (defaultLw lws))
    P := pen.nline
    O := pen.overflow
    S := pen.shortPen
    H := pen.hyphen
    short := fun _ => false }

def instOf (pen : Penalties) (lws : List Int) (frs : List IFrag) : Inst :=
  let b := instBase pen lws frs
  { b with short := fun i => CostNum.shortLine (b.x b.n - b.W i) (b.t i) pen.shortFrac }

theorem instOf_W (pen : Penalties) (lws : List Int) (frs : List IFrag) (k : Nat) :
    (instOf pen lws frs).W k = (instBase pen lws frs).W k := by
  induction k with
  | zero => rfl
  | succ k ih => simp only [Inst.W, ih]; rfl

theorem instOf_x (pen : Penalties) (lws : List Int) (frs : List IFrag) (k : Nat) :
    (instOf pen lws frs).x k = (instBase pen lws frs).x k := by
  simp only [Inst.x, instOf_W]; rfl

/-- sum of `w + ws` over the first `k` fragments (left recursion) -/
def sumTo : List IFrag → Nat → Int
  | _, 0 => 0
  | [], _ + 1 => 0
  | f :: fs, k + 1 => (f.w + f.ws) + sumTo fs k

theorem go_getD (acc : Int) (l : List IFrag) (k : Nat) (hk : k < l.length) :
    (prefixWidths.go acc l).getD k 0 = acc + sumTo l (k + 1) := by
  induction l generalizing acc k with
  | nil => simp at hk
  | cons f fs ih =>
    cases k with
    | zero => simp [prefixWidths.go, sumTo]
    | succ k =>
      simp only [prefixWidths.go, List.getD_cons_succ]
      rw [ih _ k (by simpa using hk)]
      simp only [sumTo]; omega

theorem sumTo_succ (l : List IFrag) (k : Nat) (hk : k < l.length) :
    sumTo l (k + 1) = sumTo l k + (l.getD k fragD).w + (l.getD k fragD).ws := by
  induction l generalizing k with
  | nil => simp at hk
  | cons f fs ih =>
    cases k with
    | zero => simp [sumTo]
    | succ k =>
      simp only [sumTo, List.getD_cons_succ]
      rw [ih k (by simpa using hk)]; omega

theorem W_eq_sumTo (pen : Penalties) (lws : List Int) (frs : List IFrag) (k : Nat) (hk : k ≤ frs.length) :
    (instBase pen lws frs).W k = sumTo frs k := by
  induction k with
  | zero => cases frs <;> rfl
  | succ k ih =>
    rw [sumTo_succ frs k (by omega), ← ih (by omega)]
    rfl

/-- prefix sums agree -/
theorem prefixWidths_getD (frs : List IFrag) (k : Nat) (hk : k ≤ frs.length) (pen : Penalties) (lws : List Int) :
    (prefixWidths frs).getD k 0 = (instOf pen lws frs).W k := by
  rw [instOf_W, W_eq_sumTo pen lws frs k hk]
  cases k with
  | zero => cases frs <;> simp [prefixWidths, sumTo]
  | succ k =>
    simp only [prefixWidths, List.getD_cons_succ]
    rw [go_getD 0 frs k (by omega)]; simp

/-- with at most two listed widths the target of line number `k` only depends on `k = 0` -/
theorem lws_getD_two (lws : List Int) (h : lws.length ≤ 2) (k : Nat) (hk : 1 ≤ k) :
    lws.getD k (defaultLw lws) = lws.getD 1 (defaultLw lws) := by
  match lws, h with
  | [], _ => simp
  | [a], _ => 
    obtain ⟨m, rfl⟩ : ∃ m, k = m + 1 := ⟨k - 1, by omega⟩
    simp
  | [a, b], _ =>
    obtain ⟨m, rfl⟩ : ∃ m, k = m + 1 := ⟨k - 1, by omega⟩
    cases m with
    | zero => rfl
    | succ m => simp [defaultLw]

/-! ### the table rebuilt from the rows -/

section Table
variable (pen : Penalties) (lws : List Int) (frs : List IFrag) (r : Nat → Nat)

local notation "W" => prefixWidths frs

theorem dpTable_length (m : Nat) : (dpTable pen lws frs W r m).length = m + 1 := by
  induction m with
  | zero => rfl
  | succ m ih => simp [dpTable, ih]

theorem dpTable_prefix (j m : Nat) (h : j ≤ m) (d : Int × Nat) :
    (dpTable pen lws frs W r m).getD j d = (dpTable pen lws frs W r j).getD j d := by
  induction m with
  | zero => have : j = 0 := by omega
            subst this; rfl
  | succ m ih =>
    by_cases hj : j = m + 1
    · subst hj; rfl
    · rw [← ih (by omega)]
      simp only [dpTable]
      rw [getD_append_left' _ _ _ _ (by rw [dpTable_length]; omega)]

/-- `cellCost` reads the table only at row `i` -/
theorem cellCost_congr (t1 t2 : List (Int × Nat)) (i j : Nat) (h : t1.getD i (0, 0) = t2.getD i (0, 0)) :
    cellCost pen lws frs W t1 i j = cellCost pen lws frs W t2 i j := by
  simp only [cellCost, h]

/-- optimal cost and line number of breaking before fragment `j`, as the table has them -/
def Dv (n j : Nat) : Int := ((dpTable pen lws frs W r n).getD j (0, 0)).1
def lnv (n j : Nat) : Nat := ((dpTable pen lws frs W r n).getD j (0, 0)).2

theorem Dv_zero (n : Nat) : Dv pen lws frs r n 0 = 0 ∧ lnv pen lws frs r n 0 = 0 := by
  unfold Dv lnv
  rw [dpTable_prefix pen lws frs r 0 n (Nat.zero_le _)]
  exact ⟨rfl, rfl⟩

theorem Dv_succ (n j : Nat) (hj : j + 1 ≤ n) (hr : r (j + 1) ≤ j) :
    Dv pen lws frs r n (j + 1) = cellCost pen lws frs W (dpTable pen lws frs W r n) (r (j + 1)) (j + 1) ∧
    lnv pen lws frs r n (j + 1) = lnv pen lws frs r n (r (j + 1)) + 1 := by
  unfold Dv lnv
  rw [dpTable_prefix pen lws frs r (j + 1) n hj]
  simp only [dpTable]
  rw [getD_append_right' _ _ _ _ (by rw [dpTable_length])]
  simp only [dpTable_length, Nat.sub_self, List.getD_cons_zero]
  have hpre : (dpTable pen lws frs W r j).getD (r (j + 1)) (0, 0) =
      (dpTable pen lws frs W r n).getD (r (j + 1)) (0, 0) := by
    rw [dpTable_prefix pen lws frs r (r (j + 1)) n (by omega),
        dpTable_prefix pen lws frs r (r (j + 1)) j hr]
  exact ⟨cellCost_congr pen lws frs _ _ _ _ hpre, by rw [hpre]⟩

theorem lnv_pos (n : Nat) (hr : ∀ j, 1 ≤ j → j ≤ n → r j < j) (j : Nat) (h1 : 1 ≤ j) (hj : j ≤ n) :
    1 ≤ lnv pen lws frs r n j := by
  obtain ⟨k, rfl⟩ : ∃ k, j = k + 1 := ⟨j - 1, by omega⟩
  have := (Dv_succ pen lws frs r n k hj (by have := hr (k + 1) h1 hj; omega)).2
  omega

end Table

/-- the cost closure with an explicit line number `ln` and accumulated cost `Di` is the abstract
    `Di + c i j`, provided `ln = 0` exactly for the first line (`i = 0`) and at most two line
    widths are listed -/
theorem lineCost_eq (pen : Penalties) (lws : List Int) (hl : lws.length ≤ 2) (frs : List IFrag)
    (i j ln : Nat) (Di : Int) (hij : i < j) (hj : j ≤ frs.length) (hln : ln = 0 ↔ i = 0) :
    lineCost pen lws frs.length ((prefixWidths frs).getD i 0) ((prefixWidths frs).getD j 0)
        (frs.getD (j - 1) ⟨0, 0, 0⟩) Di ln i j =
      Di + (instOf pen lws frs).c i j := by
  have hWi := prefixWidths_getD frs i (by omega) pen lws
  have hWj := prefixWidths_getD frs j hj pen lws
  have htarget : CostNum.max1 (lws.getD ln (defaultLw lws)) = (instOf pen lws frs).t i := by
    by_cases hi : i = 0
    · have : ln = 0 := hln.mpr hi
      subst hi; subst this
      simp [Inst.t, instOf, instBase]
    · have : 1 ≤ ln := by
        rcases Nat.eq_zero_or_pos ln with h | h
        · exact absurd (hln.mp h) hi
        · exact h
      rw [lws_getD_two lws hl _ this]
      simp [Inst.t, instOf, instBase, hi]
  obtain ⟨k, rfl⟩ : ∃ k, j = k + 1 := ⟨j - 1, by omega⟩
  have hx : (instOf pen lws frs).x (k + 1) =
      (instOf pen lws frs).W (k + 1) - (frs.getD k fragD).ws + (frs.getD k fragD).pen := by
    simp [Inst.x, instOf, instBase]
  have hshort : (instOf pen lws frs).short i =
      CostNum.shortLine ((instOf pen lws frs).x frs.length - (instOf pen lws frs).W i) ((instOf pen lws frs).t i) pen.shortFrac := by
    have h0 : (instOf pen lws frs).short i =
        CostNum.shortLine ((instBase pen lws frs).x frs.length - (instBase pen lws frs).W i)
          ((instBase pen lws frs).t i) pen.shortFrac := rfl
    rw [h0, instOf_x, instOf_W]
    rfl
  simp only [lineCost, Nat.add_sub_cancel]
  rw [hWi, hWj, htarget]
  simp only [Inst.c, Inst.hy, hcost, hx, Nat.add_sub_cancel]
  have hn : (instOf pen lws frs).n = frs.length := rfl
  have hP : (instOf pen lws frs).P = (pen.nline : Int) := rfl
  have hO : (instOf pen lws frs).O = (pen.overflow : Int) := rfl
  have hS : (instOf pen lws frs).S = (pen.shortPen : Int) := rfl
  have hH : (instOf pen lws frs).H = (pen.hyphen : Int) := rfl
  have hpen : (instOf pen lws frs).pen k = (frs.getD k fragD).pen := rfl
  rw [hn, hP, hO, hS, hH, hpen]
  have hfrs : (frs.getD k ({ w := 0, ws := 0, pen := 0 } : IFrag)) = frs.getD k fragD := rfl
  rw [hfrs]
  have ofn : ∀ m : Nat, (CostNum.ofNat (α := Int) m) = (m : Int) := fun _ => rfl
  simp only [ofn]
  by_cases hlast : k + 1 < frs.length
  · simp only [hlast, if_true]
    generalize (instOf pen lws frs).t i = T
    generalize (instOf pen lws frs).W i = WI
    generalize (instOf pen lws frs).W (k + 1) = WK
    generalize (frs.getD k fragD).ws = ws
    generalize (frs.getD k fragD).pen = pn
    have e : WK - WI - ws + pn = WK - ws + pn - WI := by ring
    rw [e]
    split_ifs <;> ring
  · have hkn : k + 1 = frs.length := by omega
    simp only [hlast, if_false]
    rw [hshort, ← hkn, hx]
    generalize (instOf pen lws frs).t i = T
    generalize (instOf pen lws frs).W i = WI
    generalize (instOf pen lws frs).W (k + 1) = WK
    generalize (frs.getD k fragD).ws = ws
    generalize (frs.getD k fragD).pen = pn
    have e : WK - WI - ws + pn = WK - ws + pn - WI := by ring
    rw [e]
    split_ifs <;> ring

/-- the concrete matrix entry is the abstract one -/
theorem cellCost_eq (pen : Penalties) (lws : List Int) (hl : lws.length ≤ 2) (frs : List IFrag) (r : Nat → Nat)
    (hr : ∀ j, 1 ≤ j → j ≤ frs.length → r j < j) (i j : Nat) (hij : i < j) (hj : j ≤ frs.length) :
    cellCost pen lws frs (prefixWidths frs) (dpTable pen lws frs (prefixWidths frs) r frs.length) i j =
      Dv pen lws frs r frs.length i + (instOf pen lws frs).c i j := by
  unfold cellCost
  apply lineCost_eq pen lws hl frs i j _ _ hij hj
  constructor
  · intro h
    rcases Nat.eq_zero_or_pos i with h0 | h0
    · exact h0
    · have := lnv_pos pen lws frs r frs.length hr i h0 (by omega)
      unfold lnv at this; omega
  · intro h; subst h; exact (Dv_zero pen lws frs r frs.length).2

/-! ### optimality of the back-tracked arrangement -/

/-- the column-minima contract, in the model's own terms (what the driver validates on the rows
    the real `smawk` returned) -/
structure IsMinimaRows (pen : Penalties) (lws : List Int) (frs : List IFrag) (rows : List Nat) : Prop where
  shape : RowsShape rows frs.length
  minimal : ∀ i j, i < j → j ≤ frs.length →
    Dv pen lws frs (fun j => rows.getD j 0) frs.length j ≤
      cellCost pen lws frs (prefixWidths frs)
        (dpTable pen lws frs (prefixWidths frs) (fun j => rows.getD j 0) frs.length) i j

theorem isColMinima_of_rows (pen : Penalties) (lws : List Int) (hl : lws.length ≤ 2) (frs : List IFrag)
    (rows : List Nat) (h : IsMinimaRows pen lws frs rows) :
    IsColMinima frs.length (instOf pen lws frs).c
      (Dv pen lws frs (fun j => rows.getD j 0) frs.length) (fun j => rows.getD j 0) := by
  have hr := h.shape.2
  refine ⟨(Dv_zero pen lws frs _ frs.length).1, hr, ?_, ?_⟩
  · intro j h1 hj
    obtain ⟨k, rfl⟩ : ∃ k, j = k + 1 := ⟨j - 1, by omega⟩
    have hlt := hr (k + 1) h1 hj
    rw [(Dv_succ pen lws frs _ frs.length k hj (by omega)).1]
    exact cellCost_eq pen lws hl frs _ hr _ _ hlt hj
  · intro i j hij hj
    have := h.minimal i j hij hj
    rwa [cellCost_eq pen lws hl frs _ hr i j hij hj] at this

/-- total of a cost function over a list of segments -/
def segCost (c : Nat → Nat → Int) (segs : List (Nat × Nat)) : Int := (segs.map fun p => c p.1 p.2).sum

theorem D_le_segs {n : Nat} {c : Nat → Nat → Int} {D : Nat → Int} {r : Nat → Nat}
    (h : IsColMinima n c D r) {s e : Nat} {segs : List (Nat × Nat)} (hc : SegChain s segs e) (he : e ≤ n) :
    D e ≤ D s + segCost c segs := by
  induction segs generalizing s with
  | nil => simp only [SegChain] at hc; subst hc; simp [segCost]
  | cons p rest ih =>
    obtain ⟨a, b⟩ := p
    obtain ⟨h1, h2, h3⟩ := hc
    subst h1
    have := ih h3
    have hle := h.le a b h2 (Nat.le_trans h3.le he)
    simp only [segCost, List.map_cons, List.sum_cons] at this ⊢
    linarith

theorem backtrackGo_cost {n : Nat} {c : Nat → Nat → Int} {D : Nat → Int} {r : Nat → Nat}
    (h : IsColMinima n c D r) (fuel pos : Nat) (h1 : 1 ≤ pos) (hp : pos ≤ n) (segs : List (Nat × Nat))
    (hs : backtrackGo r fuel pos = some segs) : segCost c segs = D pos := by
  induction fuel generalizing pos segs with
  | zero => simp [backtrackGo] at hs
  | succ fuel ih =>
    have hlt := h.lt pos h1 hp
    simp only [backtrackGo] at hs
    have hnp : ¬ pos < r pos := by omega
    simp only [hnp, if_false] at hs
    by_cases h0 : r pos = 0
    · simp only [h0, if_true, Option.some.injEq] at hs
      subst hs
      have := h.eq pos h1 hp
      rw [h0, h.d0] at this
      simp [segCost, this]
    · simp only [h0, if_false] at hs
      cases hr : backtrackGo r fuel (r pos) with
      | none => simp [hr] at hs
      | some l =>
        simp only [hr, Option.some.injEq] at hs
        subst hs
        have := ih (r pos) (by omega) (by omega) l hr
        simp only [segCost, List.map_cons, List.sum_cons] at this ⊢
        rw [this, h.eq pos h1 hp]; ring

/-- documented total cost of an arrangement given as a chain of segments: line number `k` for
    the first listed segment, `k+1` for the next, …; each line costed by the closure itself with
    accumulated cost 0 -/
def arrCost (pen : Penalties) (lws : List Int) (frs : List IFrag) : Nat → List (Nat × Nat) → Int
  | _, [] => 0
  | k, (a, b) :: rest =>
    lineCost pen lws frs.length ((prefixWidths frs).getD a 0) ((prefixWidths frs).getD b 0)
      (frs.getD (b - 1) ⟨0, 0, 0⟩) 0 k a b + arrCost pen lws frs (k + 1) rest

theorem arrCost_eq_segCost (pen : Penalties) (lws : List Int) (hl : lws.length ≤ 2) (frs : List IFrag)
    (k s e : Nat) (segs : List (Nat × Nat)) (hc : SegChain s segs e) (he : e ≤ frs.length)
    (hk : k = 0 ↔ s = 0) :
    arrCost pen lws frs k segs = segCost (instOf pen lws frs).c segs := by
  induction segs generalizing k s with
  | nil => rfl
  | cons p rest ih =>
    obtain ⟨a, b⟩ := p
    obtain ⟨h1, h2, h3⟩ := hc
    subst h1
    simp only [arrCost, segCost, List.map_cons, List.sum_cons]
    rw [lineCost_eq pen lws hl frs a b k 0 h2 (Nat.le_trans h3.le he) hk]
    have := ih (k + 1) b h3 (by constructor <;> intro h <;> omega)
    simp only [segCost] at this
    rw [this]; ring

/-- **1. any conforming `minima` yields a minimum-cost arrangement** (independent of the
    tie-breaking inside `smawk`): with at most two distinct line widths, for rows satisfying the
    column-minima contract, `wrap_optimal_fit` returns the back-tracked arrangement, and its
    documented total cost (per-line penalty, squared gap on every line but the last, linear
    overflow penalty, short-last-line penalty, hyphen penalty) is ≤ that of every arrangement
    of the fragments into non-empty contiguous lines. -/
theorem optimalFit_min {β : Type} (m : β → IFrag) (pen : Penalties) (lws : List Int) (hl : lws.length ≤ 2)
    (items : List β) (hn : items ≠ []) (rows : List Nat) (hmin : IsMinimaRows pen lws (items.map m) rows) :
    ∃ segs : List (Nat × Nat),
      wrapOptimalFitWith m pen items lws rows =
        .ok (segs.map fun p => (items.drop p.1).take (p.2 - p.1)) ∧
      SegChain 0 segs items.length ∧
      ∀ segs', SegChain 0 segs' items.length →
        arrCost pen lws (items.map m) 0 segs ≤ arrCost pen lws (items.map m) 0 segs' := by
  have hcm := isColMinima_of_rows pen lws hl (items.map m) rows hmin
  have hlm : (items.map m).length = items.length := List.length_map _
  have hlen : 1 ≤ items.length := List.length_pos_iff.mpr hn
  have hshape := hmin.shape.2
  rw [hlm] at hshape hcm
  obtain ⟨segs, h1, h2, _⟩ := backtrackGo_spec (fun j => rows.getD j 0) items.length hshape
    (items.length + 1) items.length hlen (Nat.le_refl _) (by omega)
  refine ⟨segs.reverse, ?_, h2, ?_⟩
  · unfold wrapOptimalFitWith
    simp only [h1]
    have : (dpTable pen lws (items.map m) (prefixWidths (items.map m)) (fun j => rows.getD j 0) items.length).any
        (fun e => CostNum.isInf e.1) = false := by
      simp [CostNum.isInf]
    simp [this]
  · intro segs' hc'
    rw [arrCost_eq_segCost pen lws hl (items.map m) 0 0 items.length _ h2 (by rw [hlm]) (by simp),
        arrCost_eq_segCost pen lws hl (items.map m) 0 0 items.length _ hc' (by rw [hlm]) (by simp)]
    have hD := backtrackGo_cost hcm (items.length + 1) items.length hlen (Nat.le_refl _) segs h1
    have hle := D_le_segs hcm hc' (Nat.le_refl _)
    rw [hcm.d0] at hle
    have hrev : segCost (instOf pen lws (items.map m)).c segs.reverse = segCost (instOf pen lws (items.map m)).c segs := by
      simp [segCost, List.sum_reverse]
    rw [hrev, hD]; linarith


end TW

/-
  What `unicode_linebreak::linebreaks` guarantees by construction, for ANY tables: the reported
  offsets are char boundaries of the text, strictly increasing, at most the byte length; and, given
  one fact about the start-of-text row of the pair table (no break before the first character),
  positive. These are the clauses of the crate's contract that the theorems about the Unicode
  separator (C04 totality, C11, C13) take as hypotheses on `env.opps`.
-/
import TextwrapModel.Linebreak
import Lemmas.Bytes
namespace TW

theorem utf8Size_pos' (c : Char) : 0 < c.utf8Size := Char.utf8Size_pos c

/-- every offset reported from position `i` on is `i + blen l` for a split `l ++ r` of the rest -/
theorem lbGo_boundary (T : LbTables) (st : Nat) (zw : Bool) (i : Nat) (s : Text) :
    ∀ o ∈ lbGo T st zw i s, ∃ l r, s = l ++ r ∧ o = i + blen l := by
  induction s generalizing st zw i with
  | nil =>
    intro o ho
    simp only [lbGo] at ho
    split at ho
    · simp only [List.mem_singleton] at ho
      exact ⟨[], [], rfl, by simp [blen, ho]⟩
    · simp at ho
  | cons c cs ih =>
    intro o ho
    simp only [lbGo] at ho
    have hrest : ∀ o ∈ lbGo T (T.next (T.pair st (T.cls c))) (T.cls c == T.zwj) (i + c.utf8Size) cs,
        ∃ l r, c :: cs = l ++ r ∧ o = i + blen l := by
      intro o ho
      obtain ⟨l, r, hs, hb⟩ := ih _ _ _ o ho
      exact ⟨c :: l, r, by rw [hs]; rfl, by simp only [blen]; omega⟩
    split at ho
    · rcases List.mem_cons.mp ho with h | h
      · exact ⟨[], c :: cs, rfl, by simp [blen, h]⟩
      · exact hrest o h
    · exact hrest o ho

/-- all reported offsets are at least the current position -/
theorem lbGo_ge (T : LbTables) (st : Nat) (zw : Bool) (i : Nat) (s : Text) :
    ∀ o ∈ lbGo T st zw i s, i ≤ o := by
  intro o ho
  obtain ⟨l, _, _, hb⟩ := lbGo_boundary T st zw i s o ho
  omega

/-- … and at most the end of the text -/
theorem lbGo_le (T : LbTables) (st : Nat) (zw : Bool) (i : Nat) (s : Text) :
    ∀ o ∈ lbGo T st zw i s, o ≤ i + blen s := by
  intro o ho
  obtain ⟨l, r, hs, hb⟩ := lbGo_boundary T st zw i s o ho
  have : blen s = blen l + blen r := by rw [hs, blen_append]
  omega

/-- strictly increasing -/
theorem lbGo_pairwise (T : LbTables) (st : Nat) (zw : Bool) (i : Nat) (s : Text) :
    (lbGo T st zw i s).Pairwise (· < ·) := by
  induction s generalizing st zw i with
  | nil => simp only [lbGo]; split <;> simp
  | cons c cs ih =>
    simp only [lbGo]
    split
    · refine List.pairwise_cons.mpr ⟨?_, ih _ _ _⟩
      intro o ho
      have := lbGo_ge T _ _ _ cs o ho
      have := utf8Size_pos' c
      omega
    · exact ih _ _ _

/-- the one fact about the table needed for positivity: from the start-of-text state no break is
    reported, whatever comes first (a class or end of text) — UAX #14 rule LB2 -/
def NoBreakAtSot (T : LbTables) : Prop := ∀ k, T.allowed (T.pair T.sot k) = false

theorem ownOpps_boundary (T : LbTables) (s : Text) :
    ∀ o ∈ ownOpps T s, ∃ l r, s = l ++ r ∧ blen l = o := by
  intro o ho
  obtain ⟨l, r, hs, hb⟩ := lbGo_boundary T _ _ _ s o ho
  exact ⟨l, r, hs, by omega⟩

theorem ownOpps_pairwise (T : LbTables) (s : Text) : (ownOpps T s).Pairwise (· < ·) :=
  lbGo_pairwise T _ _ _ s

theorem ownOpps_le (T : LbTables) (s : Text) : ∀ o ∈ ownOpps T s, o ≤ blen s := by
  intro o ho
  have := lbGo_le T _ _ _ s o ho
  omega

theorem ownOpps_pos (T : LbTables) (h : NoBreakAtSot T) (s : Text) : ∀ o ∈ ownOpps T s, 0 < o := by
  intro o ho
  cases s with
  | nil =>
    simp only [ownOpps, lbGo, LbTables.isBreak, h T.eot] at ho
    simp at ho
  | cons c cs =>
    simp only [ownOpps, lbGo, LbTables.isBreak, h (T.cls c)] at ho
    have := lbGo_ge T _ _ _ cs o (by simpa using ho)
    have := utf8Size_pos' c
    omega

end TW

namespace TW

/-! ### LB7 (no break before a space) as a consequence of three finite facts about the table

The compiled table allows a break before a space only from the states entered by a hard line break
(classes BK, CR, LF, NL), and those states are entered only by reading a character of such a class.
For a text without such characters the scan therefore never reports an offset at a space. -/

/-- finite facts about a table: `nS` states, `nK` classes, `sp` the class of U+0020, `bad` the
    states from which a break before a space is reported, `badCls` the classes that lead there -/
structure LB7Facts (T : LbTables) (nS nK sp : Nat) (bad badCls : Nat → Bool) : Prop where
  noSp : ∀ st, st < nS → bad st = false → T.allowed (T.pair st sp) = false
  stay : ∀ st, st < nS → ∀ k, k < nK → badCls k = false →
    bad (T.next (T.pair st k)) = false ∧ T.next (T.pair st k) < nS
  clsLt : ∀ c, T.cls c < nK
  sot : T.sot < nS ∧ bad T.sot = false

theorem lbGo_noSpace (T : LbTables) {nS nK sp : Nat} {bad badCls : Nat → Bool}
    (F : LB7Facts T nS nK sp bad badCls) (st : Nat) (zw : Bool) (i : Nat) (s : Text)
    (hst : st < nS ∧ bad st = false) (hs : ∀ c ∈ s, badCls (T.cls c) = false) :
    ∀ a c b, s = a ++ c :: b → (i + blen a) ∈ lbGo T st zw i s → T.cls c ≠ sp := by
  induction s generalizing st zw i with
  | nil => intro a c b h; cases a <;> simp at h
  | cons c0 cs ih =>
    intro a c b h ho
    have hstep := F.stay st hst.1 (T.cls c0) (F.clsLt c0) (hs c0 (by simp))
    cases a with
    | nil =>
      simp only [List.nil_append, List.cons.injEq] at h
      obtain ⟨hc, _⟩ := h
      simp only [blen, Nat.add_zero, lbGo] at ho
      have hnot : i ∉ lbGo T (T.next (T.pair st (T.cls c0))) (T.cls c0 == T.zwj) (i + c0.utf8Size) cs := by
        intro hm
        have := lbGo_ge T _ _ _ cs i hm
        have := utf8Size_pos' c0
        omega
      intro hsp
      rw [← hc] at hsp
      split at ho
      · rename_i hbrk
        simp only [LbTables.isBreak, hsp, F.noSp st hst.1 hst.2, Bool.false_and] at hbrk
        exact absurd hbrk (by simp)
      · exact hnot ho
    | cons a0 a' =>
      simp only [List.cons_append, List.cons.injEq] at h
      obtain ⟨hc, hcs⟩ := h
      simp only [lbGo] at ho
      have hmem : (i + c0.utf8Size + blen a') ∈
          lbGo T (T.next (T.pair st (T.cls c0))) (T.cls c0 == T.zwj) (i + c0.utf8Size) cs := by
        have e : i + blen (a0 :: a') = i + c0.utf8Size + blen a' := by simp only [blen, hc]; omega
        rw [e] at ho
        split at ho
        · rcases List.mem_cons.mp ho with h | h
          · have := utf8Size_pos' c0; omega
          · exact h
        · exact ho
      exact ih _ _ _ ⟨hstep.2, hstep.1⟩ (fun x hx => hs x (by simp [hx])) a' c b hcs hmem


/-! ### restart invariance: a part of the text between two opportunities, analysed alone -/


/-- restart invariance of a pair table: wherever a break is allowed, the scan continues as if the
    text started there -/
def RestartInv (T : LbTables) (nS nK : Nat) : Prop :=
  ∀ st, st < nS → ∀ k, k < nK → T.allowed (T.pair st k) = true → T.next (T.pair st k) = T.next (T.pair T.sot k)

/-- membership in `lbGo` beyond the first character only depends on the state after it -/
theorem lbGo_cons_tail (T : LbTables) (st : Nat) (zw : Bool) (i : Nat) (c : Char) (cs : Text) (o : Nat)
    (ho : i < o) :
    o ∈ lbGo T st zw i (c :: cs) ↔
      o ∈ lbGo T (T.next (T.pair st (T.cls c))) (T.cls c == T.zwj) (i + c.utf8Size) cs := by
  simp only [lbGo]
  split
  · constructor
    · intro h
      rcases List.mem_cons.mp h with h | h
      · omega
      · exact h
    · intro h; exact List.mem_cons_of_mem _ h
  · exact Iff.rfl

/-- shifting the start offset shifts every reported offset -/
theorem lbGo_shift (T : LbTables) (st : Nat) (zw : Bool) (i d : Nat) (s : Text) (o : Nat) :
    o ∈ lbGo T st zw i s ↔ o + d ∈ lbGo T st zw (i + d) s := by
  induction s generalizing st zw i with
  | nil =>
    simp only [lbGo]
    split <;> simp <;> omega
  | cons c cs ih =>
    simp only [lbGo]
    have e : i + d + c.utf8Size = i + c.utf8Size + d := by omega
    split
    · simp only [List.mem_cons, e]
      rw [← ih]
      constructor
      · rintro (h | h)
        · left; omega
        · right; exact h
      · rintro (h | h)
        · left; omega
        · right; exact h
    · rw [e, ← ih]


/-- the scan state after a prefix -/
def lbState (T : LbTables) : Nat → Bool → Text → Nat × Bool
  | st, zw, [] => (st, zw)
  | st, _, c :: cs => lbState T (T.next (T.pair st (T.cls c))) (T.cls c == T.zwj) cs

/-- offsets at or beyond the end of a prefix depend on the prefix only through the state after it -/
theorem lbGo_append (T : LbTables) (st : Nat) (zw : Bool) (i : Nat) (A s : Text) (o : Nat)
    (ho : i + blen A ≤ o) :
    o ∈ lbGo T st zw i (A ++ s) ↔
      o ∈ lbGo T (lbState T st zw A).1 (lbState T st zw A).2 (i + blen A) s := by
  induction A generalizing st zw i with
  | nil => simp [lbState, blen]
  | cons a A ih =>
    have hpos := utf8Size_pos' a
    simp only [blen] at ho
    rw [List.cons_append, lbGo_cons_tail T st zw i a (A ++ s) o (by omega)]
    rw [ih _ _ (i + a.utf8Size) (by omega)]
    simp only [lbState, blen]
    rw [Nat.add_assoc]

/-- table facts for restart invariance: states stay in range, classes are columns -/
structure RestartFacts (T : LbTables) (nS nK : Nat) : Prop where
  inv : RestartInv T nS nK
  stay : ∀ st, st < nS → ∀ k, k < nK → T.next (T.pair st k) < nS
  clsLt : ∀ c, T.cls c < nK
  sot : T.sot < nS

theorem lbState_lt (T : LbTables) {nS nK : Nat} (F : RestartFacts T nS nK) (st : Nat) (zw : Bool) (A : Text)
    (h : st < nS) : (lbState T st zw A).1 < nS := by
  induction A generalizing st zw with
  | nil => exact h
  | cons a A ih => exact ih _ _ (F.stay st h _ (F.clsLt a))

/-- **restart invariance of `linebreaks`**: if an opportunity is reported at the start of a suffix,
    the opportunities inside the suffix are those of the suffix analysed on its own — a word of the
    Unicode separator keeps its (lack of) inner opportunities when it is wrapped again alone -/
theorem ownOpps_restart (T : LbTables) {nS nK : Nat} (F : RestartFacts T nS nK) (A : Text) (c : Char) (l : Text)
    (h : blen A ∈ ownOpps T (A ++ c :: l)) (o : Nat) (ho : blen A < o) :
    o ∈ ownOpps T (A ++ c :: l) ↔ o - blen A ∈ ownOpps T (c :: l) := by
  unfold ownOpps at h ⊢
  have hA := lbGo_append T T.sot false 0 A (c :: l)
  simp only [Nat.zero_add] at hA
  rw [hA (blen A) (Nat.le_refl _)] at h
  rw [hA o (Nat.le_of_lt ho)]
  generalize hst : lbState T T.sot false A = S at h ⊢
  have hlt : S.1 < nS := by rw [← hst]; exact lbState_lt T F _ _ A F.sot
  have hpos := utf8Size_pos' c
  -- the break before `c` is the head emission
  have hbrk : T.allowed (T.pair S.1 (T.cls c)) = true := by
    simp only [lbGo] at h
    split at h
    · rename_i hb
      simp only [LbTables.isBreak, Bool.and_eq_true] at hb
      exact hb.1
    · have := lbGo_ge T _ _ _ l _ h
      omega
  have hnext := F.inv S.1 hlt (T.cls c) (F.clsLt c) hbrk
  rw [lbGo_cons_tail T S.1 S.2 (blen A) c l o ho, hnext]
  have hsh := lbGo_shift T T.sot false 0 (blen A) (c :: l) (o - blen A)
  rw [hsh]
  have e : o - blen A + blen A = o := by omega
  rw [e, Nat.zero_add, lbGo_cons_tail T T.sot false (blen A) c l o ho]


/-- offsets strictly inside a prefix do not depend on what follows it -/
theorem lbGo_prefix (T : LbTables) (st : Nat) (zw : Bool) (i : Nat) (l B : Text) (o : Nat)
    (ho : o < i + blen l) : o ∈ lbGo T st zw i (l ++ B) ↔ o ∈ lbGo T st zw i l := by
  induction l generalizing st zw i with
  | nil =>
    simp only [blen, Nat.add_zero] at ho
    constructor
    · intro h; have := lbGo_ge T _ _ _ _ o h; omega
    · intro h; have := lbGo_ge T _ _ _ _ o h; omega
  | cons a l ih =>
    simp only [blen] at ho
    simp only [List.cons_append, lbGo]
    have := ih (T.next (T.pair st (T.cls a))) (T.cls a == T.zwj) (i + a.utf8Size) (by omega)
    split
    · simp only [List.mem_cons, this]
    · exact this

theorem ownOpps_prefix (T : LbTables) (l B : Text) (o : Nat) (ho : o < blen l) :
    o ∈ ownOpps T (l ++ B) ↔ o ∈ ownOpps T l :=
  lbGo_prefix T _ _ 0 l B o (by omega)

end TW

/-
  Lemmas for `unfill`: the two line iterators (`str::lines` and `NonEmptyLines`) agree, the
  detected indents are prefixes of the lines they are sliced off.
-/
import TextwrapModel.Refill
import Lemmas.Split
import Lemmas.Dedent
namespace TW

/-- `split_inclusive('\n')` from the `split('\n')` pieces -/
def inclOf : List Text → List Text
  | [] => []
  | [last] => if last.isEmpty then [] else [last]
  | p :: q :: r => (p ++ [LF]) :: inclOf (q :: r)

theorem splitInclusive_eq (t : Text) : splitInclusiveLF t = inclOf (splitLF t) := by
  induction t with
  | nil => rfl
  | cons c cs ih =>
    simp only [splitInclusiveLF, splitLF]
    split
    · next h =>
      subst h
      rcases hs : splitLF cs with _ | ⟨a, r⟩
      · exact absurd hs (splitLF_ne_nil cs)
      · rw [ih, hs]; simp [inclOf]
    · next h =>
      rcases hs : splitLF cs with _ | ⟨a, r⟩
      · exact absurd hs (splitLF_ne_nil cs)
      · rw [ih, hs]
        cases r with
        | nil =>
          simp only [consHead, inclOf]
          by_cases ha : a.isEmpty = true
          · have : a = [] := by simpa using ha
            subst this; simp
          · simp [ha]
        | cons q r' => simp [consHead, inclOf]

/-- strip one trailing `'\r'` -/
def stripCR (p : Text) : Text := if p.getLast? = some CR then p.dropLast else p

theorem stripLineEnding_LF (p : Text) : stripLineEnding (p ++ [LF]) = stripCR p := by
  unfold stripLineEnding stripSuffixChar? stripCR
  simp only [List.getLast?_append, List.getLast?_singleton, Option.some_or, List.dropLast_concat, if_true]
  cases h : p.getLast? with
  | none => simp
  | some d => by_cases hd : d = CR <;> simp [hd]

theorem stripLineEnding_noLF (p : Text) (h : LF ∉ p) : stripLineEnding p = p := by
  unfold stripLineEnding stripSuffixChar?
  cases hl : p.getLast? with
  | none => rfl
  | some d =>
    have : d ≠ LF := fun he => h (he ▸ List.mem_of_getLast? hl)
    simp [this]

/-- `str::lines()` from the pieces -/
def linesOf : List Text → List Text
  | [] => []
  | [last] => if last.isEmpty then [] else [last]
  | p :: q :: r => stripCR p :: linesOf (q :: r)

theorem lines_eq (t : Text) : lines t = linesOf (splitLF t) := by
  unfold lines
  rw [splitInclusive_eq]
  have hno := splitLF_no_LF t
  generalize splitLF t = ps at hno
  induction ps with
  | nil => rfl
  | cons p r ih =>
    cases r with
    | nil =>
      simp only [inclOf, linesOf]
      split
      · rfl
      · simp [stripLineEnding_noLF p (hno p (by simp))]
    | cons q r' =>
      simp only [inclOf, linesOf, List.map_cons, stripLineEnding_LF]
      rw [ih (fun x hx => hno x (by simp [hx]))]

theorem stripCR_nil_iff (p : Text) : stripCR p = [] ↔ (p = [] ∨ p = [CR]) := by
  unfold stripCR
  constructor
  · intro h
    split at h
    · next hl =>
      obtain ⟨ys, rfl⟩ := List.getLast?_eq_some_iff.mp hl
      simp at h; subst h; right; rfl
    · exact Or.inl h
  · rintro (rfl | rfl)
    · simp
    · simp [CR]

/-- **the two line iterators agree**: `NonEmptyLines` yields exactly the non-empty elements of
    `str::lines()` (the guard of issue #466) -/
theorem nel_eq_lines (t : Text) :
    (nonEmptyLines t).map Prod.fst = (lines t).filter (fun l => !l.isEmpty) := by
  rw [lines_eq]
  unfold nonEmptyLines
  generalize splitLF t = ps
  induction ps with
  | nil => rfl
  | cons p r ih =>
    cases r with
    | nil =>
      simp only [nelGo, linesOf]
      by_cases hp : p.isEmpty = true <;> simp [hp]
    | cons q r' =>
      simp only [nelGo, linesOf, List.map_append, ih, List.filter_cons]
      by_cases h1 : p.isEmpty = true
      · have : p = [] := by simpa using h1
        subst this; simp [stripCR]
      · by_cases h2 : p = [CR]
        · subst h2; simp [stripCR, CR]
        · have hp1 : (p.isEmpty || p == [CR]) = false := by simp [h1, h2]
          have hne : stripCR p ≠ [] := by
            intro he
            rcases (stripCR_nil_iff p).mp he with h | h
            · subst h; simp at h1
            · exact h2 h
          have hne' : (!(stripCR p).isEmpty) = true := by simpa using hne
          simp only [hp1, hne', if_true]
          unfold stripCR
          by_cases h3 : p.getLast? = some CR <;> simp [h3]

/-! ### prefix detection -/

theorem take_trimStart (p : Char → Bool) (l : Text) :
    l.take (l.length - (trimStartBy p l).length) = l.takeWhile p := by
  induction l with
  | nil => rfl
  | cons c cs ih =>
    simp only [trimStartBy, List.takeWhile]
    by_cases hc : p c = true
    · simp only [hc, if_true]
      have hle : (trimStartBy p cs).length ≤ cs.length := by
        clear ih
        induction cs with
        | nil => simp [trimStartBy]
        | cons d ds ihd => simp only [trimStartBy]; split <;> simp; omega
      have : (c :: cs).length - (trimStartBy p cs).length = (cs.length - (trimStartBy p cs).length) + 1 := by
        simp; omega
      rw [this, List.take_succ_cons, ih]
    · simp [hc]

theorem takeWhile_prefix (p : Char → Bool) (l : Text) : l.takeWhile p <+: l := by
  induction l with
  | nil => simp
  | cons c cs ih =>
    simp only [List.takeWhile]
    split
    · exact List.cons_prefix_cons.mpr ⟨rfl, ih⟩
    · simp

theorem takeWhile_all (p : Char → Bool) (l : Text) : (l.takeWhile p).all p = true := by
  induction l with
  | nil => rfl
  | cons c cs ih =>
    simp only [List.takeWhile]
    split
    · next h => simp [h, ih]
    · simp

/-- `zipMismatch` finds the common prefix up to the first mismatch -/
theorem zipMismatch_some (a b p : Text) (h : zipMismatch a b = some p) : p <+: a ∧ p <+: b := by
  induction a generalizing b p with
  | nil => simp [zipMismatch] at h
  | cons x xs ih =>
    cases b with
    | nil => simp [zipMismatch] at h
    | cons y ys =>
      simp only [zipMismatch] at h
      split at h
      · next hxy =>
        subst hxy
        cases hr : zipMismatch xs ys with
        | none => simp [hr] at h
        | some q =>
          simp only [hr, Option.map_some, Option.some.injEq] at h
          subst h
          obtain ⟨h1, h2⟩ := ih ys q hr
          exact ⟨List.cons_prefix_cons.mpr ⟨rfl, h1⟩, List.cons_prefix_cons.mpr ⟨rfl, h2⟩⟩
      · simp only [Option.some.injEq] at h; subst h; simp

theorem zipMismatch_none (a b : Text) (h : zipMismatch a b = none) : a <+: b ∨ b <+: a := by
  induction a generalizing b with
  | nil => simp
  | cons x xs ih =>
    cases b with
    | nil => simp
    | cons y ys =>
      simp only [zipMismatch] at h
      split at h
      · next hxy =>
        subst hxy
        cases hr : zipMismatch xs ys with
        | some q => simp [hr] at h
        | none =>
          rcases ih ys hr with h1 | h1
          · exact Or.inl (List.cons_prefix_cons.mpr ⟨rfl, h1⟩)
          · exact Or.inr (List.cons_prefix_cons.mpr ⟨rfl, h1⟩)
      · simp at h

theorem blen_le_of_prefix {a b : Text} (h : a <+: b) : blen a ≤ blen b := by
  obtain ⟨t, rfl⟩ := h; simp

theorem eq_of_prefix_blen {a b : Text} (h : a <+: b) (hl : blen b ≤ blen a) : a = b := by
  obtain ⟨t, rfl⟩ := h
  simp only [blen_append] at hl
  have : blen t = 0 := by omega
  rw [blen_eq_zero this]; simp

/-- one narrowing step of the subsequent indent: the result is a prefix of both -/
theorem narrow_prefix (pre sub : Text) :
    let sub1 := match zipMismatch pre sub with
      | some p => p
      | none => sub
    let sub2 := if blen pre < blen sub1 then pre else sub1
    sub2 <+: pre ∧ sub2 <+: sub := by
  simp only
  cases h : zipMismatch pre sub with
  | some p =>
    obtain ⟨h1, h2⟩ := zipMismatch_some pre sub p h
    have := blen_le_of_prefix h1
    have hn : ¬ blen pre < blen p := by omega
    simp only [hn, if_false]
    exact ⟨h1, h2⟩
  | none =>
    simp only
    rcases zipMismatch_none pre sub h with h1 | h1
    · split
      · exact ⟨List.prefix_refl _, h1⟩
      · next hlt =>
        have := eq_of_prefix_blen h1 (by omega)
        subst this
        exact ⟨List.prefix_refl _, List.prefix_refl _⟩
    · have := blen_le_of_prefix h1
      have hn : ¬ blen pre < blen sub := by omega
      simp only [hn, if_false]
      exact ⟨h1, List.prefix_refl _⟩

/-- the prefix-character run of a line -/
def prefixOf (l : Text) : Text := l.takeWhile isPrefixChar

/-- result of the scanning loop of `unfill` -/
theorem unfillScan_spec (cw : Char → Nat) (ls : List Text) (idx : Nat) (w : Nat) (ini sub : Text)
    (hsub : sub.all isPrefixChar = true) (hini : ini.all isPrefixChar = true) :
    let r := unfillScan cw ls idx (w, ini, sub)
    r.2.1.all isPrefixChar = true ∧ r.2.2.all isPrefixChar = true ∧
    (2 ≤ idx → r.2.2 <+: sub ∧ ∀ l ∈ ls, r.2.2 <+: prefixOf l) ∧
    (1 ≤ idx → r.2.1 = ini) := by
  induction ls generalizing idx w ini sub with
  | nil => simp [unfillScan, hsub, hini]
  | cons line rest ih =>
    simp only [unfillScan]
    have hpre : line.take (line.length - (trimStartBy isPrefixChar line).length) = prefixOf line :=
      take_trimStart isPrefixChar line
    rw [hpre]
    have hpa : (prefixOf line).all isPrefixChar = true := takeWhile_all _ _
    by_cases h0 : idx = 0
    · subst h0
      simp only [if_true]
      obtain ⟨r1, r2, _, r4⟩ := ih 1 (max w (displayWidth cw line)) (prefixOf line) sub hsub hpa
      exact ⟨r1, r2, fun h => by omega, fun h => by omega⟩
    · by_cases h1 : idx = 1
      · subst h1
        simp only [h0, if_false, if_true]
        obtain ⟨r1, r2, r3, r4⟩ := ih 2 (max w (displayWidth cw line)) ini (prefixOf line) hpa hini
        exact ⟨r1, r2, fun h => by omega, fun _ => r4 (by omega)⟩
      · simp only [h0, h1, if_false]
        obtain ⟨n1, n2⟩ := narrow_prefix (prefixOf line) sub
        have hall : (if blen (prefixOf line) < blen (match zipMismatch (prefixOf line) sub with
            | some p => p | none => sub) then prefixOf line else
            (match zipMismatch (prefixOf line) sub with | some p => p | none => sub)).all isPrefixChar = true :=
          all_of_prefix n2 hsub
        obtain ⟨r1, r2, r3, r4⟩ := ih (idx + 1) (max w (displayWidth cw line)) ini _ hall hini
        refine ⟨r1, r2, ?_, fun _ => r4 (by omega)⟩
        intro hidx
        obtain ⟨q1, q2⟩ := r3 (by omega)
        refine ⟨q1.trans n2, ?_⟩
        intro l hl
        rcases List.mem_cons.mp hl with rfl | hl
        · exact q1.trans n1
        · exact q2 l hl

end TW

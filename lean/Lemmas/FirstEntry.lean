/-
  "First entry": the Unicode separator places a word boundary directly after a visible
  character — escape sequences standing between that character and the next visible one go to
  the following word (`Iterator::find` returns the FIRST index-map entry with the wanted
  stripped offset, and the ESC that begins a sequence has an entry).
-/
import Lemmas.Words
namespace TW

/-- the last character of `t`, scanned from state `s0`, is visible -/
def LastVis (s0 : Ansi) (t : Text) : Prop :=
  ∃ t' d, t = t' ++ [d] ∧ ((s0.run t').step d).2 = true

theorem step_visible_state (s : Ansi) (c : Char) (h : (s.step c).2 = true) : (s.step c).1 = .normal := by
  have hs := step_visible_normal s c h
  subst hs
  simp only [Ansi.step] at h ⊢
  split <;> simp_all

theorem LastVis.run_normal {s0 : Ansi} {t : Text} (h : LastVis s0 t) : s0.run t = .normal := by
  obtain ⟨t', d, rfl, hv⟩ := h
  rw [run_append]
  simp only [Ansi.run]
  exact step_visible_state _ _ hv

theorem LastVis.prepend {s0 : Ansi} (a : Text) {t : Text} (h : LastVis (s0.run a) t) : LastVis s0 (a ++ t) := by
  obtain ⟨t', d, rfl, hv⟩ := h
  exact ⟨a ++ t', d, by simp, by rw [run_append]; exact hv⟩

/-- loop invariant: if the stripped offset equals the next opportunity, the last character
    consumed was visible -/
def EntryInv (s0 : Ansi) (st : Nat) (cur : Text) (opps : List Nat) : Prop :=
  ∀ o, opps.head? = some o → st < o ∨ o < st ∨ (st = o ∧ LastVis s0 cur)

theorem uniGo_first_entry (s0 s : Ansi) (st : Nat) (cur : Text) (opps : List Nat) (rest : Text)
    (hs : s = s0.run cur) (hinc : opps.Pairwise (· < ·)) (J : EntryInv s0 st cur opps) :
    ∀ pre p post, uniGo s st cur opps rest = pre ++ p :: post → pre ≠ [] → LastVis s0 pre.flatten := by
  induction rest generalizing s0 s st cur opps with
  | nil =>
    intro pre p post h hpre
    simp only [uniGo] at h
    split at h
    · simp at h
    · cases pre with
      | nil => exact absurd rfl hpre
      | cons a b =>
        have := congrArg List.length h
        simp at this
  | cons c cs ih =>
    intro pre p post h hpre
    have hrun : (s.step c).1 = s0.run (cur ++ [c]) := by
      rw [run_append, ← hs]; simp [Ansi.run]
    -- the invariant after consuming `c` without a cut, for the same opportunities
    have Jnext : (¬ (s = .normal ∧ ∃ o os, opps = o :: os ∧ st = o)) →
        EntryInv s0 (if (s.step c).2 then st + c.utf8Size else st) (cur ++ [c]) opps := by
      intro hnocut o ho
      by_cases hv : (s.step c).2 = true
      · simp only [hv, if_true]
        have hlv : LastVis s0 (cur ++ [c]) := ⟨cur, c, rfl, by rw [← hs]; exact hv⟩
        have := utf8Size_pos c
        by_cases h1 : st + c.utf8Size < o
        · exact Or.inl h1
        · by_cases h2 : o < st + c.utf8Size
          · exact Or.inr (Or.inl h2)
          · exact Or.inr (Or.inr ⟨by omega, hlv⟩)
      · simp only [hv]
        rcases J o ho with h1 | h1 | ⟨h1, h2⟩
        · exact Or.inl h1
        · exact Or.inr (Or.inl h1)
        · exfalso
          apply hnocut
          refine ⟨by rw [hs]; exact h2.run_normal, ?_⟩
          cases opps with
          | nil => simp at ho
          | cons x xs => simp at ho; exact ⟨x, xs, rfl, by omega⟩
    simp only [uniGo] at h
    split at h
    · next o os =>
      split at h
      · next heq =>
        -- a cut
        cases pre with
        | nil => exact absurd rfl hpre
        | cons a pre' =>
          simp only [List.cons_append, List.cons.injEq] at h
          obtain ⟨rfl, h⟩ := h
          have hcur : LastVis s0 cur := by
            rcases J o rfl with h1 | h1 | ⟨_, h2⟩
            · omega
            · omega
            · exact h2
          by_cases hp' : pre' = []
          · subst hp'; simpa using hcur
          · have hinc' : os.Pairwise (· < ·) := (List.pairwise_cons.mp hinc).2
            have J' : EntryInv .normal (if (Ansi.normal.step c).2 then st + c.utf8Size else st) [c] os := by
              intro o' ho'
              have hlt : o < o' := by
                cases os with
                | nil => simp at ho'
                | cons x xs =>
                  simp at ho'; subst ho'
                  exact (List.pairwise_cons.mp hinc).1 x (by simp)
              by_cases hv : (Ansi.normal.step c).2 = true
              · simp only [hv, if_true]
                have hlv : LastVis .normal [c] := ⟨[], c, rfl, by simpa [Ansi.run] using hv⟩
                by_cases h1 : st + c.utf8Size < o'
                · exact Or.inl h1
                · by_cases h2 : o' < st + c.utf8Size
                  · exact Or.inr (Or.inl h2)
                  · exact Or.inr (Or.inr ⟨by omega, hlv⟩)
              · have hv' : (Ansi.normal.step c).2 = false := by simpa using hv
                simp only [hv', Bool.false_eq_true, if_false]
                exact Or.inl (by omega)
            have := ih .normal (Ansi.normal.step c).1 _ [c] os (by simp [Ansi.run]) hinc' J' pre' p post h hp'
            have hn : s0.run cur = .normal := hs.symm
            simp only [List.flatten_cons]
            apply LastVis.prepend
            rw [hn]; exact this
      · next hne =>
        exact ih s0 _ _ (cur ++ [c]) (o :: os) hrun hinc
          (Jnext (by rintro ⟨_, o', os', e, e2⟩; simp at e; exact hne (by rw [e2, e.1]))) pre p post h hpre
    · next hno =>
      apply ih s0 _ _ (cur ++ [c]) opps hrun hinc _ pre p post h hpre
      apply Jnext
      rintro ⟨e1, o', os', e2, e3⟩
      exact hno o' os' e1 e2

end TW
